/-
  C10 – "when the last handler ends or the Run context is cancelled the router closes itself and Run returns nil", as a
  progress theorem over every reachable state of the repaired model: no fairness about handlers, subscribers or callers.
-/
import WmModel.Props.C10
import WmModel.Lemmas.RouterLifeWatch
namespace Wm.RouterLife
open Wm.Lts

theorem reach_watch : ∀ s, Reach (sys allFixed) s → WatchOk s :=
  inv_of_step' (sys allFixed) WatchOk watch_init
    (fun s a s' hr h ha => watch_step allFixed rfl s a s' (reach_ctl allFixed s hr) h ha)

/-- some step of the router itself (not of a caller, subscriber, handler function or timer) is enabled -/
def InternalEnabled (s : St) : Prop := ∃ a : Action, a.isEnv = false ∧ (act allFixed s a).isSome = true

theorem rh_internal (s : St) (h : Reach (sys allFixed) s) (v : Bool) (c : Option (Nat × Nat))
    (hh : s.hl = .rh v c) : InternalEnabled s := by
  match c with
  | some (i, st) =>
    have h0 := reach_curst allFixed s h v i st hh
    match st with
    | 0 => exact ⟨.rhStep, rfl, by simp [act, hh]⟩
    | 1 => exact ⟨.rhStep, rfl, by simp [act, hh]⟩
    | 2 => exact ⟨.rhSpawn, rfl, by simp [act, hh]⟩
    | n + 3 => omega
  | none =>
    cases hf : s.hs.findIdx? (fun h => !(h.started || h.removed)) with
    | none =>
      have hall : s.hs.all (fun h => h.started || h.removed) = true := by
        rw [List.all_eq_true]; intro y hy
        have := List.findIdx?_eq_none_iff.mp hf y hy
        cases hs1 : y.started <;> cases hs2 : y.removed <;> simp_all
      exact ⟨.rhEnd, rfl, by simp only [act, hh]; simp [hall]⟩
    | some i =>
      obtain ⟨hlt, hp, _⟩ := List.findIdx?_eq_some_iff_getElem.mp hf
      have hi : s.hs[i]? = some s.hs[i] := List.getElem?_eq_getElem hlt
      simp at hp
      exact ⟨.rhSub i, rfl, by simp [act, hh, hi, hp]⟩

/-- the performing Close, once every loop has ended and no invocation is in flight, gets through its two waits and returns -/
theorem performer_internal (s : St) (h : Reach (sys allFixed) s) (k : Nat) (hk : s.closers[k]? = some CPc.waiting)
    (hl : loopsEnded s = true) (hq : noneInFlight s = true) : InternalEnabled s := by
  obtain ⟨hc, _, _, _⟩ := (reach_ctl allFixed s h).k1 k hk
  cases hA : s.wA with
  | false => exact ⟨.wLoops, rfl, by simp [act, hc, hA, hl]⟩
  | true =>
    cases hB : s.wB with
    | idle => exact ⟨.wLock, rfl, by simp [act, hc, hA, hB]⟩
    | held => exact ⟨.wRunning, rfl, by simp [act, hB, hq]⟩
    | done => exact ⟨.closeDone k, rfl, by simp [act, hk, hA, hB]⟩

theorem holder_internal (s : St) (h : Reach (sys allFixed) s) (j : Nat) (hcl : s.cl = some j)
    (hl : loopsEnded s = true) (hq : noneInFlight s = true) : InternalEnabled s := by
  have hctl := reach_ctl allFixed s h
  rcases hctl.k3 j hcl with hj | hj
  · cases hhl : s.hl with
    | free =>
      refine ⟨.closeHL j, rfl, ?_⟩
      simp only [act, hj, hhl]
      cases s.closed <;> simp
    | closer j' => exact performer_internal s h j' (hctl.k4 j' hhl) hl hq
    | rh v c => exact rh_internal s h v c hhl
  · exact performer_internal s h j hj hl hq

/-- **the router closes itself and Run returns nil**: Run is blocked in its wait for the close (handlers registered
    before or after Run – the model does not distinguish), every handler's loop has ended (the last handler ended: by
    Stop, because its subscription was closed, or because the Run context was cancelled) and no invocation is in
    flight.  Then, as long as Run has not returned, a step of the router itself is enabled: the watcher takes the
    buffered token (fix D14), sees `handlersWg = 0`, calls Close; Close gets its locks, its two waits succeed, it
    closes closedCh; Run cancels and returns.  No state on the way is stuck, whatever the callers do. -/
theorem self_close_progress (s : St) (h : Reach (sys allFixed) s)
    (hr : s.run = .waitClosing ∨ s.run = .waitClosed) (hne : s.hs ≠ [])
    (hl : loopsEnded s = true) (hq : noneInFlight s = true) : InternalEnabled s := by
  have hctl := reach_ctl allFixed s h
  have hw := reach_watch s h
  by_cases hclosed : s.closed = true
  · -- a Close is under way or finished
    cases hcc : s.closedCh with
    | true =>
      rcases hr with hr | hr
      · exact ⟨.runCancelStep, rfl, by simp [act, hr, hctl.k6, hclosed]⟩
      · exact ⟨.runRet, rfl, by simp [act, hr, hcc]⟩
    | false =>
      obtain ⟨k, hk⟩ := hctl.k7 hclosed hcc
      exact performer_internal s h k hk hl hq
  · cases hwatch : s.watch with
    | off =>
      have := hw.w1.mp hwatch
      rcases hr with hr | hr <;> rw [hr] at this <;> simp at this
    | presel => exact ⟨.watchArrive, rfl, by simp [act, hwatch]⟩
    | sel =>
      rcases hw.w2 (Or.inr (Or.inr hwatch)) with h1 | h1
      · exact absurd h1 hne
      · exact ⟨.watchTok, rfl, by simp [act, hwatch, h1]⟩
    | wait => exact ⟨.watchZero, rfl, by simp [act, hwatch, hl]⟩
    | check =>
      cases hcl : s.cl with
      | none => exact ⟨.watchCheck, rfl, by simp only [act, hwatch, hcl]; cases s.closed <;> simp⟩
      | some j => exact holder_internal s h j hcl hl hq
    | done =>
      rcases hw.w3 hwatch with h1 | ⟨k, hk⟩
      · exact absurd h1 hclosed
      · cases hcl : s.cl with
        | some j => exact holder_internal s h j hcl hl hq
        | none =>
          rcases hk with hk | hk
          · exact ⟨.closeCL k, rfl, by simp [act, hk, hcl]⟩
          · have := hctl.k2 k hk; rw [hcl] at this; cases this

/-- … and when Run has returned the close has completed; with every loop ended and nothing in flight the timeout branch is
    the only way it could have reported an error (the nil branch `closeDone` was enabled – `performer_internal`) -/
theorem run_returned_means_closed (s : St) (h : Reach (sys allFixed) s) (hr : s.run = .ret) :
    s.closedCh = true ∧ s.closed = true ∧ (s.closeNil = true ∨ s.closeErr = true) := by
  have hctl := reach_ctl allFixed s h
  have hcc := hctl.k8.1 hr
  exact ⟨hcc, hctl.k5.1 hcc, hctl.k5.2.mp hcc⟩

/-- the Run context is cancelled: every live subscription can end (the subscriber honours its context) and every
    handleClose goroutine at its select can proceed – the handlers wind down without any further caller action -/
theorem cancel_winds_handlers_down (s : St) (i : Nat) (y : Handler) (hy : s.hs[i]? = some y) (hc : s.extCancel = true) :
    (y.pump ≠ .off → y.innerClosed = false → (act allFixed s (.innerCtx i)).isSome = true) ∧
    (y.hc = .sel → (act allFixed s (.hcCtx i)).isSome = true) := by
  constructor
  · intro hp hic
    simp [act, hy, hp, hic, ctxOf, hc]
  · intro hsel
    simp only [act, hy]
    simp [hsel, ctxOf, hc]
    split <;> simp

end Wm.RouterLife
