/-
  C18 – the last effect of `Wm.ReqReply.command` ("the command processor / Router settle the command message: error ⇒ Nack,
  nil ⇒ Ack") is *derived* from the model of `handler.handleMessage` (WmModel/Handle.lean, tied to the Go source by
  `Props/C02Tie.lean`) and the settlement model of C03: the settlement the subscriber sees after `handleMessage` ran a
  handler closure that returns what `OnCommandProcessed` returned is the `.ack`/`.nack` the request-reply model appends –
  and it comes after every effect of `OnCommandProcessed` (reply published before the command is settled).
-/
import WmModel.ReqReply
import WmModel.Props.C02
namespace Wm.ReqReply
open Wm.Handle (Cfg PubOutcome handle sentAfter AckCond final_settlement)

/-- the command processor's router handler returns no messages; its error is the one `OnCommandProcessed` returned -/
def closureResult (err : Bool) : Handle.Result Unit := .returns [] err

/-- **the settle effect of `command` is what `handleMessage` does with the closure's result** -/
theorem command_settle_eq_handle (k : Ack.Kind) (c : Cfg) (pb : PubOutcome) (ackErrs : Bool) (pre : Pre) (op : Nat)
    (o : HOut) (p : PubRes) :
    command ackErrs pre op o p = (onCommandProcessed ackErrs pre op o p).1 ++
      [if sentAfter k (handle c ⟨none, closureResult (onCommandProcessed ackErrs pre op o p).2⟩ pb) = .ack
       then .ack else .nack] := by
  have hfs := final_settlement k c (closureResult (onCommandProcessed ackErrs pre op o p).2) pb
  unfold command
  simp only
  cases hr : (onCommandProcessed ackErrs pre op o p).2 with
  | true =>
    have : sentAfter k (handle c ⟨none, closureResult true⟩ pb) = .nack := by
      rw [hr] at hfs
      apply hfs.2.2
      rintro ⟨outs, h1, _⟩
      simp [closureResult] at h1
    simp [this]
  | false =>
    have : sentAfter k (handle c ⟨none, closureResult false⟩ pb) = .ack := by
      rw [hr] at hfs
      apply hfs.1.2
      exact ⟨[], rfl, Or.inl rfl⟩
    simp [this]

example : sentAfter .new (handle ⟨.disabled, ""⟩ ⟨none, closureResult true⟩ .accept) = .nack := by decide

end Wm.ReqReply
