/-
  C09 – generated tie: the shapes of the three loops extracted from the current message/router.go
  (`WmModel/Gen/ChainLoops.lean`, rewritten by the extractor on every run), interpreted by `WmModel/ChainGo.lean`,
  compute the same function as the hand-written model for ALL middleware lists / decorator lists, names and
  wrapped objects.
-/
import WmModel.ChainGo
import WmModel.Gen.ChainLoops
namespace Wm.ChainGo
open Wm.Chain
set_option linter.unusedSimpArgs false   -- the proofs list unfoldings for harmless rewrites of the source too

theorem wrapLoop_eq_idxDown (name : String) (mws : List (Mw α)) (i : Nat) (acc : α) :
    wrapLoop name mws i acc = idxDown (applies name) (fun m a => m.fn a) mws i acc := by
  induction i generalizing acc with
  | zero => rfl
  | succ i ih => cases hg : mws[i]? <;> simp [wrapLoop, idxDown, hg, ih]

theorem loopDown_eq_idxDown (fs : List (α → α)) (i : Nat) (acc : α) :
    loopDown fs i acc = idxDown (fun _ => true) (fun f a => f a) fs i acc := by
  induction i generalizing acc with
  | zero => rfl
  | succ i ih => cases hg : fs[i]? <;> simp [loopDown, idxDown, hg, ih]

theorem loopUp_eq_idxUp (fs : List (α → α)) (acc : α) :
    loopUp fs acc = idxUp (fun _ => true) (fun f a => f a) fs acc := by
  induction fs generalizing acc with
  | nil => rfl
  | cons f rest ih => simp [loopUp, idxUp, ih]

/-- the filter written in the source decides exactly `IsRouterLevel || HandlerName == h.name` -/
theorem extracted_filter_eq_model (name : String) (m : Mw α) :
    Gen.mwLoop.filter.known = true ∧ evalF name m Gen.mwLoop.filter = applies name m := by
  constructor
  · rfl
  · cases h1 : m.isRouterLevel <;> cases h2 : (m.handlerName == name) <;>
      simp [Gen.mwLoop, evalF, applies, h1, h2, bne]

/-- **tie**: `handler.run`'s wrap loop as it stands in the source = `Wm.Chain.wrap` -/
theorem extracted_wrap_loop_eq_model (name : String) (mws : List (Mw α)) (h : α) :
    runMwLoop Gen.mwLoop name mws h = some (wrap name mws h) := by
  have hf : (fun m : Mw α => evalF name m Gen.mwLoop.filter) = applies name :=
    funext fun m => (extracted_filter_eq_model name m).2
  have hk : Gen.mwLoop.filter.known = true := rfl
  unfold runMwLoop runLoop
  simp only [hk, if_true, hf]
  simp [Gen.mwLoop, wrap, wrapLoop_eq_idxDown]

/-- **tie**: `decorateHandlerPublisher`'s loop = `Wm.Chain.decoratePublisher` -/
theorem extracted_pubdec_loop_eq_model (decs : List (α → α)) (pub : α) :
    runDecLoop Gen.pubDecLoop decs pub = some (decoratePublisher decs pub) := by
  simp [runDecLoop, runLoop, Gen.pubDecLoop, decoratePublisher, loopDown_eq_idxDown]

/-- **tie**: `decorateHandlerPublisher` as a whole, on a handler's publisher field that may be nil: the source begins
    with the nil guard (`Gen.pubDecNilGuard`), so a handler without a publisher is NOT decorated – whatever the decorators
    would make of a nil publisher (`onNil`) – and one with a publisher gets `Wm.Chain.decoratePublisher` -/
theorem extracted_pubdec_nil_guard_eq_model (decs : List (α → α)) (onNil : Option α) (pub : Option α) :
    runPubDecorate Gen.pubDecNilGuard Gen.pubDecLoop decs onNil pub = some (decorateHandlerPublisher decs pub) := by
  cases pub with
  | none => simp [runPubDecorate, Gen.pubDecNilGuard, decorateHandlerPublisher]
  | some p => simp [runPubDecorate, decorateHandlerPublisher, extracted_pubdec_loop_eq_model]

/-- **tie**: `decorateHandlerSubscriber` = context decorator first, then the loop = `Wm.Chain.decorateSubscriber` -/
theorem extracted_subdec_loop_eq_model (ctxD : α → α) (decs : List (α → α)) (sub : α) :
    Gen.subCtxFirst = true ∧
    runDecLoop Gen.subDecLoop decs (ctxD sub) = some (decorateSubscriber ctxD decs sub) := by
  constructor
  · rfl
  · simp [runDecLoop, runLoop, Gen.subDecLoop, decorateSubscriber, loopUp_eq_idxUp]

end Wm.ChainGo
