/-
  C01 – the per-stage hypothesis H1 of the pipeline model is *derived* from the model of `handler.handleMessage`
  (WmModel/Handle.lean, tied to the Go source of every run by `Props/C02Tie.lean`) instead of being assumed.

  `Props/C01.lean` describes one invocation of a stage by an `Invocation` (ok / one of five faults) and states the facts
  H1–H3 about its `Effect` (acked, accepted) as the structure `StageFacts`; `realEff` was a hand-written table there.
  Here the effect is *computed* from the effect list `Wm.Handle.handle c ⟨none, result⟩ pub` of the C02 model and the
  first-wins settlement model of C03 (`sentAfter`):
     acked    := the subscriber sees Ack after the effects of `handleMessage`,
     accepted := `handleMessage` called `Publish` and the publisher handed the output on to the next topic.
  `stage_effect_eq_realEff` shows that this computed effect is `realEff (classify x)` for EVERY behaviour `x` of the
  handler chain and of the publisher (any outputs of any length ≥ 1 on success, any outputs next to an error, any panic
  value, any kind of message), so `StageFacts` holds of the C02 model (`handle_stage_facts`) and `pipeline_refines`
  applies to it (`pipeline_refines_handle`): a stage whose `handleMessage` is the tied one moves the tokens of the
  pipeline model as the model says.  What remains a hypothesis of C01 is H2/H3 (GoChannel: redelivery after a Nack, one
  sender per subscription – C04/C05/C11, proved on M_sub/M_reg/M_prod) and H4 (finite fault script).
-/
import WmModel.Props.C01
import WmModel.Props.C02
namespace Wm.Pipeline
open Wm.Lts Wm.Handle

variable {α : Type}

/-- one invocation of a stage in the terms of the C02 model: how the handler chain ends (it does not settle the message
    itself), the verdict of the publisher's `Publish`, and whether the publisher handed the output on to the next topic
    (`GoChannel.Publish` of the next topic returned nil) before giving that verdict – the harness's publisher wrapper
    reports an error *after* handing on for the fault `pubErrAfterPartial`. -/
structure Call (α : Type) where
  result   : Result α
  pub      : PubOutcome
  handedOn : Bool

/-- a publisher that accepts has handed the output on; one that panics (before the inner call) has not -/
def Call.WF (x : Call α) : Prop :=
  (x.pub = .accept → x.handedOn = true) ∧ (x.pub = .panic → x.handedOn = false)

/-- a stage of a pipeline emits at least one output per successfully handled input (`Shape.WF`: `next s ≠ []`) -/
def Call.Emits (x : Call α) : Prop := ∀ outs, x.result = .returns outs false → outs ≠ []

/-- which `Invocation` of the pipeline model a behaviour is -/
def classify (x : Call α) : Invocation :=
  match x.result with
  | .panics _ => .fails .handlerPanic
  | .returns _ true => .fails .handlerErr
  | .returns _ false =>
    match x.pub with
    | .accept => .ok
    | .panic  => .fails .pubPanic
    | .error  => if x.handedOn then .fails .pubErrAfterPartial else .fails .pubErr

/-- the effect of the invocation **computed from the C02/C03 models**: the settlement the subscriber sees after the
    effect list of `handleMessage`, and whether `Publish` was called and handed the output on -/
def stageEffect (k : Ack.Kind) (c : Cfg) (x : Call α) : Effect :=
  ⟨decide (sentAfter k (handle c ⟨none, x.result⟩ x.pub) = .ack),
   (handle c ⟨none, x.result⟩ x.pub).any Effect.isPublishCall && x.handedOn⟩

theorem ackCond_iff_ok (c : Cfg) (hc : c.kind = .withPub) (x : Call α) (he : x.Emits) :
    AckCond c ⟨none, x.result⟩ x.pub ↔ classify x = .ok := by
  unfold AckCond classify
  cases hr : x.result with
  | panics v => simp
  | returns outs err =>
    cases err with
    | true => simp
    | false =>
      have hne : outs ≠ [] := he outs hr
      cases hp : x.pub <;> simp [hne, hc]
      split <;> simp

/-- **H1 derived**: for every handler with a publisher, every kind of message, every behaviour of the chain that emits
    on success and every publisher behaviour, the effect computed from the `handleMessage` model is the table `realEff` -/
theorem stage_effect_eq_realEff (k : Ack.Kind) (c : Cfg) (hc : c.kind = .withPub) (x : Call α)
    (hw : x.WF) (he : x.Emits) : stageEffect k c x = realEff (classify x) := by
  have hack := (final_settlement k c x.result x.pub).1
  rw [ackCond_iff_ok c hc x he] at hack
  unfold stageEffect
  have h1 : decide (sentAfter k (handle c ⟨none, x.result⟩ x.pub) = .ack) = (realEff (classify x)).acked := by
    cases hcl : classify x with
    | ok => simp [realEff, hack, hcl]
    | fails f =>
      have : ¬ sentAfter k (handle c ⟨none, x.result⟩ x.pub) = .ack := by rw [hack, hcl]; simp
      cases f <;> simp [realEff, this]
  have h2 : ((handle c ⟨none, x.result⟩ x.pub).any Effect.isPublishCall && x.handedOn)
      = (realEff (classify x)).accepted := by
    obtain ⟨hw1, hw2⟩ := hw
    unfold classify
    cases hr : x.result with
    | panics v => simp [handle, selfEff, realEff, Effect.isPublishCall]
    | returns outs err =>
      cases err with
      | true => simp [handle, selfEff, realEff, Effect.isPublishCall]
      | false =>
        have hne : outs ≠ [] := he outs hr
        cases outs with
        | nil => exact absurd rfl hne
        | cons a rest =>
          cases hp : x.pub with
          | accept =>
            simp [handle, selfEff, publishProduced, hc, settleTail, effPub, realEff, Effect.isPublishCall, hw1 hp]
          | panic =>
            simp [handle, selfEff, publishProduced, hc, settleTail, effPub, realEff, Effect.isPublishCall, hw2 hp]
          | error =>
            cases hh : x.handedOn <;>
              simp [handle, selfEff, publishProduced, hc, settleTail, effPub, realEff, Effect.isPublishCall]
  rw [h1, h2]

/-- every invocation of the pipeline model is the class of a well-formed behaviour (the classification is onto, so
    `handle_stage_facts` below speaks about all six invocations) -/
def rep (a : α) : Invocation → Call α
  | .ok                        => ⟨.returns [a] false, .accept, true⟩
  | .fails .handlerErr         => ⟨.returns [] true, .accept, true⟩
  | .fails .handlerPanic       => ⟨.panics .value, .accept, true⟩
  | .fails .pubErr             => ⟨.returns [a] false, .error, false⟩
  | .fails .pubPanic           => ⟨.returns [a] false, .panic, false⟩
  | .fails .pubErrAfterPartial => ⟨.returns [a] false, .error, true⟩

theorem classify_rep (a : α) (o : Invocation) : classify (rep a o) = o := by
  cases o with
  | ok => rfl
  | fails f => cases f <;> rfl

theorem rep_wf (a : α) (o : Invocation) : (rep a o).WF ∧ (rep a o).Emits := by
  cases o with
  | ok => simp [rep, Call.WF, Call.Emits]
  | fails f => cases f <;> simp [rep, Call.WF, Call.Emits]

/-- **`StageFacts` holds of the `handleMessage` model**: for any choice `r` of a behaviour per invocation class (any
    outputs, any panic values …) the effect computed from `Wm.Handle.handle` satisfies H1–H3 of `Props/C01.lean` -/
theorem handle_stage_facts (k : Ack.Kind) (c : Cfg) (hc : c.kind = .withPub) (r : Invocation → Call α)
    (hr : ∀ o, classify (r o) = o ∧ (r o).WF ∧ (r o).Emits) :
    StageFacts (fun o => stageEffect k c (r o)) := by
  have heq : (fun o => stageEffect k c (r o)) = realEff := by
    funext o
    rw [stage_effect_eq_realEff k c hc (r o) (hr o).2.1 (hr o).2.2, (hr o).1]
  rw [heq]; exact realEff_facts

/-- **pipeline_refines for the tied handler model**: a copy in `handling` at stage `st`, any behaviour `x` of the chain
    and of the publisher; the steps of the pipeline model match what `handleMessage` (C02 model) does to the copy:
    Acked ⇒ token gone and the downstream tokens exist; not Acked ⇒ the token is pending again (redelivery);
    handed on ⇒ a pending token at every subscription of the next topic. -/
theorem pipeline_refines_handle (p : Shape) (srcs : List Nat) (faults : List Fault)
    (k : Ack.Kind) (c : Cfg) (hc : c.kind = .withPub) (x : Call α) (hw : x.WF) (he : x.Emits)
    (s : St) (i l st : Nat) (hi : s.toks[i]? = some ⟨l, st, .handling⟩)
    (hscript : ∀ f, classify x = .fails f → ∃ j : Nat, s.faults[j]? = some (⟨f, st⟩ : Fault)) :
    ∃ acts s', exec (sys p srcs faults) s acts = some s' ∧
      (sentAfter k (handle c ⟨none, x.result⟩ x.pub) = .ack → s'.toks = (s.toks.eraseIdx i) ++ spawn p l st) ∧
      (sentAfter k (handle c ⟨none, x.result⟩ x.pub) ≠ .ack → s'.toks[i]? = some ⟨l, st, .pending⟩) ∧
      (((handle c ⟨none, x.result⟩ x.pub).any Effect.isPublishCall && x.handedOn) = true →
          ∀ t, t ∈ p.next st → (⟨l, t, .pending⟩ : Tok) ∈ s'.toks) := by
  obtain ⟨acts, s', hex, h1, h2, h3, _⟩ :=
    pipeline_refines (p := p) (srcs := srcs) (faults := faults) realEff realEff_facts s i l st hi (classify x) hscript
  have heq := stage_effect_eq_realEff k c hc x hw he
  refine ⟨acts, s', hex, ?_, ?_, ?_⟩
  · intro h; apply h1; rw [← heq]; simp [stageEffect, h]
  · intro h; apply h2; rw [← heq]; simp [stageEffect, h]
  · intro h; apply h3; rw [← heq]; simpa [stageEffect] using h

/-- a handler WITHOUT a publisher is not a pipeline stage: whatever it returns on success with outputs, the copy is
    Nacked and nothing is handed on (C08's "no-publisher outputs ⇒ nack") – the hypothesis `c.kind = .withPub` above
    is needed -/
theorem nopub_stage_never_acks_outputs (k : Ack.Kind) (c : Cfg) (hc : c.kind ≠ .withPub) (a : α) (outs : List α)
    (pb : PubOutcome) : sentAfter k (handle c ⟨none, .returns (a :: outs) false⟩ pb) ≠ .ack := by
  have h := (final_settlement k c (.returns (a :: outs) false) pb).1
  intro hh
  have := h.1 hh
  unfold AckCond at this
  obtain ⟨o, ho, h3⟩ := this
  simp at ho
  subst ho
  simp [hc] at h3

/-! ### non-vacuity: the hypotheses are met by a concrete stage, and the conclusion is exercised -/

example : (stageEffect .new ⟨.withPub, "t"⟩ (rep (7 : Nat) (.fails .pubErrAfterPartial))) = ⟨false, true⟩ := by decide
example : (stageEffect .new ⟨.withPub, "t"⟩ (rep (7 : Nat) .ok)) = ⟨true, true⟩ := by decide
example : (stageEffect .zero ⟨.withPub, "t"⟩ (rep (7 : Nat) (.fails .pubPanic))) = ⟨false, false⟩ := by decide
example : StageFacts (fun o => stageEffect .new ⟨.withPub, "t"⟩ (rep (7 : Nat) o)) :=
  handle_stage_facts .new _ rfl _ (fun o => ⟨classify_rep 7 o, rep_wf 7 o⟩)

end Wm.Pipeline
