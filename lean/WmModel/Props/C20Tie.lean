/-
  C20 – generated tie: the body of `(*publisher).applyDelay` extracted from the current Go source, interpreted,
  equals the hand-written model for every configuration, topic and message; and the two `Publish` methods that
  loop over the batch have the loop-then-forward-once shape the model gives them.
  `WmModel/Gen/DelayBody.lean` is rewritten by the extractor on every run.
-/
import WmModel.GoDelay
import WmModel.Gen.DelayBody
namespace Wm.GoDelay
open Wm.Decor

theorem extracted_applyDelay_eq_model (cfg : DelayCfg) (topic : String) (m : Msg) :
    exec cfg topic Gen.applyDelayBody { m := m } = some (applyDelay cfg topic m) := by
  unfold applyDelay
  by_cases h1 : mget m.md forKey ≠ Val.empty
  · simp [Gen.applyDelayBody, exec, execStmt, execLeaves, execLeaf, evalC, h1]
  · cases hc : m.ctxDelay with
    | some d => simp [Gen.applyDelayBody, exec, execStmt, execLeaves, execLeaf, evalC, h1, hc]
    | none =>
      cases hg : cfg.gen with
      | none =>
        by_cases ha : cfg.allowNoDelay <;>
          simp [Gen.applyDelayBody, exec, execStmt, execLeaves, execLeaf, evalC, h1, hc, hg, ha]
      | some g =>
        cases hd : g topic m with
        | none => simp [Gen.applyDelayBody, exec, execStmt, execLeaves, execLeaf, evalC, h1, hc, hg, hd]
        | some d => simp [Gen.applyDelayBody, exec, execStmt, execLeaves, execLeaf, evalC, h1, hc, hg, hd]

/-- `delay.publisher.Publish` = apply the delay to every message, return at the first error, then ONE call of the
    wrapped publisher with the whole batch; `messageTransformPublisherDecorator.Publish` = transform every message,
    then ONE call with the whole batch (the shapes `Wm.Decor.publish` gives the two layers) -/
theorem extracted_publish_shapes :
    Gen.delayPublishShape = .loopThenForward "applyDelay-return-on-error" ∧
    Gen.transformPublishShape = .loopThenForward "transform" := by
  constructor <;> rfl

end Wm.GoDelay
