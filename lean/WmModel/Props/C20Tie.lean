/-
  C20 – generated tie: the body of `(*publisher).applyDelay` extracted from the current Go source, interpreted,
  equals the hand-written model for every configuration, topic and message; and the two `Publish` methods that
  loop over the batch have the loop-then-forward-once shape the model gives them.
  `WmModel/Gen/DelayBody.lean` is rewritten by the extractor on every run.
-/
import WmModel.GoDelay
import WmModel.Gen.DelayBody
import WmModel.GoMetrics
import WmModel.Gen.MetricsBody
namespace Wm.GoDelay
open Wm.Decor

theorem extracted_applyDelay_eq_model (cfg : DelayCfg) (topic : String) (m : Msg) :
    exec cfg topic Gen.applyDelayBody { m := m } = some (applyDelay cfg topic m) := by
  unfold applyDelay
  by_cases h1 : mget m.md forKey ≠ Val.empty
  · simp [Gen.applyDelayBody, exec, execStmt, execLeaves, execLeaf, evalC, h1]
  · cases hc : m.ctxDelay with
    | some d => simp [Gen.applyDelayBody, exec, execStmt, execLeaves, execLeaf, evalC, h1, hc]
    | none =>
      cases hg : cfg.gen with
      | none =>
        by_cases ha : cfg.allowNoDelay <;>
          simp [Gen.applyDelayBody, exec, execStmt, execLeaves, execLeaf, evalC, h1, hc, hg, ha]
      | some g =>
        cases hd : g topic m with
        | none => simp [Gen.applyDelayBody, exec, execStmt, execLeaves, execLeaf, evalC, h1, hc, hg, hd]
        | some d => simp [Gen.applyDelayBody, exec, execStmt, execLeaves, execLeaf, evalC, h1, hc, hg, hd]

/-- `delay.publisher.Publish` = apply the delay to every message, return at the first error, then ONE call of the
    wrapped publisher with the whole batch; `messageTransformPublisherDecorator.Publish` = transform every message,
    then ONE call with the whole batch (the shapes `Wm.Decor.publish` gives the two layers) -/
theorem extracted_publish_shapes :
    Gen.delayPublishShape = .loopThenForward "applyDelay-return-on-error" ∧
    Gen.transformPublishShape = .loopThenForward "transform" := by
  constructor <;> rfl

end Wm.GoDelay

namespace Wm.GoMetrics
open Wm.Decor

/-- the body of `PublisherPrometheusMetricsDecorator.Publish` extracted from the current source, interpreted over any
    wrapped publisher `k`, is the metrics layer of the model (which `publish_metrics_eq` identifies with
    `Wm.Decor.publish` on `.metrics :: rest`): empty batch forwarded unobserved; context of the first message captured
    BEFORE the marks are set; every message marked; one inner call; observed in the deferred function unless the
    captured context was marked, with `success` from the returned error -/
theorem extracted_metricsPublish_eq_model (name : String) (k : List Msg → PWorld → Res) (ms : List Msg) (w : PWorld) :
    execP name k w Gen.metricsPublishBody { ms := ms } = some (metricsLayer name k ms w) := by
  cases ms with
  | nil => simp [Gen.metricsPublishBody, execP, finish, metricsLayer]
  | cons m0 tl =>
    by_cases hm : m0.pubMark
    · simp [Gen.metricsPublishBody, execP, finish, runDeferred, metricsLayer, hm]
    · simp [Gen.metricsPublishBody, execP, finish, runDeferred, metricsLayer, hm]

/-- the function returned by `HandlerPrometheusMetricsMiddleware.Middleware`, extracted from the current source and
    interpreted for each way the wrapped handler can end (a panic unwinds through the deferred function): exactly one
    observation, `success` iff the handler returned nil without panicking -/
theorem extracted_handler_eq_model (h : String) (o : Outcome) :
    execH h o Gen.handlerBody {} = some [handlerObs h o] := by
  cases o <;> simp [Gen.handlerBody, execH, finishH, runHDefer, handlerObs]

end Wm.GoMetrics
