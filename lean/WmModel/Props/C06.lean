/-
  C06 – Router.Close is graceful.  Theorems over every reachable state of RouterLife (WmModel/RouterLife.lean) with all
  four repairs on: any number of handlers, messages and Close callers, every interleaving, Close arriving at every
  point of a message's path, subscribers that emit while they are being closed, any handler outcome and duration.
  Helper lemmas: WmModel/Lemmas/RouterLife*.lean.  `Old` witnesses (one repair switched off): Props/C06Old.lean.
-/
import WmModel.Lemmas.RouterLifeCoreStep
namespace Wm.RouterLife
open Wm.Lts

theorem reach_core (fx : Fix) (hfx : fx.d5 = true) : ∀ s, Reach (sys fx) s → CoreOk fx s :=
  inv_of_step (sys fx) (CoreOk fx) (core_init fx) (fun s a s' h ha => core_step fx hfx s a s' h ha)

/-- **Close returns nil only when no handler runs**: in every reachable state in which the Close call that performed
    the close has returned nil – and from then on for ever – no invocation is in progress (dispatched, started,
    publishing or before settlement) and every handler's receive loop has ended (`handlersWg.Done()` executed) -/
theorem close_nil_means_quiet (s : St) (h : Reach (sys allFixed) s) (hn : s.closeNil = true) :
    (∀ m ∈ s.msgs, m.stage.inFlight = false) ∧ (∀ hd ∈ s.hs, hd.loop.ended = true) := by
  have hc := reach_core allFixed rfl s h
  obtain ⟨hA, hB⟩ := hc.d hn
  exact ⟨hc.c hB, hc.a2 hA⟩

/-- **… and none can start afterwards**: after the nil return neither the step that starts a handler invocation nor the
    step that dispatches a received message is enabled, for any message / handler, in any later state -/
theorem no_start_after_close_nil (s : St) (h : Reach (sys allFixed) s) (hn : s.closeNil = true) :
    (∀ m, act allFixed s (.hStart m) = none) ∧ (∀ i, act allFixed s (.dispatch i) = none) := by
  obtain ⟨hq, hl⟩ := close_nil_means_quiet s h hn
  constructor
  · intro m
    simp only [act]
    split
    · rename_i x hx
      have := hq x (mem_of_getElem? _ _ _ hx)
      split
      · rename_i hd; rw [hd] at this; cases this
      · rfl
    · rfl
  · intro i
    simp only [act]
    split
    · rename_i x hx
      have := hl x (mem_of_getElem? _ _ _ hx)
      split
      · rename_i m hd; rw [hd] at this; cases this
      · rfl
    · rfl

/-! non-vacuity: one handler, a message in the handler when Close arrives, a second message emitted by the subscriber
    *during* its Close (between call and return), dispatched while the waiter waits; Close returns nil only after both ended -/
def demoClose : List Action :=
  [.addHandler, .runCall, .runWatch, .runRh, .rhSub 0, .rhStep, .rhStep, .rhSpawn, .rhEnd, .runRunning,
   .emit 0, .pumpOut 0, .dispatch 0, .hStart 0,
   .closeCall, .closeCL 0, .closeHL 0, .hcClose 0, .emit 0, .hcInnerRet 0, .pumpOut 0, .dispatch 0,
   .pumpEnd 0, .loopEnd 0, .pubClose 0, .wgDone 0, .wLoops, .wLock,
   .hReturn 0 true, .hPublished 0 true, .hSettle 0, .hStart 1, .hReturn 1 false, .wRunning, .closeDone 0]

example : ∃ s, exec (sys allFixed) init demoClose = some s ∧ s.closeNil = true ∧
    s.msgs = [⟨0, .done, .ack⟩, ⟨0, .done, .nack⟩] ∧ s.closers = [.ret false] :=
  ⟨_, rfl, by decide, by decide, by decide⟩

end Wm.RouterLife
