/-
  C06 – Router.Close is graceful.  Theorems over every reachable state of RouterLife (WmModel/RouterLife.lean) with all
  four repairs on: any number of handlers, messages and Close callers, every interleaving, Close arriving at every
  point of a message's path, subscribers that emit while they are being closed, any handler outcome and duration.
  Helper lemmas: WmModel/Lemmas/RouterLife*.lean.  `Old` witnesses (one repair switched off): Props/C06Old.lean.
-/
import WmModel.Lemmas.RouterLifeCoreStep
import WmModel.Lemmas.RouterLifeRun
namespace Wm.RouterLife
open Wm.Lts

theorem reach_core (fx : Fix) (hfx : fx.d5 = true) : ∀ s, Reach (sys fx) s → CoreOk fx s :=
  inv_of_step (sys fx) (CoreOk fx) (core_init fx) (fun s a s' h ha => core_step fx hfx s a s' h ha)

theorem reach_ctl (fx : Fix) : ∀ s, Reach (sys fx) s → CtlOk s :=
  inv_of_step (sys fx) CtlOk ctl_init (fun s a s' h ha => ctl_step fx s a s' h ha)

theorem reach_life (fx : Fix) : ∀ s, Reach (sys fx) s → LifeOk fx s :=
  inv_of_step' (sys fx) (LifeOk fx) (life_init fx)
    (fun s a s' hr h ha => life_step fx s a s' (reach_ctl fx s hr) h ha)

theorem reach_path (fx : Fix) : ∀ s, Reach (sys fx) s → PathOk s :=
  inv_of_step' (sys fx) PathOk path_init
    (fun s a s' hr h ha => path_step fx s a s' (reach_life fx s hr) h ha)

/-- **Close returns nil only when no handler runs**: in every reachable state in which the Close call that performed
    the close has returned nil – and from then on for ever – no invocation is in progress (dispatched, started,
    publishing or before settlement) and every handler's receive loop has ended (`handlersWg.Done()` executed) -/
theorem close_nil_means_quiet (s : St) (h : Reach (sys allFixed) s) (hn : s.closeNil = true) :
    (∀ m ∈ s.msgs, m.stage.inFlight = false) ∧ (∀ hd ∈ s.hs, hd.loop.ended = true) := by
  have hc := reach_core allFixed rfl s h
  obtain ⟨hA, hB⟩ := hc.d hn
  exact ⟨hc.c hB, hc.a2 hA⟩

/-- **… and none can start afterwards**: after the nil return neither the step that starts a handler invocation nor the
    step that dispatches a received message is enabled, for any message / handler, in any later state -/
theorem no_start_after_close_nil (s : St) (h : Reach (sys allFixed) s) (hn : s.closeNil = true) :
    (∀ m, act allFixed s (.hStart m) = none) ∧ (∀ i, act allFixed s (.dispatch i) = none) := by
  obtain ⟨hq, hl⟩ := close_nil_means_quiet s h hn
  constructor
  · intro m
    simp only [act]
    split
    · rename_i x hx
      have := hq x (mem_of_getElem? _ _ _ hx)
      split
      · rename_i hd; rw [hd] at this; cases this
      · rfl
    · rfl
  · intro i
    simp only [act]
    split
    · rename_i x hx
      have := hl x (mem_of_getElem? _ _ _ hx)
      split
      · rename_i m hd; rw [hd] at this; cases this
      · rfl
    · rfl

/-- **messages already on their way**: when the performing Close has returned nil, every message any subscriber ever
    emitted (before its Close returned – the model allows no later emission) is either handled to completion and
    settled, or was dropped by the closing decorator: never handled and never settled.  Nothing sits in a pump or in a
    loop's hand any more. -/
theorem message_fate (s : St) (h : Reach (sys allFixed) s) (hn : s.closeNil = true) :
    ∀ x ∈ s.msgs, (x.stage = .done ∧ x.settle ≠ .none) ∨ (x.stage = .dropped ∧ x.settle = .none) := by
  obtain ⟨hq, hl⟩ := close_nil_means_quiet s h hn
  have hp := reach_path allFixed s h
  have hlife := reach_life allFixed s h
  intro x hx
  obtain ⟨m, hm⟩ := List.mem_iff_getElem?.mp hx
  have h4 := hp.p4 x hx
  have hfl := hq x hx
  cases hs : x.stage with
  | pump =>
    obtain ⟨y, hy, hpy⟩ := hp.p1 m x hm hs
    have hym := mem_of_getElem? _ _ _ hy
    have he := hl y hym
    have h8 := (hlife.all y hym).l8
    cases hlp : y.loop <;> rw [hlp] at he <;> simp [Loop.ended] at he
    · have := h8 (Or.inr (Or.inr (Or.inl hlp))); rw [hpy] at this; cases this
    · have := h8 (Or.inr (Or.inr (Or.inr hlp))); rw [hpy] at this; cases this
  | recv =>
    obtain ⟨y, hy, hpy⟩ := hp.p2 m x hm hs
    have he := hl y (mem_of_getElem? _ _ _ hy)
    rw [hpy] at he; cases he
  | dropped => exact Or.inr ⟨rfl, h4.mpr (by rw [hs]; simp)⟩
  | done =>
    refine Or.inl ⟨rfl, ?_⟩
    intro hc; exact (h4.mp hc) hs
  | disp => rw [hs] at hfl; cases hfl
  | inH => rw [hs] at hfl; cases hfl
  | pub => rw [hs] at hfl; cases hfl
  | preSettle => rw [hs] at hfl; cases hfl

/-- **closes every handler's publisher**: when Close has returned nil every handler's publisher has seen exactly one
    Close call (made by the handler's loop before it counts as ended); in every reachable state at most one -/
theorem publisher_closed_before_close_returns (s : St) (h : Reach (sys allFixed) s) (hn : s.closeNil = true) :
    ∀ y ∈ s.hs, y.pubCloseCalls = 1 := by
  obtain ⟨_, hl⟩ := close_nil_means_quiet s h hn
  intro y hy
  have h7 := (reach_life allFixed s h).all y hy |>.l7
  have he := hl y hy
  cases hlp : y.loop <;> rw [hlp] at he <;> simp [Loop.ended] at he <;> simp [hlp] at h7 <;> exact h7

theorem publisher_closed_at_most_once (fx : Fix) (s : St) (h : Reach (sys fx) s) :
    ∀ y ∈ s.hs, y.pubCloseCalls ≤ 1 := by
  intro y hy
  have h7 := (reach_life fx s h).all y hy |>.l7
  rw [h7]; split <;> simp

/-- **closes every handler's subscriber**: at most one Close call per handler, ever; and a handleClose goroutine that
    is at its select while the router is closing can proceed, and whichever alternative it takes (`routersCloseCh` or
    `ctx.Done` – fix D6) it calls the subscriber's Close -/
theorem subscriber_closed_by_handle_close (s : St) (h : Reach (sys allFixed) s) (i : Nat) (y : Handler)
    (hy : s.hs[i]? = some y) :
    y.subCloseCalls ≤ 1 ∧
    (s.closing = true → y.hc = .sel →
      (act allFixed s (.hcClose i)).isSome = true ∧
      ∀ a s', (a = .hcClose i ∨ a = .hcCtx i) → act allFixed s a = some s' →
        ∃ y', s'.hs[i]? = some y' ∧ y'.hc = .innerCall ∧ y'.subCloseCalls = 1) := by
  have hok := (reach_life allFixed s h).all y (mem_of_getElem? _ _ _ hy)
  refine ⟨hok.l10.2.2, ?_⟩
  intro hc hsel
  have h0 : y.subCloseCalls = 0 := hok.l10.2.1 (Or.inr hsel)
  refine ⟨by simp [act, hy, hsel, hc], ?_⟩
  intro a s' ha hact
  rcases ha with rfl | rfl
  · simp [act, hy, hsel, hc] at hact; subst hact
    exact ⟨_, getElem?_modify_self _ _ _ _ hy, rfl, by simp [h0]⟩
  · simp only [act, hy] at hact
    split at hact
    · simp [allFixed, hc] at hact; subst hact
      exact ⟨_, getElem?_modify_self _ _ _ _ hy, rfl, by simp [h0]⟩
    · simp at hact

/-- **… also when the subscriber's Close fails**: handleClose cancels the handler's context whatever `Close` answered. From
    the call, the error return (the subscription is NOT ended by it) leads straight to `stopFn()`; after that step the
    handler's context is done, so a subscription that honours its context can end – for handlers started by Run and for
    handlers started by a later RunHandlers alike (no use of Run's own cancel). -/
theorem handle_close_cancels_context_when_close_fails (fx : Fix) (s : St) (i : Nat) (y : Handler)
    (hy : s.hs[i]? = some y) (hc : y.hc = .innerCall) :
    ∃ s1 s2 y2, act fx s (.hcCloseFail i) = some s1 ∧ act fx s1 (.hcStop i) = some s2 ∧
      s2.hs[i]? = some y2 ∧ y2.ctxDone = true ∧ y2.hc = .done ∧ y2.innerClosed = y.innerClosed ∧ y2.subCloseCalls = y.subCloseCalls ∧
      (y2.pump ≠ .off → y2.innerClosed = false → (act fx s2 (.innerCtx i)).isSome = true) := by
  have h1 : act fx s (.hcCloseFail i) = some (updH s i fun h => { h with hc := .stop }) := by
    simp [act, hy, hc]
  have hy1 : (updH s i fun h => { h with hc := .stop }).hs[i]? = some { y with hc := .stop } :=
    getElem?_modify_self _ _ _ _ hy
  have h2 : act fx (updH s i fun h => { h with hc := .stop }) (.hcStop i) =
      some (updH (updH s i fun h => { h with hc := .stop }) i fun h => { h with hc := .done, ctxDone := true }) := by
    simp [act, hy1]
  have hy2 : (updH (updH s i fun h => { h with hc := .stop }) i fun h => { h with hc := .done, ctxDone := true }).hs[i]? =
      some { y with hc := .done, ctxDone := true } :=
    getElem?_modify_self _ _ (fun h : Handler => { h with hc := .done, ctxDone := true }) { y with hc := .stop } hy1
  refine ⟨_, _, _, h1, h2, hy2, rfl, rfl, rfl, rfl, ?_⟩
  intro hp hic
  have hp' : y.pump ≠ .off := hp
  have hic' : y.innerClosed = false := hic
  simp only [act, hy2]
  simp [hp', hic', ctxOf]

/-- **If running handlers outlive CloseTimeout, Close returns an error instead of hanging**: while the performing Close
    waits, the timer can fire; once it has fired the call can return, and it returns the error, closing closedCh and
    releasing both locks – whatever the handlers do -/
theorem close_timeout_returns_error (fx : Fix) (s : St) (h : Reach (sys fx) s) (k : Nat)
    (hk : s.closers[k]? = some CPc.waiting) :
    (act fx s .timer).isSome = true ∧
    (s.timerFired = true → ∃ s', act fx s (.closeTimeout k) = some s' ∧ s'.closers[k]? = some (CPc.ret true) ∧
        s'.closedCh = true ∧ s'.cl = none ∧ s'.hl = .free) := by
  obtain ⟨hc, hcc, _, _⟩ := (reach_ctl fx s h).k1 k hk
  have hlen : k < s.closers.length := by
    rcases Nat.lt_or_ge k s.closers.length with h | h
    · exact h
    · rw [List.getElem?_eq_none h] at hk; cases hk
  refine ⟨by simp [act, hc, hcc], ?_⟩
  intro ht
  refine ⟨{ (setC s k (.ret true)) with closedCh := true, cl := none, hl := .free, closeErr := true }, ?_, ?_, rfl, rfl, rfl⟩
  · simp [act, hk, ht]
  · simp [setC, hlen]

/-- the steps of the close protocol, of the timer and of a RunHandlers call that holds `handlersLock` -/
def closeStep : Action → Bool
  | .closeCL _ | .closeHL _ | .closeDone _ | .closeTimeout _ | .timer | .rhSub _ | .rhStep | .rhSpawn | .rhEnd => true
  | _ => false

/-- the sub-step counter of RunHandlers stays within 0..2 -/
def CurSt (s : St) : Prop := ∀ v i st, s.hl = .rh v (some (i, st)) → st ≤ 2

theorem curst_step (fx : Fix) (s : St) (a : Action) (s' : St) (h : CurSt s) (ha : act fx s a = some s') : CurSt s' := by
  unfold CurSt at *
  cases a <;> simp only [act] at ha
  all_goals (repeat' split at ha)
  all_goals (try (simp at ha))
  all_goals (try subst ha)
  all_goals (first
    | exact h
    | (intro v i st hh; simp_all [updH, updM, setC]; try omega)
    | (intro v i st hh; simp [updH, updM, setC] at hh; try omega))

theorem reach_curst (fx : Fix) : ∀ s, Reach (sys fx) s → CurSt s :=
  inv_of_step (sys fx) CurSt (by intro v i st hh; simp [sys, init] at hh) (fun s a s' h ha => curst_step fx s a s' h ha)

/-- a RunHandlers call that holds `handlersLock` can always make a step of its own (it never waits for anybody) -/
theorem runhandlers_progress (fx : Fix) (s : St) (h : Reach (sys fx) s) (v : Bool) (c : Option (Nat × Nat))
    (hh : s.hl = .rh v c) : ∃ a, closeStep a = true ∧ (act fx s a).isSome = true := by
  match c with
  | some (i, st) =>
    have h0 := reach_curst fx s h v i st hh
    match st with
    | 0 => exact ⟨.rhStep, rfl, by simp [act, hh]⟩
    | 1 => exact ⟨.rhStep, rfl, by simp [act, hh]⟩
    | 2 => exact ⟨.rhSpawn, rfl, by simp [act, hh]⟩
    | n + 3 => omega
  | none =>
    cases hf : s.hs.findIdx? (fun h => !(h.started || h.removed)) with
    | none =>
      have hall : s.hs.all (fun h => h.started || h.removed) = true := by
        rw [List.all_eq_true]; intro y hy
        have := List.findIdx?_eq_none_iff.mp hf y hy
        cases hs1 : y.started <;> cases hs2 : y.removed <;> simp_all
      exact ⟨.rhEnd, rfl, by simp only [act, hh]; simp [hall]⟩
    | some i =>
      obtain ⟨hlt, hp, _⟩ := List.findIdx?_eq_some_iff_getElem.mp hf
      have hi : s.hs[i]? = some s.hs[i] := List.getElem?_eq_getElem hlt
      simp at hp
      exact ⟨.rhSub i, rfl, by simp [act, hh, hi, hp]⟩

/-- **every Close call returns** (progress form, no fairness about handlers needed): as long as a Close call has not
    returned, a step of the close protocol, of the CloseTimeout timer or of the RunHandlers call holding `handlersLock` is
    enabled – never a step of a handler, a subscriber or another caller.  So no Close call is ever blocked for ever:
    concurrent callers queue on `closedLock`, the performing call leaves through `closeDone` or the timeout. -/
theorem every_close_call_can_proceed (fx : Fix) (s : St) (h : Reach (sys fx) s) (k : Nat) (pc : CPc)
    (hk : s.closers[k]? = some pc) (hnr : ∀ e, pc ≠ .ret e) :
    ∃ a, closeStep a = true ∧ (act fx s a).isSome = true := by
  have hctl := reach_ctl fx s h
  have waiting : ∀ j : Nat, s.closers[j]? = some CPc.waiting → ∃ a, closeStep a = true ∧ (act fx s a).isSome = true := by
    intro j hj
    obtain ⟨hc, hcc, _, _⟩ := hctl.k1 j hj
    exact ⟨.timer, rfl, by simp [act, hc, hcc]⟩
  have onHL : ∀ j : Nat, s.closers[j]? = some CPc.wantHL → ∃ a, closeStep a = true ∧ (act fx s a).isSome = true := by
    intro j hj
    cases hhl : s.hl with
    | free =>
      refine ⟨.closeHL j, rfl, ?_⟩
      simp only [act, hj, hhl]
      cases s.closed <;> simp
    | closer j' => exact waiting j' (hctl.k4 j' hhl)
    | rh v c => exact runhandlers_progress fx s h v c hhl
  cases pc with
  | ret e => exact absurd rfl (hnr e)
  | waiting => exact waiting k hk
  | wantHL => exact onHL k hk
  | wantCL =>
    cases hcl : s.cl with
    | none => exact ⟨.closeCL k, rfl, by simp [act, hk, hcl]⟩
    | some j =>
      rcases hctl.k3 j hcl with hj | hj
      · exact onHL j hj
      · exact waiting j hj

/-- **Close may be called repeatedly**: a call that finds the router already closed returns nil at once -/
theorem close_again_returns_nil (fx : Fix) (s s' : St) (k : Nat) (hc : s.closed = true)
    (ha : act fx s (.closeHL k) = some s') : s'.closers[k]? = some (CPc.ret false) ∧ s'.hs = s.hs ∧ s'.msgs = s.msgs := by
  simp only [act] at ha
  split at ha
  · rename_i hk
    have hlen : k < s.closers.length := by
      rcases Nat.lt_or_ge k s.closers.length with h | h
      · exact h
      · rw [List.getElem?_eq_none h] at hk; cases hk
    split at ha
    · simp [hc] at ha; subst ha
      exact ⟨by simp [setC, hlen], rfl, rfl⟩
    · simp at ha
  · simp at ha

/-- **Run returns only after the close has completed, never while Close is still waiting for handlers**: when Run has
    returned, closedCh is closed, the performing Close has returned (nil or the timeout error) and no Close call is waiting;
    and the step that lets Run return is not enabled before closedCh is closed -/
theorem run_returns_only_after_closed (fx : Fix) (s : St) (h : Reach (sys fx) s) :
    (s.run = .ret → s.closedCh = true ∧ (s.closeNil = true ∨ s.closeErr = true) ∧
        ∀ k : Nat, s.closers[k]? ≠ some CPc.waiting) ∧
    (s.closedCh = false → act fx s .runRet = none) := by
  have hctl := reach_ctl fx s h
  constructor
  · intro hr
    have hcc := hctl.k8.1 hr
    refine ⟨hcc, hctl.k5.2.mp hcc, ?_⟩
    intro k hk
    have := (hctl.k1 k hk).2.1
    rw [hcc] at this; cases this
  · intro hcc
    simp [act, hcc]

/-! non-vacuity: one handler, a message in the handler when Close arrives, a second message emitted by the subscriber
    *during* its Close (between call and return), dispatched while the waiter waits; Close returns nil only after both ended -/
def demoClose : List Action :=
  [.addHandler, .runCall, .runWatch, .runRh, .rhSub 0, .rhStep, .rhStep, .rhSpawn, .rhEnd, .runRunning,
   .emit 0, .pumpOut 0, .dispatch 0, .hStart 0,
   .closeCall, .closeCL 0, .closeHL 0, .hcClose 0, .emit 0, .hcInnerRet 0, .pumpOut 0, .dispatch 0,
   .pumpEnd 0, .loopEnd 0, .pubClose 0, .wgDone 0, .wLoops, .wLock,
   .hReturn 0 true, .hPublished 0 true, .hSettle 0, .hStart 1, .hReturn 1 false, .wRunning, .closeDone 0]

example : ∃ s, exec (sys allFixed) init demoClose = some s ∧ s.closeNil = true ∧
    s.msgs = [⟨0, .done, .ack⟩, ⟨0, .done, .nack⟩] ∧ s.closers = [.ret false] :=
  ⟨_, rfl, by decide, by decide, by decide⟩

end Wm.RouterLife
