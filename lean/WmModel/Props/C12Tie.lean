/-
  C12 – generated tie: the body of the closure returned by `(Retry).Middleware`, extracted from the current Go
  source (`WmModel/Gen/RetryBody.lean`, rewritten by the extractor on every run) and interpreted by
  `WmModel/GoRetry.lean`, equals the hand-written model `Wm.Retry.retry` for every configuration and every script.
-/
import WmModel.GoRetry
import WmModel.Gen.RetryBody
import WmModel.Lemmas.Retry
namespace Wm.GoRetry
open Wm.Retry

/-- put what was observed before the loop in front of the loop's run -/
def prepend (as : List Attempt) (hs : List (Nat × Nat)) (r : Run) : Run :=
  { r with attempts := as ++ r.attempts, hooks := hs ++ r.hooks }

theorem prepend_push (as : List Attempt) (hs hk : List (Nat × Nat)) (a : Attempt) (r : Run) :
    prepend (as ++ [a]) (hs ++ hk) r = prepend as hs (r.push a hk) := by
  simp [prepend, Run.push]

/-- the five assignments copy the back-off fields of the configuration -/
theorem wiring (cfg : Cfg) :
    ({ maxRetries := (defaultBo cfg).maxRetries, init := cfg.init, maxInt := cfg.maxInt, mulN := cfg.mulN,
       mulD := cfg.mulD, rfN := cfg.rfN, rfD := cfg.rfD, maxElapsed := cfg.maxElapsed, hook := (defaultBo cfg).hook } : Cfg)
      = cfg := by
  cases cfg; rfl

/-- the statements before the loop, when the first call fails -/
theorem extracted_before (cfg : Cfg) (sc : Script) (e : Nat) (he : sc.first.err = some e) :
    execList cfg sc Gen.before {} = .cont
      { prod := sc.first.outs, err := some e, wait := none, retryNum := 1, bo := some cfg, cur := cfg.init,
        t0 := sc.firstDur + sc.resetLag, now := sc.firstDur + sc.resetLag, pass := 0, calls := 1,
        ctxBound := true, ctxDeadline := decide (cfg.maxElapsed > 0),
        attempts := [⟨0, sc.firstDur, sc.first⟩], hooks := [] } := by
  simp [Gen.before, execList, step, he, setFld]
  exact wiring cfg

/-- **the extracted statements before the loop bind the message's context and wrap it with the MaxElapsedTime deadline** -/
theorem extracted_ctx_deadline (cfg : Cfg) (sc : Script) (e : Nat) (he : sc.first.err = some e) :
    ∃ s, execList cfg sc Gen.before {} = .cont s ∧ s.ctxBound = true ∧ s.ctxDeadline = decide (cfg.maxElapsed > 0) ∧
      s.bo = some cfg := ⟨_, extracted_before cfg sc e he, rfl, rfl, rfl⟩

theorem execList_cont (cfg : Cfg) (sc : Script) (a : Stmt) (rest : List Stmt) (s s' : St)
    (h : step cfg sc a s = .cont s') : execList cfg sc (a :: rest) s = execList cfg sc rest s' := by
  simp only [execList, h]

theorem execList_ret (cfg : Cfg) (sc : Script) (a : Stmt) (rest : List Stmt) (s s' : St) (m e w)
    (h : step cfg sc a s = .ret s' m e w) : execList cfg sc (a :: rest) s = .ret s' m e w := by
  simp only [execList, h]

theorem execList_brk (cfg : Cfg) (sc : Script) (a : Stmt) (rest : List Stmt) (s s' : St)
    (h : step cfg sc a s = .brk s') : execList cfg sc (a :: rest) s = .brk s' := by
  simp only [execList, h]

/-! Intermediate states of one pass, written flat over the state `st` at the loop head.  The wait `w`, the next
    interval `c` and the time stamps are parameters, so that no proof term has to look inside the arithmetic of
    the back-off. -/

/-- after `waitTime := NextBackOff()` and after the `select` (`t` = the clock) -/
def sWait (st : St) (t w c : Nat) : St :=
  { st with pass := st.pass + 1, now := t, wait := some w, cur := c }

/-- after the handler call of this pass (`t` = its start) -/
def sCall (sc : Script) (st : St) (t w c : Nat) : St :=
  { st with pass := st.pass + 1, now := t + (sc.iter (st.pass + 1)).dur, wait := some w, cur := c,
            prod := (sc.iter (st.pass + 1)).out.outs, err := (sc.iter (st.pass + 1)).out.err, calls := st.calls + 1,
            attempts := st.attempts ++ [⟨t, t + (sc.iter (st.pass + 1)).dur, (sc.iter (st.pass + 1)).out⟩] }

/-- after the hook (`hk` = what it appended) and `retryNum++` (`r` = the new value) -/
def sHook (sc : Script) (st : St) (t w c : Nat) (hk : List (Nat × Nat)) (r : Nat) : St :=
  { st with pass := st.pass + 1, now := t + (sc.iter (st.pass + 1)).dur, wait := some w, cur := c,
            prod := (sc.iter (st.pass + 1)).out.outs, err := (sc.iter (st.pass + 1)).out.err, calls := st.calls + 1,
            attempts := st.attempts ++ [⟨t, t + (sc.iter (st.pass + 1)).dur, (sc.iter (st.pass + 1)).out⟩],
            hooks := st.hooks ++ hk, retryNum := r }

section pass
variable (cfg : Cfg) (sc : Script) (st : St) (e : Nat)

theorem pass_stop (hbo : st.bo = some cfg) (he : st.err = some e)
    (hs : stops cfg (st.now + (sc.iter (st.pass + 1)).lag - st.t0) = true) :
    execList cfg sc Gen.loopBody { st with pass := st.pass + 1 } =
      .ret { st with pass := st.pass + 1, now := st.now + (sc.iter (st.pass + 1)).lag, wait := none } st.prod (some e) .backoffStop := by
  simp only [Gen.loopBody, execList, step, hbo, hs, if_true, evalM, evalE, he]

variable (w c : Nat) (hw : randomized cfg st.cur (sc.iter (st.pass + 1)).draw = w) (hc : nextCur cfg st.cur = c)
  (hbo : st.bo = some cfg) (hctx : st.ctxBound = true) (he : st.err = some e) (hcalls : st.calls ≠ 0)
  (hs : stops cfg (st.now + (sc.iter (st.pass + 1)).lag - st.t0) = false)

include hw hc hbo hs in
theorem step_next :
    step cfg sc .nextBackOff { st with pass := st.pass + 1 } = .cont (sWait st (st.now + (sc.iter (st.pass + 1)).lag) w c) := by
  simp only [step, hbo, hs, hw, hc, sWait, Bool.false_eq_true, if_false]

theorem step_ifstop (t : Nat) : step cfg sc (.ifStopRet .prod .err) (sWait st t w c) = .cont (sWait st t w c) := by
  simp only [step, sWait, reduceCtorEq, if_false]

include hctx in
theorem step_select_timer (t late : Nat) (hp : (sc.iter (st.pass + 1)).pick = .timer late) :
    step cfg sc (.selectCtxTimer .prod .err .wait) (sWait st t w c) = .cont (sWait st (t + w + late) w c) := by
  simp only [step, sWait, hctx, hp, if_true, evalD, Option.getD_some]

include hctx he in
theorem step_select_ctx (t : Nat) (hp : (sc.iter (st.pass + 1)).pick = .ctxDone) :
    step cfg sc (.selectCtxTimer .prod .err .wait) (sWait st t w c) = .ret (sWait st t w c) st.prod (some e) .ctxDone := by
  simp only [step, sWait, hctx, hp, if_true, evalM, evalE, he]

include hcalls in
theorem step_call (t : Nat) : step cfg sc .callH (sWait st t w c) = .cont (sCall sc st t w c) := by
  simp only [step, sWait, sCall, hcalls, if_false]

theorem step_iferr_ok (t : Nat) (ho : (sc.iter (st.pass + 1)).out.err = none) :
    step cfg sc (.ifErrNilRet .prod .nil) (sCall sc st t w c) =
      .ret (sCall sc st t w c) (sc.iter (st.pass + 1)).out.outs none .success := by
  simp only [step, sCall, ho, if_true, evalM, evalE]

theorem step_iferr_fail (t e' : Nat) (ho : (sc.iter (st.pass + 1)).out.err = some e') :
    step cfg sc (.ifErrNilRet .prod .nil) (sCall sc st t w c) = .cont (sCall sc st t w c) := by
  simp only [step, sCall, ho, reduceCtorEq, if_false]

theorem step_log (s : St) : step cfg sc .logIfLogger s = .cont s := rfl

theorem step_hook (t : Nat) :
    step cfg sc (.hookIfSet .retryNum .wait) (sCall sc st t w c) =
      .cont (sHook sc st t w c (if cfg.hook then [(st.retryNum, w)] else []) st.retryNum) := by
  cases hh : cfg.hook <;>
  simp only [step, sCall, sHook, hh, evalI, evalD, Option.getD_some, Int.toNat_natCast, List.append_nil, if_true, if_false,
    Bool.false_eq_true]

theorem step_inc (t : Nat) (hk : List (Nat × Nat)) (r : Nat) :
    step cfg sc .incRetryNum (sHook sc st t w c hk r) = .cont (sHook sc st t w c hk (r + 1)) := by
  simp only [step, sHook]

theorem step_ifbreak (t : Nat) (hk : List (Nat × Nat)) (r : Nat) :
    step cfg sc (.ifBreak .gt .retryNum .maxRetries) (sHook sc st t w c hk r) =
      if ((r : Nat) : Int) > cfg.maxRetries then .brk (sHook sc st t w c hk r) else .cont (sHook sc st t w c hk r) := by
  simp only [step, sHook, evalC, evalI]
  by_cases h : ((r : Nat) : Int) > cfg.maxRetries <;> simp [h]

include hw hc hbo hctx he hs in
theorem pass_ctx (hp : (sc.iter (st.pass + 1)).pick = .ctxDone) :
    execList cfg sc Gen.loopBody { st with pass := st.pass + 1 } =
      .ret (sWait st (st.now + (sc.iter (st.pass + 1)).lag) w c) st.prod (some e) .ctxDone := by
  rw [Gen.loopBody, execList_cont _ _ _ _ _ _ (step_next cfg sc st w c hw hc hbo hs),
    execList_cont _ _ _ _ _ _ (step_ifstop cfg sc st w c _),
    execList_ret _ _ _ _ _ _ _ _ _ (step_select_ctx cfg sc st e w c hctx he _ hp)]

include hw hc hbo hctx hcalls hs in
theorem pass_ok (late : Nat) (hp : (sc.iter (st.pass + 1)).pick = .timer late) (ho : (sc.iter (st.pass + 1)).out.err = none) :
    execList cfg sc Gen.loopBody { st with pass := st.pass + 1 } =
      .ret (sCall sc st (st.now + (sc.iter (st.pass + 1)).lag + w + late) w c) (sc.iter (st.pass + 1)).out.outs none .success := by
  rw [Gen.loopBody, execList_cont _ _ _ _ _ _ (step_next cfg sc st w c hw hc hbo hs),
    execList_cont _ _ _ _ _ _ (step_ifstop cfg sc st w c _),
    execList_cont _ _ _ _ _ _ (step_select_timer cfg sc st w c hctx _ late hp),
    execList_cont _ _ _ _ _ _ (step_call cfg sc st w c hcalls _),
    execList_ret _ _ _ _ _ _ _ _ _ (step_iferr_ok cfg sc st w c _ ho)]

include hw hc hbo hctx hcalls hs in
theorem pass_fail (late e' : Nat) (hp : (sc.iter (st.pass + 1)).pick = .timer late)
    (ho : (sc.iter (st.pass + 1)).out.err = some e') :
    execList cfg sc Gen.loopBody { st with pass := st.pass + 1 } =
      if ((st.retryNum + 1 : Nat) : Int) > cfg.maxRetries
      then .brk (sHook sc st (st.now + (sc.iter (st.pass + 1)).lag + w + late) w c (if cfg.hook then [(st.retryNum, w)] else []) (st.retryNum + 1))
      else .cont (sHook sc st (st.now + (sc.iter (st.pass + 1)).lag + w + late) w c (if cfg.hook then [(st.retryNum, w)] else []) (st.retryNum + 1)) := by
  rw [Gen.loopBody, execList_cont _ _ _ _ _ _ (step_next cfg sc st w c hw hc hbo hs),
    execList_cont _ _ _ _ _ _ (step_ifstop cfg sc st w c _),
    execList_cont _ _ _ _ _ _ (step_select_timer cfg sc st w c hctx _ late hp),
    execList_cont _ _ _ _ _ _ (step_call cfg sc st w c hcalls _),
    execList_cont _ _ _ _ _ _ (step_iferr_fail cfg sc st w c _ e' ho),
    execList_cont _ _ _ _ _ _ (step_log cfg sc _),
    execList_cont _ _ _ _ _ _ (step_hook cfg sc st w c _),
    execList_cont _ _ _ _ _ _ (step_inc cfg sc st w c _ _ _)]
  have := step_ifbreak cfg sc st w c (st.now + (sc.iter (st.pass + 1)).lag + w + late) (if cfg.hook then [(st.retryNum, w)] else []) (st.retryNum + 1)
  by_cases hm : ((st.retryNum + 1 : Nat) : Int) > cfg.maxRetries
  · rw [if_pos hm] at this ⊢
    exact execList_brk _ _ _ _ _ _ this
  · rw [if_neg hm] at this ⊢
    rw [execList_cont _ _ _ _ _ _ this]; rfl

end pass

/-- the extracted loop (and what follows it) is the model's loop -/
theorem extracted_loop (cfg : Cfg) (sc : Script) : ∀ (fuel : Nat) (st : St) (e : Nat),
    st.bo = some cfg → st.ctxBound = true → st.err = some e → st.calls ≠ 0 → st.pass + 1 = st.retryNum →
    execLoop cfg sc Gen.loopBody Gen.after fuel st =
      some (prepend st.attempts st.hooks (loop cfg sc st.t0 fuel ⟨st.retryNum, st.cur, st.now, st.prod, e⟩)) := by
  intro fuel
  induction fuel with
  | zero =>
    intro st e _ _ he _ _
    simp [execLoop, loop, prepend, runOf, he]
  | succ fuel ih =>
    intro st e hbo hctx he hcalls hpass
    have hc := loop_cases cfg sc st.t0 fuel ⟨st.retryNum, st.cur, st.now, st.prod, e⟩
    simp only [← hpass] at hc
    rw [← hpass]
    unfold execLoop
    -- the arithmetic of the back-off stays folded
    generalize hw : randomized cfg st.cur (sc.iter (st.pass + 1)).draw = w at hc
    generalize hcu : nextCur cfg st.cur = c at hc
    cases hc with
    | stop hs hr =>
      dsimp only at hs
      rw [hr, pass_stop cfg sc st e hbo he hs]
      simp [runOf, prepend]
    | ctx hs hp hr =>
      dsimp only at hs hp
      rw [hr, pass_ctx cfg sc st e w c hw hcu hbo hctx he hs hp]
      simp [runOf, prepend, sWait]
    | ok late hs hp ho hr =>
      dsimp only at hs hp ho
      rw [hr, pass_ok cfg sc st w c hw hcu hbo hctx hcalls hs late hp ho]
      simp [runOf, prepend, sCall, attemptOf, hw]
    | last late e' hs hp ho hm hr =>
      dsimp only at hs hp ho hm
      rw [hr, pass_fail cfg sc st w c hw hcu hbo hctx hcalls hs late e' hp ho, ← hpass, if_pos hm]
      simp [Gen.after, execList, step, evalM, evalE, runOf, prepend, sHook, attemptOf, hookOf, ho, ← hpass, hw]
    | again late e' hs hp ho hm hr =>
      dsimp only at hs hp ho hm
      have hm' : ¬ (((st.pass + 1 + 1 : Nat) : Int) > cfg.maxRetries) := by omega
      rw [hr, pass_fail cfg sc st w c hw hcu hbo hctx hcalls hs late e' hp ho, ← hpass, if_neg hm']
      simp only []
      rw [ih _ e' (by simp [sHook, hbo]) (by simp [sHook, hctx]) (by simp [sHook, ho]) (by simp [sHook])
        (by simp [sHook])]
      rw [← prepend_push]
      simp [sHook, nextSt, attemptOf, hookOf, ← hpass, hw, hcu]

/-- **what the source says now is the model**: interpreting the extracted body of the closure returned by
    `(Retry).Middleware` gives `retry cfg sc`, for every configuration and every script -/
theorem extracted_retry_eq_model (cfg : Cfg) (sc : Script) :
    execRetry cfg sc Gen.before Gen.loopBody Gen.after = some (retry cfg sc) := by
  unfold execRetry retry
  cases he : sc.first.err with
  | none =>
    simp [Gen.before, execList, step, he, evalM, evalE, runOf]
  | some e =>
    rw [extracted_before cfg sc e he]
    simp only []
    rw [extracted_loop cfg sc (fuelFor cfg) _ e rfl rfl rfl (by simp) rfl]
    simp [prepend, Run.push]

end Wm.GoRetry
