/-
  C12 – generated tie: the body of the closure returned by `(Retry).Middleware`, extracted from the current Go
  source (`WmModel/Gen/RetryBody.lean`, rewritten by the extractor on every run) and interpreted by
  `WmModel/GoRetry.lean`, equals the hand-written model `Wm.Retry.retry` for every configuration and every script.
-/
import WmModel.GoRetry
import WmModel.Gen.RetryBody
import WmModel.Lemmas.Retry
namespace Wm.GoRetry
open Wm.Retry

/-- put what was observed before the loop in front of the loop's run -/
def prepend (as : List Attempt) (hs : List (Nat × Nat)) (r : Run) : Run :=
  { r with attempts := as ++ r.attempts, hooks := hs ++ r.hooks }

theorem prepend_push (as : List Attempt) (hs hk : List (Nat × Nat)) (a : Attempt) (r : Run) :
    prepend (as ++ [a]) (hs ++ hk) r = prepend as hs (r.push a hk) := by
  simp [prepend, Run.push]

/-- the five assignments copy the back-off fields of the configuration -/
theorem wiring (cfg : Cfg) :
    ({ maxRetries := (defaultBo cfg).maxRetries, init := cfg.init, maxInt := cfg.maxInt, mulN := cfg.mulN,
       mulD := cfg.mulD, rfN := cfg.rfN, rfD := cfg.rfD, maxElapsed := cfg.maxElapsed, hook := (defaultBo cfg).hook } : Cfg)
      = cfg := by
  cases cfg; rfl

/-- the statements before the loop, when the first call fails -/
theorem extracted_before (cfg : Cfg) (sc : Script) (e : Nat) (he : sc.first.err = some e) :
    execList cfg sc Gen.before {} = .cont
      { prod := sc.first.outs, err := some e, wait := none, retryNum := 1, bo := some cfg, cur := cfg.init,
        t0 := sc.firstDur + sc.resetLag, now := sc.firstDur + sc.resetLag, pass := 0, calls := 1,
        ctxBound := true, ctxDeadline := decide (cfg.maxElapsed > 0),
        attempts := [⟨0, sc.firstDur, sc.first⟩], hooks := [] } := by
  simp [Gen.before, execList, step, he, setFld]
  exact wiring cfg

/-- **the extracted statements before the loop bind the message's context and wrap it with the MaxElapsedTime deadline** -/
theorem extracted_ctx_deadline (cfg : Cfg) (sc : Script) (e : Nat) (he : sc.first.err = some e) :
    ∃ s, execList cfg sc Gen.before {} = .cont s ∧ s.ctxBound = true ∧ s.ctxDeadline = decide (cfg.maxElapsed > 0) ∧
      s.bo = some cfg := ⟨_, extracted_before cfg sc e he, rfl, rfl, rfl⟩

/-- state in the loop body after the back-off was consulted (not stopped) and the timer fired `late` -/
def afterWait (cfg : Cfg) (sc : Script) (st : St) (late : Nat) : St :=
  { st with pass := st.pass + 1,
            now := st.now + (sc.iter (st.pass + 1)).lag + randomized cfg st.cur (sc.iter (st.pass + 1)).draw + late,
            wait := some (randomized cfg st.cur (sc.iter (st.pass + 1)).draw), cur := nextCur cfg st.cur }

/-- … and after the handler call of this pass -/
def afterCall (cfg : Cfg) (sc : Script) (st : St) (late : Nat) : St :=
  let w := afterWait cfg sc st late
  { w with prod := (sc.iter (st.pass + 1)).out.outs, err := (sc.iter (st.pass + 1)).out.err,
           now := w.now + (sc.iter (st.pass + 1)).dur, calls := st.calls + 1,
           attempts := st.attempts ++ [⟨w.now, w.now + (sc.iter (st.pass + 1)).dur, (sc.iter (st.pass + 1)).out⟩] }

/-- … and after the hook and `retryNum++` -/
def afterHook (cfg : Cfg) (sc : Script) (st : St) (late : Nat) : St :=
  let c := afterCall cfg sc st late
  { c with hooks := st.hooks ++ (if cfg.hook then [(st.retryNum, randomized cfg st.cur (sc.iter (st.pass + 1)).draw)] else []),
           retryNum := st.retryNum + 1 }

section pass
variable (cfg : Cfg) (sc : Script) (st : St) (e : Nat)
  (hbo : st.bo = some cfg) (hctx : st.ctxBound = true) (he : st.err = some e) (hcalls : st.calls ≠ 0)
include hbo hctx he hcalls

theorem pass_stop (hs : stops cfg (st.now + (sc.iter (st.pass + 1)).lag - st.t0) = true) :
    execList cfg sc Gen.loopBody { st with pass := st.pass + 1 } =
      .ret { st with pass := st.pass + 1, now := st.now + (sc.iter (st.pass + 1)).lag, wait := none } st.prod (some e) .backoffStop := by
  simp only [Gen.loopBody, execList, step, hbo, hs, if_true, evalM, evalE, he]

theorem pass_ctx (hs : stops cfg (st.now + (sc.iter (st.pass + 1)).lag - st.t0) = false)
    (hp : (sc.iter (st.pass + 1)).pick = .ctxDone) :
    ∃ s', execList cfg sc Gen.loopBody { st with pass := st.pass + 1 } = .ret s' st.prod (some e) .ctxDone ∧
      s'.attempts = st.attempts ∧ s'.hooks = st.hooks := by
  simp only [Gen.loopBody, execList, step, hbo, hs, hp, hctx, evalM, evalE, he, Bool.false_eq_true, if_false, if_true,
    reduceCtorEq]
  exact ⟨_, rfl, rfl, rfl⟩

theorem pass_ok (late : Nat) (hs : stops cfg (st.now + (sc.iter (st.pass + 1)).lag - st.t0) = false)
    (hp : (sc.iter (st.pass + 1)).pick = .timer late) (ho : (sc.iter (st.pass + 1)).out.err = none) :
    execList cfg sc Gen.loopBody { st with pass := st.pass + 1 } =
      .ret (afterCall cfg sc st late) (sc.iter (st.pass + 1)).out.outs none .success := by
  simp only [Gen.loopBody, execList, step, hbo, hs, hp, hctx, ho, hcalls, evalM, evalE, evalD, Bool.false_eq_true, if_false,
    if_true, reduceCtorEq, afterCall, afterWait, Option.getD_some]

theorem pass_fail (late e' : Nat) (hs : stops cfg (st.now + (sc.iter (st.pass + 1)).lag - st.t0) = false)
    (hp : (sc.iter (st.pass + 1)).pick = .timer late) (ho : (sc.iter (st.pass + 1)).out.err = some e') :
    execList cfg sc Gen.loopBody { st with pass := st.pass + 1 } =
      if ((st.retryNum + 1 : Nat) : Int) > cfg.maxRetries then .brk (afterHook cfg sc st late) else .cont (afterHook cfg sc st late) := by
  cases hh : cfg.hook <;>
  simp only [Gen.loopBody, execList, step, hbo, hs, hp, hctx, ho, hcalls, evalM, evalE, evalD, evalI, evalC, Bool.false_eq_true,
    if_false, if_true, reduceCtorEq, afterHook, afterCall, afterWait, Option.getD_some, hh, Int.toNat_natCast,
    List.append_nil, Nat.cast_add, Nat.cast_one] <;>
  split <;> rfl

end pass

/-- the extracted loop (and what follows it) is the model's loop -/
theorem extracted_loop (cfg : Cfg) (sc : Script) : ∀ (fuel : Nat) (st : St) (e : Nat),
    st.bo = some cfg → st.ctxBound = true → st.err = some e → st.calls ≠ 0 → st.pass + 1 = st.retryNum →
    execLoop cfg sc Gen.loopBody Gen.after fuel st =
      some (prepend st.attempts st.hooks (loop cfg sc st.t0 fuel ⟨st.retryNum, st.cur, st.now, st.prod, e⟩)) := by
  intro fuel
  induction fuel with
  | zero =>
    intro st e _ _ he _ _
    simp [execLoop, loop, prepend, runOf, he]
  | succ fuel ih =>
    intro st e hbo hctx he hcalls hpass
    have hc := loop_cases cfg sc st.t0 fuel ⟨st.retryNum, st.cur, st.now, st.prod, e⟩
    simp only [← hpass] at hc
    rw [← hpass]
    unfold execLoop
    cases hc with
    | stop hs hr =>
      rw [hr, pass_stop cfg sc st e hbo hctx he hcalls hs]
      simp [runOf, prepend]
    | ctx hs hp hr =>
      obtain ⟨s', h1, h2, h3⟩ := pass_ctx cfg sc st e hbo hctx he hcalls hs hp
      rw [hr, h1]
      simp [runOf, prepend, h2, h3]
    | ok late hs hp ho hr =>
      rw [hr, pass_ok cfg sc st e hbo hctx he hcalls late hs hp ho]
      simp [runOf, prepend, afterCall, afterWait, attemptOf]
    | last late e' hs hp ho hm hr =>
      rw [hr, pass_fail cfg sc st e hbo hctx he hcalls late e' hs hp ho, ← hpass, if_pos hm]
      simp [Gen.after, execList, step, evalM, evalE, runOf, prepend, afterHook, afterCall, afterWait, attemptOf, hookOf, ho, hpass]
    | again late e' hs hp ho hm hr =>
      have hm' : ¬ (((st.pass + 1 + 1 : Nat) : Int) > cfg.maxRetries) := by omega
      rw [hr, pass_fail cfg sc st e hbo hctx he hcalls late e' hs hp ho, ← hpass, if_neg hm']
      simp only []
      rw [ih (afterHook cfg sc st late) e' (by simp [afterHook, afterCall, afterWait, hbo])
        (by simp [afterHook, afterCall, afterWait, hctx]) (by simp [afterHook, afterCall, afterWait, ho])
        (by simp [afterHook, afterCall, afterWait]) (by simp [afterHook, afterCall, afterWait, hpass])]
      rw [← prepend_push]
      simp [afterHook, afterCall, afterWait, nextSt, attemptOf, hookOf, hpass]

/-- **what the source says now is the model**: interpreting the extracted body of the closure returned by
    `(Retry).Middleware` gives `retry cfg sc`, for every configuration and every script -/
theorem extracted_retry_eq_model (cfg : Cfg) (sc : Script) :
    execRetry cfg sc Gen.before Gen.loopBody Gen.after = some (retry cfg sc) := by
  unfold execRetry retry
  cases he : sc.first.err with
  | none =>
    simp [Gen.before, execList, step, he, evalM, evalE, runOf]
  | some e =>
    rw [extracted_before cfg sc e he]
    simp only []
    rw [extracted_loop cfg sc (fuelFor cfg) _ e rfl rfl rfl (by simp) rfl]
    simp [prepend, Run.push]

end Wm.GoRetry
