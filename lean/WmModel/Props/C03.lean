/-
  C03 – Message Ack/Nack is a linearizable first-wins state machine.
  Property theorems only.  Model: `WmModel/Ack.lean`.  All statements quantify over every finite
  sequence of calls (= every linearisation of every concurrent history, since each call is atomic
  under `ackMutex`) on each of the three ways a message can be built.
-/
import WmModel.Ack
namespace Wm.Ack

/-- reachable-state invariant: `sent` and the two channels agree, never both closed -/
def Good (s : St) : Prop :=
  (s.sent = .none ∧ s.ackCh ≠ .closed ∧ s.nackCh ≠ .closed) ∨
  (s.sent = .ack  ∧ s.ackCh = .closed ∧ s.nackCh ≠ .closed) ∨
  (s.sent = .nack ∧ s.ackCh ≠ .closed ∧ s.nackCh = .closed)

theorem good_init (k : Kind) : Good (initSt k) := by
  cases k <;> simp [Good, initSt]

theorem good_step (s : St) (o : Op) (h : Good s) : Good (step s o).1 ∧ (step s o).2 ≠ .panic := by
  rcases s with ⟨a, b, c⟩
  cases a <;> cases b <;> cases c <;> cases o <;>
    simp_all [Good, step, ack, nack, closeCh]

theorem good_run (s : St) (ops : List Op) (h : Good s) :
    Good (run s ops).1 ∧ Res.panic ∉ (run s ops).2 := by
  induction ops generalizing s with
  | nil => simp [run, h]
  | cons o rest ih =>
    have hs := good_step s o h
    have := ih (step s o).1 hs.1
    simp only [run]
    refine ⟨this.1, ?_⟩
    intro hm
    rcases List.mem_cons.mp hm with h1 | h1
    · exact hs.2 h1.symm
    · exact this.2 h1

/-- **never panics, never blocks**: every call in every sequence on every kind of message returns a value -/
theorem never_panics (k : Kind) (ops : List Op) : Res.panic ∉ (run (initSt k) ops).2 :=
  (good_run _ ops (good_init k)).2

/-- `sent` after a step from a settled state is unchanged; from `none` it is the op's own settlement -/
theorem sent_step (s : St) (o : Op) (h : Good s) :
    (step s o).1.sent = (if s.sent = .none then firstSettle [o] else s.sent) := by
  rcases s with ⟨a, b, c⟩
  cases a <;> cases b <;> cases c <;> cases o <;>
    simp_all [Good, step, ack, nack, closeCh, firstSettle]

theorem sent_run (s : St) (ops : List Op) (h : Good s) :
    (run s ops).1.sent = (if s.sent = .none then firstSettle ops else s.sent) := by
  induction ops generalizing s with
  | nil => simp [run, firstSettle]
  | cons o rest ih =>
    have hs := good_step s o h
    have h1 := ih (step s o).1 hs.1
    have h2 := sent_step s o h
    simp only [run]
    rw [h1, h2]
    cases o <;> by_cases hn : s.sent = .none <;> simp [hn, firstSettle]
    all_goals (intro hc; simp_all)

/-- **first wins**: the final settlement is the first Ack/Nack of the sequence, whatever follows -/
theorem first_wins (k : Kind) (ops : List Op) :
    (run (initSt k) ops).1.sent = firstSettle ops := by
  have := sent_run (initSt k) ops (good_init k)
  cases k <;> simpa [initSt] using this

/-- result of `o` issued after the calls `pre` -/
def resultAfter (k : Kind) (pre : List Op) (o : Op) : Res :=
  (step (run (initSt k) pre).1 o).2

theorem step_result (s : St) (h : Good s) :
    (step s .ack).2 = .bool ((step s .ack).1.sent = .ack) ∧
    (step s .nack).2 = .bool ((step s .nack).1.sent = .nack) ∧
    (step s .readAcked).2 = .chan (if s.sent = .ack then .closed else s.ackCh) ∧
    (step s .readNacked).2 = .chan (if s.sent = .nack then .closed else s.nackCh) := by
  rcases s with ⟨a, b, c⟩
  cases a <;> cases b <;> cases c <;> simp_all [Good, step, ack, nack, closeCh]

theorem run_append (s : St) (a b : List Op) :
    (run s (a ++ b)).1 = (run (run s a).1 b).1 := by
  induction a generalizing s with
  | nil => simp [run]
  | cons o r ih => simp [run, ih]

/-- **Ack returns true exactly when the message is (now) acked** -/
theorem ack_true_iff (k : Kind) (pre : List Op) :
    resultAfter k pre .ack = .bool (firstSettle (pre ++ [.ack]) = .ack) := by
  have hg := (good_run _ pre (good_init k)).1
  have h := (step_result _ hg).1
  have hfw := first_wins k (pre ++ [.ack])
  rw [run_append] at hfw
  simp only [run] at hfw
  unfold resultAfter
  rw [h, hfw]

/-- **Nack returns true exactly when the message is (now) nacked** -/
theorem nack_true_iff (k : Kind) (pre : List Op) :
    resultAfter k pre .nack = .bool (firstSettle (pre ++ [.nack]) = .nack) := by
  have hg := (good_run _ pre (good_init k)).1
  have h := (step_result _ hg).2.1
  have hfw := first_wins k (pre ++ [.nack])
  rw [run_append] at hfw
  simp only [run] at hfw
  unfold resultAfter
  rw [h, hfw]

/-- **repeated calls change nothing**: once settled, no call changes the state -/
theorem settled_frozen (k : Kind) (pre : List Op) (o : Op)
    (h : (run (initSt k) pre).1.sent ≠ .none) :
    (step (run (initSt k) pre).1 o).1 = (run (initSt k) pre).1 := by
  have hg := (good_run _ pre (good_init k)).1
  generalize (run (initSt k) pre).1 = s at *
  rcases s with ⟨a, b, c⟩
  cases a <;> cases b <;> cases c <;> cases o <;> simp_all [Good, step, ack, nack]

/-- idempotence in the usual form: doing the same settle call twice = doing it once -/
theorem idempotent (k : Kind) (pre : List Op) (o : Op) :
    (run (initSt k) (pre ++ [o, o])).1 = (run (initSt k) (pre ++ [o])).1 ∧
    (o = .ack ∨ o = .nack → resultAfter k (pre ++ [o]) o = resultAfter k pre o) := by
  have hg := (good_run _ pre (good_init k)).1
  unfold resultAfter
  rw [run_append, run_append]
  generalize (run (initSt k) pre).1 = s at *
  rcases s with ⟨a, b, c⟩
  cases a <;> cases b <;> cases c <;> cases o <;> simp_all [Good, run, step, ack, nack, closeCh]

/-- **exactly the matching channel is closed, never both** (in every reachable state) -/
theorem chan_closed_iff (k : Kind) (ops : List Op) :
    let s := (run (initSt k) ops).1
    (s.ackCh = .closed ↔ s.sent = .ack) ∧ (s.nackCh = .closed ↔ s.sent = .nack) ∧
    ¬ (s.ackCh = .closed ∧ s.nackCh = .closed) := by
  have hg := (good_run _ ops (good_init k)).1
  generalize (run (initSt k) ops).1 = s at *
  rcases s with ⟨a, b, c⟩
  cases a <;> cases b <;> cases c <;> simp_all [Good]

/-- what `Acked()`/`Nacked()` show after `pre`: closed iff that settlement won -/
theorem read_closed_iff (k : Kind) (pre : List Op) :
    (resultAfter k pre .readAcked = .chan .closed ↔ firstSettle pre = .ack) ∧
    (resultAfter k pre .readNacked = .chan .closed ↔ firstSettle pre = .nack) := by
  have h := chan_closed_iff k pre
  have hf := first_wins k pre
  simp only at h
  unfold resultAfter
  simp only [step]
  rw [hf] at h
  constructor
  · constructor
    · intro hh; injection hh with hh; exact h.1.mp hh
    · intro hh; rw [h.1.mpr hh]
  · constructor
    · intro hh; injection hh with hh; exact h.2.1.mp hh
    · intro hh; rw [h.2.1.mpr hh]

/-- result of the `i`-th call of a sequence -/
theorem run_results_get (s : St) (ops : List Op) (i : Nat) (hi : i < ops.length) :
    (run s ops).2[i]? = some (step (run s (ops.take i)).1 ops[i]).2 := by
  induction ops generalizing s i with
  | nil => simp at hi
  | cons o rest ih =>
    cases i with
    | zero => simp [run]
    | succ j =>
      have hj : j < rest.length := by simpa using hi
      simp [run, ih (step s o).1 j hj]

theorem firstSettle_append_of_ne (a b : List Op) (h : firstSettle a ≠ .none) :
    firstSettle (a ++ b) = firstSettle a := by
  induction a with
  | nil => simp [firstSettle] at h
  | cons o r ih => cases o <;> simp_all [firstSettle]

theorem firstSettle_take_settle (ops : List Op) (i : Nat) (hi : i < ops.length)
    (hs : ops[i] = .ack ∨ ops[i] = .nack) :
    firstSettle (ops.take i ++ [ops[i]]) = firstSettle ops := by
  induction ops generalizing i with
  | nil => simp at hi
  | cons o rest ih =>
    cases i with
    | zero => rcases hs with h | h <;> simp at h <;> subst h <;> simp [firstSettle]
    | succ j =>
      have hj : j < rest.length := by simpa using hi
      have := ih j hj (by simpa using hs)
      cases o <;> simp_all [firstSettle]

/-- **all callers observe the same winner**: in every linearisation `ops` of any set of concurrent
    calls, *every* Ack call returns `winner = ack` and *every* Nack call returns `winner = nack`,
    where the winner is the settlement the message ends in. -/
theorem concurrent_same_winner (k : Kind) (ops : List Op) (i : Nat) (hi : i < ops.length) :
    (ops[i] = .ack  → (run (initSt k) ops).2[i]? = some (.bool (firstSettle ops = .ack))) ∧
    (ops[i] = .nack → (run (initSt k) ops).2[i]? = some (.bool (firstSettle ops = .nack))) := by
  have hr := run_results_get (initSt k) ops i hi
  constructor
  · intro h
    have := ack_true_iff k (ops.take i)
    unfold resultAfter at this
    rw [hr, h, this, ← h, firstSettle_take_settle ops i hi (Or.inl h)]
  · intro h
    have := nack_true_iff k (ops.take i)
    unfold resultAfter at this
    rw [hr, h, this, ← h, firstSettle_take_settle ops i hi (Or.inr h)]

/-! non-vacuity: concrete non-trivial sequences -/
example : (run (initSt .zero) [.nack, .ack, .readAcked, .readNacked, .nack]).2 =
    [.bool true, .bool false, .chan .nil, .chan .closed, .bool true] := by decide
example : firstSettle [.readAcked, .nack, .ack] = .nack := by decide
example : (run (initSt .new) [.ack, .nack, .ack]).1 = ⟨.ack, .closed, .opn⟩ := by decide

end Wm.Ack
