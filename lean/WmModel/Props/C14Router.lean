/-
  C14 × C02 – the deduplicating middleware inside a Router, composed from the two tied models (`Wm.Dedup.middleware`, tied
  by `Props/C14Tie.lean`; `Wm.Handle.handle`, tied by `Props/C02Tie.lean`) and the settlement model of C03:
    * `duplicate_is_acked_unhandled`: a duplicate inside the window is Acked – the drop is a success – without the handler
      being invoked and without anything being published;
    * `first_is_settled_as_handler_says`: the first message of a key is settled exactly as `handleMessage` settles the
      handler's own result (the middleware is transparent for it);
    * `key_error_is_nacked`: a key-factory / repository error Nacks the message, handler not invoked, nothing published.
-/
import WmModel.Props.C14
import WmModel.Props.C02
namespace Wm.Dedup
open Wm.Handle (Cfg PubOutcome handle sentAfter AckCond final_settlement)

variable {κ : Type} [DecidableEq κ] {α : Type}

/-- the middleware's result as `handleMessage` sees it; `.keyErr` = `(nil, err)`, `.dropped` = `(nil, nil)` -/
def MwRes.toResult : MwRes (Handle.Result α) → Handle.Result α
  | .keyErr => .returns [] true
  | .dropped => .returns [] false
  | .handled r => r

theorem duplicate_is_acked_unhandled (kd : Ack.Kind) (c : Cfg) (p : PubOutcome) (w : Nat) (r : Repo κ) (k : κ) (now : Nat)
    (h : Handle.Result α) (hp : present r k = true) :
    (middleware w r (.key k) now h).2.2 = 0 ∧
    sentAfter kd (handle c ⟨none, (middleware w r (.key k) now h).2.1.toResult⟩ p) = .ack ∧
    (handle c ⟨none, (middleware w r (.key k) now h).2.1.toResult⟩ p).any Handle.Effect.isPublishCall = false := by
  rw [middleware_drop_is_success w r k now h hp]
  refine ⟨rfl, ?_, ?_⟩
  · exact (final_settlement kd c (MwRes.toResult (.dropped : MwRes (Handle.Result α))) p).1.2 ⟨[], rfl, Or.inl rfl⟩
  · simp [MwRes.toResult, handle, Handle.selfEff, Handle.publishProduced, Handle.settleTail, Handle.Effect.isPublishCall]

theorem first_is_settled_as_handler_says (c : Cfg) (p : PubOutcome) (w : Nat) (r : Repo κ) (k : κ) (now : Nat)
    (h : Handle.Result α) (hp : present r k = false) :
    (middleware w r (.key k) now h).2.2 = 1 ∧
    handle c ⟨none, (middleware w r (.key k) now h).2.1.toResult⟩ p = handle c ⟨none, h⟩ p := by
  rw [middleware_first_reaches_handler w r k now h hp]
  exact ⟨rfl, rfl⟩

theorem key_error_is_nacked (kd : Ack.Kind) (c : Cfg) (p : PubOutcome) (w : Nat) (r : Repo κ) (now : Nat)
    (h : Handle.Result α) :
    (middleware w r (.err : KeyRes κ) now h).2.2 = 0 ∧
    sentAfter kd (handle c ⟨none, (middleware w r (.err : KeyRes κ) now h).2.1.toResult⟩ p) = .nack ∧
    (handle c ⟨none, (middleware w r (.err : KeyRes κ) now h).2.1.toResult⟩ p).any Handle.Effect.isPublishCall = false := by
  rw [middleware_key_error w r now h]
  refine ⟨rfl, ?_, ?_⟩
  · apply (final_settlement kd c (MwRes.toResult (.keyErr : MwRes (Handle.Result α))) p).2.2
    rintro ⟨outs, ho, _⟩
    simp [MwRes.toResult] at ho
  · simp [MwRes.toResult, handle, Handle.selfEff, Handle.Effect.isPublishCall]

end Wm.Dedup
