/-
  C14 – Deduplicator lets exactly one message per key through per window.
  Property theorems only (helper lemmas: `WmModel/Lemmas/Dedup.lean`; model: `WmModel/Dedup.lean`).

  Every statement quantifies over *all* operation lists = all interleavings of arrivals (of any keys, from any number
  of goroutines) with clean-ups, because each operation is one critical section of the Go code (structural facts and
  the generated tie `Props/C14Tie.lean`).  Clock readings are arbitrary naturals subject to `WellTimed` only.
-/
import WmModel.Dedup
import WmModel.Lemmas.Dedup
set_option linter.unusedSectionVars false
set_option linter.unusedSimpArgs false
namespace Wm.Dedup

variable {κ : Type} [DecidableEq κ]

/-! ## the window -/

/-- general form, from any repository and any starting clock reading -/
theorem one_per_window_from (w : Nat) (r : Repo κ) (t0 : Nat) (ops : List (Op κ)) (hw : WellTimedFrom t0 ops)
    (i j : Nat) (k : κ) (ti tj : Nat)
    (hi : acceptedFrom w r ops i k ti) (hj : acceptedFrom w r ops j k tj) (hij : i < j) : ti + w < tj := by
  induction ops generalizing r t0 i j with
  | nil => simp [acceptedFrom] at hi
  | cons o rest ih =>
    obtain ⟨_, _, hrest⟩ := hw
    cases j with
    | zero => omega
    | succ j =>
      rw [acceptedFrom_cons_succ] at hj
      cases i with
      | zero =>
        rw [acceptedFrom_cons_zero] at hi
        obtain ⟨rfl, hp⟩ := hi
        rw [step_arrive, isDup_absent w r k ti hp] at hj
        exact accept_after_entry w _ k (ti + w) _ rest j tj (List.mem_cons_self) hrest hj
      | succ i =>
        rw [acceptedFrom_cons_succ] at hi
        exact ih _ _ hrest i j hi hj (by omega)

/-- **one per window**: between two accepted arrivals of one key at `ti` (earlier) and `tj`, more than a window has
    passed – for every interleaving of arrivals of any keys and clean-ups (DESIGN.md Appendix D) -/
theorem one_per_window (w : Nat) (ops : List (Op κ)) (hw : WellTimed ops) (i j : Nat) (k : κ) (ti tj : Nat)
    (hi : accepted w ops i k ti) (hj : accepted w ops j k tj) (hij : i < j) : ti + w < tj :=
  one_per_window_from w [] 0 ops hw i j k ti tj hi hj hij

/-- **remembered for at least the window**: every arrival of `k` up to `ti + w` after an accepted one is a duplicate -/
theorem remembered_at_least_window (w : Nat) (ops : List (Op κ)) (hw : WellTimed ops) (i j : Nat) (k : κ) (ti tj : Nat)
    (hi : accepted w ops i k ti) (hij : i < j) (hj : ops[j]? = some (.arrive k tj)) (hwin : tj ≤ ti + w) :
    (run w [] ops).2[j]? = some (.verdict true) := by
  have hlen := run_length w ([] : Repo κ) ops
  have hjl : j < ops.length := by
    rcases Nat.lt_or_ge j ops.length with h | h
    · exact h
    · rw [List.getElem?_eq_none h] at hj; cases hj
  -- the result at `j` is a verdict because the operation at `j` is an arrival
  have hres : ∀ (r : Repo κ) (l : List (Op κ)) (n : Nat), l[n]? = some (.arrive k tj) →
      ∃ b, (run w r l).2[n]? = some (.verdict b) := by
    intro r l
    induction l generalizing r with
    | nil => intro n h; simp at h
    | cons o rest ih =>
      intro n h
      cases n with
      | zero =>
        simp at h; subst h
        exact ⟨(isDup w r k tj).2, by simp [run_cons, step_arrive]⟩
      | succ n =>
        obtain ⟨b, hb⟩ := ih (step w r o).1 n (by simpa using h)
        exact ⟨b, by simpa [run_cons] using hb⟩
  obtain ⟨b, hb⟩ := hres [] ops j hj
  cases b with
  | true => exact hb
  | false =>
    have := one_per_window w ops hw i j k ti tj hi ⟨hj, hb⟩ hij
    omega

/-- **the window counts from the clock reading taken in the critical section**: `WellTimed` (readings non-decreasing in
    lock order) cannot be dropped from `one_per_window`.  If an arrival uses a reading taken *before* it queued for the lock
    (here: reading 0 used by the second operation, whose predecessor already read 150), the key is accepted again at 170 –
    more than a window after the stale reading, but only 20 after the section in which the first one was accepted. -/
theorem window_needs_section_clock_witness :
    let ops : List (Op String) := [.arrive "other" 150, .arrive "a" 0, .clean 101 160, .arrive "a" 170]
    accepted 100 ops 1 "a" 0 ∧ accepted 100 ops 3 "a" 170 ∧ ¬ WellTimed ops ∧ ¬ (150 + 100 < 170) := by decide

/-! ## keys do not interact -/

/-- **frame property**: the verdicts on the arrivals of `k` are a function of the arrivals of `k` and the clean-ups alone –
    deleting every arrival of every other key from the history (and every other key from the repository) changes none
    of them.  Messages with different keys never suppress each other. -/
theorem keys_independent (w : Nat) (k : κ) (r : Repo κ) (ops : List (Op κ)) :
    verdictsOf k ops (run w r ops).2 =
      verdictsOf k (ops.filter (relevant k)) (run w (proj k r) (ops.filter (relevant k))).2 := by
  induction ops generalizing r with
  | nil => simp [run_nil, verdictsOf]
  | cons o rest ih =>
    cases o with
    | arrive k' t =>
      by_cases hk : k' = k
      · subst hk
        have h := isDup_proj_same w k' r t
        simp only [List.filter_cons, relevant, decide_true, if_true, run_cons, step_arrive,
          verdictsOf_cons_arrive, h.1, h.2]
        rw [ih]
      · simp only [List.filter_cons, relevant, hk, decide_false, run_cons, step_arrive,
          verdictsOf_cons_arrive, if_false, Bool.false_eq_true]
        rw [ih, proj_isDup_other w k k' r t hk]
    | clean tick tm =>
      simp only [List.filter_cons, relevant, if_true, run_cons, step_clean, verdictsOf_cons_clean]
      rw [ih, proj_cleanOut]

/-! ## expiry -/

/-- general form: from a repository without `k`; `mid1` may contain anything as long as `k` is not accepted again in it,
    `mid2` anything but arrivals of `k` -/
theorem accepted_again_after_expiry_from (w : Nat) (r : Repo κ) (k : κ) (t1 tick tm t2 : Nat) (mid1 mid2 : List (Op κ))
    (habs : present r k = false)
    (hlast : ∀ x t, ¬ acceptedFrom w ((k, t1 + w) :: r) mid1 x k t)
    (hexp : t1 + w < tick)
    (hfirst : ∀ t, Op.arrive k t ∉ mid2) :
    acceptedFrom w r (.arrive k t1 :: (mid1 ++ .clean tick tm :: (mid2 ++ [.arrive k t2])))
      (1 + (mid1.length + (1 + mid2.length))) k t2 := by
  have h1 : AllAt ((k, t1 + w) :: r) k (t1 + w) := by
    intro e' hm
    rcases List.mem_cons.mp hm with heq | hm
    · exact (Prod.mk.inj heq).2
    · exact absurd hm ((present_false_iff r k).mp habs e')
  have h2 := allAt_run w _ k (t1 + w) mid1 h1 hlast
  have h3 := cleanOut_expired _ k (t1 + w) tick h2 hexp
  have h4 := absent_run w _ k mid2 h3 hfirst
  rw [Nat.add_comm 1, acceptedFrom_cons_succ, step_arrive, isDup_absent w r k t1 habs]
  rw [acceptedFrom_append_right]
  rw [Nat.add_comm 1, acceptedFrom_cons_succ, step_clean]
  have := acceptedFrom_append_right w (cleanOut (run w ((k, t1 + w) :: r) mid1).1 tick) mid2 [.arrive k t2] 0 k t2
  rw [Nat.add_zero] at this
  rw [this, acceptedFrom_cons_zero]
  exact ⟨rfl, (present_false_iff _ k).mpr h4⟩

/-- **accepted again after expiry**: `k` was accepted at `t1`; it was not accepted again before a clean-up whose tick is
    past its expiry `t1 + w` ran; then the first arrival of `k` after that clean-up is accepted (whatever else arrives
    and however many other clean-ups run in between). -/
theorem accepted_again_after_expiry (w : Nat) (pre mid1 mid2 : List (Op κ)) (k : κ) (t1 tick tm t2 : Nat)
    (hacc : accepted w (pre ++ [.arrive k t1]) pre.length k t1)
    (hlast : ∀ x t, ¬ acceptedFrom w (run w [] (pre ++ [.arrive k t1])).1 mid1 x k t)
    (hexp : t1 + w < tick)
    (hfirst : ∀ t, Op.arrive k t ∉ mid2) :
    accepted w (pre ++ (.arrive k t1 :: (mid1 ++ .clean tick tm :: (mid2 ++ [.arrive k t2]))))
      (pre.length + (1 + (mid1.length + (1 + mid2.length)))) k t2 := by
  unfold accepted at hacc ⊢
  have h0 := acceptedFrom_append_right w ([] : Repo κ) pre [.arrive k t1] 0 k t1
  rw [Nat.add_zero] at h0
  have hp := ((acceptedFrom_cons_zero w _ _ [] k t1).mp (h0.mp hacc)).2
  rw [acceptedFrom_append_right]
  apply accepted_again_after_expiry_from w _ k t1 tick tm t2 mid1 mid2 hp _ hexp hfirst
  have hs : (run w [] (pre ++ [.arrive k t1])).1 = (k, t1 + w) :: (run w [] pre).1 := by
    rw [run_append, run_cons, step_arrive, isDup_absent w _ k t1 hp, run_nil]
  rw [hs] at hlast
  exact hlast

/-- **a re-accepted sentinel proves the clean-up ran**: `z` is known with expiry `ez`, every entry of `p` expires no later
    (`ep ≤ ez`), `p` does not arrive in `ops`, and the `j`-th operation of `ops` is an accepted arrival of `z`.  Then `p` is
    forgotten by then: a clean-up removes *every* entry that expired before its tick, however many there are.  (This is the
    inference the `volume` cases of the harness make on the real repository – without any wall-clock bound.) -/
theorem sentinel_reaccepted_probe_forgotten (w : Nat) (r : Repo κ) (z p : κ) (ez ep : Nat) (ops : List (Op κ)) (j tj : Nat)
    (hz : (z, ez) ∈ r) (hp : AllAt r p ep) (hle : ep ≤ ez) (hno : ∀ t, Op.arrive p t ∉ ops)
    (hj : acceptedFrom w r ops j z tj) : absent (run w r (ops.take j)).1 p := by
  induction ops generalizing r j with
  | nil => simp [acceptedFrom] at hj
  | cons o rest ih =>
    cases j with
    | zero =>
      rw [acceptedFrom_cons_zero] at hj
      have : present r z = true := (present_iff r z).mpr ⟨ez, hz⟩
      rw [this] at hj; exact absurd hj.2 (by simp)
    | succ j =>
      rw [acceptedFrom_cons_succ] at hj
      have hno' : ∀ t, Op.arrive p t ∉ rest := fun t hm => hno t (List.mem_cons_of_mem _ hm)
      rw [List.take_succ_cons, run_cons]
      cases o with
      | arrive k' t =>
        have hne : k' ≠ p := by intro hk; subst hk; exact hno t (List.mem_cons_self)
        apply ih _ j (by rw [step_arrive]; exact isDup_mem_mono w r z k' t ez hz) _ hno' hj
        rw [step_arrive]
        unfold isDup; split
        · exact hp
        · intro e' hm
          rcases List.mem_cons.mp hm with heq | hm
          · exact absurd (Prod.mk.inj heq).1.symm hne
          · exact hp e' hm
      | clean tick tm =>
        rw [step_clean] at hj ⊢
        by_cases hlt : ez < tick
        · exact absent_run w _ p (rest.take j) (cleanOut_expired r p ep tick hp (by omega))
            (fun t hm => hno' t (List.mem_of_mem_take hm))
        · exact ih _ j ((mem_cleanOut r tick (z, ez)).mpr ⟨hz, hlt⟩)
            (fun e' hm => hp e' ((mem_cleanOut r tick _).mp hm).1) hno' hj

/-- … so the probe's next arrival is accepted -/
theorem sentinel_reaccepted_probe_accepted (w : Nat) (r : Repo κ) (z p : κ) (ez ep : Nat) (ops : List (Op κ)) (j tj t : Nat)
    (hz : (z, ez) ∈ r) (hp : AllAt r p ep) (hle : ep ≤ ez) (hno : ∀ t, Op.arrive p t ∉ ops) (hzp : z ≠ p)
    (hj : acceptedFrom w r ops j z tj) :
    acceptedFrom w r (ops.take (j + 1) ++ [.arrive p t]) (j + 1) p t := by
  have hlen : j < ops.length := by
    rcases Nat.lt_or_ge j ops.length with h | h
    · exact h
    · have := hj.1; rw [List.getElem?_eq_none h] at this; cases this
  have hoj : ops[j]? = some (.arrive z tj) := hj.1
  have htake : ops.take (j + 1) = ops.take j ++ [.arrive z tj] := by
    rw [List.take_add_one, hoj]; rfl
  have hl : (ops.take (j + 1)).length = j + 1 := by simp; omega
  have := acceptedFrom_append_right w r (ops.take (j + 1)) [.arrive p t] 0 p t
  rw [hl, Nat.add_zero] at this
  rw [this, acceptedFrom_cons_zero]
  refine ⟨rfl, ?_⟩
  rw [present_false_iff, htake, run_append]
  have habs := sentinel_reaccepted_probe_forgotten w r z p ez ep ops j tj hz hp hle hno hj
  simp only [run_cons, run_nil, step_arrive]
  intro e hm
  have hm' : (p, e) ∈ (isDup w (run w r (ops.take j)).1 z tj).1 := hm
  unfold isDup at hm'
  split at hm'
  · exact habs e hm'
  · rcases List.mem_cons.mp hm' with heq | hm'
    · exact hzp (Prod.mk.inj heq).1.symm
    · exact habs e hm'

/-! ## concurrency -/

/-- **exactly one**: take any list of operations – arrivals of any keys from any number of goroutines in any order,
    clean-ups in between – in which `k` arrives at least once and no clean-up uses a tick past the window of an arrival of
    `k`; started from a repository that does not know `k`, exactly one arrival of `k` is accepted. -/
theorem concurrent_exactly_one (w : Nat) (k : κ) (r : Repo κ) (ops : List (Op κ))
    (habs : present r k = false)
    (hex : ∃ t, Op.arrive k t ∈ ops)
    (hticks : ∀ tick tm t, Op.clean tick tm ∈ ops → Op.arrive k t ∈ ops → tick ≤ t + w) :
    (verdictsOf k ops (run w r ops).2).count false = 1 := by
  induction ops generalizing r with
  | nil => obtain ⟨t, ht⟩ := hex; simp at ht
  | cons o rest ih =>
    rw [run_cons]
    cases o with
    | arrive k' t =>
      rw [step_arrive, verdictsOf_cons_arrive]
      by_cases hk : k' = k
      · subst hk
        rw [isDup_absent w r k' t habs]
        simp only [if_true]
        rw [List.count_cons]
        have := no_accept_while_held w ((k', t + w) :: r) k' (t + w) rest (List.mem_cons_self)
          (fun tick tm hm => hticks tick tm t (List.mem_cons_of_mem _ hm) (List.mem_cons_self))
        rw [this]; simp
      · simp only [hk, if_false]
        apply ih
        · rw [present_false_iff] at habs ⊢
          unfold isDup; split
          · exact habs
          · intro e hm
            rcases List.mem_cons.mp hm with heq | hm
            · exact hk (Prod.mk.inj heq).1.symm
            · exact habs e hm
        · obtain ⟨t', ht'⟩ := hex
          rcases List.mem_cons.mp ht' with heq | hm
          · exact absurd (by cases heq; rfl) hk
          · exact ⟨t', hm⟩
        · intro tick tm t' h1 h2
          exact hticks tick tm t' (List.mem_cons_of_mem _ h1) (List.mem_cons_of_mem _ h2)
    | clean tick tm =>
      rw [step_clean, verdictsOf_cons_clean]
      apply ih
      · rw [present_false_iff] at habs ⊢
        intro e hm
        exact habs e ((mem_cleanOut r tick _).mp hm).1
      · obtain ⟨t', ht'⟩ := hex
        rcases List.mem_cons.mp ht' with heq | hm
        · cases heq
        · exact ⟨t', hm⟩
      · intro tick' tm' t' h1 h2
        exact hticks tick' tm' t' (List.mem_cons_of_mem _ h1) (List.mem_cons_of_mem _ h2)

/-- the same with the side condition phrased on the clock: everything happens within one window `[t0, t0 + w]` -/
theorem concurrent_exactly_one_window (w : Nat) (k : κ) (r : Repo κ) (ops : List (Op κ)) (t0 : Nat)
    (habs : present r k = false) (hwt : WellTimedFrom t0 ops)
    (hwin : ∀ o ∈ ops, o.time ≤ t0 + w)
    (hex : ∃ t, Op.arrive k t ∈ ops) :
    (verdictsOf k ops (run w r ops).2).count false = 1 := by
  apply concurrent_exactly_one w k r ops habs hex
  intro tick tm t hc ha
  have h1 : tm ≤ t0 + w := by simpa [Op.time] using hwin _ hc
  obtain ⟨j, hj⟩ := List.getElem?_of_mem ha
  have h2 : t0 ≤ t := by simpa [Op.time] using wellTimedFrom_time_ge t0 ops hwt j _ hj
  obtain ⟨j', hj'⟩ := List.getElem?_of_mem hc
  have h3 : tick ≤ tm := by
    have : ∀ (t0 : Nat) (l : List (Op κ)) (n : Nat), WellTimedFrom t0 l → l[n]? = some (.clean tick tm) → tick ≤ tm := by
      intro t0 l
      induction l generalizing t0 with
      | nil => intro n _ h; simp at h
      | cons o rest ih =>
        intro n hw h
        cases n with
        | zero => simp at h; subst h; exact hw.2.1
        | succ n => exact ih _ n hw.2.2 (by simpa using h)
    exact this t0 ops j' hwt hj'
  omega

/-! ## middleware -/

/-- **a duplicate is dropped as a success**: `(nil, nil)`, the handler is not invoked, nothing is written -/
theorem middleware_drop_is_success {ρ : Type} (w : Nat) (r : Repo κ) (k : κ) (now : Nat) (h : ρ)
    (hp : present r k = true) : middleware w r (.key k) now h = (r, .dropped, 0) := by
  simp [middleware, dIsDup, isDup, hp, mwDecide]

/-- the first message of a key reaches the handler exactly once and the handler's result is returned unchanged -/
theorem middleware_first_reaches_handler {ρ : Type} (w : Nat) (r : Repo κ) (k : κ) (now : Nat) (h : ρ)
    (hp : present r k = false) : middleware w r (.key k) now h = ((k, now + w) :: r, .handled h, 1) := by
  simp [middleware, dIsDup, isDup, hp, mwDecide]

/-- a failing key factory: the error is returned, the handler is not invoked, the repository is untouched -/
theorem middleware_key_error {ρ : Type} (w : Nat) (r : Repo κ) (now : Nat) (h : ρ) :
    middleware w r (.err : KeyRes κ) now h = (r, .keyErr, 0) := by
  simp [middleware, dIsDup, mwDecide]

/-- the middleware is the repository step plus a decision: handler invocations = accepted arrivals -/
theorem middleware_calls_iff_accepted {ρ : Type} (w : Nat) (r : Repo κ) (k : κ) (now : Nat) (h : ρ) :
    (middleware w r (.key k) now h).1 = (step w r (.arrive k now)).1 ∧
    ((middleware w r (.key k) now h).2.2 = 1 ↔ (step w r (.arrive k now)).2 = .verdict false) ∧
    ((middleware w r (.key k) now h).2.2 = 0 ↔ (step w r (.arrive k now)).2 = .verdict true) ∧
    ((middleware w r (.key k) now h).2.1 = .dropped ↔ (step w r (.arrive k now)).2 = .verdict true) := by
  cases hp : present r k <;> simp [middleware, dIsDup, isDup, hp, mwDecide, step]

/-- once `k` is known, no message of key `k` reaches the handler (within the window: no clean-up in between) -/
theorem middleware_none_after_first (w : Nat) (k : κ) (r : Repo κ) (calls : List (KeyRes κ × Nat))
    (hp : present r k = true) : mwCalls w r k calls = 0 := by
  induction calls generalizing r with
  | nil => rfl
  | cons c rest ih =>
    obtain ⟨kr, now⟩ := c
    cases kr with
    | err => simp [mwCalls, middleware, dIsDup, mwDecide, ih r hp]
    | key k' =>
      by_cases hk : k' = k
      · subst hk
        simp [mwCalls, middleware, dIsDup, isDup, hp, mwDecide, ih r hp]
      · have hne : ¬ (KeyRes.key k' = KeyRes.key k) := fun he => hk (by injection he)
        have hp' : present (isDup w r k' now).1 k = true := by
          obtain ⟨e, he⟩ := (present_iff r k).mp hp
          exact (present_iff _ k).mpr ⟨e, isDup_mem_mono w r k k' now e he⟩
        cases hq : present r k' with
        | true =>
          simp [mwCalls, middleware, dIsDup, isDup, hq, mwDecide, hne, ih r hp]
        | false =>
          have := ih _ (by simpa [isDup, hq] using hp')
          simp [mwCalls, middleware, dIsDup, isDup, hq, mwDecide, hne, this]

/-- **exactly one message per key reaches the handler**: any sequence of middleware invocations (any keys, key-factory
    failures in between, any handler results), started from a repository that does not know `k`, in which `k` occurs:
    the handler is invoked exactly once for key `k` -/
theorem middleware_exactly_one (w : Nat) (k : κ) (r : Repo κ) (calls : List (KeyRes κ × Nat))
    (habs : present r k = false) (hex : ∃ now, (KeyRes.key k, now) ∈ calls) : mwCalls w r k calls = 1 := by
  induction calls generalizing r with
  | nil => obtain ⟨_, h⟩ := hex; cases h
  | cons c rest ih =>
    obtain ⟨kr, now⟩ := c
    have hex' : kr ≠ .key k → ∃ now, (KeyRes.key k, now) ∈ rest := by
      intro hne
      obtain ⟨n, hn⟩ := hex
      rcases List.mem_cons.mp hn with heq | hm
      · exact absurd (Prod.mk.inj heq).1.symm hne
      · exact ⟨n, hm⟩
    cases kr with
    | err =>
      have := ih r habs (hex' (by simp))
      simp [mwCalls, middleware, dIsDup, mwDecide, this]
    | key k' =>
      by_cases hk : k' = k
      · subst hk
        have h0 := middleware_none_after_first w k' ((k', now + w) :: r) rest
          ((present_iff _ k').mpr ⟨now + w, List.mem_cons_self⟩)
        simp [mwCalls, middleware, dIsDup, isDup, habs, mwDecide, h0]
      · have hne : ¬ (KeyRes.key k' = KeyRes.key k) := fun he => hk (by injection he)
        cases hq : present r k' with
        | true =>
          have := ih r habs (hex' hne)
          simp [mwCalls, middleware, dIsDup, isDup, hq, mwDecide, hne, this]
        | false =>
          have habs' : present ((k', now + w) :: r) k = false := by
            rw [present_false_iff] at habs ⊢
            intro e hm
            rcases List.mem_cons.mp hm with heq | hm
            · exact hk (Prod.mk.inj heq).1.symm
            · exact habs e hm
          have := ih _ habs' (hex' hne)
          simp [mwCalls, middleware, dIsDup, isDup, hq, mwDecide, hne, this]

/-- **a delivery that is rejected with an error has not used up the key**: whenever `Deduplicator.IsDuplicate` answers with
    an error the repository is unchanged, so the redelivery of that message is judged as if the failed one had never come
    (in the model the only error source is the key factory; the map repository itself returns no error and does not look
    at its context – structural fact `isdup_ctx_parameter_unused` and the generated tie, whose `ret` statements must
    return a `nil` error) -/
theorem error_does_not_consume_key (w : Nat) (r : Repo κ) (kr : KeyRes κ) (now : Nat)
    (h : (dIsDup w r kr now).2 = .err) : (dIsDup w r kr now).1 = r := by
  cases kr with
  | err => rfl
  | key k => cases hp : present r k <;> simp [dIsDup, isDup, hp] at h

/-- … and the middleware then neither invokes the handler nor remembers anything -/
theorem middleware_error_is_clean {ρ : Type} (w : Nat) (r : Repo κ) (kr : KeyRes κ) (now : Nat) (h : ρ)
    (he : (middleware w r kr now h).2.1 = .keyErr) :
    (middleware w r kr now h).1 = r ∧ (middleware w r kr now h).2.2 = 0 := by
  cases kr with
  | err => simp [middleware, dIsDup, mwDecide]
  | key k => cases hp : present r k <;> simp [middleware, dIsDup, isDup, hp, mwDecide] at he

/-! ## publisher decorator -/

/-- **the decorator filters and acks** (all messages of the batch have keys): the repository goes through exactly the
    arrivals of the batch, in order; the wrapped publisher is called once with exactly the messages whose verdict was
    "not a duplicate", in order; exactly the duplicates are acked; the wrapped publisher's result is returned.
    Together with `decorator_key_error_aborts` this covers every batch (`decorator_cases_exhaustive`). -/
theorem decorator_filters_and_acks (w : Nat) (r : Repo κ) (msgs : List (PMsg κ)) (innerFails : Bool)
    (hall : ∀ m ∈ msgs, hasKey m = true) :
    decorate w r msgs innerFails =
      ((run w r (arrivalsOf msgs)).1,
       { acked := sel true (msgs.map (·.id)) (run w r (arrivalsOf msgs)).2,
         forwarded := some (sel false (msgs.map (·.id)) (run w r (arrivalsOf msgs)).2),
         err := if innerFails then .inner else .none }) := by
  unfold decorate
  rw [decLoop_spec, takeWhile_hasKey_all msgs hall]
  simp

/-- a key-factory (or repository) error on `m` aborts the call: the error is returned, the wrapped publisher is **not**
    called, the duplicates before `m` stay acked and – the finding `batch-aborted-after-accept` – the keys accepted before
    `m` stay remembered -/
theorem decorator_key_error_aborts (w : Nat) (r : Repo κ) (pre post : List (PMsg κ)) (m : PMsg κ) (innerFails : Bool)
    (hpre : ∀ x ∈ pre, hasKey x = true) (hm : m.key = .err) :
    decorate w r (pre ++ m :: post) innerFails =
      ((run w r (arrivalsOf pre)).1,
       { acked := sel true (pre.map (·.id)) (run w r (arrivalsOf pre)).2, forwarded := none, err := .key }) := by
  unfold decorate
  rw [decLoop_spec, takeWhile_hasKey_split pre post m hpre (by simp [hasKey, hm])]
  simp

theorem decorator_cases_exhaustive (msgs : List (PMsg κ)) :
    (∀ m ∈ msgs, hasKey m = true) ∨
    ∃ pre m post, msgs = pre ++ m :: post ∧ (∀ x ∈ pre, hasKey x = true) ∧ m.key = .err := by
  induction msgs with
  | nil => left; intro m hm; cases hm
  | cons x rest ih =>
    cases hx : x.key with
    | err => right; exact ⟨[], x, rest, rfl, (by intro y hy; cases hy), hx⟩
    | key k =>
      have hxk : hasKey x = true := by simp [hasKey, hx]
      rcases ih with h | ⟨pre, m, post, heq, hpre, hm⟩
      · left
        intro m hm
        rcases List.mem_cons.mp hm with rfl | hm
        · exact hxk
        · exact h m hm
      · right
        refine ⟨x :: pre, m, post, by simp [heq], ?_, hm⟩
        intro y hy
        rcases List.mem_cons.mp hy with rfl | hy
        · exact hxk
        · exact hpre y hy

/-- the decision of the `Publish` loop over *any* answers (= any interleaving with other goroutines): a message is
    forwarded iff its answer was "not a duplicate", acked iff "duplicate"; nothing is both -/
theorem decide_filters_and_acks (as : List (Nat × DupRes)) (hok : ∀ a ∈ as, a.2 ≠ .err) :
    decDecide as [] [] =
      ((as.filter (fun a => a.2 = .verdict false)).map (·.1), (as.filter (fun a => a.2 = .verdict true)).map (·.1), false) := by
  have gen : ∀ (as : List (Nat × DupRes)) (fw ak : List Nat), (∀ a ∈ as, a.2 ≠ .err) →
      decDecide as fw ak =
        (fw.reverse ++ (as.filter (fun a => a.2 = .verdict false)).map (·.1),
         ak.reverse ++ (as.filter (fun a => a.2 = .verdict true)).map (·.1), false) := by
    intro as
    induction as with
    | nil => intro fw ak _; simp [decDecide]
    | cons a rest ih =>
      intro fw ak h
      obtain ⟨i, x⟩ := a
      have hr : ∀ a ∈ rest, a.2 ≠ .err := fun a ha => h a (List.mem_cons_of_mem _ ha)
      cases x with
      | err => exact absurd rfl (h (i, .err) (List.mem_cons_self))
      | verdict b =>
        cases b with
        | true => simp [decDecide, ih _ _ hr, List.filter_cons]
        | false => simp [decDecide, ih _ _ hr, List.filter_cons]
  simpa using gen as [] [] hok

/-- the executable loop is the decision applied to the answers the batch gets -/
theorem decorate_eq_decide (w : Nat) (r : Repo κ) (msgs : List (PMsg κ)) :
    decLoop w r msgs [] [] = ((answers w r msgs).1, decDecide (answers w r msgs).2 [] []) :=
  decLoop_eq_decide w r msgs [] []

/-- **witness of the finding** `batch-aborted-after-accept`: message 0 (key "a") is accepted, the key factory then fails on
    message 1, so nothing is forwarded; the next `Publish` of a message with key "a" acks and drops it – no message
    with key "a" ever reached the wrapped publisher.  Hence "exactly one reaches the wrapped publisher" needs the guard
    "no key-factory/repository error in a batch" (`decorator_filters_and_acks`). -/
theorem decorator_abort_loses_accepted_witness :
    let c1 := decorate 10 ([] : Repo String) [⟨0, .key "a", 0⟩, ⟨1, .err, 1⟩] false
    let c2 := decorate 10 c1.1 [⟨0, .key "a", 2⟩] false
    c1.2 = ⟨[], none, .key⟩ ∧ c2.2 = ⟨[0], some [], .none⟩ := by decide

/-- a sequence of `Publish` calls without key-factory errors is one run of the repository over all arrivals; what the
    wrapped publisher received, over all calls, are exactly the messages whose verdict was "not a duplicate" -/
theorem decRun_spec (w : Nat) (r : Repo κ) (calls : List (List (PMsg κ) × Bool))
    (hall : ∀ c ∈ calls, ∀ m ∈ c.1, hasKey m = true) :
    (decRun w r calls).1 = (run w r (arrivalsOf (calls.flatMap (·.1)))).1 ∧
    (decRun w r calls).2.flatMap (fun o => o.forwarded.getD []) =
      (selMsgs false (calls.flatMap (·.1)) (run w r (arrivalsOf (calls.flatMap (·.1)))).2).map (·.id) ∧
    (decRun w r calls).2.flatMap (·.acked) =
      (selMsgs true (calls.flatMap (·.1)) (run w r (arrivalsOf (calls.flatMap (·.1)))).2).map (·.id) := by
  induction calls generalizing r with
  | nil => simp [decRun, arrivalsOf, run_nil, selMsgs]
  | cons c cs ih =>
    have hc : ∀ m ∈ c.1, hasKey m = true := hall c (List.mem_cons_self)
    have hcs := ih (run w r (arrivalsOf c.1)).1 (fun c' hc' => hall c' (List.mem_cons_of_mem _ hc'))
    have hd := decorator_filters_and_acks w r c.1 c.2 hc
    have hlen : (run w r (arrivalsOf c.1)).2.length = c.1.length := by
      rw [run_length, arrivalsOf_length c.1 hc]
    simp only [decRun, hd, List.flatMap_cons, arrivalsOf_append, run_append, Option.getD_some]
    rw [selMsgs_append false _ _ _ _ hlen, selMsgs_append true _ _ _ _ hlen]
    simp only [List.map_append, sel_map_id]
    exact ⟨hcs.1, by rw [hcs.2.1], by rw [hcs.2.2]⟩

/-- **exactly one reaches the wrapped publisher** – proved under the guard `hall` "the key factory fails on no message of
    any batch", which excludes the open finding `batch-aborted-after-accept` (`decorator_abort_loses_accepted_witness`
    shows the statement is false without it).  Full statement (not provable, see the witness): the same without `hall`.
    For any sequence of `Publish` calls (any batches, any wrapped-publisher failures) within the window, started from a
    repository that does not know `k`: of all messages with key `k` exactly one is handed to the wrapped publisher. -/
theorem decorator_exactly_one_reaches_partial (w : Nat) (k : κ) (r : Repo κ) (calls : List (List (PMsg κ) × Bool))
    (hall : ∀ c ∈ calls, ∀ m ∈ c.1, hasKey m = true)
    (habs : present r k = false)
    (hex : ∃ c ∈ calls, ∃ m ∈ c.1, m.key = .key k) :
    ((selMsgs false (calls.flatMap (·.1)) (run w r (arrivalsOf (calls.flatMap (·.1)))).2).filter
        (fun m => decide (m.key = .key k))).length = 1 := by
  have hall' : ∀ m ∈ calls.flatMap (·.1), hasKey m = true := by
    intro m hm
    obtain ⟨c, hc, hmc⟩ := List.mem_flatMap.mp hm
    exact hall c hc m hmc
  rw [selMsgs_count k _ _ hall']
  apply concurrent_exactly_one w k r _ habs
  · obtain ⟨c, hc, m, hm, hk⟩ := hex
    have hmem : m ∈ calls.flatMap (·.1) := List.mem_flatMap.mpr ⟨c, hc, hm⟩
    refine ⟨m.now, ?_⟩
    have gen : ∀ (l : List (PMsg κ)), m ∈ l → Op.arrive k m.now ∈ arrivalsOf l := by
      intro l
      induction l with
      | nil => intro h; cases h
      | cons x rest ih =>
        intro h
        rcases List.mem_cons.mp h with rfl | h
        · simp [arrivalsOf, hk]
        · have := ih h
          simp only [arrivalsOf]
          split
          · exact List.mem_cons_of_mem _ this
          · exact this
    exact gen _ hmem
  · intro tick tm t hc _
    exfalso
    have gen : ∀ (l : List (PMsg κ)), Op.clean tick tm ∉ arrivalsOf l := by
      intro l
      induction l with
      | nil => simp [arrivalsOf]
      | cons x rest ih =>
        simp only [arrivalsOf]
        split
        · intro h
          rcases List.mem_cons.mp h with h | h
          · cases h
          · exact ih h
        · exact ih
    exact gen _ hc

/-! ## one Deduplicator, one state -/

/-- **wrappers built from one Deduplicator share its state**: a key that got through the middleware is a duplicate for the
    publisher decorator working on the same repository (acked, not forwarded) … -/
theorem middleware_then_decorator_drops {ρ : Type} (w : Nat) (r : Repo κ) (k : κ) (now now' id : Nat) (h : ρ) (f : Bool)
    (hp : present r k = false) :
    (decorate w (middleware w r (.key k) now h).1 [⟨id, .key k, now'⟩] f).2 =
      ⟨[id], some [], if f then .inner else .none⟩ := by
  have hq : present ((k, now + w) :: r) k = true := (present_iff _ k).mpr ⟨now + w, List.mem_cons_self⟩
  simp [middleware, dIsDup, isDup, hp, mwDecide, decorate, decLoop, hq]

/-- … and a key that the decorator forwarded is dropped as a success by the middleware -/
theorem decorator_then_middleware_drops {ρ : Type} (w : Nat) (r : Repo κ) (k : κ) (now now' id : Nat) (h : ρ) (f : Bool)
    (hp : present r k = false) :
    (middleware w (decorate w r [⟨id, .key k, now⟩] f).1 (.key k) now' h).2 = (.dropped, 0) := by
  have hq : present ((k, now + w) :: r) k = true := (present_iff _ k).mpr ⟨now + w, List.mem_cons_self⟩
  simp [middleware, dIsDup, isDup, hp, mwDecide, decorate, decLoop, hq]

/-! ## the map really is a map -/

/-- in every reachable repository every key has at most one entry (the association list is a faithful `map`) -/
theorem nodup_keys (w : Nat) (ops : List (Op κ)) : ((run w ([] : Repo κ) ops).1.map Prod.fst).Nodup := by
  have gen : ∀ (ops : List (Op κ)) (r : Repo κ), (r.map Prod.fst).Nodup → ((run w r ops).1.map Prod.fst).Nodup := by
    intro ops
    induction ops with
    | nil => intro r h; exact h
    | cons o rest ih =>
      intro r h
      rw [run_cons]
      apply ih
      cases o with
      | arrive k t =>
        rw [step_arrive]
        cases hp : present r k with
        | true => rw [isDup_present w r k t hp]; exact h
        | false =>
          rw [isDup_absent w r k t hp]
          simp only [List.map_cons, List.nodup_cons]
          refine ⟨?_, h⟩
          intro hm
          obtain ⟨⟨k', e⟩, hmem, rfl⟩ := List.mem_map.mp hm
          exact (present_false_iff r k').mp hp e hmem
      | clean tick tm =>
        rw [step_clean]
        exact List.Nodup.sublist (List.Sublist.map _ List.filter_sublist) h
  exact gen ops [] (by simp)

/-- a duplicate arrival writes nothing: the expiry is neither refreshed nor checked -/
theorem duplicate_does_not_refresh (w : Nat) (r : Repo κ) (k : κ) (now : Nat) (h : present r k = true) :
    (step w r (.arrive k now)).1 = r := by
  rw [step_arrive, isDup_present w r k now h]

/-! ## key factories -/

/-- "equal up to the read limit" = equal at every position below it -/
theorem take_eq_iff {α : Type} (n : Nat) (p q : List α) :
    p.take n = q.take n ↔ ∀ i, i < n → p[i]? = q[i]? := by
  constructor
  · intro h i hi
    have := congrArg (·[i]?) h
    simpa [List.getElem?_take, hi] using this
  · intro h
    apply List.ext_getElem?
    intro i
    by_cases hi : i < n
    · simp [List.getElem?_take, hi, h i hi]
    · simp [List.getElem?_take, hi]

/-- the effective read limit is never below `MessageHasherReadLimitMinimum` and otherwise the configured one -/
theorem effLimit_spec (limit : Int) :
    64 ≤ effLimit limit ∧ (64 ≤ limit → (effLimit limit : Int) = limit) ∧ (limit < 64 → effLimit limit = 64) := by
  unfold effLimit readLimitMinimum
  split <;> omega

/-- **equal keys for payloads equal up to the read limit** – for every digest `H` (Adler-32, SHA-256, …), every limit -/
theorem hash_equal_prefix {κ' : Type} (H : List UInt8 → κ') (limit : Int) (p q : List UInt8)
    (h : ∀ i, i < effLimit limit → p[i]? = q[i]?) : hasherKey H limit p = hasherKey H limit q := by
  unfold hasherKey
  rw [(take_eq_iff _ p q).mpr h]

/-- **different keys for payloads that differ within the read limit** – *given* that the digest does not collide on the two
    prefixes.  For SHA-256 this hypothesis is the cryptographic assumption (collision resistance); it is not and cannot be
    a theorem, the harness tests it on generated pairs.  (Full statement without `hinj`: false for every digest with a
    finite range.) -/
theorem sha_distinct_partial {κ' : Type} (H : List UInt8 → κ') (limit : Int) (p q : List UInt8)
    (hinj : H (p.take (effLimit limit)) = H (q.take (effLimit limit)) → p.take (effLimit limit) = q.take (effLimit limit))
    (i : Nat) (hi : i < effLimit limit) (hdiff : p[i]? ≠ q[i]?) : hasherKey H limit p ≠ hasherKey H limit q := by
  intro heq
  exact hdiff ((take_eq_iff _ p q).mp (hinj heq) i hi)

/-- the payload hashers read nothing but the payload prefix: bytes at or beyond the limit never matter -/
theorem hash_ignores_tail {κ' : Type} (H : List UInt8 → κ') (limit : Int) (p tail tail' : List UInt8)
    (hlen : effLimit limit ≤ p.length) : hasherKey H limit (p ++ tail) = hasherKey H limit (p ++ tail') := by
  unfold hasherKey
  rw [List.take_append_of_le_length hlen, List.take_append_of_le_length hlen]

/-! ## non-vacuity: concrete non-trivial instances of the hypotheses -/

section examples
open Op

/-- window 10; "a" accepted at 0, duplicate at 5 and at 12 (expired but not yet cleaned), clean-up with tick 11 at 13, accepted at 14 -/
def exOps : List (Op String) :=
  [arrive "a" 0, arrive "b" 1, arrive "a" 5, clean 4 6, arrive "a" 12, clean 11 13, arrive "a" 14, arrive "b" 15]

example : WellTimed exOps := by decide
example : (run 10 [] exOps).2 =
    [.verdict false, .verdict false, .verdict true, .cleaned, .verdict true, .cleaned, .verdict false, .verdict true] := by decide
example : accepted 10 exOps 0 "a" 0 ∧ accepted 10 exOps 6 "a" 14 := by decide
example : (0 : Nat) + 10 < 14 := by decide     -- what `one_per_window` concludes for the two of them
example : verdictsOf "a" exOps (run 10 [] exOps).2 = [false, true, true, false] := by decide
example : verdictsOf "a" (exOps.filter (relevant "a")) (run 10 [] (exOps.filter (relevant "a"))).2 = [false, true, true, false] := by decide
-- hypotheses of `accepted_again_after_expiry` with pre = [], mid1 = [b, a@5, clean 4, a@12], mid2 = []
example : accepted 10 ([] ++ [arrive "a" 0]) 0 "a" 0 := by decide
example : ∀ x, x < 4 → ¬ acceptedFrom 10 (run 10 [] ([] ++ [arrive "a" 0])).1
    [arrive "b" 1, arrive "a" 5, clean 4 6, arrive "a" 12] x "a" (match x with | 1 => 5 | _ => 12) := by decide
-- `sentinel_reaccepted_probe_forgotten`: probe "p" (expiry 10) and sentinel "z" (expiry 12) are known, "z" is accepted again at index 2
example : acceptedFrom 10 [("z", 12), ("p", 10)] [arrive "q" 11, clean 13 13, arrive "z" 14] 2 "z" 14 := by decide
example : (run 10 [("z", 12), ("p", 10)] ([arrive "q" 11, clean 13 13, arrive "z" 14].take 2)).1 = [("q", 21)] := by decide
-- `concurrent_exactly_one`: five arrivals of "a" and two of "b" in one window, a clean-up in between
def exConc : List (Op String) := [arrive "a" 3, arrive "b" 3, arrive "a" 3, clean 3 4, arrive "a" 4, arrive "b" 5, arrive "a" 5, arrive "a" 9]
example : WellTimedFrom 3 exConc ∧ (∀ o ∈ exConc, o.time ≤ 3 + 10) := by decide
example : (verdictsOf "a" exConc (run 10 [] exConc).2).count false = 1 ∧
          (verdictsOf "b" exConc (run 10 [] exConc).2).count false = 1 := by decide
-- middleware: first reaches the handler, second is dropped
example : (middleware 10 ([] : Repo String) (.key "a") 0 "result").2 = (.handled "result", 1) := by decide
example : (middleware 10 [("a", 10)] (.key "a") 3 "result") = ([("a", 10)], .dropped, 0) := by decide
example : mwCalls 10 ([] : Repo String) "a" [(.key "a", 0), (.err, 1), (.key "b", 2), (.key "a", 3), (.key "a", 4)] = 1 := by decide
-- decorator: batch a b a with "b" already known: forwards 0, acks 1 and 2
example : (decorate 10 [("b", 10)] [⟨0, .key "a", 1⟩, ⟨1, .key "b", 2⟩, ⟨2, .key "a", 3⟩] false).2 =
    ⟨[1, 2], some [0], .none⟩ := by decide
-- two Publish calls over keys a, b: one "a" and one "b" are forwarded, the rest acked (guard of the _partial theorem holds)
example : (decRun 10 ([] : Repo String) [([⟨0, .key "a", 1⟩, ⟨1, .key "b", 2⟩, ⟨2, .key "a", 3⟩], false), ([⟨0, .key "b", 4⟩, ⟨1, .key "a", 5⟩], true)]).2 =
    [⟨[2], some [0, 1], .none⟩, ⟨[0, 1], some [], .inner⟩] := by decide
-- hashers: limit 0 is clamped to 64; byte 64 is not read, byte 63 is
example : effLimit 0 = 64 ∧ effLimit (-5) = 64 ∧ effLimit 100 = 100 := by decide
example : hasherKey adler32 0 (List.replicate 64 1 ++ [7]) = hasherKey adler32 0 (List.replicate 64 1 ++ [9]) := by decide
example : hasherKey adler32 0 (List.replicate 63 1 ++ [7]) ≠ hasherKey adler32 0 (List.replicate 63 1 ++ [9]) := by decide
example : adler32 [0x57, 0x69, 0x6b, 0x69, 0x70, 0x65, 0x64, 0x69, 0x61] = 0x11E60398 := by decide  -- "Wikipedia"
example : metaKey "f" [("g", "x"), ("f", "")] = .key "" ∧ metaKey "f" [("g", "x")] = .err := by decide

end examples

end Wm.Dedup
