/-
  C01 – end-to-end at-least-once through Router pipelines connected by GoChannel topics, under handler and
  publisher faults.  Property theorems over the obligation model WmModel/Pipeline.lean.

  Every theorem quantifies over ALL pipeline shapes `p` (any number of stages, any fan-out/fan-in DAG that is
  numbered towards the sink: `Shape.WF`), ALL source scripts `srcs` (any number of messages), ALL fault scripts
  `faults` (any length, any mix of the five fault kinds, any stage) and – through `Reach` / `exec` – ALL schedules.

  `pipeline_refines` – what ties one abstract step to the code – is a set of DOCUMENTED HYPOTHESES, proved for one
  stage elsewhere and restated here as the structure `StageFacts` (nothing below depends on the colleagues' files):

   H1 (C02, Props/C02.lean `ack_iff`, `publish_before_ack`, `settles_exactly_once`): one invocation of
      handler.handleMessage settles its message exactly once; it Acks iff the handler function returned without error
      or panic and `publisher.Publish` returned nil for the produced messages; the Ack follows the return of Publish;
      in all other cases it Nacks.
   H2 (C04, Props/C04.lean `nack_means_resend`, `redelivery_only_after_nack`; C05 `one_unsettled_inv`): a GoChannel
      sender keeps sending fresh copies of a message to its subscription until one copy is Acked; a Nack causes the
      next copy, nothing else does; no message is dropped while the Pub/Sub is open.
   H3 (C04 `every_subscriber`, C11 `exactly_one_sender`): `GoChannel.Publish` that returns nil has started one sender
      for every subscription registered on the topic at that moment (all subscriptions exist before the first source
      message is published and none is cancelled while messages flow).
   H4 the fault script is finite and each scripted fault is injected at most once.
-/
import WmModel.Lemmas.PipelineMeasure
namespace Wm.Pipeline
open Wm.Lts Wm.Pipeline.ListLemmas

variable (p : Shape) (srcs : List Nat) (faults : List Fault)

/-- **never lost**: in every reachable state every lineage published at the source is in the sink log or is still
    owed by some subscription (a token exists) -/
theorem no_loss_inv (hw : p.WF) (s : St) (h : Reach (sys p srcs faults) s) (l : Nat) (hl : l ∈ s.pub) :
    l ∈ s.sink ∨ ∃ t, t ∈ s.toks ∧ t.lin = l :=
  (reach_good p hw srcs faults s h).cover l hl

/-- **a stage gives a message up only after the next topic accepted its output** (state form): whenever an `ack`
    step removes a token, that token was in phase `published`, and in the state AFTER the removal its lineage is
    still held strictly downstream or has been delivered to the sink -/
theorem ack_after_accept (hw : p.WF) (s : St) (h : Reach (sys p srcs faults) s) (i : Nat) (s' : St)
    (ha : act p s (.ack i) = some s') :
    ∃ t, s.toks[i]? = some t ∧ t.phase = .published ∧
      (t.lin ∈ s'.sink ∨ ∃ d, d ∈ s'.toks ∧ d.lin = t.lin ∧ t.stage < d.stage) := by
  have g := reach_good p hw srcs faults s h
  simp only [act] at ha
  split at ha
  · rename_i l st hi
    simp at ha; subst ha
    refine ⟨⟨l, st, .published⟩, hi, rfl, ?_⟩
    have hm := mem_iff_eraseIdx hi
    rcases g.down _ (List.mem_of_getElem? hi) rfl with h1 | ⟨d, hd, hl, hs⟩
    · exact Or.inl h1
    · rcases (hm d).1 hd with h2 | h2
      · subst h2; simp at hs
      · exact Or.inr ⟨d, h2, hl, hs⟩
  · simp at ha

/-- (step form, first half) phase `published` is entered only through `publishOk`, and that very step creates a
    pending token at EVERY subscription of the output topic -/
theorem publishOk_creates_downstream (s : St) (i : Nat) (s' : St) (ha : act p s (.publishOk i) = some s') :
    ∃ l st, s.toks[i]? = some ⟨l, st, .handling⟩ ∧ ∀ t, t ∈ p.next st → (⟨l, t, .pending⟩ : Tok) ∈ s'.toks := by
  simp only [act] at ha
  split at ha
  · rename_i l st hi
    simp at ha; subst ha
    refine ⟨l, st, hi, ?_⟩
    intro t ht
    simp only [List.mem_append]
    exact Or.inr ((mem_spawn p l st _).2 ⟨t, ht, rfl⟩)
  · simp at ha

/-- (step form, second half) no other step produces a `published` token -/
theorem published_only_via_publishOk (s : St) (a : Action) (s' : St) (ha : act p s a = some s')
    (hne : ∀ i, a ≠ .publishOk i) (x : Tok) (hx : x ∈ s'.toks) (hp : x.phase = .published) : x ∈ s.toks := by
  cases a with
  | publishOk i => exact absurd rfl (hne i)
  | publishSource k =>
    simp only [act] at ha
    split at ha
    · simp at ha; subst ha
      simp at hx
      rcases hx with hx | hx
      · exact hx
      · subst hx; simp at hp
    · simp at ha
  | deliver i =>
    simp only [act] at ha
    split at ha
    · rename_i l st hi
      split at ha
      · simp at ha; subst ha
        rcases (mem_set_iff hi _ x).1 hx with h1 | h1
        · subst h1; simp at hp
        · exact (mem_iff_eraseIdx hi x).2 (Or.inr h1)
      · simp at ha
    · simp at ha
  | fault i k =>
    simp only [act] at ha
    split at ha
    · rename_i l st f hi hk
      split at ha
      · simp at ha; subst ha
        simp only [List.mem_append] at hx
        rcases hx with hx | hx
        · rcases (mem_set_iff hi _ x).1 hx with h1 | h1
          · subst h1; simp at hp
          · exact (mem_iff_eraseIdx hi x).2 (Or.inr h1)
        · split at hx
          · obtain ⟨t, _, rfl⟩ := (mem_spawn p l st x).1 hx
            simp at hp
          · simp at hx
      · simp at ha
    · simp at ha
  | ack i =>
    simp only [act] at ha
    split at ha
    · simp at ha; subst ha
      exact List.mem_of_mem_eraseIdx hx
    · simp at ha
  | sink i =>
    simp only [act] at ha
    split at ha
    · split at ha
      · simp at ha; subst ha
        exact List.mem_of_mem_eraseIdx hx
      · simp at ha
    · simp at ha

/-- **until then the message is redelivered**: only `ack` (and the sink's receipt) removes an obligation – after any
    other step, in particular after every fault, each token is still there with the same lineage and stage -/
theorem only_ack_removes (s : St) (a : Action) (s' : St) (ha : act p s a = some s')
    (h1 : ∀ i, a ≠ .ack i) (h2 : ∀ i, a ≠ .sink i) (t : Tok) (ht : t ∈ s.toks) :
    ∃ t', t' ∈ s'.toks ∧ t'.lin = t.lin ∧ t'.stage = t.stage := by
  cases a with
  | ack i => exact absurd rfl (h1 i)
  | sink i => exact absurd rfl (h2 i)
  | publishSource k =>
    simp only [act] at ha
    split at ha
    · simp at ha; subst ha
      exact ⟨t, by simp [ht], rfl, rfl⟩
    · simp at ha
  | deliver i =>
    simp only [act] at ha
    split at ha
    · rename_i l st hi
      split at ha
      · simp at ha; subst ha
        rcases (mem_iff_eraseIdx hi t).1 ht with h3 | h3
        · exact ⟨_, (mem_set_iff hi _ _).2 (Or.inl rfl), by simp [h3], by simp [h3]⟩
        · exact ⟨t, (mem_set_iff hi _ _).2 (Or.inr h3), rfl, rfl⟩
      · simp at ha
    · simp at ha
  | fault i k =>
    simp only [act] at ha
    split at ha
    · rename_i l st f hi hk
      split at ha
      · simp at ha; subst ha
        rcases (mem_iff_eraseIdx hi t).1 ht with h3 | h3
        · exact ⟨_, List.mem_append.2 (Or.inl ((mem_set_iff hi _ _).2 (Or.inl rfl))), by simp [h3], by simp [h3]⟩
        · exact ⟨t, List.mem_append.2 (Or.inl ((mem_set_iff hi _ _).2 (Or.inr h3))), rfl, rfl⟩
      · simp at ha
    · simp at ha
  | publishOk i =>
    simp only [act] at ha
    split at ha
    · rename_i l st hi
      simp at ha; subst ha
      rcases (mem_iff_eraseIdx hi t).1 ht with h3 | h3
      · exact ⟨_, List.mem_append.2 (Or.inl ((mem_set_iff hi _ _).2 (Or.inl rfl))), by simp [h3], by simp [h3]⟩
      · exact ⟨t, List.mem_append.2 (Or.inl ((mem_set_iff hi _ _).2 (Or.inr h3))), rfl, rfl⟩
    · simp at ha

/-- a fault puts the token back to `pending` at the same stage: the Nacked message will be delivered again -/
theorem fault_redelivers (s : St) (i k : Nat) (s' : St) (ha : act p s (.fault i k) = some s') :
    ∃ l st, s.toks[i]? = some ⟨l, st, .handling⟩ ∧ s'.toks[i]? = some ⟨l, st, .pending⟩ ∧
      s'.faults.length + 1 = s.faults.length := by
  simp only [act] at ha
  split at ha
  · rename_i l st f hi hk
    split at ha
    · simp at ha; subst ha
      have hlt : i < s.toks.length := by
        rcases Nat.lt_or_ge i s.toks.length with h1 | h1
        · exact h1
        · simp [List.getElem?_eq_none h1] at hi
      refine ⟨l, st, hi, ?_, length_eraseIdx_lt hk⟩
      rw [List.getElem?_append_left (by simp [hlt])]
      simp [hlt]
    · simp at ha
  · simp at ha

/-- **everything arriving at the final topic derives from a message really published at the source** -/
theorem sink_sound (hw : p.WF) (s : St) (h : Reach (sys p srcs faults) s) (l : Nat) (hl : l ∈ s.sink) :
    l ∈ s.pub ∧ l ∈ srcs := by
  have g := reach_good p hw srcs faults s h
  exact ⟨g.sinkPub l hl, g.pubScript l (g.sinkPub l hl)⟩

/-- **once the faults stop …**: every schedule terminates – no run of the pipeline, whatever the shape, the scripts
    and the interleaving, is longer than the measure of its first state (no fairness assumption) -/
theorem all_runs_finite (hw : p.WF) (s : St) (h : Reach (sys p srcs faults) s) (run : List Action) (s' : St)
    (he : exec (sys p srcs faults) s run = some s') : run.length + mu p s' ≤ mu p s := by
  have := steps_bounded_reach (sys p srcs faults) (mu p) (fun _ => true)
    (fun s a s' hr ha _ => mu_step p hw srcs s a s' (reach_good p hw srcs faults s hr) ha)
    (fun s a s' _ _ hf => by simp at hf) run s s' h he
  have hfl : run.filter (fun _ => true) = run := List.filter_eq_self.2 (by simp)
  rw [hfl] at this
  exact this

/-- the bound for whole runs, spelled out: at most `|srcs|·(3Kⁿ+1) + |faults|·3Kⁿ` steps -/
theorem all_runs_finite_init (hw : p.WF) (run : List Action) (s' : St)
    (he : exec (sys p srcs faults) (init srcs faults) run = some s') :
    run.length ≤ srcs.length * (3 * p.K ^ p.n + 1) + faults.length * (3 * p.K ^ p.n) := by
  have := all_runs_finite p srcs faults hw (init srcs faults) Reach.init run s' he
  simp [mu, init, pw] at this
  omega

/-- **… it reaches the final topic at least once**: in a reachable state where nothing can move, nothing is owed any
    more, the environment has published its whole script, and every lineage of the script is in the sink log -/
theorem terminal_delivered (hw : p.WF) (s : St) (h : Reach (sys p srcs faults) s) (hterm : ∀ a, act p s a = none) :
    s.toks = [] ∧ s.srcs = [] ∧ ∀ l, l ∈ srcs → 1 ≤ delivered s l := by
  have g := reach_good p hw srcs faults s h
  have htoks : s.toks = [] := by
    cases hts : s.toks with
    | nil => rfl
    | cons t rest =>
      exfalso
      have hmem : t ∈ s.toks := by simp [hts]
      obtain ⟨l, st, ph⟩ := t
      cases ph with
      | pending =>
        have hb := g.bound _ hmem
        simp at hb
        rcases Nat.lt_or_ge st p.n with h1 | h1
        · have := hterm (.deliver 0)
          simp [act, hts, h1] at this
        · have h2 : st = p.n := by omega
          have := hterm (.sink 0)
          simp [act, hts, h2] at this
      | handling =>
        have := hterm (.publishOk 0)
        simp [act, hts] at this
      | published =>
        have := hterm (.ack 0)
        simp [act, hts] at this
  have hsrcs : s.srcs = [] := by
    cases hs : s.srcs with
    | nil => rfl
    | cons l rest =>
      exfalso
      have := hterm (.publishSource 0)
      simp [act, hs] at this
  refine ⟨htoks, hsrcs, ?_⟩
  intro l hl
  have hp : l ∈ s.pub := by
    rcases g.script l hl with h1 | h1
    · exact h1
    · simp [hsrcs] at h1
  rcases g.cover l hp with h1 | ⟨t, ht, _⟩
  · exact List.count_pos_iff.2 h1
  · simp [htoks] at ht

/-- both halves together: every maximal run (one that cannot be extended) is finite and ends with every source
    lineage at the sink -/
theorem maximal_run_delivers (hw : p.WF) (run : List Action) (s : St)
    (he : exec (sys p srcs faults) (init srcs faults) run = some s) (hmax : ∀ a, act p s a = none)
    (l : Nat) (hl : l ∈ srcs) : 1 ≤ delivered s l ∧ run.length ≤ mu p (init srcs faults) := by
  have hr : Reach (sys p srcs faults) s := reach_of_exec (sys p srcs faults) Reach.init run he
  refine ⟨(terminal_delivered p srcs faults hw s hr hmax).2.2 l hl, ?_⟩
  have := all_runs_finite p srcs faults hw (init srcs faults) Reach.init run s he
  omega

/-! ### pipeline_refines – the per-stage facts as explicit hypotheses

  One invocation of a stage on a delivered copy is described by what happened (`Invocation`) and by what the
  code did about it: how the consumed copy was settled and whether the next topic accepted the output.  `StageFacts`
  restates H1–H3 for such a description; `pipeline_refines` shows that every invocation that satisfies them is
  matched by steps of the model – so a run of real stages is a run of the model as long as the facts hold. -/

inductive Invocation
  | ok                          -- handler returned outputs, Publish returned nil
  | fails (k : FaultKind)       -- one of the five faults hit
  deriving DecidableEq, Repr

structure Effect where
  acked    : Bool   -- the consumed copy was Acked (otherwise Nacked)
  accepted : Bool   -- the next topic accepted the output (one sender per subscription started)
  deriving DecidableEq, Repr

structure StageFacts (eff : Invocation → Effect) : Prop where
  /-- H1: Ack iff the handler succeeded and Publish returned nil -/
  ack_iff_ok : ∀ o, (eff o).acked = true ↔ o = .ok
  /-- H1 (order) + H3: an Ack implies that the output was accepted before -/
  ack_needs_accept : ∀ o, (eff o).acked = true → (eff o).accepted = true
  /-- the harness's publisher wrapper hands the output on exactly in the `ok` and `pubErrAfterPartial` cases -/
  accept_iff : ∀ o, (eff o).accepted = true ↔ (o = .ok ∨ o = .fails .pubErrAfterPartial)

/-- the effect function of the real handleMessage + scripted publisher satisfies the facts (so the structure is
    inhabited: the hypotheses are consistent) -/
def realEff : Invocation → Effect
  | .ok => ⟨true, true⟩
  | .fails .pubErrAfterPartial => ⟨false, true⟩
  | .fails _ => ⟨false, false⟩

theorem realEff_facts : StageFacts realEff := by
  constructor
  · intro o; cases o with
    | ok => simp [realEff]
    | fails k => cases k <;> simp [realEff]
  · intro o; cases o with
    | ok => simp [realEff]
    | fails k => cases k <;> simp [realEff]
  · intro o; cases o with
    | ok => simp [realEff]
    | fails k => cases k <;> simp [realEff]

/-- **pipeline_refines**: let a copy of lineage `l` be in `handling` at stage `st` (token `i`).  Whatever the
    invocation does, if its effect obeys `StageFacts` (and, for a fault, the script still holds that fault: H4), the
    model has matching steps leading to a state `s'` in which
     * the token is gone iff the copy was Acked, and otherwise is `pending` again at the same place (H2: redelivery),
     * a pending token exists at every subscription of the output topic iff the output was accepted (H3). -/
theorem pipeline_refines (eff : Invocation → Effect) (hf : StageFacts eff) (s : St) (i l st : Nat)
    (hi : s.toks[i]? = some ⟨l, st, .handling⟩) (o : Invocation)
    (hscript : ∀ k, o = .fails k → ∃ j : Nat, s.faults[j]? = some (⟨k, st⟩ : Fault)) :
    ∃ acts s', exec (sys p srcs faults) s acts = some s' ∧
      ((eff o).acked = true → s'.toks = (s.toks.eraseIdx i) ++ spawn p l st) ∧
      ((eff o).acked = false → s'.toks[i]? = some ⟨l, st, .pending⟩) ∧
      ((eff o).accepted = true → ∀ t, t ∈ p.next st → (⟨l, t, .pending⟩ : Tok) ∈ s'.toks) ∧
      ((eff o).accepted = false → s'.toks.length = s.toks.length) := by
  have hlt : i < s.toks.length := by
    rcases Nat.lt_or_ge i s.toks.length with h1 | h1
    · exact h1
    · simp [List.getElem?_eq_none h1] at hi
  cases o with
  | ok =>
    have hack : (eff .ok).acked = true := (hf.ack_iff_ok .ok).2 rfl
    have hacc : (eff .ok).accepted = true := hf.ack_needs_accept _ hack
    refine ⟨[.publishOk i, .ack i], { s with toks := (s.toks.eraseIdx i) ++ spawn p l st }, ?_, ?_, ?_, ?_, ?_⟩
    · have h2 : (s.toks.set i ⟨l, st, .published⟩ ++ spawn p l st)[i]? = some ⟨l, st, .published⟩ := by
        rw [List.getElem?_append_left (by simp [hlt])]; simp [hlt]
      simp only [exec, sys, act, hi, h2]
      have h3 : (s.toks.set i ⟨l, st, .published⟩ ++ spawn p l st).eraseIdx i = s.toks.eraseIdx i ++ spawn p l st := by
        rw [List.eraseIdx_append_of_lt_length (by simp [hlt])]
        simp [List.eraseIdx_set_eq]
      simp [h3]
    · intro _; rfl
    · intro h; rw [hack] at h; simp at h
    · intro _ t ht
      simp only [List.mem_append]
      exact Or.inr ((mem_spawn p l st _).2 ⟨t, ht, rfl⟩)
    · intro h; rw [hacc] at h; simp at h
  | fails k =>
    obtain ⟨j, hj⟩ := hscript k rfl
    have hnack : (eff (.fails k)).acked = false := by
      cases h : (eff (.fails k)).acked with
      | false => rfl
      | true => have := (hf.ack_iff_ok _).1 h; simp at this
    refine ⟨[.fault i j], St.mk (s.toks.set i ⟨l, st, .pending⟩ ++ (if k = .pubErrAfterPartial then spawn p l st else []))
        (s.faults.eraseIdx j) s.srcs s.pub s.sink, ?_, ?_, ?_, ?_, ?_⟩
    · simp [exec, sys, act, hi, hj]
    · intro h; rw [hnack] at h; simp at h
    · intro _
      rw [List.getElem?_append_left (by simp [hlt])]; simp [hlt]
    · intro h t ht
      have := (hf.accept_iff _).1 h
      simp at this
      subst this
      simp only [if_true, List.mem_append]
      exact Or.inr ((mem_spawn p l st _).2 ⟨t, ht, rfl⟩)
    · intro h
      have hk : k ≠ .pubErrAfterPartial := by
        intro hk; subst hk
        have := (hf.accept_iff (.fails .pubErrAfterPartial)).2 (Or.inr rfl)
        rw [h] at this; simp at this
      simp [hk]

/-! ### non-vacuity

  A diamond: stage 0 publishes to a topic with two subscribed handlers (fan-out 1, 2) whose outputs meet in the
  topic of stage 3 (fan-in), which feeds the sink 4.  One source message (lineage 7); the publisher of stage 0
  reports an error after handing the message on (`pubErrAfterPartial`), the handler of stage 1 fails once. -/

def exShape : Shape := ⟨[[1, 2], [3], [3], [4]]⟩
def exFaults : List Fault := [⟨.pubErrAfterPartial, 0⟩, ⟨.handlerErr, 1⟩]
def exPrefix : List Action := [.publishSource 0, .deliver 0, .fault 0 0, .deliver 1, .fault 1 0]
def exRun : List Action :=
  exPrefix ++ (List.replicate 9 [Action.deliver 0, .publishOk 0, .ack 0]).flatten ++ List.replicate 4 (.sink 0)
def exFinal : St := { toks := [], faults := [], srcs := [], pub := [7], sink := [7, 7, 7, 7] }

example : exShape.WF := by decide

/-- after the two faults: stage 0 is pending again (redelivery), and the partial publish already created the
    downstream copies at both subscriptions of the fan-out topic -/
example : exec (sys exShape [7] exFaults) (init [7] exFaults) exPrefix =
    some { toks := [⟨7, 0, .pending⟩, ⟨7, 1, .pending⟩, ⟨7, 2, .pending⟩], faults := [], srcs := [], pub := [7], sink := [] } := by
  decide

/-- the whole run: lineage 7 reaches the sink four times (2 publishes of stage 0 × 2 branches) – at least once -/
theorem exRun_final : exec (sys exShape [7] exFaults) (init [7] exFaults) exRun = some exFinal := by decide

theorem exFinal_terminal : ∀ a, act exShape exFinal a = none := by
  intro a; cases a <;> simp [act, exFinal]

/-- hypotheses of `no_loss_inv`, `sink_sound`, `terminal_delivered`, `maximal_run_delivers` are satisfiable together -/
example : 1 ≤ delivered exFinal 7 ∧ exRun.length ≤ mu exShape (init [7] exFaults) :=
  maximal_run_delivers exShape [7] exFaults (by decide) exRun exFinal exRun_final exFinal_terminal 7 (by simp)

/-- a handler that emits two outputs per input (successor listed twice): the publish error on the first attempt hands
    nothing on; after the redelivery both copies exist and both reach the sink -/
example : exec (sys ⟨[[1, 1], [2]]⟩ [7] [⟨.pubErr, 0⟩]) (init [7] [⟨.pubErr, 0⟩])
    [.publishSource 0, .deliver 0, .fault 0 0, .deliver 0, .publishOk 0, .ack 0, .deliver 0, .publishOk 0, .ack 0,
     .deliver 0, .publishOk 0, .ack 0, .sink 0, .sink 0] =
    some { toks := [], faults := [], srcs := [], pub := [7], sink := [7, 7] } ∧ (⟨[[1, 1], [2]]⟩ : Shape).WF := by decide

/-- hypotheses of `ack_after_accept`: a reachable state with an enabled `ack` -/
example : Reach (sys exShape [7] [])
      { toks := [⟨7, 0, .published⟩, ⟨7, 1, .pending⟩, ⟨7, 2, .pending⟩], faults := [], srcs := [], pub := [7], sink := [] } ∧
    act exShape { toks := [⟨7, 0, .published⟩, ⟨7, 1, .pending⟩, ⟨7, 2, .pending⟩], faults := [], srcs := [], pub := [7], sink := [] }
      (.ack 0) = some { toks := [⟨7, 1, .pending⟩, ⟨7, 2, .pending⟩], faults := [], srcs := [], pub := [7], sink := [] } :=
  ⟨reach_of_exec (sys exShape [7] []) Reach.init [.publishSource 0, .deliver 0, .publishOk 0] (by decide), by decide⟩

/-- hypotheses of `pipeline_refines`: a handling token and a script that still holds the fault; the conclusion says
    that the copy is pending again at stage 0 and that both subscriptions of the fan-out topic got their copy -/
example : ∃ acts s', exec (sys exShape [7] exFaults)
      { toks := [⟨7, 0, .handling⟩], faults := exFaults, srcs := [], pub := [7], sink := [] } acts = some s' ∧
      s'.toks[0]? = some ⟨7, 0, .pending⟩ ∧ (⟨7, 1, .pending⟩ : Tok) ∈ s'.toks ∧ (⟨7, 2, .pending⟩ : Tok) ∈ s'.toks := by
  obtain ⟨acts, s', h1, _, h3, h4, _⟩ := pipeline_refines exShape [7] exFaults realEff realEff_facts
    { toks := [⟨7, 0, .handling⟩], faults := exFaults, srcs := [], pub := [7], sink := [] } 0 7 0 (by decide)
    (.fails .pubErrAfterPartial) (by intro k hk; cases hk; exact ⟨0, by decide⟩)
  exact ⟨acts, s', h1, h3 rfl, h4 rfl 1 (by decide), h4 rfl 2 (by decide)⟩

end Wm.Pipeline
