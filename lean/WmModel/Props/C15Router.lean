/-
  C15 – `Wm.Cqrs.settleOf` ("`handler.handleMessage` for a NoPublisherHandler: nil ⇒ Ack, error ⇒ Nack, recovered panic ⇒
  Nack"), the rule the ack tables of the CQRS processors are built on, is *derived* from the model of
  `handler.handleMessage` (WmModel/Handle.lean, tied to the Go source by `Props/C02Tie.lean`) and the settlement model of
  C03 – for every handler configuration (the processors register with `AddNoPublisherHandler`/`AddConsumerHandler`, the
  theorem does not even need that), every publisher behaviour and every kind of message.
-/
import WmModel.Cqrs
import WmModel.Props.C02
namespace Wm.Cqrs
open Wm.Handle (Cfg PubOutcome handle sentAfter AckCond final_settlement)

/-- the router handler closure of a processor returns no messages: `return nil` / `return err` / a panic travels through -/
def HRes.toResult : HRes → Handle.Result Unit
  | .retNil => .returns [] false
  | .retErr => .returns [] true
  | .panic  => .panics .value

def Settle.toSent : Settle → Ack.Sent
  | .ack => .ack
  | .nack => .nack

/-- **the settle rule of the ack tables is the one of `handleMessage`** -/
theorem settleOf_eq_handle (k : Ack.Kind) (c : Cfg) (p : PubOutcome) (r : HRes) :
    sentAfter k (handle c ⟨none, r.toResult⟩ p) = (settleOf r).toSent := by
  have hfs := final_settlement k c r.toResult p
  cases r with
  | retNil =>
    apply hfs.1.2
    exact ⟨[], rfl, Or.inl rfl⟩
  | retErr =>
    apply hfs.2.2
    rintro ⟨outs, h1, _⟩
    simp [HRes.toResult] at h1
  | panic =>
    apply hfs.2.2
    rintro ⟨outs, h1, _⟩
    simp [HRes.toResult] at h1

/-- and `handleMessage` never calls a publisher for a processor's handler (it returns no messages) -/
theorem processor_handler_never_publishes (c : Cfg) (p : PubOutcome) (r : HRes) :
    (handle c ⟨none, r.toResult⟩ p).any Handle.Effect.isPublishCall = false := by
  cases r <;> simp [handle, HRes.toResult, Handle.selfEff, Handle.publishProduced, Handle.settleTail,
    Handle.Effect.isPublishCall]

example : sentAfter .new (handle ⟨.disabled, ""⟩ ⟨none, HRes.retErr.toResult⟩ .accept) = .nack := by decide
example : sentAfter .zero (handle ⟨.disabled, ""⟩ ⟨none, HRes.retNil.toResult⟩ .panic) = .ack := by decide

end Wm.Cqrs
