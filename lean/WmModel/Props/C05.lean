/-
  C05 – GoChannel: one unsettled message per subscription (M_sub, WmModel/GcSub.lean).
  Theorems over *every* reachable state of the subscription model: any buffer size, any number of
  senders (publications, persistent replays), any consumer behaviour, nacks, context cancel and Pub/Sub
  close at any point, every interleaving.  Helper lemmas: WmModel/Lemmas/GcSub*.lean.
  The blocking-publish clauses live at registry level (M_topic): see Props/C05Topic.lean.
-/
import WmModel.Lemmas.GcSubUnsInv
namespace Wm.GcSub
open Wm.Lts

theorem reach_ctl (cap : Nat) : ∀ s, Reach (sys cap) s → CtlOk s :=
  inv_of_step (sys cap) CtlOk (ctl_init cap) (fun s a s' h ha => ctl_step s a s' h ha)

theorem reach_uns (cap : Nat) : ∀ s, Reach (sys cap) s → UnsOk s :=
  inv_of_step' (sys cap) UnsOk (uns_init cap)
    (fun s a s' hr h ha => uns_step s a s' (reach_ctl cap s hr) h ha)

/-- **one unsettled message per subscription**: in every reachable state at most one copy that was put into
    the output channel (buffered or already received) is neither acked nor nacked -/
theorem one_unsettled_inv (cap : Nat) (s : St) (h : Reach (sys cap) s) (c₁ c₂ : Nat)
    (h₁ : Unsettled s c₁) (h₂ : Unsettled s c₂) : c₁ = c₂ :=
  (reach_uns cap s h).2.2 c₁ c₂ h₁ h₂

/-- why: the sender that delivered an unsettled copy still holds the sending lock and waits for exactly that
    copy – or the subscription is closing and no sender is past the `closing` check any more -/
theorem unsettled_is_owned (cap : Nat) (s : St) (h : Reach (sys cap) s) (c : Nat) (hu : Unsettled s c) :
    (∃ p, s.holder = .sender p .waitSettle c) ∨
    (s.closing = true ∧ ∀ p pc c', s.holder = .sender p pc c' → pc = .check) :=
  (reach_uns cap s h).2.1 c hu

/-- **the next message becomes receivable only after the previous one was settled**: while some copy is
    unsettled, the step that puts a copy into the output channel is not enabled – for every buffer size -/
theorem no_send_while_unsettled (cap : Nat) (s : St) (h : Reach (sys cap) s) (c : Nat) (hu : Unsettled s c) :
    act s .sSend = none := by
  rcases unsettled_is_owned cap s h c hu with ⟨p, hh⟩ | ⟨_, hh⟩
  · simp [act, hh]
  · cases hs : s.holder with
    | free => simp [act, hs]
    | closer => simp [act, hs]
    | sender p pc c' =>
      have := hh p pc c' hs
      subst this
      simp [act, hs]

/-- the subscription's own close protocol never panics (no close of a closed channel, no send on a closed
    channel) and keeps its flags consistent, in every reachable state -/
theorem never_panics (cap : Nat) (s : St) (h : Reach (sys cap) s) : s.panicked = false :=
  (reach_ctl cap s h).1

theorem close_flags_consistent (cap : Nat) (s : St) (h : Reach (sys cap) s) :
    (s.closed = true → s.closing = true) ∧ (s.chanClosed = s.closed) ∧ (s.closed = true ↔ s.td = .done) := by
  obtain ⟨_, h2, h3, h4, _, _⟩ := reach_ctl cap s h
  refine ⟨fun hc => h2.mpr (by rw [h3.mp hc]; decide), h4, h3⟩

/-- once the subscription is closing the lock holder can always leave without any help from the consumer:
    from every program counter an internal step is enabled (so `subscriber.Close` gets the lock) -/
theorem holder_can_leave_when_closing (cap : Nat) (s : St) (h : Reach (sys cap) s) (hc : s.closing = true)
    (p c : Nat) (pc : SPc) (hh : s.holder = .sender p pc c) :
    ∃ a, (a = .sCheck ∨ a = .sTop ∨ a = .sSendClosing ∨ a = .sObsClosing) ∧ (act s a).isSome = true := by
  cases pc with
  | check => exact ⟨.sCheck, Or.inl rfl, by simp [act, hh, hc]⟩
  | top =>
    by_cases hcl : s.closed = true
    · exact ⟨.sTop, Or.inr (Or.inl rfl), by simp [act, hh, hcl]⟩
    · exact ⟨.sTop, Or.inr (Or.inl rfl), by simp [act, hh, hcl]⟩
  | sendSel => exact ⟨.sSendClosing, Or.inr (Or.inr (Or.inl rfl)), by simp [act, hh, hc]⟩
  | waitSettle => exact ⟨.sObsClosing, Or.inr (Or.inr (Or.inr rfl)), by simp [act, hh, hc]⟩

/-! non-vacuity: a concrete run (buffer 1, two publications) reaches a state with an unsettled received copy
    and a second sender queued; the second sender cannot get the lock, the first cannot send again -/
def demoRun : List Action := [.spawn, .spawn, .sLock 0, .sCheck, .sTop, .sSend, .recv]

example : ∃ s, exec (sys 1) (init 1) demoRun = some s ∧ Unsettled s 0 ∧ s.waiting = [1] ∧
    act s (.sLock 0) = none ∧ act s .sSend = none := by
  refine ⟨_, rfl, ⟨⟨0, true, true, .none⟩, by decide, rfl, rfl⟩, by decide, by decide, by decide⟩

/-- …and after a Nack the same publication is sent again as a fresh copy, after an Ack the next sender runs -/
example : ∃ s, exec (sys 1) (init 1) (demoRun ++ [.settle 0 .nack, .sObsNack, .sTop, .sSend, .recv, .settle 1 .ack,
    .sObsAck, .sLock 0, .sCheck, .sTop, .sSend]) = some s ∧ Unsettled s 2 ∧ s.exits = [(0, .acked)] := by
  refine ⟨_, rfl, ⟨⟨1, true, false, .none⟩, by decide, rfl, rfl⟩, by decide⟩

end Wm.GcSub
