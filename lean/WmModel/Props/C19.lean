/-
  C19 – Simple middlewares change only what they document and only during the call.
  Property theorems only.  Model: `WmModel/Middleware.lean`; helper lemmas: `WmModel/Lemmas/Mw.lean`.

  Every transparency theorem quantifies over *every* wrapped handler `h : St → Res × St` (any function:
  any outputs, any error incl. wrapped ones, any panic value incl. nil, any change it makes to the message)
  and every message state.  `apply m h` is the middleware `m` of the code around `h`.
-/
import WmModel.Middleware
import WmModel.Lemmas.Mw
namespace Wm.Mw

/-- a concrete message state used by the non-vacuity examples -/
def exSt (script : List Res) : St := ⟨⟨0, false, false, false⟩, [(cidKey, "id-7"), ("k", "v")], .absent, false, false, 0, script, [], none, false⟩

/-! ## Timeout -/

/-- **Timeout is transparent**: the result is exactly what the handler returns (or panics with) when it is
    called on the message carrying the derived context; everything the handler did to the message stays,
    except that the context is put back. -/
theorem timeout_transparent (e : Bool) (h : Handler) (st : St) :
    (apply (.timeout e) h st).1 = (h { st with ctx := deriveCtx st.ctx e }).1 ∧
    (apply (.timeout e) h st).2 = { (h { st with ctx := deriveCtx st.ctx e }).2 with ctx := st.ctx } := by
  simp [applyC, timeout]

/-- **a deadline is visible during the call and the context is restored after it** – whatever the handler
    does (returns, fails, panics, even replaces the context itself): the handler runs under a fresh child
    context that carries a deadline, and the context of the message after the call is the context before
    the call, so it is done afterwards only if it was done before. -/
theorem timeout_deadline_visible_and_restored (e : Bool) (h : Handler) (st : St) :
    (deriveCtx st.ctx e).deadline = true ∧
    (deriveCtx st.ctx e).far = false ∧
    (deriveCtx st.ctx e) ≠ st.ctx ∧
    (apply (.timeout e) h st).2.ctx = st.ctx ∧
    ((apply (.timeout e) h st).2.ctx.done = true → st.ctx.done = true) := by
  refine ⟨rfl, rfl, ?_, ?_, ?_⟩
  · intro hc
    have := congrArg Ctx.depth hc
    simp [deriveCtx] at this
  · simp [applyC, timeout]
  · simp [applyC, timeout]

example : (apply (.timeout false) scripted (exSt [.panic .nil])) =
    (.panic .nil, { exSt [.panic .nil] with log := [⟨true, false, false, .absent, false, false⟩] }) := by decide

/-- witness of D2 (the unrepaired Timeout): the context is left done, and `Retry` around it stops after one
    attempt where its own rule gives three -/
theorem Old.timeout_leaves_context_done :
    (Old.timeout false scripted (exSt [.ret [] none])).2.ctx.done = true ∧
    (runC true [.retry 2] (Old.timeout false scripted) (exSt [.ret [] (some (.base "x"))])).2.log.length = 1 ∧
    (run [.retry 2, .timeout false] scripted (exSt [.ret [] (some (.base "x"))])).2.log.length = 3 := by decide +kernel

/-! ## CorrelationID -/

/-- **CorrelationID is transparent**: error and panic pass unchanged, the message is exactly as the handler
    left it, the outputs are the handler's outputs, in order, each passed through `SetCorrelationID` with the
    id the incoming message carries when the handler returns. -/
theorem correlation_transparent (h : Handler) (st : St) :
    (apply .correlation h st).2 = (h st).2 ∧
    (∀ v, (h st).1 = .panic v → (apply .correlation h st).1 = .panic v) ∧
    (∀ outs err, (h st).1 = .ret outs err →
      (apply .correlation h st).1 = .ret (outs.map (setCid (mget (h st).2.md cidKey))) err) := by
  simp only [applyC, correlation]
  generalize h st = x
  obtain ⟨r, st'⟩ := x
  cases r <;> simp

/-- **the correlation id is copied to outputs that lack one and never overwritten**: same number of outputs,
    same uuids; an output whose `Get("correlation_id")` is non-empty is untouched; one that lacks it gets the
    incoming id under that key and keeps every other key.  (Settled reading: "lacks" = `Get(...) == ""`; the
    key is set even when the incoming id is itself empty.) -/
theorem correlation_copied_not_overwritten (h : Handler) (st : St) (outs : List Out) (err : Option Err)
    (hr : (h st).1 = .ret outs err) :
    ∃ outs', (apply .correlation h st).1 = .ret outs' err ∧ outs'.length = outs.length ∧
      ∀ i (hi : i < outs.length) (hi' : i < outs'.length),
        (outs'[i]).id = (outs[i]).id ∧
        (mget (outs[i]).md cidKey ≠ "" → outs'[i] = outs[i]) ∧
        (mget (outs[i]).md cidKey = "" → mget (outs'[i]).md cidKey = mget (h st).2.md cidKey) ∧
        (∀ k, k ≠ cidKey → mget (outs'[i]).md k = mget (outs[i]).md k) := by
  refine ⟨outs.map (setCid (mget (h st).2.md cidKey)), (correlation_transparent h st).2.2 outs err hr, by simp, ?_⟩
  intro i hi hi'
  simp only [List.getElem_map]
  exact setCid_spec _ _

example : (apply .correlation scripted (exSt [.ret [⟨"a", [("x", "1")]⟩, ⟨"b", [(cidKey, "own")]⟩, ⟨"c", [(cidKey, "")]⟩] none])).1 =
    .ret [⟨"a", [("x", "1"), (cidKey, "id-7")]⟩, ⟨"b", [(cidKey, "own")]⟩, ⟨"c", [(cidKey, "id-7")]⟩] none := by decide

/-! ## Recoverer -/

/-- **a panic never escapes and the error carries the panic value** (any value, `nil` included) -/
theorem recoverer_never_escapes (h : Handler) (st : St) :
    (∀ v, (apply .recoverer h st).1 ≠ .panic v) ∧
    (∀ v, (h st).1 = .panic v → (apply .recoverer h st).1 = .ret [] (some (.recovered v))) := by
  simp only [applyC, recoverer]
  generalize h st = x
  obtain ⟨r, st'⟩ := x
  cases r <;> simp

/-- **Recoverer is transparent** on everything that is not a panic, and never touches the message -/
theorem recoverer_transparent (h : Handler) (st : St) :
    (apply .recoverer h st).2 = (h st).2 ∧
    (∀ outs err, (h st).1 = .ret outs err → (apply .recoverer h st).1 = .ret outs err) := by
  simp only [applyC, recoverer]
  generalize h st = x
  obtain ⟨r, st'⟩ := x
  cases r <;> simp

example : (apply .recoverer scripted (exSt [.panic .nil])).1 = .ret [] (some (.recovered .nil)) := by decide
example : (apply .recoverer scripted (exSt [.panic (.str "boom")])).1 = .ret [] (some (.recovered (.str "boom"))) := by decide

/-! ## IgnoreErrors -/

/-- an error is *listed* when the text of its `pkg/errors` cause is one of the configured texts -/
def listed (l : List String) (e : Err) : Prop := ∃ t, e.cause.text = some t ∧ t ∈ l

/-- **listed errors become success, nothing else changes**: outputs are kept in both cases, an unlisted
    error, a success and a panic pass unchanged, the message is as the handler left it. -/
theorem ignore_errors_only_listed (l : List String) (h : Handler) (st : St) :
    (apply (.ignoreErrors l) h st).2 = (h st).2 ∧
    (∀ outs e, (h st).1 = .ret outs (some e) → listed l e → (apply (.ignoreErrors l) h st).1 = .ret outs none) ∧
    (∀ outs e, (h st).1 = .ret outs (some e) → ¬ listed l e → (apply (.ignoreErrors l) h st).1 = .ret outs (some e)) ∧
    (∀ outs, (h st).1 = .ret outs none → (apply (.ignoreErrors l) h st).1 = .ret outs none) ∧
    (∀ v, (h st).1 = .panic v → (apply (.ignoreErrors l) h st).1 = .panic v) := by
  simp only [applyC, ignoreErrors, listed]
  generalize h st = x
  obtain ⟨r, st'⟩ := x
  cases r with
  | panic v => simp
  | ret outs e =>
    cases e with
    | none => simp
    | some e =>
      cases hc : e.cause.text with
      | none => simp [hc]
      | some t =>
        by_cases ht : t ∈ l <;> simp [hc, ht]

/-- the match sees through `pkg/errors` wrapping only: `fmt.Errorf("%w")` wrapping is compared with its
    own full text, a recovered panic never matches -/
theorem ignore_errors_cause (m : String) (e : Err) (t : String) (v : PVal) :
    (Err.pkgWrap m e).cause = e.cause ∧ (Err.fmtWrap m e).cause = Err.fmtWrap m e ∧
    (Err.base t).cause = Err.base t ∧ ∀ l, ¬ listed l (.recovered v) := by
  refine ⟨rfl, rfl, rfl, ?_⟩
  intro l ⟨t, ht, _⟩
  simp [Err.cause, Err.text] at ht

example : (apply (.ignoreErrors ["boom"]) scripted (exSt [.ret [⟨"a", []⟩] (some (.pkgWrap "ctx" (.base "boom")))])).1 =
    .ret [⟨"a", []⟩] none := by decide
example : (apply (.ignoreErrors ["boom"]) scripted (exSt [.ret [] (some (.fmtWrap "ctx" (.base "boom")))])).1 =
    .ret [] (some (.fmtWrap "ctx" (.base "boom"))) := by decide

/-! ## InstantAck, Throttle, closed CircuitBreaker -/

/-- **Ack before the call**: the handler is invoked on the message after `Ack()` – acknowledged, unless a Nack had been
    sent on it before (then `Ack()` changes nothing) – and that is all: the handler is called in both cases and its
    result is the chain's. -/
theorem instant_ack_before_call (h : Handler) (st : St) :
    apply .instantAck h st = h (ackMsg st) ∧
    (st.nacked = false → (ackMsg st) = { st with acked := true } ∧ (ackMsg st).acked = true) ∧
    (st.nacked = true → ackMsg st = st) := by
  refine ⟨rfl, ?_, ?_⟩ <;> intro hn <;> simp [ackMsg, hn]

/-- **Throttle is transparent**: it waits for one tick, then the handler's result and effects are the chain's -/
theorem throttle_transparent (h : Handler) (st : St) :
    apply .throttle h st = h { st with ticks := st.ticks + 1 } := rfl

/-- **a closed CircuitBreaker is transparent** (results, errors and panics alike) -/
theorem breaker_transparent (h : Handler) (st : St) : apply .breaker h st = h st := rfl

example : (apply .instantAck scripted (exSt [.ret [] none])).2.log = [⟨false, false, true, .absent, false, false⟩] := by decide

/-- a message whose context is already done (cancelled, or under a Timeout outside the Throttle that expired) still
    takes its tick: the handler is started on the state with one more tick consumed, whatever the context -/
theorem throttle_takes_tick_whatever_the_context (h : Handler) (st : St) :
    (apply .throttle h st) = h { st with ticks := st.ticks + 1 } ∧
    run [.timeout true, .throttle] h st =
      ((h { st with ctx := deriveCtx st.ctx true, ticks := st.ticks + 1 }).1,
       { (h { st with ctx := deriveCtx st.ctx true, ticks := st.ticks + 1 }).2 with ctx := st.ctx }) := by
  constructor <;> rfl

example : (run [.timeout true, .throttle] scripted (exSt [.ret [] none])).2.ticks = 1 ∧
    (run [.timeout true, .throttle] scripted (exSt [.ret [] none])).2.log = [⟨true, true, false, .absent, false, false⟩] := by decide +kernel

/-- candidate finding "breaker+panicnil": with the legacy behaviour of the library a handler's `panic(nil)` is reported as
    success, where the transparent breaker of the model (and of the statement) lets the panic through -/
theorem Legacy.breaker_swallows_nil_panic :
    (Legacy.breaker scripted (exSt [.panic .nil])).1 = .ret [] none ∧
    (Wm.Mw.apply .breaker scripted (exSt [.panic .nil])).1 = .panic .nil ∧
    (Legacy.breaker scripted (exSt [.panic (.str "x")])).1 = .panic (.str "x") := by decide +kernel

/-- **handler starts no faster than the configured rate**, over the abstract one-slot ticker of period `d` with punctual
    timers: in every run the ticker admits, `n` further starts after the `i`-th take at least `(n-1)·d`; hence a
    window of length `L` contains at most `L/d + 2` starts (one tick may wait in the slot).  Without the punctuality
    assumption see `throttle_lifetime_rate`. -/
theorem throttle_rate (d : Nat) (run : List Start) (hv : validRun d run = true) (i n : Nat) (hn : 1 ≤ n)
    (hin : i + n < run.length) :
    (run[i]'(by omega)).time + (n - 1) * d ≤ (run[i + n]).time := by
  have hi : i < run.length := by omega
  have hdrop : run.drop i = run[i] :: run.drop (i + 1) := List.drop_eq_getElem_cons hi
  have hv' := validRun_drop d run hv i
  rw [hdrop] at hv'
  have hlen : n - 1 < (run.drop (i + 1)).length := by simp; omega
  have := validRun_spacing d _ _ hv' (n - 1) hlen
  simp only [List.getElem_drop] at this
  have e : i + 1 + (n - 1) = i + n := by omega
  simp only [e] at this
  exact this

theorem throttle_window_count (d : Nat) (hd : 0 < d) (run : List Start) (hv : validRun d run = true) (i n L : Nat)
    (hin : i + n < run.length) (hw : (run[i + n]).time ≤ (run[i]'(by omega)).time + L) :
    n + 1 ≤ L / d + 2 := by
  by_cases hn : n = 0
  · have := Nat.zero_le (L / d); omega
  · have h := throttle_rate d run hv i n (by omega) hin
    have h2 : (n - 1) * d ≤ L := by omega
    have h3 : n - 1 ≤ L / d := (Nat.le_div_iff_mul_le hd).mpr h2
    omega

/-- the rate over the life of the ticker, without assuming punctual timers: the n-th handler start happens no earlier
    than `n·d` after the ticker was created (n starts need n distinct ticks, none delivered before its nominal time);
    hence at most `t/d` starts in the first `t` time units.  This is the inequality the harness samples on the real clock. -/
theorem throttle_lifetime_rate (d : Nat) (run : List Start) (hv : laxRun d run = true) (n : Nat) (hn : n < run.length) :
    (n + 1) * d ≤ (run[n]).time := by
  have h := laxRun_nth d run 1 hv (by
    intro a ha
    cases run with
    | nil => simp at ha
    | cons x rest =>
      simp at ha; subst ha
      cases rest with
      | nil => simp only [laxRun, Bool.and_eq_true, decide_eq_true_eq] at hv; exact hv.1
      | cons b r2 => simp only [laxRun, Bool.and_eq_true, decide_eq_true_eq] at hv; exact hv.1.1.1) n hn
  rw [Nat.add_comm] at h
  exact h

theorem throttle_valid_is_lax (d : Nat) (run : List Start) (hv : validRun d run = true) : laxRun d run = true :=
  laxRun_of_validRun d run hv

/-- a late timer: tick 2 (nominal time 20) is delivered at 109, right after an idle receiver took tick 1 at 108 – admitted
    by `laxRun`, excluded by the punctual `validRun` -/
example : laxRun 10 [⟨108, 1⟩, ⟨109, 2⟩, ⟨110, 11⟩] = true ∧ validRun 10 [⟨108, 1⟩, ⟨109, 2⟩, ⟨110, 11⟩] = false := by decide

/-- the deterministic ticker model yields admissible runs for all request times -/
theorem throttle_model_admissible (d : Nat) (hd : 0 < d) (reqs : List Nat) (ps pt : Nat) :
    validRun d (throttleRun d ps pt reqs) = true := throttleRun_valid d hd reqs ps pt

/-- non-vacuity: after an idle phase two starts are closer than one period (the `+2`), then one per period -/
example : throttleRun 10 0 0 [57, 57, 57, 57] = [⟨57, 1⟩, ⟨60, 6⟩, ⟨70, 7⟩, ⟨80, 8⟩] := by decide
example : validRun 10 [⟨57, 1⟩, ⟨60, 6⟩, ⟨70, 7⟩, ⟨80, 8⟩] = true := by decide

/-! ## DelayOnError -/

/-- **DelayOnError is transparent and leaves successes untouched**: outputs, error and panic are the handler's;
    after a success or a panic the message is exactly as the handler left it; after an error only the two
    delay keys differ. -/
theorem delay_transparent (c : DelayCfg) (h : Handler) (st : St) :
    (apply (.delayOnError c) h st).1 = (h st).1 ∧
    (∀ outs, (h st).1 = .ret outs none → (apply (.delayOnError c) h st).2 = (h st).2) ∧
    (∀ v, (h st).1 = .panic v → (apply (.delayOnError c) h st).2 = (h st).2) ∧
    (∀ outs e, (h st).1 = .ret outs (some e) →
      (apply (.delayOnError c) h st).2 =
        { (h st).2 with delay := .ns (applyDelay c (h st).2.delay), until_ := true }) := by
  simp only [applyC, delayOnError]
  generalize h st = x
  obtain ⟨r, st'⟩ := x
  cases r with
  | panic v => simp
  | ret outs e => cases e <;> simp

/-- **the recurrence**: a failure on a message without usable delay metadata writes `InitialInterval`; a
    failure on a message delayed for `d` writes `min(⌊d·Multiplier⌋, MaxInterval)`; hence the k-th failure in
    a row writes `delayAt c (k-1)` and a success writes nothing. -/
theorem delay_recurrence (c : DelayCfg) :
    applyDelay c .absent = c.init ∧ (∀ s, applyDelay c (.raw s) = c.init) ∧
    (∀ d, applyDelay c (.ns d) = min (d * c.num / c.den) c.max) ∧
    delayAt c 0 = c.init ∧ (∀ j, delayAt c (j + 1) = min (delayAt c j * c.num / c.den) c.max) ∧
    (∀ d, delayStep c d false = d) := by
  refine ⟨rfl, fun _ => rfl, applyDelay_ns c, rfl, ?_, fun _ => rfl⟩
  intro j
  rw [delayAt, applyDelay_ns]

/-- the metadata after each call of a run of `n` failures on a fresh message is `delayAt c 0, …, delayAt c (n-1)` -/
theorem delay_seq_failures (c : DelayCfg) (n : Nat) :
    delaySeq c .absent (List.replicate n true) = (List.range n).map (fun j => Delay.ns (delayAt c j)) := by
  have e0 : delayStep c .absent true = .ns (delayAt c 0) := rfl
  have es : ∀ j, delayStep c (.ns (delayAt c j)) true = .ns (delayAt c (j + 1)) := fun _ => rfl
  have H : ∀ n j, delaySeq c (.ns (delayAt c j)) (List.replicate n true) =
      (List.range' (j + 1) n).map (fun i => Delay.ns (delayAt c i)) := by
    intro n
    induction n with
    | zero => intro j; rfl
    | succ n ih =>
      intro j
      rw [List.replicate_succ, delaySeq, List.range'_succ]
      simp only [es, ih (j + 1), List.map_cons]
  cases n with
  | zero => rfl
  | succ n =>
    rw [List.replicate_succ, delaySeq, List.range_eq_range', List.range'_succ]
    simp only [e0, H n 0, List.map_cons]

/-- **closed form** (guard of finding D17: `InitialInterval ≤ MaxInterval`; Multiplier = num/den ≥ 1):
    the k-th consecutive failure (k = j+1) writes `D = min(u_j, MaxInterval)` where `u_j` is `Initial·m^j`
    rounded down to whole nanoseconds at each of the `j` multiplications; scaled by `den^j`:
      `D·den^j ≤ min(Initial·num^j, Max·den^j) ≤ D·den^j + g_j`,
    i.e. `D ≤ min(Initial·m^j, Max) ≤ D + g_j/den^j` with `g_j/den^j < (m^j−1)/(m−1)` ns (`gapBound_closed`),
    and with equality for integer multipliers. -/
theorem delay_closed_form_bound_partial (c : DelayCfg) (hq : 0 < c.den) (hpq : c.den ≤ c.num)
    (hguard : c.init ≤ c.max) (j : Nat) :
    delayAt c j = min (uncapped c j) c.max ∧
    delayAt c j * c.den ^ j ≤ min (c.init * c.num ^ j) (c.max * c.den ^ j) ∧
    min (c.init * c.num ^ j) (c.max * c.den ^ j) ≤ delayAt c j * c.den ^ j + gapBound c j ∧
    (c.den = 1 → delayAt c j = min (c.init * c.num ^ j) c.max) := by
  have h1 : delayAt c j = min (uncapped c j) c.max := by
    cases j with
    | zero => show c.init = min c.init c.max; omega
    | succ j => exact delayAt_succ_eq_min c hq hpq j
  have hle := uncapped_le c j
  have hge := uncapped_ge c hq j
  refine ⟨h1, ?_, ?_, ?_⟩
  · rw [h1]
    by_cases hu : uncapped c j ≤ c.max
    · rw [Nat.min_eq_left hu]
      have := Nat.mul_le_mul_right (c.den ^ j) hu
      omega
    · rw [Nat.min_eq_right (show c.max ≤ uncapped c j by omega)]
      have := Nat.mul_le_mul_right (c.den ^ j) (show c.max ≤ uncapped c j by omega)
      omega
  · rw [h1]
    by_cases hu : uncapped c j ≤ c.max
    · rw [Nat.min_eq_left hu]; omega
    · rw [Nat.min_eq_right (show c.max ≤ uncapped c j by omega)]; omega
  · intro h1q
    rw [h1, uncapped_int c h1q]

/- The full statement (no guard) is false for j = 0, see `delay_first_uncapped_witness`:
     ∀ c j, delayAt c j * den^j ≤ min (init * num^j) (max * den^j)
   Missing part: the first delay is not capped (finding D17, pattern "initial>max"). -/

/-- without the guard the closed form still holds from the second failure on -/
theorem delay_capped_from_second (c : DelayCfg) (hq : 0 < c.den) (hpq : c.den ≤ c.num) (j : Nat) :
    delayAt c (j + 1) = min (uncapped c (j + 1)) c.max ∧ delayAt c (j + 1) ≤ c.max := by
  have h := delayAt_succ_eq_min c hq hpq j
  exact ⟨h, by rw [h]; omega⟩

/-- **finding D17** (open): with `InitialInterval > MaxInterval` the first failure writes `InitialInterval`,
    which exceeds `min(InitialInterval·Multiplier^0, MaxInterval)` -/
theorem delay_first_uncapped_witness :
    ∃ c : DelayCfg, 0 < c.den ∧ c.den ≤ c.num ∧ c.init > c.max ∧
      ¬ (delayAt c 0 * c.den ^ 0 ≤ min (c.init * c.num ^ 0) (c.max * c.den ^ 0)) :=
  ⟨⟨5000, 1000, 2, 1⟩, by decide⟩

/-- the rounding bound vanishes for integer multipliers and has the closed form of `gapBound_closed` -/
theorem delay_gap_bound (c : DelayCfg) (j : Nat) :
    (c.den = 1 → gapBound c j = 0) ∧
    (∀ t, c.num = c.den + t → gapBound c j * t + (c.den - 1) * c.den ^ j = (c.den - 1) * c.num ^ j) :=
  ⟨fun h => gapBound_int c h j, fun t ht => gapBound_closed c t ht j⟩

/-- fractional multipliers: 1 s, 1.5 s, 2.25 s, 3.375 s, then the cap -/
example : (List.range 6).map (delayAt ⟨1000000000, 4000000000, 3, 2⟩) =
    [1000000000, 1500000000, 2250000000, 3375000000, 4000000000, 4000000000] := by decide
/-- rounding to whole nanoseconds: 7 ns · 2.5 = 17 (17.5), · 2.5 = 42 (43.75): within the bound g_2/4 -/
example : (List.range 3).map (delayAt ⟨7, 100, 5, 2⟩) = [7, 17, 42] ∧ gapBound ⟨7, 100, 5, 2⟩ 2 = 7 := by decide

/-- witness of D3 (the unrepaired multiplication): Multiplier 1.5 was truncated to 1 -/
theorem Old.delay_fraction_truncated :
    Old.applyDelay ⟨1000, 100000, 3, 2⟩ (.ns 1000) = 1000 ∧ Wm.Mw.applyDelay ⟨1000, 100000, 3, 2⟩ (.ns 1000) = 1500 := by decide

/-- **no middleware invents a panic**: around a handler that never panics no chain of the simple middlewares panics –
    whatever the error values are (comparable or not, wrapped or not) and whatever state the message is in -/
theorem simple_never_introduces_panic (m : Mw) (hm : m.isRetry = false) (h : Handler)
    (hh : ∀ st v, (h st).1 ≠ .panic v) (st : St) (v : PVal) : (apply m h st).1 ≠ .panic v := by
  cases m with
  | retry n => simp [Mw.isRetry] at hm
  | timeout e => simpa [applyC, timeout] using hh _ v
  | instantAck => simpa [applyC, instantAck] using hh _ v
  | throttle => simpa [applyC, throttle] using hh _ v
  | breaker => simpa [applyC, breaker] using hh _ v
  | correlation =>
    have h1 := hh st
    simp only [applyC, correlation]
    generalize h st = x at h1
    obtain ⟨r, st'⟩ := x
    cases r with
    | panic w => exact absurd rfl (h1 w)
    | ret outs err => simp
  | recoverer =>
    simp only [applyC, recoverer]
    generalize h st = x
    obtain ⟨r, st'⟩ := x
    cases r <;> simp
  | ignoreErrors l =>
    have h1 := hh st
    simp only [applyC, ignoreErrors]
    generalize h st = x at h1
    obtain ⟨r, st'⟩ := x
    cases r with
    | panic w => exact absurd rfl (h1 w)
    | ret outs err =>
      cases err with
      | none => simp
      | some e =>
        simp only
        split
        · split <;> simp
        · simp
  | delayOnError c =>
    have h1 := hh st
    simp only [applyC, delayOnError]
    generalize h st = x at h1
    obtain ⟨r, st'⟩ := x
    cases r with
    | panic w => exact absurd rfl (h1 w)
    | ret outs err => cases err <;> simp

/-- errors and panic values of non-comparable dynamic types are results like any other: an unlisted one passes unchanged,
    a listed one (by its text) becomes success, a panic with such a value is recovered into an error carrying it and that
    error passes an IgnoreErrors above the Recoverer -/
example : (apply (.ignoreErrors ["boom"]) scripted (exSt [.ret [] (some (.ubase "fields"))])).1 = .ret [] (some (.ubase "fields")) ∧
    (apply (.ignoreErrors ["fields"]) scripted (exSt [.ret [⟨"a", []⟩] (some (.pkgWrap "ctx" (.ubase "fields")))])).1 = .ret [⟨"a", []⟩] none ∧
    (run [.ignoreErrors ["boom"], .recoverer] scripted (exSt [.panic (.list "boom")])).1 = .ret [] (some (.recovered (.list "boom"))) := by
  decide +kernel

/-- a message that was nacked before it reaches InstantAck: the handler is still called, its result passes unchanged, the
    message stays as it was; under Retry the handler gets Retry's own number of attempts -/
example : (apply .instantAck scripted { exSt [.ret [⟨"a", []⟩] none] with nacked := true }).1 = .ret [⟨"a", []⟩] none ∧
    (apply .instantAck scripted { exSt [.ret [] none] with nacked := true }).2.log = [⟨false, false, false, .absent, false, true⟩] ∧
    (run [.retry 2, .instantAck] scripted { exSt [.ret [] (some (.base "x"))] with nacked := true }).2.log.length = 3 := by
  decide +kernel

/-- a caller-set deadline beyond Timeout's horizon: during the call the handler sees Timeout's (nearer) deadline; two
    Timeouts in one chain: the inner, already expired one decides -/
example : (apply (.timeout false) scripted { exSt [.ret [] none] with ctx := ⟨0, true, false, true⟩ }).2.log = [⟨true, false, false, .absent, false, false⟩] ∧
    (run [.timeout false, .timeout true] scripted (exSt [.ret [] none])).2.log = [⟨true, true, false, .absent, false, false⟩] := by
  decide +kernel

/-! ## Composition: the effect ends with the call -/

/-- every stack (any length, any order, Retry included) leaves the message context as it found it, provided the
    handler does – in particular the context is not left cancelled -/
theorem stack_context_restored (ms : List Mw) (h : Handler) (hn : CtxNeutral h) (st : St) :
    (run ms h st).2.ctx = st.ctx := runC_ctxNeutral true ms h hn st

/-- every middleware except Retry calls what it wraps exactly once: `apply m h st = post (h (pre st))` for
    functions `pre`, `post` that do not depend on `h` -/
theorem simple_calls_inner_once (m : Mw) (hm : m.isRetry = false) :
    ∃ (pre : St → St) (post : St → Res × St → Res × St), ∀ h st, apply m h st = post st (h (pre st)) := by
  cases m with
  | timeout e =>
    exact ⟨fun st => { st with ctx := deriveCtx st.ctx e }, fun st x => (x.1, { x.2 with ctx := st.ctx }), fun _ _ => rfl⟩
  | correlation =>
    exact ⟨id, fun _ x => match x.1 with
      | .ret outs err => (.ret (outs.map (setCid (mget x.2.md cidKey))) err, x.2)
      | .panic v => (.panic v, x.2), fun _ _ => rfl⟩
  | recoverer =>
    exact ⟨id, fun _ x => match x.1 with
      | .panic v => (.ret [] (some (.recovered v)), x.2)
      | r => (r, x.2), fun _ _ => rfl⟩
  | ignoreErrors l => exact ⟨id, fun _ x => ignoreErrors l (fun _ => x) default, fun _ _ => rfl⟩
  | instantAck => exact ⟨ackMsg, fun _ x => x, fun _ _ => rfl⟩
  | throttle => exact ⟨fun st => { st with ticks := st.ticks + 1 }, fun _ x => x, fun _ _ => rfl⟩
  | breaker => exact ⟨id, fun _ x => x, fun _ _ => rfl⟩
  | delayOnError c => exact ⟨id, fun _ x => delayOnError c (fun _ => x) default, fun _ _ => rfl⟩
  | retry n => simp [Mw.isRetry] at hm

/-- **composition with Retry does not change its attempt count**: in every stack (any length – in particular
    every stack of ≤ 3 of these middlewares around and inside Retry, in any order) run on a message whose
    context is not done, Retry's look at the message context never decides anything: the whole run – result,
    message, and the handler's call log, hence the number of attempts – equals the run in which Retry follows
    only its own rule (retry until success, at most max(MaxRetries,1) times).  The one excluded arrangement
    is a Retry *inside* a Timeout that is already expired when it starts, where stopping is Retry's
    documented reaction to a cancelled context. -/
theorem compose_with_retry (ms : List Mw) (hok : retryOutsideExpired ms = true) (h : Handler) (hn : CtxNeutral h)
    (st : St) (hd : st.ctx.done = false) :
    run ms h st = runC false ms h st := runC_agree ms hok h hn st hd

/-- the attempt count, read off the scripted handler's log -/
theorem compose_with_retry_attempts (ms : List Mw) (hok : retryOutsideExpired ms = true) (st : St)
    (hd : st.ctx.done = false) :
    (run ms scripted st).2.log.length = (runC false ms scripted st).2.log.length := by
  rw [compose_with_retry ms hok scripted scripted_ctxNeutral st hd]

/-- Retry's own rule on a handler that always fails: 1 + max(MaxRetries, 1) attempts -/
theorem retry_own_attempts_all_fail (m : Nat) (o : List Out) (e : Err) (st : St) (hs : st.script = [.ret o (some e)]) :
    (runC false [.retry m] scripted st).2.log.length = st.log.length + 1 + max m 1 := by
  simp only [runC, applyC, retry, scripted, hs, Bool.false_and]
  rw [retryLoop_scripted_all_fail o e]
  · simp; omega
  · rfl

/-- **Retry's own rule, explicitly**: around the scripted handler the reference Retry makes exactly
    `ownAttempts MaxRetries script` calls – one, then after a failure one more until a call does not fail, at most
    max(MaxRetries, 1) retries -/
theorem retry_own_attempts (m : Nat) (st : St) :
    (runC false [.retry m] scripted st).2.log.length = st.log.length + ownAttempts m st.script := by
  simp only [runC, applyC, retry, Bool.false_and]
  rw [scripted_eq]
  cases h : headRes st.script with
  | panic v => simp [ownAttempts, h, Res.isErr]
  | ret o e =>
    cases e with
    | none => simp [ownAttempts, h, Res.isErr]
    | some e =>
      simp only [ownAttempts, h, Res.isErr, if_true]
      rw [retryLoop_scripted_attempts]
      simp; omega

/-- the case of the statement: one Retry with any number (in particular up to two) of the simple middlewares around it
    and/or inside it, in any order, none of them an already expired Timeout outside the Retry – the attempt count is Retry's own; when only
    middlewares that do not change the error (Timeout, CorrelationID, InstantAck, Throttle, CircuitBreaker,
    DelayOnError) are involved it is `ownAttempts` of the handler's own results -/
theorem compose_with_retry_around_and_inside (outer inner : List Mw) (m : Nat)
    (ho : ∀ x ∈ outer, x.isRetry = false ∧ x ≠ .timeout true) (hi : ∀ x ∈ inner, x.isRetry = false)
    (st : St) (hd : st.ctx.done = false) :
    run (outer ++ .retry m :: inner) scripted st = runC false (outer ++ .retry m :: inner) scripted st := by
  apply compose_with_retry _ _ scripted scripted_ctxNeutral st hd
  clear hd
  induction outer with
  | nil =>
    -- Retry outermost: whatever is inside (an expired Timeout included) is fine
    have : ∀ l : List Mw, (∀ x ∈ l, x.isRetry = false) → retryOutsideExpired l = true := by
      intro l
      induction l with
      | nil => intro _; rfl
      | cons x rest ih =>
        intro hl
        have hr := ih (fun y hy => hl y (List.mem_cons_of_mem _ hy))
        cases x with
        | timeout e =>
          cases e with
          | true =>
            simp only [retryOutsideExpired, noRetry, List.all_eq_true, Bool.not_eq_true']
            intro y hy; exact hl y (List.mem_cons_of_mem _ hy)
          | false => simpa [retryOutsideExpired] using hr
        | _ => simpa [retryOutsideExpired] using hr
    simpa [retryOutsideExpired] using this inner hi
  | cons x rest ih =>
    have hx := ho x (List.mem_cons_self ..)
    have hr := ih (fun y hy => ho y (List.mem_cons_of_mem _ hy))
    cases x with
    | timeout e =>
      cases e with
      | true => exact absurd rfl hx.2
      | false => simpa [retryOutsideExpired] using hr
    | _ => simpa [retryOutsideExpired] using hr

example : ownAttempts 3 [.ret [] (some (.base "x"))] = 4 ∧ ownAttempts 0 [.ret [] (some (.base "x"))] = 2 ∧
    ownAttempts 3 [.ret [] (some (.base "x")), .ret [] none] = 2 ∧
    ownAttempts 3 [.ret [] (some (.base "x")), .panic .nil] = 2 ∧ ownAttempts 3 [.ret [] none] = 1 := by decide

/-- the error *value* does not matter to Retry: a handler that reports its per-attempt context's error – plain or wrapped –
    under `Retry(Timeout(h))` gets Retry's own 1+MaxRetries attempts (the message context is live again after every attempt) -/
example : (run [.retry 3, .timeout false] scripted (exSt [.ret [] (some (.ctxErr true))])).2.log.length = 4 ∧
    (run [.retry 2, .timeout true] scripted (exSt [.ret [] (some (.pkgWrap "ctx" (.ctxErr true))), .ret [] (some (.fmtWrap "ctx" (.ctxErr false))), .ret [] none])).2.log.length = 3 ∧
    ownAttempts 3 [.ret [] (some (.ctxErr true))] = 4 := by decide +kernel

/-- non-vacuity: Retry(Timeout(h)), Timeout(Retry(h)), Retry(Recoverer(Timeout0(h))) with a failing handler make
    1+MaxRetries attempts; Timeout0(Retry(h)) – the excluded arrangement – makes one -/
example : (run [.retry 3, .timeout false] scripted (exSt [.ret [] (some (.base "x"))])).2.log.length = 4 := by decide +kernel
example : (run [.timeout false, .retry 3] scripted (exSt [.ret [] (some (.base "x"))])).2.log.length = 4 := by decide +kernel
example : (run [.retry 2, .recoverer, .timeout true] scripted (exSt [.panic .nil])).2.log.length = 3 := by decide +kernel
example : (run [.timeout true, .retry 3] scripted (exSt [.ret [] (some (.base "x"))])).2.log.length = 1 := by decide +kernel
example : retryOutsideExpired [.retry 2, .recoverer, .timeout true] = true ∧ retryOutsideExpired [.timeout true, .retry 2] = false := by decide

end Wm.Mw
