/-
  C08 – Router routes per handler: right function, right topic, unmodified outputs.
  Property theorems.  Model: `WmModel/Route.lean`.  All statements are for every configuration (any number of
  handlers, any sharing of subscriber / publisher objects and topics, any strings), every order in which
  `RunHandlers` walks the handler map, every script of arriving messages and every output shape.
  Helper lemmas first.  (The routing statements are close to the model's definitions – the weight of C08 is on the
  correspondence check; what is genuinely proved is the context algebra and the independence of the map order.)
-/
import WmModel.Route
import WmModel.RouteOld
namespace Wm.Route

/-! ### helper lemmas: context -/

theorem get_withValue_same (c : Ctx) (k : Key) (v : String) : (withValue c k v).get k = v := by
  simp [withValue, Ctx.get]

theorem get_withValue_other (c : Ctx) (k k' : Key) (v : String) (h : k ≠ k') :
    (withValue c k v).get k' = c.get k' := by
  simp [withValue, Ctx.get, h]

/-- the handler's own five values -/
def own (h : HCfg) : Ctx5 := ⟨h.name, h.pubName, h.subName, h.subTopic, h.pubTopic⟩

/-! ### context clause -/

/-- **ctx_values**: for ANY incoming context – fresh, or still carrying the five values of an upstream handler –
    after `addHandlerContext` the five accessors report this handler's name, publisher type name, subscriber type
    name, subscribe topic and publish topic; an empty field is reported as `""`, never as a stale value. -/
theorem ctx_values (h : HCfg) (c : Ctx) : ctx5 (addHandlerContext h c) = own h := by
  simp [ctx5, addHandlerContext, own, get_withValue_same, get_withValue_other]

/-- per accessor -/
theorem ctx_get (h : HCfg) (c : Ctx) :
    (addHandlerContext h c).get .handlerName = h.name ∧ (addHandlerContext h c).get .publisherName = h.pubName ∧
    (addHandlerContext h c).get .subscriberName = h.subName ∧ (addHandlerContext h c).get .subscribeTopic = h.subTopic ∧
    (addHandlerContext h c).get .publishTopic = h.pubTopic := by
  simp [addHandlerContext, get_withValue_same, get_withValue_other]

/-- applying the handler context twice (consumed message returned as output; the same object twice in the slice)
    reports the same five values as applying it once -/
theorem ctx5_addHandlerContext_idem (h : HCfg) (c : Ctx) :
    ctx5 (addHandlerContext h (addHandlerContext h c)) = ctx5 (addHandlerContext h c) := by
  rw [ctx_values, ctx_values]

example : ctx5 (addHandlerContext ⟨"h", 1, "in", "kafka.Subscriber", some 2, "", "kafka.Publisher", 0, false, false⟩
      [(.publishTopic, "upstream-topic"), (.handlerName, "upstream")]) =
    ⟨"h", "kafka.Publisher", "kafka.Subscriber", "in", ""⟩ := by decide

/-- **ctx_in_handler**: inside the handler function the accessors report the handler's own values, whatever context
    the message arrived with -/
theorem ctx_in_handler (h : HCfg) (d : Delivery) : (handleOne h d).inCtx = own h := by
  have := ctx_values h d.ctx
  unfold handleOne
  cases hp : produced h d.shape with
  | none => simpa [hp] using this
  | some outs =>
    cases outs with
    | nil => simpa [hp] using this
    | cons r rs => cases hpub : h.pub <;> simpa [hp, hpub] using this

/-- **ctx_on_produced**: on every produced message, when `Publish` gets it, the accessors report the handler's own
    values – fresh objects, middleware objects and the consumed message returned as an output alike, whatever
    context the consumed message arrived with -/
theorem ctx_on_produced (h : HCfg) (d : Delivery) :
    ∀ call ∈ (handleOne h d).calls, ∀ it ∈ call.items, it.2 = own h := by
  intro call hcall it hit
  have key : ∀ x : Ref, ctx5 (outCtx h (addHandlerContext h d.ctx) x) = own h := by
    intro x
    cases x <;> exact ctx_values h _
  unfold handleOne at hcall
  cases hp : produced h d.shape with
  | none => simp [hp] at hcall
  | some outs =>
    cases outs with
    | nil => simp [hp] at hcall
    | cons r rs =>
      cases hpub : h.pub with
      | none => simp [hp, hpub] at hcall
      | some p =>
        simp [hp, hpub] at hcall
        subst hcall
        simp only [List.mem_cons, List.mem_map] at hit
        rcases hit with rfl | ⟨x, _, rfl⟩
        · exact key r
        · exact key x

/-! ### the defect repaired by 5846d09, kept as a witness (`WmModel/RouteOld.lean`) -/

/-- **witness**: before the fix a no-publisher handler (publish topic `""`) that received a message whose context
    still carried an upstream handler's publish topic reported THAT topic, not its own empty one – the unguarded
    `ctx_values` was false for that code.  Same input as in corpus/C08 and the harness's stale cases. -/
theorem Old.stale_context_shows_through :
    let h : HCfg := ⟨"b", 1, "in", "S", none, "", "message.disabledPublisher", 0, true, false⟩
    let d : Delivery := ⟨1, "in", 1, .outs [], [(.publishTopic, "upstream-topic")], .live⟩
    h.pubTopic = "" ∧ (Old.inCtx h d).pubTopic = "upstream-topic" ∧ Old.inCtx h d ≠ own h ∧
      (handleOne h d).inCtx = own h := by
  decide

/-- the old code agreed with the current one exactly on fields that are non-empty (so the defect needs an empty field) -/
theorem Old.agrees_on_nonempty (h : HCfg) (c : Ctx)
    (h1 : h.name ≠ "") (h2 : h.pubName ≠ "") (h3 : h.subName ≠ "") (h4 : h.subTopic ≠ "") (h5 : h.pubTopic ≠ "") :
    ctx5 (Old.addHandlerContext h c) = own h := by
  simp [ctx5, Old.addHandlerContext, Old.setIf, own, Ctx.get, h1, h2, h3, h4, h5]

/-- **application values never shadow the router's**: whatever the application stores in the message context afterwards
    (in a subscriber decorator, a middleware, the handler's helpers) – also under key texts equal to the router's, like
    "handler_name" – the accessors keep returning what the router put there -/
theorem app_values_never_shadow (c : MixCtx) (app : List (String × String)) (k : Key) :
    MixCtx.get (app.map (fun (n, v) => (AnyKey.app n, v)) ++ c) k = MixCtx.get c k := by
  induction app with
  | nil => rfl
  | cons a rest ih => simp [MixCtx.get, ih]

example : MixCtx.get [(.app "handler_name", "mine"), (.router .handlerName, "h"), (.app "publish_topic", "x")] .handlerName = "h" := by
  decide

/-! ### one message -/

/-- the function invoked is the handler's own, on that message -/
theorem handleOne_fn (h : HCfg) (d : Delivery) : (handleOne h d).fn = h.name ∧ (handleOne h d).mid = d.mid := by
  unfold handleOne
  cases hp : produced h d.shape with
  | none => simp
  | some outs =>
    cases outs with
    | nil => simp
    | cons r rs => cases hpub : h.pub <;> simp

/-- **publishes_only_own**: at most one `Publish` per consumed message; it goes to the handler's own publisher
    object on the handler's own publish topic and carries exactly the objects the chain returned, in that order
    (same objects – `Ref` is object identity – with repetitions kept) -/
theorem publishes_only_own (h : HCfg) (d : Delivery) :
    (handleOne h d).calls.length ≤ 1 ∧
    ∀ call ∈ (handleOne h d).calls,
      h.pub = some call.pub ∧ call.topic = h.pubTopic ∧ produced h d.shape = some (call.items.map (·.1)) := by
  unfold handleOne
  cases hp : produced h d.shape with
  | none => simp
  | some outs =>
    cases outs with
    | nil => simp
    | cons r rs =>
      cases hpub : h.pub with
      | none => simp
      | some p => simp [Function.comp_def]

/-- **a done context changes nothing**: whether the consumed message's context is live, already cancelled, cancelled
    during the call or past its deadline, a function that returns the same thing gets the same treatment – outputs
    handed to the publisher as returned, message acked (C08 never lets the router drop returned messages) -/
theorem done_context_irrelevant (h : HCfg) (d : Delivery) (m : CtxDone) :
    handleOne h { d with done := m } = handleOne h d := rfl

/-- in particular: function returned outputs without error, handler has a publisher ⇒ published and acked, for every
    state of the message's context -/
theorem returned_outputs_published (h : HCfg) (d : Delivery) (p : Nat) (r : Ref) (rs : List Ref)
    (hp : h.pub = some p) (ho : produced h d.shape = some (r :: rs)) :
    (handleOne h d).settle = .ack ∧
    (handleOne h d).calls.map (fun c => (c.pub, c.topic, c.items.map (·.1))) = [(p, h.pubTopic, r :: rs)] := by
  unfold handleOne
  simp [ho, hp, Function.comp_def]

/-- **every produced message keeps its own context**: when `Publish` gets the slice, the context of each element is
    still (a child of) the context THAT object had when the chain returned it – the consumed message its own, every
    other object the one it was created with – never another element's (so values, deadlines and cancellation the
    function attached to one output stay with that output) -/
theorem outputs_keep_own_context (h : HCfg) (d : Delivery) :
    ∀ call ∈ (handleOne h d).calls, call.owners = call.items.map (fun it => some it.1) := by
  intro call hcall
  unfold handleOne at hcall
  cases hp : produced h d.shape with
  | none => simp [hp] at hcall
  | some outs =>
    cases outs with
    | nil => simp [hp] at hcall
    | cons r rs =>
      cases hpub : h.pub with
      | none => simp [hp, hpub] at hcall
      | some p =>
        simp [hp, hpub] at hcall
        subst hcall
        have key : ∀ x : Ref, (addHandlerContextM h (baseCtx ⟨some .consumed, addHandlerContext h d.ctx⟩ x)).owner = some x := by
          intro x; cases x <;> rfl
        simp [contextualise, key, Function.comp_def]

/-- something is published exactly when the handler has a publisher and the chain returned at least one message -/
theorem published_iff (h : HCfg) (d : Delivery) :
    (handleOne h d).calls ≠ [] ↔ ∃ p r rs, h.pub = some p ∧ produced h d.shape = some (r :: rs) := by
  unfold handleOne
  cases hp : produced h d.shape with
  | none => simp
  | some outs =>
    cases outs with
    | nil => simp
    | cons r rs => cases hpub : h.pub <;> simp

/-- **nopub_middleware_outputs_nack**: a handler without publisher whose chain returns messages (its function cannot
    – `fnMute` – so they come from a middleware; or a nil publisher) gets a Nack and nothing is published -/
theorem nopub_middleware_outputs_nack (h : HCfg) (d : Delivery) (hp : h.pub = none)
    (r : Ref) (rs : List Ref) (ho : produced h d.shape = some (r :: rs)) :
    (handleOne h d).settle = .nack ∧ (handleOne h d).calls = [] := by
  unfold handleOne
  simp [ho, hp]

example : (handleOne ⟨"np", 1, "in", "S", none, "", "message.disabledPublisher", 2, true, false⟩ ⟨1, "in", 7, .outs [.fresh 0], [], .live⟩)
    = ⟨7, "np", ⟨"np", "message.disabledPublisher", "S", "in", ""⟩, .nack, []⟩ := by decide
example : (handleOne ⟨"h", 1, "in", "S", some 3, "out", "P", 1, false, false⟩ ⟨1, "in", 7, .outs [.fresh 0, .consumed, .fresh 0], [], .cancelledDuring⟩).calls
    = [⟨3, "out", [(.fresh 0, ⟨"h", "P", "S", "in", "out"⟩), (.consumed, ⟨"h", "P", "S", "in", "out"⟩),
                   (.fresh 0, ⟨"h", "P", "S", "in", "out"⟩), (.mw 0, ⟨"h", "P", "S", "in", "out"⟩)],
        [some (.fresh 0), some .consumed, some (.fresh 0), some (.mw 0)]⟩] := by decide

/-! ### the router -/

/-- **routes_to_own_fn**: handler `h` processes exactly the messages that arrive at its (subscriber, topic), in
    arrival order, each with its own function -/
theorem routes_to_own_fn (h : HCfg) (script : List Delivery) :
    (runHandler h script).map (fun r => (r.mid, r.fn)) =
      (script.filter (listens h)).map (fun d => (d.mid, h.name)) := by
  unfold runHandler
  rw [List.map_map]
  apply List.map_congr_left
  intro d _
  simp [(handleOne_fn h d).1, (handleOne_fn h d).2]

theorem resultsOf_route (order : List HCfg) (script : List Delivery) (h : HCfg) (hm : h ∈ order)
    (hn : (order.map (·.name)).Nodup) : resultsOf h.name (route order script) = runHandler h script := by
  induction order with
  | nil => simp at hm
  | cons g rest ih =>
    simp only [List.map_cons, List.nodup_cons] at hn
    simp only [route, List.map_cons, resultsOf]
    by_cases hg : g.name = h.name
    · rcases List.mem_cons.mp hm with rfl | hr
      · simp
      · exact absurd (hg ▸ List.mem_map.mpr ⟨h, hr, rfl⟩) hn.1
    · rcases List.mem_cons.mp hm with rfl | hr
      · exact absurd rfl hg
      · simp only [hg, if_false]
        exact ih hr hn.2

/-- **the map order of `RunHandlers` does not matter**: for every permutation `order` of the configuration (handler
    names unique, as `AddHandler` enforces), what handler `h` does is `runHandler h script` -/
theorem route_order_irrelevant (cfg order : List HCfg) (script : List Delivery) (hperm : order.Perm cfg)
    (hn : (cfg.map (·.name)).Nodup) (h : HCfg) (hm : h ∈ cfg) :
    resultsOf h.name (route order script) = runHandler h script :=
  resultsOf_route order script h (hperm.mem_iff.mpr hm) ((hperm.map (·.name)).nodup_iff.mpr hn)

/-- **to that handler's function only**: whatever is recorded under handler `g` was done by `g`'s function on a
    message that arrived at `g`'s (subscriber, topic); so a message for another (subscriber, topic) never reaches `g` -/
theorem only_own_function (g : HCfg) (script : List Delivery) :
    ∀ r ∈ runHandler g script, r.fn = g.name ∧ ∃ d ∈ script, d.mid = r.mid ∧ d.sub = g.sub ∧ d.topic = g.subTopic := by
  intro r hr
  unfold runHandler at hr
  rcases List.mem_map.mp hr with ⟨d, hd, rfl⟩
  have hf := List.mem_filter.mp hd
  refine ⟨(handleOne_fn g d).1, d, hf.1, (handleOne_fn g d).2.symm, ?_⟩
  have := hf.2
  simp only [listens, Bool.and_eq_true, beq_iff_eq] at this
  exact this

/-- **subscriptions_bijective**: `RunHandlers` makes one `Subscribe` call per handler, with that handler's
    (subscriber, topic) – whatever the map order -/
theorem subscriptions_bijective (cfg order : List HCfg) (hperm : order.Perm cfg) :
    (subscribeCalls order).Perm (cfg.map fun h => (h.sub, h.subTopic)) ∧ (subscribeCalls order).length = cfg.length := by
  unfold subscribeCalls
  exact ⟨hperm.map _, by rw [List.length_map]; exact hperm.length_eq⟩

/-- non-vacuity: two handlers share subscriber and topic (both get a copy), a third listens elsewhere; started in
    a different order than configured -/
example :
    let a : HCfg := ⟨"a", 1, "t", "S", some 1, "oa", "P", 0, false, false⟩
    let b : HCfg := ⟨"b", 1, "t", "S", none, "", "message.disabledPublisher", 1, true, false⟩
    let c : HCfg := ⟨"c", 2, "t", "S2", some 1, "oc", "P", 0, false, false⟩
    let script : List Delivery := [⟨1, "t", 1, .outs [.fresh 0], [], .deadlineOverrun⟩, ⟨2, "t", 2, .err, [], .live⟩]
    (resultsOf "b" (route [c, b, a] script)).map (fun r => (r.mid, r.fn, r.settle, r.calls.length)) = [(1, "b", .nack, 0)] ∧
    (resultsOf "a" (route [c, b, a] script)).map (fun r => (r.mid, r.fn, r.settle, r.calls.length)) = [(1, "a", .ack, 1)] ∧
    (resultsOf "c" (route [c, b, a] script)).map (fun r => (r.mid, r.fn, r.settle, r.calls.length)) = [(2, "c", .nack, 0)] := by
  decide

/-! ### RunHandlers as an operation: handlers added to a running router, decorators applied exactly once -/

/-- a started handler is not touched by any later operation (`if h.started { continue }`) -/
theorem rstep_keeps_started (s : RSt) (o : ROp) (x : RH) (hx : x ∈ s.hs) (hs : x.started = true) :
    x ∈ (rstep s o).hs := by
  cases o with
  | addHandler h => exact List.mem_append_left _ hx
  | pubDec i => exact hx
  | subDec i => exact hx
  | runHandlers => exact List.mem_map.mpr ⟨x, hx, by simp [startRH, hs]⟩

theorem rexec_keeps_started (s : RSt) (ops : List ROp) (x : RH) (hx : x ∈ s.hs) (hs : x.started = true) :
    x ∈ (rexec s ops).hs := by
  induction ops generalizing s with
  | nil => exact hx
  | cons o rest ih => exact ih (rstep s o) (rstep_keeps_started s o x hx hs)

/-- **RunHandlers is idempotent**: calling it again (as often as one likes) changes nothing -/
theorem runHandlers_idempotent (s : RSt) : rstep (rstep s .runHandlers) .runHandlers = rstep s .runHandlers := by
  simp only [rstep, List.map_map]
  congr 1
  apply List.map_congr_left
  intro h _
  by_cases hs : h.started = true <;> simp [startRH, hs]

/-- **each decorator exactly once per handler**: for every program `pre ++ runHandlers :: post` – any interleaving of
    AddHandler, decorator registrations and earlier / later RunHandlers calls – a handler that is added and not yet
    started when that call happens is from then on, whatever `post` does (more handlers, more decorators, RunHandlers
    again and again), wrapped by exactly the publisher decorators registered in `pre`, each once, first added first on
    the way out – none at all when it was registered with a nil publisher (there is nothing to decorate) – and exactly
    the subscriber decorators of `pre`, each once, first added first on the way in. -/
theorem decorated_exactly_once (pre post : List ROp) (x : RH)
    (hx : x ∈ (rexec {} pre).hs) (hns : x.started = false) (hp : x.pubPath = []) (hsp : x.subPath = []) :
    (⟨x.cfg, true, if x.cfg.nilPub then [] else (rexec {} pre).pd, (rexec {} pre).sd⟩ : RH) ∈
      (rexec {} (pre ++ .runHandlers :: post)).hs := by
  have h1 : rexec {} (pre ++ .runHandlers :: post) = rexec (rstep (rexec {} pre) .runHandlers) post := by
    simp [rexec, List.foldl_append]
  rw [h1]
  apply rexec_keeps_started _ post _ _ rfl
  refine List.mem_map.mpr ⟨x, hx, ?_⟩
  cases x
  simp_all [startRH]

/-- **no publisher ⇒ not decorated**: whatever the program, a handler registered with a nil publisher never has a
    publisher decorator around "its publisher" – it keeps `h.publisher == nil`, so `publishProducedMessages` answers
    ErrOutputInNoPublisherHandler (Nack, nothing published) and `handler.run` has nothing to Close -/
theorem nil_publisher_never_decorated (ops : List ROp) :
    ∀ x ∈ (rexec {} ops).hs, x.cfg.nilPub = true → x.pubPath = [] := by
  suffices h : ∀ (s : RSt), (∀ x ∈ s.hs, x.cfg.nilPub = true → x.pubPath = []) →
      ∀ x ∈ (rexec s ops).hs, x.cfg.nilPub = true → x.pubPath = [] from
    h {} (by intro x hx; cases hx)
  induction ops with
  | nil => intro s hs; exact hs
  | cons o rest ih =>
    intro s hs
    apply ih (rstep s o)
    intro x hx hn
    cases o with
    | addHandler h =>
      rcases List.mem_append.mp hx with h1 | h1
      · exact hs x h1 hn
      · simp at h1; subst h1; rfl
    | pubDec i => exact hs x hx hn
    | subDec i => exact hs x hx hn
    | runHandlers =>
      rcases List.mem_map.mp hx with ⟨y, hy, rfl⟩
      by_cases hys : y.started = true
      · simp only [startRH, hys, if_true] at hn ⊢; exact hs y hy hn
      · have hyn : y.cfg.nilPub = true := by simpa [startRH, hys] using hn
        simp only [startRH, hys, hyn]
        exact hs y hy hyn

/-- a handler never gets a non-empty path before it is started (so the side conditions of `decorated_exactly_once`
    hold for every not yet started handler of every reachable state) -/
theorem unstarted_undecorated (ops : List ROp) :
    ∀ x ∈ (rexec {} ops).hs, x.started = false → x.pubPath = [] ∧ x.subPath = [] := by
  suffices h : ∀ (s : RSt), (∀ x ∈ s.hs, x.started = false → x.pubPath = [] ∧ x.subPath = []) →
      ∀ x ∈ (rexec s ops).hs, x.started = false → x.pubPath = [] ∧ x.subPath = [] from
    h {} (by intro x hx; cases hx)
  induction ops with
  | nil => intro s hs; exact hs
  | cons o rest ih =>
    intro s hs
    apply ih (rstep s o)
    intro x hx hst
    cases o with
    | addHandler h =>
      rcases List.mem_append.mp hx with h1 | h1
      · exact hs x h1 hst
      · simp at h1; subst h1; exact ⟨rfl, rfl⟩
    | pubDec i => exact hs x hx hst
    | subDec i => exact hs x hx hst
    | runHandlers =>
      rcases List.mem_map.mp hx with ⟨y, hy, rfl⟩
      by_cases hys : y.started = true
      · simp [startRH, hys] at hst
      · simp [startRH, hys] at hst

/-- a `RunHandlers` call that fails part-way (a publisher decorator returned an error): the handlers in `p` – whichever
    the map order put before the failing one – were started, the others are untouched (a failed
    `decorateHandlerPublisher` commits nothing) -/
def rstepPartial (p : RH → Bool) (s : RSt) : RSt :=
  { s with hs := s.hs.map fun h => if p h then startRH s h else h }

/-- **a failed attempt followed by the retry = one call that never failed**: whatever subset the failed attempt got
    started, after the retry every handler is started and decorated exactly as by a single successful `RunHandlers` -/
theorem failed_attempt_then_retry (p : RH → Bool) (s : RSt) :
    rstep (rstepPartial p s) .runHandlers = rstep s .runHandlers := by
  simp only [rstep, rstepPartial, List.map_map]
  congr 1
  apply List.map_congr_left
  intro h _
  by_cases hp : p h = true <;> by_cases hs : h.started = true <;> simp [startRH, hp, hs]

/-- non-vacuity: decorator 7, handler a, Run; decorator 8 and handler b added to the running router, RunHandlers three
    times: a keeps [7], b gets [7, 8] once -/
example :
    let a : HCfg := ⟨"a", 1, "t", "S", some 1, "oa", "P", 0, false, false⟩
    let b : HCfg := ⟨"b", 1, "t", "S", some 1, "ob", "P", 0, false, false⟩
    ((rexec {} [.pubDec 7, .subDec 3, .addHandler a, .runHandlers, .pubDec 8, .addHandler b,
                .runHandlers, .runHandlers, .runHandlers]).hs.map fun h => (h.cfg.name, h.pubPath, h.subPath)) =
      [("a", [7], [3]), ("b", [7, 8], [3])] := by decide

/-- non-vacuity: the same with handler b registered with a nil publisher: the publisher decorators skip it, the
    subscriber decorators do not -/
example :
    let a : HCfg := ⟨"a", 1, "t", "S", some 1, "oa", "P", 0, false, false⟩
    let b : HCfg := ⟨"b", 1, "t", "S", none, "ob", "<nil>", 0, false, true⟩
    ((rexec {} [.pubDec 7, .subDec 3, .addHandler a, .addHandler b, .runHandlers, .runHandlers]).hs.map
      fun h => (h.cfg.name, h.pubPath, h.subPath)) = [("a", [7], [3]), ("b", [], [3])] := by decide

end Wm.Route
