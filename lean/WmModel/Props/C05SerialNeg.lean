/-
  C05, publisher order: the hypothesis "blocking mode" of `blocking_deliveries_in_publish_order` (Props/C05Serial.lean) is needed.
  Without BlockPublishUntilSubscriberAck a Publish call returns as soon as its senders are started; the senders of two calls –
  even of two calls made one after the other by the same publisher – compete for the subscription's `sending` mutex, and the
  second may win.  The run below is executed by the model (`decide`), the statement is what the code's documentation says:
  GoChannel does not guarantee order unless publishing blocks.
-/
import WmModel.Props.C05Serial
namespace Wm.GcProd
open Wm Wm.Lts

/-- one subscription; Publish [7] runs to its return, then Publish [8] runs to its return (non-blocking mode); the sender of 8
    takes the `sending` mutex first and its copy is delivered and acked before the copy of 7 is handed over -/
def reorderRun : List Action :=
  [.reg (.newSub 0), .reg (.step 0), .reg (.step 0), .reg (.step 0), .reg (.step 0), .reg (.step 0), .reg (.step 0),
   .reg (.newPub 0 [7] none), .reg (.step 2), .reg (.step 2), .reg (.step 2), .reg (.step 2), .reg (.step 2), .reg (.step 2), .reg (.step 2),
   .reg (.newPub 0 [8] none), .reg (.step 3), .reg (.step 3), .reg (.step 3), .reg (.step 3), .reg (.step 3), .reg (.step 3), .reg (.step 3),
   .sub (.sLock 1), .sub .sCheck, .sub .sTop, .sub .sSend, .sub (.settle 0 .ack), .sub .sObsAck,
   .sub (.sLock 0), .sub .sCheck, .sub .sTop, .sub .sSend]

/-- **non-blocking mode does not keep the publisher's order**: both Publish calls have returned one after the other
    (`retOk`, the second was only issued after the first had returned), the senders were started in publish order (`snd`), yet
    the first delivery to the subscription is the second message -/
theorem nonblocking_order_not_guaranteed_witness :
    ∃ s q, exec (sys 0 0 ⟨false, false⟩) (init ⟨false, false⟩) reorderRun = some s ∧ s.sub = some q ∧
      s.reg.closingSig = false ∧ s.snd = [(some 0, 7, 0), (some 1, 8, 1)] ∧
      s.reg.ths[2]? = some (.pub 0 [] .retOk none) ∧ s.reg.ths[3]? = some (.pub 0 [] .retOk none) ∧
      q.copies.map (·.pub) = [1, 0] := by
  refine ⟨_, _, rfl, rfl, ?_, ?_, ?_, ?_, ?_⟩ <;> decide

end Wm.GcProd
