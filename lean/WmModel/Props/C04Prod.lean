/-
  C04, delivery – end to end on the composition M_prod = M_reg ∥ M_sub(me) (`me` an arbitrary subscription id).

  "Every message whose Publish call succeeded is delivered … to every subscription of that topic that existed when Publish was
  called and stays open, and to no subscription of another topic."

  * `send_starts_sender_for_registered` : the `sendMessage` step for message `m` of a Publish on topic `t`, taken while `me` is
    registered for `t`, starts a sender for `m` in `me`'s M_sub instance (publication `nextPub`) – in every configuration.
  * `send_starts_nothing_for_other_topics` : … and starts nothing for `me` when `me` is registered for another topic.
  * `no_sender_is_lost` : every sender ever started for `me` (by a Publish or by the persistent replay) is still waiting for the
    subscription's `sending` mutex, is the one holding it, or has ended (M_sub invariant `AccOk`) – and, with `Props/C04Exit.lean`, it
    ends only `acked` after a copy of its publication was delivered, received and acked, or because the subscription is closing /
    closed: a message sent to an open subscription is not given up before its Ack.
  * `delivery_witness` : a run in which all of this happens (hypotheses satisfiable).
-/
import WmModel.Lemmas.GcSubAcc
import WmModel.Props.C05Serial
namespace Wm.GcSub
open Wm Wm.Lts

theorem reach_acc (cap : Nat) : ∀ s, Reach (sys cap) s → AccOk s :=
  inv_of_step' (sys cap) AccOk (acc_init cap) (fun s a s' hr h ha => acc_step s a s' (reach_ctl cap s hr) h ha)

end Wm.GcSub

namespace Wm.GcProd
open Wm Wm.Lts

/-- **a message handed over while `me` is registered for its topic gets a sender in `me`'s subscription** -/
theorem send_starts_sender_for_registered (me cap : Nat) (cfg : GcReg.Cfg) (s s' : St) (h : Reach (sys me cap cfg) s)
    (i t m : Nat) (rest : List Nat) (ao : Option (Nat × Nat))
    (hth : s.reg.ths[i]? = some (.pub t (m :: rest) .send ao)) (hsub : (me, t) ∈ s.reg.subs)
    (hact : act me cap s (.reg (.step i)) = some s') :
    ∃ q, s.sub = some q ∧ s'.sub = some (spawnSt q) ∧ s'.snd = s.snd ++ [(some s.reg.disp.length, m, q.nextPub)] := by
  have hl := reach_link me cap cfg s h
  have haux := GcReg.reach_aux cfg s.reg (reach_reg me cap cfg s h)
  have hlt : me < s.reg.nextSid := haux.1 me t hsub
  have hsome : s.sub.isSome = true := hl.created.mpr hlt
  cases hq : s.sub with
  | none => rw [hq] at hsome; cases hsome
  | some q =>
    refine ⟨q, rfl, ?_⟩
    have hcont : (GcReg.subsOf s.reg t).contains me = true := by
      simp only [GcReg.subsOf, List.contains_iff_mem, List.mem_map, List.mem_filter]
      exact ⟨(me, t), ⟨hsub, by simp⟩, rfl⟩
    simp only [act] at hact
    cases hr : GcReg.act s.reg (.step i) with
    | none => simp [hr] at hact
    | some r' =>
      simp only [hr] at hact
      simp only [effect, hth, hcont, if_true, spawn1, hq] at hact
      injection hact with hact; subst hact
      exact ⟨rfl, rfl⟩

/-- **… and a subscription of another topic gets nothing** -/
theorem send_starts_nothing_for_other_topics (me cap : Nat) (cfg : GcReg.Cfg) (s s' : St) (h : Reach (sys me cap cfg) s)
    (i t t' m : Nat) (rest : List Nat) (ao : Option (Nat × Nat))
    (hth : s.reg.ths[i]? = some (.pub t (m :: rest) .send ao)) (hsub : (me, t') ∈ s.reg.subs) (hne : t' ≠ t)
    (hact : act me cap s (.reg (.step i)) = some s') : s'.sub = s.sub ∧ s'.snd = s.snd := by
  have haux := GcReg.reach_aux cfg s.reg (reach_reg me cap cfg s h)
  have hcont : (GcReg.subsOf s.reg t).contains me = false := by
    cases hc : (GcReg.subsOf s.reg t).contains me with
    | false => rfl
    | true =>
      exfalso
      simp only [GcReg.subsOf, List.contains_iff_mem, List.mem_map, List.mem_filter] at hc
      obtain ⟨x, ⟨hx1, hx2⟩, hx3⟩ := hc
      obtain ⟨x1, x2⟩ := x
      simp at hx2 hx3
      have hmt : (me, t) ∈ s.reg.subs := by rw [← hx3, ← hx2]; exact hx1
      exact hne (haux.2.2.2.1 me t' t hsub hmt)
  simp only [act] at hact
  cases hr : GcReg.act s.reg (.step i) with
  | none => simp [hr] at hact
  | some r' =>
    simp only [hr] at hact
    simp only [effect, hth, hcont] at hact
    simp at hact; subst hact
    exact ⟨rfl, rfl⟩

/-- **no sender goroutine is lost**: every sender ever started for `me` is waiting for the mutex, holding it, or has ended -/
theorem no_sender_is_lost (me cap : Nat) (cfg : GcReg.Cfg) (s : St) (h : Reach (sys me cap cfg) s) (q : GcSub.St)
    (hq : s.sub = some q) (od : Option Nat) (m p : Nat) (hm : (od, m, p) ∈ s.snd) : GcSub.Accounted q p := by
  have hl := reach_link me cap cfg s h
  have hp : p ∈ s.snd.map (·.2.2) := List.mem_map.mpr ⟨(od, m, p), hm, rfl⟩
  rw [hl.pubs q hq] at hp
  exact GcSub.reach_acc cap q (reach_sub me cap cfg s h q hq) p (List.mem_range.mp hp)

/-- the run of `prod_witness` (Props/C05Prod.lean): the sender of message 7 was started, delivered, acked and ended `acked` -/
theorem delivery_witness :
    ∃ s q, exec (sys 0 0 ⟨true, false⟩) (init ⟨true, false⟩) prodRun = some s ∧ s.sub = some q ∧
      s.snd = [(some 0, 7, 0)] ∧ GcSub.Accounted q 0 ∧ q.exits = [(0, .acked)] := by
  refine ⟨_, _, rfl, rfl, ?_, ?_, ?_⟩
  · decide
  · exact Or.inr (Or.inr ⟨.acked, by decide⟩)
  · decide

end Wm.GcProd
