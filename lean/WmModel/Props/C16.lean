/-
  C16 – value semantics: property theorems.

  Statement: "Copy() yields a message that Equals the original and owns its metadata, and Equals is true
  exactly when UUID, payload bytes and the complete metadata key/value set coincide.  Unmarshal after Marshal
  is the identity for the JSON and Protobuf CQRS marshalers (and the name read from the message equals the
  name of the value), for the forwarder envelope (destination topic, UUID, payload, metadata) and for
  request-reply replies (result and error text).  This holds for all payload bytes and all valid-UTF-8 strings."

  clause                                   theorem(s)
  Equals exactly when …                    equals_iff, equals_iff_entries (+ equals_refl, equals_symm, equals_trans, equalsLoop_perm)
  Copy Equals the original                 copy_equals (value level), heap_copy_equals (through the heap)
  Copy owns its metadata                   copy_owns_metadata, copy_writable (nil originals included), copy_fresh_store,
                                           reachable_invariants (+ alias_shares as the contrast)
  CQRS Marshal/Unmarshal identity + name   marshal_round_trip, name_from_message, marshal_shape, marshal_isSome_iff, fallback_round_trips
  forwarder envelope identity              envelope_round_trip, envelope_round_trip_total, envelope_round_trip_equals, wrap_ok_iff,
                                           wrap_empty_destination, publisher_round_trip
                                           (Props/C16Json.lean: json_envelope_round_trip – no codec hypothesis, modelled JSON codec)
  replies: result and error text           reply_round_trip, replyErrOf_replyMeta, reply_shape
  the defect that was repaired (D1)        Old.equals_witness, Old.equals_not_iff
  ties to the source of this run           Props/C16Tie.lean

  All quantify over arbitrary strings (Lean `String` = valid UTF-8), byte lists and maps of any size.  The codec
  theorems assume only `Codec.RoundTrips` for the library codec (encoding/json, protobuf) – a hypothesis that is
  satisfiable (`Wire.wire_round_trips`) and that the harness *tests*; each has a concrete instance next to it.
-/
import WmModel.Value
import WmModel.ValueCodec
import WmModel.Lemmas.Value
import WmModel.Lemmas.ValueHeap
import WmModel.Lemmas.ValueWire
namespace Wm.Value

/-! ## Equals -/

/-- **Equals is true exactly when UUID, payload bytes and the complete metadata key/value set coincide**
    (for Go maps, i.e. association lists without duplicate keys; nil ≡ empty for payload and map).
    The direction `→` needs the counting argument: the loop only shows `a ⊆ b`; together with
    `len a = len b` and the absence of duplicate keys this forces the key sets to be equal. -/
theorem equals_iff (a b : Msg) (ha : a.WF) (hb : b.WF) :
    equals a b = true ↔ a.uuid = b.uuid ∧ a.bytes = b.bytes ∧ ∀ k, lookup a.md k = lookup b.md k := by
  unfold Msg.WF at ha hb
  constructor
  · intro h
    unfold equals at h
    by_cases hu : a.uuid = b.uuid
    · by_cases hl : a.md.length = b.md.length
      · cases hloop : equalsLoop b.md a.md with
        | false => simp [hu, hl, hloop] at h
        | true =>
          simp [hu, hl, hloop] at h
          refine ⟨hu, h, ?_⟩
          have hincl := equalsLoop_true_iff.mp hloop
          -- keys a ⊆ keys b
          have hsub : ∀ x ∈ keys a.md, x ∈ keys b.md := by
            intro x hx
            obtain ⟨v, hv⟩ := lookup_isSome_of_mem_keys hx
            have := hincl x v (lookup_some_mem hv)
            apply Classical.byContradiction
            intro hnx
            rw [lookup_none_iff.mpr hnx] at this
            exact absurd this (by simp)
          -- counting: keys b ⊆ keys a
          have hrev := subset_of_nodup_subset_length_le ha hsub (by rw [keys_length, keys_length]; omega)
          intro k
          cases hak : lookup a.md k with
          | some v => exact (hincl k v (lookup_some_mem hak)).symm
          | none =>
            have hnk : k ∉ keys a.md := lookup_none_iff.mp hak
            exact (lookup_none_iff.mpr (fun hk => hnk (hrev k hk))).symm
      · simp [hu, hl] at h
    · simp [hu] at h
  · rintro ⟨hu, hp, hk⟩
    have hloop : equalsLoop b.md a.md = true := by
      apply equalsLoop_true_iff.mpr
      intro k v hkv
      rw [← hk k]
      exact lookup_of_mem ha hkv
    have hkeys : ∀ x, x ∈ keys a.md ↔ x ∈ keys b.md := by
      intro x
      have h1 := @lookup_none_iff a.md x
      have h2 := @lookup_none_iff b.md x
      rw [hk x] at h1
      constructor
      · intro hx; apply Classical.byContradiction; intro hn; exact (h1.mp (h2.mpr hn)) hx
      · intro hx; apply Classical.byContradiction; intro hn; exact (h2.mp (h1.mpr hn)) hx
    have hl : a.md.length = b.md.length := by
      have h1 := nodup_subset_length_le ha (fun x hx => (hkeys x).mp hx)
      have h2 := nodup_subset_length_le hb (fun x hx => (hkeys x).mpr hx)
      rw [keys_length, keys_length] at h1 h2
      omega
    simp [equals, hu, hl, hloop, hp]

example : equals ⟨"u", none, some [("a", ""), ("b", "x")]⟩ ⟨"u", some [], some [("b", "x"), ("a", "")]⟩ = true := by decide
example : Msg.WF ⟨"u", none, some [("a", ""), ("b", "x")]⟩ := by decide

/-- "the complete metadata key/value set coincides", said with entries instead of lookups: for maps the two readings agree -/
theorem lookup_eq_iff_same_entries (a b : Meta) (ha : NoDupKeys a) (hb : NoDupKeys b) :
    (∀ k, lookup a k = lookup b k) ↔ (∀ k v, (k, v) ∈ a ↔ (k, v) ∈ b) := by
  constructor
  · intro h k v
    constructor
    · intro hm; exact lookup_some_mem (by rw [← h k]; exact lookup_of_mem ha hm)
    · intro hm; exact lookup_some_mem (by rw [h k]; exact lookup_of_mem hb hm)
  · intro h k
    cases hak : lookup a k with
    | some v => exact (lookup_of_mem hb ((h k v).mp (lookup_some_mem hak))).symm
    | none =>
      cases hbk : lookup b k with
      | none => rfl
      | some v =>
        have := lookup_of_mem ha ((h k v).mpr (lookup_some_mem hbk))
        rw [hak] at this; exact absurd this (by simp)

/-- `equals_iff` with the metadata clause as equality of the sets of key/value pairs -/
theorem equals_iff_entries (a b : Msg) (ha : a.WF) (hb : b.WF) :
    equals a b = true ↔ a.uuid = b.uuid ∧ a.bytes = b.bytes ∧ ∀ k v, (k, v) ∈ a.md ↔ (k, v) ∈ b.md := by
  rw [equals_iff a b ha hb, lookup_eq_iff_same_entries a.md b.md ha hb]

theorem equals_refl (a : Msg) (ha : a.WF) : equals a a = true :=
  (equals_iff a a ha ha).mpr ⟨rfl, rfl, fun _ => rfl⟩

theorem equals_symm (a b : Msg) (ha : a.WF) (hb : b.WF) : equals a b = equals b a := by
  have flip : ∀ a b : Msg, a.WF → b.WF → equals a b = true → equals b a = true := by
    intro a b ha hb h
    obtain ⟨hu, hp, hk⟩ := (equals_iff a b ha hb).mp h
    exact (equals_iff b a hb ha).mpr ⟨hu.symm, hp.symm, fun k => (hk k).symm⟩
  cases hab : equals a b <;> cases hba : equals b a <;> try rfl
  · rw [flip b a hb ha hba] at hab; exact hab.symm
  · rw [flip a b ha hb hab] at hba; exact hba

theorem equals_trans (a b c : Msg) (ha : a.WF) (hb : b.WF) (hc : c.WF)
    (hab : equals a b = true) (hbc : equals b c = true) : equals a c = true := by
  obtain ⟨u1, p1, k1⟩ := (equals_iff a b ha hb).mp hab
  obtain ⟨u2, p2, k2⟩ := (equals_iff b c hb hc).mp hbc
  exact (equals_iff a c ha hc).mpr ⟨u1.trans u2, p1.trans p2, fun k => (k1 k).trans (k2 k)⟩

example : equals ⟨"u", some [1], some [("k", "v")]⟩ ⟨"u", some [1], some [("k", "w")]⟩ = false := by decide

/-- Go ranges over a map in an unspecified order: the verdict of the loop does not depend on it. -/
theorem equalsLoop_perm {other m₁ m₂ : Meta} (h : m₁.Perm m₂) : equalsLoop other m₁ = equalsLoop other m₂ := by
  have key : ∀ m₁ m₂ : Meta, m₁.Perm m₂ → equalsLoop other m₁ = true → equalsLoop other m₂ = true := by
    intro m₁ m₂ hp h1
    apply equalsLoop_true_iff.mpr
    intro k v hkv
    exact equalsLoop_true_iff.mp h1 k v (hp.mem_iff.mpr hkv)
  cases h1 : equalsLoop other m₁ <;> cases h2 : equalsLoop other m₂ <;> try rfl
  · rw [key m₂ m₁ h.symm h2] at h1; exact h1.symm
  · rw [key m₁ m₂ h h1] at h2; exact h2

example : [("a", "1"), ("b", "2")].Perm [("b", "2"), ("a", "1")] := List.Perm.swap ..

/-! ### the repaired defect D1: comparing values only (missing key reads as "") is not the property -/

theorem Old.equals_witness : ∃ a b : Msg, a.WF ∧ b.WF ∧
    Old.equals a b = true ∧ ∃ k, lookup a.md k ≠ lookup b.md k :=
  ⟨⟨"u", none, some [("a", "")]⟩, ⟨"u", none, some [("b", "")]⟩, by decide, by decide, by decide, "a", by decide⟩

/-- on that input the unrepaired algorithm and the repaired one differ -/
theorem Old.equals_not_iff :
    Old.equals ⟨"u", none, some [("a", "")]⟩ ⟨"u", none, some [("b", "")]⟩ = true ∧
    Value.equals ⟨"u", none, some [("a", "")]⟩ ⟨"u", none, some [("b", "")]⟩ = false := by decide

/-! ## Copy (value level) -/

theorem copyMsg_wf (m : Msg) : (copyMsg m).WF := by
  unfold Msg.WF copyMsg Msg.md
  simp only [Option.getD_some]
  exact setAll_noDup (by decide) m.md

/-- **Copy() yields a message that Equals the original** (both ways round) -/
theorem copy_equals (m : Msg) (hm : m.WF) : equals (copyMsg m) m = true ∧ equals m (copyMsg m) = true := by
  have hc := copyMsg_wf m
  have h : equals (copyMsg m) m = true := by
    apply (equals_iff _ _ hc hm).mpr
    refine ⟨rfl, rfl, ?_⟩
    intro k
    have := lookup_setAll hm [] k
    simp only [copyMsg, Msg.md, Option.getD_some]
    simp only [Msg.md, setAll] at this
    rw [this]
    cases lookup (m.metadata.getD []) k <;> simp [lookup]
  exact ⟨h, (equals_symm _ _ hm hc).trans h⟩

example : copyMsg ⟨"u", some [0, 255], some [("k", "v"), ("", "")]⟩ = ⟨"u", some [0, 255], some [("k", "v"), ("", "")]⟩ := by decide
/-- the copy of a message with nil metadata has an (empty) map of its own -/
example : (copyMsg ⟨"u", none, none⟩).metadata = some [] := by decide

/-! ## Copy through the heap: the copy owns its metadata -/

open Heap in
/-- what `Copy` allocates: the new object (index `h.objs.length`) refers to a store that did not exist before,
    no existing object refers to it, and every existing object and store is left as it was -/
theorem copy_fresh_store (h h' : Heap) (i : Nat) (hw : h.WF) (hc : h.copy i = some h') :
    h'.refOf h.objs.length = some h.stores.length ∧
    (∀ x, x < h.objs.length → h'.refOf x ≠ some h.stores.length) ∧
    (∀ x, x < h.objs.length → h'.view x = h.view x) := by
  obtain ⟨m, hv, hobjs, hlen, hold, hnew⟩ := copy_spec hc
  have hx_old : ∀ x, x < h.objs.length → h'.objs[x]? = h.objs[x]? := by
    intro x hx; rw [hobjs, List.getElem?_append_left hx]
  refine ⟨?_, ?_, ?_⟩
  · simp [refOf, hobjs]
  · intro x hx hr
    have : h.refOf x = some h.stores.length := by
      simpa [refOf, hx_old x hx] using hr
    have := refOf_lt_of_wf hw this
    omega
  · intro x hx
    apply view_congr (hx_old x hx)
    intro a ha
    exact hold a (refOf_lt_of_wf hw ha)

open Heap in
/-- **the copy owns its metadata**: after `c := m.Copy()`, any series of writes through the copy leaves the
    original – and every other message that existed – exactly as it was, and any series of writes through the
    original (or any other existing message) leaves the copy exactly as it was. -/
theorem copy_owns_metadata (h h' : Heap) (i : Nat) (hw : h.WF) (hc : h.copy i = some h') :
    (∀ ws x, x < h.objs.length → (h'.setMany h.objs.length ws).view x = h'.view x) ∧
    (∀ ws x, x < h.objs.length → (h'.setMany x ws).view h.objs.length = h'.view h.objs.length) := by
  obtain ⟨hj, hold, _⟩ := copy_fresh_store h h' i hw hc
  constructor
  · intro ws x hx
    apply setMany_view_of_ref_ne
    intro a ha
    rw [hj] at ha; cases ha
    exact hold x hx
  · intro ws x hx
    apply setMany_view_of_ref_ne
    intro a ha hja
    rw [hj] at hja; cases hja
    exact hold x hx ha

open Heap in
/-- **Copy() yields a message that Equals the original**, through the heap: right after the call both
    `copy.Equals(orig)` and `orig.Equals(copy)` hold, and the original is unchanged -/
theorem heap_copy_equals (h h' : Heap) (i : Nat) (hw : h.WF) (hm : h.Maps) (hc : h.copy i = some h') :
    ∃ o, h.view i = some o ∧ h'.view i = some o ∧ h'.view h.objs.length = some (copyMsg o) ∧
      equals (copyMsg o) o = true ∧ equals o (copyMsg o) = true := by
  obtain ⟨m, hv, hobjs, hlen, hold, hnew⟩ := copy_spec hc
  have hi : i < h.objs.length := by
    unfold view at hv
    cases ho : h.objs[i]? with
    | none => simp [ho] at hv
    | some o => exact (List.getElem?_eq_some_iff.mp ho).1
  have hvi : h'.view i = some m := by
    rw [(copy_fresh_store h h' i hw hc).2.2 i hi, hv]
  have hvj : h'.view h.objs.length = some (copyMsg m) := by
    simp [view, hobjs, hnew, copyMsg, setAll]
  exact ⟨m, hv, hvi, hvj, copy_equals m (view_wf hm hv)⟩

open Heap in
/-- **the copy owns a usable map, whatever the original looked like** – in particular when the original's
    `Metadata` is nil (struct literal, `msg.Metadata = nil`, an envelope decoded from `"metadata": null`):
    `copy.Metadata.Set(k, v)` does not panic, the copy then holds `v` under `k`, and the original is untouched -/
theorem copy_writable (h h' : Heap) (i : Nat) (hw : h.WF) (hc : h.copy i = some h') (k v : String) :
    ∃ g c, h'.setMeta h.objs.length k v = .ok g ∧ g.view h.objs.length = some c ∧ get c.md k = v ∧
      c.metadata ≠ none ∧ g.view i = h.view i := by
  obtain ⟨m, hv, hobjs, hlen, hold, hnew⟩ := copy_spec hc
  obtain ⟨hj, holdref, hviews⟩ := copy_fresh_store h h' i hw hc
  have hi : i < h.objs.length := by
    unfold view at hv
    cases ho : h.objs[i]? with
    | none => simp [ho] at hv
    | some o => exact (List.getElem?_eq_some_iff.mp ho).1
  have hoj : h'.objs[h.objs.length]? = some ⟨m.uuid, m.payload, some h.stores.length⟩ := by
    simp [hobjs]
  refine ⟨h'.write h.stores.length k v, ⟨m.uuid, m.payload, some (set (h'.store h.stores.length) k v)⟩, ?_, ?_, ?_, ?_, ?_⟩
  · simp [setMeta, hoj]
  · have hlt : h.stores.length < h'.stores.length := by omega
    simp [view, hoj, store_write_same h' hlt]
  · simp [Msg.md, get, lookup_set]
  · simp
  · rw [view_write_of_ref_ne h' (holdref i hi), hviews i hi]

/-- the nil case, evaluated: the copy of `&Message{UUID: "u"}` takes a write; the original still has no map -/
example :
    let h := (step (step Heap.empty (.lit "u" none)).1 (.copy 0)).1
    (step h (.set 1 "k" "v")).2 = .done ∧ (step h (.set 0 "k" "v")).2 = .panic ∧
    ((step h (.set 1 "k" "v")).1.view 0).map (·.metadata) = some none := by
  decide

/-- contrast (non-vacuity of "owns"): a shallow struct copy shares the map – a write through it shows in the original -/
theorem alias_shares :
    let h := (step (step Heap.empty (.new "u" none)).1 (.alias 0)).1
    (h.setMany 1 [("k", "v")]).view 0 = some ⟨"u", none, some [("k", "v")]⟩ ∧ h.view 0 = some ⟨"u", none, some []⟩ := by
  decide

/-- the same program with `Copy` instead: the original keeps its empty map -/
example :
    let h := (step (step Heap.empty (.new "u" none)).1 (.copy 0)).1
    (h.setMany 1 [("k", "v")]).view 0 = some ⟨"u", none, some []⟩ ∧
    (h.setMany 1 [("k", "v")]).view 1 = some ⟨"u", none, some [("k", "v")]⟩ := by
  decide

/-- the invariants hold in every heap a program can build, so the theorems above apply to all of them -/
theorem exec_invariants (ops : List Op) (h : Heap) (hw : h.WF) (hm : h.Maps) :
    (exec h ops).WF ∧ (exec h ops).Maps := by
  induction ops generalizing h with
  | nil => exact ⟨hw, hm⟩
  | cons o rest ih =>
    have hstep : (step h o).1.WF ∧ (step h o).1.Maps := by
      cases o with
      | new u p => exact ⟨Heap.wf_alloc hw u p, Heap.maps_alloc hm u p⟩
      | lit u p => exact ⟨Heap.wf_lit hw u p, hm⟩
      | copy i =>
        simp only [step]
        cases hc : h.copy i with
        | none => exact ⟨hw, hm⟩
        | some h' =>
          have := Heap.wf_copy hw hc
          have := Heap.maps_copy hm hc
          simp only
          split <;> exact ⟨‹_›, ‹_›⟩
      | alias i =>
        simp only [step]
        cases hc : h.alias i with
        | none => exact ⟨hw, hm⟩
        | some h' =>
          refine ⟨Heap.wf_alias hw hc, ?_⟩
          unfold Heap.alias at hc
          cases ho : h.objs[i]? with
          | none => simp [ho] at hc
          | some o => simp only [ho, Option.map_some, Option.some.injEq] at hc; subst hc; exact hm
      | set i k v =>
        simp only [step, Heap.setMeta]
        cases ho : h.objs[i]? with
        | none => exact ⟨hw, hm⟩
        | some o =>
          cases hr : o.ref with
          | none => simp only [hr]; exact ⟨hw, hm⟩
          | some a => simp only [hr]; exact ⟨Heap.wf_write hw a k v, Heap.maps_write hm a k v⟩
      | get i k => simp only [step]; split <;> exact ⟨hw, hm⟩
      | equals i j => simp only [step]; split <;> exact ⟨hw, hm⟩
      | setUuid i u =>
        simp only [step, Heap.setUuid]
        cases ho : h.objs[i]? with
        | none => exact ⟨hw, hm⟩
        | some o => exact ⟨Heap.wf_setObj hw ho rfl, hm⟩
      | setPayload i p =>
        simp only [step, Heap.setPayload]
        cases ho : h.objs[i]? with
        | none => exact ⟨hw, hm⟩
        | some o => exact ⟨Heap.wf_setObj hw ho rfl, hm⟩
      | truncPayload i n =>
        simp only [step, Heap.truncPayload]
        cases ho : h.objs[i]? with
        | none => exact ⟨hw, hm⟩
        | some o => exact ⟨Heap.wf_setObj hw ho rfl, hm⟩
      | rewrap i =>
        simp only [step, Heap.decoded]
        cases hv : h.view i with
        | none => exact ⟨hw, hm⟩
        | some m =>
          cases hmd : m.metadata with
          | none => simp only [hmd]; exact ⟨Heap.wf_lit hw _ _, hm⟩
          | some md =>
            cases hc : h.copy i with
            | none => simp only [hmd, hc]; exact ⟨hw, hm⟩
            | some h' => simp only [hmd, hc]; exact ⟨Heap.wf_copy hw hc, Heap.maps_copy hm hc⟩
    exact ih _ hstep.1 hstep.2

theorem reachable_invariants (ops : List Op) : (exec Heap.empty ops).WF ∧ (exec Heap.empty ops).Maps :=
  exec_invariants ops _ Heap.wf_empty Heap.maps_empty

/-! ## Codec round-trips.  Hypothesis everywhere: `Codec.RoundTrips` of the *library* codec – what encodes
    successfully decodes to the same value.  It is satisfiable (`Wire.wire_round_trips`) and is what the harness
    tests for encoding/json and protobuf.  Everything else – which fields travel, under which keys – is proved. -/

/-! ### forwarder envelope -/

/-- wrapping succeeds exactly for a non-empty destination topic the library can encode -/
theorem wrap_ok_iff (c : Codec Envelope) (u dest : String) (m : Msg) :
    (∃ w, wrap c u dest m = .ok w) ↔ dest ≠ "" ∧ (c.enc ⟨dest, m.uuid, m.payload, m.metadata⟩).isSome := by
  unfold wrap newEnvelope Envelope.valid
  by_cases hd : dest = ""
  · simp [hd]
  · cases he : c.enc ⟨dest, m.uuid, m.payload, m.metadata⟩ <;> simp [hd, he]

/-- **unwrap after wrap is the identity** on destination topic, UUID, payload and metadata (nil-ness included),
    for every message and every destination topic; the wrapper carries the fresh UUID and an empty map -/
theorem envelope_round_trip (c : Codec Envelope) (hc : c.RoundTrips) (u dest : String) (m w : Msg)
    (hw : wrap c u dest m = .ok w) : unwrap c w = .ok (dest, m) ∧ w.uuid = u ∧ w.metadata = some [] := by
  unfold wrap newEnvelope Envelope.valid at hw
  by_cases hd : dest = ""
  · simp [hd] at hw
  · cases he : c.enc ⟨dest, m.uuid, m.payload, m.metadata⟩ with
    | none => simp [hd, he] at hw
    | some b =>
      simp only [ne_eq, hd, not_false_eq_true, decide_true, ↓reduceIte, he, Except.ok.injEq] at hw
      subst hw
      have hdec := hc _ _ he
      simp [unwrap, Msg.bytes, hdec, Envelope.valid, hd]

/-- with a library encoder that never refuses an envelope (encoding/json on strings, bytes and string maps):
    for all non-empty destination topics the round trip succeeds and is the identity -/
theorem envelope_round_trip_total (c : Codec Envelope) (hc : c.RoundTrips) (ht : ∀ e, (c.enc e).isSome)
    (u dest : String) (m : Msg) (hd : dest ≠ "") :
    ∃ w, wrap c u dest m = .ok w ∧ unwrap c w = .ok (dest, m) := by
  obtain ⟨w, hw⟩ := (wrap_ok_iff c u dest m).mpr ⟨hd, ht _⟩
  exact ⟨w, hw, (envelope_round_trip c hc u dest m w hw).1⟩

/-- in terms of `Equals`: the unwrapped message Equals the original -/
theorem envelope_round_trip_equals (c : Codec Envelope) (hc : c.RoundTrips) (u dest : String) (m w : Msg)
    (hm : m.WF) (hw : wrap c u dest m = .ok w) :
    ∃ m', unwrap c w = .ok (dest, m') ∧ equals m' m = true :=
  ⟨m, (envelope_round_trip c hc u dest m w hw).1, equals_refl m hm⟩

/-- non-vacuity: the hypotheses are satisfied by the wire codec, on a message with control characters,
    an empty key, a nil payload -/
example : ∃ w, wrap Wire.envCodec "#" "topic/é" ⟨"u\n", none, some [("", ""), ("k", "<&>")]⟩ = .ok w ∧
    unwrap Wire.envCodec w = .ok ("topic/é", ⟨"u\n", none, some [("", ""), ("k", "<&>")]⟩) :=
  envelope_round_trip_total _ Wire.wire_round_trips (fun _ => rfl) _ _ _ (by decide)

/-- an empty destination topic is refused (the quantifier of the property excludes it) -/
theorem wrap_empty_destination (c : Codec Envelope) (u : String) (m : Msg) :
    wrap c u "" m = .error .unknownDestination := by
  simp [wrap, newEnvelope, Envelope.valid]

theorem wrapAll_round_trip (c : Codec Envelope) (hc : c.RoundTrips) (topic : String)
    (msgs : List (String × Msg)) (ws : List Msg) (h : wrapAll c topic msgs = .ok ws) :
    ws.map (unwrap c) = msgs.map (fun um => .ok (topic, um.2)) := by
  induction msgs generalizing ws with
  | nil => simp [wrapAll] at h; subst h; rfl
  | cons um rest ih =>
    obtain ⟨u, m⟩ := um
    unfold wrapAll at h
    cases hw : wrap c u topic m with
    | error e => simp [hw] at h
    | ok w =>
      cases hr : wrapAll c topic rest with
      | error e => simp [hw, hr] at h
      | ok ws' =>
        simp only [hw, hr, Except.ok.injEq] at h
        subst h
        simp [ih ws' hr, (envelope_round_trip c hc u topic m w hw).1]

/-- **forwarder.Publisher**: what is published to the forwarder topic unwraps, message by message and in order,
    to the destination topic of the call and the original messages -/
theorem publisher_round_trip (c : Codec Envelope) (hc : c.RoundTrips) (cfg topic : String)
    (msgs : List (String × Msg)) (t : String) (ws : List Msg)
    (h : publisherPublish c cfg topic msgs = .ok (t, ws)) :
    t = forwarderTopic cfg ∧ ws.map (unwrap c) = msgs.map (fun um => .ok (topic, um.2)) := by
  unfold publisherPublish at h
  cases hr : wrapAll c topic msgs with
  | error e => simp [hr] at h
  | ok ws' =>
    simp only [hr, Except.ok.injEq, Prod.mk.injEq] at h
    obtain ⟨h1, h2⟩ := h
    subst h1 h2
    exact ⟨rfl, wrapAll_round_trip c hc topic msgs ws' hr⟩

example : publisherPublish Wire.envCodec "" "dest" [("#1", ⟨"a", some [1], none⟩), ("#2", ⟨"b", none, some [("k", "v")]⟩)]
    = .ok ("forwarder_topic", [⟨"#1", some (Wire.serEnv ⟨"dest", "a", some [1], none⟩), some []⟩,
                               ⟨"#2", some (Wire.serEnv ⟨"dest", "b", none, some [("k", "v")]⟩), some []⟩]) := by
  rfl

/-! ### CQRS marshalers -/

/-- the hypothesis is necessary: an encoder that maps two different values to the same bytes (one that drops part of
    the value – e.g. gogo's reflective encoder on a new-API message with unknown fields, finding
    `gogo-marshaler-new-api-message-unknown-fields`) admits no decoder for which Unmarshal∘Marshal is the identity -/
theorem lossy_encoder_breaks_round_trip {α : Type} (mar : Marshaler α) (u : String) (x y : α) (b : Bytes) (hxy : x ≠ y)
    (hx : mar.codec.enc x = some b) (hy : mar.codec.enc y = some b) :
    ¬ (∀ v msg, marshal mar u v = some msg → unmarshal mar msg = some v) := by
  intro h
  have h1 := h x ⟨u, some b, some (set [] nameKey (mar.name x))⟩ (by simp [marshal, hx])
  have h2 := h y ⟨u, some b, some (set [] nameKey (mar.name y))⟩ (by simp [marshal, hy])
  simp only [unmarshal, Msg.bytes, Option.getD_some] at h1 h2
  rw [h1] at h2
  exact hxy (Option.some.inj h2)

example : (⟨⟨fun (v : Bytes) => some (v.take 1), fun b => some b⟩, fun _ => "n"⟩ : Marshaler Bytes).codec.enc [1, 2]
    = (⟨⟨fun (v : Bytes) => some (v.take 1), fun b => some b⟩, fun _ => "n"⟩ : Marshaler Bytes).codec.enc [1, 3] := by decide

/-- **Unmarshal after Marshal is the identity** (JSON, Protobuf, gogo Protobuf marshalers: same glue, different library codec) -/
theorem marshal_round_trip {α : Type} (mar : Marshaler α) (hc : mar.codec.RoundTrips) (u : String) (v : α) (msg : Msg)
    (h : marshal mar u v = some msg) : unmarshal mar msg = some v := by
  unfold marshal at h
  cases he : mar.codec.enc v with
  | none => simp [he] at h
  | some b =>
    simp only [he, Option.some.injEq] at h
    subst h
    simp [unmarshal, Msg.bytes, hc v b he]

/-- **the name read from the message equals the name of the value** (no hypothesis on the codec) -/
theorem name_from_message {α : Type} (mar : Marshaler α) (u : String) (v : α) (msg : Msg)
    (h : marshal mar u v = some msg) : nameFromMessage msg = mar.name v := by
  unfold marshal at h
  cases he : mar.codec.enc v with
  | none => simp [he] at h
  | some b =>
    simp only [he, Option.some.injEq] at h
    subst h
    simp [nameFromMessage, Msg.md, get, set, lookup]

/-- the message `Marshal` builds: the UUID of the generator, and metadata holding exactly the name -/
theorem marshal_shape {α : Type} (mar : Marshaler α) (u : String) (v : α) (msg : Msg)
    (h : marshal mar u v = some msg) : msg.uuid = u ∧ msg.metadata = some [(nameKey, mar.name v)] := by
  unfold marshal at h
  cases he : mar.codec.enc v with
  | none => simp [he] at h
  | some b =>
    simp only [he, Option.some.injEq] at h
    subst h
    simp [set]

/-- Marshal succeeds exactly on the values the library can encode ("serialisable") -/
theorem marshal_isSome_iff {α : Type} (mar : Marshaler α) (u : String) (v : α) :
    (marshal mar u v).isSome ↔ (mar.codec.enc v).isSome := by
  unfold marshal; cases mar.codec.enc v <;> simp

example : (marshal ⟨Wire.tokenCodec, fun _ => "pkg.Type"⟩ "#" [1, 2, 3]).bind (unmarshal ⟨Wire.tokenCodec, fun _ => "pkg.Type"⟩)
    = some [1, 2, 3] := by decide
example : (marshal ⟨Wire.tokenCodec, fun _ => "pkg.Type"⟩ "#" [1, 2, 3]).map nameFromMessage = some "pkg.Type" := by decide

/-- the gogo marshaler with the std-proto fallback: two libraries tried in turn round-trip together when each
    does and the first decoder never mis-reads what only the second could encode (same wire format) -/
theorem fallback_round_trips {α : Type} (c₁ c₂ : Codec α) (h₁ : c₁.RoundTrips) (h₂ : c₂.RoundTrips)
    (compat : ∀ x b, c₁.enc x = none → c₂.enc x = some b → c₁.dec b = none ∨ c₁.dec b = some x) :
    (c₁.orElse c₂).RoundTrips := by
  intro x b h
  simp only [Codec.orElse] at h ⊢
  cases h1 : c₁.enc x with
  | some b' =>
    simp only [h1, Option.some.injEq] at h
    subst h
    simp [h₁ x b' h1]
  | none =>
    simp only [h1] at h
    rcases compat x b h1 h with hd | hd
    · simp [hd, h₂ x b h]
    · simp [hd]

/-! ### request-reply replies -/

theorem get_replyMeta_hasError (err : Option String) :
    get (replyMeta err) hasErrorKey = if err.isSome then "1" else "0" := by
  cases err <;> simp [replyMeta, get, lookup_set]

theorem get_replyMeta_error (e : String) : get (replyMeta (some e)) errorKey = e := by
  have : hasErrorKey ≠ errorKey := by decide
  simp [replyMeta, get, lookup_set, this]

/-- the error read back from the metadata `MarshalReply` wrote is the error that went in -/
theorem replyErrOf_replyMeta (err : Option String) : replyErrOf (replyMeta err) = err := by
  cases err with
  | none => simp [replyErrOf, get_replyMeta_hasError]
  | some e => simp [replyErrOf, get_replyMeta_hasError, get_replyMeta_error]

/-- **UnmarshalReply after MarshalReply is the identity on the result and on the error text**
    (no error stays no error; an error comes back with exactly its text, the empty text included) -/
theorem reply_round_trip {ρ : Type} (c : Codec ρ) (hc : c.RoundTrips) (u : String) (r : Reply ρ) (msg : Msg)
    (h : marshalReply c u r = some msg) : unmarshalReply c msg = some r := by
  unfold marshalReply at h
  cases he : c.enc r.result with
  | none => simp [he] at h
  | some b =>
    simp only [he, Option.some.injEq] at h
    subst h
    obtain ⟨res, err⟩ := r
    cases err with
    | none =>
      simp [unmarshalReply, replyErrOf, Msg.md, Msg.bytes, get_replyMeta_hasError, hc res b he]
    | some e =>
      simp [unmarshalReply, replyErrOf, Msg.md, Msg.bytes, get_replyMeta_hasError, get_replyMeta_error, hc res b he]

/-- the reply message: has-error marker "1"/"0", and the error text under its key only when there is an error -/
theorem reply_shape {ρ : Type} (c : Codec ρ) (u : String) (r : Reply ρ) (msg : Msg)
    (h : marshalReply c u r = some msg) :
    msg.uuid = u ∧ msg.metadata = some (match r.err with
      | some e => [(errorKey, e), (hasErrorKey, "1")]
      | none => [(hasErrorKey, "0")]) := by
  unfold marshalReply at h
  cases he : c.enc r.result with
  | none => simp [he] at h
  | some b =>
    simp only [he, Option.some.injEq] at h
    subst h
    have : errorKey ≠ hasErrorKey := by decide
    cases r.err <;> simp [replyMeta, set, this]

example : (marshalReply Wire.tokenCodec "#" ⟨[7], some ""⟩).bind (unmarshalReply Wire.tokenCodec) = some ⟨[7], some ""⟩ := by decide
example : (marshalReply Wire.tokenCodec "#" ⟨[7], none⟩).bind (unmarshalReply Wire.tokenCodec) = some ⟨[7], none⟩ := by decide

/-- why the marker matters (contrast): a reply whose marker is anything but "1" is read as success -/
example : unmarshalReply Wire.tokenCodec ⟨"#", some [7], some [(errorKey, "boom"), (hasErrorKey, "true")]⟩ = some ⟨[7], none⟩ := by decide

end Wm.Value
