/-
  End-to-end theorems on the composition M_prod = M_reg ∥ M_sub(me) (GcProd.lean), `me` an arbitrary subscription id –
  so each statement holds for every subscription.  The composition lemma (`Lemmas/GcProdProj.lean`) shows that every step
  of the product is a step of M_reg and a finite run of M_sub, hence every theorem about either model holds in the
  product; `LinkOk` (`Lemmas/GcProdLink*.lean`) ties the two: the senders M_reg starts for `me` are the publications
  0,1,2,… of its M_sub instance, carry M_reg's messages in order, and a dispatcher stops waiting for `me` only after
  that sender ended in M_sub.

  * `blocking_publish_returns_only_after_ack` (C05): when a blocking Publish leaves `waitForAckFromSubscribers` for
    dispatcher `d` and the Pub/Sub is not closing, the sender started for `me` by that dispatcher has ended – with a copy
    delivered to, received by and acked by `me`'s consumer, or because `me` is closing/closed.
  * `publications_are_the_log` (C11/C04): persistent mode, `me` registered on `t`, no Publish on `t` between persist and
    unlock: the publications of `me`'s M_sub instance are exactly the persisted messages of `t`, in log order.
  * `exactly_once_when_all_acked` (C11): … and if every one of those senders has ended "acked", then for every position
    k of the log there is exactly one acked delivery of publication k (carrying message log[k]), and every other delivery of
    it was nacked – a consumer that never nacks receives every persisted message exactly once.
-/
import WmModel.Lemmas.GcProdLinkStep
import WmModel.Props.C04Exit
namespace Wm.GcProd
open Wm Wm.Lts

theorem reach_link (me cap : Nat) (cfg : GcReg.Cfg) : ∀ s, Reach (sys me cap cfg) s → LinkOk me s :=
  inv_of_step' (sys me cap cfg) (LinkOk me) (link_init me cfg)
    (fun s a s' hr h ha => link_step me cap cfg s s' a (reach_reg me cap cfg s hr) h ha)

theorem exited_iff (q : GcSub.St) (p : Nat) : exited q p = true ↔ ∃ r, (p, r) ∈ q.exits := by
  simp only [exited, List.any_eq_true, beq_iff_eq]
  constructor
  · rintro ⟨⟨p', r⟩, hm, he⟩; simp at he; subst he; exact ⟨r, hm⟩
  · rintro ⟨r, hm⟩; exact ⟨(p, r), hm, rfl⟩

/-- **C05, end to end**: a blocking Publish proceeds past the wait for dispatcher `d` (Pub/Sub not closing) only after the
    sender it started for `me` has ended: `me` acked a delivery of it, or `me` is closing / closed -/
theorem blocking_publish_returns_only_after_ack (me cap : Nat) (cfg : GcReg.Cfg) (s s' : St)
    (h : Reach (sys me cap cfg) s) (i t d : Nat) (rest : List Nat) (ao : Option (Nat × Nat))
    (hth : s.reg.ths[i]? = some (.pub t rest (.wait d) ao)) (hact : act me cap s (.reg (.step i)) = some s')
    (hnc : s.reg.closingSig = false) (m p : Nat) (hm : (some d, m, p) ∈ s.snd) :
    ∃ q, s.sub = some q ∧
      ((∃ (c : Nat) (cp : GcSub.Copy), q.copies[c]? = some cp ∧ cp.pub = p ∧ cp.delivered = true ∧ cp.received = true ∧ cp.settle = .ack)
        ∨ q.closing = true ∨ q.closed = true) := by
  have hl := reach_link me cap cfg s h
  -- the M_reg step
  have hreg : GcReg.stepPub s.reg i t rest (.wait d) ao = some s'.reg := by
    simp only [act] at hact
    cases hr : GcReg.act s.reg (.step i) with
    | none => simp [hr] at hact
    | some r' =>
      simp only [hr] at hact
      cases he : effect me cap s.reg r' (.step i) (s.sub, s.snd) with
      | none => simp [he] at hact
      | some y => simp only [he] at hact; injection hact with hact; subst hact; simpa [GcReg.act, hth] using hr
  have hempty : (s.reg.disp[d]?.getD []) = [] := by
    rcases GcReg.blocking_publish_waits s.reg s'.reg i t d rest ao hreg with h1 | h1
    · exact h1
    · rw [hnc] at h1; cases h1
  cases hq : s.sub with
  | none => have := hl.empty hq; rw [this] at hm; cases hm
  | some q =>
    refine ⟨q, rfl, ?_⟩
    have hsubreach := reach_sub me cap cfg s h q hq
    rcases hl.pending q hq d m p hm with h1 | h1
    · rw [hempty] at h1; cases h1
    · obtain ⟨r, hr⟩ := (exited_iff q p).mp h1
      cases r with
      | acked => exact Or.inl (GcSub.acked_exit_means_delivered_and_acked cap q hsubreach p hr)
      | closing => exact Or.inr (Or.inl ((GcSub.reach_exit cap q hsubreach).2.1 p hr))
      | closed => exact Or.inr (Or.inr ((GcSub.reach_exit cap q hsubreach).2.2.1 p hr))

/-- **C11/C04, end to end**: the publications of `me`'s subscription are the persisted messages of its topic, in order -/
theorem publications_are_the_log (me cap : Nat) (b : Bool) (s : St) (h : Reach (sys me cap ⟨true, b⟩) s) (t : Nat)
    (hreg : (me, t) ∈ s.reg.subs)
    (hquiet : ∀ (i : Nat) (r : List Nat) (pc : GcReg.PPc) (ao : Option (Nat × Nat)),
      s.reg.ths[i]? = some (.pub t r pc ao) → GcReg.afterPersist pc = false) :
    ∃ q, s.sub = some q ∧ s.snd.map (·.2.1) = GcReg.logOf s.reg t ∧ s.snd.map (·.2.2) = List.range q.nextPub ∧
      q.nextPub = (GcReg.logOf s.reg t).length := by
  have hl := reach_link me cap _ s h
  have hr := reach_reg me cap _ s h
  have hlt : me < s.reg.nextSid := (GcReg.reach_aux _ s.reg hr).1 me t hreg
  cases hq : s.sub with
  | none => have := hl.created.mpr hlt; rw [hq] at this; cases this
  | some q =>
    have h1 : s.snd.map (·.2.1) = GcReg.logOf s.reg t := by
      rw [hl.msgs]; exact GcReg.registry_exactly_one_sender b s.reg hr me t hreg hquiet
    have h2 := hl.pubs q hq
    refine ⟨q, rfl, h1, h2, ?_⟩
    have := congrArg List.length h1
    have h3 := congrArg List.length h2
    simp at this h3; omega

/-- **C11, end to end – exactly once**: if in addition every sender started for `me` has ended "acked", then every
    position `k` of the topic's log has exactly one acked delivery (of publication `k`, which carries message `log[k]`), that
    delivery was handed to and received by the consumer, and every other delivery of publication `k` was nacked -/
theorem exactly_once_when_all_acked (me cap : Nat) (b : Bool) (s : St) (h : Reach (sys me cap ⟨true, b⟩) s) (t : Nat)
    (hreg : (me, t) ∈ s.reg.subs)
    (hquiet : ∀ (i : Nat) (r : List Nat) (pc : GcReg.PPc) (ao : Option (Nat × Nat)),
      s.reg.ths[i]? = some (.pub t r pc ao) → GcReg.afterPersist pc = false)
    (q : GcSub.St) (hq : s.sub = some q) (hall : ∀ p, p < q.nextPub → (p, GcSub.Exit.acked) ∈ q.exits)
    (k : Nat) (hk : k < (GcReg.logOf s.reg t).length) :
    (∃ od, s.snd[k]? = some (od, (GcReg.logOf s.reg t)[k], k)) ∧
    (∃ (c : Nat) (cp : GcSub.Copy), q.copies[c]? = some cp ∧ cp.pub = k ∧ cp.delivered = true ∧ cp.received = true ∧
        cp.settle = .ack ∧
        ∀ (c' : Nat) (cp' : GcSub.Copy), q.copies[c']? = some cp' → cp'.pub = k → c' ≠ c → cp'.settle = .nack) := by
  obtain ⟨q0, hq0, hmsgs, hpubs, hlen⟩ := publications_are_the_log me cap b s h t hreg hquiet
  rw [hq] at hq0; injection hq0 with hq0; subst hq0
  have hsubreach := reach_sub me cap _ s h q hq
  have hkq : k < q.nextPub := by omega
  refine ⟨?_, ?_⟩
  · -- the k-th sender entry
    have hlen2 : s.snd.length = (GcReg.logOf s.reg t).length := by
      have := congrArg List.length hmsgs; simpa using this
    have hks : k < s.snd.length := by omega
    have e1 : (s.snd.map (·.2.1))[k]? = (GcReg.logOf s.reg t)[k]? := by rw [hmsgs]
    have e2 : (s.snd.map (·.2.2))[k]? = (List.range q.nextPub)[k]? := by rw [hpubs]
    rw [List.getElem?_map, List.getElem?_eq_getElem hks] at e1 e2
    rw [List.getElem?_eq_getElem hk] at e1
    rw [List.getElem?_range hkq] at e2
    simp at e1 e2
    refine ⟨s.snd[k].1, ?_⟩
    rw [List.getElem?_eq_getElem hks]
    congr 1
    rcases hsk : s.snd[k] with ⟨od, m, p⟩
    rw [hsk] at e1 e2
    simp at e1 e2; subst e1; subst e2; rfl
  · obtain ⟨c, cp, hc, hp, hd, hrv, hack⟩ := GcSub.acked_exit_means_delivered_and_acked cap q hsubreach k (hall k hkq)
    refine ⟨c, cp, hc, hp, hd, hrv, hack, ?_⟩
    intro c' cp' hc' hp' hne
    rcases Nat.lt_or_gt_of_ne hne with hlt | hgt
    · exact GcSub.redelivery_only_after_nack cap q hsubreach c' c cp' cp hlt hc' hc (by rw [hp', hp])
    · -- a later copy of the same publication would mean the acked one was nacked
      have := GcSub.redelivery_only_after_nack cap q hsubreach c c' cp cp' hgt hc hc' (by rw [hp', hp])
      rw [hack] at this; cases this

end Wm.GcProd

namespace Wm.GcProd
open Wm Wm.Lts

/-- non-vacuity: subscription 0 is created and registered, a Publish persists and sends message 7, M_sub delivers it
    (rendezvous), the consumer acks, the sender ends, the dispatcher is told – all hypotheses of `exactly_once_when_all_acked` hold;
    and `senderDone 0 0` is refused while the sender has not ended in M_sub -/
def prodRun : List Action :=
  [.reg (.newSub 0), .reg (.step 0), .reg (.step 0), .reg (.step 0), .reg (.step 0), .reg (.step 0), .reg (.step 0),
   .reg (.newPub 0 [7] none), .reg (.step 2), .reg (.step 2), .reg (.step 2), .reg (.step 2), .reg (.step 2), .reg (.step 2),
   .reg (.step 2),
   .sub (.sLock 0), .sub .sCheck, .sub .sTop, .sub .sSend, .sub (.settle 0 .ack), .sub .sObsAck,
   .reg (.senderDone 0 0)]

theorem prod_witness :
    ∃ s q, exec (sys 0 0 ⟨true, false⟩) (init ⟨true, false⟩) prodRun = some s ∧ s.sub = some q ∧
      s.reg.subs = [(0, 0)] ∧ GcReg.logOf s.reg 0 = [7] ∧ s.snd = [(some 0, 7, 0)] ∧ q.exits = [(0, .acked)] ∧
      q.nextPub = 1 ∧ s.reg.disp = [[]] ∧
      s.reg.ths.all (fun th => match th with | .pub _ _ pc _ => !GcReg.afterPersist pc | _ => true) = true := by
  refine ⟨_, _, rfl, rfl, ?_, ?_, ?_, ?_, ?_, ?_, ?_⟩ <;> decide

theorem prod_sender_done_waits_for_msub :
    ∃ s, exec (sys 0 0 ⟨true, false⟩) (init ⟨true, false⟩) (prodRun.take 15) = some s ∧
      act 0 0 s (.reg (.senderDone 0 0)) = none ∧ (GcReg.act s.reg (.senderDone 0 0)).isSome = true := by
  refine ⟨_, rfl, ?_, ?_⟩ <;> decide

end Wm.GcProd
