/-
  C02 – any number of messages in flight on one handler.
  `handleMessage` runs in its own goroutine per message; an execution with `n` messages in flight is an
  interleaving of the `n` per-message effect lists (assumption, fact-checked on every run: the per-message code
  shares no mutable handler state, so the effects of one message do not depend on the others).  For EVERY
  interleaving (= every schedule) and every `n`, the effects of message `i` inside it are exactly
  `handle c oᵢ pᵢ`, hence every clause of C02 holds per message inside the interleaved execution.
  Also: the middleware prefix used by the harness (`chain`).
-/
import WmModel.Props.C02
namespace Wm.Handle

variable {α β : Type}

/-- `t` is an interleaving of the sequences `ts`; events are tagged with the index of their sequence -/
inductive Interleave : List (List β) → List (Nat × β) → Prop
  | nil (ts : List (List β)) : (∀ l ∈ ts, l = []) → Interleave ts []
  | step (ts : List (List β)) (i : Nat) (x : β) (rest : List β) (t : List (Nat × β)) :
      ts[i]? = some (x :: rest) → Interleave (ts.set i rest) t → Interleave ts ((i, x) :: t)

/-- the events of sequence `i` inside `t`, in their order -/
def proj (i : Nat) (t : List (Nat × β)) : List β :=
  t.filterMap (fun e => if e.1 = i then some e.2 else none)

theorem proj_nil (i : Nat) : proj i ([] : List (Nat × β)) = [] := rfl

theorem proj_cons (i j : Nat) (x : β) (t : List (Nat × β)) :
    proj i ((j, x) :: t) = if j = i then x :: proj i t else proj i t := by
  by_cases h : j = i <;> simp [proj, h]

theorem proj_append (i : Nat) (a b : List (Nat × β)) : proj i (a ++ b) = proj i a ++ proj i b := by
  simp [proj, List.filterMap_append]

theorem mem_proj (i : Nat) (x : β) (t : List (Nat × β)) : x ∈ proj i t ↔ (i, x) ∈ t := by
  induction t with
  | nil => simp [proj]
  | cons e t ih =>
    rcases e with ⟨j, y⟩
    rw [proj_cons]
    by_cases h : j = i
    · subst h; simp [ih]
    · simp [h, ih]; intro hh; exact absurd hh.symm h

/-- **interleaving lifts per-sequence facts**: the projection of any interleaving on sequence `i` is sequence `i` -/
theorem proj_interleave (ts : List (List β)) (t : List (Nat × β)) (h : Interleave ts t) :
    ∀ i, i < ts.length → ts[i]? = some (proj i t) := by
  induction h with
  | nil ts hall =>
    intro i hi
    have := hall ts[i] (List.getElem_mem hi)
    rw [List.getElem?_eq_getElem hi, this, proj_nil]
  | step ts j x rest t hj _ ih =>
    intro i hi
    have hlen : (ts.set j rest).length = ts.length := List.length_set
    have ih' := ih i (by rw [hlen]; exact hi)
    rw [proj_cons]
    by_cases hji : j = i
    · subst hji
      rw [List.getElem?_set_self (by exact hi)] at ih'
      injection ih' with ih'
      simp [hj, ih']
    · rw [List.getElem?_set_ne hji] at ih'
      simp [hji, ih']

/-- events of message `i` satisfying `P`, counted in `t` directly -/
theorem filter_proj (i : Nat) (P : β → Bool) (t : List (Nat × β)) :
    (t.filter (fun e => decide (e.1 = i) && P e.2)).map (·.2) = (proj i t).filter P := by
  induction t with
  | nil => rfl
  | cons e t ih =>
    rcases e with ⟨j, y⟩
    rw [proj_cons]
    by_cases h : j = i
    · subst h
      cases hp : P y <;> simp [hp, ih]
    · simp [h, ih]

/-- the per-message effect lists of a batch -/
def batch (c : Cfg) (ss : List (Outcome α × PubOutcome)) : List (List (Effect α)) :=
  ss.map (fun s => handle c s.1 s.2)

/-- **in-flight independence**: in every interleaved execution of any number of messages on one handler, the
    effects of message `i` are exactly `handle` of its own script -/
theorem inflight_independent (c : Cfg) (ss : List (Outcome α × PubOutcome)) (t : List (Nat × Effect α))
    (h : Interleave (batch c ss) t) (i : Nat) (hi : i < ss.length) :
    proj i t = handle c ss[i].1 ss[i].2 := by
  have := proj_interleave _ _ h i (by simpa [batch] using hi)
  simp [batch, List.getElem?_map, List.getElem?_eq_getElem hi] at this
  exact this.symm

/-- every message of the batch is settled by the router exactly once, whatever the schedule -/
theorem inflight_settles_exactly_once (c : Cfg) (ss : List (Outcome α × PubOutcome)) (t : List (Nat × Effect α))
    (h : Interleave (batch c ss) t) (i : Nat) (hi : i < ss.length) :
    (t.filter (fun e => decide (e.1 = i) && e.2.isRouterSettle)).length = 1 := by
  have := filter_proj i Effect.isRouterSettle t
  rw [inflight_independent c ss t h i hi] at this
  rw [← List.length_map (f := (·.2)), this]
  exact settles_exactly_once c _ _

/-- the router's Ack of message `i` occurs in the execution iff `i`'s own chain succeeded and its outputs were accepted -/
theorem inflight_ack_iff (c : Cfg) (ss : List (Outcome α × PubOutcome)) (t : List (Nat × Effect α))
    (h : Interleave (batch c ss) t) (i : Nat) (hi : i < ss.length) :
    (i, Effect.routerAck) ∈ t ↔ AckCond c ss[i].1 ss[i].2 := by
  rw [← mem_proj, inflight_independent c ss t h i hi, ack_iff]

/-- in the interleaved execution no publish effect of message `i` comes after the router's Ack of message `i`,
    and every Publish of message `i` that ended before it ended successfully -/
theorem inflight_publish_before_ack (c : Cfg) (ss : List (Outcome α × PubOutcome)) (t : List (Nat × Effect α))
    (h : Interleave (batch c ss) t) (i : Nat) (hi : i < ss.length) (pre suf : List (Nat × Effect α))
    (hs : t = pre ++ (i, .routerAck) :: suf) :
    (∀ e, (i, e) ∈ suf → e.isPublish = false) ∧ (∀ r, (i, Effect.publishRet r) ∈ pre → r = .accept) ∧
    (∀ outs, ss[i].1.result = .returns outs false → outs ≠ [] →
      (i, Effect.publishCall (pubTopic c) outs) ∈ pre ∧ (i, Effect.publishRet .accept) ∈ pre) := by
  have hp := inflight_independent c ss t h i hi
  rw [hs, proj_append, proj_cons] at hp
  simp only [if_true] at hp
  obtain ⟨h1, h2, h3⟩ := publish_before_ack c _ _ _ _ hp.symm
  refine ⟨fun e he => h1 e ((mem_proj i e suf).mpr he), fun r hr => h2 r ((mem_proj i _ pre).mpr hr), ?_⟩
  intro outs hres hne
  obtain ⟨a, ha⟩ := h3 outs hres hne
  constructor
  · rw [← mem_proj, ha]; simp
  · rw [← mem_proj, ha]; simp

/-- a settlement the handler made itself for message `i` is what the subscriber of `i` sees, whatever the schedule -/
theorem inflight_self_settlement_wins (k : Ack.Kind) (c : Cfg) (ss : List (Outcome α × PubOutcome))
    (t : List (Nat × Effect α)) (h : Interleave (batch c ss) t) (i : Nat) (hi : i < ss.length) (s : Settle)
    (hself : ss[i].1.selfSettle = some s) :
    sentAfter k (proj i t) = s.toSent := by
  rw [inflight_independent c ss t h i hi]
  have := self_settlement_wins k c s ss[i].1.result ss[i].2
  rw [← hself] at this
  exact this

/-! ## the receive loop: every message taken from the subscriber is dispatched, also after stop/cancel/close -/

/-- what the receive loop of a handler sees: a message coming out of the subscriber's channel, or the handler's context
    being cancelled (Handler.Stop, cancel of Run's context, Router.Close) -/
inductive LoopEv (β : Type) | recv (m : β) | cancel

/-- `handler.run`: `for msg := range h.messagesCh { …Add(1)…; go h.handleMessage(msg, chain) }` – the messages for which
    `handleMessage` is started; `cancelled` is carried along and (fact `run_receive_loop_branching_statements = 0`,
    checked on every run) never consulted -/
def spawned : Bool → List (LoopEv β) → List β
  | _, [] => []
  | c, .recv m :: rest => m :: spawned c rest
  | _, .cancel :: rest => spawned true rest

def received : List (LoopEv β) → List β
  | [] => []
  | .recv m :: rest => m :: received rest
  | .cancel :: rest => received rest

/-- **no cancel-dependent skip**: wherever the cancellations fall, `handleMessage` is started for exactly the messages
    that came out of the subscriber's channel, in their order -/
theorem spawned_eq_received (c : Bool) (evs : List (LoopEv β)) : spawned c evs = received evs := by
  induction evs generalizing c with
  | nil => rfl
  | cons e rest ih => cases e <;> simp [spawned, received, ih]

/-- a message handed out by the subscriber AFTER the cancel is dispatched like the ones before it -/
theorem late_message_dispatched (early late : List β) :
    spawned false (early.map .recv ++ .cancel :: late.map .recv) = early ++ late := by
  rw [spawned_eq_received]
  induction early with
  | nil =>
    simp only [List.map_nil, List.nil_append, received]
    induction late with
    | nil => rfl
    | cons m r ih => simp [received, ih]
  | cons m r ih => simp [received, ih]

/-- … and therefore settled exactly once by its own `handleMessage`, in every interleaving with the others -/
theorem late_messages_settled_once (c : Cfg) (early late : List (Outcome α × PubOutcome)) (t : List (Nat × Effect α))
    (h : Interleave (batch c (spawned false (early.map .recv ++ .cancel :: late.map .recv))) t) (i : Nat)
    (hi : i < early.length + late.length) :
    (t.filter (fun e => decide (e.1 = i) && e.2.isRouterSettle)).length = 1 := by
  rw [late_message_dispatched] at h
  exact inflight_settles_exactly_once c (early ++ late) t h i (by simpa using hi)

example : spawned false [LoopEv.recv 1, .cancel, .recv 2, .cancel, .recv 3] = [1, 2, 3] := by decide

/-! ## middleware prefix of the harness -/

/-- passthrough middlewares change nothing -/
theorem chain_pass_id (n : Nat) (o : Outcome α) : chain (List.replicate n Mw.pass) o = o := by
  induction n with
  | zero => rfl
  | succ n ih => simp [chain, List.replicate_succ, applyMw] at ih ⊢; exact ih

def addedOuts : List (Mw α) → List α
  | [] => []
  | .pass :: rest => addedOuts rest
  | .rebuild :: rest => addedOuts rest
  | .addOut x :: rest => addedOuts rest ++ [x]

/-- what a chain of middlewares returns: the handler's own settlement, error flag and outputs, followed by the
    outputs added by the output-adding middlewares from the innermost to the outermost; a panic passes through -/
theorem chain_outs (mws : List (Mw α)) (s : Option Settle) :
    (∀ outs e, chain mws ⟨s, .returns outs e⟩ = ⟨s, .returns (outs ++ addedOuts mws) e⟩) ∧
    (∀ v, chain mws ⟨s, .panics v⟩ = ⟨s, .panics v⟩) := by
  induction mws with
  | nil => simp [chain, addedOuts]
  | cons m rest ih =>
    constructor
    · intro outs e
      have := ih.1 outs e
      simp only [chain, List.foldr_cons] at this ⊢
      rw [this]
      cases m <;> simp [applyMw, addedOuts]
    · intro v
      have := ih.2 v
      simp only [chain, List.foldr_cons] at this ⊢
      rw [this]
      cases m <;> simp [applyMw]

/-! ## non-vacuity -/

/-- two messages in flight: the second one is handled entirely between the handler call and the settlement of the first -/
example : Interleave
    (batch ⟨.withPub, "t"⟩ [((⟨none, .returns [] false⟩ : Outcome Nat), .accept), (⟨some .nack, .returns [] true⟩, .accept)])
    [(0, .handlerCalled), (1, .handlerCalled), (1, .selfNack), (0, .addCtx []), (1, .routerNack), (1, .done),
     (0, .routerAck), (0, .done)] := by
  refine .step _ 0 _ _ _ rfl (.step _ 1 _ _ _ rfl (.step _ 1 _ _ _ rfl (.step _ 0 _ _ _ rfl
    (.step _ 1 _ _ _ rfl (.step _ 1 _ _ _ rfl (.step _ 0 _ _ _ rfl (.step _ 0 _ _ _ rfl (.nil _ ?_))))))))
  intro l hl
  simp [batch, handle, selfEff, publishProduced, settleTail] at hl
  exact hl
example : chain [Mw.addOut 100, .pass, .addOut 102] (⟨none, .returns [0, 1] true⟩ : Outcome Nat) =
    ⟨none, .returns [0, 1, 102, 100] true⟩ := by decide

end Wm.Handle
