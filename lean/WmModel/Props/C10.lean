/-
  C10 – Router lifecycle: Running, RunHandlers, Stop and self-close.  Theorems over every reachable state of RouterLife
  (WmModel/RouterLife.lean): any number of handlers added before or after Run, any number of RunHandlers / Stop / Close
  callers, every interleaving.  Helper lemmas: WmModel/Lemmas/RouterLife*.lean; `Old` witnesses: Props/C10Old.lean.
-/
import WmModel.Props.C06
namespace Wm.RouterLife
open Wm.Lts

theorem reach_run (fx : Fix) (hfx : fx.d7 = true) : ∀ s, Reach (sys fx) s → RunOk s :=
  inv_of_step' (sys fx) RunOk run_init
    (fun s a s' hr h ha => run_step fx hfx s a s' (reach_life fx s hr) h ha)

/-- **Running() is closed only after every registered handler holds its subscription**: whenever `running` is closed,
    every handler that was registered before Run was called has been started, and its subscriber has seen exactly one
    Subscribe call -/
theorem running_after_all_subscribed (s : St) (h : Reach (sys allFixed) s) (hr : s.running = true) :
    ∀ y ∈ s.hs, y.preRun = true → y.started = true ∧ y.subCalls = 1 := by
  have hrun := reach_run allFixed rfl s h
  have hpast : s.run.pastRh = true := by
    rcases hrun.r3 hr with h1 | h1 | h1 <;> rw [h1] <;> rfl
  intro y hy hpre
  have hst := hrun.r2 hpast y hy hpre
  have hok := (reach_life allFixed s h).all y hy
  refine ⟨hst, ?_⟩
  have := hok.l3
  simp [hok.l11 hst] at this
  exact this

/-- **RunHandlers starts each handler exactly once however often it is called**: in every reachable state (any `Fix`)
    a handler's subscriber has seen at most one Subscribe call, exactly one once the handler is started; and the
    Subscribe step is not enabled for a started handler -/
theorem runhandlers_once (fx : Fix) (s : St) (h : Reach (sys fx) s) :
    (∀ y ∈ s.hs, y.subCalls ≤ 1 ∧ (y.started = true → y.subCalls = 1)) ∧
    (∀ (i : Nat) (y : Handler), s.hs[i]? = some y → y.started = true → act fx s (.rhSub i) = none) := by
  have hlife := reach_life fx s h
  constructor
  · intro y hy
    have hok := hlife.all y hy
    have h3 := hok.l3
    constructor
    · rw [h3]; split <;> simp
    · intro hst; simp [hok.l11 hst] at h3; exact h3
  · intro i y hy hst
    simp only [act, hy]
    split
    · rename_i heq; cases heq; simp [hst]
    · rfl

/-- **a RunHandlers call that returns nil has started every handler added so far**: its last step is only enabled when no
    registered handler is left unstarted, and then every handler has `Started()` closed, `stopFn`/`stopped` set and exactly
    one successful Subscribe -/
theorem runhandlers_nil_means_all_started (s : St) (h : Reach (sys allFixed) s) (s' : St)
    (ha : act allFixed s .rhEnd = some s') :
    ∀ y ∈ s'.hs, y.started = true ∧ y.startedCh = true ∧ y.stopSet = true ∧ y.subCalls = 1 := by
  have hlife := reach_life allFixed s h
  simp only [act] at ha
  split at ha
  · split at ha
    · rename_i hall
      simp at ha; subst ha
      intro y hy
      have hy' : y ∈ s.hs := hy
      have hok := hlife.all y hy'
      have hst : y.started = true := by
        have := (List.all_eq_true.mp hall) y hy'
        simp at this
        rcases this with h1 | h1
        · exact h1
        · have hd := hok.l6.2.mp h1
          exact (hok.l5 (by rw [hd]; simp)).1
      have hch := hok.l12 hst
      have h3 := hok.l3
      simp [hok.l11 hst] at h3
      exact ⟨hst, hch, hok.l2 rfl hch, h3⟩
    · simp at ha
  · simp at ha

/-- **a failed start is retried**: when a decorator or Subscribe fails, RunHandlers returns the error having touched nothing
    of that handler – it is still not started, so the Subscribe step of the next RunHandlers call is enabled for it -/
theorem runhandlers_error_is_retried (fx : Fix) (s s' : St) (i : Nat) (ha : act fx s (.rhSubFail i) = some s') :
    s'.hs = s.hs ∧ s'.hl = .free ∧
    ∃ y, s'.hs[i]? = some y ∧ y.started = false ∧ ∀ v, (act fx { s' with hl := .rh v none } (.rhSub i)).isSome = true := by
  simp only [act] at ha
  split at ha
  · rename_i v y hhl hy
    split at ha
    · rename_i hg
      simp at ha; subst ha
      exact ⟨rfl, rfl, y, hy, hg.1, by intro v'; simp [act, hy, hg]⟩
    · simp at ha
  · simp at ha

/-- **Once Started() is closed, Stop() and Stopped() are usable**: `startedCh` closed implies the `started` flag, `stopFn`
    and `stopped` are set (fix D7); Stop is then enabled and does not panic; nothing ever panics; and `stopped` is
    closed exactly when the handler's goroutine has finished -/
theorem started_implies_stoppable (s : St) (h : Reach (sys allFixed) s) (i : Nat) (y : Handler)
    (hy : s.hs[i]? = some y) :
    (y.startedCh = true → y.started = true ∧ y.stopSet = true ∧
        ∃ s', act allFixed s (.stop i) = some s' ∧ s'.panicked = false) ∧
    s.panicked = false ∧ (y.stoppedCh = true ↔ y.loop = .done) := by
  have hok := (reach_life allFixed s h).all y (mem_of_getElem? _ _ _ hy)
  have hrun := reach_run allFixed rfl s h
  refine ⟨?_, hrun.r5, hok.l6.1⟩
  intro hst
  have h1 := hok.l1 hst
  have h2 := hok.l2 rfl hst
  exact ⟨h1, h2, updH s i (fun h => { h with ctxDone := true }), by simp [act, hy, hst, h1, h2], hrun.r5⟩

/-- **Stop ends that handler only**: a Stop step changes nothing but the context of the stopped handler – every other
    handler, every message, the locks, the close protocol and Run are exactly as before (and it does not panic) -/
theorem stop_isolated (s : St) (h : Reach (sys allFixed) s) (s' : St) (i : Nat)
    (ha : act allFixed s (.stop i) = some s') :
    (∀ j, j ≠ i → s'.hs[j]? = s.hs[j]?) ∧
    (∃ y, s.hs[i]? = some y ∧ s'.hs[i]? = some { y with ctxDone := true }) ∧
    s'.msgs = s.msgs ∧ s'.closed = s.closed ∧ s'.closing = s.closing ∧ s'.extCancel = s.extCancel ∧
    s'.runCancel = s.runCancel ∧ s'.hl = s.hl ∧ s'.cl = s.cl ∧ s'.closers = s.closers ∧ s'.run = s.run ∧
    s'.panicked = false := by
  have hp := (reach_run allFixed rfl s h).r5
  simp only [act] at ha
  split at ha
  · rename_i y hy
    have hok := (reach_life allFixed s h).all y (mem_of_getElem? _ _ _ hy)
    split at ha
    · rename_i hst
      have h1 := hok.l1 hst
      have h2 := hok.l2 rfl hst
      simp [h1, h2] at ha; subst ha
      refine ⟨?_, ⟨y, hy, getElem?_modify_self _ _ _ _ hy⟩, rfl, rfl, rfl, rfl, rfl, rfl, rfl, rfl, rfl, hp⟩
      intro j hj
      exact getElem?_modify_ne _ _ _ _ (fun hc => hj hc.symm)
    · simp at ha
  · simp at ha

/-- after Stop the stopped handler's context is done, so its subscription may end (`innerCtx`) and its handleClose
    goroutine can leave its select; the other handlers' steps are untouched by `stop_isolated` -/
theorem stop_ends_handler (s : St) (h : Reach (sys allFixed) s) (s' : St) (i : Nat)
    (ha : act allFixed s (.stop i) = some s') :
    ∃ y', s'.hs[i]? = some y' ∧ ctxOf s' y' = true ∧
      (y'.hc = .sel → (act allFixed s' (.hcCtx i)).isSome = true) ∧
      (y'.pump ≠ .off → y'.innerClosed = false → (act allFixed s' (.innerCtx i)).isSome = true) := by
  obtain ⟨_, ⟨y, hy, hy'⟩, _⟩ := stop_isolated s h s' i ha
  refine ⟨_, hy', by simp [ctxOf], ?_, ?_⟩
  · intro hsel
    simp only [act, hy']
    simp at hsel
    simp [hsel, ctxOf]
    split <;> simp
  · intro hp hic
    simp only [act, hy']
    simp at hp hic
    simp [hp, hic, ctxOf]

/-- **the other handlers keep processing**: `runningHandlersWgLock` is only ever held by the waiter of Router.Close, so as
    long as the router is not closed every receive loop that has a message in its hand can dispatch it – whatever was
    stopped, whatever handler functions are still busy -/
theorem other_handlers_keep_dispatching (s : St) (h : Reach (sys allFixed) s) (hc : s.closed = false)
    (j : Nat) (y : Handler) (m : Nat) (hy : s.hs[j]? = some y) (hl : y.loop = .hold m) :
    (act allFixed s (.dispatch j)).isSome = true := by
  have hcore := reach_core allFixed rfl s h
  have hwb : s.wB ≠ .held := by
    intro hb
    have hA := hcore.b (by rw [hb]; simp)
    have := hcore.a1 hA
    rw [hc] at this; cases this
  simp [act, hy, hl, hwb]

/-- the tail of a handler's goroutine (publisher Close, `handlersWg.Done()`, removal, `close(stopped)`) waits for no
    invocation and for no other handler: each step is enabled as soon as the previous one is done (the removal only needs
    `handlersLock`) -/
theorem loop_tail_waits_for_nobody (fx : Fix) (s : St) (i : Nat) (y : Handler) (hy : s.hs[i]? = some y) :
    (y.loop = .idle → y.pump = .done → (act fx s (.loopEnd i)).isSome = true) ∧
    (y.loop = .pubClose → (act fx s (.pubClose i)).isSome = true) ∧
    (y.loop = .wgDone → (act fx s (.wgDone i)).isSome = true) ∧
    (y.loop = .delete → s.hl = .free → (act fx s (.loopDelete i)).isSome = true) := by
  refine ⟨?_, ?_, ?_, ?_⟩
  · intro h1 h2; simp [act, hy, h1, h2]
  · intro h1; simp [act, hy, h1]
  · intro h1; simp [act, hy, h1]
  · intro h1 h2; simp [act, hy, h1, h2]

/-- **a start-up that failed leaves Running() open**: when Run has returned the error of its RunHandlers call, `running` is
    not closed (and never will be by that Run); the router still counts as started for the re-entry guard -/
theorem failed_run_leaves_running_open (s : St) (h : Reach (sys allFixed) s) (hf : s.run = .failed) :
    s.running = false ∧ s.isRunning = true ∧ act allFixed s .runRunning = none := by
  have hrun := reach_run allFixed rfl s h
  refine ⟨?_, hrun.r1.mpr (by rw [hf]; simp), by simp [act, hf]⟩
  cases hr : s.running with
  | false => rfl
  | true => rcases hrun.r3 hr with h1 | h1 | h1 <;> rw [hf] at h1 <;> cases h1

/-- **Close does not cut into a start-up**: the step in which Close marks the router closed and closes
    `closingInProgressCh` is only enabled while nobody holds `handlersLock` – a RunHandlers call (Run's own or a later one) that
    is between two handlers finishes first, so every handler it was going to start is started before any handleClose reacts -/
theorem close_signals_only_outside_runhandlers (fx : Fix) (s s' : St) (k : Nat) (ha : act fx s (.closeHL k) = some s') :
    s.hl = .free ∧ (s.closed = false → s'.closing = true ∧ s'.hl = .closer k) := by
  simp only [act] at ha
  split at ha
  · split at ha
    · rename_i hfree
      refine ⟨hfree, ?_⟩
      intro hc
      simp [hc] at ha; subst ha
      exact ⟨rfl, rfl⟩
    · simp at ha
  · simp at ha

/-- **a second Run returns an error**: from the first Run call on, a Run call only counts an error return and changes
    nothing else -/
theorem second_run_errors (s : St) (h : Reach (sys allFixed) s) (hr : s.run ≠ .idle) :
    act allFixed s .runCall = some { s with runErrs := s.runErrs + 1 } := by
  have hrun := (reach_run allFixed rfl s h).r1.mpr hr
  simp [act, hrun]

/-! non-vacuity: two handlers registered before Run, one added later and started by the second of three RunHandlers
    calls; Running() closed; handler 0 stopped: its loop ends, the others are untouched -/
def demoLife : List Action :=
  [.addHandler, .addHandler, .runCall, .runWatch, .runRh, .rhSub 1, .rhStep, .rhStep, .rhSpawn, .rhSub 0, .rhStep, .rhStep,
   .rhSpawn, .rhEnd, .runRunning, .rhCall, .rhEnd, .addHandler, .rhCall, .rhSub 2, .rhStep, .rhStep, .rhSpawn, .rhEnd,
   .rhCall, .rhEnd, .runCall, .stop 0, .hcCtx 0, .hcStop 0, .innerCtx 0, .pumpEnd 0, .loopEnd 0, .pubClose 0, .wgDone 0,
   .loopDelete 0, .emit 1, .pumpOut 1, .dispatch 1, .hStart 0]

example : ∃ s, exec (sys allFixed) init demoLife = some s ∧ s.running = true ∧ s.runErrs = 1 ∧ s.closed = false ∧
    s.hs.map (·.subCalls) = [1, 1, 1] ∧ s.hs.map (·.preRun) = [true, true, false] ∧
    s.hs.map (·.stoppedCh) = [true, false, false] ∧ s.hs.map (·.subCloseCalls) = [0, 0, 0] ∧
    s.msgs = [⟨1, .inH, .none⟩] :=
  ⟨_, rfl, by decide, by decide, by decide, by decide, by decide, by decide, by decide, by decide⟩

end Wm.RouterLife
