/-
  C01 – what an accepted trace means.  The conformance replay of the driver (`Mon.confRun`, WmModel/PipelineMon.lean)
  answers `ok` only if the recorded events, read as model actions, form a run of `Pipeline.act` that ends in a state
  where NO action is enabled.  Hence the theorems of Props/C01.lean apply to the model state the trace leads to:
  every source lineage is in that state's sink log, and the sink log is exactly the sequence of `sk` events.
-/
import WmModel.PipelineMon
import WmModel.Props.C01
namespace Wm.Pipeline
open Wm.Lts Wm.Pipeline.Mon

/-- the driver's candidate list is complete: every enabled action is a candidate -/
theorem candidates_complete (p : Shape) (s : St) (a : Action) (s' : St) (h : act p s a = some s') :
    a ∈ candidates s := by
  have lt_of_some : ∀ {α : Type} (l : List α) (i : Nat) (x : α), l[i]? = some x → i < l.length := by
    intro α l i x hx
    rcases Nat.lt_or_ge i l.length with h1 | h1
    · exact h1
    · simp [List.getElem?_eq_none h1] at hx
  have tokCase : ∀ i, i < s.toks.length → ∀ b, b ∈ ([.deliver i, .publishOk i, .ack i, .sink i] : List Action) ++
      (List.range s.faults.length).map (Action.fault i) → b ∈ candidates s := by
    intro i hi b hb
    simp only [candidates, List.mem_append]
    refine Or.inr (List.mem_flatMap.2 ⟨i, List.mem_range.2 hi, ?_⟩)
    simpa using hb
  cases a with
  | publishSource k =>
    simp only [act] at h
    split at h
    · rename_i l hk
      simp only [candidates, List.mem_append]
      exact Or.inl (List.mem_map.2 ⟨k, List.mem_range.2 (lt_of_some _ _ _ hk), rfl⟩)
    · simp at h
  | deliver i =>
    simp only [act] at h
    split at h
    · rename_i l st hi
      exact tokCase i (lt_of_some _ _ _ hi) _ (by simp)
    · simp at h
  | fault i k =>
    simp only [act] at h
    split at h
    · rename_i l st f hi hk
      refine tokCase i (lt_of_some _ _ _ hi) _ ?_
      simp only [List.mem_append]
      exact Or.inr (List.mem_map.2 ⟨k, List.mem_range.2 (lt_of_some _ _ _ hk), rfl⟩)
    · simp at h
  | publishOk i =>
    simp only [act] at h
    split at h
    · rename_i l st hi
      exact tokCase i (lt_of_some _ _ _ hi) _ (by simp)
    · simp at h
  | ack i =>
    simp only [act] at h
    split at h
    · rename_i l st hi
      exact tokCase i (lt_of_some _ _ _ hi) _ (by simp)
    · simp at h
  | sink i =>
    simp only [act] at h
    split at h
    · rename_i l st hi
      exact tokCase i (lt_of_some _ _ _ hi) _ (by simp)
    · simp at h

/-- the driver's terminal test is the `Terminal` of the theorems -/
theorem enabled_empty_terminal (p : Shape) (s : St) (h : (enabled p s).isEmpty = true) : ∀ a, act p s a = none := by
  intro a
  cases ha : act p s a with
  | none => rfl
  | some s' =>
    exfalso
    have hc := candidates_complete p s a s' ha
    have : a ∈ enabled p s := by
      simp only [enabled, List.mem_filter]
      exact ⟨hc, by simp [ha]⟩
    have hnil : enabled p s = [] := List.isEmpty_iff.1 h
    rw [hnil] at this
    simp at this

/-- **an accepted trace is a terminating run of the model** -/
theorem conf_ok_sound (p : Shape) (srcs : List Nat) (faults : List Fault) (widths : List Nat) (evs : List Ev) (s : St) (idx : Nat)
    (h : confRun p widths s idx evs = .ok) :
    ∃ run s', exec (sys p srcs faults) s run = some s' ∧ ∀ a, act p s' a = none := by
  fun_induction confRun p widths s idx evs
  case case2 s _ he => exact ⟨[], s, rfl, enabled_empty_terminal p s he⟩
  case case8 ih => exact ih h
  case case10 a _ s1 hact ih =>
    obtain ⟨run, s2, hr, ht⟩ := ih h
    refine ⟨a :: run, s2, ?_, ht⟩
    simp only [exec, sys, hact]
    exact hr
  all_goals simp at h

/-- consequence: when the driver accepts a trace recorded with source script `0..N-1`, the model state reached has
    every one of the N lineages in its sink log (`terminal_delivered`), whatever happened in between -/
theorem conf_ok_delivers (p : Shape) (hw : p.WF) (n : Nat) (faults : List Fault) (widths : List Nat) (evs : List Ev)
    (h : confRun p widths (init (List.range n) faults) 0 evs = .ok) :
    ∃ run s', exec (sys p (List.range n) faults) (init (List.range n) faults) run = some s' ∧
      ∀ l, l < n → 1 ≤ delivered s' l := by
  obtain ⟨run, s', hr, ht⟩ := conf_ok_sound p (List.range n) faults widths evs _ 0 h
  refine ⟨run, s', hr, ?_⟩
  intro l hl
  have hreach : Reach (sys p (List.range n) faults) s' :=
    reach_of_exec (sys p (List.range n) faults) Reach.init run hr
  exact (terminal_delivered p (List.range n) faults hw s' hreach ht).2.2 l (List.mem_range.2 hl)

/-- non-vacuity: a two-stage chain, one message, handler error at stage 1; the recorded events are accepted -/
example : confRun ⟨[[1], [2]]⟩ [1, 1] (init (List.range 1) [⟨.handlerErr, 1⟩]) 0
    [.srcCall 0, .srcRet 0 true, .hStart 0 0 1, .pubCall 0 0 1, .pubInner 0 0 1 0, .hStart 1 0 2, .fault 1 0 2 .handlerErr,
     .pubAccepted 0 0 1 0, .pubRet 0 0 1 .ok, .settle 0 0 1 true, .settle 1 0 2 false, .hStart 1 0 3, .pubCall 1 0 3,
     .pubInner 1 0 3 0, .sinkRecv 0, .pubAccepted 1 0 3 0, .pubRet 1 0 3 .ok, .settle 1 0 3 true, .finish] = .ok := by decide

/-- non-vacuity with a multi-output stage: stage 0 emits two outputs per input (derived lineages 2·l, 2·l+1; the model
    shape lists the successor twice), the publisher refuses the first batch once; both derived lineages reach the sink -/
example : confRun (modelShape [[1]] [2]) [2] (init (List.range 1) [⟨.pubErr, 0⟩]) 0
    [.srcCall 0, .srcRet 0 true, .hStart 0 0 1, .pubCall 0 0 1, .fault 0 0 1 .pubErr, .pubRet 0 0 1 .err, .settle 0 0 1 false,
     .hStart 0 0 2, .pubCall 0 0 2, .pubInner 0 0 2 0, .pubInner 0 0 2 1, .sinkRecv 1, .sinkRecv 0, .pubAccepted 0 0 2 0,
     .pubAccepted 0 0 2 1, .pubRet 0 0 2 .ok, .settle 0 0 2 true, .finish] = .ok := by decide

end Wm.Pipeline
