/-
  C20 – Pub/Sub decorators are transparent; delay stamps; metrics count exactly.
  Property theorems only (helper lemmas: `WmModel/Lemmas/Decor.lean`, model: `WmModel/Decor.lean`).

  All statements quantify over every decorator stack (any depth, any mix of layers – the depth 3 of the
  quantifier is only what the harness runs), every batch, every metadata map, every transform function,
  every generator function, every failure script of the innermost publisher, every handler outcome
  sequence and every clock reading.
-/
import WmModel.Decor
import WmModel.Lemmas.Decor
namespace Wm.Decor

/-! ## Part 2 – delay.Publisher: one stamp, chosen by precedence -/

/-- **precedence chain of `applyDelay`** – metadata already present ⇒ untouched; else the delay in the message
    context; else the default generator (its error is returned and nothing is stamped); else nothing is
    stamped and the call is an error unless `AllowNoDelay`. -/
theorem delay_precedence (cfg : DelayCfg) (topic : String) (m : Msg) :
    (mget m.md forKey ≠ Val.empty → applyDelay cfg topic m = (none, m, false)) ∧
    (mget m.md forKey = Val.empty → ∀ d, m.ctxDelay = some d →
        applyDelay cfg topic m = (none, stamp m d, false)) ∧
    (mget m.md forKey = Val.empty → m.ctxDelay = none → ∀ g, cfg.gen = some g →
        (∀ d, g topic m = some d → applyDelay cfg topic m = (none, stamp m d, true)) ∧
        (g topic m = none → applyDelay cfg topic m = (some .gen, m, true))) ∧
    (mget m.md forKey = Val.empty → m.ctxDelay = none → cfg.gen = none →
        applyDelay cfg topic m = (if cfg.allowNoDelay then none else some .noDelay, m, false)) := by
  refine ⟨?_, ?_, ?_, ?_⟩
  · intro h; simp [applyDelay, h]
  · intro h d hd; simp [applyDelay, h, hd]
  · intro h hc g hg
    constructor
    · intro d hd; simp [applyDelay, h, hc, hg, hd]
    · intro hn; simp [applyDelay, h, hc, hg, hn]
  · intro h hc hg
    by_cases ha : cfg.allowNoDelay <;> simp [applyDelay, h, hc, hg, ha]

example : applyDelay ⟨some (fun _ _ => some (Delay.for 0 5)), false⟩ "t"
    { id := 1, md := [(forKey, .raw "soon")], ctxDelay := some (Delay.for 0 7) } =
    (none, { id := 1, md := [(forKey, .raw "soon")], ctxDelay := some (Delay.for 0 7) }, false) :=
  (delay_precedence _ _ _).1 (by decide)

/-- **exactly one stamp**: a stamp writes exactly the two delay keys, both from the same `Delay`, and touches
    nothing else of the message (other metadata, identity, context). -/
theorem delay_stamp_exact (m : Msg) (d : Delay) :
    mget (stamp m d).md forKey = .dur d.dur ∧
    mget (stamp m d).md untilKey = renderTime d.time d.zone ∧
    (∀ k, k ≠ forKey → k ≠ untilKey → mget (stamp m d).md k = mget m.md k) ∧
    (stamp m d).id = m.id ∧ (stamp m d).ctxDelay = m.ctxDelay ∧
    (stamp m d).pubMark = m.pubMark ∧ (stamp m d).subMark = m.subMark :=
  ⟨stamp_for m d, stamp_until m d, fun k h1 h2 => stamp_other m d k h1 h2,
   (stamp_fields m d).1, (stamp_fields m d).2.1, (stamp_fields m d).2.2.1, (stamp_fields m d).2.2.2.1⟩

/-- what `applyDelay` does is determined by `sourceOf`: at most one source is used, and the message is either
    untouched or carries exactly the stamp of that one source -/
theorem delay_one_source (cfg : DelayCfg) (topic : String) (m : Msg) :
    match sourceOf cfg topic m with
    | .metadata | .allowed => applyDelay cfg topic m = (none, m, false)
    | .context => ∃ d, m.ctxDelay = some d ∧ applyDelay cfg topic m = (none, stamp m d, false)
    | .generator => ∃ g d, cfg.gen = some g ∧ g topic m = some d ∧ applyDelay cfg topic m = (none, stamp m d, true)
    | .genError => applyDelay cfg topic m = (some .gen, m, true)
    | .refused => applyDelay cfg topic m = (some .noDelay, m, false) := by
  unfold sourceOf applyDelay
  by_cases h : mget m.md forKey ≠ Val.empty
  · simp [h]
  · simp only [h, if_false]
    cases hc : m.ctxDelay with
    | some d => simp
    | none =>
      cases hg : cfg.gen with
      | none => by_cases ha : cfg.allowNoDelay <;> simp [ha]
      | some g =>
        cases hd : g topic m with
        | none => simp [hd]
        | some d => simp [hd]

/-- **a stamped message is never stamped again**: whatever configuration a second delay publisher has (a stack
    with two delay publishers, or a second Publish of the same object), the message keeps its one stamp -/
theorem delay_stamp_once (cfg cfg' : DelayCfg) (topic topic' : String) (m : Msg)
    (h : (applyDelay cfg topic m).2.1 ≠ m) :
    applyDelay cfg' topic' (applyDelay cfg topic m).2.1 = (none, (applyDelay cfg topic m).2.1, false) := by
  have h1 := delay_one_source cfg topic m
  cases hs : sourceOf cfg topic m <;> rw [hs] at h1 <;> simp only at h1
  · rw [h1] at h; exact absurd rfl h
  · rcases h1 with ⟨d, _, h2⟩
    rw [h2]; exact (delay_precedence cfg' topic' _).1 (stamp_for_nonempty m d)
  · rcases h1 with ⟨g, d, _, _, h2⟩
    rw [h2]; exact (delay_precedence cfg' topic' _).1 (stamp_for_nonempty m d)
  · rw [h1] at h; exact absurd rfl h
  · rw [h1] at h; exact absurd rfl h
  · rw [h1] at h; exact absurd rfl h

/- non-vacuity of `delay_stamp_once`: a message with a context delay is changed by the first publisher -/
example : (applyDelay ⟨none, false⟩ "t" { id := 0, md := [], ctxDelay := some ⟨5, 5, 0⟩ }).2.1 ≠
    ({ id := 0, md := [], ctxDelay := some ⟨5, 5, 0⟩ } : Msg) := by
  intro h
  have := congrArg (fun m => m.md.length) h
  simp [applyDelay, mget, stamp, mset, Val.empty] at this
  split at this <;> simp at this

/-- **delayed-for and delayed-until agree**: for a delay built by `delay.For(d)` or `delay.Until(t)` when the clock
    showed `now`, the stamped until is the second in which `now + for` lies (RFC 3339 keeps whole seconds). -/
theorem delay_for_until_agree (m : Msg) (now x : Int) :
    (∀ u f, mget (stamp m (Delay.for now x)).md untilKey = .time u →
            mget (stamp m (Delay.for now x)).md forKey = .dur f →
            f = x ∧ u * 1000000000 ≤ now + f ∧ now + f < u * 1000000000 + 1000000000) ∧
    (∀ u f, mget (stamp m (Delay.until now x)).md untilKey = .time u →
            mget (stamp m (Delay.until now x)).md forKey = .dur f →
            u = secOf x ∧ f = satDur (x - now) ∧
            (minDur ≤ x - now → x - now ≤ maxDur →
              u * 1000000000 ≤ now + f ∧ now + f < u * 1000000000 + 1000000000)) := by
  constructor
  · intro u f hu hf
    rw [stamp_until] at hu; rw [stamp_for] at hf
    simp only [Delay.for, renderTime, if_true, Val.time.injEq, Val.dur.injEq] at hu hf
    subst hf; unfold secOf at hu
    refine ⟨rfl, ?_, ?_⟩ <;> omega
  · intro u f hu hf
    rw [stamp_until] at hu; rw [stamp_for] at hf
    simp only [Delay.until, renderTime, if_true, Val.time.injEq, Val.dur.injEq] at hu hf
    subst hf
    refine ⟨hu.symm, rfl, ?_⟩
    intro h1 h2
    unfold secOf at hu
    unfold satDur maxDur minDur at *
    split <;> (try split) <;> constructor <;> omega

/-- **far future, far past, zero time**: where the distance does not fit a `time.Duration` the stamped delayed-for is
    the saturated distance – the largest duration for a delayed-until beyond +292 years, the smallest for one before
    -292 years – so it always has the SIGN of `until - now`, is exact whenever it can be, and never exceeds the distance -/
theorem delay_until_saturates (now t : Int) :
    (t - now > 0 → satDur (t - now) > 0) ∧ (t - now < 0 → satDur (t - now) < 0) ∧ (t = now → satDur (t - now) = 0) ∧
    (minDur ≤ t - now → t - now ≤ maxDur → satDur (t - now) = t - now) ∧
    (t - now > maxDur → satDur (t - now) = maxDur) ∧ (t - now < minDur → satDur (t - now) = minDur) := by
  unfold satDur maxDur minDur
  refine ⟨?_, ?_, ?_, ?_, ?_, ?_⟩ <;> intros <;> (try subst_vars) <;> split <;> (try split) <;> omega

/-- the seeded int64 subtraction: a delayed-until in the year 2400 (seen from 2026) gets a NEGATIVE delayed-for,
    where `Time.Sub` gives the largest duration -/
theorem wrapped_duration_witness :
    satDur (13569465600000000000 - 1790000000000000000) = maxDur ∧
    wrap64 (wrap64 13569465600000000000 - 1790000000000000000) < 0 := by
  decide

/-- **the agreement does not depend on the location the `time.Time` of `delay.Until(t)` carries**: whatever the zone,
    the stamped delayed-until denotes the instant `t` itself – the second in which `now + for` lies – only its
    rendering (suffix `Z` or `+hh:mm`) follows the zone -/
theorem delay_until_zone_agree (m : Msg) (now t zone : Int) :
    ∃ u, (mget (stamp m (Delay.untilIn now t zone)).md untilKey).instantSec = some u ∧ u = secOf t ∧
      mget (stamp m (Delay.untilIn now t zone)).md forKey = .dur (satDur (t - now)) ∧
      (minDur ≤ t - now → t - now ≤ maxDur →
        u * 1000000000 ≤ now + satDur (t - now) ∧ now + satDur (t - now) < u * 1000000000 + 1000000000) ∧
      (zone ≠ 0 → mget (stamp m (Delay.untilIn now t zone)).md untilKey = .timeIn u zone) := by
  refine ⟨secOf t, ?_, rfl, ?_, ?_, ?_⟩
  · rw [stamp_until]; by_cases hz : zone = 0 <;> simp [Delay.untilIn, renderTime, hz, Val.instantSec]
  · rw [stamp_for]; rfl
  · intro h1 h2
    rw [(delay_until_saturates now t).2.2.2.1 h1 h2]
    unfold secOf; constructor <;> omega
  · intro hz; rw [stamp_until]; simp [Delay.untilIn, renderTime, hz]

/-- the seeded layout with a literal `Z`: for a time two hours east of UTC the stamped delayed-until is two hours off -/
theorem wall_clock_relabelled_witness :
    (renderTime 1700000000000000000 7200).instantSec = some 1700000000 ∧
    (renderWallClockAsUTC 1700000000000000000 7200).instantSec = some 1700007200 := by
  decide

example : mget (stamp { id := 0, md := [] } (Delay.for 1700000000123456789 90000000000)).md untilKey = .time 1700000090 := by
  rw [stamp_until]; decide

/-! ### the batch: one inner call or none -/

/-- the loop over the batch fails iff some message has no delay available (generator error, or no source and
    `AllowNoDelay` off); the messages are treated independently of each other -/
theorem delay_batch_error_iff (cfg : DelayCfg) (topic : String) (ms : List Msg) :
    (applyAll cfg topic ms).2.1 = none ↔
      ∀ m ∈ ms, sourceOf cfg topic m ≠ .genError ∧ sourceOf cfg topic m ≠ .refused := by
  induction ms with
  | nil => simp [applyAll]
  | cons m rest ih =>
    have h1 := delay_one_source cfg topic m
    unfold applyAll
    cases hs : sourceOf cfg topic m <;> rw [hs] at h1 <;> simp only at h1
    · rw [h1]; simp [hs, ih]
    · rcases h1 with ⟨d, _, h2⟩; rw [h2]; simp [hs, ih]
    · rcases h1 with ⟨g, d, _, _, h2⟩; rw [h2]; simp [hs, ih]
    · rw [h1]; simp [hs]
    · rw [h1]; simp [hs, ih]
    · rw [h1]; simp [hs]

/-- without an error every message of the batch went through `applyDelay` exactly once, in order -/
theorem delay_batch_ok (cfg : DelayCfg) (topic : String) (ms : List Msg)
    (h : (applyAll cfg topic ms).2.1 = none) :
    (applyAll cfg topic ms).1 = ms.map (fun m => (applyDelay cfg topic m).2.1) := by
  induction ms with
  | nil => simp [applyAll]
  | cons m rest ih =>
    unfold applyAll at h ⊢
    split at h
    · simp at h
    · rename_i m' g heq
      simp only at h
      simp [heq, ih h]

/- non-vacuity of `delay_batch_ok` / `delay_batch_error_iff`: a batch mixing pre-set metadata, a context delay and a
   message without any delay under AllowNoDelay has no error; without AllowNoDelay it has -/
example : (applyAll ⟨none, true⟩ "t" [{ id := 0, md := [(forKey, .raw "1h")] }, { id := 1, md := [], ctxDelay := some ⟨5, 5, 0⟩ },
    { id := 2, md := [] }]).2.1 = none := by
  simp [applyAll, applyDelay, mget, Val.empty]
example : (applyAll ⟨none, false⟩ "t" [{ id := 1, md := [], ctxDelay := some ⟨5, 5, 0⟩ }, { id := 2, md := [] }]).2.1 = some .noDelay := by
  simp [applyAll, applyDelay, mget, Val.empty]

/-- **delay_batch_one_call_or_none** for the delay publisher over any inner stack: if some message has no delay
    available the error is returned and *nothing* below is called (no inner Publish, no metric); otherwise the whole
    batch – every message stamped by its own precedence, same order – is handed to the next layer in ONE call,
    whose result is returned. -/
theorem delay_batch_one_call_or_none (inner : String) (cfg : DelayCfg) (rest : List PubLayer)
    (topic : String) (ms : List Msg) (w : PWorld) :
    ((∃ e, (applyAll cfg topic ms).2.1 = some e ∧
        (publish inner (.delay cfg :: rest) topic ms w).1 = some e ∧
        (publish inner (.delay cfg :: rest) topic ms w).2.2.calls = w.calls ∧
        (publish inner (.delay cfg :: rest) topic ms w).2.2.obs = w.obs)) ∨
    ((applyAll cfg topic ms).2.1 = none ∧
        publish inner (.delay cfg :: rest) topic ms w =
          publish inner rest topic (ms.map (fun m => (applyDelay cfg topic m).2.1))
            { w with gens := w.gens ++ (applyAll cfg topic ms).2.2 }) := by
  cases he : (applyAll cfg topic ms).2.1 with
  | some e =>
    left
    refine ⟨e, rfl, ?_⟩
    simp only [publish]
    split
    · rename_i ms' e' gs heq
      rw [heq] at he; simp at he; subst he; simp
    · rename_i ms' gs heq
      rw [heq] at he; simp at he
  | none =>
    right
    refine ⟨rfl, ?_⟩
    have hok := delay_batch_ok cfg topic ms he
    simp only [publish]
    split
    · rename_i ms' e' gs heq
      rw [heq] at he; simp at he
    · rename_i ms' gs heq
      rw [heq] at hok; simp only at hok
      rw [heq]; simp [hok]

/-! ## Part 1 – transparency of whole stacks -/

/-- what "transparent" means for one Publish call that went into a stack in world `w` with the batch `ids`:
    either a delay layer refused – then the innermost publisher is not called and the error is that of the
    delay layer – or the innermost publisher is called exactly once, with the same topic and the same message
    objects in the same order, and its result (nil or error) is what the caller gets; the caller's messages are
    those objects. -/
def Forwarded (topic : String) (ids : List Nat) (w : PWorld) (r : Option Err × List Msg × PWorld) : Prop :=
  (r.2.2.calls = w.calls ∧ (r.1 = some .noDelay ∨ r.1 = some .gen) ∧ r.2.2.script = w.script) ∨
  (∃ ms', r.2.2.calls = w.calls ++ [⟨topic, ms'⟩] ∧ ms'.map (·.id) = ids ∧ r.2.1 = ms' ∧
      r.1 = (if w.script.headD false then some .inner else none) ∧ r.2.2.script = w.script.tail)

theorem applyAll_error_kind (cfg : DelayCfg) (topic : String) (ms : List Msg) (e : Err)
    (he : (applyAll cfg topic ms).2.1 = some e) : e = .gen ∨ e = .noDelay := by
  induction ms with
  | nil => simp [applyAll] at he
  | cons m tl ihm =>
    have h1 := delay_one_source cfg topic m
    unfold applyAll at he
    cases hs : sourceOf cfg topic m <;> rw [hs] at h1 <;> simp only at h1
    · rw [h1] at he; simp at he; exact ihm he
    · rcases h1 with ⟨d, _, h2⟩; rw [h2] at he; simp at he; exact ihm he
    · rcases h1 with ⟨g, d, _, _, h2⟩; rw [h2] at he; simp at he; exact ihm he
    · rw [h1] at he; simp at he; exact Or.inl he.symm
    · rw [h1] at he; simp at he; exact ihm he
    · rw [h1] at he; simp at he; exact Or.inr he.symm

/-- **every stack forwards a Publish call once or not at all** (any layers, any depth, any batch, any script) -/
theorem stack_one_call_or_none (inner : String) (layers : List PubLayer) (topic : String) (ms : List Msg) (w : PWorld) :
    Forwarded topic (ms.map (·.id)) w (publish inner layers topic ms w) := by
  induction layers generalizing ms w with
  | nil => right; exact ⟨ms, by simp [publish]⟩
  | cons l rest ih =>
    cases l with
    | transform f =>
      have := ih (ms.map (fun m => { m with md := f m.md })) w
      have hid : (ms.map (fun m => { m with md := f m.md })).map (·.id) = ms.map (·.id) := by
        simp [List.map_map, Function.comp_def]
      rw [hid] at this
      simpa only [publish] using this
    | delay cfg =>
      rcases delay_batch_one_call_or_none inner cfg rest topic ms w with ⟨e, he, h1, h2, _⟩ | ⟨hn, heq⟩
      · left
        have hscript : (publish inner (.delay cfg :: rest) topic ms w).2.2.script = w.script := by
          simp only [publish]
          split
          · simp
          · rename_i ms' gs heq; rw [heq] at he; simp at he
        refine ⟨h2, ?_, hscript⟩
        rw [h1]
        rcases applyAll_error_kind cfg topic ms e he with h | h <;> simp [h]
      · rw [heq]
        have := ih (ms.map (fun m => (applyDelay cfg topic m).2.1)) { w with gens := w.gens ++ (applyAll cfg topic ms).2.2 }
        have hid : (ms.map (fun m => (applyDelay cfg topic m).2.1)).map (·.id) = ms.map (·.id) := by
          simp [List.map_map, Function.comp_def, (applyDelay_fields cfg topic _).1]
        rw [hid] at this
        exact this
    | metrics =>
      cases ms with
      | nil => simpa only [publish] using ih [] w
      | cons m0 tl =>
        have := ih ((m0 :: tl).map (fun m => { m with pubMark := true })) w
        have hid : ((m0 :: tl).map (fun m => { m with pubMark := true })).map (·.id) = (m0 :: tl).map (·.id) := by
          simp [List.map_map, Function.comp_def]
        rw [hid] at this
        simp only [publish]
        by_cases hm : m0.pubMark
        · simpa only [hm, if_true] using this
        · simp only [hm, Bool.false_eq_true, if_false]
          rcases this with ⟨a, b, c⟩ | ⟨ms', a, b, c, d, e⟩
          · exact Or.inl ⟨a, b, c⟩
          · exact Or.inr ⟨ms', a, b, c, d, e⟩

/-- **transform publisher decorators**: a stack of transform decorators calls the wrapped publisher exactly once
    with the same topic and the messages in order, each transformed once by every function, outermost first;
    the result of the wrapped publisher is returned unchanged. -/
theorem transform_pub_transparent (inner : String) (fs : List (MD → MD)) (topic : String) (ms : List Msg) (w : PWorld) :
    publish inner (fs.map .transform) topic ms w =
      publish inner [] topic (ms.map (fun m => { m with md := fs.foldl (fun acc f => f acc) m.md })) w := by
  induction fs generalizing ms with
  | nil => simp
  | cons f rest ih =>
    simp only [List.map_cons, publish]
    rw [ih]
    simp [List.map_map, Function.comp_def, publish]

/-- **Close passes through once**: on every stack, `Close` reaches the wrapped publisher exactly once and its result
    comes back unchanged -/
theorem close_pub_passes_once (layers : List PubLayer) (closeErr : Bool) (w : PWorld) :
    closePub layers closeErr w = (if closeErr then some .close else none, { w with closes := w.closes + 1 }) := by
  induction layers with
  | nil => rfl
  | cons l rest ih => simpa [closePub] using ih

/-- subscriber side: identity and order.  The object handed to the consumer *is* the inner subscriber's object
    (`id` = identity of the Go pointer; no layer copies), so settling it settles the inner message. -/
theorem transform_same_object (inner : String) (layers : List SubLayer) (m : Msg) :
    (deliver inner layers m).1.id = m.id := by
  induction layers with
  | nil => rfl
  | cons l rest ih =>
    cases l with
    | transform f => simpa [deliver] using ih
    | metrics =>
      simp only [deliver]
      split <;> simpa using ih

/-- **every message passes once and in order**: a consumer that reads `reads` messages receives exactly the first
    `reads` objects of the inner subscription, in order, each once -/
theorem transform_sub_in_order (inner : String) (layers : List SubLayer) (msgs : List Msg) (reads : Nat) :
    (subscribeRun inner layers msgs reads).1.map (·.id) = (msgs.take reads).map (·.id) := by
  simp [subscribeRun, List.map_map, Function.comp_def, transform_same_object]

/-- settling what the consumer received settles the inner subscriber's message, for any settlement store keyed by
    object identity -/
theorem settle_outer_settles_inner (inner : String) (layers : List SubLayer) (m : Msg) (st : Nat → Settle) :
    st (deliver inner layers m).1.id = st m.id := by
  rw [transform_same_object]

/-- a stack of transform subscriber decorators applies every function exactly once, innermost first -/
theorem transform_sub_transparent (inner : String) (fs : List (MD → MD)) (m : Msg) :
    deliver inner (fs.map .transform) m = ({ m with md := fs.foldr (fun f acc => f acc) m.md }, []) := by
  induction fs with
  | nil => rfl
  | cons f rest ih => simp [deliver, ih]

/-- Subscribe errors and Close pass through every subscriber stack unchanged; Close reaches the inner subscriber once -/
theorem sub_error_close_pass (layers : List SubLayer) (b : Bool) (n : Nat) :
    subscribeErr layers b = (if b then some .sub else none) ∧
    closeSub layers b n = (if b then some .close else none, n + 1) := by
  induction layers with
  | nil => exact ⟨rfl, rfl⟩
  | cons l rest ih => simpa [subscribeErr, closeSub] using ih

/-- **messages handed out while the wrapped Close is running still pass through**: with a consumer that reads until
    the channel is closed, every message a draining wrapped subscriber hands out during its Close reaches the consumer –
    the same objects, once each, in order – through any stack -/
theorem close_drain_passes_every_message (inner : String) (layers : List SubLayer) (drain : List Msg) :
    (closeDrain inner layers drain).1.map (·.id) = drain.map (·.id) := by
  simp [closeDrain, List.map_map, Function.comp_def, transform_same_object]

/-- releasing the pumps before the wrapped Close loses messages: two handed out, one delivered -/
theorem released_first_loses_message_witness :
    ((closeDrainReleasedFirst "s" [.transform id] (fun i => i = 0) [{ id := 0, md := [] }, { id := 1, md := [] }]).map (·.id)) = [0] ∧
    ((closeDrain "s" [.transform id] [{ id := 0, md := [] }, { id := 1, md := [] }]).1.map (·.id)) = [0, 1] := by
  decide

/-- **a refused Subscribe passes through and leaves nothing behind**: on any stack every Subscribe call returns the
    wrapped subscriber's own answer for that call (so a retry after a refusal works), and in each transform decorator
    the WaitGroup that `Close` waits on registers exactly the forwarding goroutines that were started – whatever the
    pattern of refusals, `Close` has nothing to wait for once the wrapped Close ended them -/
theorem subscribe_refusal_passes_and_close_returns (layers : List SubLayer) (script : List Bool) :
    subscribeSeq layers script = script.map (fun b => if b then some Err.sub else none) ∧
    wgRegistered script - pumpsStarted script = 0 := by
  constructor
  · simp [subscribeSeq, (sub_error_close_pass layers _ 0).1]
  · have : wgRegistered script = pumpsStarted script := by
      induction script with
      | nil => rfl
      | cons b rest ih => simp [wgRegistered, pumpsStarted, ih]; omega
    omega

/-- the seeded registration in front of the wrapped Subscribe: one refusal and `Close` waits forever -/
theorem early_registration_blocks_close_witness :
    wgRegisteredEarly [true] - pumpsStarted [true] = 1 ∧ wgRegistered [true] - pumpsStarted [true] = 0 := by
  decide

example : subscribeSeq [.metrics, .transform id] [true, false] = [some .sub, none] := by
  rw [(subscribe_refusal_passes_and_close_returns _ _).1]; rfl

/-- **every Close call passes through, also a retried one**: for any sequence of Close calls on any subscriber stack
    – the wrapped subscriber failing in any pattern – EACH call reaches the wrapped subscriber exactly once and returns
    that call's own result (a decorator that closes the wrapped subscriber only the first time would swallow the retry) -/
theorem close_sub_each_call_passes (layers : List SubLayer) (script : List Bool) (n : Nat) :
    closeSubSeq layers script n =
      (script.map (fun b => if b then some Err.close else none), n + script.length) := by
  induction script generalizing n with
  | nil => simp [closeSubSeq]
  | cons b rest ih =>
    simp only [closeSubSeq, (sub_error_close_pass layers b n).2, ih]
    simp; omega

example : closeSubSeq [.metrics, .transform id] [true, false] 0 = ([some .close, none], 2) := by
  rw [close_sub_each_call_passes]; rfl

/-- the transparency statements together (name used in DESIGN.md): publisher stacks forward every call once or –
    delay refused – not at all, same topic, same objects, same order, inner result returned; subscriber stacks hand
    over the inner subscriber's objects once each and in order, so settling reaches the inner message; Subscribe
    errors and Close pass unchanged, Close reaching the wrapped object exactly once. -/
theorem transform_transparent :
    (∀ inner layers topic ms w, Forwarded topic (ms.map (·.id)) w (publish inner layers topic ms w)) ∧
    (∀ inner layers msgs reads,
        (subscribeRun inner layers msgs reads).1.map (·.id) = (msgs.take reads).map (·.id)) ∧
    (∀ inner layers m (st : Nat → Settle), st (deliver inner layers m).1.id = st m.id) ∧
    (∀ layers ce w, closePub layers ce w = (if ce then some .close else none, { w with closes := w.closes + 1 })) ∧
    (∀ layers b n, subscribeErr layers b = (if b then some .sub else none) ∧
        closeSub layers b n = (if b then some .close else none, n + 1)) :=
  ⟨stack_one_call_or_none, transform_sub_in_order, settle_outer_settles_inner, close_pub_passes_once,
   sub_error_close_pass⟩

/-! ## Part 3 – metrics count exactly once, with the right label -/

/-- below a metrics decorator every message carries the mark, so no deeper metrics decorator observes anything:
    the idempotency of stacked decorators -/
theorem publish_marked_no_obs (inner : String) (layers : List PubLayer) (topic : String) (ms : List Msg) (w : PWorld)
    (h : ∀ m ∈ ms, m.pubMark = true) : (publish inner layers topic ms w).2.2.obs = w.obs := by
  induction layers generalizing ms w with
  | nil => simp [publish]
  | cons l rest ih =>
    cases l with
    | transform f =>
      simp only [publish]
      apply ih
      intro m hm
      rcases List.mem_map.mp hm with ⟨m', hm', rfl⟩
      exact h m' hm'
    | delay cfg =>
      simp only [publish]
      split
      · simp
      · rename_i ms' gs heq
        have hm := applyAll_marked cfg topic ms h
        rw [heq] at hm
        rw [ih ms' _ hm]
    | metrics =>
      cases ms with
      | nil => simpa only [publish] using ih [] w (by simp)
      | cons m0 tl =>
        have h0 : m0.pubMark = true := h m0 (by simp)
        simp only [publish, h0, if_true]
        apply ih
        intro m hm
        rcases List.mem_map.mp hm with ⟨m', _, rfl⟩
        rfl

example : ∀ m ∈ [({ id := 0, md := [], pubMark := true } : Msg), { id := 1, md := [], pubMark := true }], m.pubMark = true := by
  simp

/-- **metrics_publish_once** (guarded, finding D15 open): a Publish call with a non-empty batch whose first message
    object has not been through a metrics decorator before is observed EXACTLY ONCE by a metrics decorator, whatever
    is stacked below it – further metrics decorators (applied twice, three times, …), delay publishers, transforms –
    and the `success` label is `true` iff the call returned nil (inner failure, generator error and missing delay all
    give `false`); `handler_name` / `publisher_name` come from the first message's context, defaulting to
    `<no handler>` and the wrapped publisher's type name.

    Full statement (does NOT hold, see the two witnesses below): the same for every batch, including the empty one
    and one whose first message already carries the mark (a re-published message object). -/
theorem metrics_publish_once_partial (inner : String) (rest : List PubLayer) (topic : String)
    (m0 : Msg) (tl : List Msg) (w : PWorld) (fresh : m0.pubMark = false) :
    let r := publish inner (.metrics :: rest) topic (m0 :: tl) w
    r.2.2.obs = w.obs ++ [⟨orElse m0.hName noHandler, orElse m0.pName (pubStackName inner rest), r.1.isNone⟩] := by
  have hno := publish_marked_no_obs inner rest topic ((m0 :: tl).map (fun m => { m with pubMark := true })) w
    (by intro m hm; rcases List.mem_map.mp hm with ⟨m', _, rfl⟩; rfl)
  simp only [publish, fresh, Bool.false_eq_true, if_false]
  rw [hno]

/-- the same with the metrics decorator anywhere in the stack: under any prefix of transform and delay layers the
    call is observed once if it gets to the decorator and not at all if a delay layer above refused -/
theorem metrics_publish_at_most_once (inner : String) (layers : List PubLayer) (topic : String) (ms : List Msg) (w : PWorld) :
    ∃ extra, (publish inner layers topic ms w).2.2.obs = w.obs ++ extra ∧ extra.length ≤ 1 := by
  induction layers generalizing ms w with
  | nil => exact ⟨[], by simp [publish]⟩
  | cons l rest ih =>
    cases l with
    | transform f => simpa only [publish] using ih _ w
    | delay cfg =>
      simp only [publish]
      split
      · exact ⟨[], by simp⟩
      · rename_i ms' gs heq
        rcases ih ms' { w with gens := w.gens ++ gs } with ⟨ex, h1, h2⟩
        exact ⟨ex, by simpa using h1, h2⟩
    | metrics =>
      cases ms with
      | nil => simpa only [publish] using ih [] w
      | cons m0 tl =>
        have hno := publish_marked_no_obs inner rest topic ((m0 :: tl).map (fun m => { m with pubMark := true })) w
          (by intro m hm; rcases List.mem_map.mp hm with ⟨m', _, rfl⟩; rfl)
        by_cases hm : m0.pubMark
        · refine ⟨[], ?_, by simp⟩
          simp only [publish, hm, if_true, List.append_nil]
          exact hno
        · refine ⟨[⟨orElse m0.hName noHandler, orElse m0.pName (pubStackName inner rest),
              (publish inner rest topic ((m0 :: tl).map (fun m => { m with pubMark := true })) w).1.isNone⟩], ?_, by simp⟩
          simp only [publish, hm, Bool.false_eq_true, if_false, hno]

/-- "applied twice": two (or any number ≥ 1 of) metrics decorators on top of each other count a fresh call once -/
theorem metrics_publish_once_stacked (inner : String) (k : Nat) (topic : String)
    (m0 : Msg) (tl : List Msg) (w : PWorld) (fresh : m0.pubMark = false) :
    let r := publish inner (nMetrics (k + 1)) topic (m0 :: tl) w
    r.2.2.obs = w.obs ++ [⟨orElse m0.hName noHandler, orElse m0.pName (pubStackName inner (nMetrics k)), r.1.isNone⟩] :=
  metrics_publish_once_partial inner (nMetrics k) topic m0 tl w fresh

def witnessMsg : Msg := { id := 0, md := [] }

/-- **finding D15, first pattern** (`republish-same-message-object`): a failed Publish followed by a retry with the
    same message object – two calls of the wrapped publisher, ONE observation -/
theorem republish_undercount_witness :
    let r1 := publish "p" [.metrics] "t" [witnessMsg] { script := [true, false] }
    let r2 := publish "p" [.metrics] "t" r1.2.1 r1.2.2
    r1.1 = some .inner ∧ r2.1 = none ∧ r2.2.2.calls.length = 2 ∧ r2.2.2.obs.length = 1 := by
  simp [publish, witnessMsg]

/-- **finding D15, second pattern** (`empty-batch`): an empty batch reaches the wrapped publisher and is not observed -/
theorem empty_batch_witness :
    let r := publish "p" [.metrics] "t" [] {}
    r.2.2.calls.length = 1 ∧ r.2.2.obs.length = 0 := by
  simp [publish]

example : (publish "p" [.metrics, .metrics] "t" [witnessMsg] { script := [true] }).2.2.obs =
    [⟨noHandler, "metrics.PublisherPrometheusMetricsDecorator", false⟩] := by
  rw [metrics_publish_once_partial "p" [.metrics] "t" witnessMsg [] { script := [true] } rfl]
  simp [publish, witnessMsg, orElse, pubStackName, PubLayer.name]

/-! ### subscriber -/

def hasSubMetrics : List SubLayer → Bool
  | [] => false
  | .metrics :: _ => true
  | _ :: r => hasSubMetrics r

/-- the mark and the number of counting goroutines after a message went through a stack: exactly one goroutine is
    started iff the message came in unmarked and the stack holds at least one metrics decorator -/
theorem deliver_watchers (inner : String) (layers : List SubLayer) (m : Msg) :
    (deliver inner layers m).1.subMark = (m.subMark || hasSubMetrics layers) ∧
    (deliver inner layers m).1.hName = m.hName ∧
    ((m.subMark = false ∧ hasSubMetrics layers = true) →
        ∃ s, (deliver inner layers m).2 = [⟨m.id, orElse m.hName noHandler, s⟩]) ∧
    ((m.subMark = true ∨ hasSubMetrics layers = false) → (deliver inner layers m).2 = []) := by
  induction layers with
  | nil => simp [deliver, hasSubMetrics]
  | cons l rest ih =>
    rcases ih with ⟨i1, i2, i3, i4⟩
    have hid := transform_same_object inner rest m
    cases l with
    | transform f =>
      simp only [deliver, hasSubMetrics]
      exact ⟨i1, i2, i3, i4⟩
    | metrics =>
      simp only [deliver, hasSubMetrics]
      by_cases hmk : (deliver inner rest m).1.subMark
      · simp only [hmk, if_true]
        rw [hmk] at i1
        refine ⟨by simp, i2, ?_, ?_⟩
        · intro ⟨hf, _⟩
          have hr : hasSubMetrics rest = true := by simpa [hf] using i1.symm
          exact i3 ⟨hf, hr⟩
        · intro h
          rcases h with h | h
          · exact i4 (Or.inl h)
          · simp at h
      · simp only [hmk, Bool.false_eq_true, if_false]
        simp only [Bool.not_eq_true] at hmk
        rw [hmk] at i1
        have h1 : m.subMark = false ∧ hasSubMetrics rest = false := by
          have := i1.symm; simpa using this
        refine ⟨by simp, by simpa using i2, ?_, ?_⟩
        · intro _
          rw [i4 (Or.inr h1.2), hid, i2]
          exact ⟨_, rfl⟩
        · intro h
          rcases h with h | h
          · rw [h1.1] at h; simp at h
          · simp at h

theorem subCounts_append (st : Nat → Settle) (a b : List Watcher) :
    subCounts st (a ++ b) = subCounts st a ++ subCounts st b := by
  induction a with
  | nil => rfl
  | cons w r ih => simp only [List.cons_append, subCounts]; split <;> simp [ih]

/-- **metrics_subscribe_once**, one message: through a stack with at least one metrics decorator (also the same
    decorator twice or three times) a fresh message is counted exactly once when it is settled – `acked` iff it was
    acked, `nacked` iff it was nacked – and not at all while it is unsettled.  Without a metrics decorator nothing is
    counted. -/
theorem metrics_subscribe_once (inner : String) (layers : List SubLayer) (m : Msg) (st : Nat → Settle)
    (fresh : m.subMark = false) (hm : hasSubMetrics layers = true) :
    ∃ s, subCounts st (deliver inner layers m).2 =
      (match st m.id with
       | .none => []
       | .ack => [⟨orElse m.hName noHandler, s, true⟩]
       | .nack => [⟨orElse m.hName noHandler, s, false⟩]) := by
  rcases (deliver_watchers inner layers m).2.2.1 ⟨fresh, hm⟩ with ⟨s, hs⟩
  refine ⟨s, ?_⟩
  rw [hs]
  simp only [subCounts]
  cases st m.id <;> rfl

example : hasSubMetrics [.metrics, .transform id, .metrics] = true ∧ ({ id := 3, md := [] } : Msg).subMark = false :=
  ⟨rfl, rfl⟩

/-- **counting does not depend on the subscription context**: cancelling the context a message carries, at any
    point before or after the settlement, changes nothing – the message is counted iff it is settled, with the label
    of the first settlement -/
theorem metrics_subscribe_counts_after_cancel (evs : List WEv) :
    watcherRun evs = watcherRun (evs.filter (· ≠ .cancel)) ∧
    (watcherRun evs = none ↔ ∀ e ∈ evs, e = .cancel) := by
  constructor
  · induction evs with
    | nil => simp [watcherRun]
    | cons e rest ih => cases e <;> simp [watcherRun, ih]
  · induction evs with
    | nil => simp [watcherRun]
    | cons e rest ih => cases e <;> simp [watcherRun, ih]

/-- the seeded variant that stops waiting when the context is done loses a message settled after the cancellation -/
theorem cancel_aware_watcher_undercount_witness :
    watcherRun [.cancel, .nack] = some false ∧ watcherRunCancelAware [.cancel, .nack] = none := by
  decide

theorem metrics_subscribe_none (inner : String) (layers : List SubLayer) (m : Msg) (st : Nat → Settle)
    (hm : hasSubMetrics layers = false) : subCounts st (deliver inner layers m).2 = [] := by
  rw [(deliver_watchers inner layers m).2.2.2 (Or.inr hm)]; rfl

/-- the whole subscription: the number of increments equals the number of received messages that are settled, for
    any number of fresh messages and any consumer -/
theorem metrics_subscribe_once_run (inner : String) (layers : List SubLayer) (msgs : List Msg) (reads : Nat)
    (st : Nat → Settle) (fresh : ∀ m ∈ msgs, m.subMark = false) (hm : hasSubMetrics layers = true) :
    (subCounts st (subscribeRun inner layers msgs reads).2).length =
      ((msgs.take reads).filter (fun m => st m.id ≠ .none)).length ∧
    ((subCounts st (subscribeRun inner layers msgs reads).2).filter (·.acked)).length =
      ((msgs.take reads).filter (fun m => st m.id = .ack)).length := by
  simp only [subscribeRun]
  have hf : ∀ m ∈ msgs.take reads, m.subMark = false := fun m hm' => fresh m (List.mem_of_mem_take hm')
  generalize msgs.take reads = l at hf
  induction l with
  | nil => simp [subCounts]
  | cons m rest ih =>
    have ih' := ih (fun x hx => hf x (List.mem_cons_of_mem _ hx))
    rcases metrics_subscribe_once inner layers m st (hf m (by simp)) hm with ⟨s, hs⟩
    simp only [List.map_cons, List.flatten_cons, subCounts_append, hs, List.filter_cons, List.length_append,
      List.filter_append]
    simp only [List.map_map] at ih'
    cases hst : st m.id <;> simp [ih'.1, ih'.2] <;> omega

example : subCounts (fun _ => .nack) (deliver "s" [.metrics, .transform id, .metrics] { id := 3, md := [] }).2 =
    [⟨noHandler, "s", false⟩] := by
  simp [deliver, subCounts, orElse, subStackName, noHandler]

/-! ### handler middleware and the Router -/

/-- **metrics_handler_once**, the label: success iff the handler returned without error and did not panic -/
theorem handler_label (h : String) (o : Outcome) :
    (handlerObs h o).handler = h ∧ ((handlerObs h o).success = true ↔ (o ≠ .err ∧ o ≠ .panic)) := by
  cases o <;> simp [handlerObs]

/-- the unrepaired middleware (finding D4, fixed by commit "metrics handler middleware labels a panicking handler
    success=false") labelled a panic as success -/
theorem old_panic_label_witness (h : String) :
    (handlerObsOld h .panic).success = true ∧ (handlerObs h .panic).success = false := by
  simp [handlerObsOld, handlerObs]

theorem nMetrics_succ (k : Nat) : nMetrics (k + 1) = .metrics :: nMetrics k := rfl

theorem hasSubMetrics_n (k : Nat) : hasSubMetrics (nSubMetrics (k + 1)) = true := rfl

theorem produced_fresh (h pn sn : String) (base n : Nat) : ∀ m ∈ produced h pn sn base n, m.pubMark = false := by
  induction n generalizing base with
  | zero => simp [produced]
  | succ n ih =>
    intro m hm
    simp only [produced, List.mem_cons] at hm
    rcases hm with rfl | hm
    · rfl
    · exact ih _ m hm

/-- `k + 1` metrics subscriber decorators on top of each other: one counting goroutine for a fresh message -/
theorem deliver_nSub (sn : String) (k : Nat) (m : Msg) (fresh : m.subMark = false) :
    (deliver sn (nSubMetrics (k + 1)) m).2 = [⟨m.id, orElse m.hName noHandler, orElse m.sName sn⟩] ∧
    (deliver sn (nSubMetrics (k + 1)) m).1.subMark = true := by
  induction k with
  | zero => simp [nSubMetrics, deliver, fresh, subStackName]
  | succ k ih =>
    show (deliver sn (.metrics :: nSubMetrics (k + 1)) m).2 = _ ∧
         (deliver sn (.metrics :: nSubMetrics (k + 1)) m).1.subMark = true
    simp only [deliver, ih.2, if_true]
    exact ⟨ih.1, trivial⟩

/-- a stack of metrics publisher decorators never refuses: one call of the wrapped publisher, its result returned -/
theorem publish_nMetrics (pn topic : String) (k : Nat) (ms : List Msg) (pw : PWorld) :
    (publish pn (nMetrics k) topic ms pw).1 = (if pw.script.headD false then some .inner else none) ∧
    ∃ ms', (publish pn (nMetrics k) topic ms pw).2.2.calls = pw.calls ++ [⟨topic, ms'⟩] := by
  induction k generalizing ms with
  | zero => simp [nMetrics, publish]
  | succ k ihk =>
    cases ms with
    | nil => simpa [nMetrics, publish] using ihk []
    | cons a b =>
      have := ihk ((a :: b).map (fun m => { m with pubMark := true }))
      simp only [nMetrics, publish]
      by_cases ha : a.pubMark
      · simpa only [ha, if_true] using this
      · simpa only [ha, Bool.false_eq_true, if_false] using this

/-- the subscriber decorators touch only the SUBSCRIBE mark: what the consumer (or a handler) receives carries the
    publish mark, handler name and publisher name of the inner subscriber's message -/
theorem deliver_keeps_pub (inner : String) (layers : List SubLayer) (m : Msg) :
    (deliver inner layers m).1.pubMark = m.pubMark ∧ (deliver inner layers m).1.hName = m.hName ∧
    (deliver inner layers m).1.pName = m.pName := by
  induction layers with
  | nil => simp [deliver]
  | cons l rest ih =>
    cases l with
    | transform f => simpa [deliver] using ih
    | metrics =>
      simp only [deliver]
      split <;> simpa using ih

/-- **a received message is counted on its first Publish**: a fresh message that came through ANY subscriber stack
    (metrics decorators included – they set the subscribe mark, a different context key) and is then handed, same
    object, to a metrics publisher decorator over any stack is observed exactly once, with the label of the result -/
theorem metrics_publish_once_after_receive (subInner pubInner : String) (subLayers : List SubLayer)
    (rest : List PubLayer) (topic : String) (m : Msg) (tl : List Msg) (w : PWorld) (fresh : m.pubMark = false) :
    let m' := (deliver subInner subLayers m).1
    let r := publish pubInner (.metrics :: rest) topic (m' :: tl) w
    r.2.2.obs = w.obs ++ [⟨orElse m.hName noHandler, orElse m.pName (pubStackName pubInner rest), r.1.isNone⟩] := by
  have hk := deliver_keeps_pub subInner subLayers m
  have := metrics_publish_once_partial pubInner rest topic (deliver subInner subLayers m).1 tl w (by rw [hk.1]; exact fresh)
  simp only at this ⊢
  rw [this, hk.2.1, hk.2.2]

example : ((publish "p" [.metrics] "t" [(deliver "s" [.metrics, .metrics] { id := 0, md := [] }).1] {}).2.2.obs).length = 1 := by
  rw [metrics_publish_once_after_receive "s" "p" [.metrics, .metrics] [] "t" { id := 0, md := [] } [] {} rfl]; rfl

/-- whatever a handler returns, the first message of its output has no publish mark and carries the handler's and
    publisher's names: fresh messages get them from `addHandlerContext`, the consumed message (pass-through) got them
    from the router's context decorator and only the SUBSCRIBE mark from the metrics subscriber decorators -/
theorem outputs_head (h pn sn : String) (i ks : Nat) (o : Outcome) (m0 : Msg) (tl : List Msg)
    (hout : outputsOf h pn sn i (deliver sn (nSubMetrics ks) ⟨i, [], none, false, false, h, pn, sn⟩).1 o = some (m0 :: tl)) :
    m0.pubMark = false ∧ m0.hName = h ∧ m0.pName = pn := by
  have hk := deliver_keeps_pub sn (nSubMetrics ks) ⟨i, [], none, false, false, h, pn, sn⟩
  cases o with
  | err => simp [outputsOf] at hout
  | panic => simp [outputsOf] at hout
  | ok n =>
    cases n with
    | zero => simp [outputsOf, produced] at hout
    | succ n => simp [outputsOf, produced] at hout; rcases hout with ⟨rfl, _⟩; simp
  | pass pre post =>
    cases pre with
    | zero => simp [outputsOf, produced] at hout; rcases hout with ⟨rfl, _⟩; exact hk
    | succ n => simp [outputsOf, produced] at hout; rcases hout with ⟨rfl, _⟩; simp

/-- one message whose handler fails (error or panic) or succeeds without output: ONE handler observation with the
    right label, ONE subscriber count with the label of the settlement, nothing published, no publish observation -/
theorem router_step_no_output (h pn sn : String) (kp ks i : Nat) (o : Outcome) (w : RWorld)
    (ho : outputsOf h pn sn i (deliver sn (nSubMetrics (ks + 1)) ⟨i, [], none, false, false, h, pn, sn⟩).1 o = none ∨
          outputsOf h pn sn i (deliver sn (nSubMetrics (ks + 1)) ⟨i, [], none, false, false, h, pn, sn⟩).1 o = some []) :
    let w' := routerStep h pn sn kp (ks + 1) 1 i o w
    let acked : Bool :=
      (outputsOf h pn sn i (deliver sn (nSubMetrics (ks + 1)) ⟨i, [], none, false, false, h, pn, sn⟩).1 o).isSome
    w'.hobs = w.hobs ++ [handlerObs h o] ∧ w'.settles = w.settles ++ [if acked then .ack else .nack] ∧
    w'.sobs = w.sobs ++ [⟨orElse h noHandler, orElse sn sn, acked⟩] ∧ w'.pw = w.pw := by
  have hd := (deliver_nSub sn ks ⟨i, [], none, false, false, h, pn, sn⟩ rfl).1
  rcases ho with ho | ho <;> simp [routerStep, ho, hd, subCounts, settleAndPublish]

example : (routerStep "h" "P" "S" 2 2 1 7 .panic {}).sobs = [⟨"h", "S", false⟩] ∧
    (routerStep "h" "P" "S" 2 2 1 7 .panic {}).hobs = [⟨"h", false⟩] := by
  have := router_step_no_output "h" "P" "S" 2 1 7 .panic {} (Or.inl rfl)
  simp only at this
  rcases this with ⟨h1, _, h3, _⟩
  rw [h1, h3]; simp [handlerObs, orElse, outputsOf]

/-- one message whose handler returns a non-empty output – fresh messages, the consumed message itself (pass-through),
    or a mix in any order: ONE handler observation `success=true` (whatever happens to the output afterwards), ONE
    Publish call of the wrapped publisher, ONE publish observation labelled with the result of that call, ONE
    subscriber count: `acked` iff the output was published. Decorators applied `kp + 1` / `ks + 1` times. -/
theorem router_step_output (h pn sn : String) (kp ks i : Nat) (o : Outcome) (m0 : Msg) (tl : List Msg) (w : RWorld)
    (hout : outputsOf h pn sn i (deliver sn (nSubMetrics (ks + 1)) ⟨i, [], none, false, false, h, pn, sn⟩).1 o =
      some (m0 :: tl)) :
    let w' := routerStep h pn sn (kp + 1) (ks + 1) 1 i o w
    let fail := w.pw.script.headD false
    let st : Settle := if fail then .nack else .ack
    w'.hobs = w.hobs ++ [handlerObs h o] ∧ w'.settles = w.settles ++ [st] ∧
    w'.sobs = w.sobs ++ [⟨orElse h noHandler, orElse sn sn, !fail⟩] ∧
    (∃ ms, w'.pw.calls = w.pw.calls ++ [⟨"out", ms⟩]) ∧
    w'.pw.obs = w.pw.obs ++ [⟨orElse h noHandler, orElse pn (pubStackName pn (nMetrics kp)), !fail⟩] := by
  have hd := (deliver_nSub sn ks ⟨i, [], none, false, false, h, pn, sn⟩ rfl).1
  rcases outputs_head h pn sn i (ks + 1) o m0 tl hout with ⟨hf, hh, hpn⟩
  have hp := metrics_publish_once_partial pn (nMetrics kp) "out" m0 tl w.pw hf
  have hn := publish_nMetrics pn "out" (kp + 1) (m0 :: tl) w.pw
  rcases hn with ⟨hres, ms', hcalls⟩
  simp only [nMetrics_succ] at hp hres hcalls
  simp only [routerStep, hout, hd, settleAndPublish, nMetrics_succ]
  simp only [hp, hres, hh, hpn]
  refine ⟨by simp, ?_, ?_, ⟨ms', hcalls⟩, ?_⟩ <;>
    cases w.pw.script.headD false <;> simp [subCounts]

example : outputsOf "h" "P" "S" 3 (deliver "S" (nSubMetrics 2) ⟨3, [], none, false, false, "h", "P", "S"⟩).1 (.pass 0 1) =
    some [⟨3, [], none, false, true, "h", "P", "S"⟩, ⟨4500, [], none, false, false, "h", "P", "S"⟩] := by
  simp [outputsOf, produced, nSubMetrics, deliver]

/-- **metrics_handler_once** (guarded, finding `handler-middleware-applied-twice` open): with the middleware
    registered ONCE (`km = 1`), over any sequence of handler outcomes (success with or without output, error, panic,
    output that cannot be published) and any failure script of the publisher, every invocation is observed exactly
    once, in order, labelled `success=true` exactly for the invocations that returned nil without panicking – a publish
    failure afterwards does not change the handler's label.

    Full statement (does NOT hold, see `handler_applied_twice_witness`): the same for every `km ≥ 1`, i.e.
    `(routerRun h pn sn kp ks km i outs w).hobs = w.hobs ++ outs.map (handlerObs h)` also when the middleware (or
    `AddPrometheusRouterMetrics`) is applied twice.  Missing: an "already observed" mark like the ones the publisher and
    subscriber decorators keep in the message context. -/
theorem metrics_handler_once_partial (h pn sn : String) (kp ks : Nat) (outs : List Outcome) (i : Nat) (w : RWorld) :
    (routerRun h pn sn kp ks 1 i outs w).hobs = w.hobs ++ outs.map (handlerObs h) := by
  induction outs generalizing i w with
  | nil => simp [routerRun]
  | cons o rest ih =>
    simp only [routerRun]
    rw [ih]
    have : (routerStep h pn sn kp ks 1 i o w).hobs = w.hobs ++ [handlerObs h o] := by
      simp [routerStep]
    rw [this]; simp

/-- **overlapping invocations**: every invocation is labelled by its OWN outcome only (the label set is built per
    call, nothing is shared between calls), so in whatever order the invocations of a handler end – i.e. however they
    overlap – the observations are the same up to order: per label the same counts -/
theorem metrics_handler_order_independent (h pn sn : String) (kp ks : Nat) (outs outs' : List Outcome) (i j : Nat)
    (hp : outs.Perm outs') :
    (routerRun h pn sn kp ks 1 i outs {}).hobs.Perm (routerRun h pn sn kp ks 1 j outs' {}).hobs := by
  rw [metrics_handler_once_partial, metrics_handler_once_partial]
  simpa using hp.map (handlerObs h)

example : [Outcome.ok 0, .err, .panic].Perm [.panic, .ok 0, .err] := by decide

/-- what the code does for any number of registrations: the middleware has no idempotency mark, EACH of the `km`
    applications observes every invocation once (so the histogram shows `km` samples per invocation, all with the
    same, correct label) -/
theorem metrics_handler_each_application (h pn sn : String) (kp ks km : Nat) (outs : List Outcome) (i : Nat) (w : RWorld) :
    (routerRun h pn sn kp ks km i outs w).hobs = w.hobs ++ outs.flatMap (fun o => List.replicate km (handlerObs h o)) := by
  induction outs generalizing i w with
  | nil => simp [routerRun]
  | cons o rest ih =>
    simp only [routerRun]
    rw [ih]
    have : (routerStep h pn sn kp ks km i o w).hobs = w.hobs ++ List.replicate km (handlerObs h o) := rfl
    rw [this]; simp

example : (routerRun "h" "P" "S" 1 1 2 0 [.ok 0, .panic] {}).hobs =
    [⟨"h", true⟩, ⟨"h", true⟩, ⟨"h", false⟩, ⟨"h", false⟩] := by
  rw [metrics_handler_each_application]; rfl

/-- **finding `handler-middleware-applied-twice`**: with the middleware registered twice ONE invocation leaves TWO
    observations – the unguarded `metrics_handler_once` fails for `km = 2` -/
theorem handler_applied_twice_witness :
    (routerRun "h" "P" "S" 1 1 2 0 [.ok 0] {}).hobs = [⟨"h", true⟩, ⟨"h", true⟩] ∧
    (routerRun "h" "P" "S" 1 1 2 0 [.ok 0] {}).hobs ≠ [Outcome.ok 0].map (handlerObs "h") ∧
    (routerRun "h" "P" "S" 1 1 2 0 [.ok 0] {}).settles.length = 1 := by
  rw [metrics_handler_each_application]
  refine ⟨rfl, by decide, ?_⟩
  simp [routerRun, routerStep]

/-- the three metrics over a whole run, decorators applied once or several times: as many subscriber counts as
    messages, `acked` ones as many as acked messages; as many publish observations as calls of the wrapped
    publisher; as many handler observations as invocations -/
theorem router_metrics_exact (h pn sn : String) (kp ks : Nat) (outs : List Outcome) (i : Nat) (w : RWorld) :
    let w' := routerRun h pn sn (kp + 1) (ks + 1) 1 i outs w
    w'.hobs.length = w.hobs.length + outs.length ∧
    w'.settles.length = w.settles.length + outs.length ∧
    w'.sobs.length = w.sobs.length + outs.length ∧
    (w'.sobs.filter (·.acked)).length + (w.settles.filter (· = .ack)).length =
      (w.sobs.filter (·.acked)).length + (w'.settles.filter (· = .ack)).length ∧
    w'.pw.obs.length + w.pw.calls.length = w.pw.obs.length + w'.pw.calls.length := by
  induction outs generalizing i w with
  | nil => simp [routerRun]
  | cons o rest ih =>
    simp only [routerRun]
    have := ih (i + 1) (routerStep h pn sn (kp + 1) (ks + 1) 1 i o w)
    simp only at this
    rcases this with ⟨a1, a2, a3, a4, a5⟩
    have hcase : (outputsOf h pn sn i (deliver sn (nSubMetrics (ks + 1)) ⟨i, [], none, false, false, h, pn, sn⟩).1 o = none ∨
          outputsOf h pn sn i (deliver sn (nSubMetrics (ks + 1)) ⟨i, [], none, false, false, h, pn, sn⟩).1 o = some []) ∨
        ∃ m0 tl, outputsOf h pn sn i (deliver sn (nSubMetrics (ks + 1)) ⟨i, [], none, false, false, h, pn, sn⟩).1 o =
          some (m0 :: tl) := by
      cases outputsOf h pn sn i (deliver sn (nSubMetrics (ks + 1)) ⟨i, [], none, false, false, h, pn, sn⟩).1 o with
      | none => simp
      | some l => cases l <;> simp
    rcases hcase with ho | ⟨m0, tl, hout⟩
    · have hs := router_step_no_output h pn sn (kp + 1) ks i o w ho
      simp only at hs
      generalize (outputsOf h pn sn i (deliver sn (nSubMetrics (ks + 1)) ⟨i, [], none, false, false, h, pn, sn⟩).1 o).isSome
        = acked at hs
      rcases hs with ⟨h1, h2, h3, h4⟩
      rw [h1] at a1; rw [h2] at a2 a4; rw [h3] at a3 a4; rw [h4] at a5
      simp only [List.length_append, List.length_cons, List.length_nil, List.filter_append] at a1 a2 a3 a4 ⊢
      refine ⟨by omega, by omega, by omega, ?_, a5⟩
      cases acked <;> simp at a4 ⊢ <;> omega
    · have hs := router_step_output h pn sn kp ks i o m0 tl w hout
      simp only at hs
      generalize w.pw.script.headD false = fail at hs
      rcases hs with ⟨h1, h2, h3, ⟨ms, h4⟩, h5⟩
      rw [h1] at a1; rw [h2] at a2 a4; rw [h3] at a3 a4; rw [h4, h5] at a5
      simp only [List.length_append, List.length_cons, List.length_nil, List.filter_append] at a1 a2 a3 a4 a5 ⊢
      refine ⟨by omega, by omega, by omega, ?_, by omega⟩
      cases fail <;> simp at a4 ⊢ <;> omega

example : (routerRun "h" "P" "S" 2 2 1 0 [.ok 1, .panic, .pass 0 1, .err] { pw := { script := [false, true] } }).hobs =
    [⟨"h", true⟩, ⟨"h", false⟩, ⟨"h", true⟩, ⟨"h", false⟩] := by
  rw [metrics_handler_once_partial]; rfl

end Wm.Decor
