/-
  C02 – generated tie: the skeletons of `handleMessage` / `publishProducedMessages` / `disabledPublisher.Publish`
  extracted from the current Go source (`WmModel/Gen/HandleBody.lean`, rewritten by the extractor on every run),
  interpreted with Go's defer/recover/return semantics (`WmModel/GoHandle.lean`), yield exactly the effect list of
  the hand-written model – for every handler configuration, every behaviour of the handler chain (any outputs,
  any message identity type) and every behaviour of the publisher.
-/
import WmModel.GoHandle
import WmModel.Gen.HandleBody
namespace Wm.GoHandle
open Wm.Handle

theorem handle_skeleton_eq_model {α : Type} (c : Cfg) (o : Outcome α) (p : PubOutcome) :
    exec Gen.handleBody Gen.publishBody Gen.disabledPublish c o p = some (handle c o p) := by
  rcases o with ⟨s, r⟩
  rcases c with ⟨k, t⟩
  -- one error message instead of one per case when the extracted skeleton no longer matches
  first
    | (rcases s with _ | _ | _ <;> rcases r with ⟨_ | ⟨x, xs⟩, _ | _⟩ | v <;> cases k <;> cases p <;> rfl)
    | fail "the skeleton of handleMessage/publishProducedMessages extracted from the Go source differs from Wm.Handle.handle"

/-- `publishProducedMessages` alone: effects and result equal the model's `publishProduced` -/
theorem publish_skeleton_eq_model {α : Type} (c : Cfg) (outs : List α) (p : PubOutcome) :
    execP Gen.disabledPublish c outs p Gen.publishBody [] = some (publishProduced c outs p) := by
  rcases c with ⟨k, t⟩
  first
    | (cases outs <;> cases k <;> cases p <;> rfl)
    | fail "the skeleton of publishProducedMessages extracted from the Go source differs from Wm.Handle.publishProduced"

/-- the deferred `Done()` is registered first (runs last) and the recovering function settles the message -/
theorem skeleton_defers :
    Gen.handleBody.take 2 = [.deferDone, .deferRecover [.nack]] := by rfl

/-! non-vacuity (independent of the generated file): the interpreter is not trivially `some`/`none` – a body without
    the Nack in the error branch, or with the Ack before publishing, is told apart from the model, and a panic
    nobody recovers is `none` -/
def refPublishBody : List PStmt := [.ifNoOutsRetNil, .ifNilPubRetErr, .ifPublishErrRetErr, .retNil]

example : exec [.deferDone, .deferRecover [.nack], .callHandler, .ifErr [.ret], .simple .addCtx,
      .ifPublishErr [.nack, .ret], .simple .ack] refPublishBody .retErrNoPublisher
      ⟨.withPub, "t"⟩ (⟨none, .returns [] true⟩ : Outcome Nat) .accept
    = some [.handlerCalled, .done] := by rfl
example : exec [.deferDone, .deferRecover [.nack], .callHandler, .ifErr [.nack, .ret], .simple .addCtx, .simple .ack,
      .ifPublishErr [.nack, .ret]] refPublishBody .retErrNoPublisher
      ⟨.withPub, "t"⟩ (⟨none, .returns [1] false⟩ : Outcome Nat) .error
    = some [.handlerCalled, .addCtx [1], .routerAck, .publishCall "t" [1], .publishRet .error, .routerNack, .done] := by rfl
example : exec [.deferDone, .callHandler] refPublishBody .retErrNoPublisher
      ⟨.withPub, "t"⟩ (⟨none, .panics .value⟩ : Outcome Nat) .accept = none := by rfl
example : exec [.deferRecover [.nack], .deferDone, .callHandler] refPublishBody .retErrNoPublisher
      ⟨.withPub, "t"⟩ (⟨none, .panics .value⟩ : Outcome Nat) .accept
    = some [.handlerCalled, .done, .recovered, .routerNack] := by rfl

end Wm.GoHandle
