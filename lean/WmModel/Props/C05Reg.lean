/-
  Registry-level theorems for the GoChannel properties (model M_reg, WmModel/GcReg.lean): every reachable state,
  any number of Publish / Subscribe / Close calls and unsubscribe goroutines, every interleaving of their steps.
  * C07: `removeSubscriber` always finds its subscriber and `subscribersWg` never goes negative (no panic);
  * C05: a blocking Publish moves on only when every sender of the snapshot finished or the Pub/Sub is closing;
         the known finding D11 (nested publish + pending writer) as a machine-checked witness run of the model;
  * C07: Publish and Subscribe that start on a closed Pub/Sub return an error.
-/
import WmModel.Lemmas.GcRegRsStep
import WmModel.Lemmas.GcRegClose
namespace Wm.GcReg
open Wm.Lts

theorem reach_w1 (cfg : Cfg) : ∀ s, Reach (sys cfg) s → W1 s :=
  inv_of_step (sys cfg) W1 (w1_init cfg) (fun s a s' h ha => w1_step s a s' h ha)

theorem reach_wg (cfg : Cfg) : ∀ s, Reach (sys cfg) s → WgOk s :=
  inv_of_step (sys cfg) WgOk (wg_init cfg) (fun s a s' h ha => wg_step s a s' h ha)

theorem reach_rs (cfg : Cfg) : ∀ s, Reach (sys cfg) s → RsOk s :=
  inv_of_step' (sys cfg) RsOk (rs_init cfg) (fun s a s' hr h ha => rs_step s a s' (reach_w1 cfg s hr) h ha)

/-- at most one thread is past `announce`: the write lock of the subscribers RWMutex has one owner -/
theorem writer_unique (cfg : Cfg) (s : St) (h : Reach (sys cfg) s) (i j : Nat) (a b : Th)
    (hi : s.ths[i]? = some a) (hj : s.ths[j]? = some b) (ha : holdsW a = true) (hb : holdsW b = true) : i = j := by
  have h1 := reach_w1 cfg s h i a hi ha
  have h2 := reach_w1 cfg s h j b hj hb
  rw [h1] at h2; injection h2

/-- **the registry never panics**: `removeSubscriber` finds the subscriber it is asked to remove and
    `subscribersWg.Done()` never makes the counter negative – for every interleaving of Publish, Subscribe (with
    persistent replay), context cancels, unsubscribe goroutines and Close calls -/
theorem registry_never_panics (cfg : Cfg) : ∀ s, Reach (sys cfg) s → s.panicked = false := by
  apply inv_of_step' (sys cfg) (fun s => s.panicked = false) (by simp [init, sys])
  intro s a s' hr hp ha
  have hw := reach_w1 cfg s hr
  have hg := reach_wg cfg s hr
  have hrs := reach_rs cfg s hr
  cases a <;> simp only [sys, act] at ha
  case newPub t msgs nested =>
    cases nested with
    | none => simp at ha; subst ha; exact hp
    | some p =>
      simp only at ha
      split at ha
      · simp at ha; subst ha; exact hp
      · simp at ha
  case newSub t => simp at ha; subst ha; exact hp
  case newClose => simp at ha; subst ha; exact hp
  case cancel sid => simp at ha; subst ha; exact hp
  case senderDone d sid =>
    split at ha
    · simp at ha; subst ha; exact hp
    · simp at ha
  case step i =>
    split at ha
    · rename_i t rest pc ao hth
      cases pc <;> simp only [stepPub] at ha
      all_goals (repeat' split at ha)
      all_goals (try (simp at ha))
      all_goals (try (subst ha))
      all_goals (try (simp [setTh, finishSender]; exact hp))
    · rename_i t sid pc hth
      cases pc <;> simp only [stepSub] at ha
      all_goals (repeat' split at ha)
      all_goals (try (simp at ha))
      all_goals (try (subst ha))
      all_goals (try (simp [setTh]; exact hp))
    · rename_i t sid pc hth
      cases pc <;> simp only [stepTd] at ha
      case remove =>
        -- the two panic branches are unreachable
        have hmem : (sid, t) ∈ s.subs := by
          rcases hrs.2.2.2 i t sid .remove hth (by decide) with h1 | ⟨j, hj⟩
          · exact h1
          · have := writer_unique cfg s hr i j _ _ hth hj rfl rfl
            subst this; rw [hth] at hj; cases hj
        have hwg : s.wg ≠ 0 := by
          have := countP_pos_of_get s.ths i _ hth rfl
          unfold WgOk at hg; omega
        have hc : s.subs.contains (sid, t) = true := List.contains_iff_mem.mpr hmem
        simp [hmem, hwg] at ha; subst ha; simp [setTh]; exact hp
      all_goals (repeat' split at ha)
      all_goals (try (simp at ha))
      all_goals (try (subst ha))
      all_goals (try (simp [setTh]; exact hp))
    · rename_i pc hth
      cases pc <;> simp only [stepCloser] at ha
      all_goals (repeat' split at ha)
      all_goals (try (simp at ha))
      all_goals (try (subst ha))
      all_goals (try (simp [setTh]; exact hp))
    · simp at ha

/-- **blocking publish waits**: a Publish in BlockPublishUntilSubscriberAck mode leaves its wait for message `d` only
    when every sender goroutine of the snapshot taken for that message has finished, or the Pub/Sub is closing -/
theorem blocking_publish_waits (s s' : St) (i t d : Nat) (rest : List Nat) (ao : Option (Nat × Nat))
    (ha : stepPub s i t rest (.wait d) ao = some s') :
    (s.disp[d]?.getD []) = [] ∨ s.closingSig = true := by
  simp only [stepPub] at ha
  split at ha
  · rename_i hc
    simp at hc
    rcases hc with hc | hc
    · exact Or.inl hc
    · exact Or.inr hc
  · simp at ha

/-- … and it reaches that wait for every message it handed to `sendMessage` (blocking configuration) -/
theorem blocking_send_then_wait (s s' : St) (i t m : Nat) (r : List Nat) (ao : Option (Nat × Nat))
    (hb : s.cfg.blocking = true) (ha : stepPub s i t (m :: r) .send ao = some s') :
    s'.ths[i]? = some (.pub t r (.wait s.disp.length) ao) ∨ s.ths[i]? = none := by
  simp [stepPub, hb] at ha
  subst ha
  by_cases hi : i < s.ths.length
  · left; simp [setTh, List.getElem?_set_self hi]
  · right; simp at hi; exact List.getElem?_eq_none hi

/-- **after Close: Publish and Subscribe fail**: with `closed` set (and no Close call holding `closedLock`) the first
    step of a Publish or Subscribe call is the error return -/
theorem publish_after_close_errs (s s' : St) (i t : Nat) (rest : List Nat) (ao : Option (Nat × Nat))
    (hc : s.closed = true) (ha : stepPub s i t rest .start ao = some s') :
    s' = setTh s i (.pub t rest .retErr ao) := by
  simp only [stepPub] at ha
  split at ha
  · simp at ha
  · simp [hc] at ha; exact ha.symm

theorem subscribe_after_close_errs (s s' : St) (i t sid : Nat)
    (hc : s.closed = true) (ha : stepSub s i t sid .start = some s') :
    s' = setTh s i (.sub t sid .retErr) := by
  simp only [stepSub] at ha
  split at ha
  · simp at ha
  · simp [hc] at ha; exact ha.symm

/-! ### Known finding D11 as a witness in the model

  Blocking mode. Subscription 0 (topic 0) exists; Publish P1 (thread 2) on topic 0 holds the read lock and waits for
  the ack; a second Subscribe (thread 3) has announced itself as writer and waits for the readers to drain; the
  consumer of subscription 0 calls Publish on topic 1 before acking (thread 4): its RLock is blocked by the announced
  writer.  No thread can move, `senderDone` for the delivery P1 waits for is reserved for the return of thread 4. -/
def d11Run : List Action :=
  [.newSub 0, .step 0, .step 0, .step 0, .step 0, .step 0, .step 0,
   .newPub 0 [7] none, .step 2, .step 2, .step 2, .step 2, .step 2,
   .newSub 1, .step 3, .step 3, .step 3,
   .newPub 1 [8] (some (0, 0)), .step 4]

theorem blocking_deadlock_witness :
    ∃ s, exec (sys ⟨false, true⟩) (init ⟨false, true⟩) d11Run = some s ∧
      s.ths[2]? = some (.pub 0 [] (.wait 0) none) ∧       -- the outer Publish has not returned
      s.ths[4]? = some (.pub 1 [8] .rlock (some (0, 0))) ∧ -- the consumer's nested Publish is stuck before RLock
      s.ann = some 3 ∧ s.readers = [2] ∧                    -- pending writer, one reader
      someThreadEnabled s = false ∧                         -- no thread can take a step
      act s (.senderDone 0 0) = none := by                  -- and the awaited sender cannot finish on its own
  refine ⟨_, rfl, ?_, ?_, ?_, ?_, ?_, ?_⟩ <;> decide

/-- the same program without the pending Subscribe completes: the nested Publish returns, the delivery is acked,
    the outer Publish returns – the deadlock needs the pending writer -/
theorem blocking_without_pending_writer_returns :
    ∃ s, exec (sys ⟨false, true⟩) (init ⟨false, true⟩)
      [.newSub 0, .step 0, .step 0, .step 0, .step 0, .step 0, .step 0,
       .newPub 0 [7] none, .step 2, .step 2, .step 2, .step 2, .step 2,
       .newPub 1 [8] (some (0, 0)), .step 3, .step 3, .step 3, .step 3, .step 3, .step 3, .step 3, .step 3,
       .senderDone 0 0, .step 2, .step 2, .step 2] = some s ∧
      s.ths[2]? = some (.pub 0 [] .retOk none) ∧ s.readers = [] := by
  refine ⟨_, rfl, ?_, ?_⟩ <;> decide

end Wm.GcReg

namespace Wm.GcReg
open Wm.Lts

theorem reach_close (cfg : Cfg) : ∀ s, Reach (sys cfg) s → CloseOk s :=
  inv_of_step (sys cfg) CloseOk (close_init cfg) (fun s a s' h ha => close_step s a s' h ha)

/-- a Close call that has returned (or is waiting for the subscribers) has closed the Pub/Sub; `g.closing` is
    signalled exactly when `closed` is set; the persisted backlog is dropped only after closing -/
theorem close_returned_means_closed (cfg : Cfg) (s : St) (h : Reach (sys cfg) s) (i : Nat) (pc : CPc)
    (hi : s.ths[i]? = some (.closer pc)) (hpc : pc ≠ .start) :
    s.closed = true ∧ s.closingSig = true ∧ (s.logNil = true → s.closed = true) := by
  obtain ⟨c1, _, c3, c4⟩ := reach_close cfg s h
  have hc := c1 i pc hi hpc
  exact ⟨hc, by rw [c3]; exact hc, c4⟩

/-- **after Close has returned, Publish and Subscribe return an error**: in every reachable state in which some
    Close call has returned, the first step of any Publish or Subscribe call – if it can move at all – is the
    error return -/
theorem after_close_errors (cfg : Cfg) (s : St) (h : Reach (sys cfg) s) (k : Nat)
    (hk : s.ths[k]? = some (.closer .ret)) :
    (∀ i t rest ao s', stepPub s i t rest .start ao = some s' → s' = setTh s i (.pub t rest .retErr ao)) ∧
    (∀ i t sid s', stepSub s i t sid .start = some s' → s' = setTh s i (.sub t sid .retErr)) := by
  have hc := (close_returned_means_closed cfg s h k .ret hk (by decide)).1
  exact ⟨fun i t rest ao s' ha => publish_after_close_errs s s' i t rest ao hc ha,
         fun i t sid s' ha => subscribe_after_close_errs s s' i t sid hc ha⟩

/-- only the Close call that waits for the subscribers holds `closedLock` -/
theorem closed_lock_owner (cfg : Cfg) (s : St) (h : Reach (sys cfg) s) (i : Nat) (hl : s.closedLock = some i) :
    s.ths[i]? = some (.closer .waitWg) :=
  ((reach_close cfg s h).2.1 i hl).1

end Wm.GcReg

namespace Wm.GcReg

/-- **every subscription registered for the topic when the message is handed over gets a sender, and nobody else**:
    the `sendMessage` step of a Publish on topic `t` starts exactly one sender goroutine per subscription registered
    for `t` at that moment – none for subscriptions of other topics – and records them as the ones the dispatcher of
    that message waits for -/
theorem send_starts_one_sender_per_registered (s s' : St) (i t m : Nat) (r : List Nat) (ao : Option (Nat × Nat))
    (ha : stepPub s i t (m :: r) .send ao = some s') :
    s'.started = s.started ++ (subsOf s t).map (fun sid => (sid, m)) ∧
    s'.disp = s.disp ++ [subsOf s t] ∧
    (∀ sid, (sid, m) ∈ (subsOf s t).map (fun sid => (sid, m)) ↔ (sid, t) ∈ s.subs) := by
  have hmem : ∀ sid, (sid, m) ∈ (subsOf s t).map (fun sid => (sid, m)) ↔ (sid, t) ∈ s.subs := by
    intro sid
    simp only [subsOf, List.mem_map, List.mem_filter]
    constructor
    · rintro ⟨a, ⟨⟨b1, b2⟩, ⟨hb, hbt⟩, hba⟩, ha⟩
      injection ha with ha _
      subst ha
      simp at hbt hba
      subst hbt; subst hba; exact hb
    · intro h
      exact ⟨sid, ⟨(sid, t), ⟨h, by simp⟩, rfl⟩, rfl⟩
  simp only [stepPub] at ha
  split at ha <;> (simp at ha; subst ha; exact ⟨by simp [setTh], by simp [setTh], hmem⟩)

/-- in blocking mode the next message of a batch is handed over only after the wait for the previous one ended:
    from `wait d` the only step of the Publish thread is the one guarded by `blocking_publish_waits` -/
theorem blocking_order (s s' : St) (i t d : Nat) (rest : List Nat) (ao : Option (Nat × Nat))
    (ha : stepPub s i t rest (.wait d) ao = some s') :
    s' = setTh s i (.pub t rest .send ao) ∧ s'.started = s.started := by
  simp only [stepPub] at ha
  split at ha
  · simp at ha; subst ha; exact ⟨rfl, by simp [setTh]⟩
  · simp at ha

end Wm.GcReg
