/-
  C13 – generated tie: the deferred closure of `poisonQueue.Middleware` and the body of `publishPoisonMessage`,
  extracted from the current Go source and interpreted, equal the hand-written model `Wm.Poison.middleware`
  for every poison topic, filter, publisher outcome, context, message and handler result.
  `WmModel/Gen/PoisonBody.lean` is rewritten by the extractor on every run.
-/
import WmModel.GoPoison
import WmModel.Gen.PoisonBody
namespace Wm.GoPoison
open Wm.Poison

theorem wrapPrefix_eq : ascii "cannot publish message to poison queue" ++ ascii ": " = wrapPrefix := by decide

theorem extracted_middleware_eq_model (env : Env) (msg : Msg) (h : HRes) :
    run env Gen.deferBody Gen.publishBody msg h =
      some (viewOut (middleware env.ptopic env.filter env.pub env.ctx msg h)) := by
  rcases h with ⟨sets, outs, err⟩
  rcases env with ⟨pt, filter, pub, ctx⟩
  cases err with
  | none => rfl
  | some e =>
    cases hf : filter e with
    | false =>
      simp [run, Gen.deferBody, execL, exec1, evalC, middleware, viewOut, viewErr, hf]
    | true =>
      cases pub with
      | ok =>
        simp [run, Gen.deferBody, Gen.publishBody, runPublish, execL, exec1, evalC, evalV, middleware, viewOut, viewErr, hf, stamp,
          reasonKey, topicKey, handlerKey, subscriberKey]
      | fail t =>
        simp [run, Gen.deferBody, Gen.publishBody, runPublish, execL, exec1, evalC, evalV, middleware, viewOut, viewErr, hf, stamp,
          reasonKey, topicKey, handlerKey, subscriberKey, ← wrapPrefix_eq]
      | panic t =>
        simp [run, Gen.deferBody, Gen.publishBody, runPublish, execL, exec1, evalC, evalV, middleware, viewOut, viewErr, hf, stamp,
          reasonKey, topicKey, handlerKey, subscriberKey]

end Wm.GoPoison
