/-
  C15 – generated tie: the bodies of the three router handler closures of components/cqrs, extracted from the current
  Go source (`WmModel/Gen/CqrsBody.lean`, rewritten by the extractor on every run) and interpreted
  (`WmModel/GoCqrs.lean`), equal the hand-written model `Cqrs.single` / `Cqrs.group` for every codec, flag setting,
  handler position, registry (any length), message and outcome assignment; nothing in them was left unrecognised.
-/
import WmModel.GoCqrs
import WmModel.Gen.CqrsBody
set_option linter.unusedSimpArgs false
namespace Wm.GoCqrs
open Wm.Cqrs

variable {V : Type}

theorem extracted_command_eq_model (c : Codec V) (fl : Flags) (i : Nat) (h : Handler) (m : Msg) :
    runSingle Gen.commandBody c fl i h m = some (single c .command fl i h m) := by
  rcases fl with ⟨a, u⟩
  by_cases hn : m.name = h.tyName <;> cases hd : c.decode h.ty m.payload <;> cases ho : m.out i <;> cases a <;>
    simp [runSingle, Gen.commandBody, block, exec, evalC, finish, initSt, single, hn, hd, ho, onOtherName, afterHandle]

theorem extracted_event_eq_model (c : Codec V) (fl : Flags) (i : Nat) (h : Handler) (m : Msg) :
    runSingle Gen.eventBody c fl i h m = some (single c .event fl i h m) := by
  rcases fl with ⟨a, u⟩
  by_cases hn : m.name = h.tyName <;> cases hd : c.decode h.ty m.payload <;> cases ho : m.out i <;> cases u <;>
    simp [runSingle, Gen.eventBody, block, exec, evalC, finish, initSt, single, hn, hd, ho, onOtherName, afterHandle]

/-- state at the start of an iteration -/
def iterSt (s : St V) (p : Nat × Handler) : St V :=
  { s with cur := some p, expectKnown := false, value := none, err := none, ctxVar := none }

theorem loop_cons (env : Env V) (body : Stmt) (p : Nat × Handler) (rest : List (Nat × Handler)) (s : St V) :
    loop env body (p :: rest) s =
      (match exec env body (iterSt s p) with
       | .normal s' => loop env body rest s'
       | .cont s' => loop env body rest s'
       | o => o) := rfl

/-- the loop of the extracted group closure followed by its tail, from any state the loop can be in -/
theorem extracted_group_loop (c : Codec V) (fl : Flags) (m : Msg) (hs : List (Nat × Handler)) (s : St V) (any : Bool)
    (hname : s.nameRead = true) (hh : s.handled = some any) :
    (match loop ⟨c, fl, m⟩ Gen.groupLoopBody hs s with
     | .normal s' => finish (exec ⟨c, fl, m⟩ Gen.groupPost s')
     | .cont _ => none
     | o => finish o) =
    some (s.invs ++ (groupLoop c fl m hs s.msgCtx any).1, (groupLoop c fl m hs s.msgCtx any).2) := by
  induction hs generalizing s any with
  | nil =>
    rcases fl with ⟨a, u⟩
    cases any <;> cases u <;>
      simp [loop, Gen.groupPost, block, exec, evalC, finish, groupLoop, hh]
  | cons p rest ih =>
    obtain ⟨i, h⟩ := p
    rw [loop_cons]
    by_cases hn : m.name = h.tyName
    · cases hd : c.decode h.ty m.payload with
      | none =>
        have hstep : exec ⟨c, fl, m⟩ Gen.groupLoopBody (iterSt s (i, h)) =
            .ret { iterSt s (i, h) with expectKnown := true, msgCtx := ctxWithOriginal s.msgCtx m.id,
                                        ctxVar := some (ctxWithOriginal s.msgCtx m.id) } .retErr := by
          simp [iterSt, Gen.groupLoopBody, block, exec, evalC, hn, hd, hname]
        rw [hstep]
        simp [finish, iterSt, groupLoop, hn, hd]
      | some v =>
        cases ho : m.out i
        · have hstep : exec ⟨c, fl, m⟩ Gen.groupLoopBody (iterSt s (i, h)) =
              .normal { iterSt s (i, h) with
                expectKnown := true, msgCtx := ctxWithOriginal s.msgCtx m.id,
                ctxVar := some (ctxWithOriginal s.msgCtx m.id), value := some v, err := some false,
                handled := some true,
                invs := s.invs ++ [⟨i, v, originalFromCtx (ctxWithOriginal s.msgCtx m.id)⟩] } := by
            simp [iterSt, Gen.groupLoopBody, block, exec, evalC, hn, hd, ho, hname, hh]
          rw [hstep]
          simp only []
          rw [ih _ true (by simp [iterSt, hname]) (by simp)]
          simp [groupLoop, hn, hd, ho, iterSt]
        · have hstep : exec ⟨c, fl, m⟩ Gen.groupLoopBody (iterSt s (i, h)) =
              .ret { iterSt s (i, h) with
                expectKnown := true, msgCtx := ctxWithOriginal s.msgCtx m.id,
                ctxVar := some (ctxWithOriginal s.msgCtx m.id), value := some v, err := some true,
                invs := s.invs ++ [⟨i, v, originalFromCtx (ctxWithOriginal s.msgCtx m.id)⟩] } .retErr := by
            simp [iterSt, Gen.groupLoopBody, block, exec, evalC, hn, hd, ho, hname, hh]
          rw [hstep]
          simp [finish, iterSt, groupLoop, hn, hd, ho]
        · have hstep : exec ⟨c, fl, m⟩ Gen.groupLoopBody (iterSt s (i, h)) =
              .ret { iterSt s (i, h) with
                expectKnown := true, msgCtx := ctxWithOriginal s.msgCtx m.id,
                ctxVar := some (ctxWithOriginal s.msgCtx m.id), value := some v,
                invs := s.invs ++ [⟨i, v, originalFromCtx (ctxWithOriginal s.msgCtx m.id)⟩] } .panic := by
            simp [iterSt, Gen.groupLoopBody, block, exec, evalC, hn, hd, ho, hname, hh]
          rw [hstep]
          simp [finish, iterSt, groupLoop, hn, hd, ho]
    · have hstep : exec ⟨c, fl, m⟩ Gen.groupLoopBody (iterSt s (i, h)) =
          .cont { iterSt s (i, h) with expectKnown := true } := by
        simp [iterSt, Gen.groupLoopBody, block, exec, evalC, hn, hname]
      rw [hstep]
      simp only []
      rw [ih _ any (by simp [iterSt, hname]) (by simp [iterSt, hh])]
      simp [groupLoop, hn, iterSt]

theorem extracted_group_eq_model (c : Codec V) (fl : Flags) (reg : List Handler) (m : Msg) :
    runGroup Gen.groupPre Gen.groupLoopBody Gen.groupPost c fl reg m = some (group c fl reg m) := by
  have := extracted_group_loop c fl m (indexed reg)
    { msgCtx := m.ctx, ctxVar := none, nameRead := true, cur := none, expectKnown := false,
      value := none, err := none, handled := some false, invs := [] } false rfl rfl
  simp [runGroup, Gen.groupPre, block, exec, initSt, group] at this ⊢
  exact this

theorem extracted_no_unknown :
    Gen.commandBody.unknowns = 0 ∧ Gen.eventBody.unknowns = 0 ∧ Gen.groupPre.unknowns = 0 ∧
    Gen.groupLoopBody.unknowns = 0 ∧ Gen.groupPost.unknowns = 0 := by decide

end Wm.GoCqrs
