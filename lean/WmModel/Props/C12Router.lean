/-
  C12 × C02 – what the subscriber sees when `Retry` wraps a handler inside a Router, derived from the two tied models:
  `Wm.Retry.retry` (tied to the source of middleware/retry.go by `Props/C12Tie.lean`) feeding `Wm.Handle.handle` (tied to
  `handler.handleMessage` by `Props/C02Tie.lean`), settled by the first-wins model of C03.

    * `acked_under_retry_iff`: the consumed message is Acked iff the LAST handler call succeeded and its outputs (if any)
      were accepted by the handler's publisher – never because the retries were used up;
    * `published_under_retry`: what is published is exactly the outputs of that successful call, in one call, on the
      handler's topic (outputs of failed attempts are never published);
    * `nacked_when_all_attempts_fail`: if every call failed the message is Nacked (so the Pub/Sub redelivers it – the
      retries add to, and do not replace, at-least-once).
-/
import WmModel.Props.C12
import WmModel.Props.C02
namespace Wm.Retry
open Wm.Handle (Cfg PubOutcome handle sentAfter AckCond final_settlement)

/-- the result of the middleware as `handleMessage` sees it -/
def Run.toResult (r : Run) : Handle.Result Nat := .returns r.msgs r.err.isSome

theorem acked_under_retry_iff (k : Ack.Kind) (c : Handle.Cfg) (hc : c.kind = .withPub) (cfg : Retry.Cfg) (sc : Script)
    (p : PubOutcome) :
    sentAfter k (handle c ⟨none, (retry cfg sc).toResult⟩ p) = .ack ↔
      ∃ a, (retry cfg sc).attempts.getLast? = some a ∧ a.out.err = none ∧ (a.out.outs = [] ∨ p = .accept) := by
  have hfs := (final_settlement k c (retry cfg sc).toResult p).1
  rw [hfs]
  obtain ⟨a, h1, h2⟩ := result_is_last_attempts cfg sc
  constructor
  · rintro ⟨outs, ho, hcond⟩
    simp [Run.toResult] at ho
    obtain ⟨ho1, ho2⟩ := ho
    have hok : a.out.err = none := by
      rw [← h2]; cases he : (retry cfg sc).err with
      | none => rfl
      | some e => simp [he] at ho2
    have hm : a ∈ (retry cfg sc).attempts := List.mem_of_getLast? h1
    obtain ⟨i, hi⟩ := List.getElem?_of_mem hm
    have hmsgs := (first_success_wins cfg sc i a hi hok).2.2.1
    refine ⟨a, h1, hok, ?_⟩
    rcases hcond with h | ⟨_, h⟩
    · left; rw [← hmsgs, ho1, h]
    · right; exact h
  · rintro ⟨a', h1', hok, hcond⟩
    rw [h1] at h1'; cases h1'
    have hm : a ∈ (retry cfg sc).attempts := List.mem_of_getLast? h1
    obtain ⟨i, hi⟩ := List.getElem?_of_mem hm
    have hmsgs := (first_success_wins cfg sc i a hi hok).2.2.1
    refine ⟨(retry cfg sc).msgs, ?_, ?_⟩
    · simp [Run.toResult, h2, hok]
    · rcases hcond with h | h
      · left; rw [hmsgs, h]
      · right; exact ⟨hc, h⟩

/-- the `Publish` calls of an effect list -/
def pubCallsOf : List (Handle.Effect Nat) → List (String × List Nat)
  | [] => []
  | .publishCall t ms :: rest => (t, ms) :: pubCallsOf rest
  | _ :: rest => pubCallsOf rest

theorem published_under_retry (c : Handle.Cfg) (hc : c.kind = .withPub) (cfg : Retry.Cfg) (sc : Script) (p : PubOutcome) :
    pubCallsOf (handle c ⟨none, (retry cfg sc).toResult⟩ p) =
      (match (retry cfg sc).err, (retry cfg sc).msgs with
       | none, m :: ms => [(c.topic, m :: ms)]
       | _, _ => []) ∧
    ((retry cfg sc).err = none → ∃ a, (retry cfg sc).attempts.getLast? = some a ∧ (retry cfg sc).msgs = a.out.outs) := by
  constructor
  · cases he : (retry cfg sc).err with
    | some e => simp [Run.toResult, he, handle, Handle.selfEff, pubCallsOf]
    | none =>
      cases hm : (retry cfg sc).msgs with
      | nil => simp [Run.toResult, he, hm, handle, Handle.selfEff, Handle.publishProduced, Handle.settleTail, pubCallsOf]
      | cons m ms =>
        have ht : Handle.pubTopic c = c.topic := by unfold Handle.pubTopic; rw [hc]
        cases p <;>
          simp [Run.toResult, he, hm, handle, Handle.selfEff, Handle.publishProduced, hc, Handle.settleTail, pubCallsOf,
            Handle.effPub, ht]
  · intro he
    obtain ⟨a, h1, h2⟩ := result_is_last_attempts cfg sc
    have hok : a.out.err = none := by rw [← h2]; exact he
    have hm : a ∈ (retry cfg sc).attempts := List.mem_of_getLast? h1
    obtain ⟨i, hi⟩ := List.getElem?_of_mem hm
    exact ⟨a, h1, (first_success_wins cfg sc i a hi hok).2.2.1⟩

theorem nacked_when_all_attempts_fail (k : Ack.Kind) (c : Handle.Cfg) (cfg : Retry.Cfg) (sc : Script) (p : PubOutcome)
    (hfail : ∀ a ∈ (retry cfg sc).attempts, a.out.err ≠ none) :
    sentAfter k (handle c ⟨none, (retry cfg sc).toResult⟩ p) = .nack ∧
      pubCallsOf (handle c ⟨none, (retry cfg sc).toResult⟩ p) = [] := by
  obtain ⟨a, e, _, _, he⟩ := last_error_returned cfg sc hfail
  constructor
  · apply (final_settlement k c (retry cfg sc).toResult p).2.2
    rintro ⟨outs, ho, _⟩
    simp [Run.toResult, he] at ho
  · simp [Run.toResult, he, handle, Handle.selfEff, pubCallsOf]

/-! ### non-vacuity: the third call succeeds → Ack; nine failing calls → Nack, nothing published -/
example : sentAfter .new (handle ⟨.withPub, "out"⟩ ⟨none, (retry exCfg (exScript 2 fun _ => .timer 0)).toResult⟩ .accept) = .ack := by
  decide
example : sentAfter .new (handle ⟨.withPub, "out"⟩ ⟨none, (retry exCfg (exScript 9 fun _ => .timer 0)).toResult⟩ .accept) = .nack ∧
    pubCallsOf (handle ⟨.withPub, "out"⟩ ⟨none, (retry exCfg (exScript 9 fun _ => .timer 0)).toResult⟩ .accept) = [] := by
  decide

end Wm.Retry
