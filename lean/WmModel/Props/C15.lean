/-
  C15 – CQRS buses and processors dispatch by type name with the configured ack policy.
  Property theorems only (helper lemmas: `WmModel/Lemmas/Cqrs.lean`, model: `WmModel/Cqrs.lean`).

  All statements quantify over every value type `V`, every codec / name function / topic generator / callback (the
  library parts are parameters), every registry (any length, any names, duplicates allowed), every flag setting, every
  message (any metadata, payload, incoming context) and every assignment of handler outcomes.  Streams: processors keep
  no state between messages (`per_message_independent`), so the per-message statements are statements about every
  position of every stream.
-/
import WmModel.Cqrs
import WmModel.Lemmas.Cqrs
set_option linter.unusedSimpArgs false
namespace Wm.Cqrs

variable {V : Type}

/-! ## buses -/

/-- **published once, on the generated topic, with name and encoding**: no send publishes twice; a successful send
    published exactly one message, on the topic the configuration generates for the value's type name, with the library
    encoding as payload and the metadata the marshaler produced (`name` ↦ type name) as left by OnSend/OnPublish and
    `modify`. -/
theorem bus_publishes_once (cfg : BusCfg V) (v : V) :
    ((send cfg v).1.filter isPublish).length ≤ 1 ∧
    ((send cfg v).2 = none →
      ∃ payload topic, cfg.encode v = some payload ∧ cfg.topicOf (cfg.nameOf v) v = some topic ∧
        (send cfg v).1.filter isPublish =
          [.publish topic (applyCb cfg.modify (applyCb cfg.hook [(nameKey, cfg.nameOf v)])) payload]) := by
  rcases cfg with ⟨enc, nm, top, hook, mod, ok⟩
  cases he : enc v <;> cases ht : top (nm v) v <;> rcases hook with _ | _ | f <;> rcases mod with _ | _ | g <;>
    cases ok <;>
    simp [send, marshal, he, ht, isPublish, List.filter, applyCb, metaSet]

/-- whatever is published **carries the type name, goes to the generated topic and holds the encoding** (callbacks that
    leave the name key alone, or none) -/
theorem bus_name_metadata (cfg : BusCfg V) (v : V) (topic : String) (md : Meta) (payload : Bytes)
    (hh : KeepsName cfg.hook) (hm : KeepsName cfg.modify)
    (hp : BusEff.publish topic md payload ∈ (send cfg v).1) :
    nameFromMeta md = cfg.nameOf v ∧ cfg.topicOf (cfg.nameOf v) v = some topic ∧ cfg.encode v = some payload := by
  have base : nameFromMeta [(nameKey, cfg.nameOf v)] = cfg.nameOf v := by
    simp [nameFromMeta, metaGet, List.lookup]
  have key : nameFromMeta (applyCb cfg.modify (applyCb cfg.hook [(nameKey, cfg.nameOf v)])) = cfg.nameOf v := by
    rw [hm, hh, base]
  rcases cfg with ⟨enc, nm, top, hook, mod, ok⟩
  cases he : enc v <;> cases ht : top (nm v) v <;> rcases hook with _ | _ | f <;> rcases mod with _ | _ | g <;>
    simp [send, marshal, he, ht, applyCb, metaSet] at hp key ⊢
  all_goals (obtain ⟨rfl, rfl, rfl⟩ := hp; simp_all)

/-- **OnSend/OnPublish runs before Publish**: the publish is the last effect, and when a hook is configured it was
    called before, with the marshalled message -/
theorem bus_hook_before_publish (cfg : BusCfg V) (v : V) (pre post : List BusEff) (e : BusEff)
    (hs : (send cfg v).1 = pre ++ e :: post) (he : isPublish e = true) :
    post = [] ∧ (cfg.hook.isSome → ∃ payload, cfg.encode v = some payload ∧
                  BusEff.hook (cfg.nameOf v) [(nameKey, cfg.nameOf v)] payload ∈ pre) := by
  rcases cfg with ⟨enc, nm, top, hook, mod, ok⟩
  cases e <;> simp [isPublish] at he
  cases hen : enc v <;> cases ht : top (nm v) v <;> rcases hook with _ | _ | f <;> rcases mod with _ | _ | g <;>
    simp [send, marshal, hen, ht, metaSet] at hs ⊢ <;>
    rcases pre with _ | ⟨a, _ | ⟨b, _ | ⟨c, _ | ⟨d, pre⟩⟩⟩⟩ <;> simp_all <;> grind

/-- **an error before the publish aborts the send**: marshal error, topic generator error, OnSend/OnPublish error or
    `modify` error ⇒ nothing is published and the send reports an error -/
theorem bus_error_aborts (cfg : BusCfg V) (v : V)
    (h : cfg.encode v = none ∨ cfg.topicOf (cfg.nameOf v) v = none ∨ cfg.hook = some none ∨ cfg.modify = some none) :
    (send cfg v).1.filter isPublish = [] ∧ (send cfg v).2 ≠ none := by
  rcases cfg with ⟨enc, nm, top, hook, mod, ok⟩
  cases he : enc v <;> cases ht : top (nm v) v <;> rcases hook with _ | _ | f <;> rcases mod with _ | _ | g <;>
    simp_all [send, marshal, isPublish, List.filter]

/-- the send succeeds exactly when every step does -/
theorem bus_result_ok_iff (cfg : BusCfg V) (v : V) :
    (send cfg v).2 = none ↔
      ((cfg.encode v).isSome ∧ (cfg.topicOf (cfg.nameOf v) v).isSome ∧ cfg.hook ≠ some none ∧ cfg.modify ≠ some none ∧
        cfg.pubOk = true) := by
  rcases cfg with ⟨enc, nm, top, hook, mod, ok⟩
  cases he : enc v <;> cases ht : top (nm v) v <;> rcases hook with _ | _ | f <;> rcases mod with _ | _ | g <;>
    cases ok <;> simp_all [send, marshal]

/-- a failing publisher was called exactly once (no retry, no second topic) -/
theorem bus_publish_error_once (cfg : BusCfg V) (v : V) (h : (send cfg v).2 = some .publish) :
    ((send cfg v).1.filter isPublish).length = 1 := by
  rcases cfg with ⟨enc, nm, top, hook, mod, ok⟩
  cases he : enc v <;> cases ht : top (nm v) v <;> rcases hook with _ | _ | f <;> rcases mod with _ | _ | g <;>
    cases ok <;> simp_all [send, marshal, isPublish, List.filter]

/-- **each value on the topic generated for *it***: in any sequence of sends through one bus – any length, any
    configuration changes between the sends, a topic generator that reads the value – the `j`-th send does exactly what a
    single send of the `j`-th value under the `j`-th configuration does; in particular, when it succeeds it publishes once,
    on `GeneratePublishTopic{name of that value, that value}`, whatever was sent before. -/
theorem bus_each_send_on_its_own_topic (l : List (BusCfg V × V)) (j : Nat) (cfg : BusCfg V) (v : V)
    (hj : l[j]? = some (cfg, v)) :
    (sendSeq l)[j]? = some (send cfg v) ∧
    ((send cfg v).2 = none →
      ∃ payload topic, cfg.encode v = some payload ∧ cfg.topicOf (cfg.nameOf v) v = some topic ∧
        (send cfg v).1.filter isPublish =
          [.publish topic (applyCb cfg.modify (applyCb cfg.hook [(nameKey, cfg.nameOf v)])) payload]) := by
  refine ⟨?_, (bus_publishes_once cfg v).2⟩
  simp [sendSeq, hj]

/-! non-vacuity: a JSON-like command bus with an OnSend hook that adds a key -/
section
private def exCfg : BusCfg Nat :=
  { encode := fun n => some [UInt8.ofNat n], nameOf := fun _ => "main.Cmd", topicOf := fun n v => some ("t." ++ toString (v % 2) ++ "." ++ n),
    hook := some (some (fun md => metaSet md "x" "1")), modify := none, pubOk := true }
example : send exCfg 7 =
    ([.topicGen "main.Cmd", .hook "main.Cmd" [("name", "main.Cmd")] [7],
      .publish "t.1.main.Cmd" [("x", "1"), ("name", "main.Cmd")] [7]], none) := by decide
example : KeepsName exCfg.hook := keepsName_set "x" "1" (by decide)
example : (send { exCfg with hook := some none } 7).2 = some .hook := by decide
-- two values of one type (same name), a generator that reads the value: two different topics
example : ((sendSeq [(exCfg, 7), (exCfg, 8), (exCfg, 9)]).map (fun r => r.1.filter isPublish)) =
    [[.publish "t.1.main.Cmd" [("x", "1"), ("name", "main.Cmd")] [7]],
     [.publish "t.0.main.Cmd" [("x", "1"), ("name", "main.Cmd")] [8]],
     [.publish "t.1.main.Cmd" [("x", "1"), ("name", "main.Cmd")] [9]]] := by decide
end

/-! ## command and event processors (one router handler per registered handler) -/

/-- **invoked iff the name matches** (the delivery to the subscription of handler `i`): nobody but handler `i` is ever
    called, at most once, and it is called exactly when the message's name equals the handler's type name (and the
    payload decodes – otherwise there is no value to call it with); the value it gets is the decoded one. -/
theorem invoked_iff_name_matches (c : Codec V) (k : Kind) (fl : Flags) (i : Nat) (h : Handler) (m : Msg) :
    (∀ inv ∈ (single c k fl i h m).1, inv.h = i ∧ some inv.value = c.decode h.ty m.payload) ∧
    (single c k fl i h m).1.length ≤ 1 ∧
    ((single c k fl i h m).1 ≠ [] ↔ (m.name = h.tyName ∧ (c.decode h.ty m.payload).isSome)) := by
  unfold single
  by_cases hn : m.name = h.tyName <;> cases hd : c.decode h.ty m.payload <;> simp [hn, hd]

/-- the message name is the value under the metadata key `name`; a message without that key has the empty name -/
theorem name_from_metadata (m : Msg) :
    (m.md.lookup "name" = none → m.name = "") ∧ (∀ s, m.md.lookup "name" = some s → m.name = s) := by
  constructor
  · intro h; simp [Msg.name, nameFromMeta, metaGet, nameKey, h]
  · intro s h; simp [Msg.name, nameFromMeta, metaGet, nameKey, h]

/-- **ack table** of the command and event processors -/
theorem ack_table (c : Codec V) (k : Kind) (fl : Flags) (i : Nat) (h : Handler) (m : Msg) (hk : k ≠ .group) :
    -- another type: commands are acknowledged, events as AckOnUnknownEvent says
    (m.name ≠ h.tyName →
      ((deliver (single c k fl i h m)).settle = .ack ↔ (k = .command ∨ fl.ackUnknown = true))) ∧
    -- right type, payload does not decode: Nack
    (m.name = h.tyName → c.decode h.ty m.payload = none → (deliver (single c k fl i h m)).settle = .nack) ∧
    -- handled: Ack
    (m.name = h.tyName → (c.decode h.ty m.payload).isSome → m.out i = .ok →
      (deliver (single c k fl i h m)).settle = .ack) ∧
    -- handler error: Nack unless AckCommandHandlingErrors (a flag of the command processor only)
    (m.name = h.tyName → (c.decode h.ty m.payload).isSome → m.out i = .err →
      ((deliver (single c k fl i h m)).settle = .ack ↔ (k = .command ∧ fl.ackCmdErr = true))) ∧
    -- handler panic: Nack (the router recovers it)
    (m.name = h.tyName → (c.decode h.ty m.payload).isSome → m.out i = .panic →
      (deliver (single c k fl i h m)).settle = .nack) := by
  unfold single deliver
  by_cases hn : m.name = h.tyName <;> cases hd : c.decode h.ty m.payload <;> cases ho : m.out i <;>
    cases k <;> rcases fl with ⟨a, b⟩ <;> cases a <;> cases b <;>
    simp_all [settleOf, onOtherName, afterHandle]

/-- **the handler's context exposes the original message** – whatever the incoming context held (also another
    "original message") -/
theorem original_message_in_ctx (c : Codec V) (k : Kind) (fl : Flags) (i : Nat) (h : Handler) (m : Msg) :
    ∀ inv ∈ (single c k fl i h m).1, inv.orig = some m.id := by
  unfold single
  by_cases hn : m.name = h.tyName <;> cases hd : c.decode h.ty m.payload <;>
    simp [hn, hd, originalFromCtx, ctxWithOriginal, List.lookup]

/-- a message offered to a command / event processor reaches the closure of every registered handler: delivery `i` is
    handler `i`'s -/
theorem processMsg_delivery (c : Codec V) (k : Kind) (fl : Flags) (reg : List Handler) (m : Msg) (hk : k ≠ .group)
    (i : Nat) : (processMsg c k fl reg m)[i]? = (reg[i]?).map (fun h => deliver (single c k fl i h m)) := by
  cases k <;> simp [processMsg] at hk ⊢ <;> rw [indexed_getElem?] <;> cases reg[i]? <;> simp

/-! non-vacuity -/
section
private def exCodec : Codec Nat := ⟨fun ty b => if b = [1] then some (ty + 10) else none⟩
private def exMsg (out : Nat → Outcome) : Msg :=
  { id := 5, md := [("trace", "x"), ("name", "A")], payload := [1], ctx := [(.originalMessage, 99)], out := out }
example : (exMsg (fun _ => .err)).name = "A" ∧
    (single exCodec .event ⟨false, false⟩ 3 ⟨"A", 2⟩ (exMsg (fun _ => .err))).1.map (fun i => (i.h, i.value, i.orig))
      = [(3, 12, some 5)] ∧
    (deliver (single exCodec .event ⟨false, false⟩ 3 ⟨"A", 2⟩ (exMsg (fun _ => .err)))).settle = .nack := by decide
example : (deliver (single exCodec .command ⟨true, false⟩ 3 ⟨"A", 2⟩ (exMsg (fun _ => .err)))).settle = .ack := by decide
example : (deliver (single exCodec .command ⟨true, false⟩ 3 ⟨"a", 2⟩ (exMsg (fun _ => .err)))).settle = .ack ∧
          (deliver (single exCodec .event ⟨true, false⟩ 3 ⟨"a", 2⟩ (exMsg (fun _ => .err)))).settle = .nack := by decide
end

/-! ## group processor (one router handler for the whole group) -/

/-- **group: matching handlers in registration order, stopping at the first error.**
    The handlers a group processor calls for a message are exactly: the handlers whose type name is the message's name,
    in registration order, up to and including the first one that fails (and not including one the payload does not
    decode for) – `cutAtFirstStop` of the matching handlers; in particular a prefix of the matching handlers. -/
theorem group_order_prefix (c : Codec V) (fl : Flags) (reg : List Handler) (m : Msg) :
    invokedIdx (group c fl reg m) = cutAtFirstStop c m (matching m (indexed reg)) ∧
    invokedIdx (group c fl reg m) <+: matchingIdx reg m := by
  have h := groupLoop_invoked c fl m (indexed reg) m.ctx false
  refine ⟨h, ?_⟩
  unfold group matchingIdx
  rw [h]
  exact cut_prefix c m _

/-- the same, position by position: handler `i` is called **iff** its name matches, the payload decodes for it, and every
    matching handler registered before it decoded the payload and succeeded -/
theorem group_invoked_iff (c : Codec V) (fl : Flags) (reg : List Handler) (m : Msg) (i : Nat) :
    i ∈ invokedIdx (group c fl reg m) ↔
      ∃ h, reg[i]? = some h ∧ m.name = h.tyName ∧ (c.decode h.ty m.payload).isSome ∧
        ∀ (j : Nat) (hj : Handler), j < i → reg[j]? = some hj → m.name = hj.tyName →
          ((c.decode hj.ty m.payload).isSome ∧ m.out j = .ok) := by
  rw [(group_order_prefix c fl reg m).1, cut_mem_iff c m _ (matching_sorted m reg)]
  constructor
  · rintro ⟨h, hm, hd, hall⟩
    obtain ⟨hg, hn⟩ := (mem_matching_iff m reg i h).mp hm
    refine ⟨h, hg, hn, hd, ?_⟩
    intro j hj hlt hgj hnj
    exact hall (j, hj) ((mem_matching_iff m reg j hj).mpr ⟨hgj, hnj⟩) hlt
  · rintro ⟨h, hg, hn, hd, hall⟩
    refine ⟨h, (mem_matching_iff m reg i h).mpr ⟨hg, hn⟩, hd, ?_⟩
    rintro ⟨j, hj⟩ hq hlt
    obtain ⟨hgj, hnj⟩ := (mem_matching_iff m reg j hj).mp hq
    exact hall j hj hlt hgj hnj

/-- registration order, no handler twice -/
theorem group_invoked_increasing (c : Codec V) (fl : Flags) (reg : List Handler) (m : Msg) :
    (invokedIdx (group c fl reg m)).Pairwise (· < ·) := by
  have hp := (group_order_prefix c fl reg m).2
  have hs : (matchingIdx reg m).Pairwise (· < ·) := by
    unfold matchingIdx
    exact List.pairwise_map.mpr (matching_sorted m reg)
  exact List.Pairwise.sublist hp.sublist hs

/-- **stopping at the first error**: a handler after which another one was called had succeeded -/
theorem group_stops_at_first_error (c : Codec V) (fl : Flags) (reg : List Handler) (m : Msg)
    (pre post : List Nat) (i : Nat)
    (h : invokedIdx (group c fl reg m) = pre ++ i :: post) (hp : post ≠ []) : m.out i = .ok := by
  rw [(group_order_prefix c fl reg m).1] at h
  exact cut_stops c m _ pre post i h hp

/-- … and only then: the calls end with the last matching handler, or with a handler that failed, or before a handler
    the payload does not decode for -/
theorem group_stop_reason (c : Codec V) (fl : Flags) (reg : List Handler) (m : Msg) :
    invokedIdx (group c fl reg m) = matchingIdx reg m ∨
    (∃ i, (invokedIdx (group c fl reg m)).getLast? = some i ∧ m.out i ≠ .ok) ∨
    (∃ p, (matching m (indexed reg))[(invokedIdx (group c fl reg m)).length]? = some p ∧
          c.decode p.2.ty m.payload = none) := by
  rw [(group_order_prefix c fl reg m).1]
  exact cut_stop_reason c m _

/-- **only matching handlers**, each with the decoded value and with the original message in its context -/
theorem group_invoked_only_matching (c : Codec V) (fl : Flags) (reg : List Handler) (m : Msg) :
    ∀ inv ∈ (group c fl reg m).1,
      ∃ h, reg[inv.h]? = some h ∧ m.name = h.tyName ∧ c.decode h.ty m.payload = some inv.value ∧
        inv.orig = some m.id := by
  intro inv hinv
  obtain ⟨h, hm, r⟩ := groupLoop_invocations c fl m (indexed reg) m.ctx false inv hinv
  exact ⟨h, mem_indexed reg _ _ hm, r⟩

/-- **group ack table**: the message is acknowledged exactly when every matching handler could decode it and succeeded
    and there was at least one – or there was none and AckOnUnknownEvent is set.  In particular: no matching handler ⇒
    Ack iff AckOnUnknownEvent; a handler error or a decode error ⇒ Nack, whatever the flags. -/
theorem ack_table_group (c : Codec V) (fl : Flags) (reg : List Handler) (m : Msg) :
    ((deliver (group c fl reg m)).settle = .ack ↔
      (AllHandle c m (matching m (indexed reg)) ∧ (matching m (indexed reg) ≠ [] ∨ fl.ackUnknown = true))) := by
  have h := groupLoop_result c fl m (indexed reg) m.ctx false
  simp at h
  unfold deliver group
  rw [← h]
  cases (groupLoop c fl m (indexed reg) m.ctx false).2 <;> simp [settleOf]

/-- a handler that was called and did not succeed ⇒ Nack (AckCommandHandlingErrors does not exist for groups) -/
theorem group_handler_error_nack (c : Codec V) (fl : Flags) (reg : List Handler) (m : Msg) (i : Nat)
    (hi : i ∈ invokedIdx (group c fl reg m)) (hf : m.out i ≠ .ok) : (deliver (group c fl reg m)).settle = .nack := by
  have hnot : ¬ (deliver (group c fl reg m)).settle = .ack := by
    rw [ack_table_group]
    rintro ⟨hall, _⟩
    have hmem := (group_order_prefix c fl reg m).2.subset hi
    unfold matchingIdx at hmem
    obtain ⟨p, hp, rfl⟩ := List.mem_map.mp hmem
    exact hf (hall p hp).2
  cases hs : (deliver (group c fl reg m)).settle
  · exact absurd hs hnot
  · rfl

/-! non-vacuity: three handlers of type A around one of type B; the second A-handler fails -/
section
private def exReg : List Handler := [⟨"A", 0⟩, ⟨"B", 1⟩, ⟨"A", 0⟩, ⟨"A", 2⟩]
private def exCodec2 : Codec Nat := ⟨fun ty _ => some ty⟩
private def exMsg2 (out : Nat → Outcome) : Msg := { id := 1, md := [("name", "A")], payload := [], ctx := [], out := out }
example : invokedIdx (group exCodec2 ⟨false, false⟩ exReg (exMsg2 (fun i => if i = 2 then .err else .ok))) = [0, 2] ∧
    (deliver (group exCodec2 ⟨false, false⟩ exReg (exMsg2 (fun i => if i = 2 then .err else .ok)))).settle = .nack := by
  decide
example : invokedIdx (group exCodec2 ⟨false, false⟩ exReg (exMsg2 (fun _ => .ok))) = [0, 2, 3] ∧
    matchingIdx exReg (exMsg2 (fun _ => .ok)) = [0, 2, 3] ∧
    (deliver (group exCodec2 ⟨false, false⟩ exReg (exMsg2 (fun _ => .ok)))).settle = .ack := by decide
example : AllHandle exCodec2 (exMsg2 (fun _ => .ok)) (matching (exMsg2 (fun _ => .ok)) (indexed exReg)) := by
  intro p hp
  simp [exCodec2, exMsg2]
end

/-! ## across kinds -/

/-- **messages of other types** (no registered handler has the message's name): nobody is called; commands are
    acknowledged, events and groups acknowledged or rejected exactly as AckOnUnknownEvent prescribes -/
theorem unknown_type_policy (c : Codec V) (k : Kind) (fl : Flags) (reg : List Handler) (m : Msg)
    (hunk : ∀ h ∈ reg, m.name ≠ h.tyName) :
    ∀ d ∈ processMsg c k fl reg m, d.inv = [] ∧ (d.settle = .ack ↔ (k = .command ∨ fl.ackUnknown = true)) := by
  have hidx : ∀ p ∈ indexed reg, m.name ≠ p.2.tyName := by
    rintro ⟨i, h⟩ hp
    exact hunk h (List.mem_of_getElem? (mem_indexed reg i h hp))
  intro d hd
  cases k with
  | group =>
    simp [processMsg] at hd
    subst hd
    have hm : matching m (indexed reg) = [] := by
      unfold matching
      rw [List.filter_eq_nil_iff]
      intro p hp
      simpa using hidx p hp
    constructor
    · have := (group_order_prefix c fl reg m).1
      rw [hm] at this
      simpa [invokedIdx, cutAtFirstStop, deliver] using this
    · rw [ack_table_group, hm]
      simp [AllHandle]
  | command =>
    simp [processMsg] at hd
    obtain ⟨i, h, hp, rfl⟩ := hd
    have := hidx (i, h) hp
    simp [deliver, single, this, onOtherName, settleOf]
  | event =>
    simp [processMsg] at hd
    obtain ⟨i, h, hp, rfl⟩ := hd
    have := hidx (i, h) hp
    cases hu : fl.ackUnknown <;> simp [deliver, single, this, onOtherName, settleOf, hu]

/-- each flag only concerns its own processor kind -/
theorem flags_scope (c : Codec V) (a a' u u' : Bool) (i : Nat) (h : Handler) (reg : List Handler) (m : Msg) :
    single c .command ⟨a, u⟩ i h m = single c .command ⟨a, u'⟩ i h m ∧
    single c .event ⟨a, u⟩ i h m = single c .event ⟨a', u⟩ i h m ∧
    (group c ⟨a, u⟩ reg m).1 = (group c ⟨a', u⟩ reg m).1 ∧
    (deliver (group c ⟨a, u⟩ reg m)).settle = (deliver (group c ⟨a', u⟩ reg m)).settle := by
  refine ⟨?_, ?_, ?_, ?_⟩
  · unfold single
    by_cases hn : m.name = h.tyName <;> cases hd : c.decode h.ty m.payload <;> cases ho : m.out i <;>
      simp [hn, hd, ho, onOtherName, afterHandle]
  · unfold single
    by_cases hn : m.name = h.tyName <;> cases hd : c.decode h.ty m.payload <;> cases ho : m.out i <;>
      simp [hn, hd, ho, onOtherName, afterHandle]
  · unfold group
    generalize indexed reg = hs
    generalize m.ctx = ctx
    generalize false = any
    induction hs generalizing ctx any with
    | nil => cases any <;> cases u <;> simp [groupLoop]
    | cons p rest ih =>
      obtain ⟨j, hj⟩ := p
      by_cases hn : m.name = hj.tyName <;> cases hd : c.decode hj.ty m.payload <;> cases ho : m.out j <;>
        simp [groupLoop, hn, hd, ho, ih]
  · have h1 := ack_table_group c ⟨a, u⟩ reg m
    have h2 := ack_table_group c ⟨a', u⟩ reg m
    cases hs1 : (deliver (group c ⟨a, u⟩ reg m)).settle <;> cases hs2 : (deliver (group c ⟨a', u⟩ reg m)).settle <;>
      simp_all

/-- processors keep no state: what happens to the `j`-th message of a stream depends on that message only -/
theorem per_message_independent (c : Codec V) (k : Kind) (fl : Flags) (reg : List Handler) (ms : List Msg) (j : Nat) :
    (processStream c k fl reg ms)[j]? = (ms[j]?).map (processMsg c k fl reg) := by
  simp [processStream]

/-! ## bus → processor: the handler receives a value equal to the one sent -/

/-- **value equal to the one sent.**  A value `v` sent through a bus (callbacks leave the name key alone), the published
    message delivered (metadata and payload as published, any identity, any context) to a command or event processor
    whose handler `h` is registered for `v`'s type name and decodes into `v`'s Go type: the handler is called, once,
    with exactly `v`.  The codec round trip `decode (encode v) = v` is the library hypothesis. -/
theorem value_round_trip (cfg : BusCfg V) (c : Codec V) (k : Kind) (fl : Flags) (i : Nat) (h : Handler) (v : V) (m : Msg)
    (topic : String) (md : Meta) (payload : Bytes)
    (hh : KeepsName cfg.hook) (hm : KeepsName cfg.modify)
    (hp : BusEff.publish topic md payload ∈ (send cfg v).1)
    (hmd : m.md = md) (hpl : m.payload = payload)
    (hname : h.tyName = cfg.nameOf v)
    (hrt : ∀ b, cfg.encode v = some b → c.decode h.ty b = some v) :
    (single c k fl i h m).1 = [⟨i, v, some m.id⟩] := by
  obtain ⟨hn, _, he⟩ := bus_name_metadata cfg v topic md payload hh hm hp
  have hname' : m.name = h.tyName := by rw [hname, ← hn, ← hmd]; rfl
  have hdec : c.decode h.ty m.payload = some v := by rw [hpl]; exact hrt payload he
  simp [single, hname', hdec, originalFromCtx, ctxWithOriginal, List.lookup]

/-- the same through a group: handler `i` of the group gets exactly `v` when the matching handlers before it succeed -/
theorem value_round_trip_group (cfg : BusCfg V) (c : Codec V) (fl : Flags) (reg : List Handler) (i : Nat) (h : Handler)
    (v : V) (m : Msg) (topic : String) (md : Meta) (payload : Bytes)
    (hh : KeepsName cfg.hook) (hm : KeepsName cfg.modify)
    (hp : BusEff.publish topic md payload ∈ (send cfg v).1)
    (hmd : m.md = md) (hpl : m.payload = payload)
    (hreg : reg[i]? = some h) (hname : h.tyName = cfg.nameOf v)
    (hrt : ∀ b, cfg.encode v = some b → c.decode h.ty b = some v)
    (hbefore : ∀ (j : Nat) (hj : Handler), j < i → reg[j]? = some hj → m.name = hj.tyName →
        ((c.decode hj.ty m.payload).isSome ∧ m.out j = .ok)) :
    ∃ inv ∈ (group c fl reg m).1, inv.h = i ∧ inv.value = v ∧ inv.orig = some m.id := by
  obtain ⟨hn, _, he⟩ := bus_name_metadata cfg v topic md payload hh hm hp
  have hname' : m.name = h.tyName := by rw [hname, ← hn, ← hmd]; rfl
  have hdec : c.decode h.ty m.payload = some v := by rw [hpl]; exact hrt payload he
  have hi : i ∈ invokedIdx (group c fl reg m) :=
    (group_invoked_iff c fl reg m i).mpr ⟨h, hreg, hname', by simp [hdec], hbefore⟩
  obtain ⟨inv, hinv, rfl⟩ := List.mem_map.mp hi
  obtain ⟨h', hreg', _, hd', ho⟩ := group_invoked_only_matching c fl reg m inv hinv
  have : h' = h := by rw [hreg] at hreg'; exact (Option.some.inj hreg').symm
  subst this
  rw [hdec] at hd'
  exact ⟨inv, hinv, rfl, (Option.some.inj hd').symm, ho⟩

/-! non-vacuity of the round trip: the example bus above, its published message fed to an event processor -/
section
private def rtCodec : Codec Nat := ⟨fun _ b => match b with | [x] => some x.toNat | _ => none⟩
private def rtMsg : Msg := { id := 3, md := [("x", "1"), ("name", "main.Cmd")], payload := [7], ctx := [], out := fun _ => .ok }
example : BusEff.publish "t.1.main.Cmd" rtMsg.md rtMsg.payload ∈ (send exCfg 7).1 := by decide
example : (single rtCodec .event ⟨false, false⟩ 0 ⟨"main.Cmd", 0⟩ rtMsg).1.map (fun i => (i.h, i.value, i.orig)) = [(0, 7, some 3)] := by
  decide
end

end Wm.Cqrs
