/-
  C01 – hypothesis H3 of the pipeline model ("a `Publish` that hands a message over starts one sender for every
  subscription registered on the topic, i.e. creates one `pending` token there – and nothing elsewhere") *derived* on the
  composition M_prod = M_reg ∥ M_sub (WmModel/GcProd.lean; tied to the code by the M_prod conformance instance on merged
  registry + subscription streams): the hand-over step of a Publish thread, for a subscription `me` that is registered
  for the topic, leaves `me`'s subscription with a NEW publication whose token – read off the M_sub state as in
  `Props/C01Sub.lean` – is `pending`; for a subscription of another topic nothing changes.
  With `sub_step_refines_token` (the token then moves only along the pipeline model's edges) and `stage_effect_eq_realEff`
  (H1) all three per-stage hypotheses of `Props/C01.lean` are now theorems about the tied models.
-/
import WmModel.Props.C04Prod
import WmModel.Props.C01Sub
namespace Wm.GcProd
open Wm Wm.Lts
open Wm.GcSub (TokIs Acked InHand)

/-- a publication number that no copy carries yet has a `pending` token once its sender is queued -/
theorem fresh_publication_is_pending (cap : Nat) (q : GcSub.St) (hq : Reach (GcSub.sys cap) q) :
    TokIs (spawnSt q) q.nextPub (some .pending) ∧ q.nextPub ∈ (spawnSt q).waiting := by
  have hb := (GcSub.reach_red cap q hq).2.2.2.2
  refine ⟨⟨?_, ?_⟩, by simp [spawnSt]⟩
  · rintro ⟨i, cp, hi, hp, _⟩
    have := hb i cp (by simpa [spawnSt] using hi)
    omega
  · rintro ⟨i, cp, hi, hp, _⟩
    have := hb i cp (by simpa [spawnSt] using hi)
    omega

/-- **H3 derived**: the hand-over step of `Publish(t, m …)` while `me` is registered for `t` creates a pending token for a
    new publication in `me`'s subscription (and records which message it carries) -/
theorem publish_creates_pending_token (me cap : Nat) (cfg : GcReg.Cfg) (s s' : St) (h : Reach (sys me cap cfg) s)
    (i t m : Nat) (rest : List Nat) (ao : Option (Nat × Nat))
    (hth : s.reg.ths[i]? = some (.pub t (m :: rest) .send ao)) (hsub : (me, t) ∈ s.reg.subs)
    (hact : act me cap s (.reg (.step i)) = some s') :
    ∃ q, s.sub = some q ∧ s'.sub = some (spawnSt q) ∧
      TokIs (spawnSt q) q.nextPub (some .pending) ∧
      s'.snd = s.snd ++ [(some s.reg.disp.length, m, q.nextPub)] ∧
      (∀ p, p < q.nextPub → ∀ x, TokIs q p x → TokIs (spawnSt q) p x) := by
  obtain ⟨q, hq, hq', hsnd⟩ := send_starts_sender_for_registered me cap cfg s s' h i t m rest ao hth hsub hact
  have hr := reach_sub me cap cfg s h q hq
  refine ⟨q, hq, hq', (fresh_publication_is_pending cap q hr).1, hsnd, ?_⟩
  intro p _ x hx
  -- spawnSt does not touch the copies: every other token is where it was
  cases x with
  | none => exact hx
  | some ph => cases ph <;> exact hx

/-- … and only there: a subscription of another topic keeps all its tokens -/
theorem publish_creates_nothing_elsewhere (me cap : Nat) (cfg : GcReg.Cfg) (s s' : St) (h : Reach (sys me cap cfg) s)
    (i t t' m : Nat) (rest : List Nat) (ao : Option (Nat × Nat))
    (hth : s.reg.ths[i]? = some (.pub t (m :: rest) .send ao)) (hsub : (me, t') ∈ s.reg.subs) (hne : t' ≠ t)
    (hact : act me cap s (.reg (.step i)) = some s') : s'.sub = s.sub :=
  (send_starts_nothing_for_other_topics me cap cfg s s' h i t t' m rest ao hth hsub hne hact).1

end Wm.GcProd
