/-
  C05 – "each already-existing subscription receives one publisher's messages in the order they were published"
  (blocking mode), subscription side (model M_sub): the deliveries a subscription makes are grouped by sender goroutine and
  ordered like the senders' lock tenures.  In particular every delivery of a publication whose sender has ended lies before
  every delivery of a publication whose sender ended later or has not ended; in blocking mode Publish starts the sender for
  its next message only after the previous one has ended (M_reg `blocking_order`, M_prod
  `blocking_publish_returns_only_after_ack`), so one publisher's messages reach the consumer in publishing order.
-/
import WmModel.Lemmas.GcSubOrdStep
import WmModel.Props.C04Exit
namespace Wm.GcSub
open Wm.Lts

theorem nodup_idx_inj {α : Type} (l : List α) (hnd : l.Nodup) (x y : Nat) (v : α) (hx : l[x]? = some v) (hy : l[y]? = some v) :
    x = y := by
  induction l generalizing x y with
  | nil => simp at hx
  | cons a r ih =>
    have hnd' := List.nodup_cons.mp hnd
    cases x with
    | zero =>
      cases y with
      | zero => rfl
      | succ m =>
        simp at hx hy; subst hx
        exact absurd (List.mem_of_getElem? hy) hnd'.1
    | succ n =>
      cases y with
      | zero =>
        simp at hx hy; subst hy
        exact absurd (List.mem_of_getElem? hx) hnd'.1
      | succ m =>
        simp at hx hy
        rw [ih hnd'.2 n m hx hy]

theorem reach_ord (cap : Nat) : ∀ s, Reach (sys cap) s → OrdOk s :=
  inv_of_step' (sys cap) OrdOk (ord_init cap) (fun s a s' hr h ha => ord_step s a s' (reach_ctl cap s hr) h ha)

/-- **deliveries follow the order in which the senders ended**: if the sender of publication `p` has ended and the sender of
    `p'` has not (it was started later, or is still at work), every delivery of `p` comes before every delivery of `p'` -/
theorem ended_sender_deliveries_first (cap : Nat) (s : St) (h : Reach (sys cap) s) (p p' : Nat) (r : Exit)
    (hp : (p, r) ∈ s.exits) (hp' : ∀ r', (p', r') ∉ s.exits)
    (i j : Nat) (ci cj : Copy) (hi : s.copies[i]? = some ci) (hj : s.copies[j]? = some cj)
    (hpi : ci.pub = p) (hpj : cj.pub = p') : i < j := by
  have hne : p ≠ p' := by intro hx; subst hx; exact hp' r hp
  rcases Nat.lt_trichotomy i j with hlt | heq | hgt
  · exact hlt
  · subst heq; rw [hi] at hj; injection hj with hj; subst hj; exact absurd (hpi.symm.trans hpj) hne
  · -- then the copy of `p'` would be the earlier one and `p'` would have ended
    obtain ⟨⟨r', h1⟩, _⟩ := (reach_ord cap s h).1 j i cj ci hgt hj hi (by rw [hpi, hpj]; exact fun hx => hne hx.symm)
    rw [hpj] at h1; exact absurd h1 (hp' r')

/-- … and of two ended senders the one that ended first has all its deliveries first -/
theorem deliveries_in_exit_order (cap : Nat) (s : St) (h : Reach (sys cap) s) (a b : Nat) (p p' : Nat) (r r' : Exit)
    (hab : a < b) (ha : s.exits[a]? = some (p, r)) (hb : s.exits[b]? = some (p', r'))
    (i j : Nat) (ci cj : Copy) (hi : s.copies[i]? = some ci) (hj : s.copies[j]? = some cj)
    (hpi : ci.pub = p) (hpj : cj.pub = p') : i < j := by
  have hnd := (reach_exit cap s h).2.2.2.2
  have hne : p ≠ p' := by
    intro hx; subst hx
    have h1 : (s.exits.map (·.1))[a]? = some p := by rw [List.getElem?_map, ha]; rfl
    have h2 : (s.exits.map (·.1))[b]? = some p := by rw [List.getElem?_map, hb]; rfl
    have := nodup_idx_inj _ hnd a b p h1 h2
    omega
  rcases Nat.lt_trichotomy i j with hlt | heq | hgt
  · exact hlt
  · subst heq; rw [hi] at hj; injection hj with hj; subst hj; exact absurd (hpi.symm.trans hpj) hne
  · obtain ⟨_, h2⟩ := (reach_ord cap s h).1 j i cj ci hgt hj hi (by rw [hpi, hpj]; exact fun hx => hne hx.symm)
    rcases h2 with ⟨pc, c, h2⟩ | ⟨a', b', r1, r2, hab', ha', hb'⟩
    · -- `p` would still hold the lock although it has ended
      have := ((reach_exit cap s h).2.2.2.1 p r (List.mem_of_getElem? ha)).2.2 pc c
      rw [hpi] at h2; exact absurd h2 this
    · -- `p'` before `p` in the exit order, and `p` before `p'`: positions of one publication coincide
      rw [hpj] at ha'; rw [hpi] at hb'
      have pos : ∀ (x y : Nat) (q : Nat) (r3 r4 : Exit), s.exits[x]? = some (q, r3) → s.exits[y]? = some (q, r4) → x = y := by
        intro x y q r3 r4 hx hy
        have h1 : (s.exits.map (·.1))[x]? = some q := by rw [List.getElem?_map, hx]; rfl
        have h2 : (s.exits.map (·.1))[y]? = some q := by rw [List.getElem?_map, hy]; rfl
        exact nodup_idx_inj _ hnd x y q h1 h2
      have e1 := pos a' b p' r1 r' ha' hb
      have e2 := pos b' a p r2 r hb' ha
      omega

/-- non-vacuity: two publications, the first nacked once and acked, then the second: copies 0,1 belong to the first, 2 to the second -/
example : ∃ s, exec (sys 1) (init 1) [.spawn, .spawn, .sLock 0, .sCheck, .sTop, .sSend, .recv, .settle 0 .nack, .sObsNack, .sTop,
    .sSend, .recv, .settle 1 .ack, .sObsAck, .sLock 0, .sCheck, .sTop, .sSend] = some s ∧
    s.copies.map (·.pub) = [0, 0, 1] ∧ s.exits = [(0, .acked)] := ⟨_, rfl, by decide, by decide⟩

end Wm.GcSub
