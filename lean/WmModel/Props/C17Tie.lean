/-
  C17 – generated ties: the bodies of `(*Requeuer).handler`, `(*Forwarder).forwardMessage` and
  `unwrapMessageFromEnvelope`, extracted from the current Go source and interpreted (with the Router's settle rule
  applied), equal the hand-written models for every input.  `WmModel/Gen/RelayBody.lean` is rewritten by the
  extractor on every run.
-/
import WmModel.GoRelay
import WmModel.Gen.RelayBody
namespace Wm.GoRelay
open Wm.Poison (Str Meta Msg mset ascii POut Settle)
open Wm.Relay

theorem atoiGo_fst_of_ok (s : Str) (i : Int) (h : Relay.atoi s = some i) : atoiGo s = (i, false) := by
  simp [atoiGo, h]

theorem atoiGo_err (s : Str) (h : Relay.atoi s = none) : (atoiGo s).2 = true := by
  simp only [atoiGo, h]
  split <;> rfl

theorem retriesKey_eq : ascii "_watermill_requeuer_retries" = retriesKey := rfl

/-- for EVERY topic function `pol` (also those that read the retries header of the message they are shown): the
    extracted handler shows it the message as consumed and publishes to the topic it computed from that -/
theorem extracted_requeuer_eq_model (w : Bool) (pol : TopicPolicy) (dest : POut) (m : Msg) :
    rqRun ⟨w, pol, dest⟩ Gen.requeuerBody m = some (requeuerP w pol dest m) := by
  unfold requeuerP
  cases w with
  | true => simp [rqRun, Gen.requeuerBody, rqExec, rqExec1, requeuer]
  | false =>
    cases hp : pol m with
    | err => simp [rqRun, Gen.requeuerBody, rqExec, rqExec1, requeuer, hp]
    | ok t =>
      have hnext : ∀ (r : Int) (e : Bool), (r, e) = atoiGo ((List.lookup retriesKey m.md).getD []) →
          wrap64 ((if e then 0 else r) + 1) = nextCounter m := by
        intro r e hre
        unfold nextCounter priorCounter
        cases ha : Relay.atoi ((List.lookup retriesKey m.md).getD []) with
        | none =>
          have := atoiGo_err _ ha
          rw [← hre] at this
          simp at this
          simp [this]
        | some i =>
          rw [atoiGo_fst_of_ok _ i ha] at hre
          injection hre with h1 h2
          simp [h1, h2]
      have hn := hnext (atoiGo ((List.lookup retriesKey m.md).getD [])).1 (atoiGo ((List.lookup retriesKey m.md).getD [])).2 rfl
      cases hd : dest with
      | ok =>
        simp only [rqRun, Gen.requeuerBody, rqExec, rqExec1, requeuer, retriesKey_eq]
        cases he : (atoiGo ((List.lookup retriesKey m.md).getD [])).2 <;> simp [he, hp] at hn ⊢ <;> simp [hn]
      | fail x =>
        simp only [rqRun, Gen.requeuerBody, rqExec, rqExec1, requeuer, retriesKey_eq]
        cases he : (atoiGo ((List.lookup retriesKey m.md).getD [])).2 <;> simp [he, hp] at hn ⊢ <;> simp [hn]
      | panic x =>
        simp only [rqRun, Gen.requeuerBody, rqExec, rqExec1, requeuer, retriesKey_eq]
        cases he : (atoiGo ((List.lookup retriesKey m.md).getD [])).2 <;> simp [he, hp] at hn ⊢ <;> simp [hn]

theorem extracted_unwrap_eq_model (p : Parsed) :
    uwRun Gen.unwrapBody p = some (p.valid.map (fun e => (e.dest, e.msg))) := by
  cases p with
  | bad => rfl
  | env e =>
    cases hd : e.dest with
    | nil => simp [uwRun, Gen.unwrapBody, uwExec, uwExec1, Parsed.valid, hd]
    | cons c r => simp [uwRun, Gen.unwrapBody, uwExec, uwExec1, Parsed.valid, hd, Envelope.msg]

theorem extracted_forward_eq_model (ack : Bool) (p : Parsed) (dest : POut) :
    fwRun Gen.forwardBody Gen.unwrapBody ack p dest = some (forwarder ack p dest) := by
  simp only [fwRun, extracted_unwrap_eq_model]
  cases hv : p.valid with
  | none =>
    cases ack <;> simp [Gen.forwardBody, fwExecL, fwExec1, forwarder, hv]
  | some e =>
    cases hd : dest <;> simp [Gen.forwardBody, fwExecL, fwExec1, forwarder, hv, settleOf]

end Wm.GoRelay
