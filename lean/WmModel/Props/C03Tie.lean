/-
  C03 – generated tie: the bodies of Ack/Nack extracted from the current Go source, interpreted,
  equal the hand-written model on all 27 states, and both bodies start by taking the mutex.
  `WmModel/Gen/AckBody.lean` is rewritten by the extractor on every run.
-/
import WmModel.GoAck
import WmModel.Gen.AckBody
namespace Wm.GoAck
open Wm.Ack

theorem extracted_ack_eq_model : ∀ s : St, exec Gen.ackBody s = some (Ack.ack s) := by
  intro s; rcases s with ⟨a, b, c⟩
  cases a <;> cases b <;> cases c <;> rfl

theorem extracted_nack_eq_model : ∀ s : St, exec Gen.nackBody s = some (Ack.nack s) := by
  intro s; rcases s with ⟨a, b, c⟩
  cases a <;> cases b <;> cases c <;> rfl

theorem extracted_bodies_locked : locked Gen.ackBody = true ∧ locked Gen.nackBody = true := by
  constructor <;> rfl

end Wm.GoAck
