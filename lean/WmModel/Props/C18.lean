/-
  C18 – Request-reply: replies reach only their requester and listeners always finish.
  Model: WmModel/ReqReply.lean.  Helper lemmas: WmModel/Lemmas/ReqReply*.lean.

  Listener side: theorems over *every* reachable state / every run of the transition system – any number of
  concurrent requests on the shared reply topic, any handler outcomes and redeliveries (any number of replies
  per request), any delivery order and multiplicity, every caller behaviour (reads, stops reading, never reads,
  cancels early or late), timeouts, closed subscriptions, every interleaving.
  Command side: the sequential decision function `command` (effect list with order).
  `fixed = true` is the code as it is; the theorems that do not depend on the repair of D12 are stated for both modes.
-/
import WmModel.Lemmas.ReqReplyTerm
namespace Wm.ReqReply
open Wm.Lts

/-! ## concrete runs used by the non-vacuity examples below -/

def n1 : HOut := ⟨"r1", none, false⟩
def n2 : HOut := ⟨"r2", some "boom", false⟩

/-- two concurrent requests on the shared topic; both notifications reach both listeners -/
def demoShared : List Action :=
  [.newReq, .newReq, .process .ok 1 n2 .ok, .process .ok 0 n1 .ok,
   .deliver 0 0, .deliver 0 1, .deliver 1 0, .deliver 1 1,
   .l 0 .recv, .l 0 .recv, .l 0 .send, .l 1 .recv, .l 1 .send, .l 1 .recv, .c 0 .recv, .c 1 .recv]

/-- the D12 interleaving on the code as it is: two replies for one request (redelivery after a Nack), the caller
    reads nothing; the listener sits at the second send with a full channel; the caller cancels; the listener
    finishes on its own steps only: channel closed, callback once -/
def demoFull : List Action :=
  [.newReq, .process .ok 0 n2 .ok, .process .ok 0 n1 .ok, .deliver 0 0, .deliver 0 1,
   .l 0 .recv, .l 0 .send, .l 0 .recv, .c 0 .cancel]

def demoFinish : List Action := [.l 0 .sendCtx, .l 0 .ctx, .l 0 .cancel, .l 0 .close, .l 0 .finish]

theorem demoFull_reach : ∃ s l, Reach (sys true false) s ∧ exec (sys true false) (init false) demoFull = some s ∧
    s.ls[0]? = some l ∧ l.ctx ≠ .live ∧ l.buf.length = 1 :=
  ⟨_, _, reach_of_exec _ Reach.init demoFull rfl, rfl, rfl, by decide, by decide⟩

/-! ## replies reach only their requester -/

/-- **replies_only_own**: every reply that was ever put into a caller's reply channel (still buffered, or already
    read) and that was made from a notification carries that caller's own operation id -/
theorem replies_only_own (fixed a : Bool) (s : St) (h : Reach (sys fixed a) s) (i : Nat) (l : Listener)
    (hl : s.ls[i]? = some l) (r : Reply) (hr : r ∈ l.buf ++ l.got) (op : Nat) (hop : r.op? = some op) :
    op = l.op := by
  have hok := ((reach_sok fixed a s h).lok i l hl).1
  have hown : OwnFrom (· ∈ s.pub) l.op r := by
    rcases List.mem_append.mp hr with hr | hr
    · exact hok.buf r hr
    · exact hok.got r hr
  cases r with
  | result o res err => simp [Reply.op?] at hop; subst hop; exact hown.1
  | unmarshal o => simp [Reply.op?] at hop; subst hop; exact hown.1
  | timeout w => simp [Reply.op?] at hop

/-- operation ids identify requests: two different concurrent requests never share one -/
theorem operation_ids_distinct (fixed a : Bool) (s : St) (h : Reach (sys fixed a) s) (i j : Nat) (li lj : Listener)
    (hi : s.ls[i]? = some li) (hj : s.ls[j]? = some lj) (hop : li.op = lj.op) : i = j :=
  (reach_sok fixed a s h).uniq i j li lj hi hj hop

/-- … hence a caller never sees a reply made for another concurrent request sharing the reply topic -/
theorem never_another_requests_reply (fixed a : Bool) (s : St) (h : Reach (sys fixed a) s) (i j : Nat)
    (li lj : Listener) (hi : s.ls[i]? = some li) (hj : s.ls[j]? = some lj) (hij : i ≠ j) (r : Reply)
    (hr : r ∈ li.buf ++ li.got) : r.op? ≠ some lj.op := by
  intro hop
  have h1 := replies_only_own fixed a s h i li hi r hr lj.op hop
  exact hij (operation_ids_distinct fixed a s h i j li lj hi hj h1.symm)

/-- **reply_carries_result_and_error_text**: a result reply in a caller's channel repeats the result and the error
    text of a handler invocation for that caller's own command, whose reply notification the topic accepted -/
theorem reply_carries_result_and_error_text (fixed a : Bool) (s : St) (h : Reach (sys fixed a) s) (i : Nat)
    (l : Listener) (hl : s.ls[i]? = some l) (op : Nat) (res : String) (err : Option String)
    (hr : Reply.result op res err ∈ l.buf ++ l.got) :
    ∃ inv ∈ s.invs, inv.op = l.op ∧ inv.out.res = res ∧ inv.out.err = err ∧ inv.pre = .ok ∧ inv.pub = .ok ∧
      inv.effs = command s.ackErrs inv.pre inv.op inv.out inv.pub := by
  have hs := reach_sok fixed a s h
  have hok := (hs.lok i l hl).1
  have hown : OwnFrom (· ∈ s.pub) l.op (.result op res err) := by
    rcases List.mem_append.mp hr with hr | hr
    · exact hok.buf _ hr
    · exact hok.got _ hr
  obtain ⟨_, n, hn, hnop, hnres, hnerr, _⟩ := hown
  obtain ⟨inv, hinv, hpre, hpub, hne⟩ := hs.pub n hn
  subst hne
  exact ⟨inv, hinv, hnop, hnres, hnerr, hpre, hpub, hs.invs inv hinv⟩

/-- the reply notification a handler invocation publishes carries the command's operation id, the handler's result
    and the handler's error text -/
theorem published_reply_carries_outcome (a : Bool) (pre : Pre) (op : Nat) (o : HOut) (p : PubRes) (n : Notif)
    (h : Eff.publishCall n ∈ command a pre op o p) : n.op = op ∧ n.res = o.res ∧ n.err = o.err := by
  cases pre <;> cases p <;> simp [command, onCommandProcessed, notifOf] at h
  all_goals (try (split at h <;> simp at h))
  all_goals (subst h; exact ⟨rfl, rfl, rfl⟩)

/-- an unmarshal-error reply likewise stems from an accepted notification for the caller's own command -/
theorem unmarshal_reply_is_own (fixed a : Bool) (s : St) (h : Reach (sys fixed a) s) (i : Nat)
    (l : Listener) (hl : s.ls[i]? = some l) (op : Nat) (hr : Reply.unmarshal op ∈ l.buf ++ l.got) :
    ∃ inv ∈ s.invs, inv.op = l.op ∧ inv.out.bad = true ∧ inv.pub = .ok := by
  have hs := reach_sok fixed a s h
  have hok := (hs.lok i l hl).1
  have hown : OwnFrom (· ∈ s.pub) l.op (.unmarshal op) := by
    rcases List.mem_append.mp hr with hr | hr
    · exact hok.buf _ hr
    · exact hok.got _ hr
  obtain ⟨_, n, hn, hnop, hnbad⟩ := hown
  obtain ⟨inv, hinv, _, hpub, hne⟩ := hs.pub n hn
  subst hne
  exact ⟨inv, hinv, hnop, hnbad, hpub⟩

/-- **no reply reaches the caller more often than it was produced**: the replies made from notifications that a caller
    holds or has read (timeout replies aside) never outnumber the notifications with its *own* operation id that its
    subscription received – a notification of another request on the shared topic produces nothing for this caller, not
    even a repetition of an earlier own reply.  (Each accepted notification reaches a subscription once – C04 – so this
    is "at most once per published reply".) -/
theorem replies_bounded_by_own_notifications (fixed a : Bool) (s : St) (h : Reach (sys fixed a) s) (i : Nat)
    (l : Listener) (hl : s.ls[i]? = some l) :
    made (l.buf ++ l.got) ≤ l.ownSeen ∧ l.ownSeen + ownIn l.op l.inbox = l.ownDelivered ∧
      made (l.buf ++ l.got) ≤ l.ownDelivered := by
  have hok := ((reach_sok fixed a s h).lok i l hl).1
  have h1 := hok.own
  have h2 := hok.ownd
  simp only [made_append]
  refine ⟨by omega, h2, by omega⟩

/-! non-vacuity: in `demoShared` listener 0 consumed two notifications, one of them its own: one reply, not two -/
example : ∃ s l0, exec (sys true false) (init false) demoShared = some s ∧ s.ls[0]? = some l0 ∧
    l0.acked = 2 ∧ l0.ownDelivered = 1 ∧ made (l0.buf ++ l0.got) = 1 :=
  ⟨_, _, rfl, rfl, by decide, by decide, by decide⟩

/-- the listener acks every notification it consumes – its own, foreign ones, and those it cannot unmarshal -/
theorem acks_every_notification (fixed a : Bool) (s : St) (h : Reach (sys fixed a) s) (i : Nat) (l : Listener)
    (hl : s.ls[i]? = some l) : l.acked + l.inbox.length = l.delivered :=
  ((reach_sok fixed a s h).lok i l hl).1.acks

/-! ## the command is settled as `AckCommandErrors` says, after the reply was published -/

def Eff.isSettle : Eff → Bool
  | .ack | .nack => true
  | _ => false

/-- **ack/nack table**: the command is acked iff `OnCommandProcessed` got as far as publishing, the reply `Publish`
    did not fail (or `ReplyPublishErrorHandler` swallowed the failure), and the handler returned no error or
    `AckCommandErrors` is set; in every other case it is nacked -/
theorem ack_nack_table (a : Bool) (pre : Pre) (op : Nat) (o : HOut) (p : PubRes) :
    (Eff.ack ∈ command a pre op o p ↔ pre = .ok ∧ p ≠ .failed ∧ (a = true ∨ o.err = none)) ∧
    (Eff.nack ∈ command a pre op o p ↔ ¬ (pre = .ok ∧ p ≠ .failed ∧ (a = true ∨ o.err = none))) := by
  obtain ⟨res, err, bad⟩ := o
  cases pre <;> cases p <;> cases a <;> cases err <;> simp [command, onCommandProcessed]

/-! non-vacuity: AckCommandErrors off, the handler returns an error: reply with result and error text, then Nack;
    AckCommandErrors on: the same reply, then Ack; a swallowed publish failure still follows the table -/
example : command false .ok 3 n2 .ok = [.publishCall ⟨3, "r2", some "boom", false⟩, .publishRet true, .nack] := rfl
example : command true .ok 3 n2 .ok = [.publishCall ⟨3, "r2", some "boom", false⟩, .publishRet true, .ack] := rfl
example : command false .ok 3 n1 .failedHandled = [.publishCall ⟨3, "r1", none, false⟩, .publishRet false, .ack] := rfl
example : command true .noOpId 3 n1 .ok = [.nack] := rfl

theorem settles_exactly_once (a : Bool) (pre : Pre) (op : Nat) (o : HOut) (p : PubRes) :
    ((command a pre op o p).filter Eff.isSettle).length = 1 := by
  obtain ⟨res, err, bad⟩ := o
  cases pre <;> cases p <;> cases a <;> cases err <;> rfl

/-- **ack_after_reply_published**: an Ack is always preceded, in this order, by the `Publish` call of the reply and its
    return; so is a Nack unless `OnCommandProcessed` failed before it could publish -/
theorem ack_after_reply_published (a : Bool) (pre : Pre) (op : Nat) (o : HOut) (p : PubRes) (i : Nat)
    (e : Eff) (he : (command a pre op o p)[i]? = some e) (hs : e.isSettle = true) (hp : e = .ack ∨ pre = .ok) :
    ∃ j k b, j < k ∧ k < i ∧ (command a pre op o p)[j]? = some (.publishCall (notifOf op o)) ∧
      (command a pre op o p)[k]? = some (.publishRet b) ∧ (e = .ack → b = true ∨ p = .failedHandled) := by
  obtain ⟨res, err, bad⟩ := o
  cases pre <;> cases p <;> cases a <;> cases err <;>
    simp [command, onCommandProcessed] at he hp ⊢
  all_goals (try (subst he; simp [Eff.isSettle] at hs hp))
  all_goals (rcases i with _ | _ | _ | i <;> simp at he)
  all_goals (try (subst he))
  all_goals (try (simp [Eff.isSettle] at hs))
  all_goals (try (simp at hp))
  all_goals (exact ⟨0, 1, by simp⟩)

/-! non-vacuity: the hypotheses hold for the Ack at position 2 of a real effect list -/
example : ∃ j k b, j < k ∧ k < 2 ∧ (command true .ok 0 n2 .ok)[j]? = some (.publishCall (notifOf 0 n2)) ∧
    (command true .ok 0 n2 .ok)[k]? = some (.publishRet b) ∧ (Eff.ack = .ack → b = true ∨ PubRes.ok = .failedHandled) :=
  ack_after_reply_published true .ok 0 n2 .ok 2 .ack rfl rfl (Or.inl rfl)

/-- a failing reply `Publish` nacks the command whatever `AckCommandErrors` says … -/
theorem reply_publish_failure_nacks (a : Bool) (op : Nat) (o : HOut) :
    command a .ok op o .failed = [.publishCall (notifOf op o), .publishRet false, .nack] := rfl

/-- … and the early error returns publish nothing and nack -/
theorem early_error_publishes_nothing (a : Bool) (pre : Pre) (op : Nat) (o : HOut) (p : PubRes) (h : pre ≠ .ok) :
    command a pre op o p = [.nack] := by
  cases pre <;> simp [command, onCommandProcessed] at h ⊢

/-- every handler invocation in every reachable state of the system follows that table -/
theorem invocations_follow_table (fixed a : Bool) (s : St) (h : Reach (sys fixed a) s) (inv : Inv)
    (hi : inv ∈ s.invs) : inv.effs = command s.ackErrs inv.pre inv.op inv.out inv.pub :=
  (reach_sok fixed a s h).invs inv hi

/-! ## the listener always terminates -/

/-- sending on a closed channel and closing a closed channel are explicit panic states of the model: unreachable -/
theorem never_panics (fixed a : Bool) (s : St) (h : Reach (sys fixed a) s) (i : Nat) (l : Listener)
    (hl : s.ls[i]? = some l) : l.panicked = false :=
  ((reach_sok fixed a s h).lok i l hl).1.np

/-- the reply channel holds at most one reply; it is closed exactly from the deferred `close` on; once closed
    no send step is enabled any more -/
theorem closed_is_final (fixed a : Bool) (s : St) (h : Reach (sys fixed a) s) (i : Nat) (l : Listener)
    (hl : s.ls[i]? = some l) :
    l.buf.length ≤ 1 ∧ (l.chanClosed = true ↔ l.pc = .ret2 ∨ l.pc = .done) ∧
    (l.chanClosed = true → lstep fixed l .send = none ∧ lstep fixed l .ctx = none ∧ lstep fixed l .subClosed = none ∧
      lstep fixed l .close = none) := by
  have hok := ((reach_sok fixed a s h).lok i l hl).1
  refine ⟨hok.cap, ?_, ?_⟩
  · rw [hok.closed]; cases l.pc <;> simp [pcClosed]
  · intro hc
    rw [hok.closed] at hc
    cases hpc : l.pc <;> simp [hpc, pcClosed] at hc <;> simp [lstep, hpc]

/-- **progress**: once the context has ended (cancel, parent context, timeout) and as long as the listener has not
    finished, one of the listener's *own* steps is enabled – without any step of the caller, however full the
    reply channel is and however many replies are still to come -/
theorem listener_progress (a : Bool) (s : St) (i : Nat) (l : Listener) (hl : s.ls[i]? = some l)
    (hc : l.ctx ≠ .live) (hd : l.pc ≠ .done) : ∃ x, isL i x = true ∧ (act true s x).isSome = true := by
  obtain ⟨x, hx⟩ := lstep_progress l hc hd
  refine ⟨.l i x, by simp [isL], ?_⟩
  cases hf : lstep true l x with
  | none => rw [hf] at hx; cases hx
  | some l' => simp [act, updL, hl, hf]

/-- **bounded**: in every run the number of steps of listener `i` is bounded by its measure plus two per notification
    delivered to it during the run: every loop iteration consumes a delivery -/
theorem listener_steps_bounded (fixed a : Bool) (i : Nat) (run : List Action) (s s' : St)
    (hr : Reach (sys fixed a) s) (he : exec (sys fixed a) s run = some s') :
    (run.filter (isL i)).length + muAt s' i ≤ muAt s i + 2 * (run.filter (isDeliver i)).length := by
  refine steps_bounded_credit (sys fixed a) (fun s => muAt s i) (isL i) (isDeliver i) 2 ?_ ?_ ?_ run s s' hr he
  · intro s x s' hr hx hp
    cases hl : s.ls[i]? with
    | none => have := (step_absent (fixed := fixed) hx hl).1; rw [this] at hp; cases hp
    | some l =>
      obtain ⟨l', hl', ht⟩ := step_touch (fixed := fixed) hx hl
      simp only [muAt, hl, hl']
      cases ht with
      | lact x l' hf => exact lstep_mu ((reach_sok fixed a s hr).lok i l hl).1.closed hf
      | cact x l' hf => simp [isL] at hp
      | dlv k n => simp [isL] at hp
      | other x h1 _ _ => rw [h1] at hp; cases hp
  · intro s x s' hr hx hp hq
    cases hl : s.ls[i]? with
    | none => have := (step_absent (fixed := fixed) hx hl).2.1; rw [this] at hq; cases hq
    | some l =>
      obtain ⟨l', hl', ht⟩ := step_touch (fixed := fixed) hx hl
      simp only [muAt, hl, hl']
      cases ht with
      | lact x l' hf => simp [isL] at hp
      | cact x l' hf => simp [isDeliver] at hq
      | dlv k n => simp [mu]; omega
      | other x _ h2 _ => rw [h2] at hq; cases hq
  · intro s x s' hr hx hp hq
    cases hl : s.ls[i]? with
    | none =>
      rcases (step_absent (fixed := fixed) hx hl).2.2 with h' | ⟨op, h'⟩
      · simp [muAt, hl, h']
      · simp [muAt, hl, h', mu, rank, Listener.new]
    | some l =>
      obtain ⟨l', hl', ht⟩ := step_touch (fixed := fixed) hx hl
      simp only [muAt, hl, hl']
      cases ht with
      | lact x l' hf => simp [isL] at hp
      | cact x l' hf => have := cstep_pc hf; simp [mu, this.1, this.2]
      | dlv k n => simp [isDeliver] at hq
      | other x _ _ _ => exact Nat.le_refl _

/-- "the context has ended" is stable -/
theorem ctx_ended_stable (fixed a : Bool) (i : Nat) (run : List Action) (s s' : St) (l : Listener)
    (hl : s.ls[i]? = some l) (hc : l.ctx ≠ .live) (he : exec (sys fixed a) s run = some s') :
    ∃ l', s'.ls[i]? = some l' ∧ l'.ctx ≠ .live ∧ l'.op = l.op := by
  induction run generalizing s l with
  | nil => simp [exec] at he; subst he; exact ⟨l, hl, hc, rfl⟩
  | cons x rest ih =>
    simp only [exec] at he
    cases hx : (sys fixed a).act s x with
    | none => simp [hx] at he
    | some s1 =>
      simp [hx] at he
      obtain ⟨l1, hl1, ht⟩ := step_touch (fixed := fixed) (show act fixed s x = some s1 from hx) hl
      have h1 : l1.ctx ≠ .live ∧ l1.op = l.op := by
        cases ht with
        | lact y l' hf => exact ⟨lstep_ctx hf hc, lstep_op hf⟩
        | cact y l' hf => exact ⟨cstep_ctx hf hc, cstep_op hf⟩
        | dlv k n => exact ⟨hc, rfl⟩
        | other y _ _ _ => exact ⟨hc, rfl⟩
      obtain ⟨l', hl', hc', hop'⟩ := ih s1 l1 hl1 h1.1 he
      exact ⟨l', hl', hc', by rw [hop', h1.2]⟩

/-- terminal ⇒ good: a finished listener has closed its reply channel, ran `OnListenForReplyFinished` exactly once,
    its context is cancelled, and it never panicked -/
theorem finished_listener_is_good (fixed a : Bool) (s : St) (h : Reach (sys fixed a) s) (i : Nat) (l : Listener)
    (hl : s.ls[i]? = some l) (hd : l.pc = .done) :
    l.chanClosed = true ∧ l.finishedCalls = 1 ∧ l.ctx ≠ .live ∧ l.panicked = false ∧
      ∀ x, lstep fixed l x = none := by
  have hok := ((reach_sok fixed a s h).lok i l hl).1
  refine ⟨by rw [hok.closed, hd]; rfl, by rw [hok.fin]; simp [hd], hok.ctxe (by rw [hd]; rfl), hok.np, ?_⟩
  intro x; cases x <;> simp [lstep, hd]

/-- `OnListenForReplyFinished` never runs more than once, and has run exactly when the listener is finished -/
theorem finished_calls (fixed a : Bool) (s : St) (h : Reach (sys fixed a) s) (i : Nat) (l : Listener)
    (hl : s.ls[i]? = some l) : l.finishedCalls ≤ 1 ∧ (l.finishedCalls = 1 ↔ l.pc = .done) := by
  have hok := ((reach_sok fixed a s h).lok i l hl).1
  rw [hok.fin]
  by_cases hd : l.pc = .done <;> simp [hd]

/-- **listener_terminates**: take any reachable state in which the context of request `i` has ended, and any
    continuation whatsoever (any caller behaviour, any further replies, any other requests).  Then
    (1) the context stays ended; (2) the listener's own steps in the continuation are bounded by its measure plus two per
    further delivery; (3) as long as it has not finished, one of its own steps is enabled – no step of the caller is
    needed; (4) when it has finished, the reply channel is closed, `OnListenForReplyFinished` ran exactly once, nothing
    panicked.  (2)+(3): under any scheduler that keeps running the listener goroutine it reaches `done`. -/
theorem listener_terminates (a : Bool) (s : St) (h : Reach (sys true a) s) (i : Nat) (l : Listener)
    (hl : s.ls[i]? = some l) (hc : l.ctx ≠ .live) (run : List Action) (s' : St)
    (he : exec (sys true a) s run = some s') :
    ∃ l', s'.ls[i]? = some l' ∧ l'.ctx ≠ .live ∧
      (run.filter (isL i)).length + mu l' ≤ mu l + 2 * (run.filter (isDeliver i)).length ∧
      (l'.pc ≠ .done → ∃ x, isL i x = true ∧ (act true s' x).isSome = true) ∧
      (l'.pc = .done → l'.chanClosed = true ∧ l'.finishedCalls = 1 ∧ l'.panicked = false) := by
  obtain ⟨l', hl', hc', _⟩ := ctx_ended_stable true a i run s s' l hl hc he
  have hb := listener_steps_bounded true a i run s s' h he
  simp only [muAt, hl, hl'] at hb
  refine ⟨l', hl', hc', hb, fun hd => listener_progress a s' i l' hl' hc' hd, fun hd => ?_⟩
  have hg := finished_listener_is_good true a s' (reach_of_exec _ h run he) i l' hl' hd
  exact ⟨hg.1, hg.2.1, hg.2.2.2.1⟩

/-! non-vacuity: the hypotheses of `listener_terminates` hold in the state after `demoFull` (context ended, reply channel full,
    listener at its second send, caller not reading); its conclusion applied to the continuation `demoFinish` (five listener
    steps, no caller step) gives: finished, channel closed, callback once -/
example : ∃ s l s' l', Reach (sys true false) s ∧ s.ls[0]? = some l ∧ l.ctx ≠ .live ∧
    exec (sys true false) s demoFinish = some s' ∧ s'.ls[0]? = some l' ∧ l'.pc = .done ∧
    (demoFinish.filter (isL 0)).length + mu l' ≤ mu l + 2 * (demoFinish.filter (isDeliver 0)).length ∧
    l'.chanClosed = true ∧ l'.finishedCalls = 1 := by
  obtain ⟨s, l, hr, _, hl, hc, _⟩ := demoFull_reach
  refine ⟨_, _, _, _, reach_of_exec _ Reach.init demoFull rfl, rfl, by decide, rfl, rfl, by decide, by decide, by decide, by decide⟩

/-! ### the channel is closed exactly once, the callback runs exactly once (counting the steps themselves) -/

theorem isClose_isL {i : Nat} {x : Action} (h : isClose i x = true) : ∃ j, x = .l j .close ∧ i = j := by
  cases x with
  | l j y => cases y <;> simp [isClose] at h; exact ⟨j, rfl, h⟩
  | _ => simp [isClose] at h

theorem isFinish_isL {i : Nat} {x : Action} (h : isFinish i x = true) : ∃ j, x = .l j .finish ∧ i = j := by
  cases x with
  | l j y => cases y <;> simp [isFinish] at h; exact ⟨j, rfl, h⟩
  | _ => simp [isFinish] at h

theorem lstep_cm {fixed : Bool} {l l' : Listener} {x : LAct} (hx : x ≠ .close) (h : lstep fixed l x = some l') :
    cm l' = cm l := by
  cases x <;> simp only [lstep] at h
  all_goals (repeat' split at h)
  all_goals (try (simp at h))
  all_goals (try (obtain ⟨_, h⟩ := h))
  all_goals (try subst h)
  all_goals (simp_all [cm, pcClosed, push])
  all_goals (try (split <;> simp_all [pcClosed]))

theorem lstep_fm {fixed : Bool} {l l' : Listener} {x : LAct} (hx : x ≠ .finish) (h : lstep fixed l x = some l') :
    fm l' = fm l := by
  cases x <;> simp only [lstep] at h
  all_goals (repeat' split at h)
  all_goals (try (simp at h))
  all_goals (try (obtain ⟨_, h⟩ := h))
  all_goals (try subst h)
  all_goals (simp_all [fm, push])
  all_goals (try (split <;> simp_all))

/-- in every run the number of `close(replyChan)` steps of listener `i` is exactly the drop of `cmAt` (1 → 0) -/
theorem close_steps_counted (fixed a : Bool) (i : Nat) (run : List Action) (s s' : St)
    (hr : Reach (sys fixed a) s) (he : exec (sys fixed a) s run = some s') :
    (run.filter (isClose i)).length + cmAt s' i = cmAt s i := by
  refine steps_counted (sys fixed a) (fun s => cmAt s i) (isClose i) ?_ ?_ run s s' hr he
  · intro s x s' hr hx hp
    obtain ⟨j, hxe, hij⟩ := isClose_isL hp
    subst hxe; subst hij
    have hx : act fixed s (.l i .close) = some s' := hx
    cases hl : s.ls[i]? with
    | none => have := (step_absent (fixed := fixed) hx hl).1; simp [isL] at this
    | some l =>
      have hok := ((reach_sok fixed a s hr).lok i l hl).1
      obtain ⟨l', hl', ht⟩ := step_touch (fixed := fixed) hx hl
      simp only [cmAt, hl, hl']
      cases ht with
      | lact y l' hf =>
        simp only [lstep] at hf
        split at hf
        · rename_i hpc
          have hcc : l.chanClosed = false := by rw [hok.closed, hpc]; rfl
          simp [hcc] at hf; subst hf
          simp [cm, pcClosed, hpc]
        · simp at hf
      | other y h1 _ _ => simp [isL] at h1
  · intro s x s' hr hx hp
    cases hl : s.ls[i]? with
    | none =>
      rcases (step_absent (fixed := fixed) hx hl).2.2 with h' | ⟨op, h'⟩
      · simp [cmAt, hl, h']
      · simp [cmAt, hl, h', cm, pcClosed, Listener.new]
    | some l =>
      obtain ⟨l', hl', ht⟩ := step_touch (fixed := fixed) hx hl
      simp only [cmAt, hl, hl']
      cases ht with
      | lact y l' hf =>
        have hy : y ≠ .close := by intro hy; subst hy; simp [isClose] at hp
        exact lstep_cm hy hf
      | cact y l' hf => simp [cm, (cstep_pc hf).1]
      | dlv k n => rfl
      | other y _ _ _ => rfl

theorem finish_steps_counted (fixed a : Bool) (i : Nat) (run : List Action) (s s' : St)
    (hr : Reach (sys fixed a) s) (he : exec (sys fixed a) s run = some s') :
    (run.filter (isFinish i)).length + fmAt s' i = fmAt s i := by
  refine steps_counted (sys fixed a) (fun s => fmAt s i) (isFinish i) ?_ ?_ run s s' hr he
  · intro s x s' hr hx hp
    obtain ⟨j, hxe, hij⟩ := isFinish_isL hp
    subst hxe; subst hij
    have hx : act fixed s (.l i .finish) = some s' := hx
    cases hl : s.ls[i]? with
    | none => have := (step_absent (fixed := fixed) hx hl).1; simp [isL] at this
    | some l =>
      obtain ⟨l', hl', ht⟩ := step_touch (fixed := fixed) hx hl
      simp only [fmAt, hl, hl']
      cases ht with
      | lact y l' hf =>
        simp only [lstep] at hf
        split at hf
        · rename_i hpc
          simp at hf; subst hf
          simp [fm, hpc]
        · simp at hf
      | other y h1 _ _ => simp [isL] at h1
  · intro s x s' hr hx hp
    cases hl : s.ls[i]? with
    | none =>
      rcases (step_absent (fixed := fixed) hx hl).2.2 with h' | ⟨op, h'⟩
      · simp [fmAt, hl, h']
      · simp [fmAt, hl, h', fm, Listener.new]
    | some l =>
      obtain ⟨l', hl', ht⟩ := step_touch (fixed := fixed) hx hl
      simp only [fmAt, hl, hl']
      cases ht with
      | lact y l' hf =>
        have hy : y ≠ .finish := by intro hy; subst hy; simp [isFinish] at hp
        exact lstep_fm hy hf
      | cact y l' hf => simp [fm, (cstep_pc hf).1]
      | dlv k n => rfl
      | other y _ _ _ => rfl

/-- **closed exactly once, finished exactly once**: in every run from the initial state the reply channel of request
    `i` is closed at most once and `OnListenForReplyFinished` runs at most once; in a run that ends with the listener
    finished each happened exactly once -/
theorem closed_once_finished_once (fixed a : Bool) (i : Nat) (run : List Action) (s' : St)
    (he : exec (sys fixed a) (init a) run = some s') :
    (run.filter (isClose i)).length ≤ 1 ∧ (run.filter (isFinish i)).length ≤ 1 ∧
    (∀ l', s'.ls[i]? = some l' → l'.pc = .done →
      (run.filter (isClose i)).length = 1 ∧ (run.filter (isFinish i)).length = 1) := by
  have hc := close_steps_counted fixed a i run (init a) s' Reach.init he
  have hf := finish_steps_counted fixed a i run (init a) s' Reach.init he
  have h0c : cmAt (init a) i = 1 := by simp [cmAt, init]
  have h0f : fmAt (init a) i = 1 := by simp [fmAt, init]
  rw [h0c] at hc; rw [h0f] at hf
  refine ⟨by omega, by omega, ?_⟩
  intro l' hl' hd
  simp only [cmAt, hl', cm, hd, pcClosed] at hc
  simp only [fmAt, hl', fm, hd] at hf
  simp at hc hf
  exact ⟨hc, hf⟩

/-! ## non-vacuity: concrete runs -/

/-- in `demoShared` each caller ends up with exactly its own reply (with result and error text), the foreign notification
    is filtered out and acked -/
example : ∃ s l0 l1, exec (sys true false) (init false) demoShared = some s ∧
    s.ls[0]? = some l0 ∧ s.ls[1]? = some l1 ∧
    l0.got = [.result 0 "r1" none] ∧ l1.got = [.result 1 "r2" (some "boom")] ∧ l0.acked = 2 ∧ l1.acked = 2 ∧
    (s.invs.map (·.effs)) = [[.publishCall ⟨1, "r2", some "boom", false⟩, .publishRet true, .nack],
                             [.publishCall ⟨0, "r1", none, false⟩, .publishRet true, .ack]] :=
  ⟨_, _, _, rfl, rfl, rfl, by decide, by decide, by decide, by decide, by decide⟩

example : ∃ s l, exec (sys true false) (init false) demoFull = some s ∧ s.ls[0]? = some l ∧
    l.ctx ≠ .live ∧ l.buf.length = 1 ∧ l.pc = .send (.result 0 "r1" none) ∧ act true s (.l 0 .send) = none :=
  ⟨_, _, rfl, rfl, by decide, by decide, by decide, by decide⟩

example : ∃ s l, exec (sys true false) (init false) (demoFull ++ demoFinish) = some s ∧ s.ls[0]? = some l ∧
    l.pc = .done ∧ l.chanClosed = true ∧ l.finishedCalls = 1 ∧ l.got = [] ∧
    l.buf = [.result 0 "r2" (some "boom")] :=
  ⟨_, _, rfl, rfl, by decide, by decide, by decide, by decide, by decide⟩

/-! ## `Old`: the code before the repair of D12 (blocking sends) -/

namespace Old

/-- no step of listener 0 is enabled -/
def Stuck (s : St) : Prop := ∀ x ∈ allLActs, act false s (.l 0 x) = none

instance (s : St) : Decidable (Stuck s) := by unfold Stuck; infer_instance

/-- **witness (D12, two replies)**: two replies arrive, the caller stops reading and cancels: the listener is stuck
    forever at the second send – context ended, no listener step enabled, channel never closed, callback never run -/
theorem listener_stuck_witness : ∃ s l, exec (sys false false) (init false) demoFull = some s ∧
    s.ls[0]? = some l ∧ l.ctx ≠ .live ∧ l.pc ≠ .done ∧ l.chanClosed = false ∧ l.finishedCalls = 0 ∧ Stuck s :=
  ⟨_, _, rfl, rfl, by decide, by decide, by decide, by decide, by decide⟩

/-- **witness (D12, one unread reply then cancel)**: the final timeout reply cannot be sent either -/
theorem listener_stuck_witness_one : ∃ s l, exec (sys false false) (init false)
    [.newReq, .process .ok 0 n1 .ok, .deliver 0 0, .l 0 .recv, .l 0 .send, .c 0 .cancel] = some s ∧
    s.ls[0]? = some l ∧ l.ctx ≠ .live ∧ l.pc = .loop ∧ l.chanClosed = false ∧ l.finishedCalls = 0 ∧ Stuck s :=
  ⟨_, _, rfl, rfl, by decide, by decide, by decide, by decide, by decide⟩

/-- every step of the listener is a step of the model: `allLActs` is complete, so `Stuck` means what it says -/
theorem allLActs_complete (x : LAct) : x ∈ allLActs := by cases x <;> simp [allLActs]

/-- the same state is not stuck in the repaired code -/
example : ∃ s, exec (sys true false) (init false) demoFull = some s ∧ (act true s (.l 0 .sendCtx)).isSome = true :=
  ⟨_, rfl, by decide⟩

end Old

end Wm.ReqReply
