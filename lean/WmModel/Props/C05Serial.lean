/-
  C05, publisher order – end to end on the composition M_prod = M_reg ∥ M_sub(me) (`me` an arbitrary subscription id).

  "With BlockPublishUntilSubscriberAck … each already-existing subscription receives one publisher's messages in the order they
  were published."  In the model a publisher is a sequence of Publish calls, each a thread of M_reg that runs `sendMessage`
  once per message of its batch; `snd` lists, in the order of these `sendMessage` steps, the senders started for `me`
  (`some d`: started by dispatcher `d` of a Publish call; `none`: started by the persistent replay, which the code starts all
  at once with `go` and for which no order is promised).

  * `dispatcher_waited_for` (M_reg): blocking mode, not closing: a dispatcher that still waits for a sender of `sid` has its
    Publish call inside the wait, holding the topic's mutex, and `sid` is a subscription of that topic.
  * `blocking_senders_serialised`: blocking mode, Pub/Sub not closing: when a `sendMessage` starts a sender for `me`, every
    sender that an earlier `sendMessage` – of the same or of **any other** Publish call – started for `me` has ended in M_sub,
    and it is earlier in M_sub's exit order.  (The later call cannot hold the topic mutex while the earlier one is inside its
    wait; a dispatcher stops waiting for `me` only when that sender has ended – `LinkOk.pending`.)
  * `blocking_deliveries_in_publish_order`: … hence every delivery (first attempt and redeliveries) of the earlier message
    comes before every delivery of the later one in the sequence of copies handed to `me`'s consumer: the subscription receives
    the messages of all blocking Publish calls of its topic in the order of their `sendMessage` steps, in particular one
    publisher's messages in the order they were published.
  * `serial_witness`: a run with two Publish calls and one subscription in which both senders were started (hypotheses satisfiable).
-/
import WmModel.Lemmas.GcProdSer
import WmModel.Props.C05Prod
import WmModel.Props.C05Order
import WmModel.Props.C07Close
namespace Wm.GcReg
open Wm Wm.Lts

theorem reach_dw (cfg : Cfg) : ∀ s, Reach (sys cfg) s → DwOk s :=
  inv_of_step' (sys cfg) DwOk (dw_init cfg) (fun s a s' hr h ha => dw_step s a s' (reach_sublive cfg s hr) h ha)

/-- blocking mode, before closing: whoever a dispatcher still waits for is a subscription of the topic whose mutex the waiting
    Publish call holds -/
theorem dispatcher_waited_for (cfg : Cfg) (s : St) (h : Reach (sys cfg) s) (hb : cfg.blocking = true)
    (hc : s.closingSig = false) (d sid : Nat) (hm : sid ∈ (s.disp[d]?.getD [])) :
    ∃ (i t : Nat) (r : List Nat) (ao : Option (Nat × Nat)), s.ths[i]? = some (Th.pub t r (.wait d) ao) ∧
      (t, i) ∈ s.tlocks ∧ ∃ (j : Nat) (pc : TPc), s.ths[j]? = some (Th.td t sid pc) := by
  obtain ⟨i, t, r, ao, hi, j, pc, hj⟩ := reach_dw cfg s h (by rw [cfg_const cfg s h]; exact hb) hc d sid hm
  exact ⟨i, t, r, ao, hi, ((reach_tl cfg s h).1 t i).mpr ⟨_, hi, by simp [holdsT]⟩, j, pc, hj⟩

end Wm.GcReg

namespace Wm.GcProd
open Wm Wm.Lts

theorem reach_ser (me cap : Nat) (cfg : GcReg.Cfg) : ∀ s, Reach (sys me cap cfg) s → SerOk s :=
  inv_of_step' (sys me cap cfg) SerOk (ser_init cfg)
    (fun s a s' hr h ha =>
      have hreg := reach_reg me cap cfg s hr
      ser_step me cap s s' a
        (fun q hq p r hm => ((GcSub.reach_exit cap q (reach_sub me cap cfg s hr q hq)).2.2.2.1 p r hm).1)
        (GcReg.reach_sublive cfg s.reg hreg) (GcReg.reach_rs cfg s.reg hreg) (GcReg.reach_tl cfg s.reg hreg)
        (GcReg.reach_dw cfg s.reg hreg) (reach_link me cap cfg s hr) h ha)

/-- **blocking Publish calls are serialised per subscription**: of two senders started for `me` by `sendMessage` steps (entries
    `a < b` of `snd`, both with a dispatcher), the earlier one has ended – and ended first – by the time the later one exists -/
theorem blocking_senders_serialised (me cap : Nat) (p : Bool) (s : St) (h : Reach (sys me cap ⟨p, true⟩) s)
    (hc : s.reg.closingSig = false) (q : GcSub.St) (hq : s.sub = some q)
    (a b d1 m1 p1 d2 m2 p2 : Nat) (hab : a < b)
    (ha : s.snd[a]? = some (some d1, m1, p1)) (hb : s.snd[b]? = some (some d2, m2, p2)) :
    (∃ r, (p1, r) ∈ q.exits) ∧ ∀ r2, (p2, r2) ∈ q.exits → GcSub.exitedBefore q p1 p2 := by
  have hcfg : s.reg.cfg = ⟨p, true⟩ := GcReg.cfg_const _ s.reg (reach_reg me cap _ s h)
  obtain ⟨k1, k2⟩ := reach_ser me cap _ s h (by rw [hcfg]) hc q hq a b d1 m1 p1 d2 m2 p2 hab ha hb
  exact ⟨(exited_iff q p1).mp k1, k2⟩

/-- **C05, publisher order, end to end**: blocking mode, Pub/Sub not closing: every delivery of the message whose sender was
    started earlier comes before every delivery of the one started later, for every subscription and any two `sendMessage`
    steps of any Publish calls on its topic -/
theorem blocking_deliveries_in_publish_order (me cap : Nat) (p : Bool) (s : St) (h : Reach (sys me cap ⟨p, true⟩) s)
    (hc : s.reg.closingSig = false) (q : GcSub.St) (hq : s.sub = some q)
    (a b d1 m1 p1 d2 m2 p2 : Nat) (hab : a < b)
    (ha : s.snd[a]? = some (some d1, m1, p1)) (hb : s.snd[b]? = some (some d2, m2, p2))
    (i j : Nat) (ci cj : GcSub.Copy) (hi : q.copies[i]? = some ci) (hj : q.copies[j]? = some cj)
    (hpi : ci.pub = p1) (hpj : cj.pub = p2) : i < j := by
  have hqr := reach_sub me cap _ s h q hq
  obtain ⟨⟨r1, k1⟩, k2⟩ := blocking_senders_serialised me cap p s h hc q hq a b d1 m1 p1 d2 m2 p2 hab ha hb
  by_cases hex : ∃ r2, (p2, r2) ∈ q.exits
  · obtain ⟨r2, hr2⟩ := hex
    obtain ⟨a', b', x1, x2, hab', hx, hy⟩ := k2 r2 hr2
    exact GcSub.deliveries_in_exit_order cap q hqr a' b' p1 p2 x1 x2 hab' hx hy i j ci cj hi hj hpi hpj
  · exact GcSub.ended_sender_deliveries_first cap q hqr p1 p2 r1 k1 (fun r' hm => hex ⟨r', hm⟩) i j ci cj hi hj hpi hpj

/-- one subscription, two blocking Publish calls one after the other; the consumer acks the first message, then the second
    sender is started and hands its copy over: both senders are in `snd`, both copies delivered – the hypotheses of the
    theorems above are satisfiable, with a non-trivial conclusion -/
def serialRun : List Action :=
  [.reg (.newSub 0), .reg (.step 0), .reg (.step 0), .reg (.step 0), .reg (.step 0), .reg (.step 0), .reg (.step 0),
   .reg (.newPub 0 [7] none), .reg (.step 2), .reg (.step 2), .reg (.step 2), .reg (.step 2), .reg (.step 2),
   .sub (.sLock 0), .sub .sCheck, .sub .sTop, .sub .sSend, .sub (.settle 0 .ack), .sub .sObsAck,
   .reg (.senderDone 0 0), .reg (.step 2), .reg (.step 2), .reg (.step 2),
   .reg (.newPub 0 [8] none), .reg (.step 3), .reg (.step 3), .reg (.step 3), .reg (.step 3), .reg (.step 3),
   .sub (.sLock 0), .sub .sCheck, .sub .sTop, .sub .sSend]

theorem serial_witness :
    ∃ s q, exec (sys 0 0 ⟨false, true⟩) (init ⟨false, true⟩) serialRun = some s ∧ s.sub = some q ∧
      s.reg.closingSig = false ∧ s.snd = [(some 0, 7, 0), (some 1, 8, 1)] ∧
      q.copies.map (·.pub) = [0, 1] ∧ q.exits = [(0, .acked)] := by
  refine ⟨_, _, rfl, rfl, ?_, ?_, ?_, ?_⟩ <;> decide

end Wm.GcProd
