/-
  C09 – Middlewares nest in registration order per handler; decorators apply in order.
  Property theorems.  Model: `WmModel/Chain.lean` (the loops of `handler.run`, `decorateHandlerPublisher`,
  `decorateHandlerSubscriber` as written, index loops included).  Helper lemmas are in the first section.
  Every statement quantifies over all registration lists / programs, all handler names, all ids – no bounds.
-/
import WmModel.Chain
namespace Wm.Chain

/-! ### helper lemmas -/

theorem wrapLoop_eq_foldr (name : String) (mws : List (Mw α)) (i : Nat) (hi : i ≤ mws.length) (acc : α) :
    wrapLoop name mws i acc =
      (mws.take i).foldr (fun m a => if applies name m then m.fn a else a) acc := by
  induction i generalizing acc with
  | zero => simp [wrapLoop]
  | succ i ih =>
    have hlt : i < mws.length := by omega
    have hget : mws[i]? = some mws[i] := List.getElem?_eq_getElem hlt
    simp only [wrapLoop, hget]
    rw [ih (by omega), List.take_add_one, hget, Option.toList, List.foldr_append]
    rfl

theorem foldr_filter (name : String) (mws : List (Mw α)) (h : α) :
    mws.foldr (fun m a => if applies name m then m.fn a else a) h =
      (mws.filter (applies name)).foldr (fun m a => m.fn a) h := by
  induction mws with
  | nil => rfl
  | cons m rest ih =>
    by_cases hm : applies name m <;> simp [List.filter, hm, ih]

theorem loopDown_eq_foldr (fs : List (α → α)) (i : Nat) (hi : i ≤ fs.length) (acc : α) :
    loopDown fs i acc = (fs.take i).foldr (fun f a => f a) acc := by
  induction i generalizing acc with
  | zero => simp [loopDown]
  | succ i ih =>
    have hlt : i < fs.length := by omega
    have hget : fs[i]? = some fs[i] := List.getElem?_eq_getElem hlt
    simp only [loopDown, hget]
    rw [ih (by omega), List.take_add_one, hget, Option.toList, List.foldr_append]
    rfl

theorem loopUp_eq_foldl (fs : List (α → α)) (acc : α) :
    loopUp fs acc = fs.foldl (fun a f => f a) acc := by
  induction fs generalizing acc with
  | nil => rfl
  | cons f rest ih => simp [loopUp, ih]

theorem foldr_recMw (ids : List Nat) (h : HF) :
    ids.foldr (fun i a => recMw i a) h = ids.map Ev.enter ++ h ++ ids.reverse.map Ev.leave := by
  induction ids with
  | nil => simp
  | cons i rest ih =>
    simp only [List.foldr_cons]
    rw [ih]
    simp [recMw]

theorem loopUp_recSub (sd : List Nat) (evs : List Ev) (c : Bool) :
    loopUp (sd.map recSub) (evs, c) = (evs ++ sd.map (fun i => Ev.sub i c), c) := by
  induction sd generalizing evs with
  | nil => simp [loopUp]
  | cons i rest ih => simp [loopUp, recSub, ih]

/-! ### the wrap loop, for arbitrary middleware functions -/

/-- **the chain a handler runs is the composition of exactly the router-level middlewares and its own, in
    registration order, the earliest outermost** – for arbitrary middleware functions (not only recorders),
    any snapshot, any handler name, any handler function. -/
theorem wrap_eq_compose (name : String) (mws : List (Mw α)) (h : α) :
    wrap name mws h = ((mws.filter (applies name)).foldr (fun m a => m.fn a) h) := by
  unfold wrap
  rw [wrapLoop_eq_foldr name mws mws.length (Nat.le_refl _), List.take_length, foldr_filter]

/-- ids of the registrations that apply to handler `h`, in registration order -/
def chainFor (regs : List Reg) (h : String) : List Nat :=
  (regs.filter fun r => r.isRouterLevel || r.handlerName == h).map (·.id)

/-- **chain_trace**: for every registration sequence and handler, the trace of one message is `enter` of the
    router-level + own middlewares in registration order, the handler, then `leave` in reverse order. -/
theorem chain_trace (regs : List Reg) (h : String) :
    chainTrace regs h =
      (chainFor regs h).map Ev.enter ++ [Ev.handler] ++ (chainFor regs h).reverse.map Ev.leave := by
  unfold chainTrace chainFor
  rw [wrap_eq_compose]
  have : (regs.map Reg.toMw).filter (applies h) =
      (regs.filter fun r => r.isRouterLevel || r.handlerName == h).map Reg.toMw := by
    induction regs with
    | nil => rfl
    | cons r rest ih =>
      by_cases hr : (r.isRouterLevel || r.handlerName == h) = true
      · simp [List.filter, applies, Reg.toMw, hr, ← ih]
      · simp [List.filter, applies, Reg.toMw, hr, ← ih]
  rw [this, List.foldr_map]
  have h2 := foldr_recMw ((regs.filter fun r => r.isRouterLevel || r.handlerName == h).map (·.id)) [Ev.handler]
  rw [List.foldr_map] at h2
  exact h2

example : chainTrace [⟨1, "", true⟩, ⟨2, "a", false⟩, ⟨3, "b", false⟩, ⟨4, "", true⟩, ⟨5, "a", false⟩] "a" =
    [.enter 1, .enter 2, .enter 4, .enter 5, .handler, .leave 5, .leave 4, .leave 2, .leave 1] := by decide

/-- `enter i` occurs in the trace of handler `h` exactly when `i` is a router-level or `h`-level registration -/
theorem enter_mem_iff (regs : List Reg) (h : String) (i : Nat) :
    Ev.enter i ∈ chainTrace regs h ↔ i ∈ chainFor regs h := by
  rw [chain_trace]; simp

theorem leave_mem_iff (regs : List Reg) (h : String) (i : Nat) :
    Ev.leave i ∈ chainTrace regs h ↔ i ∈ chainFor regs h := by
  rw [chain_trace]; simp

/-- **every router-level middleware and every middleware of the handler itself runs** -/
theorem own_and_router_level_run (regs : List Reg) (h : String) (r : Reg) (hr : r ∈ regs)
    (ha : r.isRouterLevel = true ∨ r.handlerName = h) :
    Ev.enter r.id ∈ chainTrace regs h ∧ Ev.leave r.id ∈ chainTrace regs h := by
  have : r.id ∈ chainFor regs h := by
    unfold chainFor
    refine List.mem_map.mpr ⟨r, List.mem_filter.mpr ⟨hr, ?_⟩, rfl⟩
    rcases ha with ha | ha <;> simp [ha]
  exact ⟨(enter_mem_iff regs h r.id).mpr this, (leave_mem_iff regs h r.id).mpr this⟩

/-- **never another handler's**: a middleware registered for a different handler (its id not reused by an
    applicable registration) neither enters nor leaves in this handler's trace. -/
theorem no_foreign_middleware (regs : List Reg) (h : String) (r : Reg)
    (hnr : r.isRouterLevel = false) (hne : r.handlerName ≠ h)
    (huniq : ∀ r' ∈ regs, r'.id = r.id → r' = r) :
    Ev.enter r.id ∉ chainTrace regs h ∧ Ev.leave r.id ∉ chainTrace regs h := by
  have key : r.id ∉ chainFor regs h := by
    intro hm
    unfold chainFor at hm
    rcases List.mem_map.mp hm with ⟨r', hr', hid⟩
    have hf := List.mem_filter.mp hr'
    have := huniq r' hf.1 hid
    subst this
    have h2 := hf.2
    simp [hnr, hne] at h2
  exact ⟨fun hm => key ((enter_mem_iff regs h r.id).mp hm), fun hm => key ((leave_mem_iff regs h r.id).mp hm)⟩

example : Ev.enter 3 ∉ chainTrace [⟨1, "", true⟩, ⟨2, "a", false⟩, ⟨3, "b", false⟩] "a" := by decide
example : Ev.enter 3 ∈ chainTrace [⟨1, "", true⟩, ⟨2, "a", false⟩, ⟨3, "b", false⟩] "b" := by decide

/-! ### decorators -/

/-- publisher decorators, arbitrary functions: the result is `d₀ (d₁ (… (dₙ pub)))` – the decorator added first is
    the outermost, i.e. the first to see an outgoing message -/
theorem decoratePublisher_eq_compose (decs : List (α → α)) (pub : α) :
    decoratePublisher decs pub = decs.foldr (fun f a => f a) pub := by
  unfold decoratePublisher
  rw [loopDown_eq_foldr decs decs.length (Nat.le_refl _), List.take_length]

/-- **no publisher ⇒ not decorated**: a handler registered with a nil publisher keeps it, whatever decorators the router has;
    one with a publisher gets the composition above -/
theorem decorateHandlerPublisher_nil (decs : List (α → α)) :
    decorateHandlerPublisher decs (none : Option α) = none ∧
    ∀ pub : α, decorateHandlerPublisher decs (some pub) = some (decs.foldr (fun f a => f a) pub) := by
  refine ⟨rfl, fun pub => ?_⟩
  simp [decorateHandlerPublisher, decoratePublisher_eq_compose]

/-- subscriber decorators, arbitrary functions: the result is `dₙ (… (d₀ (ctx sub)))` – the context decorator is
    next to the original subscriber, then the decorator added first, …: incoming messages meet them in that order -/
theorem decorateSubscriber_eq_compose (c : α → α) (decs : List (α → α)) (sub : α) :
    decorateSubscriber c decs sub = decs.foldl (fun a f => f a) (c sub) := by
  unfold decorateSubscriber
  exact loopUp_eq_foldl decs (c sub)

/-- **publisher decorators act on an outgoing message in the order they were added**, then the real publisher gets it -/
theorem pub_decorators_in_order (pd : List Nat) : pubTrace pd = pd.map Ev.pub ++ [Ev.published] := by
  unfold pubTrace
  rw [decoratePublisher_eq_compose, List.foldr_map]
  induction pd with
  | nil => rfl
  | cons i rest _ => simp [recPub]

/-- **subscriber decorators act on an incoming message in the order they were added**, each exactly once, each after
    the router's context decorator (so each already sees the handler context) – also when the handler was given an
    application-decorated subscriber object (whose own transform acts first, before the router's decorators) -/
theorem sub_decorators_in_order_from (app : Option Nat) (sd : List Nat) :
    subTraceFrom app sd = (appSub app).1 ++ sd.map (fun i => Ev.sub i true) := by
  unfold subTraceFrom decorateSubscriber ctxDec
  rw [loopUp_recSub]

theorem sub_decorators_in_order (sd : List Nat) : subTrace sd = sd.map (fun i => Ev.sub i true) := by
  unfold subTrace
  rw [sub_decorators_in_order_from]
  simp [appSub]

/-- **every publisher decorator acts on every outgoing message**: a `Publish` call with `n` messages (any objects, any
    UUIDs – equal, empty) shows each decorator, in the order added, all `n` of them, then the publisher gets all `n` -/
theorem pub_decorators_in_order_n (n : Nat) (pd : List Nat) :
    pubTraceN n pd = pd.flatMap (fun i => List.replicate n (Ev.pub i)) ++ List.replicate n Ev.published := by
  unfold pubTraceN
  rw [decoratePublisher_eq_compose, List.foldr_map]
  induction pd with
  | nil => rfl
  | cons i rest ih =>
    simp only [List.foldr_cons, List.flatMap_cons, List.append_assoc]
    rw [ih]
    simp [recPubN]

theorem pubTraceN_one (pd : List Nat) : pubTraceN 1 pd = pubTrace pd := by
  rw [pub_decorators_in_order_n, pub_decorators_in_order]
  induction pd with
  | nil => rfl
  | cons i rest ih => simp_all

example : pubTrace [7, 3, 9] = [.pub 7, .pub 3, .pub 9, .published] := by decide
example : pubTraceN 2 [7, 3] = [.pub 7, .pub 7, .pub 3, .pub 3, .published, .published] := by decide
example : subTrace [7, 3, 9] = [.sub 7 true, .sub 3 true, .sub 9 true] := by decide
example : subTraceFrom (some 4) [7, 3] = [.app 4, .sub 7 true, .sub 3 true] := by decide

/-- what the property demands of one message in handler `name` (a specification, no loops):
    (the application's own subscriber transform, if any,) subscriber decorators in order, `enter` of the applicable
    registrations in order, handler, `leave` reversed, publisher decorators in order and the publisher (if the handler
    has one and returned a message). -/
def specTrace (regs : List Reg) (pd sd : List Nat) (name : String) (outs : Nat) (app : Option Nat := none) : List Ev :=
  (appSub app).1 ++ sd.map (fun i => Ev.sub i true) ++
  ((chainFor regs name).map Ev.enter ++ [Ev.handler] ++ (chainFor regs name).reverse.map Ev.leave) ++
  (pd.flatMap (fun i => List.replicate outs (Ev.pub i)) ++ List.replicate outs Ev.published)

/-- the model's whole per-message trace is the specification -/
theorem msg_trace_spec (regs : List Reg) (pd sd : List Nat) (name : String) (outs : Nat) (app : Option Nat) :
    msgTrace regs pd sd name outs app = specTrace regs pd sd name outs app := by
  unfold msgTrace specTrace
  rw [sub_decorators_in_order_from, chain_trace, pub_decorators_in_order_n]

/-! ### concurrent registration: whatever order the lock serialises overlapping `Handler.AddMiddleware` calls in -/

/-- **every registered middleware is in the chain exactly once, whatever the linearisation**: if `regs'` is any
    reordering of the same registrations, handler `h` runs the same middlewares with the same multiplicities -/
theorem chain_perm_invariant (regs regs' : List Reg) (h : String) (hp : regs'.Perm regs) :
    (chainFor regs' h).Perm (chainFor regs h) := by
  unfold chainFor
  exact (hp.filter _).map _

/-- **order within one goroutine is preserved**: the registrations `g` one caller made in sequence appear in the chain
    in that order (as a subsequence), wherever the other callers' registrations landed in between -/
theorem chain_sublist (g regs : List Reg) (h : String) (hs : g.Sublist regs) :
    (chainFor g h).Sublist (chainFor regs h) := by
  unfold chainFor
  exact (hs.filter _).map _

example : (chainFor [⟨4, "a", false⟩, ⟨1, "a", false⟩, ⟨5, "b", false⟩, ⟨2, "a", false⟩] "a").Perm
    (chainFor [⟨1, "a", false⟩, ⟨2, "a", false⟩, ⟨4, "a", false⟩, ⟨5, "b", false⟩] "a") := by decide

/-! ### registration programs: plugins loaded by Run, snapshot at start, handlers started later by RunHandlers -/

theorem R3.app_assoc (a b c : R3) : (a.app b).app c = a.app (b.app c) := by
  simp [R3.app, List.append_assoc]
theorem R3.app_nil (a : R3) : a.app {} = a := by simp [R3.app]
theorem R3.nil_app (a : R3) : R3.app {} a = a := by simp [R3.app]

/-- what a program registers, in order – the registrations of a plugin count at the moment `Run` executes it:
    `ran` = Run has already happened, `pl` = the plugins added so far -/
def progR3 : Bool → List (List POp) → List Op → R3
  | _, _, [] => {}
  | ran, pl, .routerMw ids :: r => R3.app ⟨ids.map fun i => ⟨i, "", true⟩, [], []⟩ (progR3 ran pl r)
  | ran, pl, .handlerMw h ids :: r => R3.app ⟨ids.map fun i => ⟨i, h, false⟩, [], []⟩ (progR3 ran pl r)
  | ran, pl, .pubDec ids :: r => R3.app ⟨[], ids, []⟩ (progR3 ran pl r)
  | ran, pl, .subDec ids :: r => R3.app ⟨[], [], ids⟩ (progR3 ran pl r)
  | ran, pl, .addHandler _ _ _ :: r => progR3 ran pl r
  | ran, pl, .plugin ps :: r => progR3 ran (pl ++ [ps]) r
  | ran, pl, .callerEdits :: r => progR3 ran pl r
  | ran, pl, .stopAgain :: r => progR3 ran pl r
  | ran, pl, .stopHandler _ :: r => progR3 ran pl r
  | false, pl, .run :: r => (pluginR3 pl).app (progR3 true pl r)
  | true, pl, .run :: r => progR3 true pl r

theorem loadPlugins_r3 (s : St) :
    (loadPlugins s).r3 = s.r3.app (if s.ran then {} else pluginR3 s.plugins) ∧
    (loadPlugins s).ran = true ∧ (loadPlugins s).plugins = s.plugins ∧ (loadPlugins s).hs = s.hs ∧
    (loadPlugins s).obs = s.obs := by
  unfold loadPlugins
  by_cases hr : s.ran = true
  · simp [hr, R3.app_nil]
  · simp [hr, St.r3, R3.app]

/-- the registration lists after a program are what the program registers, in program order; plugins are executed by
    the first `run` (= `Run`), before it starts any handler, and never again -/
theorem exec_regs (s s' : St) (p : List Op) (h : exec s p = some s') :
    s'.r3 = s.r3.app (progR3 s.ran s.plugins p) := by
  induction p generalizing s with
  | nil => simp [exec] at h; subst h; simp [progR3, R3.app_nil]
  | cons o rest ih =>
    simp only [exec] at h
    cases hs : step s o with
    | none => simp [hs] at h
    | some s2 =>
      simp only [hs] at h
      have h2 := ih s2 h
      rw [h2]
      cases o <;> simp only [step] at hs
      case routerMw ids => cases hs; simp [progR3, St.r3, R3.app, List.append_assoc]
      case handlerMw g ids =>
        split at hs
        · cases hs; simp [progR3, St.r3, R3.app, List.append_assoc]
        · cases hs
      case addHandler g q a =>
        split at hs
        · cases hs
        · cases hs; simp [progR3, St.r3]
      case plugin ps => cases hs; simp [progR3, St.r3]
      case callerEdits => cases hs; simp [progR3]
      case stopAgain => cases hs; simp [progR3]
      case stopHandler g =>
        split at hs
        · cases hs; simp [progR3, St.r3]
        · cases hs
      case pubDec ids => cases hs; simp [progR3, St.r3, R3.app, List.append_assoc]
      case subDec ids => cases hs; simp [progR3, St.r3, R3.app, List.append_assoc]
      case run =>
        cases hs
        have hl := loadPlugins_r3 s
        show (loadPlugins s).r3.app (progR3 (loadPlugins s).ran (loadPlugins s).plugins rest) = _
        rw [hl.1, hl.2.1, hl.2.2.1]
        by_cases hr : s.ran = true
        · simp [hr, progR3, R3.app_nil]
        · have hr' : s.ran = false := by simpa using hr
          simp [hr', progR3, R3.app_assoc]

theorem step_keeps_started (s s' : St) (o : Op) (h : step s o = some s') (x : HSt) (hx : x ∈ s.hs)
    (t : List Ev) (ht : x.trace = some t) (hno : o ≠ .stopHandler x.name) : x ∈ s'.hs := by
  cases o <;> simp only [step] at h
  case routerMw ids => cases h; exact hx
  case handlerMw g ids =>
    split at h
    · cases h; exact hx
    · cases h
  case addHandler g p a =>
    split at h
    · cases h
    · cases h; exact List.mem_append_left _ hx
  case plugin ps => cases h; exact hx
  case callerEdits => cases h; exact hx
  case stopAgain => cases h; exact hx
  case stopHandler g =>
    split at h
    · cases h
      refine List.mem_filter.mpr ⟨hx, ?_⟩
      have : x.name ≠ g := fun e => hno (by rw [e])
      simpa using this
    · cases h
  case pubDec ids => cases h; exact hx
  case subDec ids => cases h; exact hx
  case run =>
    cases h
    have hl := loadPlugins_r3 s
    refine List.mem_map.mpr ⟨x, by rw [hl.2.2.2.1]; exact hx, ?_⟩
    simp [startH, ht]

theorem step_obs (s s' : St) (o : Op) (h : step s o = some s') :
    (o ≠ .run → s'.obs = s.obs) ∧ (o = .run → s'.obs = s.obs ++ [block s'.hs]) := by
  cases o <;> simp only [step] at h
  case routerMw ids => cases h; simp
  case handlerMw g ids =>
    split at h
    · cases h; simp
    · cases h
  case addHandler g p a =>
    split at h
    · cases h
    · cases h; simp
  case plugin ps => cases h; simp
  case callerEdits => cases h; simp
  case stopAgain => cases h; simp
  case stopHandler g =>
    split at h
    · cases h; simp
    · cases h
  case pubDec ids => cases h; simp
  case subDec ids => cases h; simp
  case run => cases h; simp [(loadPlugins_r3 s).2.2.2.2]

theorem exec_obs_prefix (s s' : St) (p : List Op) (h : exec s p = some s') : ∃ ex, s'.obs = s.obs ++ ex := by
  induction p generalizing s with
  | nil => simp [exec] at h; subst h; exact ⟨[], by simp⟩
  | cons o rest ih =>
    simp only [exec] at h
    cases hs : step s o with
    | none => simp [hs] at h
    | some s2 =>
      simp only [hs] at h
      rcases ih s2 h with ⟨ex, hex⟩
      have ho := step_obs s s2 o hs
      by_cases hr : o = .run
      · exact ⟨[block s2.hs] ++ ex, by rw [hex, ho.2 hr]; simp⟩
      · exact ⟨ex, by rw [hex, ho.1 hr]⟩

/-- **snapshot**: once a handler is started its per-message trace never changes, whatever is registered, added, started
    or stopped later – as long as it is not stopped itself – and every later observation block reports exactly that
    trace for it -/
theorem started_frozen (s s' : St) (p : List Op) (h : exec s p = some s') (x : HSt) (hx : x ∈ s.hs)
    (t : List Ev) (ht : x.trace = some t) (hno : ∀ o ∈ p, o ≠ .stopHandler x.name) :
    x ∈ s'.hs ∧ ∀ b ∈ s'.obs.drop s.obs.length, (x.name, t) ∈ b := by
  induction p generalizing s with
  | nil => simp [exec] at h; subst h; simp [hx]
  | cons o rest ih =>
    simp only [exec] at h
    cases hs : step s o with
    | none => simp [hs] at h
    | some s2 =>
      simp only [hs] at h
      have hx2 := step_keeps_started s s2 o hs x hx t ht (hno o (List.mem_cons_self ..))
      have ih2 := ih s2 h hx2 (fun o' ho' => hno o' (List.mem_cons_of_mem _ ho'))
      refine ⟨ih2.1, ?_⟩
      have ho := step_obs s s2 o hs
      by_cases hr : o = .run
      · rcases exec_obs_prefix s2 s' rest h with ⟨ex, hex⟩
        have h2 : s'.obs.drop s2.obs.length = ex := by rw [hex]; simp
        have h3 : s'.obs.drop s.obs.length = block s2.hs :: ex := by
          rw [hex, ho.2 hr]; simp
        intro b hb
        rw [h3] at hb
        rcases List.mem_cons.mp hb with hb | hb
        · subst hb
          unfold block
          exact List.mem_filterMap.mpr ⟨x, hx2, by simp [ht]⟩
        · exact ih2.2 b (by rw [h2]; exact hb)
      · rw [← ho.1 hr]; exact ih2.2

/-- **program_chain_trace**: for every registration program `pre ++ run :: post` – any interleaving of router-level
    and handler-level `AddMiddleware`, `AddHandler` (raw or application-decorated subscriber), `AddPlugin`, decorator
    registrations and earlier `run`s in `pre`, anything in `post` – a handler that is added but not yet started when that
    `run` happens is started by it and from then on every message does exactly: (the application's subscriber transform,)
    subscriber decorators in order; `enter` of the router-level + own middlewares in registration order; the handler;
    `leave` in reverse; publisher decorators in order – where the registrations are those of `pre` followed, when this
    `run` is `Run` itself, by what the plugins register (plugins are executed BEFORE the handlers are started).
    Registrations in `post` do not reach it, nor do other handlers stopping or being added (a handler added after another
    one stopped is a handler of its own: it gets no other handler's middlewares and gives none away); the observation of
    that `run` and of every later one reports that trace, as long as the handler is not stopped itself. -/
theorem program_chain_trace (pre post : List Op) (s1 s : St) (x : HSt)
    (h1 : exec {} pre = some s1) (hx : x ∈ s1.hs) (hns : x.trace = none)
    (h2 : exec s1 (.run :: post) = some s) (hno : ∀ o ∈ post, o ≠ .stopHandler x.name) :
    let r := (progR3 false [] pre).app (if s1.ran then {} else pluginR3 s1.plugins)
    let t := specTrace r.regs r.pd r.sd x.name x.outs x.app
    (⟨x.name, x.outs, x.app, some t⟩ : HSt) ∈ s.hs ∧ ∀ b ∈ s.obs.drop s1.obs.length, (x.name, t) ∈ b := by
  intro r t
  have hr := exec_regs {} s1 pre h1
  have hl := loadPlugins_r3 s1
  have hr3 : (loadPlugins s1).r3 = r := by
    rw [hl.1, hr]; simp [r, St.r3, R3.nil_app]
  simp only [exec, step] at h2
  have hmem : (⟨x.name, x.outs, x.app, some t⟩ : HSt) ∈ (loadPlugins s1).hs.map (startH (loadPlugins s1)) := by
    refine List.mem_map.mpr ⟨x, by rw [hl.2.2.2.1]; exact hx, ?_⟩
    simp only [startH, hns]
    rw [msg_trace_spec]
    have e : (loadPlugins s1).regs = r.regs ∧ (loadPlugins s1).pd = r.pd ∧ (loadPlugins s1).sd = r.sd := by
      rw [← hr3]; exact ⟨rfl, rfl, rfl⟩
    rw [e.1, e.2.1, e.2.2]
  have hfz := started_frozen _ s post h2 _ hmem t rfl hno
  refine ⟨hfz.1, ?_⟩
  intro b hb
  have hd : s.obs.drop s1.obs.length =
      block ((loadPlugins s1).hs.map (startH (loadPlugins s1))) :: s.obs.drop (s1.obs.length + 1) := by
    rcases exec_obs_prefix _ s post h2 with ⟨ex, hex⟩
    rw [hex]; simp [hl.2.2.2.2]
  rw [hd] at hb
  rcases List.mem_cons.mp hb with hb | hb
  · subst hb
    unfold block
    exact List.mem_filterMap.mpr ⟨_, hmem, by simp⟩
  · refine hfz.2 b ?_
    simpa [hl.2.2.2.2] using hb

/-- **the router's lists are value copies**: whatever the application does afterwards to the slices it passed to
    `AddMiddleware(ms...)`, `handler.AddMiddleware(ms...)`, `AddPublisherDecorators(ds...)`, `AddSubscriberDecorators(ds...)`
    – element assignment, `append` on spare capacity, handing them to a second router – is invisible to the router:
    removing all such edits from a program changes neither its final state nor any observation -/
theorem caller_edits_invisible (s : St) (p : List Op) :
    exec s p = exec s (p.filter (· ≠ .callerEdits)) := by
  induction p generalizing s with
  | nil => rfl
  | cons o rest ih =>
    by_cases ho : o = .callerEdits
    · subst ho
      simp only [exec, step, List.filter, ne_eq, not_true_eq_false, decide_false]
      exact ih s
    · have : (o :: rest).filter (· ≠ .callerEdits) = o :: rest.filter (· ≠ .callerEdits) := by
        simp [List.filter, ho]
      rw [this]
      simp only [exec]
      cases step s o with
      | none => rfl
      | some s2 => exact ih s2

example : (exec {} [.pubDec [1, 2], .callerEdits, .addHandler "a" 1 none, .subDec [3], .callerEdits, .run]).map (·.obs) =
    some [[("a", [.sub 3 true, .handler, .pub 1, .pub 2, .published])]] := by decide

/-- **plugins act on every handler added before Run**: when `Run` happens (no earlier `run` in the program), whatever
    the plugins added so far register is part of the registrations the handlers started by it get – appended, in plugin
    order, after everything registered directly before `Run` -/
theorem plugins_loaded_before_handlers_start (pre : List Op) (s1 : St) (h1 : exec {} pre = some s1) (hnr : s1.ran = false) :
    (loadPlugins s1).r3 = (progR3 false [] pre).app (pluginR3 s1.plugins) := by
  rw [(loadPlugins_r3 s1).1, exec_regs {} s1 pre h1]
  simp [hnr, St.r3, R3.nil_app]

/-- non-vacuity: router-level and handler-level registrations before `run`, a second handler added after it with
    registrations of its own, then `RunHandlers`; the first handler keeps its snapshot -/
example : (exec {} [.routerMw [1], .addHandler "a" 1 none, .handlerMw "a" [2], .pubDec [7], .run,
                    .routerMw [3], .addHandler "b" 0 none, .handlerMw "b" [4], .handlerMw "a" [5], .subDec [8], .run]).map (·.obs) =
    some [[("a", [.enter 1, .enter 2, .handler, .leave 2, .leave 1, .pub 7, .published])],
          [("a", [.enter 1, .enter 2, .handler, .leave 2, .leave 1, .pub 7, .published]),
           ("b", [.sub 8 true, .enter 1, .enter 3, .enter 4, .handler, .leave 4, .leave 3, .leave 1])]] := by decide

/-- non-vacuity: a plugin registering a middleware, a publisher and a subscriber decorator; two handlers sharing the
    application-decorated subscriber 4, both added before `Run`; a plugin added after `Run` never acts -/
example : (exec {} [.plugin [.routerMw [9], .pubDec [7], .subDec [8]], .addHandler "a" 1 (some 4), .routerMw [1],
                    .addHandler "b" 0 (some 4), .run, .plugin [.routerMw [5]], .addHandler "c" 0 none, .run]).map (·.obs) =
    some [[("a", [.app 4, .sub 8 true, .enter 1, .enter 9, .handler, .leave 9, .leave 1, .pub 7, .published]),
           ("b", [.app 4, .sub 8 true, .enter 1, .enter 9, .handler, .leave 9, .leave 1])],
          [("a", [.app 4, .sub 8 true, .enter 1, .enter 9, .handler, .leave 9, .leave 1, .pub 7, .published]),
           ("b", [.app 4, .sub 8 true, .enter 1, .enter 9, .handler, .leave 9, .leave 1]),
           ("c", [.sub 8 true, .enter 1, .enter 9, .handler, .leave 9, .leave 1])]] := by decide

/-- non-vacuity: handlers a and b with middlewares of their own are running, a is stopped, c is added afterwards with
    its own middleware: b keeps its chain, c runs router-level + its own – none of b's, none of a's -/
example : (exec {} [.routerMw [1], .addHandler "a" 1 none, .handlerMw "a" [2], .addHandler "b" 0 none, .handlerMw "b" [3],
                    .run, .stopHandler "a", .addHandler "c" 0 none, .handlerMw "c" [4], .run]).map (·.obs) =
    some [[("a", [.enter 1, .enter 2, .handler, .leave 2, .leave 1, .published]),
           ("b", [.enter 1, .enter 3, .handler, .leave 3, .leave 1])],
          [("b", [.enter 1, .enter 3, .handler, .leave 3, .leave 1]),
           ("c", [.enter 1, .enter 4, .handler, .leave 4, .leave 1])]] := by decide

end Wm.Chain
