/-
  C11 on the full registry model M_reg (GcReg.lean): any number of concurrent Publish, Subscribe, Close calls and
  unsubscribe goroutines on any number of topics, every interleaving of their lock-delimited steps, with the real
  RWMutex / topic-mutex / closedLock protocol (not the three-phase abstraction of M_topic, Props/C11.lean).

  `started` is the ghost list of sender goroutines ever started, `(sid, m)` = "a sender for message `m` was started
  on behalf of subscription `sid`" – by Publish's `sendMessage` for the subscribers registered at that moment, or by
  Subscribe's replay of the persisted log.  `log` is `persistedMessages`.
  In persistent mode, for every registered subscription `sid` of topic `t`:
  * whenever no Publish is between its persist step and the release of the topic mutex on `t`,
    the senders started for `sid` are exactly the persisted messages of `t`, each once, in log order;
  * while a Publish is in that window with `r` still to send, senders ++ r = log: nothing is doubled or skipped,
    the rest of the batch is still owed.
  What a started sender does until the delivery is acked is M_sub (Props/C04.lean, Props/C07.lean).
-/
import WmModel.Lemmas.GcRegC11Inv
import WmModel.Props.C07Locks
namespace Wm.GcReg
open Wm.Lts

theorem reach_aux (cfg : Cfg) : ∀ s, Reach (sys cfg) s → AuxOk s :=
  inv_of_step' (sys cfg) AuxOk (aux_init cfg)
    (fun s a s' hr h ha => aux_step s a s' (reach_w1 cfg s hr) (reach_rs cfg s hr) h ha)

theorem reach_live (cfg : Cfg) : ∀ s, Reach (sys cfg) s → LiveOk s :=
  inv_of_step' (sys cfg) LiveOk (live_init cfg)
    (fun s a s' hr h ha => live_step s a s' (reach_w1 cfg s hr) (reach_close cfg s hr) h ha)

theorem reach_c11 (cfg : Cfg) : ∀ s, Reach (sys cfg) s → C11Ok s :=
  inv_of_step' (sys cfg) C11Ok (c11_init cfg)
    (fun s a s' hr h ha => c11_step s a s' (reach_tl cfg s hr) (reach_aux cfg s hr) (reach_live cfg s hr)
      (reach_wg cfg s hr) h ha)

theorem cfg_const (cfg : Cfg) : ∀ s, Reach (sys cfg) s → s.cfg = cfg := by
  refine inv_of_step (sys cfg) (fun s => s.cfg = cfg) rfl ?_
  intro s a s' h ha
  have : s'.cfg = s.cfg := by
    cases a <;> simp only [sys, act] at ha
    case newPub t msgs nested =>
      cases nested with
      | none => simp at ha; subst ha; rfl
      | some p => simp only at ha; split at ha <;> simp at ha; subst ha; rfl
    case newSub t => simp at ha; subst ha; rfl
    case newClose => simp at ha; subst ha; rfl
    case cancel sid => simp at ha; subst ha; rfl
    case senderDone d sid => split at ha <;> simp at ha; subst ha; rfl
    case step i =>
      split at ha
      · rename_i t rest pc ao _
        cases pc <;> simp only [stepPub] at ha <;> (repeat' split at ha) <;> simp at ha <;> subst ha <;>
          (try cases ao) <;> simp [setTh, finishSender]
      · rename_i t sid pc _
        cases pc <;> simp only [stepSub] at ha <;> (repeat' split at ha) <;> simp at ha <;> subst ha <;> simp [setTh]
      · rename_i t sid pc _
        cases pc <;> simp only [stepTd] at ha <;> (repeat' split at ha) <;> simp at ha <;> subst ha <;> simp [setTh]
      · rename_i pc _
        cases pc <;> simp only [stepCloser] at ha <;> (repeat' split at ha) <;> simp at ha <;> subst ha <;> simp [setTh]
      · simp at ha
  rw [this]; exact h

/-- **C11, quiescent form** – persistent mode, any reachable state: for a registered subscription of topic `t`, if no
    Publish on `t` is between persisting its batch and releasing the topic mutex, the sender goroutines started for
    it so far carry exactly the persisted messages of `t`: none missing, none doubled, in log order. -/
theorem registry_exactly_one_sender (b : Bool) (s : St) (h : Reach (sys ⟨true, b⟩) s) (sid t : Nat)
    (hreg : (sid, t) ∈ s.subs)
    (hq : ∀ (i : Nat) (r : List Nat) (pc : PPc) (ao : Option (Nat × Nat)),
      s.ths[i]? = some (Th.pub t r pc ao) → afterPersist pc = false) :
    sentTo s sid = logOf s t := by
  have hc := cfg_const _ s h
  exact ((reach_c11 _ s h).2 (by rw [hc]) sid t hreg).2 hq

/-- **C11, mid-Publish form**: while a Publish on `t` is past its persist step with `r` still to send, every
    registered subscription of `t` has had exactly the log minus `r` – in particular a Subscribe cannot slip in
    between (it would have to hold the same topic mutex, `publish_and_subscribe_regions_exclusive`). -/
theorem registry_mid_publish (b : Bool) (s : St) (h : Reach (sys ⟨true, b⟩) s) (sid t i : Nat) (r : List Nat)
    (pc : PPc) (ao : Option (Nat × Nat)) (hreg : (sid, t) ∈ s.subs)
    (hi : s.ths[i]? = some (Th.pub t r pc ao)) (hpc : afterPersist pc = true) :
    sentTo s sid ++ r = logOf s t := by
  have hc := cfg_const _ s h
  exact ((reach_c11 _ s h).2 (by rw [hc]) sid t hreg).1 i r pc ao hi hpc

/-- multiset reading of the quiescent form: per message, the number of senders equals the number of persisted copies -/
theorem registry_sender_count_eq (b : Bool) (s : St) (h : Reach (sys ⟨true, b⟩) s) (sid t : Nat)
    (hreg : (sid, t) ∈ s.subs)
    (hq : ∀ (i : Nat) (r : List Nat) (pc : PPc) (ao : Option (Nat × Nat)),
      s.ths[i]? = some (Th.pub t r pc ao) → afterPersist pc = false) (m : Nat) :
    (sentTo s sid).count m = (logOf s t).count m := by
  rw [registry_exactly_one_sender b s h sid t hreg hq]

/-- a Publish that has reached the release of the topic mutex has sent its whole batch -/
theorem publish_sends_whole_batch (cfg : Cfg) (s : St) (h : Reach (sys cfg) s) (i t : Nat) (r : List Nat)
    (ao : Option (Nat × Nat)) (hi : s.ths[i]? = some (Th.pub t r .unlock ao)) : r = [] :=
  (reach_c11 cfg s h).1 i t r ao hi

/-- a subscription id is registered for one topic only, at most once -/
theorem subscription_registered_once (cfg : Cfg) (s : St) (h : Reach (sys cfg) s) :
    s.subs.Nodup ∧ ∀ sid t t', (sid, t) ∈ s.subs → (sid, t') ∈ s.subs → t = t' :=
  ⟨(reach_aux cfg s h).2.2.2.2, (reach_aux cfg s h).2.2.2.1⟩

/-- non-vacuity: Publish [7, 8] on topic 0, then a Subscribe that replays, then a Publish [9] that overlaps a second
    Subscribe; both registered subscriptions end with senders 7, 8, 9 – each exactly once -/
def c11Run : List Action :=
  [.newPub 0 [7, 8] none, .step 0, .step 0, .step 0, .step 0, .step 0, .step 0, .step 0, .step 0,
   .newSub 0, .step 1, .step 1, .step 1, .step 1, .step 1, .step 1,
   .newPub 0 [9] none, .newSub 0, .step 3, .step 3, .step 4, .step 4, .step 3, .step 3, .step 3, .step 3, .step 3,
   .step 4, .step 4, .step 4, .step 4]

theorem c11_witness :
    ∃ s, exec (sys ⟨true, false⟩) (init ⟨true, false⟩) c11Run = some s ∧
      s.subs = [(0, 0), (1, 0)] ∧ logOf s 0 = [7, 8, 9] ∧ sentTo s 0 = [7, 8, 9] ∧ sentTo s 1 = [7, 8, 9] ∧
      s.ths.all (fun th => match th with | .pub _ _ pc _ => !afterPersist pc | _ => true) = true := by
  refine ⟨_, rfl, ?_, ?_, ?_, ?_, ?_⟩ <;> decide

end Wm.GcReg
