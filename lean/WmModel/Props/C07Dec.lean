/-
  C07 for the subscriber decorator (model M_dec, GcDec.lean) – any number of concurrent Subscribe and Close calls on a
  `MessageTransformSubscriberDecorator`, any behaviour of the inner subscriber allowed by C07 for it, a consumer that may
  stop reading at any time, every interleaving:
  * `dec_never_panics`: no double `close(out)`, no double `close(closing)`, `subscribeWg` never negative, and
    `subscribeWg.Add` never runs while a Close call is inside `subscribeWg.Wait` (the defect repaired by fix 5f07168).
  * `dec_close_never_stuck`, `dec_steps_bounded`, `dec_close_terminates`: a Close call that has not returned, or a thread
    it waits for, can always move – without the consumer and without the inner subscriber doing anything more; the
    decorator's goroutines cannot spin; hence every schedule ends after at most `phi s` steps with every Close returned.
  * `dec_after_close`: once a Close call has returned, `closing` is signalled, the inner subscriber is closed with all
    its channels, and every pump that exists (also one started later by a Subscribe that was overtaken by Close) can
    finish on its own; where nothing can move any more every pump has closed its `out` channel – exactly once
    (`dec_out_closed_once` is part of never-panics: a second `close(out)` is a panic of the model).
  * `dec_forwarding`: a pump forwards every message it took from the inner channel, in order, one at a time; it drops a
    message only after `closing` was signalled.
-/
import WmModel.Lemmas.GcDecWg
import WmModel.Lemmas.GcDecCh
import WmModel.Lemmas.GcDecCl
import WmModel.Lemmas.GcDecProg
import WmModel.Lemmas.GcDecMeasure
import WmModel.Lemmas.GcDecPump
import WmModel.Lts
namespace Wm.GcDec
open Wm.Lts

def sys : Sys St Action := { init := init, act := act }

theorem reach_lk : ∀ s, Reach sys s → LkOk s :=
  inv_of_step sys LkOk lk_init (fun s a s' h ha => lk_step s a s' h ha)
theorem reach_wg : ∀ s, Reach sys s → WgOk s :=
  inv_of_step sys WgOk wg_init (fun s a s' h ha => wg_step s a s' h ha)
theorem reach_ch : ∀ s, Reach sys s → ChOk s :=
  inv_of_step sys ChOk ch_init (fun s a s' h ha => ch_step s a s' h ha)
theorem reach_cl : ∀ s, Reach sys s → ClOk s :=
  inv_of_step sys ClOk cl_init (fun s a s' h ha => cl_step s a s' h ha)

theorem panic_step (s : St) (a : Action) (s' : St) (hlk : LkOk s) (hwg : WgOk s) (hch : ChOk s) (hcl : ClOk s)
    (h : s.panicked = false) (ha : act s a = some s') : s'.panicked = false := by
  cases a <;> simp only [act] at ha
  case newSub => simp at ha; subst ha; exact h
  case newClose => simp at ha; subst ha; exact h
  case push k =>
    split at ha
    · split at ha <;> simp at ha; subst ha; exact h
    · simp at ha
  case inClose k =>
    split at ha
    · simp at ha; subst ha; exact h
    · simp at ha
  case deliver i =>
    split at ha
    · simp at ha; subst ha; exact h
    · simp at ha
  case subFail i =>
    split at ha
    · simp at ha; subst ha; exact h
    · simp at ha
  case step i =>
    split at ha
    · rename_i k pc hth
      cases pc <;> simp only [stepSub] at ha
      case inner => split at ha <;> (simp at ha; subst ha; exact h)
      case lock =>
        split at ha
        · simp at ha; subst ha; exact h
        · simp at ha
      case add =>
        split at ha
        · -- `Add` while a Close call is inside `Wait`: both would hold `subscribeWgLock`
          rename_i hw
          exfalso
          simp only [List.any_eq_true] at hw
          obtain ⟨th, hm, hwt⟩ := hw
          obtain ⟨j, hj⟩ := List.getElem?_of_mem hm
          have hth' : th = Th.closer .wait := by
            cases th with
            | closer pc => cases pc <;> simp [isWaiting] at hwt; rfl
            | sub _ _ => simp [isWaiting] at hwt
            | pump _ _ _ _ _ => simp [isWaiting] at hwt
          subst hth'
          have h1 := hlk.1 i _ hth rfl
          have h2 := hlk.1 j _ hj rfl
          rw [h1] at h2; injection h2 with h2; subst h2
          rw [hth] at hj; cases hj
        · simp at ha; subst ha; exact h
      case unlock => simp at ha; subst ha; exact h
      case spawn => simp at ha; subst ha; exact h
      case retOk => simp at ha
      case retErr => simp at ha
    · rename_i pc hth
      cases pc <;> simp only [stepCloser] at ha
      case inner => simp at ha; subst ha; exact h
      case once =>
        split at ha
        · simp at ha; subst ha; exact h
        · rename_i hod
          split at ha
          · rename_i hc
            exfalso; rw [hcl.1] at hod; exact hod hc
          · simp at ha; subst ha; exact h
      case lock =>
        split at ha
        · simp at ha; subst ha; exact h
        · simp at ha
      case wait =>
        split at ha
        · simp at ha; subst ha; exact h
        · simp at ha
      case unlock => simp at ha; subst ha; exact h
      case ret => simp at ha
    · rename_i k pc r f d hth
      cases pc <;> simp only [stepPump] at ha
      case recv =>
        split at ha
        · split at ha
          · simp at ha; subst ha; exact h
          · split at ha
            · simp at ha
            · simp at ha; subst ha; exact h
        · simp at ha
      case send =>
        split at ha
        · simp at ha; subst ha; exact h
        · simp at ha
      case closeOut =>
        split at ha
        · -- `out` already closed: only this pump owns channel `k`, and it has not closed it yet
          rename_i hc
          exfalso
          have hm : k ∈ s.outClosed := by simpa using hc
          obtain ⟨j, th, hj, hd⟩ := hch.2.2 k hm
          have ho : own th = some k := by
            cases th with
            | pump k' pc' _ _ _ => cases pc' <;> simp [outDone] at hd <;> simp [own, hd]
            | sub _ _ => simp [outDone] at hd
            | closer _ => simp [outDone] at hd
          have := hch.1 i j _ th k hth hj rfl ho
          subst this
          rw [hth] at hj; injection hj with hj; subst hj
          simp [outDone] at hd
        · simp at ha; subst ha; exact h
      case wgDone =>
        split at ha
        · rename_i hz
          exfalso
          have := countP_pos_of_get _ _ _ hth (by rfl)
          unfold WgOk at hwg; omega
        · simp at ha; subst ha; exact h
      case done => simp at ha
    · simp at ha

/-- **the decorator never panics** -/
theorem dec_never_panics : ∀ s, Reach sys s → s.panicked = false :=
  inv_of_step' sys (fun s => s.panicked = false) rfl
    (fun s a s' hr h ha => panic_step s a s' (reach_lk s hr) (reach_wg s hr) (reach_ch s hr) (reach_cl s hr) h ha)


theorem reach_pk : ∀ s, Reach sys s → PumpOk s :=
  inv_of_step sys PumpOk pk_init (fun s a s' h ha => pk_step s a s' h ha)

/-- **Close of the decorator is never stuck** -/
theorem dec_close_never_stuck (s : St) (h : Reach sys s) (i : Nat) (pc : CPc)
    (hi : s.ths[i]? = some (.closer pc)) (hpc : pc ≠ .ret) : ∃ j, (act s (.step j)).isSome = true :=
  closer_progress s (reach_lk s h) (reach_ch s h) (reach_cl s h) (reach_wg s h) i pc hi hpc

theorem enabled_lt (s : St) (j : Nat) (h : (act s (.step j)).isSome = true) : j < s.ths.length := by
  cases hj : s.ths[j]? with
  | some th => exact (List.getElem?_eq_some_iff.mp hj).1
  | none => simp [act, hj] at h

theorem dec_quiescent_closed (s : St) (h : Reach sys s) (hq : someThreadEnabled s = false) (i : Nat)
    (pc : CPc) (hi : s.ths[i]? = some (.closer pc)) : pc = .ret := by
  by_cases hpc : pc = .ret
  · exact hpc
  · obtain ⟨j, hj⟩ := dec_close_never_stuck s h i pc hi hpc
    have : someThreadEnabled s = true := by
      simp only [someThreadEnabled, List.any_eq_true, List.mem_range]
      exact ⟨j, enabled_lt s j hj, hj⟩
    rw [hq] at this; cases this

/-- **the decorator's goroutines cannot spin**: thread steps and consumer receives in any run are bounded by the credits
    of the calls made and the messages the inner subscriber delivered (8 per Subscribe, 5 per Close, 2 per message) -/
theorem dec_steps_bounded (run : List Action) (s' : St) (he : exec sys init run = some s') :
    (run.filter isStep).length ≤ ((run.filter (fun a => !isStep a)).map credit).sum := by
  have := steps_bounded_credit_fn sys phi isStep credit
    (fun s a s' hr ha hp => phi_step s a s' ha hp (dec_never_panics s' (Reach.step hr ha)) (dec_never_panics s hr))
    (fun s a s' _ ha hp => phi_env s a s' ha hp)
    run init s' Reach.init he
  have h0 : phi init = 0 := by simp [phi, init, pend]
  omega

/-- **Close of the decorator terminates**: from any reachable state, a run of the decorator's own steps (and consumer
    receives) has at most `phi s` steps, and where no thread can move every Close call has returned -/
theorem dec_close_terminates (s : St) (h : Reach sys s) (run : List Action) (s' : St)
    (hsteps : ∀ a, a ∈ run → isStep a = true) (he : exec sys s run = some s') :
    run.length ≤ phi s ∧
    (someThreadEnabled s' = false → ∀ (i : Nat) (pc : CPc), s'.ths[i]? = some (.closer pc) → pc = .ret) := by
  refine ⟨?_, fun hq i pc hi => dec_quiescent_closed s' (reach_of_exec sys h run he) hq i pc hi⟩
  have := steps_bounded_credit_fn sys phi isStep credit
    (fun s a s' hr ha hp => phi_step s a s' ha hp (dec_never_panics s' (Reach.step hr ha)) (dec_never_panics s hr))
    (fun s a s' _ ha hp => phi_env s a s' ha hp)
    run s s' h he
  have h1 : run.filter isStep = run := List.filter_eq_self.mpr hsteps
  have h2 : run.filter (fun a => !isStep a) = [] := by
    apply List.filter_eq_nil_iff.mpr
    intro a ha; simp [hsteps a ha]
  rw [h1, h2] at this
  simp at this; omega

/-- **after Close has returned**: `closing` is signalled, the inner subscriber and all its channels are closed, and
    every pump that is not finished can move on its own (no consumer, no inner subscriber needed); where no thread can
    move, every pump is done and its `out` channel is closed -/
theorem dec_after_close (s : St) (h : Reach sys s) (i : Nat) (hi : s.ths[i]? = some (.closer .ret)) :
    s.closing = true ∧ s.innerClosed = true ∧ (∀ c, c ∈ s.ins → c.isOpen = false) ∧
    (∀ (j k : Nat) (pc : PPc) (r f d : Nat), s.ths[j]? = some (.pump k pc r f d) → pc ≠ .done →
        (act s (.step j)).isSome = true) ∧
    (someThreadEnabled s = false → ∀ (j k : Nat) (pc : PPc) (r f d : Nat), s.ths[j]? = some (.pump k pc r f d) →
        pc = .done ∧ k ∈ s.outClosed) := by
  have hcl := reach_cl s h
  have hc : s.closing = true := hcl.2.2.1 i _ hi rfl
  have hic : s.innerClosed = true := hcl.2.1 i _ hi rfl
  have hp : ∀ (j k : Nat) (pc : PPc) (r f d : Nat), s.ths[j]? = some (.pump k pc r f d) → pc ≠ .done →
      (act s (.step j)).isSome = true :=
    fun j k pc r f d hj hpc => pump_progress s hc hic (reach_ch s h) hcl j k pc r f d hj hpc
  refine ⟨hc, hic, hcl.2.2.2 hic, hp, ?_⟩
  intro hq j k pc r f d hj
  have hdone : pc = .done := by
    by_cases hpc : pc = .done
    · exact hpc
    · have he := hp j k pc r f d hj hpc
      have : someThreadEnabled s = true := by
        simp only [someThreadEnabled, List.any_eq_true, List.mem_range]
        exact ⟨j, enabled_lt s j he, he⟩
      rw [hq] at this; cases this
  exact ⟨hdone, (reach_pk s h j k pc r f d hj).2.2 (Or.inr hdone)⟩

/-- **forwarding**: received = forwarded + dropped (+ the message being offered); nothing is dropped before `closing` -/
theorem dec_forwarding (s : St) (h : Reach sys s) (j k : Nat) (pc : PPc) (r f d : Nat)
    (hj : s.ths[j]? = some (.pump k pc r f d)) :
    r = f + d + (if pc = .send then 1 else 0) ∧ (s.closing = false → d = 0) := by
  obtain ⟨p1, p2, _⟩ := reach_pk s h j k pc r f d hj
  refine ⟨p1, ?_⟩
  intro hc
  cases d with
  | zero => rfl
  | succ n => have := p2 (Nat.succ_pos n); rw [hc] at this; cases this

/-- each inner channel has exactly one pump, so each `out` channel has exactly one closer -/
theorem dec_one_pump_per_channel (s : St) (h : Reach sys s) (i j k : Nat) (pc pc' : PPc) (r f d r' f' d' : Nat)
    (hi : s.ths[i]? = some (.pump k pc r f d)) (hj : s.ths[j]? = some (.pump k pc' r' f' d')) : i = j :=
  (reach_ch s h).1 i j _ _ k hi hj rfl rfl

/-- non-vacuity: Subscribe, two messages (one forwarded, one offered), a second Subscribe overtaken by Close, a consumer
    that has stopped reading; Close returns, both pumps end, both `out` channels are closed -/
def decRun : List Action :=
  [.newSub, .step 0, .step 0, .step 0, .step 0, .step 0, .push 0, .push 0, .step 1, .deliver 1, .step 1,
   .newSub, .step 2, .newClose, .step 3, .step 3, .step 3,
   .step 1, .step 1, .step 1, .step 1, .step 3, .step 3,
   .step 2, .step 2, .step 2, .step 2, .step 4, .step 4, .step 4]

theorem dec_witness :
    ∃ s, exec sys init decRun = some s ∧ s.ths[3]? = some (.closer .ret) ∧
      s.ths[1]? = some (.pump 0 .done 2 1 1) ∧ s.ths[4]? = some (.pump 1 .done 0 0 0) ∧
      s.outClosed = [1, 0] ∧ s.wg = 0 ∧ someThreadEnabled s = false := by
  refine ⟨_, rfl, ?_, ?_, ?_, ?_, ?_, ?_⟩ <;> decide

end Wm.GcDec
