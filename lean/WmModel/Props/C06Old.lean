/-
  C06 – witnesses that the UNREPAIRED code violated the property (one repair of `Fix` switched off), as concrete runs of
  the model checked by evaluation; and non-vacuity instances of the C06 theorems.  The same runs are the shape of the
  failing traces the harness forces on the real code when a repair is reverted (mutants/C06).
-/
import WmModel.Props.C06
namespace Wm.RouterLife
open Wm.Lts

def startOne : List Action :=
  [.addHandler, .runCall, .runWatch, .runRh, .rhSub 0, .rhStep, .rhStep, .rhSpawn, .rhEnd, .runRunning]

/-- D5 (the two waits of waitForHandlers ran concurrently): m₁ is in the handler; Close; the running-handlers waiter takes
    the lock and waits; the subscriber hands over m₂ inside its Close; the loop receives m₂ and blocks on the lock;
    m₁ ends; the waiter finishes and unlocks; the loop does Add(1) for m₂ and ends; the loops' waiter finishes;
    Close returns nil – and the invocation for m₂ has not even started: it starts afterwards. -/
def oldD5 : Fix := { allFixed with d5 := false }

def d5Run : List Action :=
  startOne ++ [.emit 0, .pumpOut 0, .dispatch 0, .hStart 0,
   .closeCall, .closeCL 0, .closeHL 0, .wLock,
   .hcClose 0, .emit 0, .pumpOut 0, .hcInnerRet 0,
   .hReturn 0 true, .hPublished 0 true, .hSettle 0, .wRunning,
   .dispatch 0, .pumpEnd 0, .loopEnd 0, .pubClose 0, .wgDone 0, .wLoops, .closeDone 0]

theorem Old.close_race_witness :
    ∃ s, exec (sys oldD5) init d5Run = some s ∧ s.closeNil = true ∧
      (∃ x ∈ s.msgs, x.stage.inFlight = true) ∧ (act oldD5 s (.hStart 1)).isSome = true :=
  ⟨_, rfl, by decide, ⟨⟨0, .disp, .none⟩, by decide, rfl⟩, by decide⟩

/-- the same schedule is impossible with the repair: the waiter cannot take the lock before the loops ended -/
example : exec (sys allFixed) init (startOne ++ [.emit 0, .pumpOut 0, .dispatch 0, .hStart 0,
    .closeCall, .closeCL 0, .closeHL 0, .wLock]) = none := by decide

/-- D6 (handleClose took `ctx.Done` without closing the subscriber): Close signals, Run cancels the context, handleClose
    picks `ctx.Done`: the subscriber's Close is never called although the router closed (here the scripted subscriber
    ends on its own because it watches the context; one that does not would keep Close waiting until the timeout). -/
def oldD6 : Fix := { allFixed with d6 := false }

def d6Run : List Action :=
  startOne ++ [.closeCall, .closeCL 0, .closeHL 0, .runCancelStep, .hcCtx 0, .hcStop 0, .innerCtx 0, .pumpEnd 0,
   .loopEnd 0, .pubClose 0, .wgDone 0, .wLoops, .wLock, .wRunning, .closeDone 0, .runRet, .loopDelete 0]

theorem Old.close_skips_subscriber_witness :
    ∃ s, exec (sys oldD6) init d6Run = some s ∧ s.closeNil = true ∧ s.run = .ret ∧
      (∃ y, s.hs[0]? = some y ∧ y.hc = .done ∧ y.subCloseCalls = 0) :=
  ⟨_, rfl, by decide, by decide, ⟨_, rfl, by decide, by decide⟩⟩

/-- with the repair the same choices end with exactly one Close call on the subscriber -/
example : ∃ s, exec (sys allFixed) init (startOne ++ [.closeCall, .closeCL 0, .closeHL 0, .runCancelStep, .hcCtx 0,
    .hcInnerRet 0, .pumpEnd 0, .hcPumpWaited 0, .hcStop 0, .loopEnd 0, .pubClose 0, .wgDone 0, .wLoops, .wLock,
    .wRunning, .closeDone 0, .runRet, .loopDelete 0]) = some s ∧ s.closeNil = true ∧
    (∃ y, s.hs[0]? = some y ∧ y.hc = .done ∧ y.subCloseCalls = 1 ∧ y.pubCloseCalls = 1 ∧ y.stoppedCh = true) :=
  ⟨_, rfl, by decide, ⟨_, rfl, by decide, by decide, by decide, by decide⟩⟩

/-! ### non-vacuity of the C06 theorems -/

/-- message_fate: Close arrives while m₁ sits in the pump (dropped by the closing decorator) after m₀ was handled -/
example : ∃ s, exec (sys allFixed) init (startOne ++ [.emit 0, .pumpOut 0, .dispatch 0, .hStart 0, .hReturn 0 true,
    .hPublished 0 true, .hSettle 0, .emit 0, .closeCall, .closeCL 0, .closeHL 0, .hcClose 0, .hcInnerRet 0,
    .pumpDrop 0, .pumpEnd 0, .loopEnd 0, .pubClose 0, .wgDone 0, .wLoops, .wLock, .wRunning, .closeDone 0]) = some s ∧
    s.closeNil = true ∧ s.msgs = [⟨0, .done, .ack⟩, ⟨0, .dropped, .none⟩] :=
  ⟨_, rfl, by decide, by decide⟩

/-- close_timeout_returns_error / every_close_call_can_proceed / close_again_returns_nil: a handler outlives the timer;
    three callers; the performing one returns the error, the others nil, Run returns, the handler ends later -/
example : ∃ s, exec (sys allFixed) init (startOne ++ [.emit 0, .pumpOut 0, .dispatch 0, .hStart 0,
    .closeCall, .closeCall, .closeCL 1, .closeHL 1, .closeCall, .timer, .closeTimeout 1, .closeCL 0, .closeHL 0,
    .closeCL 2, .closeHL 2, .runCancelStep, .runRet, .hReturn 0 true, .hPublished 0 true, .hSettle 0]) = some s ∧
    s.closers = [.ret false, .ret true, .ret false] ∧ s.closeErr = true ∧ s.closeNil = false ∧ s.run = .ret ∧
    s.msgs = [⟨0, .done, .ack⟩] :=
  ⟨_, rfl, by decide, by decide, by decide, by decide, by decide⟩

end Wm.RouterLife
