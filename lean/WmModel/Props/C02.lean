/-
  C02 – Router settles each message once: Ack iff handled and outputs published.
  Property theorems only.  Model: `WmModel/Handle.lean` (`handle`), settlement: `WmModel/Ack.lean`.
  All statements hold for every handler configuration `c`, every behaviour `o` of the handler chain (any
  list of outputs of any length over any type of message identities `α`, with/without error, any panic value,
  with/without a settlement made by the handler itself) and every publisher behaviour `p`.
  Helper lemmas: `WmModel/Lemmas/HandleLemmas.lean`.
-/
import WmModel.Handle
import WmModel.Props.C03
import WmModel.Lemmas.HandleLemmas
namespace Wm.Handle

variable {α : Type}

/-- the condition under which the statement of C02 demands an Ack: the chain returned without error and
    every message it returned was accepted by the handler's publisher -/
def AckCond (c : Cfg) (o : Outcome α) (p : PubOutcome) : Prop :=
  ∃ outs, o.result = .returns outs false ∧ (outs = [] ∨ (c.kind = .withPub ∧ p = .accept))

def Effect.isHandlerCalled : Effect α → Bool
  | .handlerCalled => true
  | _ => false

/-- a `Publish` call or its return -/
def Effect.isPublish (e : Effect α) : Bool := e.isPublishCall || e.isPublishRet

/-! ## 1. the chain is invoked, then the message is settled exactly once -/

/-- **the handler chain is invoked** exactly once, before anything else -/
theorem handler_called_first_once (c : Cfg) (o : Outcome α) (p : PubOutcome) :
    ∃ rest, handle c o p = .handlerCalled :: rest ∧ ∀ e ∈ rest, e.isHandlerCalled = false := by
  refine ⟨_, rfl, ?_⟩
  rcases o with ⟨s, r⟩
  rcases c with ⟨k, t⟩
  rcases s with _ | _ | _ <;> rcases r with ⟨_ | ⟨x, xs⟩, _ | _⟩ | v <;> cases k <;> cases p <;>
    simp [selfEff, publishProduced, settleTail, effPub, Effect.isHandlerCalled]

/-- **settled exactly once**: `handleMessage` issues exactly one Ack/Nack of its own -/
theorem settles_exactly_once (c : Cfg) (o : Outcome α) (p : PubOutcome) :
    ((handle c o p).filter Effect.isRouterSettle).length = 1 := by
  rw [handle_eq, List.filter_append]
  have h0 : (body c o p).filter Effect.isRouterSettle = [] := by
    rw [List.filter_eq_nil_iff]
    intro e he
    simp [body_no_settle c o p e he]
  have hd := decision_isSettle c o p
  have hdn : (Effect.done : Effect α).isRouterSettle = false := rfl
  simp [h0, hd, hdn]

/-- … and that settlement is the last thing it does before `runningHandlersWg.Done()` -/
theorem settle_is_last_before_done (c : Cfg) (o : Outcome α) (p : PubOutcome) :
    ∃ b s, handle c o p = b ++ [s, .done] ∧ s.isRouterSettle = true ∧ ∀ e ∈ b, e.isRouterSettle = false :=
  ⟨body c o p, decision c o p, handle_eq c o p, decision_isSettle c o p, body_no_settle c o p⟩

/-! ## 2. Ack iff no error and every output accepted; Nack otherwise -/

theorem decision_ack_iff (c : Cfg) (o : Outcome α) (p : PubOutcome) :
    decision c o p = .routerAck ↔ AckCond c o p := by
  rcases o with ⟨s, r⟩
  cases r with
  | panics v => simp [decision, AckCond]
  | returns outs er =>
    cases er with
    | true => simp [decision, AckCond]
    | false =>
      cases outs with
      | nil => simp [decision, AckCond, publishProduced]
      | cons a as =>
        rcases c with ⟨k, t⟩
        cases k <;> cases p <;> simp [decision, AckCond, publishProduced, effPub]

theorem decision_nack_iff (c : Cfg) (o : Outcome α) (p : PubOutcome) :
    decision c o p = .routerNack ↔ ¬ AckCond c o p := by
  rw [← decision_ack_iff]
  have := decision_isSettle c o p
  cases h : decision c o p <;> simp_all [Effect.isRouterSettle]

theorem mem_handle_settle (c : Cfg) (o : Outcome α) (p : PubOutcome) (x : Effect α)
    (hx : x.isRouterSettle = true) : x ∈ handle c o p ↔ decision c o p = x := by
  rw [handle_eq]
  constructor
  · intro h
    simp only [List.mem_append, List.mem_cons, List.mem_nil_iff, or_false] at h
    rcases h with h | h | h
    · have := body_no_settle c o p x h; rw [hx] at this; exact Bool.noConfusion this
    · exact h.symm
    · subst h; simp [Effect.isRouterSettle] at hx
  · intro h; subst h; simp

/-- **Ack iff** the chain returned no error (and did not panic) and every message it returned was accepted
    by the handler's publisher (nothing to publish, or a real publisher that accepted the call) -/
theorem ack_iff (c : Cfg) (o : Outcome α) (p : PubOutcome) :
    .routerAck ∈ handle c o p ↔ AckCond c o p := by
  rw [mem_handle_settle c o p .routerAck rfl, decision_ack_iff]

/-- the same for a publisher whose verdict depends on the messages it is handed: Ack iff the chain returned no
    error and the publisher accepts the call that carries all the returned messages -/
theorem ack_iff_with (c : Cfg) (o : Outcome α) (f : List α → PubOutcome) :
    .routerAck ∈ handleWith c o f ↔
      ∃ outs, o.result = .returns outs false ∧ (outs = [] ∨ (c.kind = .withPub ∧ f outs = .accept)) := by
  unfold handleWith
  rw [ack_iff]
  rcases o with ⟨s, r⟩
  cases r with
  | panics v => simp [AckCond]
  | returns outs e =>
    constructor
    · rintro ⟨outs', h1, h2⟩
      injection h1 with ho he; subst ho; subst he
      exact ⟨outs, rfl, h2⟩
    · rintro ⟨outs', h1, h2⟩
      injection h1 with ho he; subst ho; subst he
      exact ⟨outs, rfl, h2⟩

/-- **Nack iff not** that: the router issues a Nack in exactly the complementary cases -/
theorem nack_iff (c : Cfg) (o : Outcome α) (p : PubOutcome) :
    .routerNack ∈ handle c o p ↔ ¬ AckCond c o p := by
  rw [mem_handle_settle c o p .routerNack rfl, decision_nack_iff]

/-- never both -/
theorem not_ack_and_nack (c : Cfg) (o : Outcome α) (p : PubOutcome) :
    ¬ (.routerAck ∈ handle c o p ∧ .routerNack ∈ handle c o p) := by
  rw [ack_iff, nack_iff]; exact fun h => h.2 h.1

/-- **Nack if the chain returned an error** (with or without messages) -/
theorem nack_on_error (c : Cfg) (s : Option Settle) (outs : List α) (p : PubOutcome) :
    .routerNack ∈ handle c ⟨s, .returns outs true⟩ p ∧ .routerAck ∉ handle c ⟨s, .returns outs true⟩ p := by
  rw [nack_iff, ack_iff]; simp [AckCond]

/-- **Nack if the chain panicked** (value, error or nil) -/
theorem nack_on_panic (c : Cfg) (s : Option Settle) (v : PanicVal) (p : PubOutcome) :
    .routerNack ∈ handle c (⟨s, .panics v⟩ : Outcome α) p ∧ .routerAck ∉ handle c (⟨s, .panics v⟩ : Outcome α) p ∧
    .recovered ∈ handle c (⟨s, .panics v⟩ : Outcome α) p := by
  rw [nack_iff, ack_iff]; simp [AckCond, handle]

/-- **Nack if publishing failed or panicked** -/
theorem nack_on_publish_failure (c : Cfg) (s : Option Settle) (outs : List α) (p : PubOutcome)
    (hne : outs ≠ []) (hp : p = .error ∨ p = .panic) :
    .routerNack ∈ handle c ⟨s, .returns outs false⟩ p ∧ .routerAck ∉ handle c ⟨s, .returns outs false⟩ p := by
  rw [nack_iff, ack_iff]
  rcases hp with hp | hp <;> subst hp <;> simp [AckCond, hne]

/-- **a Nack has one of the stated reasons**: with a real publisher and a chain that returned messages without an
    error, the Router nacks only after it has offered exactly those messages to the publisher and that call failed or
    panicked – never without asking the publisher -/
theorem nack_only_after_asking_publisher (c : Cfg) (s : Option Settle) (outs : List α) (p : PubOutcome)
    (hk : c.kind = .withPub) (hne : outs ≠ []) (h : .routerNack ∈ handle c ⟨s, .returns outs false⟩ p) :
    .publishCall (pubTopic c) outs ∈ handle c ⟨s, .returns outs false⟩ p ∧
    .publishRet p ∈ handle c ⟨s, .returns outs false⟩ p ∧ (p = .error ∨ p = .panic) := by
  rcases c with ⟨k, t⟩
  simp only at hk; subst hk
  have hp : p = .error ∨ p = .panic := by
    rw [nack_iff] at h
    cases p
    · exact absurd ⟨outs, rfl, Or.inr ⟨rfl, rfl⟩⟩ h
    · exact Or.inl rfl
    · exact Or.inr rfl
  cases outs with
  | nil => exact absurd rfl hne
  | cons x xs =>
    refine ⟨?_, ?_, hp⟩ <;>
      rcases s with _ | _ | _ <;> cases p <;> simp [handle, selfEff, publishProduced, settleTail, effPub, pubTopic]

/-- **outputs in a no-publisher handler are a failure**: `AddNoPublisherHandler` (disabledPublisher) and a nil
    publisher both lead to Nack as soon as the chain returns a message -/
theorem nopub_outputs_nack (c : Cfg) (s : Option Settle) (outs : List α) (p : PubOutcome)
    (hne : outs ≠ []) (hk : c.kind ≠ .withPub) :
    .routerNack ∈ handle c ⟨s, .returns outs false⟩ p ∧ .routerAck ∉ handle c ⟨s, .returns outs false⟩ p := by
  rw [nack_iff, ack_iff]; simp [AckCond, hne, hk]

/-! ## 3. the Ack is never sent before the publish call has returned successfully -/

/-- all publish effects of one `handleMessage`, in order -/
theorem publish_effects (c : Cfg) (o : Outcome α) (p : PubOutcome) :
    (handle c o p).filter Effect.isPublish =
      match o.result with
      | .returns (x :: xs) false =>
        if c.kind = .nilPub then [] else [.publishCall (pubTopic c) (x :: xs), .publishRet (effPub c p)]
      | _ => [] := by
  rcases o with ⟨s, r⟩
  rcases c with ⟨k, t⟩
  rcases s with _ | _ | _ <;> rcases r with ⟨_ | ⟨x, xs⟩, _ | _⟩ | v <;> cases k <;> cases p <;>
    simp [handle, selfEff, publishProduced, settleTail, effPub, pubTopic, Effect.isPublish, Effect.isPublishCall,
      Effect.isPublishRet]

theorem publish_effects_of (c : Cfg) (o : Outcome α) (p : PubOutcome) (e : Effect α)
    (he : e ∈ handle c o p) (hp : e.isPublish = true) :
    ∃ outs, o.result = .returns outs false ∧ outs ≠ [] ∧ c.kind ≠ .nilPub ∧
      (e = .publishCall (pubTopic c) outs ∨ e = .publishRet (effPub c p)) := by
  have hm : e ∈ (handle c o p).filter Effect.isPublish := List.mem_filter.mpr ⟨he, hp⟩
  rw [publish_effects] at hm
  rcases o with ⟨s, r⟩
  rcases r with ⟨_ | ⟨x, xs⟩, _ | _⟩ | v <;> simp only [List.not_mem_nil] at hm
  by_cases hk : c.kind = .nilPub
  · simp [hk] at hm
  · simp only [hk, if_false, List.mem_cons, List.not_mem_nil, or_false] at hm
    exact ⟨x :: xs, rfl, by simp, hk, hm⟩

/-- **Ack only after Publish returned successfully**: split the effects at the router's Ack – no publish
    effect lies after it, the only way `Publish` ended before it is `accept`, and when there was something to
    publish, the call with exactly those messages and its successful return are among the effects before the Ack -/
theorem publish_before_ack (c : Cfg) (o : Outcome α) (p : PubOutcome) (pre suf : List (Effect α))
    (h : handle c o p = pre ++ .routerAck :: suf) :
    (∀ e ∈ suf, e.isPublish = false) ∧
    (∀ r, .publishRet r ∈ pre → r = .accept) ∧
    (∀ outs, o.result = .returns outs false → outs ≠ [] →
        ∃ a, pre = a ++ [.publishCall (pubTopic c) outs, .publishRet .accept]) := by
  obtain ⟨hpre, hdec, hsuf⟩ := handle_split c o p .routerAck rfl pre suf h
  have hcond : AckCond c o p := (decision_ack_iff c o p).mp hdec.symm
  obtain ⟨outs, hres, hor⟩ := hcond
  refine ⟨?_, ?_, ?_⟩
  · intro e he; subst hsuf; simp at he; subst he; rfl
  · intro r hr
    have hmem : .publishRet r ∈ handle c o p := by rw [h]; simp [hr]
    obtain ⟨outs', hres', hne, _, hcase⟩ := publish_effects_of c o p _ hmem rfl
    rw [hres] at hres'; injection hres' with ho _; subst ho
    rcases hor with h0 | ⟨hk, hp⟩
    · exact absurd h0 hne
    · rcases hcase with hc | hc
      · cases hc
      · injection hc with hc; rw [hc]; simp [effPub, hk, hp]
  · intro outs' hres' hne
    rw [hres] at hres'; injection hres' with ho _; subst ho
    rcases hor with h0 | ⟨hk, hp⟩
    · exact absurd h0 hne
    · rcases o with ⟨s, r⟩
      simp only at hres; subst hres; subst hp
      rcases c with ⟨k, t⟩
      simp only at hk; subst hk
      cases outs with
      | nil => exact absurd rfl hne
      | cons x xs =>
        refine ⟨.handlerCalled :: selfEff s ++ [.addCtx (x :: xs)], ?_⟩
        rw [hpre]
        simp [body, publishProduced, effPub]

/-- index form: the position of any publish return is smaller than the position of the router's Ack, and that
    return is a successful one -/
theorem publish_before_ack_idx (c : Cfg) (o : Outcome α) (p : PubOutcome) (i j : Nat) (r : PubOutcome)
    (hi : (handle c o p)[i]? = some .routerAck) (hj : (handle c o p)[j]? = some (.publishRet r)) :
    j < i ∧ r = .accept := by
  have hlt : i < (handle c o p).length := by
    rcases Nat.lt_or_ge i (handle c o p).length with h | h
    · exact h
    · rw [List.getElem?_eq_none_iff.mpr h] at hi; cases hi
  have hsplit : handle c o p = (handle c o p).take i ++ .routerAck :: (handle c o p).drop (i + 1) := by
    have hget : (handle c o p)[i] = .routerAck := by
      rw [List.getElem?_eq_getElem hlt] at hi; injection hi
    conv => lhs; rw [← List.take_append_drop i (handle c o p)]
    rw [List.drop_eq_getElem_cons hlt, hget]
  obtain ⟨hsuf, hacc, _⟩ := publish_before_ack c o p _ _ hsplit
  rcases Nat.lt_or_ge j i with hji | hji
  · refine ⟨hji, hacc r ?_⟩
    have : ((handle c o p).take i)[j]? = some (.publishRet r) := by
      rw [List.getElem?_take_of_lt hji]; exact hj
    exact List.mem_of_getElem? this
  · exfalso
    rcases Nat.eq_or_lt_of_le hji with he | hgt
    · subst he; rw [hi] at hj; injection hj with hj; cases hj
    · have : ((handle c o p).drop (i + 1))[j - (i + 1)]? = some (.publishRet r) := by
        rw [List.getElem?_drop]; rw [← hj]; congr 1; omega
      have := hsuf _ (List.mem_of_getElem? this)
      simp [Effect.isPublish, Effect.isPublishCall, Effect.isPublishRet] at this

/-! ## 4. messages returned together with an error are not published (nor anything after a panic) -/

theorem no_publish_on_error (c : Cfg) (s : Option Settle) (outs : List α) (p : PubOutcome) :
    ∀ e ∈ handle c ⟨s, .returns outs true⟩ p, e.isPublish = false := by
  intro e he
  cases h1 : e.isPublish
  · rfl
  · obtain ⟨_, hres, _⟩ := publish_effects_of c _ p e he h1
    simp at hres

theorem no_publish_on_panic (c : Cfg) (s : Option Settle) (v : PanicVal) (p : PubOutcome) :
    ∀ e ∈ handle c (⟨s, .panics v⟩ : Outcome α) p, e.isPublish = false := by
  intro e he
  cases h1 : e.isPublish
  · rfl
  · obtain ⟨_, hres, _⟩ := publish_effects_of c _ p e he h1
    simp at hres

/-! ## 5. at most one Publish call, carrying exactly the returned messages in their order -/

/-- the publish effects of one `handleMessage`: exactly one `Publish` call immediately followed by its return,
    with the handler's publish topic and exactly the messages the chain returned (same objects, same order),
    when the chain returned messages without an error and a publisher is set; none otherwise – in particular
    none for an empty result (`publish_effects` is the same statement as an equation). -/
theorem publish_at_most_once_in_order (c : Cfg) (o : Outcome α) (p : PubOutcome) :
    (handle c o p).filter Effect.isPublishCall =
      match o.result with
      | .returns (x :: xs) false => if c.kind = .nilPub then [] else [.publishCall (pubTopic c) (x :: xs)]
      | _ => [] := by
  rcases o with ⟨s, r⟩
  rcases c with ⟨k, t⟩
  rcases s with _ | _ | _ <;> rcases r with ⟨_ | ⟨x, xs⟩, _ | _⟩ | v <;> cases k <;> cases p <;>
    first | rfl | simp [handle, selfEff, publishProduced, settleTail, effPub, pubTopic, Effect.isPublishCall]

/-- no call at all for an empty result -/
theorem no_publish_when_no_outputs (c : Cfg) (s : Option Settle) (p : PubOutcome) :
    ∀ e ∈ handle c (⟨s, .returns [] false⟩ : Outcome α) p, e.isPublish = false := by
  intro e he
  cases h1 : e.isPublish
  · rfl
  · obtain ⟨outs, hres, hne, _⟩ := publish_effects_of c _ p e he h1
    simp at hres; exact absurd hres hne

/-- every Publish call is immediately followed by its own return (nothing – in particular no settlement – happens
    between the call and its return), and it is the call with the handler's topic and the chain's outputs -/
theorem publish_call_then_ret (c : Cfg) (o : Outcome α) (p : PubOutcome) (i : Nat) (t : String) (ms : List α)
    (h : (handle c o p)[i]? = some (.publishCall t ms)) :
    (handle c o p)[i + 1]? = some (.publishRet (effPub c p)) ∧ t = pubTopic c ∧ o.result = .returns ms false := by
  rcases o with ⟨s, r⟩
  rcases c with ⟨kd, tp⟩
  rcases s with _ | _ | _ <;> rcases r with ⟨_ | ⟨x, xs⟩, _ | _⟩ | v <;> cases kd <;> cases p <;>
    simp only [handle, selfEff, publishProduced, settleTail, effPub, pubTopic, List.nil_append, List.cons_append] at h ⊢ <;>
    (rcases i with _ | _ | _ | _ | _ | _ | _ | _ | _ <;> simp at h <;>
      (obtain ⟨h1, h2⟩ := h; subst h1; subst h2; simp))

/-! ## 6. the settlement the subscriber sees (first-wins, `Wm.Ack`) -/

def selfOps : Option Settle → List Ack.Op
  | none => [] | some .ack => [.ack] | some .nack => [.nack]

def opOf : Effect α → Ack.Op
  | .routerAck => .ack
  | _ => .nack

theorem settleOps_handle (c : Cfg) (o : Outcome α) (p : PubOutcome) :
    settleOps (handle c o p) = selfOps o.selfSettle ++ [opOf (decision c o p)] := by
  rcases o with ⟨s, r⟩
  rcases c with ⟨k, t⟩
  rcases s with _ | _ | _ <;> rcases r with ⟨_ | ⟨x, xs⟩, _ | _⟩ | v <;> cases k <;> cases p <;> rfl

/-- **the message always ends settled**, and the settle calls never panic (no channel is closed twice),
    whichever way the message object was built -/
theorem always_settled (k : Ack.Kind) (c : Cfg) (o : Outcome α) (p : PubOutcome) :
    sentAfter k (handle c o p) ≠ .none ∧
    Ack.Res.panic ∉ (Ack.run (Ack.initSt k) (settleOps (handle c o p))).2 := by
  refine ⟨?_, Ack.never_panics k _⟩
  unfold sentAfter stateAfter
  rw [Ack.first_wins, settleOps_handle]
  rcases o with ⟨s, r⟩
  rcases s with _ | _ | _
  · cases decision c ⟨none, r⟩ p <;> simp [selfOps, opOf, Ack.firstSettle]
  · simp [selfOps, Ack.firstSettle]
  · simp [selfOps, Ack.firstSettle]

/-- **a settlement the handler made itself is never overridden**: whatever the chain and the publisher do
    afterwards, the subscriber sees the handler's own Ack/Nack (on every kind of message object) -/
theorem self_settlement_wins (k : Ack.Kind) (c : Cfg) (s : Settle) (r : Result α) (p : PubOutcome) :
    sentAfter k (handle c ⟨some s, r⟩ p) = s.toSent := by
  unfold sentAfter stateAfter
  rw [Ack.first_wins, settleOps_handle]
  cases s <;> simp [selfOps, Ack.firstSettle, Settle.toSent]

/-- without a settlement of its own the subscriber sees **Ack iff** the condition of the statement, Nack iff not -/
theorem final_settlement (k : Ack.Kind) (c : Cfg) (r : Result α) (p : PubOutcome) :
    (sentAfter k (handle c ⟨none, r⟩ p) = .ack ↔ AckCond c ⟨none, r⟩ p) ∧
    (sentAfter k (handle c ⟨none, r⟩ p) = .nack ↔ ¬ AckCond c ⟨none, r⟩ p) := by
  unfold sentAfter stateAfter
  rw [Ack.first_wins, settleOps_handle, ← decision_ack_iff]
  have := decision_isSettle c ⟨none, r⟩ p
  cases h : decision c ⟨none, r⟩ p <;> simp_all [selfOps, opOf, Ack.firstSettle, Effect.isRouterSettle]

/-- the settlement state **at every instant up to and including the end of Publish** is the handler's own
    settlement (none if it made none): the router has not acked (or nacked) the message while Publish runs.
    `take (i+1)` = the effects up to and including the `i`-th. -/
theorem state_inside_publish (k : Ack.Kind) (c : Cfg) (o : Outcome α) (p : PubOutcome) (i : Nat) (e : Effect α)
    (h : (handle c o p)[i]? = some e) (he : e.isPublish = true) :
    sentAfter k ((handle c o p).take (i + 1)) = selfSent o.selfSettle := by
  unfold sentAfter stateAfter
  rw [Ack.first_wins]
  rcases o with ⟨s, r⟩
  rcases c with ⟨kd, t⟩
  rcases s with _ | _ | _ <;> rcases r with ⟨_ | ⟨x, xs⟩, _ | _⟩ | v <;> cases kd <;> cases p <;>
    simp only [handle, selfEff, publishProduced, settleTail, effPub, pubTopic, List.nil_append, List.cons_append] at h ⊢ <;>
    (rcases i with _ | _ | _ | _ | _ | _ | _ | _ | _ <;>
      simp at h <;> subst h <;>
        first
        | (simp [Effect.isPublish, Effect.isPublishCall, Effect.isPublishRet] at he; done)
        | rfl)

/-- **a settlement made concurrently by the handler (helper goroutine) and the Router's own never both count**:
    wherever the helper's call lands among the effects, the message ends with exactly the one of the two that came
    first – the helper's if no Router settlement precedes it, else the Router's (which is then what `handle` alone
    gives) – and no channel is closed twice -/
theorem race_first_wins (k : Ack.Kind) (c : Cfg) (r : Result α) (p : PubOutcome) (s : Settle) (i : Nat) :
    (settleOps ((handle c ⟨none, r⟩ p).take i) = [] → sentAfter k (handleRace c r p s i) = s.toSent) ∧
    (settleOps ((handle c ⟨none, r⟩ p).take i) ≠ [] →
        sentAfter k (handleRace c r p s i) = sentAfter k (handle c ⟨none, r⟩ p)) ∧
    Ack.Res.panic ∉ (Ack.run (Ack.initSt k) (settleOps (handleRace c r p s i))).2 ∧
    ¬ ((stateAfter k (handleRace c r p s i)).ackCh = .closed ∧ (stateAfter k (handleRace c r p s i)).nackCh = .closed) := by
  have hsplit : settleOps ((handle c ⟨none, r⟩ p).take i) ++ settleOps ((handle c ⟨none, r⟩ p).drop i) =
      [opOf (decision c ⟨none, r⟩ p)] := by
    have := settleOps_handle c ⟨none, r⟩ p
    simp only [selfOps, List.nil_append] at this
    rw [← this]
    unfold settleOps
    rw [← List.filterMap_append, List.take_append_drop]
  have hrace : settleOps (handleRace c r p s i) =
      settleOps ((handle c ⟨none, r⟩ p).take i) ++ selfOps (some s) ++ settleOps ((handle c ⟨none, r⟩ p).drop i) := by
    have hs : settleOps (selfEff (some s) : List (Effect α)) = selfOps (some s) := by cases s <;> rfl
    simp [handleRace, settleOps, List.filterMap_append] at hs ⊢
    rw [hs]
  refine ⟨?_, ?_, Ack.never_panics k _, (Ack.chan_closed_iff k _).2.2⟩
  · intro h0
    unfold sentAfter stateAfter
    rw [Ack.first_wins, hrace, h0]
    cases s <;> simp [selfOps, Ack.firstSettle, Settle.toSent]
  · intro hne
    unfold sentAfter stateAfter
    rw [Ack.first_wins, Ack.first_wins, hrace]
    have hfull := settleOps_handle c ⟨none, r⟩ p
    simp only [selfOps, List.nil_append] at hfull
    rw [hfull]
    generalize settleOps ((handle c ⟨none, r⟩ p).take i) = a at *
    generalize settleOps ((handle c ⟨none, r⟩ p).drop i) = b at *
    cases a with
    | nil => exact absurd rfl hne
    | cons x xs =>
      simp at hsplit
      obtain ⟨hx, hxs, hb⟩ := hsplit
      subst hx; subst hxs; subst hb
      cases decision c ⟨none, r⟩ p <;> simp [opOf, Ack.firstSettle]

/-! ## non-vacuity: concrete instances -/

example : handle ⟨.withPub, "out"⟩ ⟨none, .returns [1, 2, 3] false⟩ .accept =
    [.handlerCalled, .addCtx [1, 2, 3], .publishCall "out" [1, 2, 3], .publishRet .accept, .routerAck, .done] := by decide
example : handle ⟨.withPub, "out"⟩ ⟨some .nack, .returns [7] false⟩ .panic =
    [.handlerCalled, .selfNack, .addCtx [7], .publishCall "out" [7], .publishRet .panic, .recovered, .routerNack, .done] := by decide
example : handle ⟨.disabled, "x"⟩ ⟨none, .returns [100] false⟩ .accept =
    [.handlerCalled, .addCtx [100], .publishCall "" [100], .publishRet .error, .routerNack, .done] := by decide
example : handle ⟨.nilPub, "out"⟩ ⟨none, .returns [1] false⟩ .accept = [.handlerCalled, .addCtx [1], .routerNack, .done] := by decide
example : handle ⟨.withPub, "out"⟩ ⟨some .ack, .returns [1, 2] true⟩ .accept = [.handlerCalled, .selfAck, .routerNack, .done] := by decide
example : AckCond ⟨.withPub, "out"⟩ ⟨none, .returns [1, 2, 3] false⟩ .accept := ⟨_, rfl, Or.inr ⟨rfl, rfl⟩⟩
example : ¬ AckCond ⟨.disabled, ""⟩ ⟨none, .returns [1] false⟩ .accept := by simp [AckCond]
example : sentAfter .new (handle ⟨.withPub, "out"⟩ ⟨some .nack, .returns [1] false⟩ .accept) = .nack := by decide
example : sentAfter .zero (handle ⟨.withPub, "out"⟩ ⟨some .ack, (.panics .nil : Result Nat)⟩ .accept) = .ack := by decide
-- a publisher that refuses any call containing output 0: one call with all outputs, refused, Nack
example : handleWith ⟨.withPub, "t"⟩ ⟨none, .returns [0, 1, 2] false⟩ (fun ms => if ms.contains 0 then .error else .accept) =
    [.handlerCalled, .addCtx [0, 1, 2], .publishCall "t" [0, 1, 2], .publishRet .error, .routerNack, .done] := by decide
-- the helper's Nack lands right after the Router's Ack (index 3) / right before it (index 2)
example : handleRace ⟨.withPub, "t"⟩ (.returns ([] : List Nat) false) .accept .nack 3 =
    [.handlerCalled, .addCtx [], .routerAck, .selfNack, .done] := by decide
example : sentAfter .new (handleRace ⟨.withPub, "t"⟩ (.returns ([] : List Nat) false) .accept .nack 3) = .ack ∧
    sentAfter .new (handleRace ⟨.withPub, "t"⟩ (.returns ([] : List Nat) false) .accept .nack 2) = .nack := by decide
-- the hypotheses of `publish_before_ack` / `publish_before_ack_idx` / `state_inside_publish` are satisfiable:
example : handle ⟨.withPub, "t"⟩ ⟨none, .returns [5] false⟩ .accept =
    [.handlerCalled, .addCtx [5], .publishCall "t" [5], .publishRet .accept] ++ .routerAck :: [.done] := by decide
example : (handle ⟨.withPub, "t"⟩ ⟨some .nack, .returns [5] false⟩ .accept)[3]? = some (.publishCall "t" [5]) := by decide
example : (handle ⟨.withPub, "t"⟩ ⟨some .nack, .returns [5] false⟩ .accept)[4]? = some (.publishRet .accept) ∧
    (handle ⟨.withPub, "t"⟩ ⟨some .nack, .returns [5] false⟩ .accept)[5]? = some .routerAck := by decide

end Wm.Handle
