/-
  C13 – Poison queue: a failed message is either in the poison topic or still failing.
  Property theorems only.  Model: `WmModel/Poison.lean`; metadata lemmas: `WmModel/Lemmas/PoisonMeta.lean`.
  Every statement quantifies over all poison topics, all filters (arbitrary functions of the error), both
  publisher outcomes, all context values, all messages (any uuid/payload/metadata, including metadata that
  already holds poison keys), and all handler results (any metadata writes, any outputs, any error or none).
-/
import WmModel.Lemmas.PoisonMeta
namespace Wm.Poison

/-- the four metadata keys are four different keys (so none of the writes clobbers another) -/
theorem poisonKeys_distinct :
    reasonKey ≠ topicKey ∧ reasonKey ≠ handlerKey ∧ reasonKey ≠ subscriberKey ∧
    topicKey ≠ handlerKey ∧ topicKey ≠ subscriberKey ∧ handlerKey ≠ subscriberKey := by decide

/-- reading the stamped metadata: the four keys name reason/topic/handler/subscriber, all other keys are as before -/
theorem lookup_stamp (m : Meta) (reason : Str) (c : Ctx) (k : Str) :
    List.lookup k (stamp m reason c) =
      if k = subscriberKey then some c.subscriber
      else if k = handlerKey then some c.handler
      else if k = topicKey then some c.topic
      else if k = reasonKey then some reason
      else List.lookup k m := by
  simp only [stamp, lookup_mset]

section
variable (ptopic : Str) (filter : HErr → Bool) (pub : POut) (c : Ctx) (msg : Msg) (h : HRes)

/-- **poison_decision**: a publish happens iff the handler failed with an error the filter accepts; the
    middleware reports success iff the handler succeeded or the accepted error was salvaged (publish accepted);
    when the poison publish fails the returned error holds both causes. -/
theorem poison_decision :
    ((middleware ptopic filter pub c msg h).pubs ≠ [] ↔ ∃ e, h.err = some e ∧ filter e = true) ∧
    ((middleware ptopic filter pub c msg h).err = none ↔
        (h.err = none ∨ ∃ e, h.err = some e ∧ filter e = true ∧ pub = .ok)) ∧
    (∀ e t, h.err = some e → filter e = true → pub = .fail t →
        (middleware ptopic filter pub c msg h).err = some (.both e t) ∧
        (∀ p ∈ e.parts, p ∈ (RErr.both e t).causes) ∧ (wrapPrefix ++ t) ∈ (RErr.both e t).causes) := by
  refine ⟨?_, ?_, ?_⟩
  · unfold middleware
    cases he : h.err with
    | none => simp
    | some e => cases hf : filter e <;> cases pub <;> simp [hf]
  · unfold middleware
    cases he : h.err with
    | none => simp
    | some e => cases hf : filter e <;> cases pub <;> simp [hf]
  · intro e t he hf hp
    subst hp
    refine ⟨?_, ?_, ?_⟩
    · simp [middleware, he, hf]
    · intro p hp; simp [RErr.causes, hp]
    · simp [RErr.causes]

/-- **poison_once_same_identity**: an accepted failure yields exactly one `Publish`, on the poison topic, of a
    message with the same uuid and payload whose metadata is the message's metadata (as the handler left it)
    with the four poison keys overwritten by reason (= `err.Error()`), topic, handler and subscriber from the
    message context; it is the consumed message object itself (`o.msg`). -/
theorem poison_once_same_identity (e : HErr) (he : h.err = some e) (hf : filter e = true) :
    ∃ m', (middleware ptopic filter pub c msg h).pubs = [(ptopic, m')] ∧
      m'.uuid = msg.uuid ∧ m'.payload = msg.payload ∧
      List.lookup reasonKey m'.md = some e.text ∧
      List.lookup topicKey m'.md = some c.topic ∧
      List.lookup handlerKey m'.md = some c.handler ∧
      List.lookup subscriberKey m'.md = some c.subscriber ∧
      (∀ k, k ∉ poisonKeys → List.lookup k m'.md = List.lookup k (msets msg.md h.sets)) ∧
      (middleware ptopic filter pub c msg h).msg = m' := by
  have hd := poisonKeys_distinct
  refine ⟨{ msg with md := stamp (msets msg.md h.sets) e.text c }, ?_, rfl, rfl, ?_, ?_, ?_, ?_, ?_, ?_⟩
  · cases pub <;> simp [middleware, he, hf]
  · simp [lookup_stamp, hd.1, hd.2.1, hd.2.2.1]
  · simp [lookup_stamp, hd.2.2.2.1, hd.2.2.2.2.1]
  · simp [lookup_stamp, hd.2.2.2.2.2]
  · simp [lookup_stamp]
  · intro k hk
    simp only [poisonKeys, List.mem_cons, List.not_mem_nil, or_false, not_or] at hk
    simp [lookup_stamp, hk.1, hk.2.1, hk.2.2.1, hk.2.2.2]
  · cases pub <;> simp [middleware, he, hf]

/-- **pass_through**: success and filtered-out errors publish nothing, return the handler's outputs and the
    handler's own error value, and leave the message as the handler left it. -/
theorem pass_through (hp : h.err = none ∨ ∃ e, h.err = some e ∧ filter e = false) :
    (middleware ptopic filter pub c msg h).pubs = [] ∧
    (middleware ptopic filter pub c msg h).outs = h.outs ∧
    (middleware ptopic filter pub c msg h).err = h.err.map RErr.same ∧
    (middleware ptopic filter pub c msg h).msg = { msg with md := msets msg.md h.sets } := by
  rcases hp with he | ⟨e, he, hf⟩
  · simp [middleware, he]
  · simp [middleware, he, hf]

/-- the handler's outputs are returned unchanged in every case in which the call returns (also when the message was
    poisoned); the only other case is a poison publisher that panics -/
theorem outs_unchanged :
    (middleware ptopic filter pub c msg h).outs = h.outs ∨
    ∃ t, pub = .panic t ∧ (middleware ptopic filter pub c msg h).err = some (.panicked t) := by
  unfold middleware
  cases h.err with
  | none => exact Or.inl rfl
  | some e => cases hf : filter e <;> cases pub <;> simp [hf]

/-- **acked_implies_handled_or_poisoned**: composed with the Router's settle rule, a message is acked only if its
    handler succeeded or the message (same uuid, same payload) was accepted by the poison publisher on the poison topic. -/
theorem acked_implies_handled_or_poisoned (okp : Bool)
    (hack : routerSettle (middleware ptopic filter pub c msg h) okp = .ack) :
    h.err = none ∨
    ∃ e m', h.err = some e ∧ filter e = true ∧ pub = .ok ∧
      (middleware ptopic filter pub c msg h).pubs = [(ptopic, m')] ∧ m'.uuid = msg.uuid ∧ m'.payload = msg.payload := by
  cases he : h.err with
  | none => exact Or.inl rfl
  | some e =>
    right
    cases hf : filter e with
    | false => simp [routerSettle, middleware, he, hf] at hack
    | true =>
      cases pub with
      | fail t => simp [routerSettle, middleware, he, hf] at hack
      | panic t => simp [routerSettle, middleware, he, hf] at hack
      | ok =>
        obtain ⟨m', h1, h2, h3, _⟩ := poison_once_same_identity ptopic filter .ok c msg h e he hf
        exact ⟨e, m', rfl, hf, rfl, h1, h2, h3⟩

/-- **if that publish fails the error is still returned and the message is Nacked** -/
theorem nacked_when_poison_publish_fails (okp : Bool) (e : HErr) (t : Str)
    (he : h.err = some e) (hf : filter e = true) :
    (middleware ptopic filter (.fail t) c msg h).err ≠ none ∧
    routerSettle (middleware ptopic filter (.fail t) c msg h) okp = .nack := by
  simp [routerSettle, middleware, he, hf]

/-- a poison publisher that PANICS is a publish that failed: the middleware does not report success (the panic
    leaves the call) and the Router, which recovers it, Nacks the message -/
theorem nacked_when_poison_publisher_panics (okp : Bool) (e : HErr) (t : Str)
    (he : h.err = some e) (hf : filter e = true) :
    (middleware ptopic filter (.panic t) c msg h).err = some (.panicked t) ∧
    routerSettle (middleware ptopic filter (.panic t) c msg h) okp = .nack ∧
    (middleware ptopic filter (.panic t) c msg h).pubs.length = 1 := by
  simp [routerSettle, middleware, he, hf]

/-- a filtered-out error is Nacked -/
theorem nacked_when_filtered_out (okp : Bool) (e : HErr) (he : h.err = some e) (hf : filter e = false) :
    routerSettle (middleware ptopic filter pub c msg h) okp = .nack := by
  simp [routerSettle, middleware, he, hf]

/-- a salvaged message is acked (when its outputs, if any, are accepted by the Router's publisher) -/
theorem acked_when_poisoned (okp : Bool) (e : HErr) (he : h.err = some e) (hf : filter e = true)
    (hout : h.outs = [] ∨ okp = true) :
    routerSettle (middleware ptopic filter .ok c msg h) okp = .ack := by
  rcases hout with ho | ho <;> simp [routerSettle, middleware, he, hf, ho]

/-- **only then**: in the Router's event order every poison publish precedes the settlement, which is the last event -/
theorem poison_before_settle (okp : Bool) :
    ∃ pre s, routerTrace (middleware ptopic filter pub c msg h) okp = pre ++ [.settle s] ∧
      ∀ ev ∈ pre, ∀ s', ev ≠ .settle s' := by
  refine ⟨_, _, rfl, ?_⟩
  intro ev hev s'
  rcases List.mem_append.mp hev with h1 | h1
  · rcases List.mem_map.mp h1 with ⟨p, _, rfl⟩; simp
  · split at h1
    · rcases List.mem_singleton.mp h1 with rfl; simp
    · simp at h1

end

/-- a message that comes back (after a Nack) with the poison keys of an earlier attempt gets them overwritten:
    as a map, stamping twice = stamping once with the later values -/
theorem stamp_overwrites (m : Meta) (r r' : Str) (c c' : Ctx) (k : Str) :
    List.lookup k (stamp (stamp m r c) r' c') = List.lookup k (stamp m r' c') := by
  simp only [lookup_stamp]
  repeat' split
  all_goals rfl

/-- the metadata stays a map (each key once) -/
theorem stamp_nodup (m : Meta) (r : Str) (c : Ctx) (hm : (keys m).Nodup) : (keys (stamp m r c)).Nodup := by
  unfold stamp
  exact mset_nodup _ _ _ (mset_nodup _ _ _ (mset_nodup _ _ _ (mset_nodup _ _ _ hm)))

/-! ### message streams: the middleware keeps no state, so the per-message theorems hold for every message of
    every stream, and the number of poison publishes of a stream is the number of accepted failures -/

def acceptedItem (filter : HErr → Bool) (it : Item) : Bool :=
  match it.res.err with
  | some e => filter e
  | none => false

theorem stream_eq_map (ptopic : Str) (filter : HErr → Bool) (items : List Item) :
    stream ptopic filter items = items.map (fun it => middleware ptopic filter it.pub it.ctx it.msg it.res) := by
  induction items with
  | nil => rfl
  | cons it rest ih => simp [stream, ih]

theorem pubs_length (ptopic : Str) (filter : HErr → Bool) (it : Item) :
    (middleware ptopic filter it.pub it.ctx it.msg it.res).pubs.length = if acceptedItem filter it then 1 else 0 := by
  unfold middleware acceptedItem
  cases it.res.err with
  | none => simp
  | some e => cases hf : filter e <;> cases it.pub <;> simp [hf]

/-- **exactly once, for every stream**: over any stream of messages, with the poison publisher failing at any
    positions, the total number of poison publishes equals the number of messages that failed with an accepted error -/
theorem stream_publishes_once_each (ptopic : Str) (filter : HErr → Bool) (items : List Item) :
    ((stream ptopic filter items).map (fun o => o.pubs.length)).sum = (items.filter (acceptedItem filter)).length := by
  induction items with
  | nil => rfl
  | cons it rest ih =>
    simp only [stream, List.map_cons, List.sum_cons, ih, pubs_length, List.filter_cons]
    cases acceptedItem filter it <;> simp <;> omega

/-! ### stateful filters: one consultation per failed message, and its answer is the verdict -/

/-- **filter consulted exactly once**: a failed message uses up exactly one answer of the filter, a handled one none -/
theorem stateful_filter_consulted_once (ptopic : Str) (ans : List Bool) (pub : POut) (c : Ctx) (msg : Msg) (h : HRes) :
    (middlewareS ptopic ans pub c msg h).2 = ans.drop (consultations h) := by
  unfold middlewareS consultations
  cases h.err <;> simp

/-- the outcome is the outcome for the pure filter that gives the answer obtained -/
theorem stateful_eq_pure (ptopic : Str) (ans : List Bool) (pub : POut) (c : Ctx) (msg : Msg) (h : HRes) :
    (middlewareS ptopic ans pub c msg h).1 = middleware ptopic (fun _ => ans.headD false) pub c msg h := by
  unfold middlewareS
  cases he : h.err with
  | none => simp [middleware, he]
  | some e => rfl

/-- **acked ⇒ handled or in the poison topic**, also when the filter is stateful: an ack of a failed message means
    the one answer the filter gave was "yes" and the message (same uuid, payload) was accepted on the poison topic -/
theorem stateful_acked_implies_handled_or_poisoned (ptopic : Str) (ans : List Bool) (pub : POut) (c : Ctx) (msg : Msg)
    (h : HRes) (okp : Bool) (hack : routerSettle (middlewareS ptopic ans pub c msg h).1 okp = .ack) :
    h.err = none ∨
    (ans.headD false = true ∧ pub = .ok ∧
      ∃ m', (middlewareS ptopic ans pub c msg h).1.pubs = [(ptopic, m')] ∧ m'.uuid = msg.uuid ∧ m'.payload = msg.payload) := by
  rw [stateful_eq_pure] at hack ⊢
  rcases acked_implies_handled_or_poisoned ptopic _ pub c msg h okp hack with h1 | ⟨e, m', _, hf, hp, h4, h5, h6⟩
  · exact Or.inl h1
  · exact Or.inr ⟨hf, hp, m', h4, h5, h6⟩

/-- a failed message the filter said "yes" to is published exactly once; one it said "no" to is not published and
    its error is returned (it stays failing) -/
theorem stateful_verdict (ptopic : Str) (ans : List Bool) (pub : POut) (c : Ctx) (msg : Msg) (h : HRes) (e : HErr)
    (he : h.err = some e) :
    (ans.headD false = true → (middlewareS ptopic ans pub c msg h).1.pubs.length = 1) ∧
    (ans.headD false = false → (middlewareS ptopic ans pub c msg h).1.pubs = [] ∧
        (middlewareS ptopic ans pub c msg h).1.err = some (.same e)) := by
  rw [stateful_eq_pure]
  constructor
  · intro hy
    obtain ⟨m', h1, _⟩ := poison_once_same_identity ptopic (fun _ => ans.headD false) pub c msg h e he hy
    rw [h1]; rfl
  · intro hn
    have := pass_through ptopic (fun _ => ans.headD false) pub c msg h (Or.inr ⟨e, he, hn⟩)
    exact ⟨this.1, by rw [this.2.2.1, he]; rfl⟩

def failed (it : Item) : Bool := it.res.err.isSome

/-- **a budget is not wasted**: with a filter that says "yes" `k` times and then "no", a stream publishes
    min(k, number of failed messages) messages to the poison topic – every consultation decides one message -/
theorem budget_filter_stream (ptopic : Str) (k : Nat) (items : List Item) :
    ((streamS ptopic (List.replicate k true) items).map (fun o => o.pubs.length)).sum =
      min k (items.filter failed).length := by
  induction items generalizing k with
  | nil => simp [streamS]
  | cons it rest ih =>
    simp only [streamS, List.map_cons, List.sum_cons, List.filter_cons, failed]
    rw [stateful_filter_consulted_once, stateful_eq_pure]
    have hc : it.res.err = none ∨ ∃ e, it.res.err = some e := by
      cases it.res.err with
      | none => exact Or.inl rfl
      | some e => exact Or.inr ⟨e, rfl⟩
    rcases hc with he | ⟨e, he⟩
    · have : (middleware ptopic (fun _ => (List.replicate k true).headD false) it.pub it.ctx it.msg it.res).pubs.length = 0 := by
        simp [middleware, he]
      rw [this]
      simp [consultations, he, ih]
    · cases k with
      | zero =>
        have : (middleware ptopic (fun _ => (List.replicate 0 true).headD false) it.pub it.ctx it.msg it.res).pubs.length = 0 := by
          simp [middleware, he]
        have h0 := ih 0
        rw [this]
        simp only [List.replicate_zero] at h0
        simp [consultations, he, h0]
      | succ k' =>
        have : (middleware ptopic (fun _ => (List.replicate (k' + 1) true).headD false) it.pub it.ctx it.msg it.res).pubs.length = 1 := by
          cases hp : it.pub <;> simp [middleware, he, List.replicate_succ]
        rw [this]
        simp only [consultations, he, Option.isSome_some, if_true, List.replicate_succ, List.drop_succ_cons, List.drop_zero]
        rw [ih k']
        simp only [List.length_cons]
        omega

/-! ### non-vacuity -/

private def m0 : Msg := ⟨ascii "u1", ascii "payload", [(reasonKey, ascii "old"), (ascii "k", ascii "v")]⟩
private def c0 : Ctx := ⟨ascii "in", ascii "h", ascii "sub"⟩
private def e0 : HErr := .plain (ascii "boom") false
private def h0 : HRes := ⟨[(ascii "k2", ascii "w")], [⟨ascii "o", [], []⟩], some e0⟩

example : (middleware (ascii "poison") (fun _ => true) .ok c0 m0 h0).pubs =
    [(ascii "poison", ⟨ascii "u1", ascii "payload",
      [(subscriberKey, ascii "sub"), (handlerKey, ascii "h"), (topicKey, ascii "in"), (reasonKey, ascii "boom"),
       (ascii "k2", ascii "w"), (ascii "k", ascii "v")]⟩)] := by decide
example : (middleware (ascii "poison") (fun _ => true) .ok c0 m0 h0).err = none := by decide
example : (middleware (ascii "poison") (fun _ => true) (.fail (ascii "down")) c0 m0 h0).err = some (.both e0 (ascii "down")) := by decide
example : (middleware (ascii "poison") (fun _ => false) .ok c0 m0 h0).err = some (.same e0) := by decide
example : routerSettle (middleware (ascii "poison") (fun _ => true) .ok c0 m0 h0) true = .ack := by decide
example : routerSettle (middleware (ascii "poison") (fun _ => true) (.fail []) c0 m0 h0) true = .nack := by decide
example : (streamS (ascii "p") [true, false] [⟨.ok, c0, m0, h0⟩, ⟨.ok, c0, m0, ⟨[], [], none⟩⟩, ⟨.ok, c0, m0, h0⟩, ⟨.ok, c0, m0, h0⟩]).map
    (fun o => (o.pubs.length, o.err.isSome)) = [(1, false), (0, false), (0, true), (0, true)] := by decide
example : h0.err = some e0 ∧ (fun _ : HErr => true) e0 = true := ⟨rfl, rfl⟩
example : ((stream (ascii "p") (fun _ => true) [⟨.ok, c0, m0, h0⟩, ⟨.fail [], c0, m0, ⟨[], [], none⟩⟩, ⟨.fail [], c0, m0, h0⟩]).map
    (fun o => o.pubs.length)) = [1, 0, 1] := by decide

end Wm.Poison
