/-
  C16 – stretch: the forwarder envelope round trip WITHOUT a codec hypothesis, for the modelled JSON codec.

  `Json.jsonCodec` = Go's `encoding/json` encoder for the envelope (Lean model, compared byte for byte with the
  real encoder on every run: `jenv` cases) + a decoder for that shape written in Lean.  The theorems below hold for
  every message (any strings, any payload bytes incl. nil/empty, any metadata map incl. nil/empty) and every
  non-empty destination topic.  What remains assumed about the library is only that Go's `json.Unmarshal`
  computes the same inverse (tested: `jdec` and `env` cases).
-/
import WmModel.Props.C16
import WmModel.Lemmas.ValueJson
namespace Wm.Value.Json
open Wm.Value

theorem sortMeta_perm (m : Meta) : (sortMeta m).Perm m := List.mergeSort_perm _ _

theorem noDupKeys_perm {m m' : Meta} (h : m'.Perm m) (hm : NoDupKeys m) : NoDupKeys m' := by
  unfold NoDupKeys keys at *
  exact (h.map Prod.fst).nodup_iff.mpr hm

/-- a Go map has no order: permuting the entries of a duplicate-free association list changes no lookup -/
theorem lookup_perm {m m' : Meta} (h : m'.Perm m) (hm : NoDupKeys m) (k : String) : lookup m' k = lookup m k := by
  have hm' := noDupKeys_perm h hm
  cases hk : lookup m k with
  | some v => exact lookup_of_mem hm' (h.mem_iff.mpr (lookup_some_mem hk))
  | none =>
    cases hk' : lookup m' k with
    | none => rfl
    | some v =>
      have := lookup_of_mem hm (h.mem_iff.mp (lookup_some_mem hk'))
      rw [hk] at this; exact absurd this (by simp)

/-- the JSON codec gives back the envelope with the metadata entries in key order – the same Go map -/
theorem json_round_trips_up_to_order (e : Envelope) :
    jsonCodec.dec (jsonEnvelope e) = some (normalize e) ∧
    (normalize e).dest = e.dest ∧ (normalize e).uuid = e.uuid ∧ (normalize e).payload = e.payload ∧
    (e.metadata = none ↔ (normalize e).metadata = none) ∧
    ∀ m, e.metadata = some m → ∃ m', (normalize e).metadata = some m' ∧ m'.Perm m := by
  refine ⟨json_dec_enc e, rfl, rfl, rfl, ?_, ?_⟩
  · cases h : e.metadata <;> simp [normalize, h]
  · intro m hm
    exact ⟨sortMeta m, by simp [normalize, hm], sortMeta_perm m⟩

/-- **forwarder envelope over JSON, no codec hypothesis**: for every well-formed message and every non-empty
    destination topic, wrapping succeeds and unwrapping returns the destination topic and a message with the same
    UUID, the same payload (nil-ness included) and the same metadata map – a message that `Equals` the original -/
theorem json_envelope_round_trip (u dest : String) (m : Msg) (hm : m.WF) (hd : dest ≠ "") :
    ∃ w m', wrap jsonCodec u dest m = .ok w ∧ unwrap jsonCodec w = .ok (dest, m') ∧
      m'.uuid = m.uuid ∧ m'.payload = m.payload ∧ (∀ k, lookup m'.md k = lookup m.md k) ∧
      (m'.metadata = none ↔ m.metadata = none) ∧ equals m' m = true := by
  let e : Envelope := ⟨dest, m.uuid, m.payload, m.metadata⟩
  have hdec := json_dec_enc e
  have hlook : ∀ k, lookup ((m.metadata.map sortMeta).getD []) k = lookup m.md k := by
    intro k
    unfold Msg.md
    cases hmd : m.metadata with
    | none => rfl
    | some md =>
      simp only [Option.map_some, Option.getD_some]
      apply lookup_perm (sortMeta_perm md)
      simpa [Msg.WF, Msg.md, hmd] using hm
  have hwf' : Msg.WF ⟨m.uuid, m.payload, m.metadata.map sortMeta⟩ := by
    unfold Msg.WF Msg.md
    cases hmd : m.metadata with
    | none => simp [NoDupKeys, keys]
    | some md =>
      simp only [Option.map_some, Option.getD_some]
      apply noDupKeys_perm (sortMeta_perm md)
      simpa [Msg.WF, Msg.md, hmd] using hm
  refine ⟨⟨u, some (jsonEnvelope e), some []⟩, ⟨m.uuid, m.payload, m.metadata.map sortMeta⟩, ?_, ?_, rfl, rfl, hlook, ?_, ?_⟩
  · simp [wrap, newEnvelope, Envelope.valid, hd, jsonCodec, e]
  · simp only [unwrap, Msg.bytes, Option.getD_some, hdec, normalize, Envelope.valid]
    simp [hd, e]
  · cases m.metadata <;> simp
  · exact (equals_iff _ _ hwf' hm).mpr ⟨rfl, rfl, hlook⟩

/-- non-vacuity: the hypotheses hold for a message with control characters, html characters, non-BMP text, a binary
    payload and unsorted metadata with an empty key -/
example : ∃ w m', wrap jsonCodec "#" "t\n<>&" ⟨"u 😀", some [0, 255, 34], some [("b", "1"), ("", "\\\"")]⟩ = .ok w ∧
    unwrap jsonCodec w = .ok ("t\n<>&", m') ∧ equals m' ⟨"u 😀", some [0, 255, 34], some [("b", "1"), ("", "\\\"")]⟩ = true := by
  obtain ⟨w, m', h1, h2, _, _, _, _, h7⟩ :=
    json_envelope_round_trip "#" "t\n<>&" ⟨"u 😀", some [0, 255, 34], some [("b", "1"), ("", "\\\"")]⟩ (by decide) (by decide)
  exact ⟨w, m', h1, h2, h7⟩

end Wm.Value.Json
