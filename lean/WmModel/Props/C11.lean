/-
  C11 – persistent GoChannel replays the whole topic to every subscription exactly once:
  theorem over every reachable state of M_topic (WmModel/GcTopic.lean) – any number of Publish calls with any
  batches, any number of Subscribe calls and unsubscribes, every interleaving of their critical regions.
-/
import WmModel.GcTopic
import WmModel.Lts
namespace Wm.GcTopic
open Wm.Lts

def sys : Sys St Action := { init := init, act := act }

/-- senders started so far for every registered subscription, relative to the persisted log -/
def Ok (s : St) : Prop :=
  match s.phase with
  | .free | .pubLocked _ | .subLocked => ∀ g ∈ s.regs, g = s.log
  | .pubSending rest => ∀ g ∈ s.regs, g ++ rest = s.log
  | .subReplayed g0 => g0 = s.log ∧ ∀ g ∈ s.regs, g = s.log

theorem ok_step (s : St) (a : Action) (s' : St) (h : Ok s) (ha : act s a = some s') : Ok s' := by
  cases a <;> simp only [act] at ha
  case pLock ms =>
    split at ha
    · rename_i hp; simp at ha; subst ha; simp [Ok, hp] at h ⊢; exact h
    · simp at ha
  case pPersist =>
    split at ha
    · rename_i ms hp; simp at ha; subst ha; simp [Ok, hp] at h ⊢
      intro g hg; rw [h g hg]
    · simp at ha
  case pAbort =>
    split at ha
    · rename_i ms hp; simp at ha; subst ha; simp [Ok, hp] at h ⊢; exact h
    · simp at ha
  case pSend =>
    split at ha
    · rename_i m rest hp; simp at ha; subst ha; simp [Ok, hp] at h ⊢
      intro g hg; have := h g hg; simpa using this
    · simp at ha
  case pUnlock =>
    split at ha
    · rename_i hp; simp at ha; subst ha; simp [Ok, hp] at h ⊢
      intro g hg; have := h g hg; simpa using this
    · simp at ha
  case uLock =>
    split at ha
    · rename_i hp; simp at ha; subst ha; simp [Ok, hp] at h ⊢; exact h
    · simp at ha
  case uReplay =>
    split at ha
    · rename_i hp; simp at ha; subst ha; simp [Ok, hp] at h ⊢; exact h
    · simp at ha
  case uRegister =>
    split at ha
    · rename_i g hp; simp at ha; subst ha; simp [Ok, hp] at h ⊢
      intro g' hg'; rcases hg' with hg' | hg'
      · exact h.2 g' hg'
      · rw [hg']; exact h.1
    · simp at ha
  case unsub k =>
    split at ha
    · rename_i hp
      split at ha
      · simp at ha; subst ha; simp [Ok, hp] at h ⊢
        intro g hg; exact h g (List.mem_of_mem_eraseIdx hg)
      · simp at ha
    · simp at ha

theorem reach_ok : ∀ s, Reach sys s → Ok s :=
  inv_of_step sys Ok (by simp [Ok, init, sys]) (fun s a s' h ha => ok_step s a s' h ha)

/-- **exactly one sender per subscription and persisted message**: whenever no Publish/Subscribe is inside its
    critical region, every registered subscription has had senders started for exactly the persisted log –
    the same messages, the same number of times, in the same order; this covers messages published before,
    during and after the Subscribe call -/
theorem exactly_one_sender (s : St) (h : Reach sys s) (hf : s.phase = .free) (g : List Nat) (hg : g ∈ s.regs) :
    g = s.log := by
  have := reach_ok s h
  simp [Ok, hf] at this
  exact this g hg

/-- in multiset form: neither missed nor doubled -/
theorem sender_count_eq (s : St) (h : Reach sys s) (hf : s.phase = .free) (g : List Nat) (hg : g ∈ s.regs) (m : Nat) :
    g.count m = s.log.count m := by
  rw [exactly_one_sender s h hf g hg]

/-- while a Publish is half way through its batch a registered subscription lacks exactly the unsent rest – the
    reason why Subscribe's replay+register must not interleave with it (they exclude each other on the topic mutex) -/
theorem mid_publish (s : St) (h : Reach sys s) (rest : List Nat) (hp : s.phase = .pubSending rest)
    (g : List Nat) (hg : g ∈ s.regs) : g ++ rest = s.log := by
  have := reach_ok s h
  simp [Ok, hp] at this
  exact this g hg

/-- the critical regions exclude each other: no Subscribe step is enabled while a Publish holds the topic mutex -/
theorem subscribe_excluded_during_publish (s : St) (rest : List Nat) (hp : s.phase = .pubSending rest) :
    act s .uLock = none ∧ act s .uReplay = none ∧ act s .uRegister = none := by
  simp [act, hp]

/-! non-vacuity: publish [1,2], subscribe (replay 1,2), publish [3] → the subscription got 1,2,3 exactly once each -/
example : exec sys init [.pLock [1, 2], .pPersist, .pSend, .pSend, .pUnlock, .uLock, .uReplay, .uRegister,
    .pLock [3], .pPersist, .pSend, .pUnlock] = some { log := [1, 2, 3], regs := [[1, 2, 3]], phase := .free } := by decide

end Wm.GcTopic
