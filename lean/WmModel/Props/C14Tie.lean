/-
  C14 – generated tie: the bodies of `mapExpiringKeyRepository.IsDuplicate`, `cleanOut`, the middleware closure and the
  decorator's `Publish`, extracted from the current Go source and interpreted (`WmModel/GoDedup.lean`), equal the
  hand-written model for every repository, key, clock reading and answer list; and `IsDuplicate` is one critical section.
  `WmModel/Gen/DedupBody.lean` is rewritten by the extractor on every run.
-/
import WmModel.GoDedup
import WmModel.Gen.DedupBody
import WmModel.Lemmas.Dedup
set_option linter.unusedSectionVars false
set_option linter.unusedSimpArgs false
namespace Wm.GoDedup
open Wm.Dedup

variable {κ : Type} [DecidableEq κ]

theorem setKey_absent (r : Repo κ) (k : κ) (e : Nat) (h : present r k = false) : setKey r k e = (k, e) :: r := by
  unfold setKey
  congr 1
  rw [List.filter_eq_self]
  intro x hx
  have := (present_false_iff r k).mp h
  by_cases hk : x.1 = k
  · exact absurd (by cases x; simp_all) (this x.2)
  · simp [hk]

/-- what the source of `IsDuplicate` says now, interpreted with lock discipline, is the model's `isDup` … -/
theorem extracted_isDuplicate_eq_model (w : Nat) (r : Repo κ) (k : κ) (now : Nat) :
    (execIsDup Gen.isDuplicateBody w r k now).map (·.1) = some (isDup w r k now) := by
  cases hp : present r k with
  | true => simp [execIsDup, Gen.isDuplicateBody, execRTop, execRs, execR1, hp, isDup]
  | false => simp [execIsDup, Gen.isDuplicateBody, execRTop, execRs, execR1, hp, isDup, setKey_absent r k _ hp]

/-- … and the call takes the mutex exactly once: lookup and insert are in the same critical section on every path -/
theorem extracted_isDuplicate_one_section (w : Nat) (r : Repo κ) (k : κ) (now : Nat) :
    (execIsDup Gen.isDuplicateBody w r k now).map (·.2) = some 1 := by
  cases hp : present r k <;> simp [execIsDup, Gen.isDuplicateBody, execRTop, execRs, execR1, hp]

theorem extracted_cleanOut_eq_model (r : Repo κ) (tick : Nat) :
    execClean Gen.cleanOutBody r tick = some (cleanOut r tick) := by
  simp [execClean, Gen.cleanOutBody, execC, evalCC, cleanOut]

theorem extracted_middleware_eq_model (a : DupRes) :
    execMw Gen.middlewareBody none a = some (mwDecide a) := by
  cases a with
  | err => rfl
  | verdict b => cases b <;> rfl

theorem extracted_publish_loop (as : List (Nat × DupRes)) (fw ak : List Nat) :
    (match Gen.publishBody with
     | [_, _, .forMsgs body, _] => execFor body as fw ak
     | _ => none) =
    some ((decDecide as fw ak).1.reverse, (decDecide as fw ak).2.1.reverse, (decDecide as fw ak).2.2) := by
  induction as generalizing fw ak with
  | nil => simp [Gen.publishBody, execFor, decDecide]
  | cons x rest ih =>
    obtain ⟨i, a⟩ := x
    simp only [Gen.publishBody] at ih ⊢
    cases a with
    | err => simp [execFor, execLoopBody, decDecide]
    | verdict b =>
      cases b with
      | true => simp only [execFor, execLoopBody, decDecide]; exact ih fw (i :: ak)
      | false => simp only [execFor, execLoopBody, decDecide]; exact ih (i :: fw) ak

/-- what the source of the decorator's `Publish` says now is the model's decision for every batch of answers -/
theorem extracted_publish_eq_model (as : List (Nat × DupRes)) :
    execPub Gen.publishBody as = some (decDecide as [] []) := by
  have h := extracted_publish_loop as [] []
  simp only [Gen.publishBody] at h
  simp only [execPub, Gen.publishBody, h, Option.map_some, List.reverse_reverse]

/-! non-vacuity: the interpreter rejects the realistic breakages -/
example : execIsDup (κ := String) [.s .lock, .s .lookup, .ifSeen [.unlock, .ret true], .s .unlock, .s .lock,
    .s .insertNowPlusWindow, .s .unlock, .s (.ret false)] 10 [] "a" 0 = none := by decide   -- unlock/lock between lookup and insert
example : execIsDup (κ := String) [.s .lookup, .s (.ret false)] 10 [] "a" 0 = none := by decide   -- map read without the mutex
example : execIsDup (κ := String) [.s .lock, .s .lookup, .s (.ret false)] 10 [] "a" 0 = none := by decide  -- returns holding the mutex
example : execClean [.lockDefer, .rangeDeleteIf .valAfterParam] [("a", 5), ("b", 9)] 7 = some [("a", 5)] := by decide
example : cleanOut [("a", 5), ("b", 9)] 7 = [("b", 9)] := by decide
example : execMw [.callIsDup, .ifDupRetNilNil, .retHandler] none .err = some .callHandler := by decide  -- dropped error check is visible

end Wm.GoDedup
