/-
  C16 – generated ties: the bodies of `(*Message).Equals` and `(*Message).Copy` extracted from the current Go
  source (`WmModel/Gen/ValueBody.lean`, rewritten by the extractor on every run), interpreted by
  `WmModel/ValueGo.lean`, equal the hand-written model on ALL inputs (messages / heaps of any size).
-/
import WmModel.ValueGo
import WmModel.Gen.ValueBody
import WmModel.Gen.ValueGlue
import WmModel.Lemmas.ValueHeap
namespace Wm.Value.Go
open Wm.Value

/-- one iteration of the extracted loop body is one iteration of the model's loop -/
theorem extracted_equals_loop_step (a b : Msg) (k v : String) :
    execL a b Gen.equalsLoopBody { key := k, val := v } =
      match lookup b.md k with
      | none => .ret false
      | some ov => if v ≠ ov then .ret false else .cont { key := k, val := v, otherVal := ov, ok := true } := by
  cases h : lookup b.md k with
  | none => simp [Gen.equalsLoopBody, execL, evalS, evalC, pick, h]
  | some ov =>
    by_cases hv : v = ov <;> simp [Gen.equalsLoopBody, execL, evalS, evalC, pick, h, hv]

theorem extracted_equals_loop (a b : Msg) (md : Meta) :
    execRange a b Gen.equalsLoopBody md = if equalsLoop b.md md then .cont {} else .ret false := by
  induction md with
  | nil => simp [execRange, equalsLoop]
  | cons e r ih =>
    obtain ⟨k, v⟩ := e
    have hs := extracted_equals_loop_step a b k v
    cases h : lookup b.md k with
    | none =>
      rw [h] at hs
      simp [execRange, hs, equalsLoop, h]
    | some ov =>
      rw [h] at hs
      by_cases hv : v = ov
      · simp [hv] at hs
        simp [execRange, hs, equalsLoop, h, hv, ih]
      · simp [hv] at hs
        simp [execRange, hs, equalsLoop, h, hv]

/-- **tie**: what the source of `Equals` says now is the model, for every pair of messages -/
theorem extracted_equals_eq_model (a b : Msg) : exec a b Gen.equalsBody = some (equals a b) := by
  unfold equals
  simp only [Gen.equalsBody, exec, evalC, evalS, pick, extracted_equals_loop]
  by_cases hu : a.uuid = b.uuid
  · by_cases hl : a.md.length = b.md.length
    · cases hloop : equalsLoop b.md a.md <;> simp [hu, hl]
    · simp [hu, hl]
  · simp [hu]

/-- allocation does not change what any address reads as (a fresh address read as empty before, too) -/
theorem store_alloc (h : Heap) (u : String) (p : Option Bytes) (a : Nat) : (h.alloc u p).store a = h.store a := by
  by_cases ha : a < h.stores.length
  · exact Heap.store_alloc_old h u p ha
  · have e1 : h.store a = [] := by
      simp [Heap.store_eq, List.getElem?_eq_none (by omega : h.stores.length ≤ a)]
    by_cases hEq : a = h.stores.length
    · subst hEq; rw [e1]; exact Heap.store_alloc_new h u p
    · have : (h.stores ++ [[]]).length ≤ a := by simp; omega
      rw [e1]; simp [Heap.store_eq, Heap.alloc, List.getElem?_eq_none this]

/-- writes through the freshly allocated object are writes at its (fresh) address -/
theorem setEach_fresh (g : Heap) (j a : Nat) (es : Meta)
    (hj : g.refOf j = some a) : setEach g j .key .val es = some (g.writeAll a es) := by
  induction es generalizing g with
  | nil => rfl
  | cons e r ih =>
    obtain ⟨k, v⟩ := e
    unfold Heap.refOf at hj
    cases ho : g.objs[j]? with
    | none => simp [ho] at hj
    | some o =>
      simp only [ho, Option.bind_some] at hj
      simp only [setEach, sel, Heap.setMeta, ho, hj, Heap.writeAll, List.foldl_cons]
      exact ih (g.write a k v) (by simp [Heap.refOf, ho, hj])

/-- **tie**: what the source of `Copy` says now is the model's `copy`, for every heap and every receiver -/
theorem extracted_copy_eq_model (h : Heap) (i : Nat) :
    execCopy i Gen.copyBody h none = (h.copy i).map fun h' => (h', h.objs.length) := by
  simp only [Gen.copyBody, execCopy, Heap.copy]
  cases hv : h.view i with
  | none => rfl
  | some m =>
    have hi : i < h.objs.length := by
      unfold Heap.view at hv
      cases ho : h.objs[i]? with
      | none => simp [ho] at hv
      | some o => exact (List.getElem?_eq_some_iff.mp ho).1
    -- the receiver is unchanged by the allocation
    have hv' : (h.alloc m.uuid m.payload).view i = some m := by
      rw [← hv]
      apply Heap.view_congr
      · simp [Heap.alloc, List.getElem?_append_left hi]
      · intro a _; exact store_alloc h _ _ a
    have hj : (h.alloc m.uuid m.payload).refOf h.objs.length = some h.stores.length := by
      simp [Heap.refOf, Heap.alloc]
    simp only [hv', setEach_fresh _ _ _ _ hj, Option.map_some]
    rfl

/-! ### the codec glue, as read off the source of this run (`WmModel/Gen/ValueGlue.lean`) -/

/-- **tie**: the metadata `MarshalReply` writes (keys resolved to the constants' current values, "1"/"0" markers,
    the error text) is the model's `replyMeta`, for every handler error -/
theorem extracted_reply_meta_eq_model (err : Option String) :
    Gen.replyGlue.metaOf err = some (replyMeta err) := by
  cases err with
  | none => decide
  | some e =>
    have : errorKey ≠ hasErrorKey := by decide
    simp [Gen.replyGlue, ReplyGlue.metaOf, applySets, replyMeta, errorKey, hasErrorKey]

/-- **tie**: the error `UnmarshalReply` reconstructs (which key is tested against which literal, which key holds
    the text) is the model's `replyErrOf`, for every metadata map -/
theorem extracted_reply_err_eq_model (md : Meta) : Gen.replyGlue.errOf md = replyErrOf md := rfl

/-- **tie**: all three CQRS marshalers store `m.Name(v)` under the model's `nameKey`, read the name back from the
    same key, build the message from the configured UUID generator and the encoded value, and decode `msg.Payload` -/
theorem extracted_cqrs_glue_eq_model :
    Gen.cqrsGlue.map (·.1) = ["json", "proto", "gogo"] ∧
    ∀ g ∈ Gen.cqrsGlue.map (·.2), g.setKey = nameKey ∧ g.getKey = nameKey ∧ g.setVal = "R.Name(A0)" ∧
      g.newMessage = "R.newUUID(), ENC" ∧ (g.decodes = "A0.Payload" ∨ g.decodes = "A0 | A0.Payload") := by
  decide

/-- **tie**: the envelope `newMessageEnvelope` fills is the model's (`newEnvelope`): destination topic from the
    argument, UUID / payload / metadata from the message, under the JSON tags of the model, for every input -/
theorem extracted_envelope_build_eq_model (dest : String) (m : Msg) :
    Gen.envGlue.build dest m = some ⟨dest, m.uuid, m.payload, m.metadata⟩ := by
  rfl

/-- **tie**: the message and destination `unwrapMessageFromEnvelope` returns are the model's (`unwrap`), for every envelope -/
theorem extracted_envelope_unbuild_eq_model (e : Envelope) :
    Gen.envGlue.unbuild e = some (e.dest, ⟨e.uuid, e.payload, e.metadata⟩) := by
  rfl

/-- **tie**: shape of the envelope and of the code around it: the four JSON fields and their Go types; validation =
    "destination topic is empty", performed on wrap (before encoding) and on unwrap (between decoding and building);
    the wrapper is a fresh message carrying the encoded envelope; the decoder reads `msg.Payload`;
    `Publisher.Publish` wraps for the topic of the call and publishes to the configured forwarder topic,
    whose default is the model's -/
theorem extracted_envelope_shape_eq_model :
    Gen.envGlue.jsonFields = [("destination_topic", "string"), ("metadata", "map[string]string"),
                              ("payload", "[]byte"), ("uuid", "string")] ∧
    Gen.envGlue.validateRejects = ["R.DestinationTopic == \"\""] ∧
    Gen.envGlue.wrapValidates = true ∧ Gen.envGlue.unwrapValidates = true ∧
    Gen.envGlue.decodes = "A0.Payload, &E" ∧ Gen.envGlue.wrapperArgs = "watermill.NewUUID(), ENC" ∧
    Gen.envGlue.publisherWrapsFor = "A0" ∧ Gen.envGlue.publisherPublishesTo = "R.config.ForwarderTopic" ∧
    Gen.envGlue.defaultForwarderTopic = Value.defaultForwarderTopic := by
  decide

end Wm.Value.Go
