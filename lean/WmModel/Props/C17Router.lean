/-
  C17 – the Router's settle rule that `Wm.GoRelay.rqRun` / `fwRun` apply to the error returned by the Requeuer's and the
  Forwarder's handler (`if err then .nack else .ack`; both components register with `AddNoPublisherHandler`/a consumer
  handler and return no messages) is *derived* from the model of `handler.handleMessage` (WmModel/Handle.lean, tied to the
  Go source by `Props/C02Tie.lean`) and the settlement model of C03 – so "acked only after the destination accepted it"
  is a statement about the settlement `handleMessage` really produces.
-/
import WmModel.GoRelay
import WmModel.Props.C02
namespace Wm.GoRelay
open Wm.Handle (Cfg PubOutcome handle sentAfter final_settlement)

def settleSent : Wm.Poison.Settle → Ack.Sent
  | .ack => .ack
  | .nack => .nack

/-- a handler that returns no messages: error ⇒ Nack, nil ⇒ Ack – for every handler configuration, every publisher
    behaviour (it is never asked), every kind of message -/
theorem relay_settle_rule_eq_handle (k : Ack.Kind) (c : Cfg) (p : PubOutcome) (err : Bool) :
    sentAfter k (handle c ⟨none, (.returns [] err : Handle.Result Unit)⟩ p) =
      settleSent (if err then .nack else .ack) ∧
    (handle c ⟨none, (.returns [] err : Handle.Result Unit)⟩ p).any Handle.Effect.isPublishCall = false := by
  have hfs := final_settlement k c (.returns [] err : Handle.Result Unit) p
  constructor
  · cases err with
    | true =>
      simp only [settleSent, if_true]
      apply hfs.2.2
      rintro ⟨outs, ho, _⟩
      simp at ho
    | false =>
      simp only [settleSent]
      exact hfs.1.2 ⟨[], rfl, Or.inl rfl⟩
  · cases err <;> simp [handle, Handle.selfEff, Handle.publishProduced, Handle.settleTail, Handle.Effect.isPublishCall]

/-- the settlement `rqRun` reports is the one `handleMessage` produces for the handler's returned error -/
theorem rqRun_settle_eq_handle (k : Ack.Kind) (c : Cfg) (p : PubOutcome) (env : RqEnv) (body : List RqStmt) (m : Wm.Poison.Msg)
    (o : Wm.Relay.RqOut) (h : rqRun env body m = some o) :
    ∃ err, sentAfter k (handle c ⟨none, (.returns [] err : Handle.Result Unit)⟩ p) = settleSent o.settle := by
  unfold rqRun at h
  split at h
  · rename_i s err _
    simp at h
    subst h
    exact ⟨err, (relay_settle_rule_eq_handle k c p err).1⟩
  · simp at h

/-- … and so is the one `fwRun` reports -/
theorem fwRun_settle_eq_handle (k : Ack.Kind) (c : Cfg) (p : PubOutcome) (fb : List FwStmt) (ub : List UwStmt) (ack : Bool)
    (pr : Wm.Relay.Parsed) (dest : Wm.Poison.POut) (o : Wm.Relay.Out) (h : fwRun fb ub ack pr dest = some o) :
    ∃ err, sentAfter k (handle c ⟨none, (.returns [] err : Handle.Result Unit)⟩ p) = settleSent o.settle := by
  unfold fwRun at h
  split at h
  · simp at h
  · split at h
    · rename_i s err _
      simp at h
      subst h
      exact ⟨err, (relay_settle_rule_eq_handle k c p err).1⟩
    · simp at h

end Wm.GoRelay
