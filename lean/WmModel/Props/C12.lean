/-
  C12 – Retry middleware: bounded attempts, back-off, first success wins, error kept.
  Property theorems only (helper lemmas: `WmModel/Lemmas/Retry.lean`, `WmModel/Lemmas/RetryArith.lean`).
  Model: `WmModel/Retry.lean`.  Every statement quantifies over every configuration and every script (outcomes
  with arbitrary outputs, durations, random draws, select picks, lags); no bound on MaxRetries or on any length.
  Indices: call 0 is the first call, call k ≥ 1 is the k-th retry, made in pass k of the loop (`retryNum = k`).
-/
import WmModel.Lemmas.Retry
import WmModel.Lemmas.RetryArith
namespace Wm.Retry

/-- outcome the script holds for call `i` -/
def scriptOut (sc : Script) (i : Nat) : Outcome := if i = 0 then sc.first else (sc.iter i).out

/-- a script for the examples: call `i` fails with error `i` and outputs `[i]`, except call `okAt`, which succeeds;
    every call takes 5 ns, every lag is 1 ns, the draw is 1/2 -/
def exScript (okAt : Nat) (pick : Nat → Pick) : Script :=
  ⟨⟨[0], if okAt = 0 then none else some 0⟩, 5, 1,
   fun k => ⟨1, 2 ^ 52, pick k, 5, ⟨[k], if k = okAt then none else some k⟩⟩⟩

/-- MaxRetries 3, 1000 ns × 3/2 capped at 3000 ns, RandomizationFactor 1/2, no MaxElapsedTime, hook set -/
def exCfg : Cfg := ⟨3, 1000, 3000, 3, 2, 1, 2, 0, true⟩

/-! ### the loop is total -/

/-- the `outOfFuel` result of the model is unreachable, for every configuration and script -/
theorem never_out_of_fuel (cfg : Cfg) (sc : Script) : (retry cfg sc).why ≠ .outOfFuel := by
  unfold retry
  cases h : sc.first.err with
  | none => simp
  | some e =>
    simp only [push_why]
    apply loop_fuel
    · unfold fuelFor; omega
    · unfold fuelFor; simp only []; omega

/-! ### which calls are made -/

/-- the calls are the scripted ones, in order -/
theorem attempts_follow_script (cfg : Cfg) (sc : Script) (i : Nat) (a : Attempt)
    (h : (retry cfg sc).attempts[i]? = some a) : a.out = scriptOut sc i := by
  unfold retry at h
  cases he : sc.first.err with
  | none =>
    simp only [he] at h
    cases i with
    | zero => simp at h; rw [← h]; simp [scriptOut]
    | succ i => simp at h
  | some e =>
    simp only [he, push_attempts] at h
    cases i with
    | zero => simp at h; rw [← h]; simp [scriptOut]
    | succ i =>
      simp only [List.getElem?_cons_succ] at h
      have := loop_outcomes cfg sc _ _ _ i a h
      simp only [] at this
      rw [this, scriptOut, if_neg (by omega)]
      congr 2; omega

/-- **first success wins**: a successful call is the last call made, and `Retry` returns exactly its outputs with a
    nil error -/
theorem first_success_wins (cfg : Cfg) (sc : Script) (i : Nat) (a : Attempt)
    (h : (retry cfg sc).attempts[i]? = some a) (hok : a.out.err = none) :
    i + 1 = (retry cfg sc).attempts.length ∧ (retry cfg sc).err = none ∧ (retry cfg sc).msgs = a.out.outs ∧
    (retry cfg sc).why = .success := by
  unfold retry at h ⊢
  cases he : sc.first.err with
  | none =>
    simp only [he] at h ⊢
    cases i with
    | zero => simp at h; rw [← h]; simp
    | succ i => simp at h
  | some e =>
    simp only [he, push_attempts] at h ⊢
    cases i with
    | zero => simp at h; rw [← h] at hok; simp [he] at hok
    | succ i =>
      simp only [List.getElem?_cons_succ] at h
      obtain ⟨h1, h2, h3, h4⟩ := loop_success cfg sc _ _ _ i a h hok
      simp only [List.length_cons, push_err, push_msgs, push_why]
      exact ⟨by omega, h2, h3, h4⟩

example : (retry exCfg (exScript 2 fun _ => .timer 0)).attempts.length = 3 ∧
    (retry exCfg (exScript 2 fun _ => .timer 0)).msgs = [2] ∧ (retry exCfg (exScript 2 fun _ => .timer 0)).err = none := by decide

/-- **at most MaxRetries re-invocations** (MaxRetries ≥ 1): the handler is called at most 1 + MaxRetries times,
    whatever the outcomes, picks, draws and times are -/
theorem at_most_max_retries (cfg : Cfg) (h1 : 1 ≤ cfg.maxRetries) (sc : Script) :
    (retry cfg sc).attempts.length ≤ 1 + cfg.maxRetries.toNat := by
  unfold retry
  cases h : sc.first.err with
  | none => simp
  | some e =>
    have := loop_length cfg sc (sc.firstDur + sc.resetLag) (fuelFor cfg) ⟨1, cfg.init, sc.firstDur + sc.resetLag, sc.first.outs, e⟩ (by simpa using h1)
    simp only [push_attempts, List.length_cons]
    simp only [] at this
    omega

example : (1 : Int) ≤ exCfg.maxRetries ∧ (retry exCfg (exScript 9 fun _ => .timer 0)).attempts.length = 4 := by decide

/-- the bound is reached: when every call fails, every timer fires and the back-off never stops, the handler is called
    exactly 1 + MaxRetries times and the retries are reported as exhausted -/
theorem exhausts_all_retries (cfg : Cfg) (h1 : 1 ≤ cfg.maxRetries) (sc : Script) (hE : cfg.maxElapsed = 0)
    (hf : sc.first.err ≠ none) (hfail : ∀ k, (sc.iter k).out.err ≠ none) (hpick : ∀ k, ∃ late, (sc.iter k).pick = .timer late) :
    (retry cfg sc).attempts.length = 1 + cfg.maxRetries.toNat ∧ (retry cfg sc).why = .exhausted := by
  unfold retry
  cases h : sc.first.err with
  | none => exact absurd h hf
  | some e =>
    simp only [push_attempts, List.length_cons, push_why]
    have key : ∀ (fuel : Nat) (s : LoopSt), (s.retryNum : Int) ≤ cfg.maxRetries → (fuel : Int) + s.retryNum ≥ cfg.maxRetries + 1 →
        ((loop cfg sc (sc.firstDur + sc.resetLag) fuel s).attempts.length : Int) + s.retryNum = cfg.maxRetries + 1 ∧
        (loop cfg sc (sc.firstDur + sc.resetLag) fuel s).why = .exhausted := by
      intro fuel
      induction fuel with
      | zero => intro s h1 h2; omega
      | succ fuel ih =>
        intro s hle hfu
        cases loop_cases cfg sc (sc.firstDur + sc.resetLag) fuel s with
        | stop hs hr => simp [stops, hE] at hs
        | ctx _ hp hr => obtain ⟨l, hl⟩ := hpick s.retryNum; rw [hl] at hp; cases hp
        | ok late _ _ he hr => exact absurd he (hfail _)
        | last late e _ _ _ hm hr => rw [hr]; simp; omega
        | again late e _ _ _ hm hr =>
          rw [hr]
          obtain ⟨a1, a2⟩ := ih (nextSt cfg sc s late e) (by simpa using hm) (by simp; omega)
          simp only [push_attempts, List.length_cons, push_why]
          simp only [nextSt_retryNum] at a1
          exact ⟨by omega, a2⟩
    obtain ⟨a1, a2⟩ := key (fuelFor cfg) ⟨1, cfg.init, sc.firstDur + sc.resetLag, sc.first.outs, e⟩
      (by simpa using h1) (by unfold fuelFor; simp only []; omega)
    simp only [] at a1
    exact ⟨by omega, a2⟩

/-- **re-invokes while attempts fail – giving up early always has one of the two stated reasons**: when fewer than
    1 + MaxRetries calls were made (MaxRetries ≥ 1), the run ended by a success, by `ctx.Done()` in the `select`, or by the
    back-off reporting `Stop` (MaxElapsedTime); never silently -/
theorem gives_up_early_only_for_a_reason (cfg : Cfg) (h1 : 1 ≤ cfg.maxRetries) (sc : Script)
    (hlt : (retry cfg sc).attempts.length < 1 + cfg.maxRetries.toNat) :
    (retry cfg sc).why = .success ∨ (retry cfg sc).why = .ctxDone ∨ (retry cfg sc).why = .backoffStop := by
  have hfuel := never_out_of_fuel cfg sc
  cases hw : (retry cfg sc).why with
  | success => simp
  | ctxDone => simp
  | backoffStop => simp
  | outOfFuel => exact absurd hw hfuel
  | exhausted =>
    exfalso
    unfold retry at hlt hw
    cases he : sc.first.err with
    | none => simp [he] at hw
    | some e =>
      simp only [he, push_attempts, List.length_cons, push_why] at hlt hw
      have := loop_exhausted cfg sc (sc.firstDur + sc.resetLag) (fuelFor cfg)
        ⟨1, cfg.init, sc.firstDur + sc.resetLag, sc.first.outs, e⟩ (by simpa using h1) hw
      simp only [] at this
      omega

/-- `Stop` is reported only when MaxElapsedTime is configured -/
theorem backoff_stop_needs_max_elapsed (cfg : Cfg) (sc : Script) (h : (retry cfg sc).why = .backoffStop) :
    cfg.maxElapsed ≠ 0 := by
  intro hE
  have key : ∀ (fuel : Nat) (s : LoopSt) (t0 : Nat), (loop cfg sc t0 fuel s).why ≠ .backoffStop := by
    intro fuel
    induction fuel with
    | zero => intro s t0; simp [loop]
    | succ fuel ih =>
      intro s t0
      cases loop_cases cfg sc t0 fuel s with
      | stop hs hr => simp [stops, hE] at hs
      | ctx _ _ hr => simp [hr]
      | ok _ _ _ _ hr => simp [hr]
      | last _ _ _ _ _ _ hr => simp [hr]
      | again late e _ _ _ _ hr => rw [hr]; simpa using ih _ _
  unfold retry at h
  cases he : sc.first.err with
  | none => simp [he] at h
  | some e => simp only [he, push_why] at h; exact key _ _ _ h

example : (retry exCfg (exScript 2 fun _ => .timer 0)).attempts.length < 1 + exCfg.maxRetries.toNat ∧
    (retry exCfg (exScript 2 fun _ => .timer 0)).why = .success := by decide

/-! ### what is returned -/

/-- at least one call is made, and the returned error is always the error of the last call made -/
theorem result_is_last_attempts (cfg : Cfg) (sc : Script) :
    ∃ a, (retry cfg sc).attempts.getLast? = some a ∧ (retry cfg sc).err = a.out.err := by
  unfold retry
  cases he : sc.first.err with
  | none => simp [he]
  | some e =>
    simp only [push_attempts, push_err]
    have h := loop_err cfg sc (sc.firstDur + sc.resetLag) (fuelFor cfg) ⟨1, cfg.init, sc.firstDur + sc.resetLag, sc.first.outs, e⟩
    generalize loop cfg sc (sc.firstDur + sc.resetLag) (fuelFor cfg) ⟨1, cfg.init, sc.firstDur + sc.resetLag, sc.first.outs, e⟩ = L at *
    rw [h]
    unfold lastErr
    cases hl : L.attempts with
    | nil => simp [he]
    | cons b l =>
      simp only [List.getLast?_cons_cons]
      cases hb : (b :: l).getLast? with
      | none => simp at hb
      | some x => exact ⟨x, rfl, rfl⟩

/-- **finally returns the last error**: when no call succeeded, the error returned is the one of the last call -/
theorem last_error_returned (cfg : Cfg) (sc : Script) (hfail : ∀ a ∈ (retry cfg sc).attempts, a.out.err ≠ none) :
    ∃ a e, (retry cfg sc).attempts.getLast? = some a ∧ a.out.err = some e ∧ (retry cfg sc).err = some e := by
  obtain ⟨a, h1, h2⟩ := result_is_last_attempts cfg sc
  have hm : a ∈ (retry cfg sc).attempts := List.mem_of_getLast? h1
  cases he : a.out.err with
  | none => exact absurd he (hfail a hm)
  | some e => exact ⟨a, e, h1, he, by rw [h2, he]⟩

example : (retry exCfg (exScript 9 fun _ => .timer 0)).err = some 3 ∧ (retry exCfg (exScript 9 fun _ => .timer 0)).msgs = [] := by decide

/-- **never turns a failure into success**: a nil error is returned only if a call succeeded (the last one) -/
theorem never_invents_success (cfg : Cfg) (sc : Script) (h : (retry cfg sc).err = none) :
    ∃ a ∈ (retry cfg sc).attempts, a.out.err = none ∧ (retry cfg sc).msgs = a.out.outs := by
  obtain ⟨a, h1, h2⟩ := result_is_last_attempts cfg sc
  have hm : a ∈ (retry cfg sc).attempts := List.mem_of_getLast? h1
  have hok : a.out.err = none := by rw [← h2]; exact h
  obtain ⟨i, hi⟩ := List.getElem?_of_mem hm
  exact ⟨a, hm, hok, (first_success_wins cfg sc i a hi hok).2.2.1⟩

/-- the returned messages: `nil` when the retries are exhausted, otherwise the outputs of the last call -/
theorem returned_messages (cfg : Cfg) (sc : Script) :
    ∃ a, (retry cfg sc).attempts.getLast? = some a ∧
      (retry cfg sc).msgs = if (retry cfg sc).why = .exhausted then [] else a.out.outs := by
  unfold retry
  cases he : sc.first.err with
  | none => simp
  | some e =>
    simp only [push_attempts, push_msgs, push_why]
    have h := loop_msgs cfg sc (sc.firstDur + sc.resetLag) (fuelFor cfg) ⟨1, cfg.init, sc.firstDur + sc.resetLag, sc.first.outs, e⟩
    simp only [] at h
    have aux : ∀ (L : Run) (a0 : Attempt), L.msgs = (if L.why = .exhausted then [] else lastOuts a0.out.outs L.attempts) →
        ∃ a, (a0 :: L.attempts).getLast? = some a ∧ L.msgs = if L.why = .exhausted then [] else a.out.outs := by
      intro L a0 hL
      rw [hL]
      unfold lastOuts
      cases hl : L.attempts with
      | nil => simp
      | cons b l =>
        simp only [List.getLast?_cons_cons]
        cases hb : (b :: l).getLast? with
        | none => simp at hb
        | some x => exact ⟨x, rfl, rfl⟩
    exact aux _ ⟨0, sc.firstDur, sc.first⟩ h

/-! ### the hook -/

/-- **OnRetryHook is called with 1, 2, … in order**, once per failed retry -/
theorem hooks_in_order (cfg : Cfg) (sc : Script) (hh : cfg.hook = true) :
    (retry cfg sc).hooks.map (·.1) = List.range' 1 ((retry cfg sc).attempts.tail.filter failed).length := by
  unfold retry
  cases he : sc.first.err with
  | none => simp
  | some e =>
    simp only [push_hooks, push_attempts, List.tail_cons, List.nil_append]
    exact loop_hooks cfg sc _ hh _ _

theorem no_hook_calls_without_hook (cfg : Cfg) (sc : Script) (hh : cfg.hook = false) : (retry cfg sc).hooks = [] := by
  unfold retry
  cases he : sc.first.err with
  | none => simp
  | some e => simp [loop_no_hooks cfg sc _ hh]

example : (retry exCfg (exScript 9 fun _ => .timer 0)).hooks.map (·.1) = [1, 2, 3] := by decide

/-- the delay passed to hook call `n` is the wait computed in pass `n`, from the n-th interval -/
theorem hook_reports_wait (cfg : Cfg) (sc : Script) (n d : Nat) (h : (n, d) ∈ (retry cfg sc).hooks) :
    1 ≤ n ∧ d = randomized cfg (curAt cfg (n - 1)) (sc.iter n).draw := by
  unfold retry at h
  cases he : sc.first.err with
  | none => simp [he] at h
  | some e =>
    simp only [he, push_hooks, List.nil_append] at h
    exact loop_hook_delay cfg sc _ _ _ (by simp) (by simp [curAt]) n d h

/-! ### the back-off -/

/-- **closed form of the interval** (integer multiplier, InitialInterval ≤ MaxInterval): the interval used before the
    k-th retry (k = i + 1) is `min(InitialInterval · Multiplier^i, MaxInterval)` – derived from the library's update rule -/
theorem interval_closed_form (cfg : Cfg) (hq : cfg.mulD = 1) (hp : 1 ≤ cfg.mulN) (hi : cfg.init ≤ cfg.maxInt) (i : Nat) :
    curAt cfg i = min (cfg.init * cfg.mulN ^ i) cfg.maxInt :=
  curAt_int_mult cfg hq hp hi i

example : curAt ⟨8, 1000, 5000, 2, 1, 0, 1, 0, true⟩ 2 = 4000 ∧ curAt ⟨8, 1000, 5000, 2, 1, 0, 1, 0, true⟩ 3 = 5000 := by decide

/-- **closed form for a fractional multiplier** `p/q ≥ 1` (InitialInterval ≤ MaxInterval): the interval is
    `min(init·(p/q)^i, max)` up to the integer truncation the library performs in every step
    (`time.Duration(float64(cur) * mult)`); everything is scaled by `q^i`, `truncSlack cfg i / q^i < (p/q)^i / (p/q − 1)` ns -/
theorem interval_closed_form_frac (cfg : Cfg) (hq : 1 ≤ cfg.mulD) (hpq : cfg.mulD ≤ cfg.mulN) (hi : cfg.init ≤ cfg.maxInt) (i : Nat) :
    curAt cfg i * cfg.mulD ^ i ≤ min (cfg.init * cfg.mulN ^ i) (cfg.maxInt * cfg.mulD ^ i) ∧
    min (cfg.init * cfg.mulN ^ i) (cfg.maxInt * cfg.mulD ^ i) ≤ curAt cfg i * cfg.mulD ^ i + truncSlack cfg i := by
  refine ⟨?_, curAt_lower cfg hq hpq i⟩
  obtain ⟨h1, h2⟩ := curAt_upper cfg hi i
  exact Nat.le_min.mpr ⟨h1, Nat.mul_le_mul_right _ h2⟩

example : curAt exCfg 1 = 1500 ∧ curAt exCfg 2 = 2250 ∧ curAt exCfg 3 = 3000 ∧ truncSlack exCfg 2 = 10 := by decide

/-- **waits at least the back-off before the k-th retry** (k = i + 1): between the end of call i and the start of
    call i+1 at least ⌊cur_k · (1 − RandomizationFactor)⌋ passes, `cur_k = curAt cfg i` being the k-th interval -/
theorem wait_at_least_backoff (cfg : Cfg) (sc : Script) (i : Nat) (a b : Attempt)
    (ha : (retry cfg sc).attempts[i]? = some a) (hb : (retry cfg sc).attempts[i + 1]? = some b) :
    a.stop + lowEnd cfg (curAt cfg i) ≤ b.start ∧
    a.stop + randomized cfg (curAt cfg i) (sc.iter (i + 1)).draw ≤ b.start := by
  have key : a.stop + randomized cfg (curAt cfg i) (sc.iter (i + 1)).draw ≤ b.start := by
    unfold retry at ha hb
    cases he : sc.first.err with
    | none => simp [he] at hb
    | some e =>
      simp only [he, push_attempts, List.getElem?_cons_succ] at ha hb
      have ⟨g0, g1⟩ := loop_gaps cfg sc (sc.firstDur + sc.resetLag) (fuelFor cfg)
        ⟨1, cfg.init, sc.firstDur + sc.resetLag, sc.first.outs, e⟩ (by simp) (by simp [curAt])
      cases i with
      | zero =>
        simp at ha
        have := g0 b hb
        simp only [] at this
        rw [← ha]
        simp only [Nat.zero_add]
        simp at this
        omega
      | succ i =>
        simp only [List.getElem?_cons_succ] at ha
        have := g1 i a b ha hb
        simp only [] at this
        have e1 : 1 + i = i + 1 := by omega
        rw [e1] at this
        exact this
  exact ⟨by have := lowEnd_le_randomized cfg (curAt cfg i) (sc.iter (i + 1)).draw; omega, key⟩

example : (retry exCfg (exScript 9 fun _ => .timer 0)).attempts.map (fun a => (a.start, a.stop)) =
    [(0, 5), (1007, 1012), (2513, 2518), (4769, 4774)] := by decide

/-- **the property's own formula** (integer multiplier, InitialInterval ≤ MaxInterval): the time `g` between the end of
    call i and the start of call i+1 (the (i+1)-th retry) satisfies
    `g + 1 > min(InitialInterval · Multiplier^i, MaxInterval) · (1 − RandomizationFactor)` – the `+ 1` is the ns truncation of
    `getRandomValueFromInterval` -/
theorem wait_at_least_configured_backoff (cfg : Cfg) (sc : Script) (hq : cfg.mulD = 1) (hp : 1 ≤ cfg.mulN)
    (hi : cfg.init ≤ cfg.maxInt) (hb : 0 < cfg.rfD) (i g : Nat) (a b : Attempt)
    (ha : (retry cfg sc).attempts[i]? = some a) (hb' : (retry cfg sc).attempts[i + 1]? = some b) (hg : b.start = a.stop + g) :
    min (cfg.init * cfg.mulN ^ i) cfg.maxInt * (cfg.rfD - cfg.rfN) < (g + 1) * cfg.rfD := by
  have h1 := (wait_at_least_backoff cfg sc i a b ha hb').1
  rw [← interval_closed_form cfg hq hp hi i]
  unfold lowEnd at h1
  have h2 : curAt cfg i * (cfg.rfD - cfg.rfN) < curAt cfg i * (cfg.rfD - cfg.rfN) / cfg.rfD * cfg.rfD + cfg.rfD :=
    Nat.lt_div_mul_add hb
  have h3 : curAt cfg i * (cfg.rfD - cfg.rfN) / cfg.rfD * cfg.rfD ≤ g * cfg.rfD := Nat.mul_le_mul_right _ (by omega)
  rw [Nat.add_mul]
  omega

/-- the same for a fractional multiplier `p/q ≥ 1`, scaled by `q^i`, with the library's accumulated truncation `truncSlack` -/
theorem wait_at_least_configured_backoff_frac (cfg : Cfg) (sc : Script) (hq : 1 ≤ cfg.mulD) (hpq : cfg.mulD ≤ cfg.mulN)
    (hb : 0 < cfg.rfD) (i g : Nat) (a b : Attempt)
    (ha : (retry cfg sc).attempts[i]? = some a) (hb' : (retry cfg sc).attempts[i + 1]? = some b) (hg : b.start = a.stop + g) :
    min (cfg.init * cfg.mulN ^ i) (cfg.maxInt * cfg.mulD ^ i) * (cfg.rfD - cfg.rfN) <
      (g + 1) * cfg.mulD ^ i * cfg.rfD + truncSlack cfg i * cfg.rfD := by
  have h1 := (wait_at_least_backoff cfg sc i a b ha hb').1
  have hlow := curAt_lower cfg hq hpq i
  unfold lowEnd at h1
  generalize curAt cfg i = c at *
  generalize min (cfg.init * cfg.mulN ^ i) (cfg.maxInt * cfg.mulD ^ i) = m at *
  have hqi : 0 < cfg.mulD ^ i := Nat.pow_pos (by omega)
  generalize cfg.mulD ^ i = Q at *
  generalize truncSlack cfg i = S at *
  have h2 : c * (cfg.rfD - cfg.rfN) < c * (cfg.rfD - cfg.rfN) / cfg.rfD * cfg.rfD + cfg.rfD := Nat.lt_div_mul_add hb
  have h3 : c * (cfg.rfD - cfg.rfN) / cfg.rfD * cfg.rfD ≤ g * cfg.rfD := Nat.mul_le_mul_right _ (by omega)
  have hd : cfg.rfD - cfg.rfN ≤ cfg.rfD := Nat.sub_le _ _
  generalize cfg.rfD - cfg.rfN = d at *
  -- m·d ≤ (c·Q + S)·d = (c·d)·Q + S·d,  c·d < (g+1)·rfD
  have h4 : m * d ≤ (c * Q + S) * d := Nat.mul_le_mul_right _ hlow
  have h5 : c * d + 1 ≤ (g + 1) * cfg.rfD := by rw [Nat.add_mul]; omega
  have h6 : (c * d + 1) * Q ≤ (g + 1) * cfg.rfD * Q := Nat.mul_le_mul_right _ h5
  have e1 : (c * Q + S) * d = c * d * Q + S * d := by grind
  have e2 : (c * d + 1) * Q = c * d * Q + Q := by grind
  have e3 : (g + 1) * cfg.rfD * Q = (g + 1) * Q * cfg.rfD := by grind
  have h7 : S * d ≤ S * cfg.rfD := Nat.mul_le_mul_left _ hd
  rw [e1] at h4
  rw [e2, e3] at h6
  omega

/-- **the reported delay lies in the jitter interval** `[⌊cur_n(1−rf)⌋, ⌊cur_n(1+rf)⌋ + 1]` of the n-th interval
    (for draws in [0,1) and 0 ≤ rf ≤ 1) -/
theorem reported_delay_in_interval (cfg : Cfg) (sc : Script) (n d : Nat) (h : (n, d) ∈ (retry cfg sc).hooks)
    (hb : 0 < cfg.rfD) (hab : cfg.rfN ≤ cfg.rfD) (hd : (sc.iter n).draw < drawDen) :
    lowEnd cfg (curAt cfg (n - 1)) ≤ d ∧ d ≤ highEnd cfg (curAt cfg (n - 1)) := by
  obtain ⟨_, h2⟩ := hook_reports_wait cfg sc n d h
  rw [h2]
  exact ⟨lowEnd_le_randomized _ _ _, randomized_le_highEnd _ _ _ hb hab hd⟩

/-- the wait before retry n is at least the delay reported to the hook for retry n -/
theorem waited_reported_delay (cfg : Cfg) (sc : Script) (n d : Nat) (h : (n, d) ∈ (retry cfg sc).hooks) (a b : Attempt)
    (ha : (retry cfg sc).attempts[n - 1]? = some a) (hb : (retry cfg sc).attempts[n]? = some b) :
    a.stop + d ≤ b.start := by
  obtain ⟨h1, h2⟩ := hook_reports_wait cfg sc n d h
  have e : n = (n - 1) + 1 := by omega
  rw [e] at hb
  have := (wait_at_least_backoff cfg sc (n - 1) a b ha hb).2
  rw [← e] at this
  rw [h2]; exact this

/-! ### giving up early -/

/-- **gives up when the context ends**: if the `select` of pass k takes `ctx.Done()`, no call k or later is made … -/
theorem gives_up_on_ctx_end (cfg : Cfg) (sc : Script) (k : Nat) (hk : 1 ≤ k) (hp : (sc.iter k).pick = .ctxDone) :
    (retry cfg sc).attempts.length ≤ k := by
  unfold retry
  cases he : sc.first.err with
  | none => simp; omega
  | some e =>
    have := loop_ctx cfg sc (sc.firstDur + sc.resetLag) (fuelFor cfg) ⟨1, cfg.init, sc.firstDur + sc.resetLag, sc.first.outs, e⟩ k hk hp
    simp only [push_attempts, List.length_cons]
    simp only [] at this
    omega

/-- … **still returning the error**: whenever `Retry` gives up (context done, back-off `Stop`, retries exhausted) the
    result is a non-nil error, the one of the last call -/
theorem gives_up_keeps_error (cfg : Cfg) (sc : Script) (h : (retry cfg sc).why ≠ .success) :
    ∃ a e, (retry cfg sc).attempts.getLast? = some a ∧ a.out.err = some e ∧ (retry cfg sc).err = some e := by
  apply last_error_returned
  intro a hm hok
  obtain ⟨i, hi⟩ := List.getElem?_of_mem hm
  exact h (first_success_wins cfg sc i a hi hok).2.2.2

example : (retry exCfg (exScript 9 fun k => if k = 2 then .ctxDone else .timer 0)).attempts.length = 2 ∧
    (retry exCfg (exScript 9 fun k => if k = 2 then .ctxDone else .timer 0)).err = some 1 ∧
    (retry exCfg (exScript 9 fun k => if k = 2 then .ctxDone else .timer 0)).why = .ctxDone := by decide

/-- **gives up when MaxElapsedTime has passed**: a retry (call i + 1) is made only if, when the previous call ended,
    at most MaxElapsedTime had passed since the back-off was started (`Reset`, `resetLag` after the end of call 0);
    i.e. no call is begun after the back-off reported `Stop` -/
theorem gives_up_on_elapsed (cfg : Cfg) (sc : Script) (hE : cfg.maxElapsed ≠ 0) (i : Nat) (a0 a b : Attempt)
    (h0 : (retry cfg sc).attempts[0]? = some a0)
    (ha : (retry cfg sc).attempts[i]? = some a) (hb : (retry cfg sc).attempts[i + 1]? = some b) :
    a.stop ≤ a0.stop + sc.resetLag + cfg.maxElapsed := by
  unfold retry at h0 ha hb
  cases he : sc.first.err with
  | none => simp [he] at hb
  | some e =>
    simp only [he, push_attempts, List.getElem?_cons_succ] at h0 ha hb
    simp at h0
    have ⟨g0, g1⟩ := loop_elapsed cfg sc (sc.firstDur + sc.resetLag) hE (fuelFor cfg)
      ⟨1, cfg.init, sc.firstDur + sc.resetLag, sc.first.outs, e⟩
    rw [← h0]
    simp only []
    cases i with
    | zero => simp at ha; rw [← ha]; simp only []; omega
    | succ i =>
      simp only [List.getElem?_cons_succ] at ha
      exact g1 i a b ha hb

/-- the same in quantities a caller can observe: the end of call i, the start of call 1 and the first reported delay -/
theorem gives_up_on_elapsed_observable (cfg : Cfg) (sc : Script) (hE : cfg.maxElapsed ≠ 0) (i : Nat) (a0 a1 a b : Attempt)
    (h0 : (retry cfg sc).attempts[0]? = some a0) (h1 : (retry cfg sc).attempts[1]? = some a1)
    (ha : (retry cfg sc).attempts[i]? = some a) (hb : (retry cfg sc).attempts[i + 1]? = some b) :
    a.stop + randomized cfg cfg.init (sc.iter 1).draw ≤ a1.start + cfg.maxElapsed := by
  have hel := gives_up_on_elapsed cfg sc hE i a0 a b h0 ha hb
  unfold retry at h0 h1
  cases he : sc.first.err with
  | none => simp [he] at h1
  | some e =>
    simp only [he, push_attempts, List.getElem?_cons_succ] at h0 h1
    simp at h0
    have ⟨g0, _⟩ := loop_gaps cfg sc (sc.firstDur + sc.resetLag) (fuelFor cfg)
      ⟨1, cfg.init, sc.firstDur + sc.resetLag, sc.first.outs, e⟩ (by simp) (by simp [curAt])
    have := g0 a1 h1
    simp [curAt] at this
    rw [← h0] at hel
    simp only [] at hel
    omega

/-- MaxElapsedTime 2000 ns; call 1 takes 5000 ns: the back-off reports `Stop` in pass 2 -/
example : (retry ⟨8, 100, 100, 1, 1, 0, 1, 2000, true⟩
      ⟨⟨[], some 0⟩, 5, 1, fun k => ⟨1, 0, .timer 0, if k = 1 then 5000 else 5, ⟨[], some k⟩⟩⟩).attempts.length = 2 ∧
    (retry ⟨8, 100, 100, 1, 1, 0, 1, 2000, true⟩
      ⟨⟨[], some 0⟩, 5, 1, fun k => ⟨1, 0, .timer 0, if k = 1 then 5000 else 5, ⟨[], some k⟩⟩⟩).why = .backoffStop ∧
    (retry ⟨8, 100, 100, 1, 1, 0, 1, 2000, true⟩
      ⟨⟨[], some 0⟩, 5, 1, fun k => ⟨1, 0, .timer 0, if k = 1 then 5000 else 5, ⟨[], some k⟩⟩⟩).err = some 1 := by decide

/-! ### the defect repaired by "Retry stops on backoff.Stop" (kept as a witness) -/

/-- the loop without the `Stop` check (`retryOld`) keeps calling the handler after MaxElapsedTime, with no wait,
    when the `select` takes the (already due) timer: here 9 calls and hook delays 0 where the repaired loop makes 2 -/
theorem old_retry_after_stop_witness :
    ∃ cfg sc, cfg.maxElapsed ≠ 0 ∧ (retryOld cfg sc).attempts.length = 9 ∧ (retry cfg sc).attempts.length = 2 ∧
      (retryOld cfg sc).hooks.map (·.2) = [100, 0, 0, 0, 0, 0, 0, 0] :=
  ⟨⟨8, 100, 100, 1, 1, 0, 1, 2000, true⟩,
   ⟨⟨[], some 0⟩, 5, 1, fun k => ⟨1, 0, .timer 0, if k = 1 then 5000 else 5, ⟨[], some k⟩⟩⟩, by decide⟩

end Wm.Retry
