/-
  Lock discipline of the GoChannel registry (model M_reg), for every reachable state – any number of Publish,
  Subscribe, Close calls and unsubscribe goroutines, every interleaving:
  * the subscribers RWMutex: a writer (Subscribe / unsubscribe inside its critical region) excludes every reader
    (Publish between RLock and RUnlock) and every other writer;
  * a topic mutex has at most one holder – Publish's persist+send and Subscribe's replay+register exclude each other.
  These are the atomicity facts the C11 argument (Props/C11.lean) and the never-panics theorem rest on.
-/
import WmModel.Lemmas.GcRegTl
import WmModel.Props.C05Reg
namespace Wm.GcReg
open Wm.Lts

theorem reach_rd (cfg : Cfg) : ∀ s, Reach (sys cfg) s → RdOk s :=
  inv_of_step (sys cfg) RdOk (rd_init cfg) (fun s a s' h ha => rd_step s a s' h ha)

theorem reach_wr (cfg : Cfg) : ∀ s, Reach (sys cfg) s → WrOk s :=
  inv_of_step' (sys cfg) WrOk (wr_init cfg) (fun s a s' hr h ha => wr_step s a s' (reach_w1 cfg s hr) h ha)

theorem reach_tl (cfg : Cfg) : ∀ s, Reach (sys cfg) s → TlOk s :=
  inv_of_step (sys cfg) TlOk (tl_init cfg) (fun s a s' h ha => tl_step s a s' h ha)

/-- **write lock excludes readers**: while a Subscribe or an unsubscribe goroutine is inside its critical region, no
    Publish is between `RLock` and `RUnlock` -/
theorem writer_excludes_readers (cfg : Cfg) (s : St) (h : Reach (sys cfg) s) (i j : Nat) (a b : Th)
    (hi : s.ths[i]? = some a) (hj : s.ths[j]? = some b) (ha : hasW a = true) : holdsR b = false := by
  have hheld := (reach_wr cfg s h).2.1 i a hi ha
  have hempty := (reach_wr cfg s h).1 hheld
  cases hb : holdsR b with
  | false => rfl
  | true =>
    have : j ∈ s.readers := ((reach_rd cfg s h).1 j).mpr ⟨b, hj, hb⟩
    rw [hempty] at this; cases this

/-- **one writer at a time** -/
theorem writers_exclusive (cfg : Cfg) (s : St) (h : Reach (sys cfg) s) (i j : Nat) (a b : Th)
    (hi : s.ths[i]? = some a) (hj : s.ths[j]? = some b) (ha : hasW a = true) (hb : hasW b = true) : i = j :=
  writer_unique cfg s h i j a b hi hj (holdsW_of_hasW a ha) (holdsW_of_hasW b hb)

/-- **a topic mutex has one holder**: two threads inside a critical region of the same topic are the same thread -/
theorem topic_mutex_exclusive (cfg : Cfg) (s : St) (h : Reach (sys cfg) s) (t i j : Nat) (a b : Th)
    (hi : s.ths[i]? = some a) (hj : s.ths[j]? = some b) (ha : holdsT t a = true) (hb : holdsT t b = true) : i = j := by
  obtain ⟨k5, k6⟩ := reach_tl cfg s h
  exact k6 t i j ((k5 t i).mpr ⟨a, hi, ha⟩) ((k5 t j).mpr ⟨b, hj, hb⟩)

/-- in particular: while a Publish is between persisting and its last send on topic `t`, no Subscribe is replaying
    or registering on `t`, and vice versa (the mechanism behind C11) -/
theorem publish_and_subscribe_regions_exclusive (cfg : Cfg) (s : St) (h : Reach (sys cfg) s) (t i j sid : Nat)
    (rest : List Nat) (pc : PPc) (ao : Option (Nat × Nat))
    (hi : s.ths[i]? = some (.pub t rest pc ao)) (hpc : holdsT t (.pub t rest pc ao) = true)
    (hj : s.ths[j]? = some (.sub t sid .register)) : False := by
  have := topic_mutex_exclusive cfg s h t i j _ _ hi hj hpc (by simp [holdsT])
  subst this
  rw [hi] at hj; cases hj

/-! non-vacuity: a state with a registered subscription and a Publish inside the critical region of its topic -/
example : ∃ s, exec (sys ⟨true, false⟩) (init ⟨true, false⟩)
    [.newSub 0, .step 0, .step 0, .step 0, .step 0, .step 0, .step 0, .newPub 0 [5, 6] none, .step 2, .step 2, .step 2, .step 2]
    = some s ∧ s.ths[2]? = some (.pub 0 [5, 6] .send none) ∧ s.tlocks = [(0, 2)] ∧ s.readers = [2] ∧ s.log = [(0, 5), (0, 6)] := by
  refine ⟨_, rfl, ?_, ?_, ?_, ?_⟩ <;> decide

end Wm.GcReg
