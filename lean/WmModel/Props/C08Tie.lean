/-
  C08 – generated tie: `handler.addHandlerContext`, the five `…FromCtx` accessors and the key constants extracted
  from the current message/router.go / router_context.go (`WmModel/Gen/RouteCtx.lean`, rewritten by the extractor on
  every run), interpreted by `WmModel/RouteGo.lean`, behave like the model's `addHandlerContext` / `Ctx.get`:
  every accessor reads, after `addHandlerContext`, the handler's corresponding field – for all handlers (empty
  fields included) and ALL previous contexts.  With the guarded statements the code had before fix 5846d09 the
  theorems below do not prove (an empty field would let the previous value through).
-/
import WmModel.RouteGo
import WmModel.Gen.RouteCtx
import WmModel.Props.C08
namespace Wm.RouteGo
open Wm.Route
set_option linter.unusedSimpArgs false

/-- the model's law, per key: after `addHandlerContext` accessor `a` reads the handler's field `a` -/
theorem model_ctx_law (h : HCfg) (c : Ctx) (a : Key) :
    (addHandlerContext h c).get a = modelField h a := by
  have := ctx_get h c
  cases a <;> simp [modelField, this]

/-- **tie**: the same law for the code as it stands in the source, from any Go context -/
theorem extracted_ctx_law (h : HCfg) (gc : GoCtx) (a : Key) :
    ∃ k, keyOfAcc Gen.ctxCode a = some k ∧
      (applySets h Gen.ctxCode.sets gc).lookup k = modelField h a := by
  cases a <;> refine ⟨_, rfl, ?_⟩ <;>
    simp [Gen.ctxCode, applySets, fldVal, modelField, GoCtx.lookup]

/-- the model context `c` describes the Go context `gc`: every accessor reads the model's value -/
def Describes (c : Ctx) (gc : GoCtx) : Prop :=
  ∀ a, ∃ k, keyOfAcc Gen.ctxCode a = some k ∧ gc.lookup k = c.get a

/-- **tie**: after `addHandlerContext` the source's context is described by the model's – from ANY pair of previous
    contexts, related or not (whatever was there is hidden) -/
theorem extracted_ctx_simulates_model (h : HCfg) (c : Ctx) (gc : GoCtx) :
    Describes (addHandlerContext h c) (applySets h Gen.ctxCode.sets gc) := by
  intro a
  rcases extracted_ctx_law h gc a with ⟨k, hk, hl⟩
  exact ⟨k, hk, by rw [hl, model_ctx_law]⟩

/-- the empty contexts are related (all five accessors exist and read `""`) -/
theorem extracted_ctx_describes_empty : Describes [] [] := by
  intro a
  cases a <;> exact ⟨_, rfl, rfl⟩

end Wm.RouteGo
