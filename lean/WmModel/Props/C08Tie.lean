/-
  C08 – generated tie: `handler.addHandlerContext`, the five `…FromCtx` accessors and the key constants extracted
  from the current message/router.go / router_context.go (`WmModel/Gen/RouteCtx.lean`, rewritten by the extractor on
  every run), interpreted by `WmModel/RouteGo.lean`, behave like the model's `addHandlerContext` / `Ctx.get`:
  every accessor reads, after `addHandlerContext`, the handler's corresponding field when that is non-empty and
  whatever it read before otherwise – for all handlers and all previous contexts.
-/
import WmModel.RouteGo
import WmModel.Gen.RouteCtx
import WmModel.Props.C08
namespace Wm.RouteGo
open Wm.Route
set_option linter.unusedSimpArgs false

/-- the model's law, per key -/
theorem model_ctx_law (h : HCfg) (c : Ctx) (a : Key) :
    (addHandlerContext h c).get a = pick (modelField h a) (c.get a) := by
  cases a <;> simp only [addHandlerContext, modelField, pick, get_setIf_same, get_setIf_other, ne_eq,
    not_false_eq_true, reduceCtorEq] <;> split <;> simp_all

/-- **tie**: the same law for the code as it stands in the source -/
theorem extracted_ctx_law (h : HCfg) (gc : GoCtx) (a : Key) :
    ∃ k, keyOfAcc Gen.ctxCode a = some k ∧
      (applySets h Gen.ctxCode.sets gc).lookup k = pick (modelField h a) (gc.lookup k) := by
  cases a <;> refine ⟨_, rfl, ?_⟩ <;>
    simp only [Gen.ctxCode, applySets, fldVal, modelField, pick] <;>
    by_cases h1 : h.name = "" <;> by_cases h2 : h.pubName = "" <;> by_cases h3 : h.subName = "" <;>
    by_cases h4 : h.subTopic = "" <;> by_cases h5 : h.pubTopic = "" <;>
    simp [h1, h2, h3, h4, h5, GoCtx.lookup]

/-- the model context `c` describes the Go context `gc`: every accessor reads the model's value -/
def Describes (c : Ctx) (gc : GoCtx) : Prop :=
  ∀ a, ∃ k, keyOfAcc Gen.ctxCode a = some k ∧ gc.lookup k = c.get a

/-- **tie**: `addHandlerContext` of the source simulates the model's, from any pair of related contexts -/
theorem extracted_ctx_simulates_model (h : HCfg) (c : Ctx) (gc : GoCtx) (hr : Describes c gc) :
    Describes (addHandlerContext h c) (applySets h Gen.ctxCode.sets gc) := by
  intro a
  rcases hr a with ⟨k, hk, hv⟩
  rcases extracted_ctx_law h gc a with ⟨k', hk', hl⟩
  have : k' = k := by rw [hk] at hk'; exact (Option.some.inj hk').symm
  subst this
  exact ⟨k', hk, by rw [hl, model_ctx_law, hv]⟩

/-- the empty contexts are related (all accessors exist and read `""`) -/
theorem extracted_ctx_describes_empty : Describes [] [] := by
  intro a
  cases a <;> exact ⟨_, rfl, rfl⟩

end Wm.RouteGo
