/-
  C05 / C07 – deadlock freedom of the GoChannel registry protocol (model M_reg), any number of concurrent Publish,
  Subscribe, Close calls and unsubscribe goroutines, every interleaving.
  "Something can move" (`Movable`) = some thread can take a step, or some sender goroutine can finish (a consumer's ack).
  A thread is `resting` when its call has returned, or it is an unsubscribe goroutine whose subscription is neither
  cancelled nor being closed (it waits for its own environment event).

  * `nonblocking_no_deadlock`: without BlockPublishUntilSubscriberAck no reachable state with an unfinished call is stuck –
    also with subscribers that publish from their receive loop, pending writers, Close.
  * `blocking_deadlock_needs_nested_publish`: with BlockPublishUntilSubscriberAck a stuck state must contain a nested
    Publish in progress (`reserved ≠ []`: a consumer that publishes before acking) – the exact shape of the recorded
    finding D11 (`blocking_deadlock_witness`); without one, an unfinished call always leaves something movable, where the
    only things Publish waits for are consumers' acks.
  * `closing_no_deadlock`: once Close has signalled, nothing is ever stuck (this is `close_never_stuck` for every thread).
-/
import WmModel.Lemmas.GcRegMov
import WmModel.Lemmas.GcRegNoWait
import WmModel.Props.C07Close
namespace Wm.GcReg
open Wm.Lts

theorem reach_nw (cfg : Cfg) : ∀ s, Reach (sys cfg) s → NoWaitOk s :=
  inv_of_step (sys cfg) NoWaitOk (nw_init cfg) (fun s a s' h ha => nw_step s a s' h ha)

theorem goal_of_unrested {G : Prop} (cfg : Cfg) (s : St) (h : Reach (sys cfg) s) (inj : Progress s → G) (hw : WaitG s G)
    (i : Nat) (th : Th) (hth : s.ths[i]? = some th) (hr : resting s th = false) : G :=
  mov_of_unrested s inj hw (reach_q cfg s h) (reach_rd cfg s h) (reach_tl cfg s h) (reach_w1 cfg s h) (reach_close cfg s h)
    (reach_wg cfg s h) i th hth hr

/-- **non-blocking mode never deadlocks**: whenever some call has not returned (or an unsubscribe goroutine has work to
    do), some thread can take a step – whatever consumers do -/
theorem nonblocking_no_deadlock (p : Bool) (s : St) (h : Reach (sys ⟨p, false⟩) s) (i : Nat) (th : Th)
    (hth : s.ths[i]? = some th) (hr : resting s th = false) : ∃ j, (act s (.step j)).isSome = true := by
  have hcfg := cfg_const _ s h
  have hnw := reach_nw _ s h (by rw [hcfg])
  refine goal_of_unrested _ s h (fun x => x) ?_ i th hth hr
  intro k t r d ao hk
  have := hnw k _ hk
  simp [isWait] at this

/-- **a blocking-mode deadlock needs a consumer that publishes before it acks**: while no nested Publish is in progress,
    an unfinished call always leaves a thread that can step or a sender that can finish (an ack the Publish waits for) -/
theorem blocking_deadlock_needs_nested_publish (cfg : Cfg) (s : St) (h : Reach (sys cfg) s) (hres : s.reserved = [])
    (i : Nat) (th : Th) (hth : s.ths[i]? = some th) (hr : resting s th = false) : Movable s :=
  goal_of_unrested cfg s h Or.inl (waitOk_of_no_reserved s hres) i th hth hr

/-- **once Close has signalled nothing is stuck**, nested publishes or not -/
theorem closing_no_deadlock (cfg : Cfg) (s : St) (h : Reach (sys cfg) s) (hc : s.closingSig = true)
    (i : Nat) (th : Th) (hth : s.ths[i]? = some th) (hr : resting s th = false) :
    ∃ j, (act s (.step j)).isSome = true := by
  refine goal_of_unrested cfg s h (fun x => x) ?_ i th hth hr
  intro k t r d ao hk
  exact ⟨k, by simp [act, hk, stepPub, hc]⟩

/-- the D11 state is stuck, has an unfinished Publish – and indeed a nested Publish in progress -/
theorem d11_has_nested_publish :
    ∃ s, exec (sys ⟨false, true⟩) (init ⟨false, true⟩) d11Run = some s ∧ s.reserved = [(0, 0)] ∧
      resting s (.pub 0 [] (.wait 0) none) = false ∧ someThreadEnabled s = false := by
  refine ⟨_, rfl, ?_, ?_, ?_⟩ <;> decide

end Wm.GcReg
