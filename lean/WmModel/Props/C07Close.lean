/-
  Termination of `GoChannel.Close` on the registry model M_reg (GcReg.lean) – any number of concurrent Publish,
  Subscribe, Close calls and unsubscribe goroutines, persistent or not, blocking or not, every interleaving:

  * `close_never_stuck`: in every reachable state in which some Close call has not returned, some thread can take a
    step (the closer itself, or a thread it transitively waits for: an unsubscribe goroutine on its way to
    `subscribersWg.Done()`, the writer that one queues behind, a reader that writer drains, the holder of a topic
    mutex that reader wants – a blocking Publish included, because `waitForAckFromSubscribers` gives up on `g.closing`).
  * `thread_steps_bounded`: threads cannot spin – in any run the number of thread steps is bounded by the credits of
    the calls made (6 + 2·batch per Publish, 12 per Subscribe incl. its unsubscribe goroutine, 2 per Close).
  * `after_close_returned`: once any Close call has returned, no unsubscribe goroutine is left, no Subscribe is mid-way,
    every subscription has been removed, the backlog is gone; Publish/Subscribe then fail (`after_close_errors`).
  * `close_terminates`: hence, from any reachable state, *every* schedule that keeps running enabled threads (no
    fairness needed, no further calls needed, no consumer needs to ack) stops after at most `phi s` steps, and where it
    stops every Close call has returned.
  Contrast: without Close the blocking deadlock D11 (`blocking_deadlock_witness`, Props/C05Reg.lean) is a reachable
  state where no thread can move – `close_never_stuck` shows a Close call always dissolves it.
-/
import WmModel.Lemmas.GcRegProg
import WmModel.Lemmas.GcRegMeasure
import WmModel.Props.C07Locks
import WmModel.Props.C11Reg
import WmModel.Lemmas.GcRegDone
import WmModel.Lemmas.GcRegSubLive
import WmModel.Lemmas.GcRegTd
namespace Wm.GcReg
open Wm.Lts

theorem reach_q (cfg : Cfg) : ∀ s, Reach (sys cfg) s → QOk s :=
  inv_of_step (sys cfg) QOk (q_init cfg) (fun s a s' h ha => q_step s a s' h ha)

/-- **Close is never stuck** -/
theorem close_never_stuck (cfg : Cfg) (s : St) (h : Reach (sys cfg) s) (i : Nat) (pc : CPc)
    (hi : s.ths[i]? = some (.closer pc)) (hpc : pc ≠ .ret) : ∃ j, (act s (.step j)).isSome = true :=
  closer_progress s (reach_q cfg s h) (reach_rd cfg s h) (reach_tl cfg s h) (reach_w1 cfg s h) (reach_close cfg s h)
    (reach_wg cfg s h) i pc hi hpc

theorem enabled_lt (s : St) (j : Nat) (h : (act s (.step j)).isSome = true) : j < s.ths.length := by
  cases hj : s.ths[j]? with
  | some th => exact (List.getElem?_eq_some_iff.mp hj).1
  | none => simp [act, hj] at h

/-- in a state where no thread can move every Close call has returned -/
theorem quiescent_closed (cfg : Cfg) (s : St) (h : Reach (sys cfg) s) (hq : someThreadEnabled s = false) (i : Nat)
    (pc : CPc) (hi : s.ths[i]? = some (.closer pc)) : pc = .ret := by
  cases hpc : pc with
  | ret => rfl
  | start | waitWg =>
    all_goals
      subst hpc
      obtain ⟨j, hj⟩ := close_never_stuck cfg s h i _ hi (by decide)
      have : someThreadEnabled s = true := by
        simp only [someThreadEnabled, List.any_eq_true, List.mem_range]
        exact ⟨j, enabled_lt s j hj, hj⟩
      rw [hq] at this; cases this

/-- **threads cannot spin**: in any run from the initial state, the number of thread steps is at most the sum of the
    credits of the calls made -/
theorem thread_steps_bounded (cfg : Cfg) (run : List Action) (s' : St)
    (he : exec (sys cfg) (init cfg) run = some s') :
    (run.filter isStep).length ≤ ((run.filter (fun a => !isStep a)).map credit).sum := by
  have := steps_bounded_credit_fn (sys cfg) phi isStep credit
    (fun s a s' hr ha hp => by
      cases a <;> simp [isStep] at hp
      exact phi_step s _ s' ha (registry_never_panics cfg s' (Reach.step hr ha)) (registry_never_panics cfg s hr))
    (fun s a s' _ ha hp => phi_env s a s' ha hp)
    run (init cfg) s' Reach.init he
  have h0 : phi (init cfg) = 0 := by simp [phi, init]
  omega

/-- **Close terminates**: from a reachable state, a run consisting of thread steps only has at most `phi s` steps
    (whatever the scheduler does), and when it cannot be extended every Close call has returned -/
theorem close_terminates (cfg : Cfg) (s : St) (h : Reach (sys cfg) s) (run : List Action) (s' : St)
    (hsteps : ∀ a, a ∈ run → isStep a = true) (he : exec (sys cfg) s run = some s') :
    run.length ≤ phi s ∧
    (someThreadEnabled s' = false → ∀ (i : Nat) (pc : CPc), s'.ths[i]? = some (.closer pc) → pc = .ret) := by
  refine ⟨?_, fun hq i pc hi => quiescent_closed cfg s' (reach_of_exec (sys cfg) h run he) hq i pc hi⟩
  have := steps_bounded_credit_fn (sys cfg) phi isStep credit
    (fun s a s' hr ha hp => by
      cases a <;> simp [isStep] at hp
      exact phi_step s _ s' ha (registry_never_panics cfg s' (Reach.step hr ha)) (registry_never_panics cfg s hr))
    (fun s a s' _ ha hp => phi_env s a s' ha hp)
    run s s' h he
  have h1 : run.filter isStep = run := List.filter_eq_self.mpr hsteps
  have h2 : run.filter (fun a => !isStep a) = [] := by
    apply List.filter_eq_nil_iff.mpr
    intro a ha; simp [hsteps a ha]
  rw [h1, h2] at this
  simp at this; omega

theorem reach_done (cfg : Cfg) : ∀ s, Reach (sys cfg) s → DoneOk s :=
  inv_of_step' (sys cfg) DoneOk (done_init cfg)
    (fun s a s' hr h ha => done_step s a s' (reach_close cfg s hr) h ha)

theorem reach_sublive (cfg : Cfg) : ∀ s, Reach (sys cfg) s → SubLive s :=
  inv_of_step' (sys cfg) SubLive (sl_init cfg)
    (fun s a s' hr h ha => sl_step s a s' (reach_live cfg s hr) (reach_aux cfg s hr) h ha)

/-- **after Close has returned** (any Close call, also a second or concurrent one): the Pub/Sub is closed, the backlog
    is dropped, `subscribersWg` is zero, no unsubscribe goroutine is left and no Subscribe call is mid-way, and every
    subscription has been closed and removed from the registry -/
theorem after_close_returned (cfg : Cfg) (s : St) (h : Reach (sys cfg) s) (i : Nat)
    (hi : s.ths[i]? = some (.closer .ret)) :
    s.closed = true ∧ s.closedLock = none ∧ s.logNil = true ∧ s.wg = 0 ∧
    (∀ (j : Nat) (th : Th), s.ths[j]? = some th → needsDone th = false) ∧ s.subs = [] := by
  have hclosed : s.closed = true := (reach_close cfg s h).1 i _ hi (by decide)
  have hlock : s.closedLock = none := (reach_done cfg s h).2 i hi
  have hnil : s.logNil = true := (reach_done cfg s h).1 hclosed hlock
  have hwg : s.wg = 0 := (reach_live cfg s h).2 hnil
  have hnd : ∀ (j : Nat) (th : Th), s.ths[j]? = some th → needsDone th = false := by
    intro j th hj
    have := reach_wg cfg s h
    unfold WgOk at this
    rw [hwg] at this
    have hz := List.countP_eq_zero.mp this.symm th (List.mem_of_getElem? hj)
    simpa using hz
  refine ⟨hclosed, hlock, hnil, hwg, hnd, ?_⟩
  cases hs : s.subs with
  | nil => rfl
  | cons x rest =>
    obtain ⟨sid, t⟩ := x
    obtain ⟨j, pc, hj, hpc⟩ := reach_sublive cfg s h sid t (by rw [hs]; exact List.mem_cons_self)
    have := hnd j _ hj
    cases pc <;> simp [needsDone] at this
    exact absurd rfl hpc

theorem reach_td (cfg : Cfg) : ∀ s, Reach (sys cfg) s → TdOk s :=
  inv_of_step (sys cfg) TdOk (td_init cfg) (fun s a s' h ha => td_step s a s' h ha)

/-- `subs` changes only in Subscribe's register step (grows) and in an unsubscribe goroutine's remove step -/
theorem subs_change (s : St) (a : Action) (s' : St) (ha : act s a = some s') (x : Nat × Nat) (hx : x ∈ s.subs)
    (hnx : x ∉ s'.subs) : ∃ i, a = .step i ∧ s.ths[i]? = some (Th.td x.2 x.1 .remove) := by
  cases a <;> simp only [act] at ha
  case newPub t msgs nested =>
    cases nested with
    | none => simp at ha; subst ha; exact absurd hx hnx
    | some p => simp only at ha; split at ha <;> simp at ha; subst ha; exact absurd hx hnx
  case newSub t => simp at ha; subst ha; exact absurd hx hnx
  case newClose => simp at ha; subst ha; exact absurd hx hnx
  case cancel sid => simp at ha; subst ha; exact absurd hx hnx
  case senderDone d sid => split at ha <;> simp at ha; subst ha; exact absurd hx hnx
  case step i =>
    split at ha
    · rename_i t rest pc ao _
      exfalso; apply hnx
      cases pc <;> simp only [stepPub] at ha <;> (repeat' split at ha) <;> simp at ha <;> subst ha <;>
        (try cases ao) <;> simp [setTh, finishSender] <;> exact hx
    · rename_i t sid pc _
      exfalso; apply hnx
      cases pc <;> simp only [stepSub] at ha <;> (repeat' split at ha) <;> simp at ha <;> subst ha <;>
        simp [setTh] <;> first | exact hx | exact Or.inl hx
    · rename_i t sid pc hth
      cases pc <;> simp only [stepTd] at ha
      case remove =>
        split at ha
        · split at ha
          · simp at ha; subst ha; exact absurd hx hnx
          · simp at ha; subst ha
            by_cases he : x = (sid, t)
            · subst he; exact ⟨i, rfl, hth⟩
            · exfalso; apply hnx; simp only [setTh]; exact (List.mem_erase_of_ne he).mpr hx
        · simp at ha; subst ha; exact absurd hx hnx
      all_goals
        exfalso; apply hnx
        (repeat' split at ha) <;> simp at ha <;> subst ha <;> simp [setTh] <;> exact hx
    · rename_i pc _
      exfalso; apply hnx
      cases pc <;> simp only [stepCloser] at ha <;> (repeat' split at ha) <;> simp at ha <;> subst ha <;> simp [setTh] <;> exact hx
    · simp at ha

/-- **cancelling one subscription leaves the others working**: a subscription is taken out of the registry only by its own
    unsubscribe goroutine, and that goroutine gets there only after this subscription's context was cancelled or the
    Pub/Sub is closing – never because some other subscription was cancelled -/
theorem removed_only_after_own_cancel_or_close (cfg : Cfg) (s : St) (h : Reach (sys cfg) s) (a : Action) (s' : St)
    (ha : act s a = some s') (sid t : Nat) (hx : (sid, t) ∈ s.subs) (hnx : (sid, t) ∉ s'.subs) :
    sid ∈ s.cancelled ∨ s.closingSig = true := by
  obtain ⟨i, _, hi⟩ := subs_change s a s' ha (sid, t) hx hnx
  exact reach_td cfg s h i t sid .remove hi (by decide)

/-- non-vacuity: the D11 deadlock state followed by a Close call – the run exists, Close returns, all stuck Publish
    calls return and the pending Subscribe completes -/
theorem close_dissolves_deadlock :
    ∃ s, exec (sys ⟨false, true⟩) (init ⟨false, true⟩)
      (d11Run ++ [.newClose, .step 5, .step 2, .step 2, .step 2, .step 3, .step 3, .step 3,
                  .step 1, .step 1, .step 1, .step 1, .step 1, .step 1,
                  .step 6, .step 6, .step 6, .step 6, .step 6, .step 6, .step 5]) = some s ∧
      s.ths[5]? = some (.closer .ret) ∧ s.ths[2]? = some (.pub 0 [] .retOk none) ∧
      s.ths[3]? = some (.sub 1 1 .retOk) ∧ s.subs = [] ∧ s.wg = 0 := by
  refine ⟨_, rfl, ?_, ?_, ?_, ?_, ?_⟩ <;> decide

end Wm.GcReg
