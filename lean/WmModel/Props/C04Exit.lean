/-
  C04/C05 – why a sender goroutine of a subscription ends (model M_sub), for every reachable state:
  a sender ends with `acked` only after a copy of *its* publication was put into the output channel, received by the
  consumer and acked; with `closing`/`closed` only when the subscription is closing/closed; and every publication's
  sender ends at most once.  Together with M_reg (`blocking_publish_waits`: a blocking Publish proceeds only when its
  dispatcher's senders are done or the Pub/Sub is closing) this is "Publish returns only after every subscription that was
  active for the message has Acked it (or that subscription or the Pub/Sub was closed)".
-/
import WmModel.Lemmas.GcSubExitStep
import WmModel.Props.C04
import WmModel.Props.C07Term
namespace Wm.GcSub
open Wm.Lts

theorem reach_exit (cap : Nat) : ∀ s, Reach (sys cap) s → ExitOk s :=
  inv_of_step' (sys cap) ExitOk (ex_init cap) (fun s a s' hr h ha => ex_step s a s' (reach_red cap s hr) h ha)

/-- **a sender that ended with "acked" delivered its message**: some copy of that publication was put into the
    output channel, received by the consumer, and acked -/
theorem acked_exit_means_delivered_and_acked (cap : Nat) (s : St) (h : Reach (sys cap) s) (p : Nat)
    (he : (p, Exit.acked) ∈ s.exits) :
    ∃ (c : Nat) (cp : Copy), s.copies[c]? = some cp ∧ cp.pub = p ∧ cp.delivered = true ∧ cp.received = true ∧
      cp.settle = .ack := by
  obtain ⟨c, cp, hc, hp, ha⟩ := (reach_exit cap s h).1 p he
  have ⟨k1, k2⟩ := (reach_copy cap s h).1 c cp hc
  have hr : cp.received = true := k2 (by rw [ha]; intro hx; cases hx)
  exact ⟨c, cp, hc, hp, k1 hr, hr, ha⟩

/-- a sender gives up without an ack only when the subscription is closing or closed -/
theorem unacked_exit_means_closing (cap : Nat) (s : St) (h : Reach (sys cap) s) (p : Nat) (r : Exit)
    (he : (p, r) ∈ s.exits) (hr : r ≠ .acked) : s.closing = true ∨ s.closed = true := by
  cases r with
  | acked => exact absurd rfl hr
  | closing => exact Or.inl ((reach_exit cap s h).2.1 p he)
  | closed => exact Or.inr ((reach_exit cap s h).2.2.1 p he)

/-- every publication's sender ends at most once, and is then neither queued nor holding the lock -/
theorem sender_exits_once (cap : Nat) (s : St) (h : Reach (sys cap) s) :
    (s.exits.map (·.1)).Nodup ∧
    ∀ p r, (p, r) ∈ s.exits → p ∉ s.waiting ∧ ∀ pc c, s.holder ≠ .sender p pc c :=
  ⟨(reach_exit cap s h).2.2.2.2, fun p r he => ((reach_exit cap s h).2.2.2.1 p r he).2⟩

end Wm.GcSub
