/-
  C07/C05 – no livelock in a subscription: the senders and the teardown of M_sub take finitely many steps between
  environment actions (publishes arriving, consumer receiving/settling, cancel, Close).  Potential argument with
  credits (`Lts.steps_bounded_credit`): every internal step lowers the potential, an environment action raises it by
  at most 10.  Together with `close_progress` (some close step is always enabled) this gives: after cancel / Close the
  teardown of a subscription completes within a bounded number of its own steps, whatever the consumer does.
-/
import WmModel.Props.C07
import WmModel.Lemmas.GcSubCopy
namespace Wm.GcSub
open Wm.Lts

/-- steps of sender goroutines and of the unsubscribe goroutine (everything but the environment) -/
def internal : Action → Bool
  | .spawn | .recv | .settle _ _ | .cancel | .gClose => false
  | _ => true

def holderRank (s : St) : Nat :=
  match s.holder with
  | .free | .closer => 0
  | .sender _ .check _ => 5
  | .sender _ .top _ => 4
  | .sender _ .sendSel _ => 3
  | .sender _ .waitSettle c =>
    match s.copies[c]? with
    | some cp => if cp.settle = .nack then 5 else 2
    | none => 2

def tdRank : TdPc → Nat
  | .waiting => 3 | .wantLock => 2 | .locked => 1 | .done => 0

def potential (s : St) : Nat := 10 * s.waiting.length + holderRank s + tdRank s.td

theorem reach_copy (cap : Nat) : ∀ s, Reach (sys cap) s → CopyOk s :=
  inv_of_step' (sys cap) CopyOk (copy_init cap) (fun s a s' hr h ha => copy_step s a s' (reach_uns cap s hr) h ha)

/-- a copy the holder is about to send is unsettled (it was never received) -/
theorem cur_unsettled_at_sendSel (cap : Nat) (s : St) (hr : Reach (sys cap) s) (p c : Nat)
    (hh : s.holder = .sender p .sendSel c) : ∃ cp, s.copies[c]? = some cp ∧ cp.settle = .none := by
  obtain ⟨cp, hcp, hdel⟩ := (reach_uns cap s hr).1 p c hh
  have ⟨k1, k2⟩ := (reach_copy cap s hr).1 c cp hcp
  refine ⟨cp, hcp, ?_⟩
  cases hs : cp.settle with
  | none => rfl
  | ack => have := k1 (k2 (by rw [hs]; decide)); rw [hdel] at this; cases this
  | nack => have := k1 (k2 (by rw [hs]; decide)); rw [hdel] at this; cases this

theorem internal_step_decreases (cap : Nat) (s : St) (a : Action) (s' : St) (hr : Reach (sys cap) s)
    (ha : act s a = some s') (hi : internal a = true) : potential s' + 1 ≤ potential s := by
  have hc := reach_ctl cap s hr
  obtain ⟨_, h2, h3, h4, h5, h6⟩ := hc
  cases a <;> simp [internal] at hi <;> simp only [act] at ha
  case sLock k =>
    split at ha
    · rename_i p hfree hw
      simp at ha; subst ha
      have hlt : k < s.waiting.length := (List.getElem?_eq_some_iff.mp hw).1
      simp [potential, holderRank, hfree, List.length_eraseIdx, hlt]; omega
    · simp at ha
  case sCheck =>
    split at ha
    · rename_i p c hh
      split at ha <;> (simp at ha; subst ha; simp [potential, holderRank, hh, exitSender]; omega)
    · simp at ha
  case sTop =>
    split at ha
    · rename_i p c hh
      split at ha <;> (simp at ha; subst ha; simp [potential, holderRank, hh, exitSender]; omega)
    · simp at ha
  case sSend =>
    split at ha
    · rename_i p c hh
      -- the channel is not closed while a sender is past the check (control invariant)
      have hcc : s.chanClosed = false := by
        rw [h4]
        cases hx : s.closed with
        | false => rfl
        | true => have := h6 (h3.mp hx); simp [hh, pastCheck] at this
      obtain ⟨cp0, hcp0, hset0⟩ := cur_unsettled_at_sendSel cap s hr p c hh
      split at ha
      · simp [hcc] at ha; subst ha
        simp [potential, holderRank, hh, hcp0, hset0]; omega
      · split at ha
        · simp [hcc] at ha; subst ha
          simp [potential, holderRank, hh, hcp0, hset0]; omega
        · simp at ha
    · simp at ha
  case sSendClosing =>
    split at ha
    · rename_i p c hh
      split at ha
      · simp at ha; subst ha; simp [potential, holderRank, hh, exitSender]; omega
      · simp at ha
    · simp at ha
  case sObsAck =>
    split at ha
    · rename_i p c hh
      split at ha
      · rename_i cp hcp
        split at ha
        · simp at ha; subst ha; simp [potential, holderRank, hh, hcp, exitSender]; split <;> omega
        · simp at ha
      · simp at ha
    · simp at ha
  case sObsNack =>
    split at ha
    · rename_i p c hh
      split at ha
      · rename_i cp hcp
        split at ha
        · rename_i hn
          simp at ha; subst ha; simp [potential, holderRank, hh, hcp, hn]; omega
        · simp at ha
      · simp at ha
    · simp at ha
  case sObsClosing =>
    split at ha
    · rename_i p c hh
      split at ha
      · simp at ha; subst ha
        simp only [potential, holderRank, hh, exitSender]
        cases hcp : s.copies[c]? <;> simp <;> (try split) <;> omega
      · simp at ha
    · simp at ha
  case tdStart =>
    split at ha
    · rename_i hg
      have hcl : s.closing = false := by
        cases hx : s.closing with
        | false => rfl
        | true => exact absurd hg.1 (h2.mp hx)
      split at ha
      · simp at ha; subst ha; simp [potential, holderRank, tdRank, hg.1]
      · simp [hcl] at ha; subst ha; simp [potential, holderRank, tdRank, hg.1]
    · simp at ha
  case tdLock =>
    split at ha
    · rename_i htd
      split at ha
      · rename_i hfree
        simp at ha; subst ha; simp [potential, holderRank, tdRank, htd, hfree]
      · simp at ha
    · simp at ha
  case tdClose =>
    split at ha
    · rename_i htd
      have hcc : s.chanClosed = false := by
        rw [h4]
        cases hx : s.closed with
        | false => rfl
        | true => rw [h3.mp hx] at htd; cases htd
      have hcloser : s.holder = .closer := h5.mpr htd
      simp [hcc] at ha; subst ha; simp [potential, holderRank, tdRank, htd, hcloser]
    · simp at ha

theorem env_step_credit (s : St) (a : Action) (s' : St) (ha : act s a = some s') (hi : internal a = false) :
    potential s' ≤ potential s + 10 := by
  cases a <;> simp [internal] at hi <;> simp only [act] at ha
  case spawn => simp at ha; subst ha; simp [potential, holderRank]; omega
  case cancel => simp at ha; subst ha; simp [potential, holderRank]
  case gClose => simp at ha; subst ha; simp [potential, holderRank]
  case recv =>
    split at ha
    · simp at ha; subst ha
      simp only [potential, holderRank]
      cases hh : s.holder with
      | free => simp
      | closer => simp
      | sender p pc c =>
        cases pc <;> simp
        rw [List.getElem?_modify]
        cases hcp : s.copies[c]? <;> simp <;> (repeat' split) <;> simp_all <;> omega
    · simp at ha
  case settle c0 v =>
    split at ha
    · split at ha
      · simp at ha; subst ha
        simp only [potential, holderRank]
        cases hh : s.holder with
        | free => simp
        | closer => simp
        | sender p pc c =>
          cases pc <;> simp
          rw [List.getElem?_modify]
          cases hcp : s.copies[c]? <;> simp <;> (repeat' split) <;> omega
      · simp at ha
    · simp at ha

/-- **no livelock**: in every run of a subscription the number of steps taken by sender goroutines and by the
    teardown is at most 3 + 10 × the number of environment actions (arriving publishes, consumer receives and
    settlements, cancel, Close) -/
theorem internal_steps_bounded (cap : Nat) (run : List Action) (s' : St)
    (h : exec (sys cap) (init cap) run = some s') :
    (run.filter internal).length ≤ 3 + 10 * (run.filter (fun a => !internal a)).length := by
  have := steps_bounded_credit (sys cap) potential internal 10
    (fun s a s' hr ha hi => internal_step_decreases cap s a s' hr ha hi)
    (fun s a s' _ ha hi => env_step_credit s a s' ha hi)
    run (init cap) s' Reach.init h
  simp [potential, holderRank, tdRank, init] at this
  omega

end Wm.GcSub
