/-
  C19 – generated tie: the bodies of the closures of Timeout, InstantAck, Throttle.Middleware,
  DelayOnError.Middleware and of DelayOnError.applyDelay, extracted from the current Go source and
  interpreted (`WmModel/GoMw.lean`), equal the hand-written model for every wrapped handler, every message
  state and every configuration.  `WmModel/Gen/MwBody.lean` is rewritten by the extractor on every run.
-/
import WmModel.GoMw
import WmModel.Gen.MwBody
namespace Wm.GoMw
open Wm.Mw

theorem extracted_timeout_eq_model (e : Bool) (c : DelayCfg) (h : Handler) (st : St) :
    execW e c Gen.timeoutBody {} h st = some (timeout e h st) := by
  simp [Gen.timeoutBody, execW, runDefers, timeout]

theorem extracted_instantAck_eq_model (e : Bool) (c : DelayCfg) (h : Handler) (st : St) :
    execW e c Gen.instantAckBody {} h st = some (instantAck h st) := by
  simp [Gen.instantAckBody, execW, runDefers, instantAck]

theorem extracted_throttle_eq_model (e : Bool) (c : DelayCfg) (h : Handler) (st : St) :
    execW e c Gen.throttleBody {} h st = some (throttle h st) := by
  simp [Gen.throttleBody, execW, runDefers, throttle]

theorem extracted_delayMw_eq_model (e : Bool) (c : DelayCfg) (h : Handler) (st : St) :
    execW e c Gen.delayMwBody {} h st = some (delayOnError c h st) := by
  simp only [Gen.delayMwBody, execW, delayOnError]
  generalize h st = x
  obtain ⟨r, st'⟩ := x
  cases r with
  | panic v => simp [runDefers]
  | ret outs err => cases err <;> simp [execW, runDefers]

theorem extracted_applyDelay_eq_model (c : DelayCfg) (d : Delay) :
    execD c Gen.applyDelayBody d = some (applyDelay c d) := by
  cases d with
  | absent => simp [Gen.applyDelayBody, execD, execDs, execD1, applyDelay]
  | raw s => simp [Gen.applyDelayBody, execD, execDs, execD1, applyDelay]
  | ns n =>
    simp only [Gen.applyDelayBody, execD, execDs, execD1, applyDelay]
    by_cases hgt : n * c.num / c.den > c.max <;> simp [hgt, execDs, execD1]

end Wm.GoMw
