import WmModel.Lemmas.GcDecWg
import WmModel.Lemmas.GcDecCh
import WmModel.Lemmas.GcDecCl
namespace Wm.GcDec

def enabled (s : St) (j : Nat) : Prop := (act s (.step j)).isSome = true
def Progress (s : St) : Prop := ∃ j, enabled s j

/-- once the decorator is closing and the inner subscriber is closed, a pump can always move: it needs neither a
    consumer nor the inner subscriber -/
theorem pump_progress (s : St) (hc : s.closing = true) (hic : s.innerClosed = true) (hch : ChOk s) (hcl : ClOk s)
    (i k : Nat) (pc : PPc) (r f d : Nat) (hth : s.ths[i]? = some (Th.pump k pc r f d)) (hpc : pc ≠ PPc.done) :
    enabled s i := by
  cases pc with
  | done => exact absurd rfl hpc
  | recv =>
    have hk : k < s.ins.length := hch.2.1 i _ k hth rfl
    have hget : s.ins[k]? = some s.ins[k] := List.getElem?_eq_getElem hk
    have hclosed := hcl.2.2.2 hic s.ins[k] (List.getElem_mem hk)
    simp only [enabled, act, hth, stepPump, hget]
    split
    · simp
    · simp [hclosed]
  | send => simp [enabled, act, hth, stepPump, hc]
  | closeOut => simp only [enabled, act, hth, stepPump]; split <;> simp
  | wgDone => simp only [enabled, act, hth, stepPump]; split <;> simp

theorem owes_progress (s : St) (hc : s.closing = true) (hic : s.innerClosed = true) (hch : ChOk s) (hcl : ClOk s)
    (i : Nat) (th : Th) (hth : s.ths[i]? = some th) (ho : owes th = true) : enabled s i := by
  cases th with
  | closer pc => simp [owes] at ho
  | sub k pc =>
    cases pc <;> simp [owes] at ho
    · simp [enabled, act, hth, stepSub]
    · simp [enabled, act, hth, stepSub]
  | pump k pc r f d =>
    refine pump_progress s hc hic hch hcl i k pc r f d hth ?_
    intro hx; subst hx; simp [owes] at ho

/-- a Close call inside `subscribeWg.Wait()` returns from it, or a thread it waits for can move -/
theorem wait_progress (s : St) (hch : ChOk s) (hcl : ClOk s) (hwg : WgOk s)
    (j : Nat) (hj : s.ths[j]? = some (Th.closer .wait)) : Progress s := by
  have hc : s.closing = true := hcl.2.2.1 j _ hj rfl
  have hic : s.innerClosed = true := hcl.2.1 j _ hj rfl
  by_cases h0 : s.wg = 0
  · exact ⟨j, by simp [enabled, act, hj, stepCloser, h0]⟩
  · unfold WgOk at hwg
    have hpos : 0 < s.ths.countP owes := by omega
    obtain ⟨th, hm, ho⟩ := List.countP_pos_iff.mp hpos
    obtain ⟨i, hi⟩ := List.getElem?_of_mem hm
    exact ⟨i, owes_progress s hc hic hch hcl i th hi ho⟩

/-- **a Close call that has not returned is never stuck** -/
theorem closer_progress (s : St) (hlk : LkOk s) (hch : ChOk s) (hcl : ClOk s) (hwg : WgOk s)
    (i : Nat) (pc : CPc) (hth : s.ths[i]? = some (Th.closer pc)) (hpc : pc ≠ CPc.ret) : Progress s := by
  cases pc with
  | ret => exact absurd rfl hpc
  | inner => exact ⟨i, by simp [enabled, act, hth, stepCloser]⟩
  | once => exact ⟨i, by simp only [enabled, act, hth, stepCloser]; (repeat' split) <;> simp⟩
  | unlock => exact ⟨i, by simp [enabled, act, hth, stepCloser]⟩
  | wait => exact wait_progress s hch hcl hwg i hth
  | lock =>
    cases hl : s.wgLock with
    | none => exact ⟨i, by simp [enabled, act, hth, stepCloser, hl]⟩
    | some h =>
      obtain ⟨th, hh, hhl⟩ := hlk.2 h hl
      cases th with
      | pump _ _ _ _ _ => simp [holdsL] at hhl
      | sub k pc' =>
        cases pc' <;> simp [holdsL] at hhl
        · exact ⟨h, by simp only [enabled, act, hh, stepSub]; split <;> simp⟩
        · exact ⟨h, by simp [enabled, act, hh, stepSub]⟩
      | closer pc' =>
        cases pc' <;> simp [holdsL] at hhl
        · exact wait_progress s hch hcl hwg h hh
        · exact ⟨h, by simp [enabled, act, hh, stepCloser]⟩

end Wm.GcDec
