import WmModel.Lemmas.GcProdProj
import WmModel.Lemmas.GcRegC11
namespace Wm.GcProd
open Wm Wm.Lts

/-- the bookkeeping that ties the two components together -/
structure LinkOk (me : Nat) (s : St) : Prop where
  /-- the M_sub instance exists exactly from the moment id `me` has been handed out -/
  created : s.sub.isSome = true ↔ me < s.reg.nextSid
  /-- the senders started for `me` are the publications 0, 1, 2, … of its M_sub instance, in order -/
  pubs : ∀ q, s.sub = some q → s.snd.map (·.2.2) = List.range q.nextPub
  /-- … and carry the messages of M_reg's ghost list `started`, in order -/
  msgs : s.snd.map (·.2.1) = GcReg.sentTo s.reg me
  /-- a dispatcher has stopped waiting for `me` only after that sender ended in M_sub -/
  pending : ∀ q, s.sub = some q → ∀ d m p, (some d, m, p) ∈ s.snd → me ∈ (s.reg.disp[d]?.getD []) ∨ exited q p = true
  dlt : ∀ d m p, (some d, m, p) ∈ s.snd → d < s.reg.disp.length
  empty : s.sub = none → s.snd = []
  duniq : ∀ d m p m' p', (some d, m, p) ∈ s.snd → (some d, m', p') ∈ s.snd → p = p'

theorem link_init (me : Nat) (cfg : GcReg.Cfg) : LinkOk me (init cfg) := by
  constructor <;> simp [init, GcReg.init, GcReg.sentTo]

/-- M_sub actions other than `spawn` keep the publication counter; sender exits only accumulate -/
theorem sub_keeps (q q' : GcSub.St) (a : GcSub.Action) (ha : a ≠ .spawn) (h : GcSub.act q a = some q') :
    q'.nextPub = q.nextPub ∧ ∀ p, exited q p = true → exited q' p = true := by
  have ex : ∀ (p0 : Nat) (r : GcSub.Exit) (p : Nat), exited q p = true → exited (GcSub.exitSender q p0 r) p = true := by
    intro p0 r p hp
    simp only [exited, GcSub.exitSender, List.any_append, Bool.or_eq_true]
    exact Or.inl hp
  cases a <;> simp only [GcSub.act] at h
  case spawn => exact absurd rfl ha
  all_goals
    (repeat' split at h) <;> (try (simp at h)) <;> (try (subst h)) <;>
      first
      | exact ⟨rfl, fun p hp => hp⟩
      | exact ⟨rfl, ex _ _⟩

end Wm.GcProd

namespace Wm.GcProd
open Wm Wm.Lts

theorem exited_spawn (q : GcSub.St) (p : Nat) : exited (spawnSt q) p = exited q p := rfl

/-- starting `msgs.length` replay senders -/
theorem foldl_spawn_some (msgs : List Nat) (q : GcSub.St) (snd : Snd) :
    ∃ q' snd', msgs.foldl (spawn1 none) (some q, snd) = (some q', snd') ∧
      q'.nextPub = q.nextPub + msgs.length ∧ q'.exits = q.exits ∧
      snd'.map (·.2.1) = snd.map (·.2.1) ++ msgs ∧
      snd'.map (·.2.2) = snd.map (·.2.2) ++ (List.range' q.nextPub msgs.length) ∧
      (∀ d m p, (some d, m, p) ∈ snd' → (some d, m, p) ∈ snd) ∧ (∀ e, e ∈ snd → e ∈ snd') := by
  induction msgs generalizing q snd with
  | nil => exact ⟨q, snd, rfl, by simp, rfl, by simp, by simp, fun _ _ _ h => h, fun _ h => h⟩
  | cons m rest ih =>
    simp only [List.foldl, spawn1]
    obtain ⟨q', snd', h1, h2, h3, h4, h5, h6, h7⟩ := ih (spawnSt q) (snd ++ [(none, m, q.nextPub)])
    refine ⟨q', snd', h1, ?_, ?_, ?_, ?_, ?_, ?_⟩
    · rw [h2]; simp [spawnSt]; omega
    · rw [h3]; rfl
    · rw [h4]; simp
    · rw [h5]; simp [spawnSt, List.range'_succ]
    · intro d m' p hm
      have := h6 d m' p hm
      simp only [List.mem_append, List.mem_singleton, Prod.mk.injEq] at this
      rcases this with h | ⟨h, _⟩
      · exact h
      · cases h
    · intro e he; exact h7 e (List.mem_append_left _ he)

end Wm.GcProd

namespace Wm.GcProd
open Wm Wm.Lts

/-- nothing that the link depends on changes, except that M_sub may have moved without starting senders -/
theorem link_frame (me : Nat) (s s' : St) (h : LinkOk me s)
    (hn : s'.reg.nextSid = s.reg.nextSid) (hst : s'.reg.started = s.reg.started) (hd : s'.reg.disp = s.reg.disp)
    (hsnd : s'.snd = s.snd)
    (hnone : s.sub = none → s'.sub = none)
    (hsome : ∀ q, s.sub = some q → ∃ q', s'.sub = some q' ∧ q'.nextPub = q.nextPub ∧ ∀ p, exited q p = true → exited q' p = true) :
    LinkOk me s' := by
  have hsent : GcReg.sentTo s'.reg me = GcReg.sentTo s.reg me := by simp [GcReg.sentTo, hst]
  have back : ∀ q', s'.sub = some q' → ∃ q, s.sub = some q ∧ q'.nextPub = q.nextPub ∧ ∀ p, exited q p = true → exited q' p = true := by
    intro q' hq'
    cases hs : s.sub with
    | none => rw [hnone hs] at hq'; cases hq'
    | some q =>
      obtain ⟨q2, h1, h2, h3⟩ := hsome q hs
      rw [h1] at hq'; injection hq' with hq'; subst hq'
      exact ⟨q, rfl, h2, h3⟩
  constructor
  · rw [hn, ← h.created]
    cases hs : s.sub with
    | none => rw [hnone hs]
    | some q => obtain ⟨q', h1, _⟩ := hsome q hs; rw [h1]; simp
  · intro q' hq'
    obtain ⟨q, hq, h2, _⟩ := back q' hq'
    rw [hsnd, h2]; exact h.pubs q hq
  · rw [hsnd, hsent]; exact h.msgs
  · intro q' hq' d m p hm
    obtain ⟨q, hq, _, h3⟩ := back q' hq'
    rw [hsnd] at hm; rw [hd]
    rcases h.pending q hq d m p hm with h1 | h1
    · exact Or.inl h1
    · exact Or.inr (h3 p h1)
  · intro d m p hm; rw [hsnd] at hm; rw [hd]; exact h.dlt d m p hm
  · intro hs'
    rw [hsnd]
    cases hs : s.sub with
    | none => exact h.empty hs
    | some q => obtain ⟨q', h1, _⟩ := hsome q hs; rw [h1] at hs'; cases hs'
  · intro d m p m' p' h1 h2; rw [hsnd] at h1 h2; exact h.duniq d m p m' p' h1 h2

end Wm.GcProd

namespace Wm.GcProd
open Wm Wm.Lts

theorem getD_append_left (l : List (List Nat)) (x : List Nat) (d : Nat) (h : d < l.length) :
    (l ++ [x])[d]?.getD [] = l[d]?.getD [] := by
  rw [List.getElem?_append_left h]

/-- `sendMessage` for the head of a batch: a dispatcher with the snapshot, one sender per registered subscriber -/
theorem link_send (me : Nat) (s s' : St) (t m : Nat) (h : LinkOk me s) (haux : GcReg.AuxOk s.reg)
    (hn : s'.reg.nextSid = s.reg.nextSid)
    (hst : s'.reg.started = s.reg.started ++ (GcReg.subsOf s.reg t).map (fun sid => (sid, m)))
    (hd : s'.reg.disp = s.reg.disp ++ [GcReg.subsOf s.reg t])
    (hx : (s'.sub, s'.snd) = if (GcReg.subsOf s.reg t).contains me then spawn1 (some s.reg.disp.length) (s.sub, s.snd) m
                             else (s.sub, s.snd)) : LinkOk me s' := by
  have hnd := GcReg.subsOf_nodup s.reg t haux.2.2.2.2
  have hsent : GcReg.sentTo s'.reg me = GcReg.sentTo s.reg me ++ (if me ∈ GcReg.subsOf s.reg t then [m] else []) := by
    rw [GcReg.sentTo_eq, GcReg.sentTo_eq, hst, GcReg.projL_append, GcReg.projL_snapshot _ _ _ hnd]
  by_cases hin : me ∈ GcReg.subsOf s.reg t
  · have hc : (GcReg.subsOf s.reg t).contains me = true := by simpa using hin
    rw [if_pos hc] at hx
    -- registered ⇒ its id was handed out ⇒ the M_sub instance exists
    have hreg : (me, t) ∈ s.reg.subs := (GcReg.mem_subsOf s.reg t me).mp hin
    have hlt : me < s.reg.nextSid := haux.1 me t hreg
    cases hs : s.sub with
    | none => have := h.created.mpr hlt; rw [hs] at this; cases this
    | some q =>
      simp only [spawn1, hs] at hx
      injection hx with hx1 hx2
      constructor
      · rw [hn, hx1]; simp [hlt]
      · intro q' hq'
        rw [hx1] at hq'; injection hq' with hq'; subst hq'
        rw [hx2, List.map_append, h.pubs q hs]
        simp [spawnSt, List.range_succ]
      · rw [hx2, List.map_append, h.msgs, hsent, if_pos hin]; rfl
      · intro q' hq' d m' p hm
        rw [hx1] at hq'; injection hq' with hq'; subst hq'
        rw [hx2] at hm; rw [hd]
        simp only [List.mem_append, List.mem_singleton, Prod.mk.injEq] at hm
        rcases hm with hm | ⟨e1, _, _⟩
        · have hdl := h.dlt d m' p hm
          rw [getD_append_left _ _ _ hdl]
          rcases h.pending q hs d m' p hm with h1 | h1
          · exact Or.inl h1
          · exact Or.inr (by rw [exited_spawn]; exact h1)
        · injection e1 with e1; subst e1
          left
          rw [List.getElem?_append_right (Nat.le_refl _)]; simpa using hin
      · intro d m' p hm
        rw [hx2] at hm; rw [hd]
        simp only [List.mem_append, List.mem_singleton, Prod.mk.injEq] at hm
        rcases hm with hm | ⟨e1, _, _⟩
        · have := h.dlt d m' p hm; simp; omega
        · injection e1 with e1; subst e1; simp
      · intro hs'; rw [hx1] at hs'; cases hs'
      · intro d m1 p1 m2 p2 h1 h2
        rw [hx2] at h1 h2
        simp only [List.mem_append, List.mem_singleton, Prod.mk.injEq] at h1 h2
        rcases h1 with h1 | ⟨e1, _, e3⟩ <;> rcases h2 with h2 | ⟨f1, _, f3⟩
        · exact h.duniq d m1 p1 m2 p2 h1 h2
        · injection f1 with f1; subst f1
          exact absurd (h.dlt _ m1 p1 h1) (Nat.lt_irrefl _)
        · injection e1 with e1; subst e1
          exact absurd (h.dlt _ m2 p2 h2) (Nat.lt_irrefl _)
        · rw [e3, f3]
  · have hc : ¬ (GcReg.subsOf s.reg t).contains me = true := by simpa using hin
    rw [if_neg hc] at hx
    injection hx with hx1 hx2
    constructor
    · rw [hn, hx1]; exact h.created
    · intro q' hq'; rw [hx1] at hq'; rw [hx2]; exact h.pubs q' hq'
    · rw [hx2, h.msgs, hsent, if_neg hin]; simp
    · intro q' hq' d m' p hm
      rw [hx1] at hq'; rw [hx2] at hm; rw [hd]
      rw [getD_append_left _ _ _ (h.dlt d m' p hm)]
      exact h.pending q' hq' d m' p hm
    · intro d m' p hm; rw [hx2] at hm; rw [hd]; have := h.dlt d m' p hm; simp; omega
    · intro hs'; rw [hx1] at hs'; rw [hx2]; exact h.empty hs'
    · intro d m1 p1 m2 p2 h1 h2; rw [hx2] at h1 h2; exact h.duniq d m1 p1 m2 p2 h1 h2

/-- Subscribe creates the subscriber object: the id is handed out -/
theorem link_create (me cap : Nat) (s s' : St) (h : LinkOk me s)
    (hn : s'.reg.nextSid = s.reg.nextSid + 1) (hst : s'.reg.started = s.reg.started) (hd : s'.reg.disp = s.reg.disp)
    (hx : (s'.sub, s'.snd) = if s.reg.nextSid = me then
            (match s.sub with | none => (some (createSt cap s.reg), s.snd) | some _ => (s.sub, s.snd))
          else (s.sub, s.snd)) : LinkOk me s' := by
  have hsent : GcReg.sentTo s'.reg me = GcReg.sentTo s.reg me := by simp [GcReg.sentTo, hst]
  by_cases hme : s.reg.nextSid = me
  · rw [if_pos hme] at hx
    have hnone : s.sub = none := by
      cases hs : s.sub with
      | none => rfl
      | some q => have := h.created.mp (by rw [hs]; rfl); omega
    rw [hnone] at hx
    injection hx with hx1 hx2
    have hempty := h.empty hnone
    constructor
    · rw [hn, hx1]; simp; omega
    · intro q' hq'; rw [hx1] at hq'; injection hq' with hq'; subst hq'
      rw [hx2, hempty]; simp [createSt, GcSub.init]
    · rw [hx2, hsent]; exact h.msgs
    · intro q' _ d m p hm; rw [hx2, hempty] at hm; cases hm
    · intro d m p hm; rw [hx2, hempty] at hm; cases hm
    · intro hs'; rw [hx1] at hs'; cases hs'
    · intro d m1 p1 m2 p2 h1; rw [hx2, hempty] at h1; cases h1
  · rw [if_neg hme] at hx
    injection hx with hx1 hx2
    constructor
    · rw [hn, hx1, h.created]; constructor <;> intro hlt <;> omega
    · intro q' hq'; rw [hx1] at hq'; rw [hx2]; exact h.pubs q' hq'
    · rw [hx2, hsent]; exact h.msgs
    · intro q' hq' d m p hm; rw [hx1] at hq'; rw [hx2] at hm; rw [hd]; exact h.pending q' hq' d m p hm
    · intro d m p hm; rw [hx2] at hm; rw [hd]; exact h.dlt d m p hm
    · intro hs'; rw [hx1] at hs'; rw [hx2]; exact h.empty hs'
    · intro d m1 p1 m2 p2 h1 h2; rw [hx2] at h1 h2; exact h.duniq d m1 p1 m2 p2 h1 h2

end Wm.GcProd

namespace Wm.GcProd
open Wm Wm.Lts

/-- Subscribe's replay of the backlog and `addSubscriber` -/
theorem link_register (me : Nat) (s s' : St) (t sid : Nat) (h : LinkOk me s) (hsid : sid < s.reg.nextSid)
    (hn : s'.reg.nextSid = s.reg.nextSid) (hd : s'.reg.disp = s.reg.disp)
    (hst : s'.reg.started = s.reg.started ++
      (if s.reg.cfg.persistent && !s.reg.logNil then (s.reg.log.filter (fun e => e.1 == t)).map (fun tm => (sid, tm.2)) else []))
    (hx : (s'.sub, s'.snd) = if sid = me then
            (if s.reg.cfg.persistent && !s.reg.logNil then (s.reg.log.filter (fun e => e.1 == t)).map (·.2) else []).foldl
              (spawn1 none) (s.sub, s.snd)
          else (s.sub, s.snd)) : LinkOk me s' := by
  -- what `me` gets out of the replay
  have hsent : GcReg.sentTo s'.reg me = GcReg.sentTo s.reg me ++
      (if me = sid then (if s.reg.cfg.persistent && !s.reg.logNil then (s.reg.log.filter (fun e => e.1 == t)).map (·.2) else []) else []) := by
    rw [GcReg.sentTo_eq, GcReg.sentTo_eq, hst, GcReg.projL_append]
    congr 1
    by_cases hc : (s.reg.cfg.persistent && !s.reg.logNil) = true
    · simp only [hc, if_true]
      rw [GcReg.projL_replay]
      by_cases hms : me = sid <;> simp [hms, GcReg.projL]
    · simp only [hc]
      by_cases hms : me = sid <;> simp [hms, GcReg.projL]
  by_cases hme : sid = me
  · subst hme
    rw [if_pos rfl] at hx
    have hsome : s.sub.isSome = true := h.created.mpr hsid
    cases hs : s.sub with
    | none => rw [hs] at hsome; cases hsome
    | some q =>
      rw [hs] at hx
      obtain ⟨q', snd', h1, h2, h3, h4, h5, h6, h7⟩ := foldl_spawn_some
        (if s.reg.cfg.persistent && !s.reg.logNil then (s.reg.log.filter (fun e => e.1 == t)).map (·.2) else []) q s.snd
      rw [h1] at hx
      injection hx with hx1 hx2
      constructor
      · rw [hn, hx1]; simp [hsid]
      · intro q'' hq''
        rw [hx1] at hq''; injection hq'' with hq''; subst hq''
        rw [hx2, h5, h.pubs q hs, h2]
        rw [List.range_add, List.range'_eq_map_range]
      · rw [hx2, h4, h.msgs, hsent, if_pos rfl]
      · intro q'' hq'' d m p hm
        rw [hx1] at hq''; injection hq'' with hq''; subst hq''
        rw [hx2] at hm; rw [hd]
        rcases h.pending q hs d m p (h6 d m p hm) with h1' | h1'
        · exact Or.inl h1'
        · right; simp only [exited] at h1' ⊢; rw [h3]; exact h1'
      · intro d m p hm; rw [hx2] at hm; rw [hd]; exact h.dlt d m p (h6 d m p hm)
      · intro hs'; rw [hx1] at hs'; cases hs'
      · intro d m1 p1 m2 p2 e1 e2; rw [hx2] at e1 e2
        exact h.duniq d m1 p1 m2 p2 (h6 d m1 p1 e1) (h6 d m2 p2 e2)
  · rw [if_neg hme] at hx
    injection hx with hx1 hx2
    have hne : ¬ me = sid := fun hx => hme hx.symm
    constructor
    · rw [hn, hx1]; exact h.created
    · intro q' hq'; rw [hx1] at hq'; rw [hx2]; exact h.pubs q' hq'
    · rw [hx2, h.msgs, hsent, if_neg hne]; simp
    · intro q' hq' d m p hm; rw [hx1] at hq'; rw [hx2] at hm; rw [hd]; exact h.pending q' hq' d m p hm
    · intro d m p hm; rw [hx2] at hm; rw [hd]; exact h.dlt d m p hm
    · intro hs'; rw [hx1] at hs'; rw [hx2]; exact h.empty hs'
    · intro d m1 p1 m2 p2 h1 h2; rw [hx2] at h1 h2; exact h.duniq d m1 p1 m2 p2 h1 h2

/-- a dispatcher stops waiting for one sender -/
theorem link_senderDone (me : Nat) (s s' : St) (d sid : Nat) (h : LinkOk me s)
    (hn : s'.reg.nextSid = s.reg.nextSid) (hst : s'.reg.started = s.reg.started)
    (hd : s'.reg.disp = s.reg.disp.modify d (fun l => l.erase sid))
    (hsub : s'.sub = s.sub) (hsnd : s'.snd = s.snd)
    (hc : sid = me → ∃ q, s.sub = some q ∧ s.snd.any (fun e => e.1 == some d && exited q e.2.2) = true) : LinkOk me s' := by
  have hsent : GcReg.sentTo s'.reg me = GcReg.sentTo s.reg me := by simp [GcReg.sentTo, hst]
  constructor
  · rw [hn, hsub]; exact h.created
  · intro q' hq'; rw [hsub] at hq'; rw [hsnd]; exact h.pubs q' hq'
  · rw [hsnd, hsent]; exact h.msgs
  · intro q' hq' d' m p hm
    rw [hsub] at hq'; rw [hsnd] at hm; rw [hd]
    rcases h.pending q' hq' d' m p hm with h1 | h1
    · by_cases hdd : d' = d
      · subst hdd
        by_cases hss : sid = me
        · -- the sender that is reported done is this one (one entry per dispatcher), and it has ended in M_sub
          obtain ⟨q, hq, hany⟩ := hc hss
          rw [hq'] at hq; injection hq with hq; subst hq
          simp only [List.any_eq_true, Bool.and_eq_true, beq_iff_eq] at hany
          obtain ⟨⟨od, m2, p2⟩, hm2, hod, hex⟩ := hany
          simp at hod; subst hod
          have := h.duniq d' m p m2 p2 hm hm2
          subst this; exact Or.inr hex
        · left
          have hdl := h.dlt d' m p hm
          rw [List.getElem?_modify]
          have hget : s.reg.disp[d']? = some s.reg.disp[d'] := List.getElem?_eq_getElem hdl
          rw [hget] at h1 ⊢
          simp at h1 ⊢
          exact (List.mem_erase_of_ne (fun hx => hss hx.symm)).mpr h1
      · left
        rw [List.getElem?_modify]
        have : ¬ d = d' := fun hx => hdd hx.symm
        simp [this]; simpa using h1
    · exact Or.inr h1
  · intro d' m p hm; rw [hsnd] at hm; rw [hd]; simp; exact h.dlt d' m p hm
  · intro hs'; rw [hsub] at hs'; rw [hsnd]; exact h.empty hs'
  · intro d' m1 p1 m2 p2 h1 h2; rw [hsnd] at h1 h2; exact h.duniq d' m1 p1 m2 p2 h1 h2

end Wm.GcProd
