import WmModel.Lemmas.GcDecLk
namespace Wm.GcDec
open Wm.GcReg (get_set_cases get_append_cases set_get_of_ne append_get_of_get)

/-- thread accounts for one unit of `subscribeWg` -/
def owes : Th → Bool
  | .sub _ .unlock | .sub _ .spawn => true
  | .pump _ .done _ _ _ => false
  | .pump _ _ _ _ _ => true
  | _ => false

def WgOk (s : St) : Prop := s.wg = s.ths.countP owes

theorem wg_init : WgOk init := by simp [WgOk, init]

theorem countP_pos_of_get (l : List Th) (i : Nat) (th : Th) (h : l[i]? = some th) (hp : owes th = true) :
    0 < l.countP owes :=
  List.countP_pos_iff.mpr ⟨th, List.mem_of_getElem? h, hp⟩

theorem countP_set_get (l : List Th) (i : Nat) (old new : Th) (h : l[i]? = some old) :
    (l.set i new).countP owes + (if owes old = true then 1 else 0) =
      l.countP owes + (if owes new = true then 1 else 0) := by
  have hlt : i < l.length := (List.getElem?_eq_some_iff.mp h).1
  have hget : l[i] = old := (List.getElem?_eq_some_iff.mp h).2
  rw [List.countP_set hlt, hget]
  by_cases hx : owes old = true
  · have := countP_pos_of_get l i old h hx
    simp [hx]; omega
  · simp [hx]

theorem wg_set (s t : St) (i : Nat) (old new : Th) (hold : s.ths[i]? = some old) (hths : t.ths = s.ths.set i new)
    (hwg : t.wg + (if owes old = true then 1 else 0) = s.wg + (if owes new = true then 1 else 0))
    (h : WgOk s) : WgOk t := by
  unfold WgOk at *
  have := countP_set_get s.ths i old new hold
  rw [hths]; omega

theorem wg_append (s t : St) (new : Th) (hn : owes new = false) (hths : t.ths = s.ths ++ [new]) (hwg : t.wg = s.wg)
    (h : WgOk s) : WgOk t := by
  unfold WgOk at *
  rw [hths, List.countP_append, hwg, h]; simp [hn]

theorem wg_congr (s t : St) (h1 : t.ths = s.ths) (h2 : t.wg = s.wg) (h : WgOk s) : WgOk t := by
  unfold WgOk at *; rw [h1, h2]; exact h

theorem wg_step (s : St) (a : Action) (s' : St) (h : WgOk s) (ha : act s a = some s') : WgOk s' := by
  cases a <;> simp only [act] at ha
  case newSub => simp at ha; subst ha; exact wg_append s _ _ rfl rfl rfl h
  case newClose => simp at ha; subst ha; exact wg_append s _ _ rfl rfl rfl h
  case push k =>
    split at ha
    · split at ha <;> simp at ha; subst ha; exact wg_congr s _ rfl rfl h
    · simp at ha
  case inClose k =>
    split at ha
    · simp at ha; subst ha; exact wg_congr s _ rfl rfl h
    · simp at ha
  case deliver i =>
    split at ha
    · rename_i k r f d hth
      simp at ha; subst ha; exact wg_set s _ i _ _ hth rfl (by simp [owes, setTh]) h
    · simp at ha
  case subFail i =>
    split at ha
    · rename_i k hth
      simp at ha; subst ha; exact wg_set s _ i _ _ hth rfl (by simp [owes, setTh]) h
    · simp at ha
  case step i =>
    split at ha
    · rename_i k pc hth
      cases pc <;> simp only [stepSub] at ha
      case inner =>
        split at ha <;> (simp at ha; subst ha; exact wg_set s _ i _ _ hth rfl (by simp [owes, setTh]) h)
      case lock =>
        split at ha
        · simp at ha; subst ha; exact wg_set s _ i _ _ hth rfl (by simp [owes, setTh]) h
        · simp at ha
      case add =>
        split at ha
        · simp at ha; subst ha; exact wg_congr s _ rfl rfl h
        · simp at ha; subst ha; exact wg_set s _ i _ _ hth rfl (by simp [owes, setTh]) h
      case unlock => simp at ha; subst ha; exact wg_set s _ i _ _ hth rfl (by simp [owes, setTh]) h
      case spawn =>
        simp at ha; subst ha
        unfold WgOk at *
        have := countP_set_get s.ths i _ (Th.sub k .retOk) hth
        have e1 : owes (Th.sub k SPc.spawn) = true := rfl
        have e2 : owes (Th.sub k SPc.retOk) = false := rfl
        have e3 : owes (Th.pump k PPc.recv 0 0 0) = true := rfl
        rw [List.countP_append, List.countP_singleton, e3]
        rw [e1, e2] at this
        simp at this ⊢; omega
      case retOk => simp at ha
      case retErr => simp at ha
    · rename_i pc hth
      cases pc <;> simp only [stepCloser] at ha
      case inner => simp at ha; subst ha; exact wg_set s _ i _ _ hth rfl (by simp [owes, setTh]) h
      case once =>
        split at ha
        · simp at ha; subst ha; exact wg_set s _ i _ _ hth rfl (by simp [owes, setTh]) h
        · split at ha
          · simp at ha; subst ha; exact wg_congr s _ rfl rfl h
          · simp at ha; subst ha; exact wg_set s _ i _ _ hth rfl (by simp [owes, setTh]) h
      case lock =>
        split at ha
        · simp at ha; subst ha; exact wg_set s _ i _ _ hth rfl (by simp [owes, setTh]) h
        · simp at ha
      case wait =>
        split at ha
        · simp at ha; subst ha; exact wg_set s _ i _ _ hth rfl (by simp [owes, setTh]) h
        · simp at ha
      case unlock => simp at ha; subst ha; exact wg_set s _ i _ _ hth rfl (by simp [owes, setTh]) h
      case ret => simp at ha
    · rename_i k pc r f d hth
      cases pc <;> simp only [stepPump] at ha
      case recv =>
        split at ha
        · split at ha
          · simp at ha; subst ha; exact wg_set s _ i _ _ hth rfl (by simp [owes, setTh]) h
          · split at ha
            · simp at ha
            · simp at ha; subst ha; exact wg_set s _ i _ _ hth rfl (by simp [owes, setTh]) h
        · simp at ha
      case send =>
        split at ha
        · simp at ha; subst ha; exact wg_set s _ i _ _ hth rfl (by simp [owes, setTh]) h
        · simp at ha
      case closeOut =>
        split at ha
        · simp at ha; subst ha; exact wg_congr s _ rfl rfl h
        · simp at ha; subst ha; exact wg_set s _ i _ _ hth rfl (by simp [owes, setTh]) h
      case wgDone =>
        split at ha
        · simp at ha; subst ha; exact wg_congr s _ rfl rfl h
        · rename_i hz
          simp at ha; subst ha; exact wg_set s _ i _ _ hth rfl (by simp [owes, setTh]; omega) h
      case done => simp at ha
    · simp at ha

end Wm.GcDec
