import WmModel.Lemmas.GcSubCtl
namespace Wm.GcSub
open Wm.Ack (Sent)

/-- all copies of publication `p` are nacked -/
def AllNacked (cs : List Copy) (p : Nat) : Prop :=
  ∀ (i : Nat) (ci : Copy), cs[i]? = some ci → ci.pub = p → ci.settle = .nack

/-- the invariant behind "a subscription sees a published message again only after it nacked the previous delivery" -/
def RedOk (s : St) : Prop :=
  -- of two copies of one publication the earlier one is nacked
  (∀ (i j : Nat) (ci cj : Copy), i < j → s.copies[i]? = some ci → s.copies[j]? = some cj → ci.pub = cj.pub → ci.settle = .nack) ∧
  -- the lock holder: before it creates a copy all earlier copies of its publication are nacked;
  -- afterwards its current copy is the newest copy and belongs to its publication
  (∀ p pc c, s.holder = .sender p pc c →
      p < s.nextPub ∧ p ∉ s.waiting ∧
      ((pc = .check ∨ pc = .top) → AllNacked s.copies p) ∧
      ((pc = .sendSel ∨ pc = .waitSettle) → c + 1 = s.copies.length ∧ ∃ cp, s.copies[c]? = some cp ∧ cp.pub = p)) ∧
  -- queued publications are fresh
  (∀ p, p ∈ s.waiting → p < s.nextPub ∧ ∀ (i : Nat) (ci : Copy), s.copies[i]? = some ci → ci.pub ≠ p) ∧
  s.waiting.Nodup ∧
  (∀ (i : Nat) (ci : Copy), s.copies[i]? = some ci → ci.pub < s.nextPub)

theorem red_init (cap : Nat) : RedOk (init cap) := by
  simp [RedOk, init]

/-- `modify` with a function that keeps `pub` and never turns a nack into something else -/
theorem red_modify (cs : List Copy) (c0 : Nat) (f : Copy → Copy)
    (hf : ∀ cp, (f cp).pub = cp.pub ∧ (cp.settle = .nack → (f cp).settle = .nack)) :
    ∀ (i : Nat) (ci : Copy), (cs.modify c0 f)[i]? = some ci → ∃ ci0, cs[i]? = some ci0 ∧ ci.pub = ci0.pub ∧ (ci0.settle = .nack → ci.settle = .nack) := by
  intro i ci h
  rw [List.getElem?_modify] at h
  cases hcs : cs[i]? with
  | none => simp [hcs] at h
  | some ci0 =>
    simp [hcs] at h
    subst h
    refine ⟨ci0, rfl, ?_, ?_⟩ <;> split <;> simp_all

theorem redOk_modify (s : St) (c0 : Nat) (f : Copy → Copy)
    (hf : ∀ cp, (f cp).pub = cp.pub ∧ (cp.settle = .nack → (f cp).settle = .nack))
    (t : St) (hc : t.copies = s.copies.modify c0 f) (hh : t.holder = s.holder) (hw : t.waiting = s.waiting)
    (hn : t.nextPub = s.nextPub) (h : RedOk s) : RedOk t := by
  obtain ⟨r1, r2, r3, r4, r5⟩ := h
  have key := red_modify s.copies c0 f hf
  unfold RedOk
  rw [hc, hh, hw, hn]
  refine ⟨?_, ?_, ?_, r4, ?_⟩
  · intro i j ci cj hij hi hj hp
    obtain ⟨ci0, hi0, hpi, hni⟩ := key i ci hi
    obtain ⟨cj0, hj0, hpj, _⟩ := key j cj hj
    exact hni (r1 i j ci0 cj0 hij hi0 hj0 (by rw [← hpi, ← hpj]; exact hp))
  · intro p pc c hhold
    obtain ⟨a1, a2, a3, a4⟩ := r2 p pc c hhold
    refine ⟨a1, a2, ?_, ?_⟩
    · intro hpc i ci hi hp
      obtain ⟨ci0, hi0, hpi, hni⟩ := key i ci hi
      exact hni (a3 hpc i ci0 hi0 (by rw [← hpi]; exact hp))
    · intro hpc
      obtain ⟨b1, cp, b2, b3⟩ := a4 hpc
      refine ⟨by rw [List.length_modify]; exact b1, ?_⟩
      rw [List.getElem?_modify, b2]
      refine ⟨_, rfl, ?_⟩
      simp only [Option.map_eq_map, Option.map_some]
      split <;> simp [hf, b3]
  · intro p hp
    obtain ⟨a1, a2⟩ := r3 p hp
    refine ⟨a1, ?_⟩
    intro i ci hi
    obtain ⟨ci0, hi0, hpi, _⟩ := key i ci hi
    rw [hpi]; exact a2 i ci0 hi0
  · intro i ci hi
    obtain ⟨ci0, hi0, hpi, _⟩ := key i ci hi
    rw [hpi]; exact r5 i ci0 hi0

theorem redOk_congr (s t : St) (hc : t.copies = s.copies) (hh : t.holder = s.holder) (hw : t.waiting = s.waiting)
    (hn : t.nextPub = s.nextPub) (h : RedOk s) : RedOk t := by
  unfold RedOk at *
  rw [hc, hh, hw, hn]; exact h

/-- the holder leaves: only the clause about the holder changes (and becomes vacuous) -/
theorem redOk_exit (s : St) (p : Nat) (r : Exit) (h : RedOk s) : RedOk (exitSender s p r) := by
  obtain ⟨r1, _, r3, r4, r5⟩ := h
  exact ⟨r1, by intro p' pc c hh; simp [exitSender] at hh, r3, r4, r5⟩

end Wm.GcSub
