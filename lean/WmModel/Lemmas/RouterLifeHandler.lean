/-
  Per-handler lifecycle invariant of RouterLife: the order of RunHandlers' assignments, Subscribe counted once,
  publisher closed exactly once by the loop, Stopped() closed exactly when the handler's goroutine finished.
-/
import WmModel.Lemmas.RouterLifeCtl
namespace Wm.RouterLife
open Wm.Lts

/-- facts about one handler that every step keeps (`fx.d7` guards the repaired order) -/
structure HOk (fx : Fix) (h : Handler) : Prop where
  l1 : h.startedCh = true → h.started = true
  l2 : fx.d7 = true → h.startedCh = true → h.stopSet = true
  l3 : h.subCalls = if h.pump = .off then 0 else 1
  l5 : h.loop ≠ .off → h.started = true ∧ h.startedCh = true ∧ h.stopSet = true ∧ h.pump ≠ .off
  l6 : (h.stoppedCh = true ↔ h.loop = .done) ∧ (h.removed = true ↔ h.loop = .done)
  l7 : h.pubCloseCalls = if h.loop = .wgDone ∨ h.loop = .delete ∨ h.loop = .done then 1 else 0
  l8 : (h.loop = .pubClose ∨ h.loop = .wgDone ∨ h.loop = .delete ∨ h.loop = .done) → h.pump = .done
  l9 : h.pump = .done → h.innerClosed = true
  l10 : (h.hc = .off ↔ h.loop = .off) ∧ ((h.hc = .off ∨ h.hc = .sel) → h.subCloseCalls = 0) ∧ h.subCloseCalls ≤ 1
  l11 : h.started = true → h.pump ≠ .off
  l12 : h.started = true → h.startedCh = true

/-- the handler RunHandlers is working on (sub-step `st`) -/
structure CurOk (fx : Fix) (st : Nat) (h : Handler) : Prop where
  c0 : st ≤ 2
  c1 : h.pump ≠ .off
  c2 : h.loop = .off
  c3 : 1 ≤ st → (if fx.d7 = true then h.stopSet = true else h.started = true ∧ h.startedCh = true)
  c4 : st = 2 → h.started = true ∧ h.startedCh = true ∧ h.stopSet = true

structure LifeOk (fx : Fix) (s : St) : Prop where
  all : ∀ h ∈ s.hs, HOk fx h
  cur : ∀ v i st, s.hl = .rh v (some (i, st)) → ∀ h, s.hs[i]? = some h → CurOk fx st h
  sub : ∀ (i : Nat) (h : Handler), s.hs[i]? = some h → h.pump ≠ .off →
          h.started = true ∨ ∃ v st, s.hl = .rh v (some (i, st))

theorem hok_new (fx : Fix) (b : Bool) : HOk fx (newHandler b) := by
  constructor <;> simp [newHandler]

theorem life_init (fx : Fix) : LifeOk fx init := by
  constructor <;> simp [init]

theorem life_same (fx : Fix) (s s' : St) (h : LifeOk fx s) (h3 : s'.hs = s.hs) (h7 : s'.hl = s.hl) : LifeOk fx s' := by
  obtain ⟨a, c, sb⟩ := h
  exact ⟨by rw [h3]; exact a, by rw [h3, h7]; exact c, by rw [h3, h7]; exact sb⟩

/-- one handler changes, `handlersLock` does not -/
theorem life_updH (fx : Fix) (s s' : St) (i : Nat) (g : Handler → Handler) (h : LifeOk fx s)
    (h3 : s'.hs = s.hs.modify i g) (h7 : s'.hl = s.hl)
    (hg1 : ∀ x, s.hs[i]? = some x → HOk fx x → HOk fx (g x))
    (hg2 : ∀ st x, s.hs[i]? = some x → CurOk fx st x → CurOk fx st (g x))
    (hg3 : ∀ x, s.hs[i]? = some x → ((g x).pump ≠ .off → x.pump ≠ .off) ∧ (x.started = true → (g x).started = true)) :
    LifeOk fx s' := by
  obtain ⟨a, c, sb⟩ := h
  refine ⟨?_, ?_, ?_⟩
  · rw [h3]; exact forall_mem_modify s.hs i g (HOk fx) a hg1
  · rw [h3, h7]; intro v j st hh y hy
    rcases getElem?_modify_some _ _ _ _ _ hy with ⟨rfl, x, hx, rfl⟩ | ⟨_, hy'⟩
    · exact hg2 st x hx (c v i st hh x hx)
    · exact c v j st hh y hy'
  · rw [h3, h7]; intro j y hy hp
    rcases getElem?_modify_some _ _ _ _ _ hy with ⟨rfl, x, hx, rfl⟩ | ⟨_, hy'⟩
    · rcases sb i x hx ((hg3 x hx).1 hp) with h1 | h1
      · exact Or.inl ((hg3 x hx).2 h1)
      · exact Or.inr h1
    · exact sb j y hy' hp

set_option hygiene false in
macro "h_tac" : tactic => `(tactic|
  (repeat' split at ha
   all_goals (try (simp at ha))
   all_goals (try subst ha)
   all_goals (first
     | exact life_same _ _ _ h rfl rfl
     | (refine life_updH _ _ _ _ _ h rfl rfl ?_ ?_ ?_
        · intro x hx hok
          simp_all
          obtain ⟨l1, l2, l3, l5, l6, l7, l8, l9, l10, l11, l12⟩ := hok
          constructor <;> simp_all
        · intro st x hx hok
          simp_all
          obtain ⟨c0, c1, c2, c3, c4⟩ := hok
          constructor <;> simp_all
        · intro x hx
          simp_all))))

theorem life_rhSub (fx : Fix) (s : St) (i : Nat) (s' : St) (h : LifeOk fx s)
  (ha : act fx s (.rhSub i) = some s') : LifeOk fx s' := by
  simp only [act] at ha
  split at ha
  · split at ha
    · rename_i v x hhl hx hg; simp at ha; subst ha
      obtain ⟨a, c, sb⟩ := h
      have hoff : x.pump = .off := by
        cases hp : x.pump with
        | off => rfl
        | _ =>
          rcases sb i x hx (by rw [hp]; simp) with h1 | ⟨v', st, h1⟩
          · rw [hg.1] at h1; cases h1
          · rw [hhl] at h1; cases h1
      have hx0 := a x (mem_of_getElem? _ _ _ hx)
      have hloop : x.loop = .off := by
        cases hl : x.loop with
        | off => rfl
        | _ => have := (hx0.l5 (by rw [hl]; simp)).1; rw [hg.1] at this; cases this
      refine ⟨?_, ?_, ?_⟩
      · apply forall_mem_modify _ _ _ _ a
        intro y hy hok
        rw [hx] at hy; cases hy
        obtain ⟨l1, l2, l3, l5, l6, l7, l8, l9, l10, l11, l12⟩ := hok
        constructor <;> simp_all
      · intro v' j st hh y hy
        simp at hh
        obtain ⟨_, hj, hst⟩ := hh
        subst hj; subst hst
        rcases getElem?_modify_some _ _ _ _ _ hy with ⟨_, z, hz, rfl⟩ | ⟨hne, _⟩
        · rw [hx] at hz; cases hz
          constructor <;> simp_all
        · exact absurd rfl hne
      · intro j y hy hp
        rcases getElem?_modify_some _ _ _ _ _ hy with ⟨rfl, z, hz, rfl⟩ | ⟨hne, hy'⟩
        · exact Or.inr ⟨v, 0, rfl⟩
        · rcases sb j y hy' hp with h1 | ⟨v', st, h1⟩
          · exact Or.inl h1
          · rw [hhl] at h1; cases h1
    · simp at ha
  · simp at ha


theorem life_rhStep (fx : Fix) (s : St)  (s' : St) (h : LifeOk fx s)
  (ha : act fx s .rhStep = some s') : LifeOk fx s' := by
  simp only [act] at ha
  split at ha
  · rename_i v i hhl; simp at ha; subst ha
    obtain ⟨a, c, sb⟩ := h
    refine ⟨?_, ?_, ?_⟩
    · apply forall_mem_modify _ _ _ _ a
      intro y hy hok
      have hc := c v i 0 hhl y hy
      obtain ⟨l1, l2, l3, l5, l6, l7, l8, l9, l10, l11, l12⟩ := hok
      obtain ⟨c0, c1, c2, c3, c4⟩ := hc
      cases h7 : fx.d7 <;> (constructor <;> simp_all [markStop, markStarted])
    · intro v' j st hh y hy
      simp at hh
      obtain ⟨_, hj, hst⟩ := hh
      subst hj; subst hst
      rcases getElem?_modify_some _ _ _ _ _ hy with ⟨_, z, hz, rfl⟩ | ⟨hne, _⟩
      · obtain ⟨c0, c1, c2, c3, c4⟩ := c v i 0 hhl z hz
        cases h7 : fx.d7 <;> (constructor <;> simp_all [markStop, markStarted])
      · exact absurd rfl hne
    · intro j y hy hp
      rcases getElem?_modify_some _ _ _ _ _ hy with ⟨rfl, z, hz, rfl⟩ | ⟨hne, hy'⟩
      · exact Or.inr ⟨v, 1, rfl⟩
      · rcases sb j y hy' hp with h1 | ⟨v', st, h1⟩
        · exact Or.inl h1
        · rw [hhl] at h1; simp at h1; exact absurd h1.2.1 hne
  · rename_i v i hhl; simp at ha; subst ha
    obtain ⟨a, c, sb⟩ := h
    refine ⟨?_, ?_, ?_⟩
    · apply forall_mem_modify _ _ _ _ a
      intro y hy hok
      have hc := c v i 1 hhl y hy
      obtain ⟨l1, l2, l3, l5, l6, l7, l8, l9, l10, l11, l12⟩ := hok
      obtain ⟨c0, c1, c2, c3, c4⟩ := hc
      cases h7 : fx.d7 <;> (constructor <;> simp_all [markStop, markStarted])
    · intro v' j st hh y hy
      simp at hh
      obtain ⟨_, hj, hst⟩ := hh
      subst hj; subst hst
      rcases getElem?_modify_some _ _ _ _ _ hy with ⟨_, z, hz, rfl⟩ | ⟨hne, _⟩
      · obtain ⟨c0, c1, c2, c3, c4⟩ := c v i 1 hhl z hz
        cases h7 : fx.d7 <;> (constructor <;> simp_all [markStop, markStarted])
      · exact absurd rfl hne
    · intro j y hy hp
      rcases getElem?_modify_some _ _ _ _ _ hy with ⟨rfl, z, hz, rfl⟩ | ⟨hne, hy'⟩
      · exact Or.inr ⟨v, 2, rfl⟩
      · rcases sb j y hy' hp with h1 | ⟨v', st, h1⟩
        · exact Or.inl h1
        · rw [hhl] at h1; simp at h1; exact absurd h1.2.1 hne
  · simp at ha


theorem life_rhSpawn (fx : Fix) (s : St)  (s' : St) (h : LifeOk fx s)
  (ha : act fx s .rhSpawn = some s') : LifeOk fx s' := by
  simp only [act] at ha
  split at ha
  · rename_i v i hhl; simp at ha; subst ha
    obtain ⟨a, c, sb⟩ := h
    refine ⟨?_, by intro v' j st hh; simp at hh, ?_⟩
    · apply forall_mem_modify _ _ _ _ a
      intro y hy hok
      have hc := c v i 2 hhl y hy
      obtain ⟨l1, l2, l3, l5, l6, l7, l8, l9, l10, l11, l12⟩ := hok
      obtain ⟨c0, c1, c2, c3, c4⟩ := hc
      constructor <;> simp_all
    · intro j y hy hp
      rcases getElem?_modify_some _ _ _ _ _ hy with ⟨rfl, z, hz, rfl⟩ | ⟨hne, hy'⟩
      · exact Or.inl ((c v i 2 hhl z hz).c4 rfl).1
      · rcases sb j y hy' hp with h1 | ⟨v', st, h1⟩
        · exact Or.inl h1
        · rw [hhl] at h1; simp at h1; exact absurd h1.2.1 hne
  · simp at ha


theorem life_step (fx : Fix) (s : St) (a : Action) (s' : St) (hctl : CtlOk s) (h : LifeOk fx s)
    (ha : act fx s a = some s') : LifeOk fx s' := by
  cases a
  case rhSub i => exact life_rhSub fx s i s' h ha
  case rhStep => exact life_rhStep fx s s' h ha
  case rhSpawn => exact life_rhSpawn fx s s' h ha
  all_goals simp only [act] at ha
  case runCall => h_tac
  case runWatch => h_tac
  case runRunning => h_tac
  case runCancelStep => h_tac
  case runRet => h_tac
  case cancelExt => h_tac
  case closeCall => h_tac
  case closeCL => h_tac
  case timer => h_tac
  case wLoops => h_tac
  case wLock => h_tac
  case wRunning => h_tac
  case watchArrive => h_tac
  case watchTok => h_tac
  case watchClosed => h_tac
  case watchZero => h_tac
  case watchCheck => h_tac
  case hStart => h_tac
  case hReturn => h_tac
  case hPublished => h_tac
  case hSettle => h_tac
  case emit => h_tac
  case pumpOut => h_tac
  case pumpDrop => h_tac
  case pumpEnd => h_tac
  case innerCtx => h_tac
  case dispatch => h_tac
  case loopEnd => h_tac
  case pubClose => h_tac
  case wgDone => h_tac
  case loopDelete => h_tac
  case hcClose => h_tac
  case hcCtx => h_tac
  case hcInnerRet => h_tac
  case hcCloseFail => h_tac
  case hcPumpWaited => h_tac
  case hcStop => h_tac
  case stop => h_tac
  case addHandler =>
    split at ha
    · rename_i hg
      have key : ∀ t : St, t.hs = s.hs ++ [newHandler (!s.isRunning)] → t.hl = s.hl → LifeOk fx t := by
        intro t ht hl
        obtain ⟨a, c, sb⟩ := h
        refine ⟨?_, ?_, ?_⟩
        · intro x hx
          rw [ht] at hx; simp at hx
          rcases hx with hx | hx
          · exact a x hx
          · subst hx; exact hok_new fx _
        · rw [hl, hg.1]; intro v i st hh; cases hh
        · rw [ht, hl]; intro i x hx hp
          rcases getElem?_append_one _ _ _ _ hx with hx | ⟨_, hx⟩
          · exact sb i x hx hp
          · subst hx; simp [newHandler] at hp
      split at ha
      · simp at ha; subst ha; exact key _ rfl rfl
      · split at ha <;> (simp at ha; subst ha; exact key _ rfl rfl)
    · simp at ha
  case runRh =>
    split at ha
    · rename_i hg; simp at ha; subst ha
      obtain ⟨a, c, sb⟩ := h
      refine ⟨a, by intro v i st hh; simp at hh, ?_⟩
      intro i x hx hp
      rcases sb i x hx hp with h1 | ⟨v, st, h1⟩
      · exact Or.inl h1
      · rw [hg.2] at h1; cases h1
    · simp at ha
  case rhCall =>
    split at ha
    · rename_i hg; simp at ha; subst ha
      obtain ⟨a, c, sb⟩ := h
      refine ⟨a, by intro v i st hh; simp at hh, ?_⟩
      intro i x hx hp
      rcases sb i x hx hp with h1 | ⟨v, st, h1⟩
      · exact Or.inl h1
      · rw [hg.2] at h1; cases h1
    · simp at ha
  case closeHL k =>
    split at ha
    · split at ha
      · rename_i hfree
        obtain ⟨a, c, sb⟩ := h
        have sb' : ∀ (i : Nat) (x : Handler), s.hs[i]? = some x → x.pump ≠ .off → x.started = true := by
          intro i x hx hp
          rcases sb i x hx hp with h1 | ⟨v, st, h1⟩
          · exact h1
          · rw [hfree] at h1; cases h1
        split at ha
        · simp at ha; subst ha
          exact ⟨a, c, sb⟩
        · simp at ha; subst ha
          exact ⟨a, by intro v i st hh; simp [setC] at hh, fun i x hx hp => Or.inl (sb' i x hx hp)⟩
      · simp at ha
    · simp at ha
  case closeDone k =>
    split at ha
    · rename_i hk
      split at ha
      · simp at ha; subst ha
        obtain ⟨a, c, sb⟩ := h
        have hhl := (hctl.k1 k hk).2.2.1
        refine ⟨a, by intro v i st hh; simp [setC] at hh, ?_⟩
        intro i x hx hp
        rcases sb i x hx hp with h1 | ⟨v, st, h1⟩
        · exact Or.inl h1
        · rw [hhl] at h1; cases h1
      · simp at ha
    · simp at ha
  case closeTimeout k =>
    split at ha
    · rename_i hk
      split at ha
      · simp at ha; subst ha
        obtain ⟨a, c, sb⟩ := h
        have hhl := (hctl.k1 k hk).2.2.1
        refine ⟨a, by intro v i st hh; simp [setC] at hh, ?_⟩
        intro i x hx hp
        rcases sb i x hx hp with h1 | ⟨v, st, h1⟩
        · exact Or.inl h1
        · rw [hhl] at h1; cases h1
      · simp at ha
    · simp at ha
  case rhSubFail i =>
    split at ha
    · rename_i v x hhl hx
      split at ha
      · simp at ha; subst ha
        obtain ⟨a, c, sb⟩ := h
        refine ⟨a, by intro v i st hh; simp at hh, ?_⟩
        intro j y hy hp
        rcases sb j y hy hp with h1 | ⟨v', st, h1⟩
        · exact Or.inl h1
        · rw [hhl] at h1; cases h1
      · simp at ha
    · simp at ha
  case rhEnd =>
    split at ha
    · rename_i v hhl
      split at ha
      · simp at ha; subst ha
        obtain ⟨a, c, sb⟩ := h
        refine ⟨a, by intro v i st hh; simp at hh, ?_⟩
        intro i x hx hp
        rcases sb i x hx hp with h1 | ⟨v', st, h1⟩
        · exact Or.inl h1
        · rw [hhl] at h1; cases h1
      · simp at ha
    · simp at ha

end Wm.RouterLife
