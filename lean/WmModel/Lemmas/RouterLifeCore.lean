/-
  The core safety invariant of Router.Close (the D5 mechanism): once the waiter has seen `handlersWg = 0` every
  receive loop has ended for good, hence nothing is dispatched any more, hence `runningHandlersWg = 0` is stable.
-/
import WmModel.Lemmas.RouterLifeBase
namespace Wm.RouterLife
open Wm.Lts

structure CoreOk (fx : Fix) (s : St) : Prop where
  a1 : s.wA = true → s.closed = true
  a2 : s.wA = true → ∀ h ∈ s.hs, h.loop.ended = true
  b  : s.wB ≠ .idle → s.wA = true
  c  : s.wB = .done → ∀ m ∈ s.msgs, m.stage.inFlight = false
  d  : s.closeNil = true → s.wA = true ∧ s.wB = .done
  e  : ∀ v i st, s.hl = .rh v (some (i, st)) → ∀ h, s.hs[i]? = some h →
         h.loop = .off ∧ ((st = 2 ∨ (st = 1 ∧ fx.d7 = false)) → h.started = true)
  f  : ∀ h ∈ s.hs, h.loop ≠ .off → h.started = true

theorem core_init (fx : Fix) : CoreOk fx init := by
  constructor <;> simp [init]

/-- how one handler may change in a step that leaves the waiter and the locks alone -/
def HRel (wA : Bool) (h h' : Handler) : Prop :=
  (h.started = true → h'.started = true) ∧
  (h'.loop = h.loop ∨ (wA = false ∧ h.loop ≠ .off ∧ h'.loop ≠ .off) ∨ (h.loop = .delete ∧ h'.loop = .done))

theorem hrel_keep (wA : Bool) (h h' : Handler) (h1 : h'.loop = h.loop) (h2 : h'.started = h.started) : HRel wA h h' :=
  ⟨by rw [h2]; exact id, Or.inl h1⟩

theorem hrel_refl (wA : Bool) (h : Handler) : HRel wA h h := hrel_keep wA h h rfl rfl

theorem hs_modify (wA : Bool) (l : List Handler) (i : Nat) (g : Handler → Handler)
    (hg : ∀ h, l[i]? = some h → HRel wA h (g h)) :
    ∀ (j : Nat) (h' : Handler), (l.modify i g)[j]? = some h' → ∃ h, l[j]? = some h ∧ HRel wA h h' := by
  intro j h' hj
  rcases getElem?_modify_some l i j g h' hj with ⟨rfl, x, hx, rfl⟩ | ⟨_, hy⟩
  · exact ⟨x, hx, hg x hx⟩
  · exact ⟨h', hy, hrel_refl wA h'⟩

/-- generic preservation: waiter flags and locks unchanged, handlers related by `HRel`, no new in-flight message
    once the running-handlers wait has finished -/
theorem core_of (fx : Fix) (s s' : St) (h : CoreOk fx s)
    (h1 : s'.wA = s.wA) (h2 : s'.closed = s.closed) (h4 : s'.wB = s.wB) (h6 : s'.closeNil = s.closeNil)
    (h7 : s'.hl = s.hl)
    (H : ∀ (j : Nat) (h' : Handler), s'.hs[j]? = some h' → ∃ h, s.hs[j]? = some h ∧ HRel s.wA h h')
    (M : s.wB = .done → ∀ m' ∈ s'.msgs, m'.stage.inFlight = true → ∃ m ∈ s.msgs, m.stage.inFlight = true) :
    CoreOk fx s' := by
  obtain ⟨a1, a2, b, c, d, e, f⟩ := h
  constructor
  · rw [h1, h2]; exact a1
  · rw [h1]; intro hw h' hm
    obtain ⟨j, hj⟩ := List.mem_iff_getElem?.mp hm
    obtain ⟨h0, hj0, _, hl⟩ := H j h' hj
    have he := a2 hw h0 (mem_of_getElem? _ _ _ hj0)
    rcases hl with hl | ⟨hl, _⟩ | ⟨_, hl⟩
    · rw [hl]; exact he
    · rw [hw] at hl; cases hl
    · rw [hl]; rfl
  · rw [h1, h4]; exact b
  · rw [h4]; intro hw m' hm'
    cases hfl : m'.stage.inFlight with
    | false => rfl
    | true =>
      obtain ⟨m, hm, hmf⟩ := M hw m' hm' hfl
      rw [c hw m hm] at hmf; cases hmf
  · rw [h1, h4, h6]; exact d
  · rw [h7]; intro v i st hh h' hi
    obtain ⟨h0, hj0, hst, hl⟩ := H i h' hi
    obtain ⟨e1, e2⟩ := e v i st hh h0 hj0
    refine ⟨?_, fun hc => hst (e2 hc)⟩
    rcases hl with hl | ⟨_, hl, _⟩ | ⟨hl, _⟩
    · rw [hl]; exact e1
    · exact absurd e1 hl
    · rw [e1] at hl; cases hl
  · intro h' hm hno
    obtain ⟨j, hj⟩ := List.mem_iff_getElem?.mp hm
    obtain ⟨h0, hj0, hst, hl⟩ := H j h' hj
    apply hst
    apply f h0 (mem_of_getElem? _ _ _ hj0)
    rcases hl with hl | ⟨_, hl, _⟩ | ⟨hl, _⟩
    · rw [← hl]; exact hno
    · exact hl
    · rw [hl]; simp

theorem H_same (s s' : St) (h3 : s'.hs = s.hs) :
    ∀ (j : Nat) (h' : Handler), s'.hs[j]? = some h' → ∃ h, s.hs[j]? = some h ∧ HRel s.wA h h' := by
  intro j h' hj; rw [h3] at hj; exact ⟨h', hj, hrel_refl _ _⟩

theorem M_same (s s' : St) (h5 : s'.msgs = s.msgs) :
    s.wB = .done → ∀ m' ∈ s'.msgs, m'.stage.inFlight = true → ∃ m ∈ s.msgs, m.stage.inFlight = true := by
  intro _ m' hm hf; rw [h5] at hm; exact ⟨m', hm, hf⟩

/-- message `m` goes from an in-flight stage to any stage: nothing new is in flight -/
theorem M_modify (s : St) (msgs' : List Msg) (m : Nat) (g : Msg → Msg) (hm : msgs' = s.msgs.modify m g)
    (hg : ∀ x, s.msgs[m]? = some x → (g x).stage.inFlight = true → x.stage.inFlight = true) :
    s.wB = .done → ∀ m' ∈ msgs', m'.stage.inFlight = true → ∃ m ∈ s.msgs, m.stage.inFlight = true := by
  intro _ m' hm' hf
  rw [hm] at hm'
  rcases mem_modify _ _ _ _ hm' with h | ⟨x, hx, rfl⟩
  · exact ⟨m', h, hf⟩
  · exact ⟨x, mem_of_getElem? _ _ _ hx, hg x hx hf⟩

end Wm.RouterLife
