import WmModel.Lemmas.GcRegQ
import WmModel.Lemmas.GcRegTl
import WmModel.Lemmas.GcRegRd
import WmModel.Lemmas.GcRegWr
import WmModel.Lemmas.GcRegWg
import WmModel.Lemmas.GcRegClose
namespace Wm.GcReg

/-- thread `j` can take a step -/
def enabled (s : St) (j : Nat) : Prop := (act s (.step j)).isSome = true
/-- some thread can take a step -/
def Progress (s : St) : Prop := ∃ j, enabled s j

/-- once the Pub/Sub is closing, whoever holds a topic mutex can move (a blocking Publish no longer waits for acks) -/
theorem enabled_of_holder (s : St) (hc : s.closingSig = true) (t h : Nat) (th : Th) (hth : s.ths[h]? = some th)
    (hh : holdsT t th = true) : enabled s h := by
  cases th with
  | pub t' r pc ao =>
    cases pc <;> simp [holdsT] at hh
    case persist => simp only [enabled, act, hth, stepPub]; (repeat' split) <;> simp
    case send => cases r <;> simp only [enabled, act, hth, stepPub] <;> (repeat' split) <;> simp
    case wait d => simp [enabled, act, hth, stepPub, hc]
    case unlock => simp [enabled, act, hth, stepPub]
  | sub t' sid pc =>
    cases pc <;> simp [holdsT] at hh
    simp [enabled, act, hth, stepSub]
  | td t' sid pc =>
    cases pc <;> simp [holdsT] at hh
    simp only [enabled, act, hth, stepTd]; (repeat' split) <;> simp
  | closer pc => simp [holdsT] at hh

theorem tlock_progress (s : St) (hc : s.closingSig = true) (htl : TlOk s) (t : Nat) :
    tlockFree s t = true ∨ Progress s := by
  cases hf : tlockFree s t with
  | true => exact Or.inl rfl
  | false =>
    right
    simp only [tlockFree, Bool.not_eq_false', List.any_eq_true] at hf
    obtain ⟨⟨t', h⟩, hm, ht⟩ := hf
    simp at ht; subst ht
    obtain ⟨th, hth, hh⟩ := (htl.1 t' h).mp hm
    exact ⟨h, enabled_of_holder s hc t' h th hth hh⟩

theorem reader_progress (s : St) (hc : s.closingSig = true) (hrd : RdOk s) (htl : TlOk s) (j : Nat)
    (hj : j ∈ s.readers) : Progress s := by
  obtain ⟨th, hth, hr⟩ := (hrd.1 j).mp hj
  cases th with
  | pub t r pc ao =>
    cases pc <;> simp [holdsR] at hr
    case tlock =>
      rcases tlock_progress s hc htl t with hf | hp
      · exact ⟨j, by simp [enabled, act, hth, stepPub, hf]⟩
      · exact hp
    case persist => exact ⟨j, enabled_of_holder s hc t j _ hth (by simp [holdsT])⟩
    case send => exact ⟨j, enabled_of_holder s hc t j _ hth (by simp [holdsT])⟩
    case wait d => exact ⟨j, enabled_of_holder s hc t j _ hth (by simp [holdsT])⟩
    case unlock => exact ⟨j, enabled_of_holder s hc t j _ hth (by simp [holdsT])⟩
  | sub t sid pc => simp [holdsR] at hr
  | td t sid pc => simp [holdsR] at hr
  | closer pc => simp [holdsR] at hr

theorem drain_progress (s : St) (hc : s.closingSig = true) (hrd : RdOk s) (htl : TlOk s) (k : Nat)
    (hk : s.ann = some k) : (s.readers.isEmpty && s.ann == some k) = true ∨ Progress s := by
  cases hr : s.readers with
  | nil => left; simp [hk]
  | cons j rest => right; exact reader_progress s hc hrd htl j (by rw [hr]; exact List.mem_cons_self)

/-- the announced writer, or somebody it waits for, can move -/
theorem writer_progress (s : St) (hc : s.closingSig = true) (hq : QOk s) (hrd : RdOk s) (htl : TlOk s) (k : Nat)
    (hk : s.ann = some k) : Progress s := by
  obtain ⟨th, hth, hw⟩ := hq.2 k hk
  cases th with
  | pub t r pc ao => simp [holdsW] at hw
  | closer pc => simp [holdsW] at hw
  | sub t sid pc =>
    cases pc <;> simp [holdsW] at hw
    case drain =>
      rcases drain_progress s hc hrd htl k hk with hd | hp
      · exact ⟨k, by simp only [enabled, act, hth, stepSub, hd]; simp⟩
      · exact hp
    case tlock =>
      rcases tlock_progress s hc htl t with hf | hp
      · exact ⟨k, by simp [enabled, act, hth, stepSub, hf]⟩
      · exact hp
    case register => exact ⟨k, by simp [enabled, act, hth, stepSub]⟩
  | td t sid pc =>
    cases pc <;> simp [holdsW] at hw
    case drain =>
      rcases drain_progress s hc hrd htl k hk with hd | hp
      · exact ⟨k, by simp only [enabled, act, hth, stepTd, hd]; simp⟩
      · exact hp
    case tlock =>
      rcases tlock_progress s hc htl t with hf | hp
      · exact ⟨k, by simp [enabled, act, hth, stepTd, hf]⟩
      · exact hp
    case remove => exact ⟨k, by simp only [enabled, act, hth, stepTd]; (repeat' split) <;> simp⟩

/-- a thread queued for the writer mutex gets it, or the present writer (or somebody that one waits for) can move -/
theorem ann_progress (s : St) (hc : s.closingSig = true) (hq : QOk s) (hrd : RdOk s) (htl : TlOk s) (i : Nat) (th : Th)
    (hth : s.ths[i]? = some th) (ha : atAnn th = true) : Progress s := by
  have hin := hq.1 i th hth ha
  cases hk : s.ann with
  | some k => exact writer_progress s hc hq hrd htl k hk
  | none =>
    have hcond : (s.ann.isNone && s.wqueue.contains i) = true := by simp [hk, hin]
    cases th with
    | pub t r pc ao => simp [atAnn] at ha
    | closer pc => simp [atAnn] at ha
    | sub t sid pc =>
      cases pc <;> simp [atAnn] at ha
      exact ⟨i, by simp only [enabled, act, hth, stepSub, hcond]; simp⟩
    | td t sid pc =>
      cases pc <;> simp [atAnn] at ha
      exact ⟨i, by simp only [enabled, act, hth, stepTd, hcond]; simp⟩

/-- while the Pub/Sub is closing, a thread that still owes `subscribersWg.Done()` (or somebody it waits for) can move -/
theorem needsDone_progress (s : St) (hc : s.closingSig = true) (hq : QOk s) (hrd : RdOk s) (htl : TlOk s) (hw1 : W1 s)
    (i : Nat) (th : Th) (hth : s.ths[i]? = some th) (hn : needsDone th = true) : Progress s := by
  cases th with
  | pub t r pc ao => simp [needsDone] at hn
  | closer pc => simp [needsDone] at hn
  | sub t sid pc =>
    cases pc <;> simp [needsDone] at hn
    case wqueue => exact ⟨i, by simp [enabled, act, hth, stepSub]⟩
    case announce => exact ann_progress s hc hq hrd htl i _ hth rfl
    case drain => exact writer_progress s hc hq hrd htl i (hw1 i _ hth rfl)
    case tlock => exact writer_progress s hc hq hrd htl i (hw1 i _ hth rfl)
  | td t sid pc =>
    cases pc <;> simp [needsDone] at hn
    case idle => exact ⟨i, by simp [enabled, act, hth, stepTd, hc]⟩
    case subClosed => exact ⟨i, by simp [enabled, act, hth, stepTd]⟩
    case announce => exact ann_progress s hc hq hrd htl i _ hth rfl
    case drain => exact writer_progress s hc hq hrd htl i (hw1 i _ hth rfl)
    case tlock => exact writer_progress s hc hq hrd htl i (hw1 i _ hth rfl)
    case remove => exact writer_progress s hc hq hrd htl i (hw1 i _ hth rfl)

/-- a Close call that has not returned is never stuck: it, or a thread it (transitively) waits for, can take a step -/
theorem closer_progress (s : St) (hq : QOk s) (hrd : RdOk s) (htl : TlOk s) (hw1 : W1 s) (hcl : CloseOk s) (hwg : WgOk s)
    (i : Nat) (pc : CPc) (hth : s.ths[i]? = some (Th.closer pc)) (hpc : pc ≠ CPc.ret) : Progress s := by
  have atWait : ∀ (k : Nat), s.ths[k]? = some (Th.closer CPc.waitWg) → Progress s := by
    intro k hk
    have hclosed := hcl.1 k _ hk (by decide)
    have hc : s.closingSig = true := by rw [hcl.2.2.1]; exact hclosed
    by_cases h0 : s.wg = 0
    · exact ⟨k, by simp [enabled, act, hk, stepCloser, h0]⟩
    · unfold WgOk at hwg
      have hpos : 0 < s.ths.countP needsDone := by omega
      obtain ⟨th, hm, hn⟩ := List.countP_pos_iff.mp hpos
      obtain ⟨j, hj⟩ := List.getElem?_of_mem hm
      exact needsDone_progress s hc hq hrd htl hw1 j th hj hn
  cases pc with
  | ret => exact absurd rfl hpc
  | waitWg => exact atWait i hth
  | start =>
    cases hl : s.closedLock with
    | none => exact ⟨i, by simp only [enabled, act, hth, stepCloser, hl]; simp; split <;> simp⟩
    | some k => exact atWait k (hcl.2.1 k hl).1

end Wm.GcReg
