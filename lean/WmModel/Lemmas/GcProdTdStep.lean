import WmModel.Lemmas.GcProdTd
import WmModel.Props.C05
namespace Wm.GcProd
open Wm Wm.Lts
open Wm.GcReg (get_set_cases get_append_cases set_get_of_ne append_get_of_get)

/-- starting senders neither creates nor removes the M_sub instance and keeps `closed` -/
theorem spawn1_keeps (od : Option Nat) (x : Option GcSub.St × Snd) (m : Nat) :
    ((spawn1 od x m).1.isSome = x.1.isSome) ∧
    (∀ q, x.1 = some q → q.closed = true → ∃ q', (spawn1 od x m).1 = some q' ∧ q'.closed = true) := by
  cases hx : x.1 with
  | none => simp [spawn1, hx]
  | some q => simp [spawn1, hx, spawnSt]

theorem foldl_spawn1_keeps (od : Option Nat) (msgs : List Nat) (x : Option GcSub.St × Snd) :
    ((msgs.foldl (spawn1 od) x).1.isSome = x.1.isSome) ∧
    (∀ q, x.1 = some q → q.closed = true → ∃ q', (msgs.foldl (spawn1 od) x).1 = some q' ∧ q'.closed = true) := by
  induction msgs generalizing x with
  | nil => exact ⟨rfl, fun q hq hc => ⟨q, hq, hc⟩⟩
  | cons m rest ih =>
    simp only [List.foldl]
    obtain ⟨a1, a2⟩ := spawn1_keeps od x m
    obtain ⟨b1, b2⟩ := ih (spawn1 od x m)
    refine ⟨by rw [b1, a1], ?_⟩
    intro q hq hc
    obtain ⟨q1, h1, c1⟩ := a2 q hq hc
    exact b2 q1 h1 c1

theorem tdlink_step (me cap : Nat) (cfg : GcReg.Cfg) (s s' : St) (a : Action) (hreach : Reach (sys me cap cfg) s)
    (hl : LinkOk me s) (h : TdLink me s) (hact : act me cap s a = some s') : TdLink me s' := by
  cases a with
  | sub sa =>
    simp only [act] at hact
    split at hact
    · cases hq : s.sub with
      | none => simp [hq] at hact
      | some q =>
        simp only [hq] at hact
        cases hs : GcSub.act q sa with
        | none => simp [hs] at hact
        | some q' =>
          simp [hs] at hact; subst hact
          exact tl_congr me s _ h rfl (by intro _; rw [hq]; rfl)
            (fun q0 hq0 hc => by rw [hq] at hq0; injection hq0 with hq0; subst hq0; exact ⟨q', rfl, closed_stable q q' sa hs hc⟩)
    · cases hact
  | reg ra =>
    simp only [act] at hact
    cases hr : GcReg.act s.reg ra with
    | none => simp [hr] at hact
    | some r' =>
      simp only [hr] at hact
      cases he : effect me cap s.reg r' ra (s.sub, s.snd) with
      | none => simp [he] at hact
      | some y =>
        obtain ⟨q', snd'⟩ := y
        simp only [he] at hact
        injection hact with hact; subst hact
        -- what the step does to the M_sub component, case by case
        have same : some (s.sub, s.snd) = some (q', snd') →
            (q'.isSome = true → s.sub.isSome = true) ∧ (∀ q, s.sub = some q → q.closed = true → ∃ q2, q' = some q2 ∧ q2.closed = true) := by
          intro e; injection e with e; injection e with e1 _; subst e1
          exact ⟨fun x => x, fun q hq hc => ⟨q, hq, hc⟩⟩
        have flag : ∀ (f : GcSub.St → GcSub.St), some (s.sub.map f, s.snd) = some (q', snd') → (∀ q, (f q).closed = q.closed) →
            (q'.isSome = true → s.sub.isSome = true) ∧ (∀ q, s.sub = some q → q.closed = true → ∃ q2, q' = some q2 ∧ q2.closed = true) := by
          intro f e hf; injection e with e; injection e with e1 _; subst e1
          refine ⟨by intro hx; simpa using hx, ?_⟩
          intro q hq hc; exact ⟨f q, by simp [hq], by rw [hf q]; exact hc⟩
        -- thread `i` is not `me`'s unsubscribe goroutine
        have other : ∀ (i : Nat) (old new : GcReg.Th), s.reg.ths[i]? = some old → r'.ths = s.reg.ths.set i new →
            (∀ t pc, old ≠ GcReg.Th.td t me pc) → (∀ t pc, new ≠ GcReg.Th.td t me pc) →
            ((q'.isSome = true → s.sub.isSome = true) ∧ (∀ q, s.sub = some q → q.closed = true → ∃ q2, q' = some q2 ∧ q2.closed = true)) →
            TdLink me ⟨r', q', snd'⟩ :=
          fun i old new hold hths ho hn hk => tl_frame me s _ h i old new hold hths ho hn hk.1 hk.2
        have app : ∀ (new : GcReg.Th), r'.ths = s.reg.ths ++ [new] → (∀ t pc, new ≠ GcReg.Th.td t me pc) →
            ((q'.isSome = true → s.sub.isSome = true) ∧ (∀ q, s.sub = some q → q.closed = true → ∃ q2, q' = some q2 ∧ q2.closed = true)) →
            TdLink me ⟨r', q', snd'⟩ :=
          fun new hths hn hk => tl_append me s _ h new hths hn hk.1 hk.2
        cases ra <;> simp only [GcReg.act] at hr
        case newPub t msgs nested =>
          simp only [effect] at he
          cases nested with
          | none => simp at hr; subst hr; exact app _ rfl (fun _ _ hx => by cases hx) (same he)
          | some p => simp only at hr; split at hr <;> simp at hr; subst hr; exact app _ rfl (fun _ _ hx => by cases hx) (same he)
        case newSub t => simp only [effect] at he; simp at hr; subst hr; exact app _ rfl (fun _ _ hx => by cases hx) (same he)
        case newClose => simp only [effect] at he; simp at hr; subst hr; exact app _ rfl (fun _ _ hx => by cases hx) (same he)
        case cancel sid =>
          simp at hr; subst hr
          simp only [effect] at he
          split at he
          · have hk := flag _ he (fun q => rfl); exact tl_congr me s _ h rfl hk.1 hk.2
          · have hk := same he; exact tl_congr me s _ h rfl hk.1 hk.2
        case senderDone d sid =>
          split at hr
          · simp at hr; subst hr
            simp only [effect] at he
            have hk : (q'.isSome = true → s.sub.isSome = true) ∧ (∀ q, s.sub = some q → q.closed = true → ∃ q2, q' = some q2 ∧ q2.closed = true) := by
              by_cases hsm : sid = me
              · rw [if_pos hsm] at he
                split at he
                · split at he
                  · exact same he
                  · cases he
                · cases he
              · rw [if_neg hsm] at he; exact same he
            exact tl_congr me s _ h (by simp [GcReg.finishSender]) hk.1 hk.2
          · simp at hr
        case step i =>
          split at hr
          · rename_i t rest pc ao hth
            have ho : ∀ t' pc', GcReg.Th.pub t rest pc ao ≠ GcReg.Th.td t' me pc' := fun _ _ hx => by cases hx
            have hn : ∀ (r2 : List Nat) (pc2 : GcReg.PPc) t' pc', GcReg.Th.pub t r2 pc2 ao ≠ GcReg.Th.td t' me pc' := fun _ _ _ _ hx => by cases hx
            cases pc <;> simp only [GcReg.stepPub] at hr
            case start =>
              simp only [effect, hth] at he
              split at hr
              · simp at hr
              · split at hr <;> (simp at hr; subst hr; exact other i _ _ hth rfl ho (hn _ _) (same he))
            case rlock =>
              simp only [effect, hth] at he
              split at hr
              · simp at hr
              · simp at hr; subst hr; exact other i _ _ hth rfl ho (hn _ _) (same he)
            case tlock =>
              simp only [effect, hth] at he
              split at hr
              · simp at hr; subst hr; exact other i _ _ hth rfl ho (hn _ _) (same he)
              · simp at hr
            case persist =>
              simp only [effect, hth] at he
              split at hr
              · split at hr <;> (simp at hr; subst hr; exact other i _ _ hth rfl ho (hn _ _) (same he))
              · simp at hr; subst hr; exact other i _ _ hth rfl ho (hn _ _) (same he)
            case send =>
              split at hr
              · simp only [effect, hth] at he
                simp at hr; subst hr; exact other i _ _ hth rfl ho (hn _ _) (same he)
              · rename_i m r
                simp only [effect, hth] at he
                have hk : (q'.isSome = true → s.sub.isSome = true) ∧ (∀ q, s.sub = some q → q.closed = true → ∃ q2, q' = some q2 ∧ q2.closed = true) := by
                  by_cases hc : (GcReg.subsOf s.reg t).contains me = true
                  · rw [if_pos hc] at he; injection he with he
                    obtain ⟨a1, a2⟩ := spawn1_keeps (some s.reg.disp.length) (s.sub, s.snd) m
                    rw [he] at a1 a2
                    exact ⟨by intro hx; rw [a1] at hx; exact hx, fun q hq hcl => a2 q hq hcl⟩
                  · rw [if_neg hc] at he; exact same he
                split at hr
                · simp at hr; subst hr
                  exact other i _ (GcReg.Th.pub t r (.wait s.reg.disp.length) ao) hth (by simp [GcReg.setTh]) ho (hn _ _) hk
                · simp at hr; subst hr
                  exact other i _ (GcReg.Th.pub t r .send ao) hth (by simp [GcReg.setTh]) ho (hn _ _) hk
            case wait d =>
              simp only [effect, hth] at he
              split at hr
              · simp at hr; subst hr; exact other i _ _ hth rfl ho (hn _ _) (same he)
              · simp at hr
            case unlock =>
              simp only [effect, hth] at he
              simp at hr; subst hr
              cases ao with
              | none => exact other i _ _ hth rfl ho (fun _ _ hx => by cases hx) (same he)
              | some p => exact other i _ (GcReg.Th.pub t rest .retOk (some p)) hth (by simp [GcReg.setTh]) ho (fun _ _ hx => by cases hx) (same he)
            case retOk => simp at hr
            case retErr => simp at hr
          · rename_i t sid pc hth
            have ho : ∀ t' pc', GcReg.Th.sub t sid pc ≠ GcReg.Th.td t' me pc' := fun _ _ hx => by cases hx
            have hn : ∀ (sid2 : Nat) (pc2 : GcReg.UPc) t' pc', GcReg.Th.sub t sid2 pc2 ≠ GcReg.Th.td t' me pc' := fun _ _ _ _ hx => by cases hx
            cases pc <;> simp only [GcReg.stepSub] at hr
            case start =>
              simp only [effect, hth] at he
              split at hr
              · simp at hr
              · split at hr <;> (simp at hr; subst hr; exact other i _ _ hth rfl ho (hn _ _) (same he))
            case wqueue => simp only [effect, hth] at he; simp at hr; subst hr; exact other i _ _ hth rfl ho (hn _ _) (same he)
            case announce =>
              simp only [effect, hth] at he
              split at hr
              · simp at hr; subst hr; exact other i _ _ hth rfl ho (hn _ _) (same he)
              · simp at hr
            case drain =>
              simp only [effect, hth] at he
              split at hr
              · simp at hr; subst hr; exact other i _ _ hth rfl ho (hn _ _) (same he)
              · simp at hr
            case tlock =>
              simp only [effect, hth] at he
              split at hr
              · simp at hr; subst hr
                -- the subscriber object and its unsubscribe goroutine are created together
                obtain ⟨t1, t2⟩ := h
                have hi : i < s.reg.ths.length := (List.getElem?_eq_some_iff.mp hth).1
                have hlen : (s.reg.ths.set i (GcReg.Th.sub t s.reg.nextSid .register)).length = s.reg.ths.length := List.length_set
                by_cases hme : s.reg.nextSid = me
                · rw [if_pos hme] at he
                  have hnone : s.sub = none := by
                    cases hs : s.sub with
                    | none => rfl
                    | some q => have := hl.created.mp (by rw [hs]; rfl); omega
                  simp only [hnone] at he
                  injection he with he; injection he with e1 e2; subst e1
                  refine ⟨?_, ?_⟩
                  · intro _
                    refine ⟨s.reg.ths.length, t, .idle, ?_⟩
                    simp only [GcReg.setTh]
                    rw [List.getElem?_append_right (by rw [hlen]; exact Nat.le_refl _), hlen, hme]; simp
                  · intro j t' pc' hj hp
                    simp only [GcReg.setTh] at hj
                    rcases get_append_cases _ _ _ _ hj with ⟨_, hj'⟩ | ⟨_, hth'⟩
                    · rcases get_set_cases _ _ _ _ _ hj' with ⟨_, hx⟩ | ⟨_, hj''⟩
                      · cases hx
                      · obtain ⟨q, hq, _⟩ := t2 j t' pc' hj'' hp
                        rw [hnone] at hq; cases hq
                    · injection hth' with _ _ e3; subst e3; simp [pastClose] at hp
                · rw [if_neg hme] at he
                  have hk := same he
                  refine ⟨?_, ?_⟩
                  · intro hs
                    obtain ⟨j, t', pc', hj⟩ := t1 (hk.1 hs)
                    refine ⟨j, t', pc', ?_⟩
                    simp only [GcReg.setTh]
                    by_cases hji : j = i
                    · subst hji; rw [hth] at hj; cases hj
                    · exact append_get_of_get _ _ _ _ (set_get_of_ne _ _ _ _ _ hji hj)
                  · intro j t' pc' hj hp
                    simp only [GcReg.setTh] at hj
                    rcases get_append_cases _ _ _ _ hj with ⟨_, hj'⟩ | ⟨_, hth'⟩
                    · rcases get_set_cases _ _ _ _ _ hj' with ⟨_, hx⟩ | ⟨_, hj''⟩
                      · cases hx
                      · obtain ⟨q, hq, hc⟩ := t2 j t' pc' hj'' hp
                        exact hk.2 q hq hc
                    · injection hth' with _ e2 _; exact absurd e2.symm hme
              · simp at hr
            case register =>
              simp only [effect, hth] at he
              simp at hr; subst hr
              have hk : (q'.isSome = true → s.sub.isSome = true) ∧ (∀ q, s.sub = some q → q.closed = true → ∃ q2, q' = some q2 ∧ q2.closed = true) := by
                by_cases hsm : sid = me
                · rw [if_pos hsm] at he; injection he with he
                  obtain ⟨a1, a2⟩ := foldl_spawn1_keeps none
                    (if s.reg.cfg.persistent && !s.reg.logNil then (s.reg.log.filter (fun e => e.1 == t)).map (·.2) else []) (s.sub, s.snd)
                  rw [he] at a1 a2
                  exact ⟨by intro hx; rw [a1] at hx; exact hx, fun q hq hcl => a2 q hq hcl⟩
                · rw [if_neg hsm] at he; exact same he
              exact other i _ (GcReg.Th.sub t sid .retOk) hth (by simp [GcReg.setTh]) ho (hn _ _) hk
            case retOk => simp at hr
            case retErr => simp at hr
          · rename_i t sid pc hth
            by_cases hsm : sid = me
            · -- `me`'s own unsubscribe goroutine
              subst hsm
              have mv : ∀ (pc' : GcReg.TPc), r'.ths = s.reg.ths.set i (.td t sid pc') → q' = s.sub →
                  (pastClose pc' = true → pastClose pc = true ∨ ∃ q, s.sub = some q ∧ q.closed = true) → TdLink sid ⟨r', q', snd'⟩ :=
                fun pc' e0 e1 e2 => tl_move sid s _ h i t pc pc' hth e0 e1 e2
              have subEq : some (s.sub, s.snd) = some (q', snd') → q' = s.sub := by
                intro e; injection e with e; injection e with e1 _; exact e1.symm
              cases pc <;> simp only [GcReg.stepTd] at hr
              case idle =>
                simp only [effect, hth] at he
                split at hr
                · simp at hr; subst hr; exact mv _ rfl (subEq he) (by simp [pastClose])
                · simp at hr
              case subClosed =>
                simp only [effect, hth] at he
                simp at hr; subst hr
                simp only [if_true] at he
                split at he
                · rename_i q hq
                  split at he
                  · rename_i hdone
                    refine mv _ rfl (subEq he) (fun _ => Or.inr ⟨q, hq, ?_⟩)
                    have hctl := GcSub.reach_ctl cap q (reach_sub sid cap cfg s hreach q hq)
                    exact hctl.2.2.1.mpr hdone
                  · cases he
                · cases he
              case announce =>
                simp only [effect, hth] at he
                split at hr
                · simp at hr; subst hr; exact mv _ rfl (subEq he) (fun _ => Or.inl rfl)
                · simp at hr
              case drain =>
                simp only [effect, hth] at he
                split at hr
                · simp at hr; subst hr; exact mv _ rfl (subEq he) (fun _ => Or.inl rfl)
                · simp at hr
              case tlock =>
                simp only [effect, hth] at he
                split at hr
                · simp at hr; subst hr; exact mv _ rfl (subEq he) (fun _ => Or.inl rfl)
                · simp at hr
              case remove =>
                simp only [effect, hth] at he
                split at hr
                · split at hr
                  · simp at hr; subst hr; have hk := same he; exact tl_congr sid s _ h rfl hk.1 hk.2
                  · simp at hr; subst hr; exact mv .done (by simp [GcReg.setTh]) (subEq he) (fun _ => Or.inl rfl)
                · simp at hr; subst hr; have hk := same he; exact tl_congr sid s _ h rfl hk.1 hk.2
              case done => simp at hr
            · have ho : ∀ t' pc', GcReg.Th.td t sid pc ≠ GcReg.Th.td t' me pc' := fun _ _ hx => by injection hx with _ e _; exact hsm e
              have hn : ∀ (pc2 : GcReg.TPc) t' pc', GcReg.Th.td t sid pc2 ≠ GcReg.Th.td t' me pc' := fun _ _ _ hx => by injection hx with _ e _; exact hsm e
              cases pc <;> simp only [GcReg.stepTd] at hr
              case idle =>
                simp only [effect, hth] at he
                split at hr
                · simp at hr; subst hr; exact other i _ _ hth rfl ho (hn _) (same he)
                · simp at hr
              case subClosed =>
                simp only [effect, hth] at he
                simp at hr; subst hr
                rw [if_neg hsm] at he
                exact other i _ _ hth rfl ho (hn _) (same he)
              case announce =>
                simp only [effect, hth] at he
                split at hr
                · simp at hr; subst hr; exact other i _ _ hth rfl ho (hn _) (same he)
                · simp at hr
              case drain =>
                simp only [effect, hth] at he
                split at hr
                · simp at hr; subst hr; exact other i _ _ hth rfl ho (hn _) (same he)
                · simp at hr
              case tlock =>
                simp only [effect, hth] at he
                split at hr
                · simp at hr; subst hr; exact other i _ _ hth rfl ho (hn _) (same he)
                · simp at hr
              case remove =>
                simp only [effect, hth] at he
                split at hr
                · split at hr
                  · simp at hr; subst hr; have hk := same he; exact tl_congr me s _ h rfl hk.1 hk.2
                  · simp at hr; subst hr; exact other i _ (GcReg.Th.td t sid .done) hth (by simp [GcReg.setTh]) ho (hn _) (same he)
                · simp at hr; subst hr; have hk := same he; exact tl_congr me s _ h rfl hk.1 hk.2
              case done => simp at hr
          · rename_i pc hth
            have ho : ∀ t' pc', GcReg.Th.closer pc ≠ GcReg.Th.td t' me pc' := fun _ _ hx => by cases hx
            have hn : ∀ (pc2 : GcReg.CPc) t' pc', GcReg.Th.closer pc2 ≠ GcReg.Th.td t' me pc' := fun _ _ _ hx => by cases hx
            cases pc <;> simp only [GcReg.stepCloser] at hr
            case start =>
              simp only [effect, hth] at he
              split at hr
              · simp at hr
              · split at hr
                · simp at hr; subst hr
                  split at he
                  · exact other i _ _ hth rfl ho (hn _) (flag _ he (fun q => rfl))
                  · exact other i _ _ hth rfl ho (hn _) (same he)
                · simp at hr; subst hr
                  split at he
                  · exact other i _ (GcReg.Th.closer .waitWg) hth (by simp [GcReg.setTh]) ho (hn _) (flag _ he (fun q => rfl))
                  · exact other i _ (GcReg.Th.closer .waitWg) hth (by simp [GcReg.setTh]) ho (hn _) (same he)
            case waitWg =>
              simp only [effect, hth] at he
              split at hr
              · simp at hr; subst hr; exact other i _ (GcReg.Th.closer .ret) hth (by simp [GcReg.setTh]) ho (hn _) (same he)
              · simp at hr
            case ret => simp at hr
          · simp at hr

end Wm.GcProd
