/-
  Helper lemmas for the termination clauses of C18: a measure on one listener that every listener step
  decreases and only a delivery to that listener raises; counting of the `close(replyChan)` and
  `OnListenForReplyFinished` steps; stability of "the context has ended".
-/
import WmModel.Lemmas.ReqReplyInv
namespace Wm.ReqReply
open Wm.Lts

/-! ### generic counting lemmas (runs of an `Lts.Sys`) -/

/-- steps of class `P` strictly decrease `μ`, steps of class `Q` raise it by at most `c`, the others do not
    raise it: the number of `P` steps of any run is bounded by `μ` plus `c` per `Q` step -/
theorem steps_bounded_credit {σ α : Type} (S : Sys σ α) (μ : σ → Nat) (P Q : α → Bool) (c : Nat)
    (hdec : ∀ s a s', Reach S s → S.act s a = some s' → P a = true → μ s' < μ s)
    (hcred : ∀ s a s', Reach S s → S.act s a = some s' → P a = false → Q a = true → μ s' ≤ μ s + c)
    (hmono : ∀ s a s', Reach S s → S.act s a = some s' → P a = false → Q a = false → μ s' ≤ μ s) :
    ∀ (run : List α) (s s' : σ), Reach S s → exec S s run = some s' →
      (run.filter P).length + μ s' ≤ μ s + c * (run.filter Q).length := by
  intro run
  induction run with
  | nil => intro s s' _ h; simp [exec] at h; subst h; simp
  | cons a rest ih =>
    intro s s' hr h
    simp only [exec] at h
    cases hact : S.act s a with
    | none => simp [hact] at h
    | some s1 =>
      simp [hact] at h
      have := ih s1 s' (Reach.step hr hact) h
      cases hp : P a with
      | true =>
        have h1 := hdec _ _ _ hr hact hp
        cases hq : Q a with
        | true => simp [List.filter, hp, hq, Nat.mul_add]; omega
        | false => simp [List.filter, hp, hq]; omega
      | false =>
        cases hq : Q a with
        | true =>
          have h1 := hcred _ _ _ hr hact hp hq
          simp [List.filter, hp, hq, Nat.mul_add]; omega
        | false =>
          have h1 := hmono _ _ _ hr hact hp hq
          simp [List.filter, hp, hq]; omega

/-- steps of class `P` lower `μ` by exactly one and nothing else changes it: the number of `P` steps of a run is
    exactly the drop of `μ` -/
theorem steps_counted {σ α : Type} (S : Sys σ α) (μ : σ → Nat) (P : α → Bool)
    (hdec : ∀ s a s', Reach S s → S.act s a = some s' → P a = true → μ s' + 1 = μ s)
    (hsame : ∀ s a s', Reach S s → S.act s a = some s' → P a = false → μ s' = μ s) :
    ∀ (run : List α) (s s' : σ), Reach S s → exec S s run = some s' →
      (run.filter P).length + μ s' = μ s := by
  intro run
  induction run with
  | nil => intro s s' _ h; simp [exec] at h; subst h; simp
  | cons a rest ih =>
    intro s s' hr h
    simp only [exec] at h
    cases hact : S.act s a with
    | none => simp [hact] at h
    | some s1 =>
      simp [hact] at h
      have := ih s1 s' (Reach.step hr hact) h
      cases hp : P a with
      | true => have := hdec _ _ _ hr hact hp; simp [List.filter, hp]; omega
      | false => have := hsame _ _ _ hr hact hp; simp [List.filter, hp]; omega

/-! ### the listener measure -/

def rank : Pc → Nat
  | .done => 0 | .ret2 => 1 | .ret1 => 2 | .ret0 => 3 | .loop => 4 | .send _ => 5

/-- two per unconsumed notification (consume it, perhaps send its reply) plus the rank of the program counter -/
def mu (l : Listener) : Nat := 2 * l.inbox.length + rank l.pc

def muAt (s : St) (i : Nat) : Nat :=
  match s.ls[i]? with
  | some l => mu l
  | none => 4         -- a listener that does not exist yet will start at `loop` with an empty inbox

/-- 1 until `close(replyChan)` ran -/
def cm (l : Listener) : Nat := if pcClosed l.pc then 0 else 1
def cmAt (s : St) (i : Nat) : Nat :=
  match s.ls[i]? with
  | some l => cm l
  | none => 1

/-- 1 until `OnListenForReplyFinished` ran -/
def fm (l : Listener) : Nat := if l.pc = .done then 0 else 1
def fmAt (s : St) (i : Nat) : Nat :=
  match s.ls[i]? with
  | some l => fm l
  | none => 1

theorem lstep_mu {fixed : Bool} {l l' : Listener} {a : LAct} (hcl : l.chanClosed = pcClosed l.pc)
    (h : lstep fixed l a = some l') : mu l' < mu l := by
  cases a <;> simp only [lstep] at h
  all_goals (repeat' split at h)
  all_goals (try (simp at h))
  all_goals (try (obtain ⟨_, h⟩ := h))
  all_goals (try subst h)
  all_goals (simp_all [mu, rank, push, pcClosed])
  all_goals (try (split <;> simp_all [rank]))
  all_goals (try omega)

theorem cstep_pc {l l' : Listener} {a : CAct} (h : cstep l a = some l') : l'.pc = l.pc ∧ l'.inbox = l.inbox := by
  cases a <;> simp only [cstep] at h
  all_goals (repeat' split at h)
  all_goals (try (simp at h))
  all_goals (try subst h)
  all_goals (exact ⟨rfl, rfl⟩)

theorem lstep_ctx {fixed : Bool} {l l' : Listener} {a : LAct} (h : lstep fixed l a = some l') (hc : l.ctx ≠ .live) :
    l'.ctx ≠ .live := by
  cases a <;> simp only [lstep] at h
  all_goals (repeat' split at h)
  all_goals (try (simp at h))
  all_goals (try (obtain ⟨_, h⟩ := h))
  all_goals (try subst h)
  all_goals (simp_all [push])
  all_goals (try (split <;> simp_all))

theorem cstep_ctx {l l' : Listener} {a : CAct} (h : cstep l a = some l') (hc : l.ctx ≠ .live) : l'.ctx ≠ .live := by
  cases a <;> simp only [cstep] at h
  all_goals (repeat' split at h)
  all_goals (try (simp at h))
  all_goals (try subst h)
  all_goals (simp_all)

/-- with the repaired code a listener whose context has ended can always move on its own -/
theorem lstep_progress (l : Listener) (hc : l.ctx ≠ .live) (hd : l.pc ≠ .done) :
    ∃ a, (lstep true l a).isSome = true := by
  cases hpc : l.pc with
  | loop =>
    refine ⟨.ctx, ?_⟩
    cases hx : l.ctx with
    | live => exact absurd hx hc
    | canceled => simp only [lstep, hpc, hx, Ctx.why]; split <;> simp
    | deadline => simp only [lstep, hpc, hx, Ctx.why]; split <;> simp
  | send r =>
    refine ⟨.sendCtx, ?_⟩
    cases hx : l.ctx with
    | live => exact absurd hx hc
    | canceled => simp [lstep, hpc, hx]
    | deadline => simp [lstep, hpc, hx]
  | ret0 => exact ⟨.cancel, by simp [lstep, hpc]⟩
  | ret1 => exact ⟨.close, by simp only [lstep, hpc]; split <;> simp⟩
  | ret2 => exact ⟨.finish, by simp [lstep, hpc]⟩
  | done => exact absurd hpc hd

/-! ### how one system step touches listener `i` -/

theorem updL_get {s s' : St} {i j : Nat} {f : Listener → Option Listener} {l : Listener}
    (h : updL s j f = some s') (hl : s.ls[i]? = some l) :
    (j = i ∧ ∃ l', f l = some l' ∧ s'.ls[i]? = some l') ∨ (j ≠ i ∧ s'.ls[i]? = some l) := by
  obtain ⟨x, x', hx, hf, hs'⟩ := updL_some h
  subst hs'
  by_cases hji : j = i
  · left
    subst hji
    rw [hl] at hx; simp at hx; subst hx
    have hlt : j < s.ls.length := (List.getElem?_eq_some_iff.mp hl).1
    exact ⟨rfl, x', hf, by simp [List.getElem?_set, hlt]⟩
  · right
    exact ⟨hji, by simp [List.getElem?_set, hji, hl]⟩

theorem updL_none_get {s s' : St} {i j : Nat} {f : Listener → Option Listener}
    (h : updL s j f = some s') (hl : s.ls[i]? = none) : j ≠ i ∧ s'.ls[i]? = none := by
  obtain ⟨x, x', hx, hf, hs'⟩ := updL_some h
  subst hs'
  have hji : j ≠ i := by
    intro hji; subst hji; rw [hl] at hx; simp at hx
  exact ⟨hji, by simp [List.getElem?_set, hji, hl]⟩

/-- the effect of one step of the system on listener `i`, when it exists -/
inductive Touch (fixed : Bool) (i : Nat) (l : Listener) : Action → Listener → Prop
  | lact (a : LAct) (l' : Listener) : lstep fixed l a = some l' → Touch fixed i l (.l i a) l'
  | cact (a : CAct) (l' : Listener) : cstep l a = some l' → Touch fixed i l (.c i a) l'
  | dlv (k : Nat) (n : Notif) :
      Touch fixed i l (.deliver i k) { l with inbox := l.inbox ++ [n], delivered := l.delivered + 1,
                                               ownDelivered := l.ownDelivered + (if n.op = l.op then 1 else 0) }
  | other (a : Action) : isL i a = false → isDeliver i a = false → (∀ c, a ≠ .c i c) → Touch fixed i l a l

theorem step_touch {fixed : Bool} {s s' : St} {a : Action} {i : Nat} {l : Listener}
    (h : act fixed s a = some s') (hl : s.ls[i]? = some l) : ∃ l', s'.ls[i]? = some l' ∧ Touch fixed i l a l' := by
  have hlt : i < s.ls.length := (List.getElem?_eq_some_iff.mp hl).1
  cases a with
  | newReq =>
    simp only [act] at h; simp at h; subst h
    exact ⟨l, by simp [List.getElem?_append_left hlt, hl], .other _ rfl rfl (by intro c hc; cases hc)⟩
  | process pre op o p =>
    simp only [act] at h; simp at h; subst h
    exact ⟨l, hl, .other _ rfl rfl (by intro c hc; cases hc)⟩
  | deliver j k =>
    simp only [act] at h
    split at h
    · rename_i n hn
      rcases updL_get h hl with ⟨hji, l', hf, hl'⟩ | ⟨hji, hl'⟩
      · subst hji; simp at hf; subst hf
        exact ⟨_, hl', .dlv k n⟩
      · refine ⟨l, hl', .other _ rfl ?_ (by intro c hc; cases hc)⟩
        simp [isDeliver]; omega
    · simp at h
  | l j a =>
    simp only [act] at h
    rcases updL_get h hl with ⟨hji, l', hf, hl'⟩ | ⟨hji, hl'⟩
    · subst hji; exact ⟨l', hl', .lact a l' hf⟩
    · refine ⟨l, hl', .other _ ?_ rfl (by intro c hc; cases hc)⟩
      simp [isL]; omega
  | c j a =>
    simp only [act] at h
    rcases updL_get h hl with ⟨hji, l', hf, hl'⟩ | ⟨hji, hl'⟩
    · subst hji; exact ⟨l', hl', .cact a l' hf⟩
    · refine ⟨l, hl', .other _ rfl rfl ?_⟩
      intro c hc; injection hc with h1 _; exact hji h1

/-- a step on a state without listener `i`: afterwards it still does not exist, or the step was the `newReq` that
    created it (fresh, at `loop`) -/
theorem step_absent {fixed : Bool} {s s' : St} {a : Action} {i : Nat}
    (h : act fixed s a = some s') (hl : s.ls[i]? = none) :
    isL i a = false ∧ isDeliver i a = false ∧
      (s'.ls[i]? = none ∨ ∃ op, s'.ls[i]? = some (Listener.new op)) := by
  have hge : s.ls.length ≤ i := by
    rcases Nat.lt_or_ge i s.ls.length with hlt | hge
    · have : s.ls[i]? = some s.ls[i] := List.getElem?_eq_getElem hlt
      rw [hl] at this; cases this
    · exact hge
  cases a with
  | newReq =>
    simp only [act] at h; simp at h; subst h
    refine ⟨rfl, rfl, ?_⟩
    simp only [List.getElem?_append_right hge]
    cases hd : i - s.ls.length with
    | zero => right; exact ⟨s.nextOp, by simp⟩
    | succ m => left; simp
  | process pre op o p =>
    simp only [act] at h; simp at h; subst h
    exact ⟨rfl, rfl, Or.inl hl⟩
  | deliver j k =>
    simp only [act] at h
    split at h
    · obtain ⟨hji, hn⟩ := updL_none_get h hl
      refine ⟨rfl, ?_, Or.inl hn⟩
      simp [isDeliver]; omega
    · simp at h
  | l j a =>
    simp only [act] at h
    obtain ⟨hji, hn⟩ := updL_none_get h hl
    refine ⟨?_, rfl, Or.inl hn⟩
    simp [isL]; omega
  | c j a =>
    simp only [act] at h
    obtain ⟨hji, hn⟩ := updL_none_get h hl
    exact ⟨rfl, rfl, Or.inl hn⟩

end Wm.ReqReply
