import WmModel.Lemmas.GcSubCtl
namespace Wm.GcSub
open Wm.Ack (Sent)

/-! ### how `UnsC` reacts to the four kinds of updates of `copies` -/

theorem unsC_append_fresh (cs : List Copy) (p c : Nat) :
    UnsC (cs ++ [⟨p, false, false, .none⟩]) c ↔ UnsC cs c := by
  unfold UnsC
  constructor
  · rintro ⟨cp, h, hd, hs⟩
    rw [List.getElem?_append] at h
    split at h
    · exact ⟨cp, h, hd, hs⟩
    · rcases hc : c - cs.length with _ | n
      · simp [hc] at h; subst h; simp at hd
      · simp [hc] at h
  · rintro ⟨cp, h, hd, hs⟩
    have hlt : c < cs.length := by
      rcases List.getElem?_eq_some_iff.mp h with ⟨hlt, _⟩; exact hlt
    exact ⟨cp, by rw [List.getElem?_append_left hlt]; exact h, hd, hs⟩

theorem unsC_modify_frame (cs : List Copy) (c0 c : Nat) (f : Copy → Copy)
    (hf : ∀ cp, (f cp).delivered = cp.delivered ∧ (f cp).settle = cp.settle) :
    UnsC (cs.modify c0 f) c ↔ UnsC cs c := by
  unfold UnsC
  rw [List.getElem?_modify]
  constructor
  · rintro ⟨cp, h, hd, hs⟩
    cases hcs : cs[c]? with
    | none => simp [hcs] at h
    | some cp0 =>
      simp [hcs] at h
      subst h
      refine ⟨cp0, rfl, ?_, ?_⟩ <;> split at hd <;> simp_all
  · rintro ⟨cp, h, hd, hs⟩
    simp only [h, Option.map_eq_map, Option.map_some]
    refine ⟨_, rfl, ?_, ?_⟩ <;> split <;> simp_all

theorem unsC_modify_deliver (cs : List Copy) (c0 c : Nat) (f : Copy → Copy)
    (hf : ∀ cp, (f cp).delivered = true ∧ (f cp).settle = cp.settle) :
    UnsC (cs.modify c0 f) c ↔
      UnsC cs c ∨ (c = c0 ∧ ∃ cp, cs[c0]? = some cp ∧ cp.settle = .none) := by
  unfold UnsC
  rw [List.getElem?_modify]
  constructor
  · rintro ⟨cp, h, hd, hs⟩
    cases hcs : cs[c]? with
    | none => simp [hcs] at h
    | some cp0 =>
      simp [hcs] at h
      subst h
      by_cases hc : c0 = c
      · subst hc; right; simp [hf] at hs; exact ⟨rfl, cp0, hcs, hs⟩
      · left; simp [hc] at hd hs; exact ⟨cp0, rfl, hd, hs⟩
  · rintro (⟨cp, h, hd, hs⟩ | ⟨hc, cp, h, hs⟩)
    · simp only [h, Option.map_eq_map, Option.map_some]
      refine ⟨_, rfl, ?_, ?_⟩ <;> split <;> simp_all
    · subst hc
      simp only [h, Option.map_eq_map, Option.map_some]
      exact ⟨_, rfl, by simp [hf], by simp [hf, hs]⟩

theorem unsC_modify_settle (cs : List Copy) (c0 c : Nat) (v : Sent) (hv : v ≠ .none) :
    UnsC (cs.modify c0 (fun cp => { cp with settle := if cp.settle = .none then v else cp.settle })) c ↔
      UnsC cs c ∧ c ≠ c0 := by
  unfold UnsC
  rw [List.getElem?_modify]
  constructor
  · rintro ⟨cp, h, hd, hs⟩
    cases hcs : cs[c]? with
    | none => simp [hcs] at h
    | some cp0 =>
      simp [hcs] at h
      subst h
      by_cases hc : c0 = c
      · subst hc
        simp at hs
        by_cases h0 : cp0.settle = .none <;> simp_all
      · simp [hc] at hd hs
        exact ⟨⟨cp0, rfl, hd, hs⟩, fun h => hc h.symm⟩
  · rintro ⟨⟨cp, h, hd, hs⟩, hc⟩
    simp only [h, Option.map_eq_map, Option.map_some]
    have : ¬ c0 = c := fun h => hc h.symm
    exact ⟨_, rfl, by simp [this, hd], by simp [this, hs]⟩

end Wm.GcSub
