import WmModel.Lemmas.GcRegSubLive
namespace Wm.GcReg

/-- blocking mode, before the Pub/Sub signals closing: a dispatcher that still waits for a sender of subscription `sid` has its
    Publish call inside `waitForAckFromSubscribers` (holding the mutex of its topic), and `sid` is a subscription of that topic -/
def DwOk (s : St) : Prop :=
  s.cfg.blocking = true → s.closingSig = false →
    ∀ (d sid : Nat), sid ∈ (s.disp[d]?.getD []) →
      ∃ (i t : Nat) (r : List Nat) (ao : Option (Nat × Nat)), s.ths[i]? = some (Th.pub t r (.wait d) ao) ∧
        ∃ (j : Nat) (pc : TPc), s.ths[j]? = some (Th.td t sid pc)

theorem dw_init (cfg : Cfg) : DwOk (init cfg) := by
  intro _ _ d sid h; simp [init] at h

theorem dw_frame (s u : St) (hcfg : u.cfg = s.cfg) (hcl : u.closingSig = false → s.closingSig = false)
    (hdisp : ∀ (d sid : Nat), sid ∈ (u.disp[d]?.getD []) → sid ∈ (s.disp[d]?.getD []))
    (hw : u.closingSig = false → ∀ (i t : Nat) (r : List Nat) (d : Nat) (ao : Option (Nat × Nat)),
        s.ths[i]? = some (Th.pub t r (.wait d) ao) → (∃ sid, sid ∈ (u.disp[d]?.getD [])) →
        u.ths[i]? = some (Th.pub t r (.wait d) ao))
    (htd : ∀ (j t sid : Nat) (pc : TPc), s.ths[j]? = some (Th.td t sid pc) → ∃ pc', u.ths[j]? = some (Th.td t sid pc'))
    (h : DwOk s) : DwOk u := by
  intro hb hc d sid hm
  obtain ⟨i, t, r, ao, hi, j, pc, hj⟩ := h (by rw [← hcfg]; exact hb) (hcl hc) d sid (hdisp d sid hm)
  obtain ⟨pc', hj'⟩ := htd j t sid pc hj
  exact ⟨i, t, r, ao, hw hc i t r d ao hi ⟨sid, hm⟩, j, pc', hj'⟩

theorem dw_congr (s u : St) (h0 : u.ths = s.ths) (h1 : u.cfg = s.cfg) (h2 : u.closingSig = s.closingSig) (h3 : u.disp = s.disp)
    (h : DwOk s) : DwOk u := by
  unfold DwOk at *; rw [h0, h1, h2, h3]; exact h

/-- thread `i` moves; it was not inside the wait; an unsubscribe goroutine stays one -/
theorem dw_set (s u : St) (i : Nat) (old new : Th) (hold : s.ths[i]? = some old) (hths : u.ths = s.ths.set i new)
    (hcfg : u.cfg = s.cfg) (hcl : u.closingSig = false → s.closingSig = false)
    (hdisp : ∀ (d sid : Nat), sid ∈ (u.disp[d]?.getD []) → sid ∈ (s.disp[d]?.getD []))
    (ho : ∀ t r d ao, old ≠ Th.pub t r (.wait d) ao)
    (htdo : ∀ t sid pc, old = Th.td t sid pc → ∃ pc', new = Th.td t sid pc') (h : DwOk s) : DwOk u := by
  have hi : i < s.ths.length := (List.getElem?_eq_some_iff.mp hold).1
  refine dw_frame s u hcfg hcl hdisp ?_ ?_ h
  · intro _ j t r d ao hj _
    rw [hths]
    by_cases hji : j = i
    · subst hji; rw [hold] at hj; injection hj with hj; exact absurd hj (ho _ _ _ _)
    · exact set_get_of_ne _ _ _ _ _ hji hj
  · intro j t sid pc hj
    by_cases hji : j = i
    · subst hji; rw [hold] at hj; injection hj with hj
      obtain ⟨pc', hn⟩ := htdo t sid pc hj
      exact ⟨pc', by rw [hths, hn]; exact List.getElem?_set_self hi⟩
    · exact ⟨pc, by rw [hths]; exact set_get_of_ne _ _ _ _ _ hji hj⟩

theorem dw_append (s u : St) (new : Th) (hths : u.ths = s.ths ++ [new]) (hcfg : u.cfg = s.cfg)
    (hcl : u.closingSig = s.closingSig) (hdisp : u.disp = s.disp) (h : DwOk s) : DwOk u := by
  refine dw_frame s u hcfg (by rw [hcl]; exact fun x => x) (by rw [hdisp]; exact fun _ _ x => x) ?_ ?_ h
  · intro _ j t r d ao hj _; rw [hths]; exact append_get_of_get _ _ _ _ hj
  · intro j t sid pc hj; exact ⟨pc, by rw [hths]; exact append_get_of_get _ _ _ _ hj⟩

theorem mem_modify_erase (l : List (List Nat)) (d d' sid sid' : Nat)
    (h : sid' ∈ ((l.modify d (fun x => x.erase sid))[d']?.getD [])) : sid' ∈ (l[d']?.getD []) := by
  rw [List.getElem?_modify] at h
  cases hl : l[d']? with
  | none => simp [hl] at h
  | some x =>
    simp only [hl, Option.map_some, Option.getD_some] at h ⊢
    split at h
    · exact List.mem_of_mem_erase h
    · exact h

theorem dw_step (s : St) (a : Action) (s' : St) (hsl : SubLive s) (h : DwOk s) (ha : act s a = some s') : DwOk s' := by
  cases a <;> simp only [act] at ha
  case newPub t msgs nested =>
    cases nested with
    | none => simp at ha; subst ha; exact dw_append s _ _ rfl rfl rfl rfl h
    | some p =>
      simp only at ha
      split at ha
      · simp at ha; subst ha; exact dw_append s _ _ rfl rfl rfl rfl h
      · simp at ha
  case newSub t => simp at ha; subst ha; exact dw_append s _ _ rfl rfl rfl rfl h
  case newClose => simp at ha; subst ha; exact dw_append s _ _ rfl rfl rfl rfl h
  case cancel sid => simp at ha; subst ha; exact dw_congr s _ rfl rfl rfl rfl h
  case senderDone d sid =>
    split at ha
    · simp at ha; subst ha
      refine dw_frame s _ rfl (fun x => x) ?_ (fun _ _ _ _ _ _ hj _ => hj) (fun j t sid pc hj => ⟨pc, hj⟩) h
      intro d' sid' hm
      exact mem_modify_erase _ _ _ _ _ hm
    · simp at ha
  case step i =>
    split at ha
    · rename_i t rest pc ao hth
      have keep : ∀ (u : St) (r' : List Nat) (pc' : PPc), (∀ d, pc ≠ .wait d) → u.ths = s.ths.set i (Th.pub t r' pc' ao) →
          u.cfg = s.cfg → u.closingSig = s.closingSig → u.disp = s.disp → DwOk u :=
        fun u r' pc' hp e0 e1 e2 e3 => dw_set s u i _ _ hth e0 e1 (by rw [e2]; exact fun x => x) (by rw [e3]; exact fun _ _ x => x)
          (fun _ _ d _ hx => by injection hx with _ _ hx _; exact hp d hx) (fun _ _ _ hx => by cases hx) h
      cases pc <;> simp only [stepPub] at ha
      case start =>
        split at ha
        · simp at ha
        · split at ha <;> (simp at ha; subst ha; exact keep _ _ _ (fun _ hx => by cases hx) rfl rfl rfl rfl)
      case rlock =>
        split at ha
        · simp at ha
        · simp at ha; subst ha; exact keep _ _ _ (fun _ hx => by cases hx) rfl rfl rfl rfl
      case tlock =>
        split at ha
        · simp at ha; subst ha; exact keep _ _ _ (fun _ hx => by cases hx) rfl rfl rfl rfl
        · simp at ha
      case persist =>
        split at ha
        · split at ha <;> (simp at ha; subst ha; exact keep _ _ _ (fun _ hx => by cases hx) rfl rfl rfl rfl)
        · simp at ha; subst ha; exact keep _ _ _ (fun _ hx => by cases hx) rfl rfl rfl rfl
      case send =>
        split at ha
        · simp at ha; subst ha; exact keep _ _ _ (fun _ hx => by cases hx) rfl rfl rfl rfl
        · rename_i m r
          have hi : i < s.ths.length := (List.getElem?_eq_some_iff.mp hth).1
          split at ha
          · simp at ha; subst ha
            intro hb hc d sid hm
            simp only [setTh] at hm hb hc ⊢
            by_cases hd : d < s.disp.length
            · rw [List.getElem?_append_left hd] at hm
              obtain ⟨i', t', r', ao', hi', j, pc, hj⟩ := h hb hc d sid hm
              have hne : i' ≠ i := by intro hx; subst hx; rw [hth] at hi'; cases hi'
              have hnej : j ≠ i := by intro hx; subst hx; rw [hth] at hj; cases hj
              exact ⟨i', t', r', ao', set_get_of_ne _ _ _ _ _ hne hi', j, pc, set_get_of_ne _ _ _ _ _ hnej hj⟩
            · have hdl : d = s.disp.length := by
                rcases Nat.lt_or_ge s.disp.length d with hlt | hge
                · rw [List.getElem?_eq_none (by simp; omega)] at hm; simp at hm
                · omega
              subst hdl
              simp at hm
              have hsub : (sid, t) ∈ s.subs := by
                simp only [subsOf, List.mem_map, List.mem_filter] at hm
                obtain ⟨x, ⟨hx1, hx2⟩, hx3⟩ := hm
                obtain ⟨x1, x2⟩ := x
                simp at hx2 hx3; subst hx2; subst hx3; exact hx1
              obtain ⟨j, pc, hj, _⟩ := hsl sid t hsub
              have hnej : j ≠ i := by intro hx; subst hx; rw [hth] at hj; cases hj
              exact ⟨i, t, r, ao, List.getElem?_set_self hi, j, pc, set_get_of_ne _ _ _ _ _ hnej hj⟩
          · rename_i hnb
            simp at ha; subst ha
            intro hb; simp only [setTh] at hb; rw [hb] at hnb; exact absurd rfl hnb
      case wait d =>
        split at ha
        · rename_i hcond
          simp at ha; subst ha
          refine dw_frame s _ rfl (fun x => x) (fun _ _ x => x) ?_ ?_ h
          · intro hc j t' r' d' ao' hj hex
            simp only [setTh] at hc hex ⊢
            by_cases hji : j = i
            · subst hji; rw [hth] at hj; injection hj with hj; injection hj with _ _ e3 _; injection e3 with e3; subst e3
              obtain ⟨sid, hm⟩ := hex
              simp [hc] at hcond
              rw [hcond] at hm; simp at hm
            · exact set_get_of_ne _ _ _ _ _ hji hj
          · intro j t' sid pc hj
            have hnej : j ≠ i := by intro hx; subst hx; rw [hth] at hj; cases hj
            exact ⟨pc, by simp only [setTh]; exact set_get_of_ne _ _ _ _ _ hnej hj⟩
        · simp at ha
      case unlock =>
        simp at ha; subst ha
        cases ao with
        | none => exact keep _ _ _ (fun _ hx => by cases hx) rfl rfl rfl rfl
        | some p => exact keep _ rest .retOk (fun _ hx => by cases hx) (by simp [setTh]) (by simp [setTh]) (by simp [setTh]) (by simp [setTh])
      case retOk => simp at ha
      case retErr => simp at ha
    · rename_i t sid pc hth
      have keep : ∀ (u : St) (sid' : Nat) (pc' : UPc), u.ths = s.ths.set i (Th.sub t sid' pc') →
          u.cfg = s.cfg → u.closingSig = s.closingSig → u.disp = s.disp → DwOk u :=
        fun u sid' pc' e0 e1 e2 e3 => dw_set s u i _ _ hth e0 e1 (by rw [e2]; exact fun x => x) (by rw [e3]; exact fun _ _ x => x)
          (fun _ _ _ _ hx => by cases hx) (fun _ _ _ hx => by cases hx) h
      cases pc <;> simp only [stepSub] at ha
      case start =>
        split at ha
        · simp at ha
        · split at ha <;> (simp at ha; subst ha; exact keep _ _ _ rfl rfl rfl rfl)
      case wqueue => simp at ha; subst ha; exact keep _ _ _ rfl rfl rfl rfl
      case announce =>
        split at ha
        · simp at ha; subst ha; exact keep _ _ _ rfl rfl rfl rfl
        · simp at ha
      case drain =>
        split at ha
        · simp at ha; subst ha; exact keep _ _ _ rfl rfl rfl rfl
        · simp at ha
      case tlock =>
        split at ha
        · simp at ha; subst ha
          let mid : St := { s with ths := s.ths.set i (Th.sub t s.nextSid UPc.register) }
          have hmid : DwOk mid := keep mid _ _ rfl rfl rfl rfl
          exact dw_append mid _ (Th.td t s.nextSid TPc.idle) (by simp [setTh, mid]) (by simp [setTh, mid]) (by simp [setTh, mid])
            (by simp [setTh, mid]) hmid
        · simp at ha
      case register => simp at ha; subst ha; exact keep _ sid .retOk (by simp [setTh]) (by simp [setTh]) (by simp [setTh]) (by simp [setTh])
      case retOk => simp at ha
      case retErr => simp at ha
    · rename_i t sid pc hth
      have move : ∀ (u : St) (pc' : TPc), u.ths = s.ths.set i (Th.td t sid pc') →
          u.cfg = s.cfg → u.closingSig = s.closingSig → u.disp = s.disp → DwOk u :=
        fun u pc' e0 e1 e2 e3 => dw_set s u i _ _ hth e0 e1 (by rw [e2]; exact fun x => x) (by rw [e3]; exact fun _ _ x => x)
          (fun _ _ _ _ hx => by cases hx)
          (fun t' sid' pc0 hx => by injection hx with e1 e2 _; subst e1; subst e2; exact ⟨pc', rfl⟩) h
      cases pc <;> simp only [stepTd] at ha
      case idle =>
        split at ha
        · simp at ha; subst ha; exact move _ _ rfl rfl rfl rfl
        · simp at ha
      case subClosed => simp at ha; subst ha; exact move _ _ rfl rfl rfl rfl
      case announce =>
        split at ha
        · simp at ha; subst ha; exact move _ _ rfl rfl rfl rfl
        · simp at ha
      case drain =>
        split at ha
        · simp at ha; subst ha; exact move _ _ rfl rfl rfl rfl
        · simp at ha
      case tlock =>
        split at ha
        · simp at ha; subst ha; exact move _ _ rfl rfl rfl rfl
        · simp at ha
      case remove =>
        split at ha
        · split at ha
          · simp at ha; subst ha; exact dw_congr s _ rfl rfl rfl rfl h
          · simp at ha; subst ha; exact move _ .done (by simp [setTh]) (by simp [setTh]) (by simp [setTh]) (by simp [setTh])
        · simp at ha; subst ha; exact dw_congr s _ rfl rfl rfl rfl h
      case done => simp at ha
    · rename_i pc hth
      have keep : ∀ (u : St) (pc' : CPc), u.ths = s.ths.set i (Th.closer pc') →
          u.cfg = s.cfg → (u.closingSig = false → s.closingSig = false) → u.disp = s.disp → DwOk u :=
        fun u pc' e0 e1 e2 e3 => dw_set s u i _ _ hth e0 e1 e2 (by rw [e3]; exact fun _ _ x => x)
          (fun _ _ _ _ hx => by cases hx) (fun _ _ _ hx => by cases hx) h
      cases pc <;> simp only [stepCloser] at ha
      case start =>
        split at ha
        · simp at ha
        · split at ha
          · simp at ha; subst ha; exact keep _ _ rfl rfl (fun x => x) rfl
          · simp at ha; subst ha; exact keep _ .waitWg (by simp [setTh]) (by simp [setTh]) (by simp [setTh]) (by simp [setTh])
      case waitWg =>
        split at ha
        · simp at ha; subst ha; exact keep _ .ret (by simp [setTh]) (by simp [setTh]) (by simp [setTh]) (by simp [setTh])
        · simp at ha
      case ret => simp at ha
    · simp at ha

end Wm.GcReg
