import WmModel.Lemmas.GcRegAux
import WmModel.Lemmas.GcRegWg
import WmModel.Lemmas.GcRegClose
namespace Wm.GcReg

/-- a Subscribe inside its critical region has a live unsubscribe goroutine; the backlog is dropped only when no
    subscription is left -/
def LiveOk (s : St) : Prop :=
  (∀ (i t sid : Nat), s.ths[i]? = some (Th.sub t sid UPc.register) →
      ∃ (j : Nat) (pc : TPc), s.ths[j]? = some (Th.td t sid pc) ∧ pc ≠ TPc.done) ∧
  (s.logNil = true → s.wg = 0)

theorem live_init (cfg : Cfg) : LiveOk (init cfg) := by simp [LiveOk, init]

theorem live_congr (s u : St) (h1 : u.ths = s.ths) (h2 : u.logNil = s.logNil) (h3 : u.wg = s.wg) (h : LiveOk s) : LiveOk u := by
  unfold LiveOk at *; rw [h1, h2, h3]; exact h

/-- thread `i`, neither an unsubscribe goroutine nor a Subscribe at `register` (before and after), moves -/
theorem live_set_other (s u : St) (i : Nat) (old new : Th) (hold : s.ths[i]? = some old)
    (hths : u.ths = s.ths.set i new) (h2 : u.logNil = s.logNil) (h3 : u.wg = s.wg)
    (ho : ∀ t sid pc, old ≠ Th.td t sid pc) (hn : ∀ t sid, new ≠ Th.sub t sid UPc.register) (h : LiveOk s) : LiveOk u := by
  obtain ⟨y, z⟩ := h
  refine ⟨?_, by rw [h2, h3]; exact z⟩
  intro k t sid hk
  rw [hths] at hk
  rcases get_set_cases _ _ _ _ _ hk with ⟨_, hth⟩ | ⟨_, hk'⟩
  · exact absurd hth.symm (hn t sid)
  · obtain ⟨j, pc, hj, hpc⟩ := y k t sid hk'
    refine ⟨j, pc, ?_, hpc⟩
    rw [hths]
    by_cases hji : j = i
    · subst hji; rw [hold] at hj; injection hj with hj; exact absurd hj (ho t sid pc)
    · exact set_get_of_ne _ _ _ _ _ hji hj

theorem live_append (s u : St) (new : Th) (hn : ∀ t sid, new ≠ Th.sub t sid UPc.register)
    (hths : u.ths = s.ths ++ [new]) (h2 : u.logNil = s.logNil) (h3 : u.wg = s.wg) (h : LiveOk s) : LiveOk u := by
  obtain ⟨y, z⟩ := h
  refine ⟨?_, by rw [h2, h3]; exact z⟩
  intro k t sid hk
  rw [hths] at hk
  rcases get_append_cases _ _ _ _ hk with ⟨_, hk'⟩ | ⟨_, hth⟩
  · obtain ⟨j, pc, hj, hpc⟩ := y k t sid hk'
    exact ⟨j, pc, by rw [hths]; exact append_get_of_get _ _ _ _ hj, hpc⟩
  · exact absurd hth.symm (hn t sid)

/-- an unsubscribe goroutine moves between program counters other than `done` -/
theorem live_td_move (s u : St) (i t sid : Nat) (pc0 pc1 : TPc) (hold : s.ths[i]? = some (Th.td t sid pc0))
    (hths : u.ths = s.ths.set i (Th.td t sid pc1)) (h2 : u.logNil = s.logNil) (h3 : u.wg = s.wg)
    (h1 : pc1 ≠ TPc.done) (h : LiveOk s) : LiveOk u := by
  obtain ⟨y, z⟩ := h
  refine ⟨?_, by rw [h2, h3]; exact z⟩
  intro k t' sid' hk
  rw [hths] at hk
  rcases get_set_cases _ _ _ _ _ hk with ⟨_, hth⟩ | ⟨_, hk'⟩
  · cases hth
  · obtain ⟨j, pc, hj, hpc⟩ := y k t' sid' hk'
    by_cases hji : j = i
    · subst hji
      rw [hold] at hj; injection hj with hj; injection hj with e1 e2 e3
      subst e1; subst e2
      exact ⟨j, pc1, by rw [hths]; exact List.getElem?_set_self (List.getElem?_eq_some_iff.mp hold).1, h1⟩
    · exact ⟨j, pc, by rw [hths]; exact set_get_of_ne _ _ _ _ _ hji hj, hpc⟩

end Wm.GcReg

namespace Wm.GcReg

theorem live_step (s : St) (a : Action) (s' : St) (hw1 : W1 s) (hcl : CloseOk s) (h : LiveOk s)
    (ha : act s a = some s') : LiveOk s' := by
  have ⟨y, z⟩ := h
  have np_pub : ∀ (t : Nat) (r : List Nat) (pc : PPc) (ao : Option (Nat × Nat)),
      (∀ t' sid pc', Th.pub t r pc ao ≠ Th.td t' sid pc') ∧ (∀ t' sid, Th.pub t r pc ao ≠ Th.sub t' sid UPc.register) :=
    fun _ _ _ _ => ⟨fun _ _ _ hx => (by cases hx), fun _ _ hx => (by cases hx)⟩
  have np_closer : ∀ (pc : CPc),
      (∀ t' sid pc', Th.closer pc ≠ Th.td t' sid pc') ∧ (∀ t' sid, Th.closer pc ≠ Th.sub t' sid UPc.register) :=
    fun _ => ⟨fun _ _ _ hx => (by cases hx), fun _ _ hx => (by cases hx)⟩
  cases a <;> simp only [act] at ha
  case newPub t msgs nested =>
    cases nested with
    | none => simp at ha; subst ha; exact live_append s _ _ (np_pub _ _ _ _).2 rfl rfl rfl h
    | some p =>
      simp only at ha
      split at ha
      · simp at ha; subst ha; exact live_append s _ _ (np_pub _ _ _ _).2 rfl rfl rfl h
      · simp at ha
  case newSub t => simp at ha; subst ha; exact live_append s _ _ (by intro t' sid hx; cases hx) rfl rfl rfl h
  case newClose => simp at ha; subst ha; exact live_append s _ _ (np_closer _).2 rfl rfl rfl h
  case cancel sid => simp at ha; subst ha; exact live_congr s _ rfl rfl rfl h
  case senderDone d sid =>
    split at ha
    · simp at ha; subst ha; exact live_congr s _ rfl rfl rfl h
    · simp at ha
  case step i =>
    split at ha
    · rename_i t rest pc ao hth
      have keep : ∀ (u : St) (r' : List Nat) (pc' : PPc), u.ths = s.ths.set i (Th.pub t r' pc' ao) → u.logNil = s.logNil →
          u.wg = s.wg → LiveOk u :=
        fun u r' pc' e0 e1 e2 => live_set_other s u i _ _ hth e0 e1 e2 (np_pub _ _ _ _).1 (np_pub _ _ _ _).2 h
      cases pc <;> simp only [stepPub] at ha
      case start =>
        split at ha
        · simp at ha
        · split at ha <;> (simp at ha; subst ha; exact keep _ _ _ rfl rfl rfl)
      case rlock =>
        split at ha
        · simp at ha
        · simp at ha; subst ha; exact keep _ _ _ rfl rfl rfl
      case tlock =>
        split at ha
        · simp at ha; subst ha; exact keep _ _ _ rfl rfl rfl
        · simp at ha
      case persist =>
        split at ha
        · split at ha <;> (simp at ha; subst ha; exact keep _ _ _ rfl rfl rfl)
        · simp at ha; subst ha; exact keep _ _ _ rfl rfl rfl
      case send =>
        split at ha
        · simp at ha; subst ha; exact keep _ _ _ rfl rfl rfl
        · rename_i m r
          split at ha
          · simp at ha; subst ha; exact keep _ r (.wait s.disp.length) (by simp [setTh]) (by simp [setTh]) (by simp [setTh])
          · simp at ha; subst ha; exact keep _ r .send (by simp [setTh]) (by simp [setTh]) (by simp [setTh])
      case wait d =>
        split at ha
        · simp at ha; subst ha; exact keep _ _ _ rfl rfl rfl
        · simp at ha
      case unlock =>
        simp at ha; subst ha
        cases ao with
        | none => exact keep _ _ _ rfl rfl rfl
        | some p => exact keep _ rest .retOk (by simp [setTh, finishSender]) (by simp [setTh, finishSender]) (by simp [setTh, finishSender])
      case retOk => simp at ha
      case retErr => simp at ha
    · rename_i t sid pc hth
      have ho : ∀ t' sid' pc', Th.sub t sid pc ≠ Th.td t' sid' pc' := fun _ _ _ hx => by cases hx
      cases pc <;> simp only [stepSub] at ha
      case start =>
        split at ha
        · simp at ha
        · split at ha
          · simp at ha; subst ha
            exact live_set_other s _ i _ _ hth rfl rfl rfl ho (by intro t' sid' hx; cases hx) h
          · rename_i hncl
            simp at ha; subst ha
            -- a new subscription is admitted only while the Pub/Sub is open, hence the backlog is still there
            have hnl : s.logNil = false := by
              cases hx : s.logNil with
              | false => rfl
              | true => exact absurd (hcl.2.2.2 hx) hncl
            refine ⟨?_, by simp [setTh, hnl]⟩
            intro k t' sid' hk
            simp only [setTh] at hk
            rcases get_set_cases _ _ _ _ _ hk with ⟨_, hth'⟩ | ⟨hki, hk'⟩
            · cases hth'
            · obtain ⟨j, pc, hj, hpc⟩ := y k t' sid' hk'
              refine ⟨j, pc, ?_, hpc⟩
              simp only [setTh]
              by_cases hji : j = i
              · subst hji; rw [hth] at hj; cases hj
              · exact set_get_of_ne _ _ _ _ _ hji hj
      case wqueue => simp at ha; subst ha; exact live_set_other s _ i _ _ hth rfl rfl rfl ho (by intro t' sid' hx; cases hx) h
      case announce =>
        split at ha
        · simp at ha; subst ha; exact live_set_other s _ i _ _ hth rfl rfl rfl ho (by intro t' sid' hx; cases hx) h
        · simp at ha
      case drain =>
        split at ha
        · simp at ha; subst ha; exact live_set_other s _ i _ _ hth rfl rfl rfl ho (by intro t' sid' hx; cases hx) h
        · simp at ha
      case tlock =>
        split at ha
        · simp at ha; subst ha
          have hi : i < s.ths.length := (List.getElem?_eq_some_iff.mp hth).1
          refine ⟨?_, by simp [setTh]; exact z⟩
          intro k t' sid' hk
          simp only [setTh] at hk ⊢
          have hlen : (s.ths.set i (Th.sub t s.nextSid UPc.register)).length = s.ths.length := List.length_set
          rcases get_append_cases _ _ _ _ hk with ⟨_, hk'⟩ | ⟨_, hth'⟩
          · rcases get_set_cases _ _ _ _ _ hk' with ⟨_, hth'⟩ | ⟨hki, hk''⟩
            · injection hth' with e1 e2 _
              subst e1; subst e2
              refine ⟨s.ths.length, .idle, ?_, by decide⟩
              rw [List.getElem?_append_right (by rw [hlen]; exact Nat.le_refl _), hlen]; simp
            · have h1 := hw1 i _ hth rfl
              have h2 := hw1 k _ hk'' rfl
              rw [h1] at h2; injection h2 with h2; exact absurd h2.symm hki
          · cases hth'
        · simp at ha
      case register =>
        simp at ha; subst ha
        refine ⟨?_, by simp [setTh]; exact z⟩
        intro k t' sid' hk
        simp only [setTh] at hk
        rcases get_set_cases _ _ _ _ _ hk with ⟨_, hth'⟩ | ⟨hki, hk'⟩
        · cases hth'
        · have h1 := hw1 i _ hth rfl
          have h2 := hw1 k _ hk' rfl
          rw [h1] at h2; injection h2 with h2; exact absurd h2.symm hki
      case retOk => simp at ha
      case retErr => simp at ha
    · rename_i t sid pc hth
      cases pc <;> simp only [stepTd] at ha
      case idle =>
        split at ha
        · simp at ha; subst ha; exact live_td_move s _ i t sid _ _ hth rfl rfl rfl (by decide) h
        · simp at ha
      case subClosed => simp at ha; subst ha; exact live_td_move s _ i t sid _ _ hth rfl rfl rfl (by decide) h
      case announce =>
        split at ha
        · simp at ha; subst ha; exact live_td_move s _ i t sid _ _ hth rfl rfl rfl (by decide) h
        · simp at ha
      case drain =>
        split at ha
        · simp at ha; subst ha; exact live_td_move s _ i t sid _ _ hth rfl rfl rfl (by decide) h
        · simp at ha
      case tlock =>
        split at ha
        · simp at ha; subst ha; exact live_td_move s _ i t sid _ _ hth rfl rfl rfl (by decide) h
        · simp at ha
      case remove =>
        split at ha
        · split at ha
          · simp at ha; subst ha; exact live_congr s _ rfl rfl rfl h
          · rename_i hwg
            simp at ha; subst ha
            have hnl : s.logNil = false := by
              cases hx : s.logNil with
              | false => rfl
              | true => exact absurd (z hx) hwg
            refine ⟨?_, by simp [setTh, hnl]⟩
            -- no Subscribe can be at `register` while this goroutine holds the write lock
            intro k t' sid' hk
            simp only [setTh] at hk
            rcases get_set_cases _ _ _ _ _ hk with ⟨_, hth'⟩ | ⟨hki, hk'⟩
            · cases hth'
            · have h1 := hw1 i _ hth rfl
              have h2 := hw1 k _ hk' rfl
              rw [h1] at h2; injection h2 with h2; exact absurd h2.symm hki
        · simp at ha; subst ha; exact live_congr s _ rfl rfl rfl h
      case done => simp at ha
    · rename_i pc hth
      cases pc <;> simp only [stepCloser] at ha
      case start =>
        split at ha
        · simp at ha
        · split at ha <;>
            (simp at ha; subst ha; exact live_set_other s _ i _ _ hth rfl rfl rfl (np_closer _).1 (np_closer _).2 h)
      case waitWg =>
        split at ha
        · rename_i hwg
          simp at ha; subst ha
          refine ⟨?_, by intro _; simp [setTh]; exact hwg⟩
          intro k t' sid' hk
          simp only [setTh] at hk
          rcases get_set_cases _ _ _ _ _ hk with ⟨_, hth'⟩ | ⟨_, hk'⟩
          · cases hth'
          · obtain ⟨j, pc, hj, hpc⟩ := y k t' sid' hk'
            refine ⟨j, pc, ?_, hpc⟩
            simp only [setTh]
            by_cases hji : j = i
            · subst hji; rw [hth] at hj; cases hj
            · exact set_get_of_ne _ _ _ _ _ hji hj
        · simp at ha
      case ret => simp at ha
    · simp at ha

end Wm.GcReg
