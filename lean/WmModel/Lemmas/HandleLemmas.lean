/-
  Helper lemmas for C02 (kept apart from the property theorems in `Props/C02.lean`).
  * shape of `handle`: `body ++ [decision, done]`, the body holds no router settlement;
  * uniqueness of the split of a list around an element that occurs once;
  * interleavings of per-message effect lists and their projections.
-/
import WmModel.Handle
namespace Wm.Handle

variable {α : Type}

/-- the router's own settle effect -/
def decision (c : Cfg) (o : Outcome α) (p : PubOutcome) : Effect α :=
  match o.result with
  | .panics _ => .routerNack
  | .returns _ true => .routerNack
  | .returns outs false =>
    match (publishProduced c outs p).2 with
    | .accept => .routerAck
    | _ => .routerNack

/-- everything before the router's settle effect -/
def body (c : Cfg) (o : Outcome α) (p : PubOutcome) : List (Effect α) :=
  .handlerCalled :: (selfEff o.selfSettle ++
    match o.result with
    | .panics _ => [.recovered]
    | .returns _ true => []
    | .returns outs false =>
      .addCtx outs :: ((publishProduced c outs p).1 ++
        match (publishProduced c outs p).2 with
        | .panic => [.recovered]
        | _ => []))

theorem handle_eq (c : Cfg) (o : Outcome α) (p : PubOutcome) :
    handle c o p = body c o p ++ [decision c o p, .done] := by
  rcases o with ⟨s, r⟩
  cases r with
  | panics v => simp [handle, body, decision]
  | returns outs e =>
    cases e with
    | true => simp [handle, body, decision]
    | false =>
      simp only [handle, body, decision]
      cases h : (publishProduced c outs p).2 <;> simp [settleTail]

theorem selfEff_no_settle (s : Option Settle) : ∀ e ∈ (selfEff s : List (Effect α)), e.isRouterSettle = false := by
  intro e he
  cases s with
  | none => simp [selfEff] at he
  | some s => cases s <;> simp [selfEff] at he <;> subst he <;> rfl

theorem publishProduced_no_settle (c : Cfg) (outs : List α) (p : PubOutcome) :
    ∀ e ∈ (publishProduced c outs p).1, e.isRouterSettle = false := by
  intro e he
  cases outs with
  | nil => simp [publishProduced] at he
  | cons a as =>
    cases hk : c.kind <;> simp [publishProduced, hk] at he
    all_goals (rcases he with h | h <;> subst h <;> rfl)

theorem body_no_settle (c : Cfg) (o : Outcome α) (p : PubOutcome) :
    ∀ e ∈ body c o p, e.isRouterSettle = false := by
  intro e he
  rcases o with ⟨s, r⟩
  simp only [body, List.mem_cons, List.mem_append] at he
  rcases he with h | h | h
  · subst h; rfl
  · exact selfEff_no_settle s e h
  · cases r with
    | panics v => simp at h; subst h; rfl
    | returns outs er =>
      cases er with
      | true => simp at h
      | false =>
        simp only [List.mem_cons, List.mem_append] at h
        rcases h with h | h | h
        · subst h; rfl
        · exact publishProduced_no_settle c outs p e h
        · cases hp : (publishProduced c outs p).2 <;> simp [hp] at h
          subst h; rfl

theorem decision_isSettle (c : Cfg) (o : Outcome α) (p : PubOutcome) :
    (decision c o p).isRouterSettle = true := by
  rcases o with ⟨s, r⟩
  cases r with
  | panics v => rfl
  | returns outs e =>
    cases e with
    | true => rfl
    | false =>
      simp only [decision]
      cases (publishProduced c outs p).2 <;> rfl

/-- a list `l₁ ++ [d, e]` splits around an element `x` that is neither in `l₁` nor equal to `e` in one way only -/
theorem split_tail2 {β : Type} (x d e : β) (hxe : x ≠ e) :
    ∀ (l₁ pre suf : List β), x ∉ l₁ → l₁ ++ [d, e] = pre ++ x :: suf → pre = l₁ ∧ x = d ∧ suf = [e] := by
  intro l₁
  induction l₁ with
  | nil =>
    intro pre suf _ h
    match pre, h with
    | [], h => simp at h; exact ⟨rfl, h.1.symm, h.2.symm⟩
    | [a], h => simp at h; exact absurd h.2.1.symm hxe
    | a :: b :: rest, h => simp at h
  | cons b bs ih =>
    intro pre suf hl h
    match pre, h with
    | [], h => simp at h; exact absurd (by simp [h.1]) hl
    | a :: as, h =>
      simp at h
      have := ih as suf (fun hm => hl (List.mem_cons_of_mem _ hm)) h.2
      exact ⟨by rw [h.1, this.1], this.2⟩

/-- splitting `handle` at a router settle effect: the prefix is the body, the suffix is `[done]` -/
theorem handle_split (c : Cfg) (o : Outcome α) (p : PubOutcome) (x : Effect α) (hx : x.isRouterSettle = true)
    (pre suf : List (Effect α)) (h : handle c o p = pre ++ x :: suf) :
    pre = body c o p ∧ x = decision c o p ∧ suf = [.done] := by
  rw [handle_eq] at h
  have hb : x ∉ body c o p := fun hm => by
    have := body_no_settle c o p x hm
    rw [hx] at this; exact Bool.noConfusion this
  have hd : x ≠ .done := by intro hh; subst hh; simp [Effect.isRouterSettle] at hx
  exact split_tail2 x (decision c o p) .done hd (body c o p) pre suf hb h

end Wm.Handle
