/-
  List facts used by the Pipeline proofs: a list with a known element at index `i` is, as far as membership and
  sums are concerned, that element plus "the rest" (`eraseIdx i`); `set i b` is `b` plus the same rest.
-/
namespace Wm.Pipeline.ListLemmas

variable {α : Type}

theorem mem_iff_eraseIdx {l : List α} {i : Nat} {a : α} (h : l[i]? = some a) (x : α) :
    x ∈ l ↔ x = a ∨ x ∈ l.eraseIdx i := by
  induction l generalizing i with
  | nil => simp at h
  | cons b t ih =>
    cases i with
    | zero => simp at h; subst h; simp
    | succ j =>
      simp at h
      have := ih h
      simp [List.eraseIdx, this]
      constructor
      · rintro (h1 | h1 | h1)
        · exact Or.inr (Or.inl h1)
        · exact Or.inl h1
        · exact Or.inr (Or.inr h1)
      · rintro (h1 | h1 | h1)
        · exact Or.inr (Or.inl h1)
        · exact Or.inl h1
        · exact Or.inr (Or.inr h1)

theorem mem_set_iff {l : List α} {i : Nat} {a : α} (h : l[i]? = some a) (b x : α) :
    x ∈ l.set i b ↔ x = b ∨ x ∈ l.eraseIdx i := by
  induction l generalizing i with
  | nil => simp at h
  | cons c t ih =>
    cases i with
    | zero => simp
    | succ j =>
      simp at h
      have := ih h
      simp [List.eraseIdx, this]
      constructor
      · rintro (h1 | h1 | h1)
        · exact Or.inr (Or.inl h1)
        · exact Or.inl h1
        · exact Or.inr (Or.inr h1)
      · rintro (h1 | h1 | h1)
        · exact Or.inr (Or.inl h1)
        · exact Or.inl h1
        · exact Or.inr (Or.inr h1)

theorem sum_eraseIdx {l : List α} {i : Nat} {a : α} (h : l[i]? = some a) (w : α → Nat) :
    (l.map w).sum = w a + ((l.eraseIdx i).map w).sum := by
  induction l generalizing i with
  | nil => simp at h
  | cons c t ih =>
    cases i with
    | zero => simp at h; subst h; simp
    | succ j =>
      simp at h
      have := ih h
      simp [List.eraseIdx, this]
      omega

theorem sum_set {l : List α} {i : Nat} {a : α} (h : l[i]? = some a) (b : α) (w : α → Nat) :
    ((l.set i b).map w).sum = w b + ((l.eraseIdx i).map w).sum := by
  induction l generalizing i with
  | nil => simp at h
  | cons c t ih =>
    cases i with
    | zero => simp
    | succ j =>
      simp at h
      have := ih h
      simp only [List.set_cons_succ, List.map_cons, List.sum_cons, List.eraseIdx_cons_succ]
      omega

theorem sum_le_length_mul (l : List α) (w : α → Nat) (m : Nat) (h : ∀ x, x ∈ l → w x ≤ m) :
    (l.map w).sum ≤ l.length * m := by
  induction l with
  | nil => simp
  | cons c t ih =>
    have h1 := h c (by simp)
    have h2 := ih (fun x hx => h x (by simp [hx]))
    simp [Nat.succ_mul]
    omega

theorem length_le_foldr_max (ls : List (List α)) (l : List α) (h : l ∈ ls) :
    l.length ≤ (ls.map List.length).foldr max 0 := by
  induction ls with
  | nil => simp at h
  | cons c t ih =>
    simp at h ⊢
    rcases h with h | h
    · subst h; omega
    · have := ih h; omega

theorem length_eraseIdx_lt {l : List α} {i : Nat} {a : α} (h : l[i]? = some a) :
    (l.eraseIdx i).length + 1 = l.length := by
  have hi : i < l.length := by
    rcases Nat.lt_or_ge i l.length with h1 | h1
    · exact h1
    · simp [List.getElem?_eq_none h1] at h
  rw [List.length_eraseIdx]
  simp [hi]
  omega

end Wm.Pipeline.ListLemmas
