import WmModel.GcReg
import WmModel.Lts
namespace Wm.GcReg

def sys (cfg : Cfg) : Lts.Sys St Action := { init := init cfg, act := act }

/-- thread has announced itself as writer (holds the RWMutex's writer mutex) -/
def holdsW : Th → Bool
  | .sub _ _ .drain | .sub _ _ .tlock | .sub _ _ .register => true
  | .td _ _ .drain | .td _ _ .tlock | .td _ _ .remove => true
  | _ => false

/-- thread accounts for one unit of `subscribersWg` -/
def needsDone : Th → Bool
  | .sub _ _ .wqueue | .sub _ _ .announce | .sub _ _ .drain | .sub _ _ .tlock => true
  | .td _ _ .done => false
  | .td _ _ _ => true
  | _ => false

/-- invariant behind "removeSubscriber always finds its subscriber and the WaitGroup never goes negative" -/
def RegOk (s : St) : Prop :=
  s.panicked = false ∧
  -- W1: a thread past `announce` is the announced writer
  (∀ (i : Nat) (th : Th), s.ths[i]? = some th → holdsW th = true → s.ann = some i) ∧
  -- B1: a live unsubscribe goroutine's subscriber is registered, or its Subscribe is still inside the critical region
  (∀ (i t sid : Nat) (pc : TPc), s.ths[i]? = some (Th.td t sid pc) → pc ≠ TPc.done →
      (sid, t) ∈ s.subs ∨ ∃ j : Nat, s.ths[j]? = some (Th.sub t sid UPc.register)) ∧
  -- B2: the WaitGroup counts exactly the subscriptions on their way in or not yet removed
  (s.wg = s.ths.countP needsDone) ∧
  -- B3: subscription ids are fresh and unique per unsubscribe goroutine
  (∀ (i t sid : Nat) (pc : TPc), s.ths[i]? = some (Th.td t sid pc) → sid < s.nextSid) ∧
  (∀ (i j t t' sid : Nat) (pc pc' : TPc), s.ths[i]? = some (Th.td t sid pc) → s.ths[j]? = some (Th.td t' sid pc') → i = j) ∧
  (∀ (i t sid : Nat), s.ths[i]? = some (Th.sub t sid UPc.register) →
      sid < s.nextSid ∧ ∀ (j t' : Nat) (pc' : TPc), s.ths[j]? = some (Th.td t' sid pc') → t' = t)

theorem reg_init (cfg : Cfg) : RegOk (init cfg) := by
  simp [RegOk, init]

end Wm.GcReg

namespace Wm.GcReg

/-- is an unsubscribe goroutine or a Subscribe thread -/
def isSubOrTd : Th → Bool
  | .sub _ _ _ | .td _ _ _ => true
  | _ => false

theorem holdsW_of_not (th : Th) (h : isSubOrTd th = false) : holdsW th = false := by
  cases th <;> simp_all [isSubOrTd, holdsW]

theorem isSubOrTd_of_holdsW (th : Th) (h : holdsW th = true) : isSubOrTd th = true := by
  cases th <;> simp_all [isSubOrTd, holdsW]

theorem needsDone_of_not (th : Th) (h : isSubOrTd th = false) : needsDone th = false := by
  cases th <;> simp_all [isSubOrTd, needsDone]

theorem countP_set_same (l : List Th) (i : Nat) (old new : Th) (h : l[i]? = some old)
    (hp : needsDone new = needsDone old) : (l.set i new).countP needsDone = l.countP needsDone := by
  have hlt : i < l.length := (List.getElem?_eq_some_iff.mp h).1
  have hget : l[i] = old := (List.getElem?_eq_some_iff.mp h).2
  rw [List.countP_set hlt, hget, hp]
  by_cases hx : needsDone old = true
  · simp [hx]
    have : 0 < l.countP needsDone := by
      apply List.countP_pos_iff.mpr
      exact ⟨old, List.mem_of_getElem? h, hx⟩
    omega
  · simp [hx]

/-- frame: thread `i` (neither Subscribe nor unsubscribe) is replaced by another such thread; `ann`, `subs`, `wg`,
    `nextSid`, `panicked` unchanged -/
theorem regOk_set_neutral (s t : St) (i : Nat) (old new : Th) (hold : s.ths[i]? = some old)
    (ho : isSubOrTd old = false) (hn : isSubOrTd new = false)
    (hths : t.ths = s.ths.set i new) (hann : t.ann = s.ann) (hsubs : t.subs = s.subs) (hwg : t.wg = s.wg)
    (hsid : t.nextSid = s.nextSid) (hp : t.panicked = s.panicked) (h : RegOk s) : RegOk t := by
  obtain ⟨r0, r1, r2, r3, r4, r5, r6⟩ := h
  have hget : ∀ (j : Nat) (th : Th), t.ths[j]? = some th → isSubOrTd th = true → s.ths[j]? = some th := by
    intro j th hj hth
    rw [hths, List.getElem?_set] at hj
    split at hj
    · split at hj
      · injection hj with hj; subst hj; rw [hn] at hth; cases hth
      · cases hj
    · exact hj
  have hget' : ∀ (j : Nat) (th : Th), s.ths[j]? = some th → isSubOrTd th = true → t.ths[j]? = some th := by
    intro j th hj hth
    rw [hths, List.getElem?_set]
    split
    · rename_i hij; subst hij; rw [hold] at hj; injection hj with hj; subst hj; rw [ho] at hth; cases hth
    · exact hj
  refine ⟨by rw [hp]; exact r0, ?_, ?_, ?_, ?_, ?_, ?_⟩
  · intro j th hj hw
    have hst : isSubOrTd th = true := isSubOrTd_of_holdsW th hw
    rw [hann]; exact r1 j th (hget j th hj hst) hw
  · intro j tp sid pc hj hpc
    rw [hsubs]
    rcases r2 j tp sid pc (hget j _ hj rfl) hpc with h1 | ⟨k, hk⟩
    · exact Or.inl h1
    · exact Or.inr ⟨k, hget' k _ hk rfl⟩
  · rw [hwg, hths, r3]
    exact (countP_set_same s.ths i old new hold (by rw [needsDone_of_not _ ho, needsDone_of_not _ hn])).symm
  · intro j tp sid pc hj; rw [hsid]; exact r4 j tp sid pc (hget j _ hj rfl)
  · intro j k tp tp' sid pc pc' hj hk
    exact r5 j k tp tp' sid pc pc' (hget j _ hj rfl) (hget k _ hk rfl)
  · intro j tp sid hj
    obtain ⟨a1, a2⟩ := r6 j tp sid (hget j _ hj rfl)
    refine ⟨by rw [hsid]; exact a1, ?_⟩
    intro k tp' pc' hk
    exact a2 k tp' pc' (hget k _ hk rfl)

end Wm.GcReg
