import WmModel.Lemmas.GcSubOrd
namespace Wm.GcSub
open Wm.Ack (Sent)

theorem ord_step (s : St) (a : Action) (s' : St) (hctl : CtlOk s) (h : OrdOk s) (ha : act s a = some s') : OrdOk s' := by
  have keep : ∀ (u : St), u.copies = s.copies → u.exits = s.exits →
      (∀ p, (∃ pc c, s.holder = .sender p pc c) → ∃ pc c, u.holder = .sender p pc c) → OrdOk u :=
    fun u e1 e2 e3 => ord_congr s u e1 e2 e3 h
  cases a <;> simp only [act] at ha
  case spawn => simp at ha; subst ha; exact keep _ rfl rfl (fun _ x => x)
  case cancel => simp at ha; subst ha; exact keep _ rfl rfl (fun _ x => x)
  case gClose => simp at ha; subst ha; exact keep _ rfl rfl (fun _ x => x)
  case sLock k =>
    split at ha
    · rename_i p hfree hk
      simp at ha; subst ha
      exact keep _ rfl rfl (fun q ⟨pc, c, hq⟩ => by rw [hfree] at hq; cases hq)
    · simp at ha
  case sCheck =>
    split at ha
    · rename_i p c hh
      split at ha
      · simp at ha; subst ha; exact ord_exit s p _ c .closing hh h
      · simp at ha; subst ha
        exact keep _ rfl rfl (fun q ⟨pc, c', hq⟩ => by rw [hh] at hq; injection hq with e1 _ _; subst e1; exact ⟨_, _, rfl⟩)
    · simp at ha
  case sTop =>
    split at ha
    · rename_i p c hh
      split at ha
      · simp at ha; subst ha; exact ord_exit s p _ c .closed hh h
      · simp at ha; subst ha
        exact ord_append s _ p c _ rfl hh rfl rfl ⟨_, _, rfl⟩ h
    · simp at ha
  case sSend =>
    split at ha
    · rename_i p c hh
      have hhold : ∀ (u : St), u.holder = .sender p .waitSettle c →
          ∀ q, (∃ pc c', s.holder = .sender q pc c') → ∃ pc c', u.holder = .sender q pc c' := by
        intro u hu q ⟨pc, c', hq⟩
        rw [hh] at hq; injection hq with e1 _ _; subst e1; exact ⟨_, _, hu⟩
      split at ha
      · split at ha
        · simp at ha; subst ha; exact keep _ rfl rfl (fun _ x => x)
        · simp at ha; subst ha
          exact ord_modify s _ c _ rfl (fun cp => rfl) rfl (hhold _ rfl) h
      · split at ha
        · split at ha
          · simp at ha; subst ha; exact keep _ rfl rfl (fun _ x => x)
          · simp at ha; subst ha
            exact ord_modify s _ c _ rfl (fun cp => rfl) rfl (hhold _ rfl) h
        · simp at ha
    · simp at ha
  case sSendClosing =>
    split at ha
    · rename_i p c hh
      split at ha
      · simp at ha; subst ha; exact ord_exit s p _ c .closing hh h
      · simp at ha
    · simp at ha
  case sObsAck =>
    split at ha
    · rename_i p c hh
      split at ha
      · split at ha
        · simp at ha; subst ha; exact ord_exit s p _ c .acked hh h
        · simp at ha
      · simp at ha
    · simp at ha
  case sObsNack =>
    split at ha
    · rename_i p c hh
      split at ha
      · split at ha
        · simp at ha; subst ha
          exact keep _ rfl rfl (fun q ⟨pc, c', hq⟩ => by rw [hh] at hq; injection hq with e1 _ _; subst e1; exact ⟨_, _, rfl⟩)
        · simp at ha
      · simp at ha
    · simp at ha
  case sObsClosing =>
    split at ha
    · rename_i p c hh
      split at ha
      · simp at ha; subst ha; exact ord_exit s p _ c .closing hh h
      · simp at ha
    · simp at ha
  case recv =>
    split at ha
    · rename_i c rest hb
      simp at ha; subst ha
      exact ord_modify s _ c _ rfl (fun cp => rfl) rfl (fun _ x => x) h
    · simp at ha
  case settle c v =>
    split at ha
    · split at ha
      · simp at ha; subst ha
        exact ord_modify s _ c _ rfl (fun cp => rfl) rfl (fun _ x => x) h
      · simp at ha
    · simp at ha
  case tdStart =>
    split at ha
    · split at ha
      · simp at ha; subst ha; exact keep _ rfl rfl (fun _ x => x)
      · split at ha <;> (simp at ha; subst ha; exact keep _ rfl rfl (fun _ x => x))
    · simp at ha
  case tdLock =>
    split at ha
    · split at ha
      · rename_i hfree
        simp at ha; subst ha
        exact keep _ rfl rfl (fun q ⟨pc, c, hq⟩ => by rw [hfree] at hq; cases hq)
      · simp at ha
    · simp at ha
  case tdClose =>
    split at ha
    · rename_i hlocked
      have hcl : s.holder = .closer := hctl.2.2.2.2.1.mpr hlocked
      split at ha
      · simp at ha; subst ha; exact keep _ rfl rfl (fun _ x => x)
      · simp at ha; subst ha
        -- the closer holds the lock (`td = locked`), so no sender does
        exact keep _ rfl rfl (fun q ⟨pc, c, hq⟩ => by rw [hcl] at hq; cases hq)
    · simp at ha

end Wm.GcSub
