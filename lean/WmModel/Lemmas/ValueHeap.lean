/-
  Helper lemmas for C16: addressing in the heap model (`write`, `alloc`, `copy`, `setMany`),
  and the invariants `WF` (references point to allocated stores) and `Maps` (stores have no duplicate keys).
-/
import WmModel.Value
import WmModel.Lemmas.Value
namespace Wm.Value
namespace Heap

@[simp] theorem write_objs (h : Heap) (a : Nat) (k v : String) : (h.write a k v).objs = h.objs := rfl

@[simp] theorem write_stores_length (h : Heap) (a : Nat) (k v : String) :
    (h.write a k v).stores.length = h.stores.length := by simp [write]

theorem store_eq (h : Heap) (a : Nat) : h.store a = (h.stores[a]?).getD [] := by
  simp [store]

theorem store_write_ne (h : Heap) {a b : Nat} (hab : a ≠ b) (k v : String) :
    (h.write a k v).store b = h.store b := by
  simp [store_eq, write, hab]

theorem store_write_same (h : Heap) {a : Nat} (ha : a < h.stores.length) (k v : String) :
    (h.write a k v).store a = set (h.store a) k v := by
  simp [store_eq, write, ha]

/-- the reference held by object `i`, if the object exists and its map is not nil -/
def refOf (h : Heap) (i : Nat) : Option Nat := (h.objs[i]?).bind (·.ref)

theorem view_congr {g h : Heap} {x : Nat} (ho : g.objs[x]? = h.objs[x]?)
    (hs : ∀ a, h.refOf x = some a → g.store a = h.store a) : g.view x = h.view x := by
  unfold view
  rw [ho]
  cases hx : h.objs[x]? with
  | none => rfl
  | some o =>
    simp only [Option.map_some]
    cases hr : o.ref with
    | none => simp
    | some a =>
      have : h.refOf x = some a := by simp [refOf, hx, hr]
      simp [hs a this]

theorem view_write_of_ref_ne (h : Heap) {a x : Nat} (hne : h.refOf x ≠ some a) (k v : String) :
    (h.write a k v).view x = h.view x := by
  apply view_congr (by simp)
  intro b hb
  apply store_write_ne
  intro e; subst e; exact hne hb

theorem refOf_write (h : Heap) (a : Nat) (k v : String) (x : Nat) : (h.write a k v).refOf x = h.refOf x := by
  simp [refOf]

/-- writes through an object are invisible through every object holding a different reference -/
theorem setMany_view_of_ref_ne (h : Heap) (j x : Nat) (ws : List (String × String))
    (hne : ∀ a, h.refOf j = some a → h.refOf x ≠ some a) : (h.setMany j ws).view x = h.view x := by
  induction ws generalizing h with
  | nil => rfl
  | cons w rest ih =>
    obtain ⟨k, v⟩ := w
    unfold setMany
    cases hj : h.objs[j]? with
    | none => simp [setMeta, hj]
    | some o =>
      cases hr : o.ref with
      | none => simp [setMeta, hj, hr]
      | some a =>
        have href : h.refOf j = some a := by simp [refOf, hj, hr]
        simp only [setMeta, hj, hr]
        rw [ih (h.write a k v) (by intro b hb; rw [refOf_write] at hb ⊢; exact hne b hb)]
        exact view_write_of_ref_ne h (hne a href) k v

/-- … and they do not change which objects exist or what they refer to -/
theorem setMany_objs (h : Heap) (j : Nat) (ws : List (String × String)) : (h.setMany j ws).objs = h.objs := by
  induction ws generalizing h with
  | nil => rfl
  | cons w rest ih =>
    obtain ⟨k, v⟩ := w
    unfold setMany
    cases hj : h.objs[j]? with
    | none => simp [setMeta, hj]
    | some o =>
      cases hr : o.ref with
      | none => simp [setMeta, hj, hr]
      | some a => simp only [setMeta, hj, hr]; rw [ih]; rfl

/-! ### a run of writes at one address -/

def writeAll (h : Heap) (a : Nat) (es : List (String × String)) : Heap :=
  es.foldl (fun hh kv => hh.write a kv.1 kv.2) h

@[simp] theorem writeAll_objs (h : Heap) (a : Nat) (es) : (h.writeAll a es).objs = h.objs := by
  induction es generalizing h with
  | nil => rfl
  | cons e r ih => simp [writeAll, List.foldl_cons] at ih ⊢; rw [ih]; rfl

@[simp] theorem writeAll_stores_length (h : Heap) (a : Nat) (es) :
    (h.writeAll a es).stores.length = h.stores.length := by
  induction es generalizing h with
  | nil => rfl
  | cons e r ih => simp [writeAll, List.foldl_cons] at ih ⊢; rw [ih]; simp

theorem store_writeAll_ne (h : Heap) {a b : Nat} (hab : a ≠ b) (es) : (h.writeAll a es).store b = h.store b := by
  induction es generalizing h with
  | nil => rfl
  | cons e r ih => simp only [writeAll, List.foldl_cons] at ih ⊢; rw [ih]; exact store_write_ne h hab _ _

theorem store_writeAll_same (h : Heap) {a : Nat} (ha : a < h.stores.length) (es) :
    (h.writeAll a es).store a = setAll (h.store a) es := by
  induction es generalizing h with
  | nil => rfl
  | cons e r ih =>
    simp only [writeAll, List.foldl_cons, setAll] at ih ⊢
    rw [ih (h.write a e.1 e.2) (by simpa using ha), store_write_same h ha]

/-! ### alloc and copy -/

theorem alloc_objs (h : Heap) (u p) : (h.alloc u p).objs = h.objs ++ [⟨u, p, some h.stores.length⟩] := rfl

theorem store_alloc_old (h : Heap) (u p) {b : Nat} (hb : b < h.stores.length) : (h.alloc u p).store b = h.store b := by
  simp [store_eq, alloc, List.getElem?_append_left hb]

theorem store_alloc_new (h : Heap) (u p) : (h.alloc u p).store h.stores.length = [] := by
  simp [store_eq, alloc]

/-- everything `copy` does, in one statement -/
theorem copy_spec {h h' : Heap} {i : Nat} (hc : h.copy i = some h') :
    ∃ m, h.view i = some m ∧
      h'.objs = h.objs ++ [⟨m.uuid, m.payload, some h.stores.length⟩] ∧
      h'.stores.length = h.stores.length + 1 ∧
      (∀ b, b < h.stores.length → h'.store b = h.store b) ∧
      h'.store h.stores.length = setAll [] m.md := by
  unfold copy at hc
  cases hv : h.view i with
  | none => simp [hv] at hc
  | some m =>
    simp only [hv, Option.some.injEq] at hc
    subst hc
    refine ⟨m, rfl, ?_, ?_, ?_, ?_⟩
    · show (writeAll (h.alloc m.uuid m.payload) h.stores.length m.md).objs = _
      rw [writeAll_objs]; rfl
    · show (writeAll (h.alloc m.uuid m.payload) h.stores.length m.md).stores.length = _
      rw [writeAll_stores_length]; simp [alloc]
    · intro b hb
      show (writeAll (h.alloc m.uuid m.payload) h.stores.length m.md).store b = _
      rw [store_writeAll_ne _ (by omega), store_alloc_old h _ _ hb]
    · show (writeAll (h.alloc m.uuid m.payload) h.stores.length m.md).store h.stores.length = _
      rw [store_writeAll_same _ (by simp [alloc]), store_alloc_new]

theorem refOf_lt_of_wf {h : Heap} (hw : h.WF) {x a : Nat} (hx : h.refOf x = some a) : a < h.stores.length := by
  unfold refOf at hx
  cases ho : h.objs[x]? with
  | none => simp [ho] at hx
  | some o =>
    simp [ho] at hx
    exact hw o (List.mem_of_getElem? ho) a hx

/-! ### invariants -/

theorem wf_empty : Heap.empty.WF := by intro o ho; simp [empty] at ho
theorem maps_empty : Heap.empty.Maps := by intro s hs; simp [empty] at hs

theorem wf_of_objs_stores {g h : Heap} (hw : h.WF) (ho : g.objs = h.objs) (hl : g.stores.length = h.stores.length) : g.WF := by
  intro o hmem a ha
  rw [ho] at hmem; rw [hl]; exact hw o hmem a ha

theorem wf_write {h : Heap} (hw : h.WF) (a k v) : (h.write a k v).WF :=
  wf_of_objs_stores hw rfl (by simp)

theorem maps_write {h : Heap} (hm : h.Maps) (a k v) : (h.write a k v).Maps := by
  intro s hs
  simp only [write] at hs
  rcases List.mem_or_eq_of_mem_set hs with h1 | h1
  · exact hm s h1
  · subst h1
    apply set_noDup
    unfold store
    by_cases ha : a < h.stores.length
    · rw [List.getD_eq_getElem?_getD, List.getElem?_eq_getElem ha]
      exact hm _ (List.getElem_mem ha)
    · rw [List.getD_eq_getElem?_getD, List.getElem?_eq_none (by omega)]
      simp [NoDupKeys, keys]

theorem wf_alloc {h : Heap} (hw : h.WF) (u p) : (h.alloc u p).WF := by
  intro o hmem a ha
  simp only [alloc, List.mem_append, List.mem_singleton, List.length_append, List.length_cons, List.length_nil] at hmem ⊢
  rcases hmem with h1 | h1
  · have := hw o h1 a ha; omega
  · subst h1; simp at ha; omega

theorem maps_alloc {h : Heap} (hm : h.Maps) (u p) : (h.alloc u p).Maps := by
  intro s hs
  simp only [alloc, List.mem_append, List.mem_singleton] at hs
  rcases hs with h1 | h1
  · exact hm s h1
  · subst h1; simp [NoDupKeys, keys]

theorem wf_writeAll {h : Heap} (hw : h.WF) (a es) : (h.writeAll a es).WF := by
  induction es generalizing h with
  | nil => exact hw
  | cons e r ih => exact ih (wf_write hw a e.1 e.2)

theorem maps_writeAll {h : Heap} (hm : h.Maps) (a es) : (h.writeAll a es).Maps := by
  induction es generalizing h with
  | nil => exact hm
  | cons e r ih => exact ih (maps_write hm a e.1 e.2)

theorem wf_copy {h h' : Heap} {i : Nat} (hw : h.WF) (hc : h.copy i = some h') : h'.WF := by
  unfold copy at hc
  cases hv : h.view i with
  | none => simp [hv] at hc
  | some m =>
    simp only [hv, Option.some.injEq] at hc
    subst hc
    exact wf_writeAll (wf_alloc hw _ _) _ _

theorem maps_copy {h h' : Heap} {i : Nat} (hm : h.Maps) (hc : h.copy i = some h') : h'.Maps := by
  unfold copy at hc
  cases hv : h.view i with
  | none => simp [hv] at hc
  | some m =>
    simp only [hv, Option.some.injEq] at hc
    subst hc
    exact maps_writeAll (maps_alloc hm _ _) _ _

theorem wf_lit {h : Heap} (hw : h.WF) (u p) : (h.lit u p).WF := by
  intro o hmem a ha
  simp only [lit, List.mem_append, List.mem_singleton] at hmem ⊢
  rcases hmem with h1 | h1
  · exact hw o h1 a ha
  · subst h1; simp at ha

theorem wf_alias {h h' : Heap} {i : Nat} (hw : h.WF) (hc : h.alias i = some h') : h'.WF := by
  unfold alias at hc
  cases ho : h.objs[i]? with
  | none => simp [ho] at hc
  | some o =>
    simp only [ho, Option.map_some, Option.some.injEq] at hc
    subst hc
    intro o' hmem a ha
    simp only [List.mem_append, List.mem_singleton] at hmem
    rcases hmem with h1 | h1
    · exact hw o' h1 a ha
    · subst h1; exact hw o' (List.mem_of_getElem? ho) a ha

theorem wf_setObj {h : Heap} (hw : h.WF) {i : Nat} {o o' : Obj} (ho : h.objs[i]? = some o) (hr : o'.ref = o.ref) :
    ({ h with objs := h.objs.set i o' } : Heap).WF := by
  intro x hmem a ha
  rcases List.mem_or_eq_of_mem_set hmem with h1 | h1
  · exact hw x h1 a ha
  · subst h1; rw [hr] at ha; exact hw o (List.mem_of_getElem? ho) a ha

/-- the view of a well-formed heap with maps is a well-formed message -/
theorem view_wf {h : Heap} (hm : h.Maps) {i : Nat} {m : Msg} (hv : h.view i = some m) : m.WF := by
  unfold view at hv
  cases ho : h.objs[i]? with
  | none => simp [ho] at hv
  | some o =>
    simp only [ho, Option.map_some, Option.some.injEq] at hv
    subst hv
    unfold Msg.WF Msg.md
    cases hr : o.ref with
    | none => simp [NoDupKeys, keys]
    | some a =>
      simp only [Option.map_some, Option.getD_some]
      unfold store
      by_cases ha : a < h.stores.length
      · rw [List.getD_eq_getElem?_getD, List.getElem?_eq_getElem ha]
        exact hm _ (List.getElem_mem ha)
      · rw [List.getD_eq_getElem?_getD, List.getElem?_eq_none (by omega)]
        simp [NoDupKeys, keys]

end Heap
end Wm.Value
