/-
  Helper lemmas for C19 (`Props/C19.lean`): metadata get/set, context neutrality of handlers and stacks,
  arithmetic of the DelayOnError chain, the one-slot ticker.  Core only.
-/
import WmModel.Middleware
namespace Wm.Mw

/-! ### metadata -/

theorem mget_mset_same (m : Meta) (k v : String) : mget (mset m k v) k = v := by
  induction m with
  | nil => simp [mset, mget]
  | cons kv rest ih =>
    obtain ⟨k', v'⟩ := kv
    by_cases hk : k' = k <;> simp [mset, mget, hk, ih]

theorem mget_mset_other (m : Meta) (k v k2 : String) (h : k2 ≠ k) : mget (mset m k v) k2 = mget m k2 := by
  have h' : ¬ k = k2 := fun hh => h hh.symm
  induction m with
  | nil => simp [mset, mget, h']
  | cons kv rest ih =>
    obtain ⟨k', v'⟩ := kv
    by_cases hk : k' = k
    · subst hk; simp [mset, mget, h']
    · by_cases hk2 : k' = k2
      · subst hk2; simp [mset, mget, hk]
      · simp [mset, mget, hk, hk2, ih]

/-- what `SetCorrelationID` does to one produced message -/
theorem setCid_spec (id : String) (o : Out) :
    (setCid id o).id = o.id ∧
    (mget o.md cidKey ≠ "" → setCid id o = o) ∧
    (mget o.md cidKey = "" → mget (setCid id o).md cidKey = id) ∧
    (∀ k, k ≠ cidKey → mget (setCid id o).md k = mget o.md k) := by
  unfold setCid
  by_cases hc : mget o.md cidKey = ""
  · simp [hc, mget_mset_same]
    intro k hk; exact mget_mset_other _ _ _ _ hk
  · simp [hc]

/-! ### context neutrality -/

/-- a handler that leaves on the message the context it found (it may do anything else) -/
def CtxNeutral (h : Handler) : Prop := ∀ st, (h st).2.ctx = st.ctx

theorem scripted_ctxNeutral : CtxNeutral scripted := by
  intro st
  unfold scripted
  cases st.script with
  | nil => rfl
  | cons r rest => cases rest <;> rfl

theorem retryLoop_ctx (h : Handler) (hn : CtxNeutral h) (stop : Bool) (rem : Nat) :
    ∀ outs e st, (retryLoop h stop rem outs e st).2.ctx = st.ctx := by
  induction rem with
  | zero =>
    intro outs e st
    unfold retryLoop
    have h1 := hn st
    cases stop
    · generalize h st = x at h1
      obtain ⟨r, st2⟩ := x
      cases r with
      | panic v => simpa using h1
      | ret o2 e2 => cases e2 <;> simpa using h1
    · simp
  | succ r ih =>
    intro outs e st
    unfold retryLoop
    have h1 := hn st
    cases stop
    · generalize h st = x at h1
      obtain ⟨r', st2⟩ := x
      cases r' with
      | panic v => simpa using h1
      | ret o2 e2 =>
        cases e2 with
        | none => simpa using h1
        | some e2 =>
          simp only [Bool.false_eq_true, if_false]
          rw [ih]; exact h1
    · simp

theorem applyC_ctxNeutral (b : Bool) (m : Mw) (h : Handler) (hn : CtxNeutral h) : CtxNeutral (applyC b m h) := by
  intro st
  cases m with
  | timeout e => simp [applyC, timeout]
  | correlation =>
    have h1 := hn st
    simp only [applyC, correlation]
    generalize h st = x at h1
    obtain ⟨r, st'⟩ := x
    cases r <;> simpa using h1
  | recoverer =>
    have h1 := hn st
    simp only [applyC, recoverer]
    generalize h st = x at h1
    obtain ⟨r, st'⟩ := x
    cases r <;> simpa using h1
  | ignoreErrors l =>
    have h1 := hn st
    simp only [applyC, ignoreErrors]
    generalize h st = x at h1
    obtain ⟨r, st'⟩ := x
    cases r with
    | panic v => simpa using h1
    | ret outs e =>
      cases e with
      | none => simpa using h1
      | some e =>
        simp only
        split
        · split <;> simpa using h1
        · simpa using h1
  | instantAck =>
    have h1 := hn (ackMsg st)
    have h2 : (ackMsg st).ctx = st.ctx := by unfold ackMsg; split <;> rfl
    simpa [applyC, instantAck, h2] using h1
  | throttle => simpa [applyC, throttle] using hn { st with ticks := st.ticks + 1 }
  | breaker => simpa [applyC, breaker] using hn st
  | delayOnError c =>
    have h1 := hn st
    simp only [applyC, delayOnError]
    generalize h st = x at h1
    obtain ⟨r, st'⟩ := x
    cases r with
    | panic v => simpa using h1
    | ret outs e => cases e <;> simpa using h1
  | retry mr =>
    have h1 := hn st
    simp only [applyC, retry]
    generalize hx : h st = x at h1
    obtain ⟨r, st1⟩ := x
    cases r with
    | panic v => simpa using h1
    | ret outs e =>
      cases e with
      | none => simpa using h1
      | some e =>
        simp only
        rw [retryLoop_ctx h hn]; exact h1

theorem runC_ctxNeutral (b : Bool) (ms : List Mw) (h : Handler) (hn : CtxNeutral h) : CtxNeutral (runC b ms h) := by
  induction ms with
  | nil => exact hn
  | cons m rest ih => exact applyC_ctxNeutral b m _ ih


/-! ### Retry's read of the context is dead code around context-neutral handlers -/

/-- no Retry in the stack -/
def noRetry (ms : List Mw) : Bool := ms.all (fun m => !m.isRetry)

/-- no Retry sits inside a Timeout that has already expired when it starts (`Timeout(d)` with d ≤ 0):
    there Retry is *meant* to find the context done -/
def retryOutsideExpired : List Mw → Bool
  | [] => true
  | .timeout true :: rest => noRetry rest
  | _ :: rest => retryOutsideExpired rest

theorem applyC_noRetry (b : Bool) (m : Mw) (hm : m.isRetry = false) : applyC b m = applyC false m := by
  cases m <;> first | rfl | simp [Mw.isRetry] at hm

theorem runC_noRetry (b : Bool) (ms : List Mw) (hm : noRetry ms = true) (h : Handler) :
    runC b ms h = runC false ms h := by
  induction ms with
  | nil => rfl
  | cons m rest ih =>
    simp only [noRetry, List.all_cons, Bool.and_eq_true, Bool.not_eq_true'] at hm
    have ih' := ih (by simpa [noRetry] using hm.2)
    simp only [runC, ih', applyC_noRetry b m hm.1]

theorem retryLoop_agree (f g : Handler) (hf : CtxNeutral f)
    (hfg : ∀ st, st.ctx.done = false → f st = g st) (rem : Nat) :
    ∀ outs e st, st.ctx.done = false → retryLoop f false rem outs e st = retryLoop g false rem outs e st := by
  induction rem with
  | zero =>
    intro outs e st hd
    unfold retryLoop
    rw [hfg st hd]
  | succ r ih =>
    intro outs e st hd
    unfold retryLoop
    have h1 := hf st
    rw [hfg st hd] at h1
    rw [hfg st hd]
    generalize g st = x at h1
    obtain ⟨r', st2⟩ := x
    cases r' with
    | panic v => rfl
    | ret o2 e2 =>
      cases e2 with
      | none => rfl
      | some e2 =>
        simp only [Bool.false_eq_true, if_false]
        apply ih
        simp only at h1
        rw [h1]; exact hd

/-- one layer: if the wrapped functions agree on every message whose context is not done, so do the
    wrappers – with Retry reading the context on the left and ignoring it on the right -/
theorem applyC_agree (m : Mw) (hm : m ≠ .timeout true) (f g : Handler) (hf : CtxNeutral f)
    (hfg : ∀ st, st.ctx.done = false → f st = g st) (st : St) (hd : st.ctx.done = false) :
    applyC true m f st = applyC false m g st := by
  cases m with
  | timeout e =>
    cases e with
    | true => exact absurd rfl hm
    | false =>
      simp only [applyC, timeout]
      rw [hfg _ (by simp [deriveCtx, hd])]
  | correlation => simp only [applyC, correlation, hfg st hd]
  | recoverer => simp only [applyC, recoverer, hfg st hd]
  | ignoreErrors l => simp only [applyC, ignoreErrors, hfg st hd]
  | instantAck =>
    simp only [applyC, instantAck]
    have h2 : (ackMsg st).ctx = st.ctx := by unfold ackMsg; split <;> rfl
    exact hfg _ (by rw [h2]; exact hd)
  | throttle => simp only [applyC, throttle]; exact hfg _ hd
  | breaker => simp only [applyC, breaker]; exact hfg _ hd
  | delayOnError c => simp only [applyC, delayOnError, hfg st hd]
  | retry mr =>
    simp only [applyC, retry]
    have h1 := hf st
    rw [hfg st hd] at h1
    rw [hfg st hd]
    generalize g st = x at h1
    obtain ⟨r, st1⟩ := x
    cases r with
    | panic v => rfl
    | ret outs e =>
      cases e with
      | none => rfl
      | some e =>
        simp only at h1
        have hd1 : st1.ctx.done = false := by rw [h1]; exact hd
        simp only [hd1, Bool.and_false]
        exact retryLoop_agree f g hf hfg _ _ _ _ hd1

theorem runC_agree (ms : List Mw) (hok : retryOutsideExpired ms = true) (h : Handler) (hn : CtxNeutral h) :
    ∀ st, st.ctx.done = false → runC true ms h st = runC false ms h st := by
  induction ms with
  | nil => intro st _; rfl
  | cons m rest ih =>
    intro st hd
    by_cases hm : m = .timeout true
    · subst hm
      simp only [retryOutsideExpired] at hok
      simp only [runC, runC_noRetry true rest hok h]
      rfl
    · have hok' : retryOutsideExpired rest = true := by
        cases m with
        | timeout e => cases e with
          | true => exact absurd rfl hm
          | false => simpa [retryOutsideExpired] using hok
        | _ => simpa [retryOutsideExpired] using hok
      exact applyC_agree m hm _ _ (runC_ctxNeutral true rest h hn) (ih hok') st hd

/-- with a handler that always fails, the reference Retry makes 1 + max(MaxRetries,1) attempts -/
theorem retryLoop_scripted_all_fail (o : List Out) (e : Err) (rem : Nat) :
    ∀ outs e' (st : St), st.script = [.ret o (some e)] →
      (retryLoop scripted false rem outs e' st).2.log.length = st.log.length + rem + 1 := by
  induction rem with
  | zero =>
    intro outs e' st hs
    unfold retryLoop
    simp [scripted, hs]
  | succ r ih =>
    intro outs e' st hs
    unfold retryLoop
    simp only [Bool.false_eq_true, if_false, scripted, hs]
    rw [ih]
    · simp; omega
    · rfl

theorem scripted_eq (st : St) :
    scripted st = (headRes st.script,
      { st with log := st.log ++ [⟨st.ctx.deadline, st.ctx.done, st.acked, st.delay, st.ctx.far, st.nacked⟩],
                md := (match st.hcid with | some v => mset st.md cidKey v | none => st.md),
                script := nextScript st.script }) := by
  unfold scripted
  obtain ⟨c, md, d, u, a, t, sc, lg, hc⟩ := st
  rcases sc with _ | ⟨r, _ | ⟨r2, rest⟩⟩ <;> cases hc <;> simp [headRes, nextScript]

theorem retryLoop_scripted_attempts (rem : Nat) :
    ∀ outs e (st : St),
      (retryLoop scripted false rem outs e st).2.log.length = st.log.length + ownLoop rem st.script := by
  induction rem with
  | zero =>
    intro outs e st
    unfold retryLoop
    rw [scripted_eq]
    cases h : headRes st.script with
    | panic v => simp [ownLoop]
    | ret o2 e2 => cases e2 <;> simp [ownLoop]
  | succ r ih =>
    intro outs e st
    unfold retryLoop
    rw [scripted_eq]
    cases h : headRes st.script with
    | panic v => simp [ownLoop, h, Res.isErr]
    | ret o2 e2 =>
      cases e2 with
      | none => simp [ownLoop, h, Res.isErr]
      | some e2 =>
        simp only [Bool.false_eq_true, if_false, ownLoop, h, Res.isErr, if_true]
        rw [ih]
        simp; omega

/-! ### DelayOnError arithmetic -/

theorem applyDelay_ns (c : DelayCfg) (d : Nat) : applyDelay c (.ns d) = min (d * c.num / c.den) c.max := by
  simp only [applyDelay, Nat.min_def]
  split <;> split <;> omega

theorem le_mul_div (M p q : Nat) (hq : 0 < q) (hpq : q ≤ p) : M ≤ M * p / q := by
  have h1 : M * q ≤ M * p := Nat.mul_le_mul_left M hpq
  have h2 : M * q / q ≤ M * p / q := Nat.div_le_div_right h1
  rwa [Nat.mul_div_cancel M hq] at h2

/-- capping before multiplying does not matter once the result is capped again (multiplier ≥ 1) -/
theorem min_mul_div_min (u M p q : Nat) (hq : 0 < q) (hpq : q ≤ p) :
    min (min u M * p / q) M = min (u * p / q) M := by
  by_cases hu : u ≤ M
  · rw [Nat.min_eq_left hu]
  · have hM : M ≤ u := by omega
    rw [Nat.min_eq_right hM]
    have h1 := le_mul_div M p q hq hpq
    have h2 := le_mul_div u p q hq hpq
    rw [Nat.min_eq_right h1, Nat.min_eq_right (by omega)]

theorem delayAt_succ_eq_min (c : DelayCfg) (hq : 0 < c.den) (hpq : c.den ≤ c.num) (j : Nat) :
    delayAt c (j + 1) = min (uncapped c (j + 1)) c.max := by
  induction j with
  | zero => rw [delayAt, applyDelay_ns]; rfl
  | succ j ih =>
    rw [delayAt, applyDelay_ns, ih, min_mul_div_min _ _ _ _ hq hpq]
    rfl

theorem uncapped_le (c : DelayCfg) (j : Nat) :
    uncapped c j * c.den ^ j ≤ c.init * c.num ^ j := by
  induction j with
  | zero => simp [uncapped]
  | succ j ih =>
    have h1 : uncapped c (j + 1) * c.den ≤ uncapped c j * c.num := Nat.div_mul_le_self _ _
    have h2 := Nat.mul_le_mul_right (c.den ^ j) h1
    have h3 := Nat.mul_le_mul_right c.num ih
    rw [Nat.pow_succ, Nat.pow_succ]
    grind

theorem uncapped_ge (c : DelayCfg) (hq : 0 < c.den) (j : Nat) :
    c.init * c.num ^ j ≤ uncapped c j * c.den ^ j + gapBound c j := by
  induction j with
  | zero => simp [uncapped, gapBound]
  | succ j ih =>
    have h0 := Nat.div_add_mod (uncapped c j * c.num) c.den
    have h0' := Nat.mod_lt (uncapped c j * c.num) hq
    have h1 : uncapped c j * c.num ≤ uncapped c (j + 1) * c.den + (c.den - 1) := by
      show uncapped c j * c.num ≤ (uncapped c j * c.num / c.den) * c.den + (c.den - 1)
      rw [Nat.mul_comm (uncapped c j * c.num / c.den)]
      omega
    have h2 := Nat.mul_le_mul_right (c.den ^ j) h1
    have h3 := Nat.mul_le_mul_right c.num ih
    rw [Nat.pow_succ, Nat.pow_succ, gapBound]
    grind

theorem uncapped_int (c : DelayCfg) (hq : c.den = 1) (j : Nat) : uncapped c j = c.init * c.num ^ j := by
  induction j with
  | zero => simp [uncapped]
  | succ j ih => rw [uncapped, ih, hq, Nat.div_one, Nat.pow_succ, Nat.mul_assoc]

theorem gapBound_int (c : DelayCfg) (hq : c.den = 1) (j : Nat) : gapBound c j = 0 := by
  induction j with
  | zero => rfl
  | succ j ih => simp [gapBound, ih, hq]

/-- closed form of the rounding bound: `g j · (num − den) = (den − 1)·(num^j − den^j)`, written without subtraction
    of powers; i.e. `g j / den^j = ((den−1)/den) · (m^j − 1)/(m − 1) < (m^j − 1)/(m − 1)` nanoseconds -/
theorem gapBound_closed (c : DelayCfg) (t : Nat) (ht : c.num = c.den + t) (j : Nat) :
    gapBound c j * t + (c.den - 1) * c.den ^ j = (c.den - 1) * c.num ^ j := by
  induction j with
  | zero => simp [gapBound]
  | succ j ih =>
    rw [gapBound, Nat.pow_succ, Nat.pow_succ]
    have h3 : (gapBound c j * t + (c.den - 1) * c.den ^ j) * c.num = (c.den - 1) * c.num ^ j * c.num := by rw [ih]
    generalize c.den - 1 = a at *
    generalize c.num ^ j = P at *
    generalize c.den ^ j = Q at *
    generalize gapBound c j = g at *
    rw [ht] at h3 ⊢
    grind

/-! ### the one-slot ticker -/

theorem validRun_tail (d : Nat) (a : Start) (l : List Start) (h : validRun d (a :: l) = true) : validRun d l = true := by
  cases l with
  | nil => rfl
  | cons b rest => simp only [validRun, Bool.and_eq_true] at h; exact h.2

theorem validRun_drop (d : Nat) (l : List Start) (h : validRun d l = true) (i : Nat) : validRun d (l.drop i) = true := by
  induction i generalizing l with
  | zero => simpa using h
  | succ i ih =>
    cases l with
    | nil => rfl
    | cons a rest => simpa using ih rest (validRun_tail d a rest h)

theorem validRun_head (d : Nat) (a : Start) (l : List Start) (h : validRun d (a :: l) = true) :
    1 ≤ a.tick ∧ a.tick * d ≤ a.time := by
  cases l with
  | nil => simpa [validRun] using h
  | cons b rest => simp only [validRun, Bool.and_eq_true, decide_eq_true_eq] at h; exact ⟨h.1.1.1.1.1, h.1.1.1.1.2⟩

/-- ticks are consumed in strictly increasing order -/
theorem validRun_ticks (d : Nat) (l : List Start) (b : Start) (h : validRun d (b :: l) = true) :
    ∀ n (hn : n < (b :: l).length), b.tick + n ≤ ((b :: l)[n]).tick := by
  induction l generalizing b with
  | nil => intro n hn; simp at hn; subst hn; simp
  | cons c rest ih =>
    intro n hn
    cases n with
    | zero => simp
    | succ n =>
      have hbc : b.tick < c.tick := by
        simp only [validRun, Bool.and_eq_true, decide_eq_true_eq] at h; exact h.1.1.2
      have := ih c (validRun_tail d b _ h) n (by simpa using hn)
      simp only [List.getElem_cons_succ]
      omega

/-- the (n+1)-th start after `a` happens no earlier than `a.time + n·d` -/
theorem validRun_spacing (d : Nat) (a : Start) (l : List Start) (h : validRun d (a :: l) = true) :
    ∀ n (hn : n < l.length), a.time + n * d ≤ (l[n]).time := by
  intro n hn
  cases l with
  | nil => simp at hn
  | cons b rest =>
    have hab : a.time ≤ b.tick * d := by
      simp only [validRun, Bool.and_eq_true, decide_eq_true_eq] at h; exact h.1.2
    have hv := validRun_tail d a _ h
    have ht := validRun_ticks d rest b hv n hn
    have hx := validRun_drop d _ hv n
    have hdrop : (b :: rest).drop n = (b :: rest)[n] :: (b :: rest).drop (n + 1) := by
      exact List.drop_eq_getElem_cons hn
    rw [hdrop] at hx
    have h1 := (validRun_head d _ _ hx).2
    have h2 : (b.tick + n) * d ≤ (b :: rest)[n].tick * d := Nat.mul_le_mul_right d ht
    rw [Nat.add_mul] at h2
    omega

theorem laxRun_of_validRun (d : Nat) (l : List Start) (h : validRun d l = true) : laxRun d l = true := by
  induction l with
  | nil => rfl
  | cons a rest ih =>
    cases rest with
    | nil => simpa [validRun, laxRun] using h
    | cons b rest2 =>
      have ht := ih (validRun_tail d a _ h)
      simp only [validRun, Bool.and_eq_true, decide_eq_true_eq] at h
      simp only [laxRun, Bool.and_eq_true, decide_eq_true_eq]
      exact ⟨⟨⟨h.1.1.1.1.1, h.1.1.1.1.2⟩, h.1.1.2⟩, ht⟩

/-- the (n+1)-th start of a run whose first start consumed tick `≥ k` consumed tick `≥ k+n`, not before its nominal time -/
theorem laxRun_nth (d : Nat) (l : List Start) : ∀ (k : Nat), laxRun d l = true → (∀ a, l.head? = some a → k ≤ a.tick) →
    ∀ n (hn : n < l.length), (k + n) * d ≤ (l[n]).time := by
  induction l with
  | nil => intro k _ _ n hn; simp at hn
  | cons a rest ih =>
    intro k h hk n hn
    have hka : k ≤ a.tick := hk a rfl
    cases n with
    | zero =>
      have ha : a.tick * d ≤ a.time := by
        cases rest with
        | nil => simp only [laxRun, Bool.and_eq_true, decide_eq_true_eq] at h; exact h.2
        | cons b r2 => simp only [laxRun, Bool.and_eq_true, decide_eq_true_eq] at h; exact h.1.1.2
      have := Nat.mul_le_mul_right d hka
      simp only [List.getElem_cons_zero, Nat.add_zero]
      omega
    | succ n =>
      cases rest with
      | nil => simp at hn
      | cons b r2 =>
        simp only [laxRun, Bool.and_eq_true, decide_eq_true_eq] at h
        have := ih (k + 1) h.2 (by intro x hx; simp at hx; subst hx; omega) n (by simpa using hn)
        simp only [List.getElem_cons_succ]
        have e : k + 1 + n = k + (n + 1) := by omega
        rw [e] at this
        exact this

theorem ceil_mul_ge (t d : Nat) (hd : 0 < d) : t ≤ (t + d - 1) / d * d := by
  have h0 := Nat.div_add_mod (t + d - 1) d
  have h1 := Nat.mod_lt (t + d - 1) hd
  rw [Nat.mul_comm] at h0
  omega

theorem throttleRun_valid (d : Nat) (hd : 0 < d) (reqs : List Nat) :
    ∀ ps pt, validRun d (throttleRun d ps pt reqs) = true := by
  induction reqs with
  | nil => intro ps pt; rfl
  | cons r rest ih =>
    intro ps pt
    cases rest with
    | nil =>
      simp only [throttleRun, validRun, Bool.and_eq_true, decide_eq_true_eq]
      refine ⟨?_, ?_⟩
      · exact Nat.le_trans (Nat.le_add_left 1 pt) (Nat.le_max_left _ _)
      · exact Nat.le_max_right _ _
    | cons r2 rest2 =>
      have ih' := ih (max (max r ps) (max (pt + 1) ((ps + d - 1) / d) * d)) (max (pt + 1) ((ps + d - 1) / d))
      simp only [throttleRun] at ih' ⊢
      simp only [validRun, Bool.and_eq_true, decide_eq_true_eq]
      refine ⟨⟨⟨⟨⟨?_, ?_⟩, ?_⟩, ?_⟩, ?_⟩, ih'⟩
      · exact Nat.le_trans (Nat.le_add_left 1 pt) (Nat.le_max_left _ _)
      · exact Nat.le_max_right _ _
      · exact Nat.le_trans (Nat.le_max_right _ _) (Nat.le_max_left _ _)
      · exact Nat.lt_of_lt_of_le (Nat.lt_succ_self _) (Nat.le_max_left _ _)
      · refine Nat.le_trans (ceil_mul_ge _ d hd) ?_
        exact Nat.mul_le_mul_right d (Nat.le_max_right _ _)

end Wm.Mw
