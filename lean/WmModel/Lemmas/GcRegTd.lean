import WmModel.Lemmas.GcRegRs
namespace Wm.GcReg

/-- an unsubscribe goroutine leaves its wait only when its own subscription was cancelled or the Pub/Sub is closing -/
def TdOk (s : St) : Prop :=
  ∀ (i t sid : Nat) (pc : TPc), s.ths[i]? = some (Th.td t sid pc) → pc ≠ TPc.idle →
    sid ∈ s.cancelled ∨ s.closingSig = true

theorem td_init (cfg : Cfg) : TdOk (init cfg) := by simp [TdOk, init]

theorem td_set (s u : St) (i : Nat) (new : Th) (hths : u.ths = s.ths.set i new)
    (hc : ∀ x, x ∈ s.cancelled → x ∈ u.cancelled) (hcs : s.closingSig = true → u.closingSig = true)
    (hnew : ∀ t sid pc, new = Th.td t sid pc → pc ≠ TPc.idle → sid ∈ u.cancelled ∨ u.closingSig = true)
    (h : TdOk s) : TdOk u := by
  intro j t sid pc hj hpc
  rw [hths] at hj
  rcases get_set_cases _ _ _ _ _ hj with ⟨_, hth⟩ | ⟨_, hj'⟩
  · exact hnew t sid pc hth.symm hpc
  · rcases h j t sid pc hj' hpc with h1 | h1
    · exact Or.inl (hc _ h1)
    · exact Or.inr (hcs h1)

theorem td_append (s u : St) (new : Th) (hths : u.ths = s.ths ++ [new])
    (hc : ∀ x, x ∈ s.cancelled → x ∈ u.cancelled) (hcs : s.closingSig = true → u.closingSig = true)
    (hnew : ∀ t sid pc, new = Th.td t sid pc → pc = TPc.idle) (h : TdOk s) : TdOk u := by
  intro j t sid pc hj hpc
  rw [hths] at hj
  rcases get_append_cases _ _ _ _ hj with ⟨_, hj'⟩ | ⟨_, hth⟩
  · rcases h j t sid pc hj' hpc with h1 | h1
    · exact Or.inl (hc _ h1)
    · exact Or.inr (hcs h1)
  · exact absurd (hnew t sid pc hth.symm) hpc

theorem td_congr (s u : St) (h0 : u.ths = s.ths) (hc : ∀ x, x ∈ s.cancelled → x ∈ u.cancelled)
    (hcs : s.closingSig = true → u.closingSig = true) (h : TdOk s) : TdOk u := by
  intro j t sid pc hj hpc
  rw [h0] at hj
  rcases h j t sid pc hj hpc with h1 | h1
  · exact Or.inl (hc _ h1)
  · exact Or.inr (hcs h1)

theorem td_step (s : St) (a : Action) (s' : St) (h : TdOk s) (ha : act s a = some s') : TdOk s' := by
  have other : ∀ (u : St) (i : Nat) (new : Th), (∀ t sid pc, new ≠ Th.td t sid pc) → u.ths = s.ths.set i new →
      u.cancelled = s.cancelled → (s.closingSig = true → u.closingSig = true) → TdOk u :=
    fun u i new hn e0 e1 e2 => td_set s u i new e0 (by intro x hx; rw [e1]; exact hx) e2
      (fun t sid pc hx => absurd hx (hn t sid pc)) h
  cases a <;> simp only [act] at ha
  case newPub t msgs nested =>
    cases nested with
    | none => simp at ha; subst ha; exact td_append s _ _ rfl (fun _ x => x) (fun x => x) (fun _ _ _ hx => by cases hx) h
    | some p =>
      simp only at ha
      split at ha
      · simp at ha; subst ha; exact td_append s _ _ rfl (fun _ x => x) (fun x => x) (fun _ _ _ hx => by cases hx) h
      · simp at ha
  case newSub t => simp at ha; subst ha; exact td_append s _ _ rfl (fun _ x => x) (fun x => x) (fun _ _ _ hx => by cases hx) h
  case newClose => simp at ha; subst ha; exact td_append s _ _ rfl (fun _ x => x) (fun x => x) (fun _ _ _ hx => by cases hx) h
  case cancel sid => simp at ha; subst ha; exact td_congr s _ rfl (fun x hx => List.mem_cons_of_mem _ hx) (fun x => x) h
  case senderDone d sid =>
    split at ha
    · simp at ha; subst ha; exact td_congr s _ rfl (fun _ x => x) (fun x => x) h
    · simp at ha
  case step i =>
    split at ha
    · rename_i t rest pc ao hth
      have keep : ∀ (u : St) (r' : List Nat) (pc' : PPc), u.ths = s.ths.set i (Th.pub t r' pc' ao) → u.cancelled = s.cancelled →
          u.closingSig = s.closingSig → TdOk u :=
        fun u r' pc' e0 e1 e2 => other u i _ (fun _ _ _ hx => by cases hx) e0 e1 (by rw [e2]; exact fun x => x)
      cases pc <;> simp only [stepPub] at ha
      case start =>
        split at ha
        · simp at ha
        · split at ha <;> (simp at ha; subst ha; exact keep _ _ _ rfl rfl rfl)
      case rlock =>
        split at ha
        · simp at ha
        · simp at ha; subst ha; exact keep _ _ _ rfl rfl rfl
      case tlock =>
        split at ha
        · simp at ha; subst ha; exact keep _ _ _ rfl rfl rfl
        · simp at ha
      case persist =>
        split at ha
        · split at ha <;> (simp at ha; subst ha; exact keep _ _ _ rfl rfl rfl)
        · simp at ha; subst ha; exact keep _ _ _ rfl rfl rfl
      case send =>
        split at ha
        · simp at ha; subst ha; exact keep _ _ _ rfl rfl rfl
        · rename_i m r
          split at ha
          · simp at ha; subst ha; exact keep _ r (.wait s.disp.length) (by simp [setTh]) (by simp [setTh]) (by simp [setTh])
          · simp at ha; subst ha; exact keep _ r .send (by simp [setTh]) (by simp [setTh]) (by simp [setTh])
      case wait d =>
        split at ha
        · simp at ha; subst ha; exact keep _ _ _ rfl rfl rfl
        · simp at ha
      case unlock =>
        simp at ha; subst ha
        cases ao with
        | none => exact keep _ _ _ rfl rfl rfl
        | some p => exact keep _ rest .retOk (by simp [setTh, finishSender]) (by simp [setTh, finishSender]) (by simp [setTh, finishSender])
      case retOk => simp at ha
      case retErr => simp at ha
    · rename_i t sid pc hth
      have keep : ∀ (u : St) (sid' : Nat) (pc' : UPc), u.ths = s.ths.set i (Th.sub t sid' pc') → u.cancelled = s.cancelled →
          u.closingSig = s.closingSig → TdOk u :=
        fun u sid' pc' e0 e1 e2 => other u i _ (fun _ _ _ hx => by cases hx) e0 e1 (by rw [e2]; exact fun x => x)
      cases pc <;> simp only [stepSub] at ha
      case start =>
        split at ha
        · simp at ha
        · split at ha <;> (simp at ha; subst ha; exact keep _ _ _ rfl rfl rfl)
      case wqueue => simp at ha; subst ha; exact keep _ _ _ rfl rfl rfl
      case announce =>
        split at ha
        · simp at ha; subst ha; exact keep _ _ _ rfl rfl rfl
        · simp at ha
      case drain =>
        split at ha
        · simp at ha; subst ha; exact keep _ _ _ rfl rfl rfl
        · simp at ha
      case tlock =>
        split at ha
        · simp at ha; subst ha
          let mid : St := { s with ths := s.ths.set i (Th.sub t s.nextSid UPc.register) }
          have hmid : TdOk mid := keep mid _ _ rfl rfl rfl
          exact td_append mid _ (Th.td t s.nextSid TPc.idle) (by simp [setTh, mid]) (by simp [setTh, mid]) (by simp [setTh, mid])
            (fun _ _ _ hx => by injection hx with _ _ e; exact e.symm) hmid
        · simp at ha
      case register => simp at ha; subst ha; exact keep _ sid .retOk (by simp [setTh]) (by simp [setTh]) (by simp [setTh])
      case retOk => simp at ha
      case retErr => simp at ha
    · rename_i t sid pc hth
      -- the unsubscribe goroutine itself: past `idle` it keeps its reason
      have move : ∀ (u : St) (pc' : TPc), u.ths = s.ths.set i (Th.td t sid pc') → u.cancelled = s.cancelled →
          u.closingSig = s.closingSig → (sid ∈ s.cancelled ∨ s.closingSig = true) → TdOk u := by
        intro u pc' e0 e1 e2 hr
        refine td_set s u i _ e0 (by intro x hx; rw [e1]; exact hx) (by rw [e2]; exact fun x => x) ?_ h
        intro t' sid' pc'' hx _
        injection hx with _ e3 _; subst e3
        rw [e1, e2]; exact hr
      cases pc <;> simp only [stepTd] at ha
      case idle =>
        split at ha
        · rename_i hc
          simp at ha; subst ha
          refine move _ _ rfl rfl rfl ?_
          simp only [Bool.or_eq_true, List.contains_eq_mem, decide_eq_true_eq] at hc
          exact hc
        · simp at ha
      case subClosed => simp at ha; subst ha; exact move _ _ rfl rfl rfl (h i t sid _ hth (by decide))
      case announce =>
        split at ha
        · simp at ha; subst ha; exact move _ _ rfl rfl rfl (h i t sid _ hth (by decide))
        · simp at ha
      case drain =>
        split at ha
        · simp at ha; subst ha; exact move _ _ rfl rfl rfl (h i t sid _ hth (by decide))
        · simp at ha
      case tlock =>
        split at ha
        · simp at ha; subst ha; exact move _ _ rfl rfl rfl (h i t sid _ hth (by decide))
        · simp at ha
      case remove =>
        split at ha
        · split at ha
          · simp at ha; subst ha; exact td_congr s _ rfl (fun _ x => x) (fun x => x) h
          · simp at ha; subst ha
            exact move _ .done (by simp [setTh]) (by simp [setTh]) (by simp [setTh]) (h i t sid _ hth (by decide))
        · simp at ha; subst ha; exact td_congr s _ rfl (fun _ x => x) (fun x => x) h
      case done => simp at ha
    · rename_i pc hth
      cases pc <;> simp only [stepCloser] at ha
      case start =>
        split at ha
        · simp at ha
        · split at ha
          · simp at ha; subst ha; exact other _ i _ (fun _ _ _ hx => by cases hx) rfl rfl (fun x => x)
          · simp at ha; subst ha; exact other _ i (Th.closer .waitWg) (fun _ _ _ hx => by cases hx) (by simp [setTh]) (by simp [setTh]) (fun _ => by simp [setTh])
      case waitWg =>
        split at ha
        · simp at ha; subst ha; exact other _ i (Th.closer .ret) (fun _ _ _ hx => by cases hx) (by simp [setTh]) (by simp [setTh]) (by simp [setTh])
        · simp at ha
      case ret => simp at ha
    · simp at ha

end Wm.GcReg
