import WmModel.Lemmas.GcRegLive
namespace Wm.GcReg

/-- every registered subscription still has its unsubscribe goroutine (which will close and remove it) -/
def SubLive (s : St) : Prop :=
  ∀ (sid t : Nat), (sid, t) ∈ s.subs → ∃ (j : Nat) (pc : TPc), s.ths[j]? = some (Th.td t sid pc) ∧ pc ≠ TPc.done

theorem sl_init (cfg : Cfg) : SubLive (init cfg) := by simp [SubLive, init]

theorem sl_congr (s u : St) (h0 : u.ths = s.ths) (h1 : u.subs = s.subs) (h : SubLive s) : SubLive u := by
  unfold SubLive at *; rw [h0, h1]; exact h

theorem sl_set_other (s u : St) (i : Nat) (old new : Th) (hold : s.ths[i]? = some old)
    (ho : ∀ t sid pc, old ≠ Th.td t sid pc) (hths : u.ths = s.ths.set i new)
    (h1 : ∀ x, x ∈ u.subs → x ∈ s.subs) (h : SubLive s) : SubLive u := by
  intro sid t hm
  obtain ⟨j, pc, hj, hpc⟩ := h sid t (h1 _ hm)
  refine ⟨j, pc, ?_, hpc⟩
  rw [hths]
  by_cases hji : j = i
  · subst hji; rw [hold] at hj; injection hj with hj; exact absurd hj (ho _ _ _)
  · exact set_get_of_ne _ _ _ _ _ hji hj

theorem sl_td_move (s u : St) (i t sid : Nat) (pc0 pc1 : TPc) (hold : s.ths[i]? = some (Th.td t sid pc0))
    (hp1 : pc1 ≠ TPc.done) (hths : u.ths = s.ths.set i (Th.td t sid pc1))
    (h1 : ∀ x, x ∈ u.subs → x ∈ s.subs) (h : SubLive s) : SubLive u := by
  have hi : i < s.ths.length := (List.getElem?_eq_some_iff.mp hold).1
  intro sid' t' hm
  obtain ⟨j, pc, hj, hpc⟩ := h sid' t' (h1 _ hm)
  by_cases hji : j = i
  · subst hji
    rw [hold] at hj; injection hj with hj; injection hj with e1 e2 e3
    subst e1; subst e2
    exact ⟨j, pc1, by rw [hths]; exact List.getElem?_set_self hi, hp1⟩
  · exact ⟨j, pc, by rw [hths]; exact set_get_of_ne _ _ _ _ _ hji hj, hpc⟩

theorem sl_append (s u : St) (new : Th) (hths : u.ths = s.ths ++ [new]) (h1 : u.subs = s.subs) (h : SubLive s) :
    SubLive u := by
  intro sid t hm
  rw [h1] at hm
  obtain ⟨j, pc, hj, hpc⟩ := h sid t hm
  exact ⟨j, pc, by rw [hths]; exact append_get_of_get _ _ _ _ hj, hpc⟩

theorem sl_step (s : St) (a : Action) (s' : St) (hlive : LiveOk s) (haux : AuxOk s) (h : SubLive s)
    (ha : act s a = some s') : SubLive s' := by
  cases a <;> simp only [act] at ha
  case newPub t msgs nested =>
    cases nested with
    | none => simp at ha; subst ha; exact sl_append s _ _ rfl rfl h
    | some p =>
      simp only at ha
      split at ha
      · simp at ha; subst ha; exact sl_append s _ _ rfl rfl h
      · simp at ha
  case newSub t => simp at ha; subst ha; exact sl_append s _ _ rfl rfl h
  case newClose => simp at ha; subst ha; exact sl_append s _ _ rfl rfl h
  case cancel sid => simp at ha; subst ha; exact sl_congr s _ rfl rfl h
  case senderDone d sid =>
    split at ha
    · simp at ha; subst ha; exact sl_congr s _ rfl rfl h
    · simp at ha
  case step i =>
    split at ha
    · rename_i t rest pc ao hth
      have keep : ∀ (u : St) (r' : List Nat) (pc' : PPc), u.ths = s.ths.set i (Th.pub t r' pc' ao) → u.subs = s.subs →
          SubLive u :=
        fun u r' pc' e0 e1 => sl_set_other s u i _ _ hth (fun _ _ _ hx => by cases hx) e0 (by intro x hx; rw [e1] at hx; exact hx) h
      cases pc <;> simp only [stepPub] at ha
      case start =>
        split at ha
        · simp at ha
        · split at ha <;> (simp at ha; subst ha; exact keep _ _ _ rfl rfl)
      case rlock =>
        split at ha
        · simp at ha
        · simp at ha; subst ha; exact keep _ _ _ rfl rfl
      case tlock =>
        split at ha
        · simp at ha; subst ha; exact keep _ _ _ rfl rfl
        · simp at ha
      case persist =>
        split at ha
        · split at ha <;> (simp at ha; subst ha; exact keep _ _ _ rfl rfl)
        · simp at ha; subst ha; exact keep _ _ _ rfl rfl
      case send =>
        split at ha
        · simp at ha; subst ha; exact keep _ _ _ rfl rfl
        · rename_i m r
          split at ha
          · simp at ha; subst ha; exact keep _ r (.wait s.disp.length) (by simp [setTh]) (by simp [setTh])
          · simp at ha; subst ha; exact keep _ r .send (by simp [setTh]) (by simp [setTh])
      case wait d =>
        split at ha
        · simp at ha; subst ha; exact keep _ _ _ rfl rfl
        · simp at ha
      case unlock =>
        simp at ha; subst ha
        cases ao with
        | none => exact keep _ _ _ rfl rfl
        | some p => exact keep _ rest .retOk (by simp [setTh, finishSender]) (by simp [setTh, finishSender])
      case retOk => simp at ha
      case retErr => simp at ha
    · rename_i t sid pc hth
      have keep : ∀ (u : St) (sid' : Nat) (pc' : UPc), u.ths = s.ths.set i (Th.sub t sid' pc') → u.subs = s.subs →
          SubLive u :=
        fun u sid' pc' e0 e1 => sl_set_other s u i _ _ hth (fun _ _ _ hx => by cases hx) e0 (by intro x hx; rw [e1] at hx; exact hx) h
      cases pc <;> simp only [stepSub] at ha
      case start =>
        split at ha
        · simp at ha
        · split at ha <;> (simp at ha; subst ha; exact keep _ _ _ rfl rfl)
      case wqueue => simp at ha; subst ha; exact keep _ _ _ rfl rfl
      case announce =>
        split at ha
        · simp at ha; subst ha; exact keep _ _ _ rfl rfl
        · simp at ha
      case drain =>
        split at ha
        · simp at ha; subst ha; exact keep _ _ _ rfl rfl
        · simp at ha
      case tlock =>
        split at ha
        · simp at ha; subst ha
          let mid : St := { s with ths := s.ths.set i (Th.sub t s.nextSid UPc.register) }
          have hmid : SubLive mid := keep mid _ _ rfl rfl
          exact sl_append mid _ (Th.td t s.nextSid TPc.idle) (by simp [setTh, mid]) (by simp [setTh, mid]) hmid
        · simp at ha
      case register =>
        simp at ha; subst ha
        intro sid' t' hm
        simp only [setTh, List.mem_append, List.mem_singleton, Prod.mk.injEq] at hm
        have hw : ∃ (j : Nat) (pc : TPc), s.ths[j]? = some (Th.td t' sid' pc) ∧ pc ≠ TPc.done := by
          rcases hm with hm | ⟨e1, e2⟩
          · exact h sid' t' hm
          · subst e1; subst e2; exact hlive.1 i _ _ hth
        obtain ⟨j, pc, hj, hpc⟩ := hw
        refine ⟨j, pc, ?_, hpc⟩
        simp only [setTh]
        by_cases hji : j = i
        · subst hji; rw [hth] at hj; cases hj
        · exact set_get_of_ne _ _ _ _ _ hji hj
      case retOk => simp at ha
      case retErr => simp at ha
    · rename_i t sid pc hth
      have move : ∀ (u : St) (pc' : TPc), pc' ≠ TPc.done → u.ths = s.ths.set i (Th.td t sid pc') → u.subs = s.subs →
          SubLive u :=
        fun u pc' hp e0 e1 => sl_td_move s u i t sid pc pc' hth hp e0 (by intro x hx; rw [e1] at hx; exact hx) h
      cases pc <;> simp only [stepTd] at ha
      case idle =>
        split at ha
        · simp at ha; subst ha; exact move _ _ (by decide) rfl rfl
        · simp at ha
      case subClosed => simp at ha; subst ha; exact move _ _ (by decide) rfl rfl
      case announce =>
        split at ha
        · simp at ha; subst ha; exact move _ _ (by decide) rfl rfl
        · simp at ha
      case drain =>
        split at ha
        · simp at ha; subst ha; exact move _ _ (by decide) rfl rfl
        · simp at ha
      case tlock =>
        split at ha
        · simp at ha; subst ha; exact move _ _ (by decide) rfl rfl
        · simp at ha
      case remove =>
        split at ha
        · split at ha
          · simp at ha; subst ha; exact sl_congr s _ rfl rfl h
          · simp at ha; subst ha
            intro sid' t' hm
            simp only [setTh] at hm
            have hm' := List.mem_of_mem_erase hm
            obtain ⟨j, pc, hj, hpc⟩ := h sid' t' hm'
            refine ⟨j, pc, ?_, hpc⟩
            simp only [setTh]
            by_cases hji : j = i
            · subst hji
              rw [hth] at hj; injection hj with hj; injection hj with e1 e2 e3
              subst e1; subst e2
              exact absurd hm (haux.2.2.2.2.not_mem_erase)
            · exact set_get_of_ne _ _ _ _ _ hji hj
        · simp at ha; subst ha; exact sl_congr s _ rfl rfl h
      case done => simp at ha
    · rename_i pc hth
      have keep : ∀ (u : St) (pc' : CPc), u.ths = s.ths.set i (Th.closer pc') → u.subs = s.subs → SubLive u :=
        fun u pc' e0 e1 => sl_set_other s u i _ _ hth (fun _ _ _ hx => by cases hx) e0 (by intro x hx; rw [e1] at hx; exact hx) h
      cases pc <;> simp only [stepCloser] at ha
      case start =>
        split at ha
        · simp at ha
        · split at ha <;> (simp at ha; subst ha; exact keep _ _ rfl rfl)
      case waitWg =>
        split at ha
        · simp at ha; subst ha; exact keep _ _ rfl rfl
        · simp at ha
      case ret => simp at ha
    · simp at ha

end Wm.GcReg
