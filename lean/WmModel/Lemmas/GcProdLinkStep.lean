import WmModel.Lemmas.GcProdLink
import WmModel.Props.C11Reg
namespace Wm.GcProd
open Wm Wm.Lts

theorem link_step (me cap : Nat) (cfg : GcReg.Cfg) (s s' : St) (a : Action) (hreach : Reach (GcReg.sys cfg) s.reg)
    (h : LinkOk me s) (hact : act me cap s a = some s') : LinkOk me s' := by
  have haux := GcReg.reach_aux cfg s.reg hreach
  have hrs := GcReg.reach_rs cfg s.reg hreach
  cases a with
  | sub sa =>
    simp only [act] at hact
    split at hact
    · rename_i hal
      cases hq : s.sub with
      | none => simp [hq] at hact
      | some q =>
        simp only [hq] at hact
        cases hs : GcSub.act q sa with
        | none => simp [hs] at hact
        | some q' =>
          simp [hs] at hact; subst hact
          have hns : sa ≠ .spawn := by intro hx; subst hx; simp [subAllowed] at hal
          obtain ⟨k1, k2⟩ := sub_keeps q q' sa hns hs
          exact link_frame me s _ h rfl rfl rfl rfl (fun hx => by rw [hq] at hx; cases hx)
            (fun q0 hq0 => by rw [hq] at hq0; injection hq0 with hq0; subst hq0; exact ⟨q', rfl, k1, k2⟩)
    · cases hact
  | reg ra =>
    simp only [act] at hact
    cases hr : GcReg.act s.reg ra with
    | none => simp [hr] at hact
    | some r' =>
      simp only [hr] at hact
      cases he : effect me cap s.reg r' ra (s.sub, s.snd) with
      | none => simp [he] at hact
      | some y =>
        obtain ⟨q', snd'⟩ := y
        simp only [he] at hact
        injection hact with hact; subst hact
        -- frames
        have fr : r'.nextSid = s.reg.nextSid → r'.started = s.reg.started → r'.disp = s.reg.disp →
            some (s.sub, s.snd) = some (q', snd') → LinkOk me ⟨r', q', snd'⟩ := by
          intro e1 e2 e3 e4
          injection e4 with e4; injection e4 with e5 e6; subst e5; subst e6
          exact link_frame me s _ h e1 e2 e3 rfl (fun hx => hx)
            (fun q0 hq0 => ⟨q0, hq0, rfl, fun p hp => hp⟩)
        have frflag : ∀ (f : GcSub.St → GcSub.St), some (s.sub.map f, s.snd) = some (q', snd') →
            (∀ q, (f q).nextPub = q.nextPub ∧ (f q).exits = q.exits) →
            r'.nextSid = s.reg.nextSid → r'.started = s.reg.started → r'.disp = s.reg.disp → LinkOk me ⟨r', q', snd'⟩ := by
          intro f e4 hf e1 e2 e3
          injection e4 with e4; injection e4 with e5 e6; subst e5; subst e6
          refine link_frame me s _ h e1 e2 e3 rfl (fun hx => by simp [hx]) ?_
          intro q0 hq0
          refine ⟨f q0, by simp [hq0], (hf q0).1, ?_⟩
          intro p hp; simp only [exited] at hp ⊢; rw [(hf q0).2]; exact hp
        cases ra <;> simp only [GcReg.act] at hr
        case newPub t msgs nested =>
          simp only [effect] at he
          cases nested with
          | none => simp at hr; subst hr; exact fr rfl rfl rfl he
          | some p => simp only at hr; split at hr <;> simp at hr; subst hr; exact fr rfl rfl rfl he
        case newSub t => simp only [effect] at he; simp at hr; subst hr; exact fr rfl rfl rfl he
        case newClose => simp only [effect] at he; simp at hr; subst hr; exact fr rfl rfl rfl he
        case cancel sid =>
          simp at hr; subst hr
          simp only [effect] at he
          split at he
          · exact frflag _ he (fun q => ⟨rfl, rfl⟩) rfl rfl rfl
          · exact fr rfl rfl rfl he
        case senderDone d sid =>
          split at hr
          · simp at hr; subst hr
            simp only [effect] at he
            by_cases hsm : sid = me
            · rw [if_pos hsm] at he
              cases hq : s.sub with
              | none => simp [hq] at he
              | some q =>
                simp only [hq] at he
                split at he
                · rename_i hany
                  injection he with he; injection he with e5 e6; subst e5; subst e6
                  exact link_senderDone me s _ d sid h rfl rfl rfl hq.symm rfl (fun _ => ⟨q, hq, hany⟩)
                · cases he
            · rw [if_neg hsm] at he
              injection he with he; injection he with e5 e6; subst e5; subst e6
              exact link_senderDone me s _ d sid h rfl rfl rfl rfl rfl (fun hx => absurd hx hsm)
          · simp at hr
        case step i =>
          split at hr
          · rename_i t rest pc ao hth
            cases pc <;> simp only [GcReg.stepPub] at hr
            case start =>
              simp only [effect, hth] at he
              split at hr
              · simp at hr
              · split at hr <;> (simp at hr; subst hr; exact fr rfl rfl rfl he)
            case rlock =>
              simp only [effect, hth] at he
              split at hr
              · simp at hr
              · simp at hr; subst hr; exact fr rfl rfl rfl he
            case tlock =>
              simp only [effect, hth] at he
              split at hr
              · simp at hr; subst hr; exact fr rfl rfl rfl he
              · simp at hr
            case persist =>
              simp only [effect, hth] at he
              split at hr
              · split at hr <;> (simp at hr; subst hr; exact fr rfl rfl rfl he)
              · simp at hr; subst hr; exact fr rfl rfl rfl he
            case send =>
              split at hr
              · simp only [effect, hth] at he
                simp at hr; subst hr; exact fr rfl rfl rfl he
              · rename_i m r
                simp only [effect, hth] at he
                have hx : (q', snd') = if (GcReg.subsOf s.reg t).contains me then spawn1 (some s.reg.disp.length) (s.sub, s.snd) m
                    else (s.sub, s.snd) := by
                  by_cases hc : (GcReg.subsOf s.reg t).contains me = true
                  · rw [if_pos hc] at he ⊢; injection he with he; exact he.symm
                  · rw [if_neg hc] at he ⊢; injection he with he; exact he.symm
                split at hr
                · simp at hr; subst hr
                  exact link_send me s _ t m h haux (by simp [GcReg.setTh]) (by simp [GcReg.setTh]) (by simp [GcReg.setTh]) hx
                · simp at hr; subst hr
                  exact link_send me s _ t m h haux (by simp [GcReg.setTh]) (by simp [GcReg.setTh]) (by simp [GcReg.setTh]) hx
            case wait d =>
              simp only [effect, hth] at he
              split at hr
              · simp at hr; subst hr; exact fr rfl rfl rfl he
              · simp at hr
            case unlock =>
              simp only [effect, hth] at he
              simp at hr; subst hr
              cases ao with
              | none => exact fr rfl rfl rfl he
              | some p => exact fr (by simp [GcReg.setTh]) (by simp [GcReg.setTh]) (by simp [GcReg.setTh]) he
            case retOk => simp at hr
            case retErr => simp at hr
          · rename_i t sid pc hth
            cases pc <;> simp only [GcReg.stepSub] at hr
            case start =>
              simp only [effect, hth] at he
              split at hr
              · simp at hr
              · split at hr <;> (simp at hr; subst hr; exact fr rfl rfl rfl he)
            case wqueue => simp only [effect, hth] at he; simp at hr; subst hr; exact fr rfl rfl rfl he
            case announce =>
              simp only [effect, hth] at he
              split at hr
              · simp at hr; subst hr; exact fr rfl rfl rfl he
              · simp at hr
            case drain =>
              simp only [effect, hth] at he
              split at hr
              · simp at hr; subst hr; exact fr rfl rfl rfl he
              · simp at hr
            case tlock =>
              simp only [effect, hth] at he
              split at hr
              · simp at hr; subst hr
                refine link_create me cap s _ h (by simp [GcReg.setTh]) (by simp [GcReg.setTh]) (by simp [GcReg.setTh]) ?_
                show (q', snd') = _
                by_cases hme : s.reg.nextSid = me
                · rw [if_pos hme] at he ⊢
                  cases hq : s.sub with
                  | none => simp only [hq] at he ⊢; injection he with he; exact he.symm
                  | some q0 => simp only [hq] at he ⊢; injection he with he; exact he.symm
                · rw [if_neg hme] at he ⊢; injection he with he; exact he.symm
              · simp at hr
            case register =>
              simp only [effect, hth] at he
              simp at hr; subst hr
              refine link_register me s _ t sid h (hrs.2.2.1 i t sid hth).1 (by simp [GcReg.setTh]) (by simp [GcReg.setTh])
                (by simp [GcReg.setTh]) ?_
              show (q', snd') = _
              by_cases hme : sid = me
              · rw [if_pos hme] at he ⊢; injection he with he; exact he.symm
              · rw [if_neg hme] at he ⊢; injection he with he; exact he.symm
            case retOk => simp at hr
            case retErr => simp at hr
          · rename_i t sid pc hth
            cases pc <;> simp only [GcReg.stepTd] at hr
            case idle =>
              simp only [effect, hth] at he
              split at hr
              · simp at hr; subst hr; exact fr rfl rfl rfl he
              · simp at hr
            case subClosed =>
              simp only [effect, hth] at he
              simp at hr; subst hr
              split at he
              · split at he
                · split at he
                  · exact fr rfl rfl rfl (by simpa using he)
                  · cases he
                · cases he
              · exact fr rfl rfl rfl he
            case announce =>
              simp only [effect, hth] at he
              split at hr
              · simp at hr; subst hr; exact fr rfl rfl rfl he
              · simp at hr
            case drain =>
              simp only [effect, hth] at he
              split at hr
              · simp at hr; subst hr; exact fr rfl rfl rfl he
              · simp at hr
            case tlock =>
              simp only [effect, hth] at he
              split at hr
              · simp at hr; subst hr; exact fr rfl rfl rfl he
              · simp at hr
            case remove =>
              simp only [effect, hth] at he
              split at hr
              · split at hr
                · simp at hr; subst hr; exact fr rfl rfl rfl he
                · simp at hr; subst hr; exact fr (by simp [GcReg.setTh]) (by simp [GcReg.setTh]) (by simp [GcReg.setTh]) he
              · simp at hr; subst hr; exact fr rfl rfl rfl he
            case done => simp at hr
          · rename_i pc hth
            cases pc <;> simp only [GcReg.stepCloser] at hr
            case start =>
              simp only [effect, hth] at he
              split at hr
              · simp at hr
              · split at hr
                · simp at hr; subst hr
                  split at he
                  · exact frflag _ he (fun q => ⟨rfl, rfl⟩) rfl rfl rfl
                  · exact fr rfl rfl rfl he
                · simp at hr; subst hr
                  split at he
                  · exact frflag _ he (fun q => ⟨rfl, rfl⟩) (by simp [GcReg.setTh]) (by simp [GcReg.setTh]) (by simp [GcReg.setTh])
                  · exact fr (by simp [GcReg.setTh]) (by simp [GcReg.setTh]) (by simp [GcReg.setTh]) he
            case waitWg =>
              simp only [effect, hth] at he
              split at hr
              · simp at hr; subst hr; exact fr (by simp [GcReg.setTh]) (by simp [GcReg.setTh]) (by simp [GcReg.setTh]) he
              · simp at hr
            case ret => simp at hr
          · rename_i hth
            simp at hr

end Wm.GcProd
