import WmModel.Lemmas.GcSubUnsInv
namespace Wm.GcSub
open Wm.Ack (Sent)

/-- life cycle of a copy: delivered before received before settled; the buffer holds delivered copies -/
def CopyOk (s : St) : Prop :=
  (∀ (c : Nat) (cp : Copy), s.copies[c]? = some cp →
      (cp.received = true → cp.delivered = true) ∧ (cp.settle ≠ .none → cp.received = true)) ∧
  (∀ c, c ∈ s.buf → ∃ cp, s.copies[c]? = some cp ∧ cp.delivered = true)

theorem copy_init (cap : Nat) : CopyOk (init cap) := by simp [CopyOk, init]

theorem copyOk_congr (s t : St) (h1 : t.copies = s.copies) (h2 : t.buf = s.buf) (h : CopyOk s) : CopyOk t := by
  unfold CopyOk at *; rw [h1, h2]; exact h

/-- `modify` with a function that respects the life cycle -/
theorem copyOk_modify (s t : St) (c0 : Nat) (f : Copy → Copy)
    (hf : ∀ cp, ((cp.received = true → cp.delivered = true) ∧ (cp.settle ≠ .none → cp.received = true)) →
      ((f cp).received = true → (f cp).delivered = true) ∧ ((f cp).settle ≠ .none → (f cp).received = true) ∧
      (cp.delivered = true → (f cp).delivered = true))
    (hc : t.copies = s.copies.modify c0 f) (hb : ∀ c, c ∈ t.buf → c ∈ s.buf ∨ (c = c0 ∧ ∃ cp, s.copies[c0]? = some cp ∧ (f cp).delivered = true))
    (h : CopyOk s) : CopyOk t := by
  obtain ⟨k1, k2⟩ := h
  refine ⟨?_, ?_⟩
  · intro c cp hcp
    rw [hc, List.getElem?_modify] at hcp
    cases hs : s.copies[c]? with
    | none => simp [hs] at hcp
    | some cp0 =>
      simp [hs] at hcp
      subst hcp
      by_cases hcc : c0 = c
      · simp [hcc]; exact ⟨(hf cp0 (k1 c cp0 hs)).1, (hf cp0 (k1 c cp0 hs)).2.1⟩
      · simp [hcc]; exact k1 c cp0 hs
  · intro c hcb
    rw [hc, List.getElem?_modify]
    rcases hb c hcb with h1 | ⟨h1, h2⟩
    · obtain ⟨cp, hcp, hd⟩ := k2 c h1
      rw [hcp]
      by_cases hcc : c0 = c
      · simp [hcc]; exact (hf cp (k1 c cp hcp)).2.2 hd
      · simp [hcc]; exact hd
    · subst h1
      obtain ⟨cp, hcp, hd⟩ := h2
      rw [hcp]; simp; exact hd

end Wm.GcSub

namespace Wm.GcSub
open Wm.Ack (Sent)

theorem copy_step (s : St) (a : Action) (s' : St) (hu : UnsOk s) (h : CopyOk s) (ha : act s a = some s') : CopyOk s' := by
  have ⟨k1, k2⟩ := h
  cases a <;> simp only [act] at ha
  case spawn => simp at ha; subst ha; exact copyOk_congr s _ rfl rfl h
  case cancel => simp at ha; subst ha; exact copyOk_congr s _ rfl rfl h
  case gClose => simp at ha; subst ha; exact copyOk_congr s _ rfl rfl h
  case sLock k =>
    split at ha
    · simp at ha; subst ha; exact copyOk_congr s _ rfl rfl h
    · simp at ha
  case sCheck =>
    split at ha
    · split at ha <;> (simp at ha; subst ha; exact copyOk_congr s _ rfl rfl h)
    · simp at ha
  case sTop =>
    split at ha
    · split at ha
      · simp at ha; subst ha; exact copyOk_congr s _ rfl rfl h
      · simp at ha; subst ha
        refine ⟨?_, ?_⟩
        · intro c cp hcp
          rw [List.getElem?_append] at hcp
          split at hcp
          · exact k1 c cp hcp
          · rcases hd : c - s.copies.length with _ | n
            · simp [hd] at hcp; subst hcp; simp
            · simp [hd] at hcp
        · intro c hcb
          obtain ⟨cp, hcp, hdel⟩ := k2 c hcb
          have hlt : c < s.copies.length := (List.getElem?_eq_some_iff.mp hcp).1
          exact ⟨cp, by simp [List.getElem?_append_left hlt, hcp], hdel⟩
    · simp at ha
  case sSend =>
    split at ha
    · rename_i p c hh
      obtain ⟨cp0, hcp0, _⟩ := hu.1 p c hh
      split at ha
      · split at ha
        · simp at ha; subst ha; exact copyOk_congr s _ rfl rfl h
        · simp at ha; subst ha
          exact copyOk_modify s _ c _ (by intro cp hcp; simp) rfl (by intro c' hc'; exact Or.inl hc') h
      · split at ha
        · split at ha
          · simp at ha; subst ha; exact copyOk_congr s _ rfl rfl h
          · simp at ha; subst ha
            refine copyOk_modify s _ c _ (by intro cp hcp; simp; exact hcp.2) rfl ?_ h
            intro c' hc'
            simp at hc'
            rcases hc' with hc' | hc'
            · exact Or.inl hc'
            · exact Or.inr ⟨hc', cp0, hcp0, rfl⟩
        · simp at ha
    · simp at ha
  case sSendClosing =>
    split at ha
    · split at ha
      · simp at ha; subst ha; exact copyOk_congr s _ rfl rfl h
      · simp at ha
    · simp at ha
  case sObsAck =>
    split at ha
    · split at ha
      · split at ha
        · simp at ha; subst ha; exact copyOk_congr s _ rfl rfl h
        · simp at ha
      · simp at ha
    · simp at ha
  case sObsNack =>
    split at ha
    · split at ha
      · split at ha
        · simp at ha; subst ha; exact copyOk_congr s _ rfl rfl h
        · simp at ha
      · simp at ha
    · simp at ha
  case sObsClosing =>
    split at ha
    · split at ha
      · simp at ha; subst ha; exact copyOk_congr s _ rfl rfl h
      · simp at ha
    · simp at ha
  case recv =>
    split at ha
    · rename_i c rest hb
      simp at ha; subst ha
      obtain ⟨cpc, hcpc, hdc⟩ := k2 c (by rw [hb]; simp)
      refine ⟨?_, ?_⟩
      · intro c' cp hcp
        rw [List.getElem?_modify] at hcp
        cases hs : s.copies[c']? with
        | none => simp [hs] at hcp
        | some cp0 =>
          simp [hs] at hcp
          subst hcp
          by_cases hcc : c = c'
          · subst hcc
            rw [hcpc] at hs; injection hs with hs; subst hs
            simp [hdc]
          · simp [hcc]; exact k1 c' cp0 hs
      · intro c' hc'
        obtain ⟨cp, hcp, hdel⟩ := k2 c' (by rw [hb]; exact List.mem_cons_of_mem _ hc')
        rw [List.getElem?_modify, hcp]
        by_cases hcc : c = c' <;> simp [hcc, hdel]
    · simp at ha
  case settle c v =>
    split at ha
    · rename_i cp0 hcp0
      split at ha
      · rename_i hr
        simp at ha; subst ha
        have hrec : cp0.received = true := by simp at hr; exact hr.1
        refine ⟨?_, ?_⟩
        · intro c' cp hcp
          rw [List.getElem?_modify] at hcp
          cases hs : s.copies[c']? with
          | none => simp [hs] at hcp
          | some cp1 =>
            simp [hs] at hcp
            subst hcp
            by_cases hcc : c = c'
            · subst hcc
              rw [hcp0] at hs; injection hs with hs; subst hs
              simp
              exact ⟨(k1 c cp0 hcp0).1, fun _ => hrec⟩
            · simp [hcc]; exact k1 c' cp1 hs
        · intro c' hc'
          obtain ⟨cp, hcp, hdel⟩ := k2 c' hc'
          rw [List.getElem?_modify, hcp]
          by_cases hcc : c = c' <;> simp [hcc, hdel]
      · simp at ha
    · simp at ha
  case tdStart =>
    split at ha
    · split at ha
      · simp at ha; subst ha; exact copyOk_congr s _ rfl rfl h
      · split at ha <;> (simp at ha; subst ha; exact copyOk_congr s _ rfl rfl h)
    · simp at ha
  case tdLock =>
    split at ha
    · split at ha
      · simp at ha; subst ha; exact copyOk_congr s _ rfl rfl h
      · simp at ha
    · simp at ha
  case tdClose =>
    split at ha
    · split at ha <;> (simp at ha; subst ha; exact copyOk_congr s _ rfl rfl h)
    · simp at ha

end Wm.GcSub
