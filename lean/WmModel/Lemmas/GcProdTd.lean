import WmModel.Lemmas.GcProdLinkStep
namespace Wm.GcProd
open Wm Wm.Lts
open Wm.GcReg (get_set_cases get_append_cases set_get_of_ne append_get_of_get)

/-- the unsubscribe goroutine has finished `s.Close()` -/
def pastClose : GcReg.TPc → Bool
  | .idle | .subClosed => false
  | _ => true

/-- the distinguished subscription and its unsubscribe goroutine: the goroutine exists as long as the subscriber object
    does, and it goes on to `removeSubscriber` only with the subscription closed in M_sub -/
def TdLink (me : Nat) (s : St) : Prop :=
  (s.sub.isSome = true → ∃ (i t : Nat) (pc : GcReg.TPc), s.reg.ths[i]? = some (.td t me pc)) ∧
  (∀ (i t : Nat) (pc : GcReg.TPc), s.reg.ths[i]? = some (.td t me pc) → pastClose pc = true →
      ∃ q, s.sub = some q ∧ q.closed = true)

theorem tl_init (me : Nat) (cfg : GcReg.Cfg) : TdLink me (init cfg) := by simp [TdLink, init, GcReg.init]

theorem closed_stable (q q' : GcSub.St) (a : GcSub.Action) (h : GcSub.act q a = some q') (hc : q.closed = true) :
    q'.closed = true := by
  cases a <;> simp only [GcSub.act] at h <;> (repeat' split at h) <;> (try (simp at h)) <;> (try (subst h)) <;>
    first
    | exact hc
    | rfl
    | (simp [GcSub.exitSender]; exact hc)

/-- thread `i` is not `me`'s unsubscribe goroutine before or after; M_sub does not disappear and stays closed if it was -/
theorem tl_frame (me : Nat) (s s' : St) (h : TdLink me s) (i : Nat) (old new : GcReg.Th)
    (hold : s.reg.ths[i]? = some old) (hths : s'.reg.ths = s.reg.ths.set i new)
    (ho : ∀ t pc, old ≠ GcReg.Th.td t me pc) (hn : ∀ t pc, new ≠ GcReg.Th.td t me pc)
    (hs1 : s'.sub.isSome = true → s.sub.isSome = true)
    (hs2 : ∀ q, s.sub = some q → q.closed = true → ∃ q', s'.sub = some q' ∧ q'.closed = true) : TdLink me s' := by
  obtain ⟨t1, t2⟩ := h
  refine ⟨?_, ?_⟩
  · intro hs
    obtain ⟨j, t, pc, hj⟩ := t1 (hs1 hs)
    refine ⟨j, t, pc, ?_⟩
    rw [hths]
    by_cases hji : j = i
    · subst hji; rw [hold] at hj; injection hj with hj; exact absurd hj (ho t pc)
    · exact set_get_of_ne _ _ _ _ _ hji hj
  · intro j t pc hj hp
    rw [hths] at hj
    rcases get_set_cases _ _ _ _ _ hj with ⟨_, hth⟩ | ⟨_, hj'⟩
    · exact absurd hth.symm (hn t pc)
    · obtain ⟨q, hq, hc⟩ := t2 j t pc hj' hp
      exact hs2 q hq hc

theorem tl_append (me : Nat) (s s' : St) (h : TdLink me s) (new : GcReg.Th)
    (hths : s'.reg.ths = s.reg.ths ++ [new]) (hn : ∀ t pc, new ≠ GcReg.Th.td t me pc)
    (hs1 : s'.sub.isSome = true → s.sub.isSome = true)
    (hs2 : ∀ q, s.sub = some q → q.closed = true → ∃ q', s'.sub = some q' ∧ q'.closed = true) : TdLink me s' := by
  obtain ⟨t1, t2⟩ := h
  refine ⟨?_, ?_⟩
  · intro hs
    obtain ⟨j, t, pc, hj⟩ := t1 (hs1 hs)
    exact ⟨j, t, pc, by rw [hths]; exact append_get_of_get _ _ _ _ hj⟩
  · intro j t pc hj hp
    rw [hths] at hj
    rcases get_append_cases _ _ _ _ hj with ⟨_, hj'⟩ | ⟨_, hth⟩
    · obtain ⟨q, hq, hc⟩ := t2 j t pc hj' hp
      exact hs2 q hq hc
    · exact absurd hth.symm (hn t pc)

theorem tl_congr (me : Nat) (s s' : St) (h : TdLink me s) (hths : s'.reg.ths = s.reg.ths)
    (hs1 : s'.sub.isSome = true → s.sub.isSome = true)
    (hs2 : ∀ q, s.sub = some q → q.closed = true → ∃ q', s'.sub = some q' ∧ q'.closed = true) : TdLink me s' := by
  obtain ⟨t1, t2⟩ := h
  refine ⟨?_, ?_⟩
  · intro hs; rw [hths]; exact t1 (hs1 hs)
  · intro j t pc hj hp
    rw [hths] at hj
    obtain ⟨q, hq, hc⟩ := t2 j t pc hj hp
    exact hs2 q hq hc

/-- `me`'s own unsubscribe goroutine moves -/
theorem tl_move (me : Nat) (s s' : St) (h : TdLink me s) (i t : Nat) (pc pc' : GcReg.TPc)
    (hold : s.reg.ths[i]? = some (.td t me pc)) (hths : s'.reg.ths = s.reg.ths.set i (.td t me pc'))
    (hsub : s'.sub = s.sub)
    (hp : pastClose pc' = true → pastClose pc = true ∨ ∃ q, s.sub = some q ∧ q.closed = true) : TdLink me s' := by
  obtain ⟨t1, t2⟩ := h
  have hi : i < s.reg.ths.length := (List.getElem?_eq_some_iff.mp hold).1
  refine ⟨?_, ?_⟩
  · intro _
    exact ⟨i, t, pc', by rw [hths]; exact List.getElem?_set_self hi⟩
  · intro j t' pc'' hj hpp
    rw [hths] at hj; rw [hsub]
    rcases get_set_cases _ _ _ _ _ hj with ⟨_, hth⟩ | ⟨_, hj'⟩
    · injection hth with _ _ e3; subst e3
      rcases hp hpp with h1 | h1
      · exact t2 i t pc hold h1
      · exact h1
    · exact t2 j t' pc'' hj' hpp

end Wm.GcProd
