import WmModel.Lemmas.GcSubCtl
namespace Wm.GcSub

/-- where the sender of publication `p` is: still waiting for the `sending` mutex, holding it, or ended -/
def Accounted (s : St) (p : Nat) : Prop :=
  p ∈ s.waiting ∨ (∃ pc c, s.holder = .sender p pc c) ∨ (∃ r, (p, r) ∈ s.exits)

/-- no sender goroutine is ever lost: every publication started so far is accounted for -/
def AccOk (s : St) : Prop := ∀ p, p < s.nextPub → Accounted s p

theorem acc_init (cap : Nat) : AccOk (init cap) := by
  intro p hp; simp [init] at hp

/-- nothing but the holder's program counter (or its copy index) changes -/
theorem acc_keep (s u : St) (hn : u.nextPub = s.nextPub) (hw : u.waiting = s.waiting) (he : u.exits = s.exits)
    (hh : ∀ p, (∃ pc c, s.holder = .sender p pc c) → ∃ pc c, u.holder = .sender p pc c) (h : AccOk s) : AccOk u := by
  intro p hp
  rw [hn] at hp
  rcases h p hp with h1 | h1 | h1
  · exact Or.inl (by rw [hw]; exact h1)
  · exact Or.inr (Or.inl (hh p h1))
  · exact Or.inr (Or.inr (by rw [he]; exact h1))

/-- the holder's sender ends -/
theorem acc_exit (s : St) (p : Nat) (pc : SPc) (c : Nat) (r : Exit) (hh : s.holder = .sender p pc c) (h : AccOk s) :
    AccOk (exitSender s p r) := by
  intro p' hp'
  rcases h p' hp' with h1 | ⟨pc', c', h1⟩ | ⟨r', h1⟩
  · exact Or.inl h1
  · rw [hh] at h1; injection h1 with e1 _ _; subst e1
    exact Or.inr (Or.inr ⟨r, by simp [exitSender]⟩)
  · exact Or.inr (Or.inr ⟨r', by simp only [exitSender]; exact List.mem_append_left _ h1⟩)

theorem mem_eraseIdx_or {α : Type} (l : List α) (k : Nat) (x : α) (h : x ∈ l) : x ∈ l.eraseIdx k ∨ l[k]? = some x := by
  induction l generalizing k with
  | nil => cases h
  | cons a rest ih =>
    cases k with
    | zero =>
      simp only [List.eraseIdx_cons_zero, List.getElem?_cons_zero]
      rcases List.mem_cons.mp h with h1 | h1
      · exact Or.inr (by rw [h1])
      · exact Or.inl h1
    | succ k =>
      simp only [List.eraseIdx_cons_succ, List.getElem?_cons_succ]
      rcases List.mem_cons.mp h with h1 | h1
      · exact Or.inl (by rw [h1]; exact List.mem_cons_self)
      · rcases ih k h1 with h2 | h2
        · exact Or.inl (List.mem_cons_of_mem _ h2)
        · exact Or.inr h2

theorem acc_step (s : St) (a : Action) (s' : St) (hc : CtlOk s) (h : AccOk s) (ha : act s a = some s') : AccOk s' := by
  cases a <;> simp only [act] at ha
  case spawn =>
    simp at ha; subst ha
    intro p hp
    simp only at hp
    by_cases hlt : p < s.nextPub
    · rcases h p hlt with h1 | h1 | h1
      · exact Or.inl (List.mem_append_left _ h1)
      · exact Or.inr (Or.inl h1)
      · exact Or.inr (Or.inr h1)
    · have : p = s.nextPub := by omega
      subst this; exact Or.inl (by simp)
  case sLock k =>
    split at ha
    · rename_i p0 hf hk
      simp at ha; subst ha
      intro p hp
      rcases h p hp with h1 | ⟨pc, c, h1⟩ | h1
      · rcases mem_eraseIdx_or s.waiting k p h1 with h2 | h2
        · exact Or.inl h2
        · rw [hk] at h2; injection h2 with h2; subst h2
          exact Or.inr (Or.inl ⟨_, _, rfl⟩)
      · rw [hf] at h1; cases h1
      · exact Or.inr (Or.inr h1)
    · simp at ha
  case sCheck =>
    split at ha
    · rename_i p c hh
      split at ha
      · simp at ha; subst ha; exact acc_exit s p _ _ _ hh h
      · simp at ha; subst ha
        exact acc_keep s _ rfl rfl rfl (fun p' ⟨pc, c', h1⟩ => by rw [hh] at h1; injection h1 with e1 _ _; subst e1; exact ⟨_, _, rfl⟩) h
    · simp at ha
  case sTop =>
    split at ha
    · rename_i p c hh
      split at ha
      · simp at ha; subst ha; exact acc_exit s p _ _ _ hh h
      · simp at ha; subst ha
        exact acc_keep s _ rfl rfl rfl (fun p' ⟨pc, c', h1⟩ => by rw [hh] at h1; injection h1 with e1 _ _; subst e1; exact ⟨_, _, rfl⟩) h
    · simp at ha
  case sSend =>
    split at ha
    · rename_i p c hh
      have keep : ∀ u : St, u.nextPub = s.nextPub → u.waiting = s.waiting → u.exits = s.exits →
          (∃ pc c', u.holder = .sender p pc c') → AccOk u :=
        fun u e1 e2 e3 e4 => acc_keep s u e1 e2 e3
          (fun p' ⟨pc, c', h1⟩ => by rw [hh] at h1; injection h1 with e1 _ _; subst e1; exact e4) h
      split at ha
      · split at ha
        · simp at ha; subst ha; exact acc_keep s _ rfl rfl rfl (fun _ x => x) h
        · simp at ha; subst ha; exact keep _ rfl rfl rfl ⟨_, _, rfl⟩
      · split at ha
        · split at ha
          · simp at ha; subst ha; exact acc_keep s _ rfl rfl rfl (fun _ x => x) h
          · simp at ha; subst ha; exact keep _ rfl rfl rfl ⟨_, _, rfl⟩
        · simp at ha
    · simp at ha
  case sSendClosing =>
    split at ha
    · rename_i p c hh
      split at ha
      · simp at ha; subst ha; exact acc_exit s p _ _ _ hh h
      · simp at ha
    · simp at ha
  case sObsAck =>
    split at ha
    · rename_i p c hh
      split at ha
      · split at ha
        · simp at ha; subst ha; exact acc_exit s p _ _ _ hh h
        · simp at ha
      · simp at ha
    · simp at ha
  case sObsNack =>
    split at ha
    · rename_i p c hh
      split at ha
      · split at ha
        · simp at ha; subst ha
          exact acc_keep s _ rfl rfl rfl (fun p' ⟨pc, c', h1⟩ => by rw [hh] at h1; injection h1 with e1 _ _; subst e1; exact ⟨_, _, rfl⟩) h
        · simp at ha
      · simp at ha
    · simp at ha
  case sObsClosing =>
    split at ha
    · rename_i p c hh
      split at ha
      · simp at ha; subst ha; exact acc_exit s p _ _ _ hh h
      · simp at ha
    · simp at ha
  case recv =>
    split at ha
    · simp at ha; subst ha; exact acc_keep s _ rfl rfl rfl (fun _ x => x) h
    · simp at ha
  case settle c v =>
    split at ha
    · split at ha
      · simp at ha; subst ha; exact acc_keep s _ rfl rfl rfl (fun _ x => x) h
      · simp at ha
    · simp at ha
  case cancel => simp at ha; subst ha; exact acc_keep s _ rfl rfl rfl (fun _ x => x) h
  case gClose => simp at ha; subst ha; exact acc_keep s _ rfl rfl rfl (fun _ x => x) h
  case tdStart =>
    split at ha
    · split at ha
      · simp at ha; subst ha; exact acc_keep s _ rfl rfl rfl (fun _ x => x) h
      · split at ha <;> (simp at ha; subst ha; exact acc_keep s _ rfl rfl rfl (fun _ x => x) h)
    · simp at ha
  case tdLock =>
    split at ha
    · split at ha
      · rename_i hf
        simp at ha; subst ha
        exact acc_keep s _ rfl rfl rfl (fun p' ⟨pc, c', h1⟩ => by rw [hf] at h1; cases h1) h
      · simp at ha
    · simp at ha
  case tdClose =>
    split at ha
    · rename_i htd
      split at ha
      · simp at ha; subst ha; exact acc_keep s _ rfl rfl rfl (fun _ x => x) h
      · simp at ha; subst ha
        -- the closer held the mutex: no sender did
        have hcl : s.holder = .closer := hc.2.2.2.2.1.mpr htd
        exact acc_keep s _ rfl rfl rfl (fun p' ⟨pc, c', h1⟩ => by rw [hcl] at h1; cases h1) h
    · simp at ha

end Wm.GcSub
