/-
  Message-path invariant of RouterLife: a message in the pump's hand / in the loop's hand is exactly the one the pump /
  the loop holds; a message is settled iff its invocation has finished.
-/
import WmModel.Lemmas.RouterLifeHandler
namespace Wm.RouterLife
open Wm.Lts

structure PathOk (s : St) : Prop where
  p1 : ∀ (m : Nat) (x : Msg), s.msgs[m]? = some x → x.stage = .pump → ∃ h, s.hs[x.h]? = some h ∧ h.pump = .hold m
  p2 : ∀ (m : Nat) (x : Msg), s.msgs[m]? = some x → x.stage = .recv → ∃ h, s.hs[x.h]? = some h ∧ h.loop = .hold m
  p3 : ∀ (i : Nat) (y : Handler) (m : Nat), s.hs[i]? = some y → y.pump = .hold m →
         ∃ x, s.msgs[m]? = some x ∧ x.h = i ∧ x.stage = .pump
  p4 : ∀ x ∈ s.msgs, (x.settle = .none ↔ x.stage ≠ .done)
  p5 : ∀ (i : Nat) (y : Handler) (m : Nat), s.hs[i]? = some y → y.loop = .hold m →
         ∃ x, s.msgs[m]? = some x ∧ x.h = i ∧ x.stage = .recv

theorem path_init : PathOk init := by
  constructor <;> simp [init]

theorem getElem?_modify_self {α : Type} (l : List α) (i : Nat) (g : α → α) (y : α) (h : l[i]? = some y) :
    (l.modify i g)[i]? = some (g y) := by
  rw [List.getElem?_modify]; simp [h]

theorem getElem?_modify_ne {α : Type} (l : List α) (i j : Nat) (g : α → α) (hne : i ≠ j) :
    (l.modify i g)[j]? = l[j]? := by
  rw [List.getElem?_modify]; simp [hne]

/-- one handler changes; the pump holds what it held, the loop still holds what it held -/
theorem path_updH (s s' : St) (i : Nat) (g : Handler → Handler) (h : PathOk s)
    (e1 : s'.hs = s.hs.modify i g) (e2 : s'.msgs = s.msgs)
    (hg : ∀ y, s.hs[i]? = some y → (∀ m, (g y).pump = .hold m ↔ y.pump = .hold m) ∧
                                   (∀ m, (g y).loop = .hold m ↔ y.loop = .hold m)) : PathOk s' := by
  obtain ⟨p1, p2, p3, p4, p5⟩ := h
  refine ⟨?_, ?_, ?_, by rw [e2]; exact p4, ?_⟩
  · rw [e1, e2]; intro m x hm hs
    obtain ⟨y, hy, hp⟩ := p1 m x hm hs
    by_cases hi : i = x.h
    · subst hi
      exact ⟨g y, getElem?_modify_self _ _ _ _ hy, ((hg y hy).1 m).mpr hp⟩
    · exact ⟨y, by rw [getElem?_modify_ne _ _ _ _ hi]; exact hy, hp⟩
  · rw [e1, e2]; intro m x hm hs
    obtain ⟨y, hy, hp⟩ := p2 m x hm hs
    by_cases hi : i = x.h
    · subst hi
      exact ⟨g y, getElem?_modify_self _ _ _ _ hy, ((hg y hy).2 m).mpr hp⟩
    · exact ⟨y, by rw [getElem?_modify_ne _ _ _ _ hi]; exact hy, hp⟩
  · rw [e1, e2]; intro j y m hj hp
    rcases getElem?_modify_some _ _ _ _ _ hj with ⟨rfl, z, hz, rfl⟩ | ⟨_, hj'⟩
    · exact p3 i z m hz (((hg z hz).1 m).mp hp)
    · exact p3 j y m hj' hp
  · rw [e1, e2]; intro j y m hj hp
    rcases getElem?_modify_some _ _ _ _ _ hj with ⟨rfl, z, hz, rfl⟩ | ⟨_, hj'⟩
    · exact p5 i z m hz (((hg z hz).2 m).mp hp)
    · exact p5 j y m hj' hp

theorem path_same (s s' : St) (h : PathOk s) (e1 : s'.hs = s.hs) (e2 : s'.msgs = s.msgs) : PathOk s' := by
  obtain ⟨p1, p2, p3, p4, p5⟩ := h
  exact ⟨by rw [e1, e2]; exact p1, by rw [e1, e2]; exact p2, by rw [e1, e2]; exact p3, by rw [e2]; exact p4,
    by rw [e1, e2]; exact p5⟩

/-- one message that is past the pump and the loop moves on -/
theorem path_updM (s s' : St) (m : Nat) (f : Msg → Msg) (h : PathOk s)
    (e1 : s'.hs = s.hs) (e2 : s'.msgs = s.msgs.modify m f)
    (hf : ∀ x, s.msgs[m]? = some x → x.stage ≠ .pump ∧ x.stage ≠ .recv ∧ (f x).stage ≠ .pump ∧ (f x).stage ≠ .recv ∧
            ((f x).settle = .none ↔ (f x).stage ≠ .done)) : PathOk s' := by
  obtain ⟨p1, p2, p3, p4, p5⟩ := h
  refine ⟨?_, ?_, ?_, ?_, ?_⟩
  · rw [e1, e2]; intro j x hj hs
    rcases getElem?_modify_some _ _ _ _ _ hj with ⟨rfl, z, hz, rfl⟩ | ⟨_, hj'⟩
    · exact absurd hs (hf z hz).2.2.1
    · exact p1 j x hj' hs
  · rw [e1, e2]; intro j x hj hs
    rcases getElem?_modify_some _ _ _ _ _ hj with ⟨rfl, z, hz, rfl⟩ | ⟨_, hj'⟩
    · exact absurd hs (hf z hz).2.2.2.1
    · exact p2 j x hj' hs
  · rw [e1, e2]; intro i y j hi hp
    obtain ⟨x, hx, hxi, hxs⟩ := p3 i y j hi hp
    by_cases hmj : m = j
    · subst hmj; exact absurd hxs (hf x hx).1
    · exact ⟨x, by rw [getElem?_modify_ne _ _ _ _ hmj]; exact hx, hxi, hxs⟩
  · rw [e2]; intro x hx
    rcases mem_modify _ _ _ _ hx with hx | ⟨z, hz, rfl⟩
    · exact p4 x hx
    · exact (hf z hz).2.2.2.2
  · rw [e1, e2]; intro i y j hi hp
    obtain ⟨x, hx, hxi, hxs⟩ := p5 i y j hi hp
    by_cases hmj : m = j
    · subst hmj; exact absurd hxs (hf x hx).2.1
    · exact ⟨x, by rw [getElem?_modify_ne _ _ _ _ hmj]; exact hx, hxi, hxs⟩

set_option hygiene false in
macro "p_tac" : tactic => `(tactic|
  (repeat' split at ha
   all_goals (try (simp at ha))
   all_goals (try subst ha)
   all_goals (first
     | exact path_same _ _ h rfl rfl
     | (refine path_updH _ _ _ _ h rfl rfl ?_
        intro y hy
        simp_all)
     | (refine path_updM _ _ _ _ h rfl rfl ?_
        intro y hy
        have hp4 := h.p4 y (mem_of_getElem? _ _ _ hy)
        simp_all))))

theorem path_addHandler (fx : Fix) (s s' : St) (h : PathOk s) (ha : act fx s .addHandler = some s') : PathOk s' := by
  simp only [act] at ha
  split at ha
  · have key : ∀ t : St, t.hs = s.hs ++ [newHandler (!s.isRunning)] → t.msgs = s.msgs → PathOk t := by
      intro t e1 e2
      obtain ⟨p1, p2, p3, p4, p5⟩ := h
      have mono : ∀ (j : Nat) (y : Handler), s.hs[j]? = some y → t.hs[j]? = some y := by
        intro j y hj
        rw [e1, List.getElem?_append_left]
        · exact hj
        · rcases Nat.lt_or_ge j s.hs.length with h | h
          · exact h
          · rw [List.getElem?_eq_none h] at hj; cases hj
      refine ⟨?_, ?_, ?_, by rw [e2]; exact p4, ?_⟩
      · rw [e2]; intro m x hm hs
        obtain ⟨y, hy, hp⟩ := p1 m x hm hs
        exact ⟨y, mono _ _ hy, hp⟩
      · rw [e2]; intro m x hm hs
        obtain ⟨y, hy, hp⟩ := p2 m x hm hs
        exact ⟨y, mono _ _ hy, hp⟩
      · rw [e1, e2]; intro i y m hi hp
        rcases getElem?_append_one _ _ _ _ hi with hi | ⟨_, hy⟩
        · exact p3 i y m hi hp
        · subst hy; simp [newHandler] at hp
      · rw [e1, e2]; intro i y m hi hp
        rcases getElem?_append_one _ _ _ _ hi with hi | ⟨_, hy⟩
        · exact p5 i y m hi hp
        · subst hy; simp [newHandler] at hp
    split at ha
    · simp at ha; subst ha; exact key _ rfl rfl
    · split at ha <;> (simp at ha; subst ha; exact key _ rfl rfl)
  · simp at ha

theorem msgs_mono (s : St) (x0 : Msg) (k : Nat) (x : Msg) (hk : s.msgs[k]? = some x) :
    (s.msgs ++ [x0])[k]? = some x := by
  rw [List.getElem?_append_left]
  · exact hk
  · rcases Nat.lt_or_ge k s.msgs.length with h | h
    · exact h
    · rw [List.getElem?_eq_none h] at hk; cases hk

theorem path_emit (fx : Fix) (s s' : St) (i : Nat) (h : PathOk s) (ha : act fx s (.emit i) = some s') : PathOk s' := by
  simp only [act] at ha
  split at ha
  · split at ha
    · rename_i y hy hg; simp at ha; subst ha
      obtain ⟨p1, p2, p3, p4, p5⟩ := h
      have hnh : ∀ m, y.pump ≠ .hold m := by intro m hc; rw [hg.1] at hc; cases hc
      refine ⟨?_, ?_, ?_, ?_, ?_⟩
      · intro m x hm hs
        rcases getElem?_append_one _ _ _ _ hm with hm | ⟨hm, hx⟩
        · obtain ⟨z, hz, hp⟩ := p1 m x hm hs
          by_cases hi : i = x.h
          · subst hi; rw [hy] at hz; cases hz; exact absurd hp (hnh m)
          · exact ⟨z, by show (s.hs.modify i _)[x.h]? = some z; rw [getElem?_modify_ne _ _ _ _ hi]; exact hz, hp⟩
        · have hm' : m = s.msgs.length := hm
          subst hx; subst hm'
          exact ⟨_, getElem?_modify_self _ _ _ _ hy, rfl⟩
      · intro m x hm hs
        rcases getElem?_append_one _ _ _ _ hm with hm | ⟨hm, hx⟩
        · obtain ⟨z, hz, hp⟩ := p2 m x hm hs
          by_cases hi : i = x.h
          · subst hi; rw [hy] at hz; cases hz
            exact ⟨_, getElem?_modify_self _ _ _ _ hy, hp⟩
          · exact ⟨z, by show (s.hs.modify i _)[x.h]? = some z; rw [getElem?_modify_ne _ _ _ _ hi]; exact hz, hp⟩
        · subst hx; cases hs
      · intro j z m hj hp
        rcases getElem?_modify_some _ _ _ _ _ hj with ⟨rfl, w, hw, rfl⟩ | ⟨_, hj'⟩
        · simp at hp; subst hp
          exact ⟨⟨i, .pump, .none⟩, by simp, rfl, rfl⟩
        · obtain ⟨x, hx, hxi, hxs⟩ := p3 j z m hj' hp
          exact ⟨x, msgs_mono _ _ _ _ hx, hxi, hxs⟩
      · intro x hx
        simp at hx
        rcases hx with hx | hx
        · exact p4 x hx
        · subst hx; simp
      · intro j z m hj hp
        rcases getElem?_modify_some _ _ _ _ _ hj with ⟨rfl, w, hw, rfl⟩ | ⟨_, hj'⟩
        · obtain ⟨x, hx, hxi, hxs⟩ := p5 i w m hw hp
          exact ⟨x, msgs_mono _ _ _ _ hx, hxi, hxs⟩
        · obtain ⟨x, hx, hxi, hxs⟩ := p5 j z m hj' hp
          exact ⟨x, msgs_mono _ _ _ _ hx, hxi, hxs⟩
    · simp at ha
  · simp at ha

/-- message `m`, held by handler `i` (pump or loop), moves to stage `st`; `g` updates the handler -/
theorem path_move (s : St) (i m : Nat) (y : Handler) (x0 : Msg) (g : Handler → Handler) (st : Stage) (h : PathOk s)
    (hy : s.hs[i]? = some y) (hx0 : s.msgs[m]? = some x0) (hx0i : x0.h = i)
    (hfrom : (x0.stage = .pump ∧ y.pump = .hold m) ∨ (x0.stage = .recv ∧ y.loop = .hold m))
    (hst : st ≠ .pump) (hst2 : st ≠ .done)
    -- the pump of `i` holds nothing afterwards unless it held something else than m before
    (hgp : ∀ m', (g y).pump = .hold m' → y.pump = .hold m' ∧ m' ≠ m)
    (hgp2 : ∀ m', y.pump = .hold m' → m' ≠ m → (g y).pump = .hold m')
    -- the loop of `i` afterwards holds m iff st = recv; otherwise what it held before (≠ m)
    (hgl : ∀ m', (g y).loop = .hold m' → (st = .recv ∧ m' = m) ∨ (y.loop = .hold m' ∧ m' ≠ m))
    (hgl2 : st = .recv → (g y).loop = .hold m)
    (hgl3 : ∀ m', y.loop = .hold m' → m' ≠ m → (g y).loop = .hold m') :
    PathOk (updM (updH s i g) m fun x => { x with stage := st }) := by
  obtain ⟨p1, p2, p3, p4, p5⟩ := h
  have hsi : ∀ (j : Nat) (z : Handler), i ≠ j → s.hs[j]? = some z → (s.hs.modify i g)[j]? = some z := by
    intro j z hne hz; rw [getElem?_modify_ne _ _ _ _ hne]; exact hz
  have hmm : ∀ (j : Nat) (x : Msg), m ≠ j → s.msgs[j]? = some x →
      (s.msgs.modify m fun x => { x with stage := st })[j]? = some x := by
    intro j x hne hx; rw [getElem?_modify_ne _ _ _ _ hne]; exact hx
  refine ⟨?_, ?_, ?_, ?_, ?_⟩
  · intro j x hj hs
    rcases getElem?_modify_some _ _ _ _ _ hj with ⟨rfl, z, hz, rfl⟩ | ⟨hne, hj'⟩
    · exact absurd hs hst
    · obtain ⟨z, hz, hpz⟩ := p1 j x hj' hs
      by_cases hi : i = x.h
      · subst hi; rw [hy] at hz; cases hz
        exact ⟨g y, getElem?_modify_self _ _ _ _ hy, hgp2 j hpz (fun hc => hne hc.symm)⟩
      · exact ⟨z, hsi _ _ hi hz, hpz⟩
  · intro j x hj hs
    rcases getElem?_modify_some _ _ _ _ _ hj with ⟨rfl, z, hz, rfl⟩ | ⟨hne, hj'⟩
    · have hz' : s.msgs[m]? = some z := hz
      rw [hx0] at hz'; cases hz'
      refine ⟨g y, ?_, hgl2 hs⟩
      show (s.hs.modify i g)[x0.h]? = some (g y)
      rw [hx0i]; exact getElem?_modify_self _ _ _ _ hy
    · obtain ⟨z, hz, hpz⟩ := p2 j x hj' hs
      by_cases hi : i = x.h
      · subst hi; rw [hy] at hz; cases hz
        exact ⟨g y, getElem?_modify_self _ _ _ _ hy, hgl3 j hpz (fun hc => hne hc.symm)⟩
      · exact ⟨z, hsi _ _ hi hz, hpz⟩
  · intro j z m' hj hpz
    rcases getElem?_modify_some _ _ _ _ _ hj with ⟨rfl, w, hw, rfl⟩ | ⟨hne, hj'⟩
    · rw [hy] at hw; cases hw
      obtain ⟨hb, hne'⟩ := hgp m' hpz
      obtain ⟨x, hx, hxi, hxs⟩ := p3 i y m' hy hb
      exact ⟨x, hmm _ _ (fun hc => hne' hc.symm) hx, hxi, hxs⟩
    · obtain ⟨x, hx, hxi, hxs⟩ := p3 j z m' hj' hpz
      by_cases hmm' : m = m'
      · subst hmm'; rw [hx0] at hx; cases hx; rw [hx0i] at hxi; exact absurd hxi hne
      · exact ⟨x, hmm _ _ hmm' hx, hxi, hxs⟩
  · intro x hx
    rcases mem_modify _ _ _ _ hx with hx | ⟨z, hz, rfl⟩
    · exact p4 x hx
    · have hz' : s.msgs[m]? = some z := hz
      rw [hx0] at hz'; cases hz'
      have h4 := p4 x0 (mem_of_getElem? _ _ _ hx0)
      have hnd : x0.stage ≠ .done := by
        rcases hfrom with ⟨hf, _⟩ | ⟨hf, _⟩ <;> rw [hf] <;> simp
      simp [h4.mpr hnd, hst2]
  · intro j z m' hj hpz
    rcases getElem?_modify_some _ _ _ _ _ hj with ⟨rfl, w, hw, rfl⟩ | ⟨hne, hj'⟩
    · rw [hy] at hw; cases hw
      rcases hgl m' hpz with ⟨hr, hm'⟩ | ⟨hb, hne'⟩
      · subst hm'
        exact ⟨{ x0 with stage := st }, by
          show (s.msgs.modify m' _)[m']? = _
          rw [getElem?_modify_self _ _ _ _ hx0], hx0i, hr⟩
      · obtain ⟨x, hx, hxi, hxs⟩ := p5 i y m' hy hb
        exact ⟨x, hmm _ _ (fun hc => hne' hc.symm) hx, hxi, hxs⟩
    · obtain ⟨x, hx, hxi, hxs⟩ := p5 j z m' hj' hpz
      by_cases hmm' : m = m'
      · subst hmm'; rw [hx0] at hx; cases hx; rw [hx0i] at hxi; exact absurd hxi hne
      · exact ⟨x, hmm _ _ hmm' hx, hxi, hxs⟩

theorem path_pumpOut (fx : Fix) (s s' : St) (i : Nat) (h : PathOk s) (ha : act fx s (.pumpOut i) = some s') :
    PathOk s' := by
  simp only [act] at ha
  split at ha
  · split at ha
    · rename_i _ y hy _ _ m hp hlp; simp at ha; subst ha
      obtain ⟨x0, hx0, hx0i, hx0s⟩ := h.p3 i y m hy hp
      refine path_move s i m y x0 _ .recv h hy hx0 hx0i (Or.inl ⟨hx0s, hp⟩) (by simp) (by simp) ?_ ?_ ?_ ?_ ?_
      · intro m' hc; simp at hc
      · intro m' hc hne; rw [hp] at hc; cases hc; exact absurd rfl hne
      · intro m' hc; simp at hc; exact Or.inl ⟨rfl, hc.symm⟩
      · intro _; rfl
      · intro m' hc; rw [hlp] at hc; cases hc
    · simp at ha
  · simp at ha

theorem path_pumpDrop (fx : Fix) (s s' : St) (i : Nat) (h : PathOk s) (ha : act fx s (.pumpDrop i) = some s') :
    PathOk s' := by
  simp only [act] at ha
  split at ha
  · split at ha
    · split at ha
      · rename_i _ y hy _ m hp hd; simp at ha; subst ha
        obtain ⟨x0, hx0, hx0i, hx0s⟩ := h.p3 i y m hy hp
        refine path_move s i m y x0 _ .dropped h hy hx0 hx0i (Or.inl ⟨hx0s, hp⟩) (by simp) (by simp) ?_ ?_ ?_ ?_ ?_
        · intro m' hc; simp at hc
        · intro m' hc hne; rw [hp] at hc; cases hc; exact absurd rfl hne
        · intro m' hc
          refine Or.inr ⟨hc, ?_⟩
          intro hmm; subst hmm
          obtain ⟨x, hx, _, hxs⟩ := h.p5 i y m' hy hc
          rw [hx0] at hx; cases hx; rw [hx0s] at hxs; cases hxs
        · intro hc; cases hc
        · intro m' hc _; exact hc
      · simp at ha
    · simp at ha
  · simp at ha

theorem path_dispatch (fx : Fix) (s s' : St) (i : Nat) (h : PathOk s) (ha : act fx s (.dispatch i) = some s') :
    PathOk s' := by
  simp only [act] at ha
  split at ha
  · split at ha
    · split at ha
      · rename_i _ y hy _ m hlp hwb; simp at ha; subst ha
        obtain ⟨x0, hx0, hx0i, hx0s⟩ := h.p5 i y m hy hlp
        refine path_move s i m y x0 _ .disp h hy hx0 hx0i (Or.inr ⟨hx0s, hlp⟩) (by simp) (by simp) ?_ ?_ ?_ ?_ ?_
        · intro m' hc
          refine ⟨hc, ?_⟩
          intro hmm; subst hmm
          obtain ⟨x, hx, _, hxs⟩ := h.p3 i y m' hy hc
          rw [hx0] at hx; cases hx; rw [hx0s] at hxs; cases hxs
        · intro m' hc _; exact hc
        · intro m' hc; simp at hc
        · intro hc; cases hc
        · intro m' hc hne; rw [hlp] at hc; cases hc; exact absurd rfl hne
      · simp at ha
    · simp at ha
  · simp at ha

theorem path_step (fx : Fix) (s : St) (a : Action) (s' : St) (hl : LifeOk fx s) (h : PathOk s)
    (ha : act fx s a = some s') : PathOk s' := by
  cases a
  case addHandler => exact path_addHandler fx s s' h ha
  case emit i => exact path_emit fx s s' i h ha
  case pumpOut i => exact path_pumpOut fx s s' i h ha
  case pumpDrop i => exact path_pumpDrop fx s s' i h ha
  case dispatch i => exact path_dispatch fx s s' i h ha
  all_goals simp only [act] at ha
  case rhSub i =>
    split at ha
    · split at ha
      · rename_i v x hhl hx hg; simp at ha; subst ha
        have hoff : x.pump = .off := by
          cases hp : x.pump with
          | off => rfl
          | _ =>
            rcases hl.sub i x hx (by rw [hp]; simp) with h1 | ⟨v', st, h1⟩
            · rw [hg.1] at h1; cases h1
            · rw [hhl] at h1; cases h1
        refine path_updH _ _ _ _ h rfl rfl ?_
        intro y hy; rw [hx] at hy; cases hy
        simp [hoff]
      · simp at ha
    · simp at ha
  case rhSpawn =>
    split at ha
    · rename_i v i hhl; simp at ha; subst ha
      refine path_updH _ _ _ _ h rfl rfl ?_
      intro y hy
      have := (hl.cur v i 2 hhl y hy).c2
      simp [this]
    · simp at ha
  case rhStep =>
    split at ha
    · simp at ha; subst ha
      refine path_updH _ _ _ _ h rfl rfl ?_
      intro y _; cases fx.d7 <;> simp [markStop, markStarted]
    · simp at ha; subst ha
      refine path_updH _ _ _ _ h rfl rfl ?_
      intro y _; cases fx.d7 <;> simp [markStop, markStarted]
    · simp at ha
  all_goals p_tac

end Wm.RouterLife
