import WmModel.Lemmas.GcRegC11Step
namespace Wm.GcReg

theorem c11_step (s : St) (a : Action) (s' : St) (htl : TlOk s) (haux : AuxOk s) (hlive : LiveOk s) (hwg : WgOk s)
    (h : C11Ok s) (ha : act s a = some s') : C11Ok s' := by
  have nu_start : ∀ (t : Nat) (m : List Nat) (ao : Option (Nat × Nat)) (t' : Nat) (r : List Nat) (ao' : Option (Nat × Nat)),
      Th.pub t m PPc.start ao ≠ Th.pub t' r PPc.unlock ao' := fun _ _ _ _ _ _ hx => by cases hx
  cases a <;> simp only [act] at ha
  case newPub t msgs nested =>
    cases nested with
    | none => simp at ha; subst ha; exact c11_append s _ _ rfl (nu_start _ _ _) rfl rfl rfl rfl rfl h
    | some p =>
      simp only at ha
      split at ha
      · simp at ha; subst ha; exact c11_append s _ _ rfl (nu_start _ _ _) rfl rfl rfl rfl rfl h
      · simp at ha
  case newSub t => simp at ha; subst ha; exact c11_append s _ _ rfl (fun _ _ _ hx => by cases hx) rfl rfl rfl rfl rfl h
  case newClose => simp at ha; subst ha; exact c11_append s _ _ rfl (fun _ _ _ hx => by cases hx) rfl rfl rfl rfl rfl h
  case cancel sid => simp at ha; subst ha; exact c11_congr s _ rfl rfl rfl rfl rfl h
  case senderDone d sid =>
    split at ha
    · simp at ha; subst ha; exact c11_congr s _ rfl rfl rfl rfl rfl h
    · simp at ha
  case step i =>
    split at ha
    · rename_i t rest pc ao hth
      -- steps that keep the thread's "past persist" view
      have keep : ∀ (u : St) (pc' : PPc), u.ths = s.ths.set i (Th.pub t rest pc' ao) → u.subs = s.subs →
          u.started = s.started → u.log = s.log → u.cfg = s.cfg → afterPersist pc' = afterPersist pc →
          (pc' = PPc.unlock → rest = []) → C11Ok u := by
        intro u pc' e0 e1 e2 e3 e4 e5 e6
        refine c11_set_frame s u i _ _ hth e0 (by intro x hx; rw [e1] at hx; exact hx) e2 e3 e4 ?_ ?_ h
        · rw [afterP_pub, afterP_pub, e5]
        · intro t' r' ao' hx; injection hx with _ e7 e8 _; subst e7; exact e6 e8
      cases pc <;> simp only [stepPub] at ha
      case start =>
        split at ha
        · simp at ha
        · split at ha <;> (simp at ha; subst ha; exact keep _ _ rfl rfl rfl rfl rfl rfl (by intro hx; cases hx))
      case rlock =>
        split at ha
        · simp at ha
        · simp at ha; subst ha; exact keep _ _ rfl rfl rfl rfl rfl rfl (by intro hx; cases hx)
      case tlock =>
        split at ha
        · simp at ha; subst ha; exact keep _ _ rfl rfl rfl rfl rfl rfl (by intro hx; cases hx)
        · simp at ha
      case persist =>
        split at ha
        · split at ha
          · simp at ha; subst ha; exact keep _ _ rfl rfl rfl rfl rfl rfl (by intro hx; cases hx)
          · simp at ha; subst ha
            exact c11_persist s _ i t rest ao hth htl rfl rfl rfl rfl rfl h
        · rename_i hnp
          simp at ha; subst ha
          -- not persistent: the second conjunct is vacuous, the first is not affected
          refine ⟨?_, ?_⟩
          · intro j t' r' ao' hj
            simp only [setTh] at hj
            rcases get_set_cases _ _ _ _ _ hj with ⟨_, hx⟩ | ⟨_, hj'⟩
            · cases hx
            · exact h.1 j t' r' ao' hj'
          · intro hp; simp only [setTh] at hp; exact absurd hp hnp
      case send =>
        split at ha
        · simp at ha; subst ha; exact keep _ _ rfl rfl rfl rfl rfl rfl (fun _ => rfl)
        · rename_i m r
          split at ha
          · simp at ha; subst ha
            exact c11_send s _ i t m r (.wait s.disp.length) ao hth htl haux (by simp [setTh]) rfl (by intro hx; cases hx)
              (by simp [setTh]) (by simp [setTh]) (by simp [setTh]) (by simp [setTh]) h
          · simp at ha; subst ha
            exact c11_send s _ i t m r .send ao hth htl haux (by simp [setTh]) rfl (by intro hx; cases hx)
              (by simp [setTh]) (by simp [setTh]) (by simp [setTh]) (by simp [setTh]) h
      case wait d =>
        split at ha
        · simp at ha; subst ha; exact keep _ _ rfl rfl rfl rfl rfl rfl (by intro hx; cases hx)
        · simp at ha
      case unlock =>
        simp at ha; subst ha
        have hr : rest = [] := h.1 i t rest ao hth
        subst hr
        cases ao with
        | none =>
          exact c11_leave s _ i t .unlock none _ hth rfl rfl rfl (fun _ _ _ hx => by cases hx) rfl rfl rfl rfl h
        | some p =>
          exact c11_leave s _ i t .unlock (some p) (Th.pub t [] .retOk (some p)) hth rfl (by simp [setTh, finishSender]) rfl
            (fun _ _ _ hx => by cases hx) (by simp [setTh, finishSender]) (by simp [setTh, finishSender])
            (by simp [setTh, finishSender]) (by simp [setTh, finishSender]) h
      case retOk => simp at ha
      case retErr => simp at ha
    · rename_i t sid pc hth
      have keep : ∀ (u : St) (sid' : Nat) (pc' : UPc), u.ths = s.ths.set i (Th.sub t sid' pc') → u.subs = s.subs →
          u.started = s.started → u.log = s.log → u.cfg = s.cfg → C11Ok u := by
        intro u sid' pc' e0 e1 e2 e3 e4
        exact c11_set_frame s u i _ _ hth e0 (by intro x hx; rw [e1] at hx; exact hx) e2 e3 e4 rfl
          (fun _ _ _ hx => by cases hx) h
      cases pc <;> simp only [stepSub] at ha
      case start =>
        split at ha
        · simp at ha
        · split at ha <;> (simp at ha; subst ha; exact keep _ _ _ rfl rfl rfl rfl rfl)
      case wqueue => simp at ha; subst ha; exact keep _ _ _ rfl rfl rfl rfl rfl
      case announce =>
        split at ha
        · simp at ha; subst ha; exact keep _ _ _ rfl rfl rfl rfl rfl
        · simp at ha
      case drain =>
        split at ha
        · simp at ha; subst ha; exact keep _ _ _ rfl rfl rfl rfl rfl
        · simp at ha
      case tlock =>
        split at ha
        · simp at ha; subst ha
          -- the thread moves into the region, and its unsubscribe goroutine is appended
          let mid : St := { s with ths := s.ths.set i (Th.sub t s.nextSid UPc.register) }
          have hmid : C11Ok mid := keep mid _ _ rfl rfl rfl rfl rfl
          exact c11_append mid _ (Th.td t s.nextSid TPc.idle) rfl (fun _ _ _ hx => by cases hx) (by simp [setTh, mid])
            (by simp [setTh, mid]) (by simp [setTh, mid]) (by simp [setTh, mid]) (by simp [setTh, mid]) hmid
        · simp at ha
      case register =>
        simp at ha; subst ha
        have hnl := backlog_kept s hlive hwg i t sid hth
        refine c11_register s _ i t sid _ hth htl haux ?_ (by simp [setTh]) (by simp [setTh]) (by simp [setTh]; rfl)
          (by simp [setTh]) (by simp [setTh]) h
        intro hp; simp [hp, hnl]
      case retOk => simp at ha
      case retErr => simp at ha
    · rename_i t sid pc hth
      have keep : ∀ (u : St) (pc' : TPc), u.ths = s.ths.set i (Th.td t sid pc') → (∀ x, x ∈ u.subs → x ∈ s.subs) →
          u.started = s.started → u.log = s.log → u.cfg = s.cfg → C11Ok u := by
        intro u pc' e0 e1 e2 e3 e4
        exact c11_set_frame s u i _ _ hth e0 e1 e2 e3 e4 rfl (fun _ _ _ hx => by cases hx) h
      cases pc <;> simp only [stepTd] at ha
      case idle =>
        split at ha
        · simp at ha; subst ha; exact keep _ _ rfl (fun _ hx => hx) rfl rfl rfl
        · simp at ha
      case subClosed => simp at ha; subst ha; exact keep _ _ rfl (fun _ hx => hx) rfl rfl rfl
      case announce =>
        split at ha
        · simp at ha; subst ha; exact keep _ _ rfl (fun _ hx => hx) rfl rfl rfl
        · simp at ha
      case drain =>
        split at ha
        · simp at ha; subst ha; exact keep _ _ rfl (fun _ hx => hx) rfl rfl rfl
        · simp at ha
      case tlock =>
        split at ha
        · simp at ha; subst ha; exact keep _ _ rfl (fun _ hx => hx) rfl rfl rfl
        · simp at ha
      case remove =>
        split at ha
        · split at ha
          · simp at ha; subst ha; exact c11_congr s _ rfl rfl rfl rfl rfl h
          · simp at ha; subst ha
            exact keep _ .done (by simp [setTh]) (by intro x hx; simp [setTh] at hx; exact List.mem_of_mem_erase hx)
              (by simp [setTh]) (by simp [setTh]) (by simp [setTh])
        · simp at ha; subst ha; exact c11_congr s _ rfl rfl rfl rfl rfl h
      case done => simp at ha
    · rename_i pc hth
      have keep : ∀ (u : St) (pc' : CPc), u.ths = s.ths.set i (Th.closer pc') → u.subs = s.subs →
          u.started = s.started → u.log = s.log → u.cfg = s.cfg → C11Ok u := by
        intro u pc' e0 e1 e2 e3 e4
        exact c11_set_frame s u i _ _ hth e0 (by intro x hx; rw [e1] at hx; exact hx) e2 e3 e4 rfl
          (fun _ _ _ hx => by cases hx) h
      cases pc <;> simp only [stepCloser] at ha
      case start =>
        split at ha
        · simp at ha
        · split at ha <;> (simp at ha; subst ha; exact keep _ _ rfl rfl rfl rfl rfl)
      case waitWg =>
        split at ha
        · simp at ha; subst ha; exact keep _ _ rfl rfl rfl rfl rfl
        · simp at ha
      case ret => simp at ha
    · simp at ha

end Wm.GcReg
