import WmModel.Lemmas.GcRegInv
namespace Wm.GcReg

/-- B2: `subscribersWg` counts exactly the subscriptions on their way in or not yet removed -/
def WgOk (s : St) : Prop := s.wg = s.ths.countP needsDone

theorem countP_pos_of_get (l : List Th) (i : Nat) (th : Th) (h : l[i]? = some th) (hp : needsDone th = true) :
    0 < l.countP needsDone :=
  List.countP_pos_iff.mpr ⟨th, List.mem_of_getElem? h, hp⟩

theorem countP_set_get (l : List Th) (i : Nat) (old new : Th) (h : l[i]? = some old) :
    (l.set i new).countP needsDone + (if needsDone old = true then 1 else 0) =
      l.countP needsDone + (if needsDone new = true then 1 else 0) := by
  have hlt : i < l.length := (List.getElem?_eq_some_iff.mp h).1
  have hget : l[i] = old := (List.getElem?_eq_some_iff.mp h).2
  rw [List.countP_set hlt, hget]
  by_cases hx : needsDone old = true
  · have := countP_pos_of_get l i old h hx
    simp [hx]; omega
  · simp [hx]

theorem wg_set (s t : St) (i : Nat) (old new : Th) (hold : s.ths[i]? = some old) (hths : t.ths = s.ths.set i new)
    (hwg : t.wg + (if needsDone old = true then 1 else 0) = s.wg + (if needsDone new = true then 1 else 0))
    (h : WgOk s) : WgOk t := by
  unfold WgOk at *
  have := countP_set_get s.ths i old new hold
  rw [hths]; omega

theorem wg_append (s t : St) (new : Th) (hn : needsDone new = false) (hths : t.ths = s.ths ++ [new]) (hwg : t.wg = s.wg)
    (h : WgOk s) : WgOk t := by
  unfold WgOk at *
  rw [hths, List.countP_append, hwg, h]; simp [hn]

theorem wg_congr (s t : St) (h1 : t.ths = s.ths) (h2 : t.wg = s.wg) (h : WgOk s) : WgOk t := by
  unfold WgOk at *; rw [h1, h2]; exact h

theorem wg_step (s : St) (a : Action) (s' : St) (h : WgOk s) (ha : act s a = some s') : WgOk s' := by
  cases a <;> simp only [act] at ha
  case newPub t msgs nested =>
    cases nested with
    | none => simp at ha; subst ha; exact wg_append s _ _ rfl rfl rfl h
    | some p =>
      simp only at ha
      split at ha
      · simp at ha; subst ha; exact wg_append s _ _ rfl rfl rfl h
      · simp at ha
  case newSub t => simp at ha; subst ha; exact wg_append s _ _ rfl rfl rfl h
  case newClose => simp at ha; subst ha; exact wg_append s _ _ rfl rfl rfl h
  case cancel sid => simp at ha; subst ha; exact wg_congr s _ rfl rfl h
  case senderDone d sid =>
    split at ha
    · simp at ha; subst ha; exact wg_congr s _ rfl rfl h
    · simp at ha
  case step i =>
    split at ha
    · rename_i t rest pc ao hth
      have keep : ∀ (u : St) (new : Th), needsDone new = false → u.ths = s.ths.set i new → u.wg = s.wg → WgOk u :=
        fun u new hn h1 h2 => wg_set s u i _ new hth h1 (by rw [hn, h2]; rfl) h
      cases pc <;> simp only [stepPub] at ha
      case start =>
        split at ha
        · simp at ha
        · split at ha <;> (simp at ha; subst ha; exact keep _ _ rfl rfl rfl)
      case rlock =>
        split at ha
        · simp at ha
        · simp at ha; subst ha; exact keep _ _ rfl rfl rfl
      case tlock =>
        split at ha
        · simp at ha; subst ha; exact keep _ _ rfl rfl rfl
        · simp at ha
      case persist =>
        split at ha
        · split at ha <;> (simp at ha; subst ha; exact keep _ _ rfl rfl rfl)
        · simp at ha; subst ha; exact keep _ _ rfl rfl rfl
      case send =>
        split at ha
        · simp at ha; subst ha; exact keep _ _ rfl rfl rfl
        · split at ha <;> (simp at ha; subst ha; exact keep _ _ rfl rfl rfl)
      case wait d =>
        split at ha
        · simp at ha; subst ha; exact keep _ _ rfl rfl rfl
        · simp at ha
      case unlock =>
        simp at ha; subst ha
        cases ao with
        | none => exact keep _ _ rfl rfl rfl
        | some p => exact keep _ _ rfl rfl rfl
      case retOk => simp at ha
      case retErr => simp at ha
    · rename_i t sid pc hth
      cases pc <;> simp only [stepSub] at ha
      case start =>
        split at ha
        · simp at ha
        · split at ha
          · simp at ha; subst ha; exact wg_set s _ i _ _ hth rfl (by simp [needsDone, setTh]) h
          · simp at ha; subst ha; exact wg_set s _ i _ _ hth rfl (by simp [needsDone, setTh]) h
      case wqueue => simp at ha; subst ha; exact wg_set s _ i _ _ hth rfl (by simp [needsDone, setTh]) h
      case announce =>
        split at ha
        · simp at ha; subst ha; exact wg_set s _ i _ _ hth rfl (by simp [needsDone, setTh]) h
        · simp at ha
      case drain =>
        split at ha
        · simp at ha; subst ha; exact wg_set s _ i _ _ hth rfl (by simp [needsDone, setTh]) h
        · simp at ha
      case tlock =>
        split at ha
        · simp at ha; subst ha
          unfold WgOk at *
          have := countP_set_get s.ths i _ (.sub t s.nextSid .register) hth
          simp [needsDone] at this
          simp [List.countP_append, needsDone, setTh]
          omega
        · simp at ha
      case register => simp at ha; subst ha; exact wg_set s _ i _ _ hth rfl (by simp [needsDone, setTh]) h
      case retOk => simp at ha
      case retErr => simp at ha
    · rename_i t sid pc hth
      cases pc <;> simp only [stepTd] at ha
      case idle =>
        split at ha
        · simp at ha; subst ha; exact wg_set s _ i _ _ hth rfl (by simp [needsDone, setTh]) h
        · simp at ha
      case subClosed => simp at ha; subst ha; exact wg_set s _ i _ _ hth rfl (by simp [needsDone, setTh]) h
      case announce =>
        split at ha
        · simp at ha; subst ha; exact wg_set s _ i _ _ hth rfl (by simp [needsDone, setTh]) h
        · simp at ha
      case drain =>
        split at ha
        · simp at ha; subst ha; exact wg_set s _ i _ _ hth rfl (by simp [needsDone, setTh]) h
        · simp at ha
      case tlock =>
        split at ha
        · simp at ha; subst ha; exact wg_set s _ i _ _ hth rfl (by simp [needsDone, setTh]) h
        · simp at ha
      case remove =>
        split at ha
        · split at ha
          · simp at ha; subst ha; exact wg_congr s _ rfl rfl h
          · rename_i hwg
            simp at ha; subst ha
            exact wg_set s _ i _ _ hth rfl (by simp [needsDone, setTh]; omega) h
        · simp at ha; subst ha; exact wg_congr s _ rfl rfl h
      case done => simp at ha
    · rename_i pc hth
      cases pc <;> simp only [stepCloser] at ha
      case start =>
        split at ha
        · simp at ha
        · split at ha <;> (simp at ha; subst ha; exact wg_set s _ i _ _ hth rfl (by simp [needsDone, setTh]) h)
      case waitWg =>
        split at ha
        · simp at ha; subst ha; exact wg_set s _ i _ _ hth rfl (by simp [needsDone, setTh]) h
        · simp at ha
      case ret => simp at ha
    · simp at ha

end Wm.GcReg
