/-
  The inductive invariant of the Pipeline model (helper of Props/C01.lean).
-/
import WmModel.Pipeline
import WmModel.Lts
import WmModel.Lemmas.PipelineList
namespace Wm.Pipeline
open Wm.Lts Wm.Pipeline.ListLemmas

def sys (p : Shape) (srcs : List Nat) (faults : List Fault) : Sys St Action :=
  { init := init srcs faults, act := act p }

/-- the invariant; `srcs0` is the environment's source script -/
structure Good (p : Shape) (srcs0 : List Nat) (s : St) : Prop where
  /-- no loss: a published lineage is at the sink or some subscription still owes it -/
  cover : ∀ l, l ∈ s.pub → l ∈ s.sink ∨ ∃ t, t ∈ s.toks ∧ t.lin = l
  /-- a token that may be acked is already covered strictly downstream -/
  down : ∀ t, t ∈ s.toks → t.phase = .published →
    t.lin ∈ s.sink ∨ ∃ d, d ∈ s.toks ∧ d.lin = t.lin ∧ t.stage < d.stage
  busy : ∀ t, t ∈ s.toks → t.phase ≠ .pending → t.stage < p.n
  bound : ∀ t, t ∈ s.toks → t.stage ≤ p.n
  tokPub : ∀ t, t ∈ s.toks → t.lin ∈ s.pub
  sinkPub : ∀ l, l ∈ s.sink → l ∈ s.pub
  script : ∀ l, l ∈ srcs0 → l ∈ s.pub ∨ l ∈ s.srcs
  pubScript : ∀ l, l ∈ s.pub → l ∈ srcs0
  srcScript : ∀ l, l ∈ s.srcs → l ∈ srcs0

theorem good_init (p : Shape) (srcs : List Nat) (faults : List Fault) : Good p srcs (init srcs faults) := by
  constructor <;> simp [init]

theorem mem_spawn (p : Shape) (l st : Nat) (x : Tok) :
    x ∈ spawn p l st ↔ ∃ t, t ∈ p.next st ∧ x = ⟨l, t, .pending⟩ := by
  simp [spawn]
  constructor
  · rintro ⟨t, ht, rfl⟩; exact ⟨t, ht, rfl⟩
  · rintro ⟨t, ht, rfl⟩; exact ⟨t, ht, rfl⟩

theorem good_publishSource (p : Shape) (srcs0 : List Nat) (s s' : St) (k : Nat) (g : Good p srcs0 s)
    (h : act p s (.publishSource k) = some s') : Good p srcs0 s' := by
  simp only [act] at h
  split at h
  · rename_i l hk
    simp at h; subst h
    have hmem := mem_iff_eraseIdx hk
    have hl : l ∈ s.srcs := List.mem_of_getElem? hk
    obtain ⟨c1, c2, c3, c4, c5, c6, c7, c8, c9⟩ := g
    constructor <;> simp only [List.mem_append, List.mem_singleton] <;> grind
  · simp at h

theorem good_deliver (p : Shape) (srcs0 : List Nat) (s s' : St) (i : Nat) (g : Good p srcs0 s)
    (h : act p s (.deliver i) = some s') : Good p srcs0 s' := by
  simp only [act] at h
  split at h
  · rename_i l st hi
    split at h
    · rename_i hlt
      simp at h; subst h
      have hm := mem_iff_eraseIdx hi
      have ha0 := List.mem_of_getElem? hi
      have hm' := mem_set_iff hi ⟨l, st, .handling⟩
      have hb := (hm' ⟨l, st, .handling⟩).2 (Or.inl rfl)
      obtain ⟨c1, c2, c3, c4, c5, c6, c7, c8, c9⟩ := g
      constructor <;> grind
    · simp at h
  · simp at h

theorem good_fault (p : Shape) (hw : p.WF) (srcs0 : List Nat) (s s' : St) (i k : Nat) (g : Good p srcs0 s)
    (h : act p s (.fault i k) = some s') : Good p srcs0 s' := by
  simp only [act] at h
  split at h
  · rename_i l st f hi hk
    split at h
    · rename_i hst
      simp at h; subst h
      have hm := mem_iff_eraseIdx hi
      have ha0 := List.mem_of_getElem? hi
      have hm' := mem_set_iff hi ⟨l, st, .pending⟩
      have hb := (hm' ⟨l, st, .pending⟩).2 (Or.inl rfl)
      have hsp := mem_spawn p l st
      have hlt : st < p.n := g.busy _ (List.mem_of_getElem? hi) (by simp)
      have hw' := hw st hlt
      obtain ⟨c1, c2, c3, c4, c5, c6, c7, c8, c9⟩ := g
      by_cases hpa : f.kind = .pubErrAfterPartial
      · simp only [hpa, if_true]
        constructor <;> simp only [List.mem_append] <;> grind
      · simp only [hpa, if_false, List.append_nil]
        constructor <;> grind
    · simp at h
  · simp at h

theorem good_publishOk (p : Shape) (hw : p.WF) (srcs0 : List Nat) (s s' : St) (i : Nat) (g : Good p srcs0 s)
    (h : act p s (.publishOk i) = some s') : Good p srcs0 s' := by
  simp only [act] at h
  split at h
  · rename_i l st hi
    simp at h; subst h
    have hm := mem_iff_eraseIdx hi
    have ha0 := List.mem_of_getElem? hi
    have hm' := mem_set_iff hi ⟨l, st, .published⟩
    have hb := (hm' ⟨l, st, .published⟩).2 (Or.inl rfl)
    have hsp := mem_spawn p l st
    have hlt : st < p.n := g.busy _ (List.mem_of_getElem? hi) (by simp)
    have hw' := hw st hlt
    obtain ⟨t0, ht0⟩ := List.exists_mem_of_ne_nil _ hw'.1
    have ht0' := hw'.2 t0 ht0
    have hsp0 := (hsp ⟨l, t0, .pending⟩).2 ⟨t0, ht0, rfl⟩
    obtain ⟨c1, c2, c3, c4, c5, c6, c7, c8, c9⟩ := g
    constructor <;> simp only [List.mem_append] <;> grind
  · simp at h

theorem good_ack (p : Shape) (srcs0 : List Nat) (s s' : St) (i : Nat) (g : Good p srcs0 s)
    (h : act p s (.ack i) = some s') : Good p srcs0 s' := by
  simp only [act] at h
  split at h
  · rename_i l st hi
    simp at h; subst h
    have hm := mem_iff_eraseIdx hi
    have ha0 := List.mem_of_getElem? hi
    have ha := g.down _ (List.mem_of_getElem? hi) rfl
    obtain ⟨c1, c2, c3, c4, c5, c6, c7, c8, c9⟩ := g
    constructor <;> grind
  · simp at h

theorem good_sink (p : Shape) (srcs0 : List Nat) (s s' : St) (i : Nat) (g : Good p srcs0 s)
    (h : act p s (.sink i) = some s') : Good p srcs0 s' := by
  simp only [act] at h
  split at h
  · rename_i l st hi
    split at h
    · rename_i hst
      simp at h; subst h
      have hm := mem_iff_eraseIdx hi
      have ha0 := List.mem_of_getElem? hi
      have hl := g.tokPub _ (List.mem_of_getElem? hi)
      obtain ⟨c1, c2, c3, c4, c5, c6, c7, c8, c9⟩ := g
      constructor <;> simp only [List.mem_append, List.mem_singleton] <;> grind
    · simp at h
  · simp at h

theorem good_step (p : Shape) (hw : p.WF) (srcs0 : List Nat) (s : St) (a : Action) (s' : St) (g : Good p srcs0 s)
    (h : act p s a = some s') : Good p srcs0 s' := by
  cases a with
  | publishSource k => exact good_publishSource p srcs0 s s' k g h
  | deliver i => exact good_deliver p srcs0 s s' i g h
  | fault i k => exact good_fault p hw srcs0 s s' i k g h
  | publishOk i => exact good_publishOk p hw srcs0 s s' i g h
  | ack i => exact good_ack p srcs0 s s' i g h
  | sink i => exact good_sink p srcs0 s s' i g h

theorem reach_good (p : Shape) (hw : p.WF) (srcs : List Nat) (faults : List Fault) :
    ∀ s, Reach (sys p srcs faults) s → Good p srcs s :=
  inv_of_step (sys p srcs faults) (Good p srcs) (good_init p srcs faults)
    (fun s a s' g h => good_step p hw srcs s a s' g h)

end Wm.Pipeline
