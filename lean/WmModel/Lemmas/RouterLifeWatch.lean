/-
  The self-close watcher (watchAllHandlersStopped) of RouterLife: it exists once Run has started it, it cannot miss the
  first handler (buffered handlerAdded, fix D14), and when it is done a Close is under way or finished.
-/
import WmModel.Lemmas.RouterLifeCtl
namespace Wm.RouterLife
open Wm.Lts

def pendingCloser (s : St) : Prop :=
  ∃ k : Nat, s.closers[k]? = some CPc.wantCL ∨ s.closers[k]? = some CPc.wantHL

structure WatchOk (s : St) : Prop where
  w1 : s.watch = .off ↔ (s.run = .idle ∨ s.run = .startWatch)
  w2 : (s.watch = .off ∨ s.watch = .presel ∨ s.watch = .sel) → s.hs = [] ∨ s.tok = true
  w3 : s.watch = .done → s.closed = true ∨ pendingCloser s
  w4 : ∀ c, s.hl = .rh true c → s.watch ≠ .off

theorem watch_init : WatchOk init := by
  constructor <;> simp [init]

theorem watch_frame (s s' : St) (h : WatchOk s) (e1 : s'.watch = s.watch) (e2 : s'.run = s.run)
    (e3 : s'.hs = [] → s.hs = []) (e3' : s.hs = [] → s'.hs = []) (e4 : s.tok = true → s'.tok = true)
    (e5 : s.closed = true → s'.closed = true) (e6 : pendingCloser s → s'.closed = true ∨ pendingCloser s')
    (e7 : ∀ c, s'.hl = .rh true c → ∃ c', s.hl = .rh true c') : WatchOk s' := by
  obtain ⟨w1, w2, w3, w4⟩ := h
  refine ⟨by rw [e1, e2]; exact w1, ?_, ?_, by rw [e1]; intro c hc; obtain ⟨c', hc'⟩ := e7 c hc; exact w4 c' hc'⟩
  · rw [e1]; intro hw
    rcases w2 hw with h1 | h1
    · exact Or.inl (e3' h1)
    · exact Or.inr (e4 h1)
  · rw [e1]; intro hw
    rcases w3 hw with h1 | h1
    · exact Or.inl (e5 h1)
    · exact e6 h1

theorem pending_same (s s' : St) (e : s'.closers = s.closers) : pendingCloser s → s'.closed = true ∨ pendingCloser s' := by
  intro ⟨k, hk⟩; right; exact ⟨k, by rw [e]; exact hk⟩

theorem pending_append (s s' : St) (c : CPc) (e : s'.closers = s.closers ++ [c]) :
    pendingCloser s → s'.closed = true ∨ pendingCloser s' := by
  intro ⟨k, hk⟩; right
  have mono : ∀ (c' : CPc), s.closers[k]? = some c' → s'.closers[k]? = some c' := by
    intro c' hj
    rw [e, List.getElem?_append_left]
    · exact hj
    · rcases Nat.lt_or_ge k s.closers.length with h | h
      · exact h
      · rw [List.getElem?_eq_none h] at hj; cases hj
  rcases hk with hk | hk
  · exact ⟨k, Or.inl (mono _ hk)⟩
  · exact ⟨k, Or.inr (mono _ hk)⟩

/-- a Close call moves on: still pending, or the router is closed now -/
theorem pending_set (s s' : St) (k : Nat) (c0 c : CPc) (hk : s.closers[k]? = some c0) (e : s'.closers = s.closers.set k c)
    (hc : c = .wantHL ∨ s'.closed = true ∨ (c0 ≠ .wantCL ∧ c0 ≠ .wantHL)) :
    pendingCloser s → s'.closed = true ∨ pendingCloser s' := by
  intro ⟨j, hj⟩
  have hlen : k < s.closers.length := by
    rcases Nat.lt_or_ge k s.closers.length with h | h
    · exact h
    · rw [List.getElem?_eq_none h] at hk; cases hk
  by_cases hkj : k = j
  · subst hkj
    rcases hc with hc | hc | hc
    · right; exact ⟨k, Or.inr (by rw [e, hc]; simp [hlen])⟩
    · exact Or.inl hc
    · rw [hk] at hj
      rcases hj with hj | hj
      · simp at hj; exact absurd hj hc.1
      · simp at hj; exact absurd hj hc.2
  · right; exact ⟨j, by rw [e, List.getElem?_set]; simp [hkj]; exact hj⟩

set_option hygiene false in
macro "w_tac" : tactic => `(tactic|
  (repeat' split at ha
   all_goals (try (simp at ha))
   all_goals (try subst ha)
   all_goals (first
     | exact watch_frame _ _ h rfl rfl id id id id (pending_same _ _ rfl) (fun c hc => ⟨c, hc⟩)
     | (refine watch_frame _ _ h rfl rfl ?_ ?_ ?_ ?_ (pending_same _ _ rfl) ?_ <;> simp_all [updH, updM, setC])
     | (obtain ⟨w1, w2, w3, w4⟩ := h
        constructor <;> simp_all [updH, updM, setC, pendingCloser]))))

theorem watch_step (fx : Fix) (hfx : fx.d14 = true) (s : St) (a : Action) (s' : St) (hc : CtlOk s) (h : WatchOk s)
    (ha : act fx s a = some s') : WatchOk s' := by
  cases a <;> simp only [act] at ha
  case addHandler =>
    split at ha
    · simp [hfx] at ha; subst ha
      obtain ⟨w1, w2, w3, w4⟩ := h
      exact ⟨w1, fun _ => Or.inr rfl, fun hw => by
        rcases w3 hw with h1 | ⟨k, hk⟩
        · exact Or.inl h1
        · exact Or.inr ⟨k, hk⟩, w4⟩
    · simp at ha
  case closeCall =>
    simp at ha; subst ha
    exact watch_frame _ _ h rfl rfl id id id id (pending_append _ _ _ rfl) (fun c hc => ⟨c, hc⟩)
  case closeCL k =>
    split at ha
    · rename_i hk _; simp at ha; subst ha
      exact watch_frame _ _ h rfl rfl id id id id (pending_set _ _ k _ _ hk rfl (Or.inl rfl)) (fun c hc => ⟨c, hc⟩)
    · simp at ha
  case closeHL k =>
    split at ha
    · rename_i hk
      split at ha
      · split at ha
        · rename_i hcl; simp at ha; subst ha
          exact watch_frame _ _ h rfl rfl id id id id (pending_set _ _ k _ _ hk rfl (Or.inr (Or.inl hcl))) (fun c hc => ⟨c, hc⟩)
        · simp at ha; subst ha
          exact watch_frame _ _ h rfl rfl id id id (fun _ => rfl) (fun _ => Or.inl rfl) (fun c hc => by simp [setC] at hc)
      · simp at ha
    · simp at ha
  case closeDone k =>
    split at ha
    · rename_i hk
      split at ha
      · simp at ha; subst ha
        have := (hc.k1 k hk).1
        exact watch_frame _ _ h rfl rfl id id id id (fun _ => Or.inl this) (fun c hc => by simp [setC] at hc)
      · simp at ha
    · simp at ha
  case closeTimeout k =>
    split at ha
    · rename_i hk
      split at ha
      · simp at ha; subst ha
        have := (hc.k1 k hk).1
        exact watch_frame _ _ h rfl rfl id id id id (fun _ => Or.inl this) (fun c hc => by simp [setC] at hc)
      · simp at ha
    · simp at ha
  case watchCheck =>
    split at ha
    · split at ha
      · rename_i hcl; simp at ha; subst ha
        obtain ⟨w1, w2, w3, w4⟩ := h
        refine ⟨?_, by intro hw; simp at hw, fun _ => Or.inl hcl, by intro c hc; simp⟩
        simp; have := w1; simp_all
      · simp at ha; subst ha
        obtain ⟨w1, w2, w3, w4⟩ := h
        refine ⟨?_, by intro hw; simp at hw, fun _ => Or.inr ⟨s.closers.length, Or.inl (by simp)⟩, by intro c hc; simp⟩
        simp; have := w1; simp_all
    · simp at ha
  case watchClosed =>
    split at ha
    · rename_i hg; simp at ha; subst ha
      obtain ⟨w1, w2, w3, w4⟩ := h
      refine ⟨?_, by intro hw; simp at hw, fun _ => Or.inl (hc.k5.1 hg.2), by intro c hc; simp⟩
      simp; have := w1; simp_all
    · simp at ha
  all_goals w_tac

end Wm.RouterLife
