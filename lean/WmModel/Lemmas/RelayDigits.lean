/-
  Helper lemmas about the executable model of strconv.Atoi / strconv.Itoa in WmModel/Relay.lean:
  `atoi (itoa i) = some i` on the range of a 64-bit int, and `atoi` never leaves that range.
-/
import WmModel.Relay
namespace Wm.Relay
open Wm.Poison (Str)

theorem digit_facts : ∀ d : Fin 10,
    isDigit (UInt8.ofNat (48 + d.val)) = true ∧ digitVal (UInt8.ofNat (48 + d.val)) = d.val ∧
    UInt8.ofNat (48 + d.val) ≠ 43 ∧ UInt8.ofNat (48 + d.val) ≠ 45 := by decide

theorem digitChar_facts (n : Nat) :
    isDigit (digitChar n) = true ∧ digitVal (digitChar n) = n % 10 ∧ digitChar n ≠ 43 ∧ digitChar n ≠ 45 := by
  have h := digit_facts ⟨n % 10, Nat.mod_lt _ (by decide)⟩
  simpa [digitChar] using h

theorem digitsVal_append (xs : List UInt8) (b : UInt8) :
    digitsVal (xs ++ [b]) = digitsVal xs * 10 + digitVal b := by
  simp [digitsVal, List.foldl_append]

/-- the fuel never runs out, and the digits denote the number -/
theorem natDigitsF_val : ∀ (f n : Nat), n < f →
    digitsVal (natDigitsF f n) = n ∧ (natDigitsF f n).all isDigit = true ∧ natDigitsF f n ≠ [] ∧
    (∀ c rest, natDigitsF f n = c :: rest → c ≠ 43 ∧ c ≠ 45) := by
  intro f
  induction f with
  | zero => intro n h; omega
  | succ f ih =>
    intro n hn
    have hc := digitChar_facts n
    by_cases h10 : n < 10
    · have hm : n % 10 = n := Nat.mod_eq_of_lt h10
      simp only [natDigitsF, h10, if_true]
      refine ⟨?_, ?_, ?_, ?_⟩
      · simp [digitsVal, hc.2.1, hm]
      · simp [hc.1]
      · simp
      · intro c rest h; injection h with h1 _; subst h1; exact ⟨hc.2.2.1, hc.2.2.2⟩
    · have hlt : n / 10 < f := by omega
      obtain ⟨h1, h2, h3, h4⟩ := ih (n / 10) hlt
      simp only [natDigitsF, h10, if_false]
      refine ⟨?_, ?_, ?_, ?_⟩
      · rw [digitsVal_append, h1, hc.2.1]; omega
      · simp [List.all_append, h2, hc.1]
      · simp
      · intro c rest h
        cases hq : natDigitsF f (n / 10) with
        | nil => exact absurd hq h3
        | cons c' rest' =>
          rw [hq] at h
          simp only [List.cons_append] at h
          injection h with hc' _
          subst hc'
          exact h4 c' rest' hq

theorem natDigits_val (n : Nat) :
    digitsVal (natDigits n) = n ∧ (natDigits n).all isDigit = true ∧ natDigits n ≠ [] ∧
    (∀ c rest, natDigits n = c :: rest → c ≠ 43 ∧ c ≠ 45) :=
  natDigitsF_val (n + 1) n (Nat.lt_succ_self n)

theorem stripSign_digit (c : UInt8) (rest : List UInt8) (h1 : c ≠ 43) (h2 : c ≠ 45) :
    stripSign (c :: rest) = c :: rest ∧ isNeg (c :: rest) = false := by
  constructor
  · unfold stripSign
    split
    · rename_i heq; injection heq with ha _; exact absurd ha h1
    · rename_i heq; injection heq with ha _; exact absurd ha h2
    · rfl
  · unfold isNeg
    split
    · rename_i heq; injection heq with ha _; exact absurd ha h2
    · rfl

/-- `atoi` on an unsigned digit string -/
theorem atoi_natDigits (n : Nat) (h : n ≤ 9223372036854775807) : atoi (natDigits n) = some (n : Int) := by
  obtain ⟨h1, h2, h3, h4⟩ := natDigits_val n
  cases hq : natDigits n with
  | nil => exact absurd hq h3
  | cons c rest =>
    have hc := h4 c rest hq
    rw [hq] at h1 h2
    obtain ⟨hs, hn⟩ := stripSign_digit c rest hc.1 hc.2
    simp only [atoi, hs, hn, h2, h1]
    simp [h]

theorem atoi_neg_natDigits (n : Nat) (h : n ≤ 9223372036854775808) :
    atoi (45 :: natDigits n) = some (-(n : Int)) := by
  obtain ⟨h1, h2, h3, _⟩ := natDigits_val n
  have hne : (natDigits n).isEmpty = false := by
    cases hq : natDigits n with
    | nil => exact absurd hq h3
    | cons _ _ => rfl
  have hs : stripSign (45 :: natDigits n) = natDigits n := rfl
  have hn : isNeg (45 :: natDigits n) = true := rfl
  simp only [atoi, hs, hn, h2, h1, hne]
  simp [h]

/-- **Itoa then Atoi is the identity on the range of `int`** (so the counter the requeuer writes is the counter it
    reads the next time) -/
theorem atoi_itoa (i : Int) (hlo : minInt ≤ i) (hhi : i ≤ maxInt) : atoi (itoa i) = some i := by
  unfold minInt at hlo
  unfold maxInt at hhi
  unfold itoa
  by_cases hneg : i < 0
  · simp only [hneg, if_true]
    have h2 : i.natAbs ≤ 9223372036854775808 := by omega
    rw [atoi_neg_natDigits _ h2]
    congr 1; omega
  · simp only [hneg, if_false]
    have h2 : i.toNat ≤ 9223372036854775807 := by omega
    rw [atoi_natDigits _ h2]
    congr 1; omega

/-- `atoi` only yields values of a 64-bit `int` -/
theorem atoi_range (s : Str) (i : Int) (h : atoi s = some i) : minInt ≤ i ∧ i ≤ maxInt := by
  unfold minInt maxInt
  simp only [atoi] at h
  by_cases hbad : ((stripSign s).isEmpty || !(stripSign s).all isDigit) = true
  · simp [hbad] at h
  · simp only [hbad] at h
    by_cases hn : isNeg s = true
    · simp only [hn, if_true] at h
      by_cases hr : digitsVal (stripSign s) ≤ 9223372036854775808
      · simp [hr] at h; omega
      · simp [hr] at h
    · simp only [hn] at h
      by_cases hr : digitsVal (stripSign s) ≤ 9223372036854775807
      · simp [hr] at h; omega
      · simp [hr] at h

end Wm.Relay
