/-
  Helper lemmas for the RouterLife invariants: list updates, the transition system, the control invariant.
-/
import WmModel.RouterLife
import WmModel.Lts
namespace Wm.RouterLife
open Wm.Lts

def sys (fx : Fix) : Sys St Action := { init := init, act := act fx }

theorem getElem?_modify_some {α : Type} (l : List α) (i j : Nat) (f : α → α) (y : α)
    (h : (l.modify i f)[j]? = some y) :
    (i = j ∧ ∃ x, l[j]? = some x ∧ y = f x) ∨ (i ≠ j ∧ l[j]? = some y) := by
  rw [List.getElem?_modify] at h
  by_cases hij : i = j
  · subst hij
    simp at h
    obtain ⟨x, hx, hy⟩ := h
    exact Or.inl ⟨rfl, x, hx, hy.symm⟩
  · simp [hij] at h
    exact Or.inr ⟨hij, h⟩

theorem mem_modify {α : Type} (l : List α) (i : Nat) (f : α → α) (y : α) (h : y ∈ l.modify i f) :
    y ∈ l ∨ ∃ x, l[i]? = some x ∧ y = f x := by
  obtain ⟨j, hj⟩ := List.mem_iff_getElem?.mp h
  rcases getElem?_modify_some l i j f y hj with ⟨rfl, x, hx, hy⟩ | ⟨_, hy⟩
  · exact Or.inr ⟨x, hx, hy⟩
  · exact Or.inl (List.mem_iff_getElem?.mpr ⟨j, hy⟩)

theorem mem_of_getElem? {α : Type} (l : List α) (i : Nat) (x : α) (h : l[i]? = some x) : x ∈ l :=
  List.mem_iff_getElem?.mpr ⟨i, h⟩

/-- a predicate that holds for all elements and is kept by `f` on the modified one holds after `modify` -/
theorem forall_mem_modify {α : Type} (l : List α) (i : Nat) (f : α → α) (P : α → Prop)
    (hall : ∀ x ∈ l, P x) (hf : ∀ x, l[i]? = some x → P x → P (f x)) : ∀ y ∈ l.modify i f, P y := by
  intro y hy
  rcases mem_modify l i f y hy with h | ⟨x, hx, rfl⟩
  · exact hall y h
  · exact hf x hx (hall x (mem_of_getElem? l i x hx))

theorem getElem?_append_one {α : Type} (l : List α) (x y : α) (j : Nat) (h : (l ++ [x])[j]? = some y) :
    l[j]? = some y ∨ (j = l.length ∧ y = x) := by
  by_cases hj : j < l.length
  · rw [List.getElem?_append_left hj] at h; exact Or.inl h
  · rw [List.getElem?_append_right (by omega)] at h
    by_cases h0 : j - l.length = 0
    · rw [h0] at h; simp at h; exact Or.inr ⟨by omega, h.symm⟩
    · have : (j - l.length) = (j - l.length - 1) + 1 := by omega
      rw [this] at h; simp at h

theorem all_ended_iff (s : St) : loopsEnded s = true ↔ ∀ h ∈ s.hs, h.loop.ended = true := by
  simp [loopsEnded, List.all_eq_true]

theorem none_inflight_iff (s : St) : noneInFlight s = true ↔ ∀ m ∈ s.msgs, m.stage.inFlight = false := by
  simp [noneInFlight, List.all_eq_true]

end Wm.RouterLife
