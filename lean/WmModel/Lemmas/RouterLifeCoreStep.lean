import WmModel.Lemmas.RouterLifeCore
namespace Wm.RouterLife
open Wm.Lts

/-- steps that only touch one handler, keeping `loop` and `started` -/
theorem core_updH_keep (fx : Fix) (s : St) (i : Nat) (g : Handler → Handler) (h : CoreOk fx s)
    (hg : ∀ x, (g x).loop = x.loop ∧ (g x).started = x.started) : CoreOk fx (updH s i g) :=
  core_of fx s _ h rfl rfl rfl rfl rfl
    (hs_modify _ _ _ _ (fun x _ => hrel_keep _ _ _ (hg x).1 (hg x).2)) (M_same _ _ rfl)

/-- steps that move one handler's loop between two live (not `off`) states while `wA` is false -/
theorem core_updH_loop (fx : Fix) (s : St) (i : Nat) (g : Handler → Handler) (h : CoreOk fx s)
    (hg : ∀ x, s.hs[i]? = some x → (g x).started = x.started ∧
        ((x.loop.ended = false ∧ x.loop ≠ .off ∧ (g x).loop ≠ .off) ∨ (x.loop = .delete ∧ (g x).loop = .done))) :
    CoreOk fx (updH s i g) := by
  refine core_of fx s _ h rfl rfl rfl rfl rfl (hs_modify _ _ _ _ ?_) (M_same _ _ rfl)
  intro x hx
  obtain ⟨h1, h2⟩ := hg x hx
  refine ⟨by rw [h1]; exact id, ?_⟩
  rcases h2 with ⟨h2, h3, h4⟩ | h2
  · cases hw : s.wA with
    | false => exact Or.inr (Or.inl ⟨rfl, h3, h4⟩)
    | true => have := h.a2 hw x (mem_of_getElem? _ _ _ hx); rw [this] at h2; cases h2
  · exact Or.inr (Or.inr h2)


theorem core_glob (fx : Fix) (s s' : St) (h : CoreOk fx s)
    (h1 : s'.wA = s.wA) (h2 : s'.closed = s.closed) (h3 : s'.hs = s.hs) (h4 : s'.wB = s.wB)
    (h5 : s'.msgs = s.msgs) (h6 : s'.closeNil = s.closeNil) (h7 : s'.hl = s.hl) : CoreOk fx s' :=
  core_of fx s s' h h1 h2 h4 h6 h7 (H_same _ _ h3) (M_same _ _ h5)

/-- a handler update + a message update whose new stage is not in flight -/
theorem core_updHM (fx : Fix) (s : St) (i m : Nat) (g : Handler → Handler) (gm : Msg → Msg) (h : CoreOk fx s)
    (hg : ∀ x, s.hs[i]? = some x → HRel s.wA x (g x))
    (hm : ∀ x, s.msgs[m]? = some x → (gm x).stage.inFlight = true → x.stage.inFlight = true) :
    CoreOk fx (updM (updH s i g) m gm) :=
  core_of fx s _ h rfl rfl rfl rfl rfl (hs_modify _ _ _ _ hg) (M_modify s _ m gm rfl hm)

theorem core_updM (fx : Fix) (s : St) (m : Nat) (gm : Msg → Msg) (h : CoreOk fx s)
    (hm : ∀ x, s.msgs[m]? = some x → (gm x).stage.inFlight = true → x.stage.inFlight = true) :
    CoreOk fx (updM s m gm) :=
  core_of fx s _ h rfl rfl rfl rfl rfl (H_same _ _ rfl) (M_modify s _ m gm rfl hm)

set_option hygiene false in
macro "glob_tac" : tactic => `(tactic|
  (repeat' split at ha
   all_goals (try (simp at ha))
   all_goals (try subst ha)
   all_goals (first
     | exact core_glob _ _ _ h rfl rfl rfl rfl rfl rfl rfl
     | (apply core_updH_keep _ _ _ _ h; intro x; exact ⟨rfl, rfl⟩))))

theorem core_step (fx : Fix) (hfx : fx.d5 = true) (s : St) (a : Action) (s' : St) (h : CoreOk fx s)
    (ha : act fx s a = some s') : CoreOk fx s' := by
  cases a <;> simp only [act] at ha
  case runCall => glob_tac
  case runWatch => glob_tac
  case runRunning => glob_tac
  case runCancelStep => glob_tac
  case runRet => glob_tac
  case cancelExt => glob_tac
  case closeCall => glob_tac
  case closeCL => glob_tac
  case timer => glob_tac
  case watchArrive => glob_tac
  case watchTok => glob_tac
  case watchClosed => glob_tac
  case watchZero => glob_tac
  case watchCheck => glob_tac
  case pumpEnd => glob_tac
  case innerCtx => glob_tac
  case hcClose => glob_tac
  case hcCtx => glob_tac
  case hcInnerRet => glob_tac
  case hcCloseFail => glob_tac
  case hcPumpWaited => glob_tac
  case hcStop => glob_tac
  case stop => glob_tac
  case loopEnd i =>
    split at ha
    · split at ha
      · rename_i x hx hg; simp at ha; subst ha
        apply core_updH_loop _ _ _ _ h; intro y hy
        rw [hx] at hy; cases hy
        exact ⟨rfl, Or.inl ⟨by rw [hg.1]; rfl, by rw [hg.1]; simp, by simp⟩⟩
      · simp at ha
    · simp at ha
  case pubClose i =>
    split at ha
    · split at ha
      · rename_i x hx hg; simp at ha; subst ha
        apply core_updH_loop _ _ _ _ h; intro y hy
        rw [hx] at hy; cases hy
        exact ⟨rfl, Or.inl ⟨by rw [hg]; rfl, by rw [hg]; simp, by simp⟩⟩
      · simp at ha
    · simp at ha
  case wgDone i =>
    split at ha
    · split at ha
      · rename_i x hx hg; simp at ha; subst ha
        apply core_updH_loop _ _ _ _ h; intro y hy
        rw [hx] at hy; cases hy
        exact ⟨rfl, Or.inl ⟨by rw [hg]; rfl, by rw [hg]; simp, by simp⟩⟩
      · simp at ha
    · simp at ha
  case loopDelete i =>
    split at ha
    · split at ha
      · rename_i x hx hg; simp at ha; subst ha
        apply core_updH_loop _ _ _ _ h; intro y hy
        rw [hx] at hy; cases hy
        exact ⟨rfl, Or.inr ⟨hg.1, rfl⟩⟩
      · simp at ha
    · simp at ha
  case hStart m =>
    split at ha
    · split at ha
      · rename_i x hx hg; simp at ha; subst ha
        apply core_updM _ _ _ _ h; intro y hy _
        rw [hx] at hy; cases hy; rw [hg]; rfl
      · simp at ha
    · simp at ha
  case hReturn m ok =>
    split at ha
    · split at ha
      · rename_i x hx hg
        split at ha <;> (simp at ha; subst ha; apply core_updM _ _ _ _ h; intro y hy _; rw [hx] at hy; cases hy; rw [hg]; rfl)
      · simp at ha
    · simp at ha
  case hPublished m ok =>
    split at ha
    · split at ha
      · rename_i x hx hg
        split at ha <;> (simp at ha; subst ha; apply core_updM _ _ _ _ h; intro y hy _; rw [hx] at hy; cases hy; rw [hg]; rfl)
      · simp at ha
    · simp at ha
  case hSettle m =>
    split at ha
    · split at ha
      · rename_i x hx hg; simp at ha; subst ha
        apply core_updM _ _ _ _ h; intro y hy _
        rw [hx] at hy; cases hy; rw [hg]; rfl
      · simp at ha
    · simp at ha
  case emit i =>
    split at ha
    · split at ha
      · rename_i x hx hg; simp at ha; subst ha
        refine core_of fx s _ h rfl rfl rfl rfl rfl
          (hs_modify _ _ _ _ (fun y _ => hrel_keep _ _ _ rfl rfl)) ?_
        intro _ m' hm' hf
        simp at hm'
        rcases hm' with hm' | hm'
        · exact ⟨m', hm', hf⟩
        · subst hm'; simp [Stage.inFlight] at hf
      · simp at ha
    · simp at ha
  case pumpOut i =>
    split at ha
    · split at ha
      · rename_i _ x hx _ _ m hp hl; simp at ha; subst ha
        apply core_updHM _ _ _ _ _ _ h
        · intro y hy; rw [hx] at hy; cases hy
          refine ⟨id, ?_⟩
          cases hw : s.wA with
          | false => exact Or.inr (Or.inl ⟨rfl, by rw [hl]; simp, by simp⟩)
          | true => have := h.a2 hw x (mem_of_getElem? _ _ _ hx); rw [hl] at this; cases this
        · intro y _ hf; simp [Stage.inFlight] at hf
      · simp at ha
    · simp at ha
  case pumpDrop i =>
    split at ha
    · split at ha
      · split at ha
        · rename_i _ x hx _ m hp hd; simp at ha; subst ha
          apply core_updHM _ _ _ _ _ _ h
          · intro y _; exact hrel_keep _ _ _ rfl rfl
          · intro y _ hf; simp [Stage.inFlight] at hf
        · simp at ha
      · simp at ha
    · simp at ha
  case dispatch i =>
    split at ha
    · split at ha
      · split at ha
        · rename_i _ x hx _ m hl hwb; simp at ha; subst ha
          have hnA : s.wA = false := by
            cases hw : s.wA with
            | false => rfl
            | true => have := h.a2 hw x (mem_of_getElem? _ _ _ hx); rw [hl] at this; cases this
          have hnB : s.wB ≠ .done := by
            intro hb; have := h.b (by rw [hb]; simp); rw [hnA] at this; cases this
          refine core_of fx s _ h rfl rfl rfl rfl rfl (hs_modify _ _ _ _ ?_) (fun hb => absurd hb hnB)
          intro y hy; rw [hx] at hy; cases hy
          exact ⟨id, Or.inr (Or.inl ⟨hnA, by rw [hl]; simp, by simp⟩)⟩
        · simp at ha
      · simp at ha
    · simp at ha
  case runRh =>
    split at ha
    · simp at ha; subst ha
      obtain ⟨a1, a2, b, c, d, e, f⟩ := h
      exact ⟨a1, a2, b, c, d, by intro v i st hh; simp at hh, f⟩
    · simp at ha
  case rhCall =>
    split at ha
    · simp at ha; subst ha
      obtain ⟨a1, a2, b, c, d, e, f⟩ := h
      exact ⟨a1, a2, b, c, d, by intro v i st hh; simp at hh, f⟩
    · simp at ha
  case rhEnd =>
    split at ha
    · split at ha
      · simp at ha; subst ha
        obtain ⟨a1, a2, b, c, d, e, f⟩ := h
        exact ⟨a1, a2, b, c, d, by intro v i st hh; simp at hh, f⟩
      · simp at ha
    · simp at ha
  case rhSubFail i =>
    split at ha
    · split at ha
      · simp at ha; subst ha
        obtain ⟨a1, a2, b, c, d, e, f⟩ := h
        exact ⟨a1, a2, b, c, d, by intro v i st hh; simp at hh, f⟩
      · simp at ha
    · simp at ha
  case closeTimeout k =>
    split at ha
    · split at ha
      · simp at ha; subst ha
        obtain ⟨a1, a2, b, c, d, e, f⟩ := h
        exact ⟨a1, a2, b, c, d, by intro v i st hh; simp [setC] at hh, f⟩
      · simp at ha
    · simp at ha
  case closeDone k =>
    split at ha
    · split at ha
      · rename_i hg; simp at ha; subst ha
        obtain ⟨a1, a2, b, c, d, e, f⟩ := h
        exact ⟨a1, a2, b, c, fun _ => hg, by intro v i st hh; simp [setC] at hh, f⟩
      · simp at ha
    · simp at ha
  case closeHL k =>
    split at ha
    · split at ha
      · rename_i hfree
        split at ha
        · simp at ha; subst ha
          obtain ⟨a1, a2, b, c, d, e, f⟩ := h
          exact ⟨a1, a2, b, c, d, e, f⟩
        · simp at ha; subst ha
          obtain ⟨a1, a2, b, c, d, e, f⟩ := h
          exact ⟨fun _ => rfl, a2, b, c, d, by intro v i st hh; simp [setC] at hh, f⟩
      · simp at ha
    · simp at ha
  case wLoops =>
    split at ha
    · rename_i hg; simp at ha; subst ha
      obtain ⟨a1, a2, b, c, d, e, f⟩ := h
      exact ⟨fun _ => hg.1, fun _ => (all_ended_iff s).mp hg.2.2, fun _ => rfl, c, fun hn => ⟨rfl, (d hn).2⟩, e, f⟩
    · simp at ha
  case wLock =>
    split at ha
    · rename_i hg; simp at ha; subst ha
      obtain ⟨a1, a2, b, c, d, e, f⟩ := h
      refine ⟨a1, a2, fun _ => hg.2.2 hfx, by intro hh; simp at hh, ?_, e, f⟩
      intro hn; have := (d hn).2; rw [hg.2.1] at this; cases this
    · simp at ha
  case wRunning =>
    split at ha
    · rename_i hg; simp at ha; subst ha
      obtain ⟨a1, a2, b, c, d, e, f⟩ := h
      have hA : s.wA = true := b (by rw [hg.1]; simp)
      exact ⟨a1, a2, fun _ => hA, fun _ => (none_inflight_iff s).mp hg.2, fun _ => ⟨hA, rfl⟩, e, f⟩
    · simp at ha
  case addHandler =>
    split at ha
    · rename_i hg
      have hnA : s.wA = false := by
        cases hw : s.wA with
        | false => rfl
        | true => have := h.a1 hw; rw [hg.2] at this; cases this
      have key : ∀ t : St, t.wA = s.wA → t.closed = s.closed → t.wB = s.wB → t.closeNil = s.closeNil → t.hl = s.hl →
          t.msgs = s.msgs → t.hs = s.hs ++ [newHandler (!s.isRunning)] → CoreOk fx t := by
        intro t t1 t2 t4 t6 t7 t5 t3
        obtain ⟨a1, a2, b, c, d, e, f⟩ := h
        refine ⟨(by rw [t1, t2]; exact a1), (by rw [t1, hnA]; intro hh; cases hh), (by rw [t1, t4]; exact b),
          (by rw [t4, t5]; exact c), (by rw [t1, t4, t6]; exact d), ?_, ?_⟩
        · rw [t7, hg.1]; intro v i st hh; cases hh
        · rw [t3]; intro x hx hl
          simp at hx
          rcases hx with hx | hx
          · exact f x hx hl
          · subst hx; simp [newHandler] at hl
      split at ha
      · simp at ha; subst ha; exact key _ rfl rfl rfl rfl rfl rfl rfl
      · split at ha <;> (simp at ha; subst ha; exact key _ rfl rfl rfl rfl rfl rfl rfl)
    · simp at ha
  case rhSub i =>
    split at ha
    · split at ha
      · rename_i v x hhl hx hg; simp at ha; subst ha
        obtain ⟨a1, a2, b, c, d, e, f⟩ := h
        have hoff : x.loop = .off := by
          cases hl : x.loop with
          | off => rfl
          | _ => have := f x (mem_of_getElem? _ _ _ hx) (by rw [hl]; simp); rw [hg.1] at this; cases this
        refine ⟨a1, ?_, b, c, d, ?_, ?_⟩
        · intro hw; exact forall_mem_modify _ _ _ _ (a2 hw) (fun y _ hy => hy)
        · intro v' i' st hh y hy
          simp at hh
          obtain ⟨_, hi, hst⟩ := hh
          subst hi; subst hst
          rcases getElem?_modify_some _ _ _ _ _ hy with ⟨_, z, hz, rfl⟩ | ⟨hne, _⟩
          · rw [hx] at hz; cases hz
            exact ⟨hoff, by intro hc; simp at hc⟩
          · exact absurd rfl hne
        · exact forall_mem_modify _ _ _ _ f (fun y _ hy => hy)
      · simp at ha
    · simp at ha
  case rhStep =>
    split at ha
    · rename_i v i hhl; simp at ha; subst ha
      obtain ⟨a1, a2, b, c, d, e, f⟩ := h
      have hcase : ∀ g : Handler → Handler, (∀ y, (g y).loop = y.loop ∧ (y.started = true → (g y).started = true)) →
          (fx.d7 = false → ∀ y, (g y).started = true) →
          CoreOk fx { (updH s i g) with hl := .rh v (some (i, 1)) } := by
        intro g hg1 hg2
        refine ⟨a1, ?_, b, c, d, ?_, ?_⟩
        · intro hw; exact forall_mem_modify _ _ _ _ (a2 hw) (fun y _ hy => by rw [(hg1 y).1]; exact hy)
        · intro v' i' st hh y hy
          simp at hh
          obtain ⟨_, hi, hst⟩ := hh
          subst hi; subst hst
          rcases getElem?_modify_some _ _ _ _ _ hy with ⟨_, z, hz, rfl⟩ | ⟨hne, _⟩
          · refine ⟨by rw [(hg1 z).1]; exact (e v i 0 hhl z hz).1, ?_⟩
            intro hc
            rcases hc with hc | ⟨_, hc⟩
            · cases hc
            · exact hg2 hc z
          · exact absurd rfl hne
        · exact forall_mem_modify _ _ _ _ f (fun y _ hy hl => (hg1 y).2 (hy (by rw [← (hg1 y).1]; exact hl)))
      cases h7 : fx.d7 with
      | true => simp; exact hcase markStop (fun y => ⟨rfl, id⟩) (fun hc => by rw [h7] at hc; cases hc)
      | false => simp; exact hcase markStarted (fun y => ⟨rfl, fun _ => rfl⟩) (fun _ y => rfl)
    · rename_i v i hhl; simp at ha; subst ha
      obtain ⟨a1, a2, b, c, d, e, f⟩ := h
      have hcase : ∀ g : Handler → Handler, (∀ y, (g y).loop = y.loop ∧ (y.started = true → (g y).started = true)) →
          (fx.d7 = true → ∀ y, (g y).started = true) →
          CoreOk fx { (updH s i g) with hl := .rh v (some (i, 2)) } := by
        intro g hg1 hg2
        refine ⟨a1, ?_, b, c, d, ?_, ?_⟩
        · intro hw; exact forall_mem_modify _ _ _ _ (a2 hw) (fun y _ hy => by rw [(hg1 y).1]; exact hy)
        · intro v' i' st hh y hy
          simp at hh
          obtain ⟨_, hi, hst⟩ := hh
          subst hi; subst hst
          rcases getElem?_modify_some _ _ _ _ _ hy with ⟨_, z, hz, rfl⟩ | ⟨hne, _⟩
          · obtain ⟨e1, e2⟩ := e v i 1 hhl z hz
            refine ⟨by rw [(hg1 z).1]; exact e1, ?_⟩
            intro _
            cases h7 : fx.d7 with
            | true => exact hg2 h7 z
            | false => exact (hg1 z).2 (e2 (Or.inr ⟨rfl, h7⟩))
          · exact absurd rfl hne
        · exact forall_mem_modify _ _ _ _ f (fun y _ hy hl => (hg1 y).2 (hy (by rw [← (hg1 y).1]; exact hl)))
      cases h7 : fx.d7 with
      | true => simp; exact hcase markStarted (fun y => ⟨rfl, fun _ => rfl⟩) (fun _ y => rfl)
      | false => simp; exact hcase markStop (fun y => ⟨rfl, id⟩) (fun hc => by rw [h7] at hc; cases hc)
    · simp at ha
  case rhSpawn =>
    split at ha
    · rename_i v i hhl; simp at ha; subst ha
      obtain ⟨a1, a2, b, c, d, e, f⟩ := h
      refine ⟨a1, ?_, b, c, d, by intro v' i' st hh; simp at hh, ?_⟩
      · intro hw
        apply forall_mem_modify _ _ _ _ (a2 hw)
        intro y hy hend
        have := (e v i 2 hhl y hy).1
        rw [this] at hend; cases hend
      · apply forall_mem_modify _ _ _ _ f
        intro y hy _ _
        exact (e v i 2 hhl y hy).2 (Or.inl rfl)
    · simp at ha

end Wm.RouterLife
