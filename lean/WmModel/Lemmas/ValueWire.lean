/-
  The codec hypothesis of the C16 round-trip theorems is satisfiable: the concrete wire codec of
  `ValueCodec.lean` (`Wire.envCodec`, used by the driver to run the glue) round-trips on every envelope,
  and so does the identity codec on tokens.  Parser lemmas have the compositional form
  `parse (ser x ++ rest) = some (x, rest)`.
-/
import WmModel.ValueCodec
namespace Wm.Value.Wire

theorem char_lt (c : Char) : c.toNat < 0x110000 := by
  have h := c.valid
  have : c.toNat = c.val.toNat := rfl
  rw [this]
  unfold UInt32.isValidChar Nat.isValidChar at h
  omega

theorem parNat_serNat (n : Nat) (rest : Bytes) : parNat (serNat n ++ rest) = some (n, rest) := by
  induction n with
  | zero => simp [serNat, parNat]
  | succ n ih => simp [serNat, parNat, ih]

theorem parChars_serChars (cs : List Char) (rest : Bytes) :
    parChars cs.length (serChars cs ++ rest) = some (cs, rest) := by
  induction cs with
  | nil => simp [serChars, parChars]
  | cons c cs ih =>
    have hc := char_lt c
    have hval : (UInt8.ofNat (c.toNat / 65536)).toNat * 65536 + (UInt8.ofNat (c.toNat / 256 % 256)).toNat * 256
        + (UInt8.ofNat (c.toNat % 256)).toNat = c.toNat := by
      simp only [UInt8.toNat_ofNat']
      omega
    simp only [serChars, serChar, List.length_cons, List.cons_append, List.nil_append, parChars, ih,
      Option.map_some, hval, Char.ofNat_toNat]

theorem parStr_serStr (s : String) (rest : Bytes) : parStr (serStr s ++ rest) = some (s, rest) := by
  simp [parStr, serStr, List.append_assoc, parNat_serNat, parChars_serChars, String.ofList_toList]

theorem parBytes_serBytes (b rest : Bytes) : parBytes (serBytes b ++ rest) = some (b, rest) := by
  simp [parBytes, serBytes, List.append_assoc, parNat_serNat]

theorem parOpt_serOpt {α : Type} (ser : α → Bytes) (par : Parser α)
    (h : ∀ x rest, par (ser x ++ rest) = some (x, rest)) (o : Option α) (rest : Bytes) :
    parOpt par (serOpt ser o ++ rest) = some (o, rest) := by
  cases o with
  | none => simp [serOpt, parOpt]
  | some x => simp [serOpt, parOpt, h]

theorem serMeta_length_pos (m : Meta) : 0 < (serMeta m).length := by
  cases m with
  | nil => simp [serMeta]
  | cons e r => obtain ⟨k, v⟩ := e; simp [serMeta]

theorem parMetaAux_serMeta (m : Meta) (rest : Bytes) (fuel : Nat) (hf : (serMeta m).length ≤ fuel) :
    parMetaAux fuel (serMeta m ++ rest) = some (m, rest) := by
  induction m generalizing fuel with
  | nil =>
    cases fuel with
    | zero => simp [serMeta] at hf
    | succ f => simp [serMeta, parMetaAux]
  | cons e r ih =>
    obtain ⟨k, v⟩ := e
    cases fuel with
    | zero => simp [serMeta] at hf
    | succ f =>
      have hf' : (serMeta r).length ≤ f := by
        simp only [serMeta, List.length_cons, List.length_append] at hf
        omega
      simp [serMeta, parMetaAux, List.append_assoc, parStr_serStr, ih f hf']

theorem parMeta_serMeta (m : Meta) (rest : Bytes) : parMeta (serMeta m ++ rest) = some (m, rest) := by
  unfold parMeta
  apply parMetaAux_serMeta
  simp only [List.length_append]
  omega

theorem parEnv_serEnv (e : Envelope) : parEnv (serEnv e) = some (e, []) := by
  have h4 := parOpt_serOpt serMeta parMeta parMeta_serMeta e.metadata []
  have h3 := parOpt_serOpt serBytes parBytes parBytes_serBytes e.payload (serOpt serMeta e.metadata)
  simp only [List.append_nil] at h4
  simp [parEnv, serEnv, List.append_assoc, parStr_serStr, h3, h4]

/-- the wire codec satisfies the codec hypothesis on *all* envelopes -/
theorem wire_round_trips : Wire.envCodec.RoundTrips := by
  intro e b h
  simp only [envCodec, Option.some.injEq] at h
  subst h
  simp [envCodec, parEnv_serEnv]

theorem token_round_trips : Wire.tokenCodec.RoundTrips := by
  intro x b h
  simp only [tokenCodec, Option.some.injEq] at h
  subst h; rfl

end Wm.Value.Wire
