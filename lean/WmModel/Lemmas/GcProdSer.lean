import WmModel.Lemmas.GcProdLinkStep
import WmModel.Lemmas.GcRegDw
import WmModel.Lemmas.GcRegMono
import WmModel.Lemmas.GcSubOrd
namespace Wm.GcProd
open Wm Wm.Lts

/-- blocking mode, before the Pub/Sub signals closing: when a Publish call starts a sender for `me`, every sender that an earlier
    `sendMessage` (of any Publish call) started for `me` has ended in M_sub -/
def SerOk (s : St) : Prop :=
  s.reg.cfg.blocking = true → s.reg.closingSig = false →
    ∀ q, s.sub = some q → ∀ (a b d1 m1 p1 d2 m2 p2 : Nat), a < b →
      s.snd[a]? = some (some d1, m1, p1) → s.snd[b]? = some (some d2, m2, p2) →
        exited q p1 = true ∧ ∀ r2, (p2, r2) ∈ q.exits → GcSub.exitedBefore q p1 p2

theorem sub_exits_ext (q q' : GcSub.St) (a : GcSub.Action) (h : GcSub.act q a = some q') :
    ∃ ext, q'.exits = q.exits ++ ext := by
  cases a <;> simp only [GcSub.act] at h
  all_goals
    (repeat' split at h) <;> (try (simp at h)) <;> (try (subst h)) <;>
      first
      | (refine ⟨[], ?_⟩; simp; done)
      | exact ⟨[_], rfl⟩

theorem exited_idx (q : GcSub.St) (p : Nat) (h : exited q p = true) : ∃ (a : Nat) (r : GcSub.Exit), q.exits[a]? = some (p, r) := by
  simp only [exited, List.any_eq_true, beq_iff_eq] at h
  obtain ⟨⟨p', r⟩, hm, hp⟩ := h
  simp at hp; subst hp
  obtain ⟨a, ha⟩ := List.getElem?_of_mem hm
  exact ⟨a, r, ha⟩

/-- the conclusion of `SerOk` survives when senders end -/
theorem concl_mono (q q' : GcSub.St) (ext : List (Nat × GcSub.Exit)) (he : q'.exits = q.exits ++ ext) (p1 p2 : Nat)
    (h1 : exited q p1 = true) (h2 : ∀ r2, (p2, r2) ∈ q.exits → GcSub.exitedBefore q p1 p2) :
    exited q' p1 = true ∧ ∀ r2, (p2, r2) ∈ q'.exits → GcSub.exitedBefore q' p1 p2 := by
  have lift : ∀ (k : Nat) (e : Nat × GcSub.Exit), q.exits[k]? = some e → q'.exits[k]? = some e := by
    intro k e hk
    have hlt : k < q.exits.length := (List.getElem?_eq_some_iff.mp hk).1
    rw [he, List.getElem?_append_left hlt]; exact hk
  obtain ⟨a, r, ha⟩ := exited_idx q p1 h1
  refine ⟨?_, ?_⟩
  · simp only [exited, he, List.any_append, Bool.or_eq_true]; exact Or.inl h1
  · intro r2 hm
    rw [he, List.mem_append] at hm
    rcases hm with hm | hm
    · obtain ⟨a', b', r1, r2', hab, hx, hy⟩ := h2 r2 hm
      exact ⟨a', b', r1, r2', hab, lift _ _ hx, lift _ _ hy⟩
    · obtain ⟨k, hk⟩ := List.getElem?_of_mem hm
      have hlt : a < q.exits.length := (List.getElem?_eq_some_iff.mp ha).1
      refine ⟨a, q.exits.length + k, r, r2, by omega, lift _ _ ha, ?_⟩
      rw [he, List.getElem?_append_right (by omega)]
      simpa using hk

theorem ser_init (cfg : GcReg.Cfg) : SerOk (init cfg) := by
  intro _ _ q hq; simp [init] at hq

theorem ser_frame (s s' : St) (h : SerOk s) (hcfg : s'.reg.cfg = s.reg.cfg)
    (hcl : s'.reg.closingSig = false → s.reg.closingSig = false) (hsnd : s'.snd = s.snd)
    (hsome : ∀ q', s'.sub = some q' → (∃ q ext, s.sub = some q ∧ q'.exits = q.exits ++ ext) ∨ s.snd = []) :
    SerOk s' := by
  intro hb hc q' hq' a b d1 m1 p1 d2 m2 p2 hab ha hb'
  rw [hsnd] at ha hb'
  rcases hsome q' hq' with ⟨q, ext, hq, hext⟩ | hemp
  · obtain ⟨k1, k2⟩ := h (by rw [← hcfg]; exact hb) (hcl hc) q hq a b d1 m1 p1 d2 m2 p2 hab ha hb'
    exact concl_mono q q' ext hext p1 p2 k1 k2
  · rw [hemp] at ha; simp at ha

theorem exited_flag (q : GcSub.St) (f : GcSub.St → GcSub.St) (hf : ∀ q, (f q).exits = q.exits) (p : Nat) :
    exited (f q) p = exited q p := by
  simp only [exited, hf]

/-- replay senders have no dispatcher: the entries with a dispatcher stay where they are -/
theorem foldl_spawn_none_get (msgs : List Nat) (x : Option GcSub.St × Snd) :
    ∃ extra : Snd, (msgs.foldl (spawn1 none) x).2 = x.2 ++ extra ∧ (∀ e, e ∈ extra → e.1 = none) ∧
      (∀ q, x.1 = some q → ∃ q', (msgs.foldl (spawn1 none) x).1 = some q' ∧ q'.exits = q.exits) ∧
      (x.1 = none → (msgs.foldl (spawn1 none) x).1 = none) := by
  induction msgs generalizing x with
  | nil => exact ⟨[], by simp, by simp, fun q hq => ⟨q, hq, rfl⟩, fun hx => hx⟩
  | cons m rest ih =>
    simp only [List.foldl]
    obtain ⟨extra, h1, h2, h3, h4⟩ := ih (spawn1 none x m)
    cases hx : x.1 with
    | none =>
      have hs : spawn1 none x m = x := by simp [spawn1, hx]
      rw [hs] at h1 h3 h4 ⊢
      exact ⟨extra, h1, h2, fun q hq => (by cases hq), fun _ => h4 hx⟩
    | some q =>
      have hs : spawn1 none x m = (some (spawnSt q), x.2 ++ [(none, m, q.nextPub)]) := by simp [spawn1, hx]
      rw [hs] at h1 h3 h4 ⊢
      refine ⟨(none, m, q.nextPub) :: extra, (by rw [h1]; simp), ?_, ?_, fun hq => (by cases hq)⟩
      · intro e he
        simp only [List.mem_cons] at he
        rcases he with he | he
        · subst he; rfl
        · exact h2 e he
      · intro q0 hq0
        injection hq0 with hq0; subst hq0
        obtain ⟨q', hq', he⟩ := h3 (spawnSt q) rfl
        exact ⟨q', hq', by rw [he]; rfl⟩

theorem ser_step (me cap : Nat) (s s' : St) (a : Action)
    (hex4 : ∀ q, s.sub = some q → ∀ p r, (p, r) ∈ q.exits → p < q.nextPub)
    (hsl : GcReg.SubLive s.reg) (hrs : GcReg.RsOk s.reg) (htl : GcReg.TlOk s.reg) (hdw : GcReg.DwOk s.reg)
    (hl : LinkOk me s) (h : SerOk s) (hact : act me cap s a = some s') : SerOk s' := by
  cases a with
  | sub sa =>
    simp only [act] at hact
    split at hact
    · rename_i hal
      cases hq : s.sub with
      | none => simp [hq] at hact
      | some q =>
        simp only [hq] at hact
        cases hs : GcSub.act q sa with
        | none => simp [hs] at hact
        | some q' =>
          simp [hs] at hact; subst hact
          obtain ⟨ext, hext⟩ := sub_exits_ext q q' sa hs
          refine ser_frame s _ h rfl (fun x => x) rfl ?_
          intro q'' hq''
          injection hq'' with hq''; subst hq''
          exact Or.inl ⟨q, ext, hq, hext⟩
    · cases hact
  | reg ra =>
    simp only [act] at hact
    cases hr : GcReg.act s.reg ra with
    | none => simp [hr] at hact
    | some r' =>
      simp only [hr] at hact
      cases he : effect me cap s.reg r' ra (s.sub, s.snd) with
      | none => simp [he] at hact
      | some y =>
        obtain ⟨q', snd'⟩ := y
        simp only [he] at hact
        injection hact with hact; subst hact
        obtain ⟨mono, hcfg⟩ := GcReg.closing_mono s.reg r' ra hr
        have hcl : r'.closingSig = false → s.reg.closingSig = false := by
          intro hx; cases hc : s.reg.closingSig with
          | false => rfl
          | true => rw [mono hc] at hx; cases hx
        -- nothing happens to the subscription
        have fr : some (s.sub, s.snd) = some (q', snd') → SerOk ⟨r', q', snd'⟩ := by
          intro e4
          injection e4 with e4; injection e4 with e5 e6; subst e5; subst e6
          refine ser_frame s _ h hcfg hcl rfl ?_
          intro q'' hq''; exact Or.inl ⟨q'', [], hq'', by simp⟩
        -- only a flag of the subscription changes
        have frflag : ∀ (f : GcSub.St → GcSub.St), some (s.sub.map f, s.snd) = some (q', snd') →
            (∀ q, (f q).exits = q.exits) → SerOk ⟨r', q', snd'⟩ := by
          intro f e4 hf
          injection e4 with e4; injection e4 with e5 e6; subst e5; subst e6
          refine ser_frame s _ h hcfg hcl rfl ?_
          intro q'' hq''
          cases hq : s.sub with
          | none => rw [hq] at hq''; cases hq''
          | some q =>
            rw [hq] at hq''; simp at hq''; subst hq''
            exact Or.inl ⟨q, [], rfl, by simp [hf]⟩
        cases ra <;> simp only [effect] at he
        case newPub t msgs nested => exact fr he
        case newSub t => exact fr he
        case newClose => exact fr he
        case cancel sid =>
          split at he
          · exact frflag _ he (fun _ => rfl)
          · exact fr he
        case senderDone d sid =>
          split at he
          · cases hq : s.sub with
            | none => simp [hq] at he
            | some q =>
              simp only [hq] at he
              split at he
              · rw [← hq] at he; exact fr he
              · cases he
          · exact fr he
        case step i =>
          split at he
          · -- `sendMessage`
            rename_i t m rest ao hth
            split at he
            · rename_i hcont
              cases hq : s.sub with
              | none =>
                have : spawn1 (some s.reg.disp.length) (s.sub, s.snd) m = (s.sub, s.snd) := by simp [spawn1, hq]
                rw [this] at he; exact fr he
              | some q =>
                have hsp : spawn1 (some s.reg.disp.length) (s.sub, s.snd) m =
                    (some (spawnSt q), s.snd ++ [(some s.reg.disp.length, m, q.nextPub)]) := by simp [spawn1, hq]
                rw [hsp] at he
                injection he with he; injection he with e5 e6; subst e5; subst e6
                intro hb hc q'' hq'' a b d1 m1 p1 d2 m2 p2 hab ha hb'
                injection hq'' with hq''; subst hq''
                show exited q p1 = true ∧ ∀ r2, (p2, r2) ∈ q.exits → GcSub.exitedBefore q p1 p2
                simp only at ha hb' hb hc
                have hbc : s.reg.cfg.blocking = true := by rw [← hcfg]; exact hb
                have hcc : s.reg.closingSig = false := hcl hc
                have hblt : b < (s.snd ++ [(some s.reg.disp.length, m, q.nextPub)]).length :=
                  (List.getElem?_eq_some_iff.mp hb').1
                simp at hblt
                have halt : a < s.snd.length := by omega
                rw [List.getElem?_append_left halt] at ha
                by_cases hbl : b < s.snd.length
                · rw [List.getElem?_append_left hbl] at hb'
                  exact h hbc hcc q hq a b d1 m1 p1 d2 m2 p2 hab ha hb'
                · -- the new sender: every earlier one with a dispatcher has ended
                  have hbeq : b = s.snd.length := by omega
                  subst hbeq
                  simp at hb'
                  obtain ⟨_, _, hp2⟩ := hb'
                  subst hp2
                  refine ⟨?_, fun r2 hm => absurd (hex4 q hq _ r2 hm) (Nat.lt_irrefl _)⟩
                  have hmem : (some d1, m1, p1) ∈ s.snd := List.mem_of_getElem? ha
                  rcases hl.pending q hq d1 m1 p1 hmem with hpend | hex
                  · exfalso
                    obtain ⟨i', t', r0, ao', hi', j, pc, hj⟩ := hdw hbc hcc d1 me hpend
                    have hsub : (me, t) ∈ s.reg.subs := by
                      simp only [GcReg.subsOf, List.contains_iff_mem, List.mem_map, List.mem_filter] at hcont
                      obtain ⟨x, ⟨hx1, hx2⟩, hx3⟩ := hcont
                      obtain ⟨x1, x2⟩ := x
                      simp at hx2 hx3; subst hx2; subst hx3; exact hx1
                    obtain ⟨j', pc', hj', _⟩ := hsl me t hsub
                    have hjj : j = j' := hrs.2.1 j j' t' t me pc pc' hj hj'
                    subst hjj
                    rw [hj] at hj'; injection hj' with hj'; injection hj' with et _ _
                    subst et
                    have h1 : (t', i') ∈ s.reg.tlocks := (htl.1 t' i').mpr ⟨_, hi', by simp [GcReg.holdsT]⟩
                    have h2 : (t', i) ∈ s.reg.tlocks := (htl.1 t' i).mpr ⟨_, hth, by simp [GcReg.holdsT]⟩
                    have hii : i' = i := htl.2 t' i' i h1 h2
                    subst hii
                    rw [hth] at hi'; cases hi'
                  · exact hex
            · exact fr he
          · -- the subscriber object is created
            rename_i t0 sid0 hth
            split at he
            · cases hq : s.sub with
              | none =>
                simp only [hq] at he
                injection he with he; injection he with e5 e6; subst e5; subst e6
                refine ser_frame s _ h hcfg hcl rfl ?_
                intro q'' _; exact Or.inr (hl.empty hq)
              | some q => simp only [hq] at he; rw [← hq] at he; exact fr he
            · exact fr he
          · -- persistent replay
            rename_i t sid hth
            split at he
            · injection he with he
              obtain ⟨extra, h1, h2, h3, h4⟩ := foldl_spawn_none_get
                (if s.reg.cfg.persistent && !s.reg.logNil then (s.reg.log.filter (fun e => e.1 == t)).map (·.2) else []) (s.sub, s.snd)
              rw [he] at h1 h3 h4
              simp only at h1 h3 h4
              intro hb hc q'' hq'' a b d1 m1 p1 d2 m2 p2 hab ha hb'
              simp only at ha hb' hq'' hb hc
              rw [h1] at ha hb'
              have inold : ∀ (k dd mm pp : Nat), (s.snd ++ extra)[k]? = some (some dd, mm, pp) → s.snd[k]? = some (some dd, mm, pp) := by
                intro k dd mm pp hk
                by_cases hkl : k < s.snd.length
                · rw [List.getElem?_append_left hkl] at hk; exact hk
                · rw [List.getElem?_append_right (by omega)] at hk
                  have := h2 _ (List.mem_of_getElem? hk)
                  cases this
              cases hq : s.sub with
              | none => rw [h4 hq] at hq''; cases hq''
              | some q =>
                obtain ⟨q1, hq1, hex⟩ := h3 q hq
                rw [hq1] at hq''; injection hq'' with hq''; subst hq''
                obtain ⟨k1, k2⟩ := h (by rw [← hcfg]; exact hb) (hcl hc) q hq a b d1 m1 p1 d2 m2 p2 hab (inold _ _ _ _ ha) (inold _ _ _ _ hb')
                exact concl_mono q q1 [] (by simp [hex]) p1 p2 k1 k2
            · exact fr he
          · -- Close signals closing
            split at he
            · exact frflag _ he (fun _ => rfl)
            · exact fr he
          · -- the unsubscribe goroutine goes on
            split at he
            · cases hq : s.sub with
              | none => simp [hq] at he
              | some q =>
                simp only [hq] at he
                split at he
                · rw [← hq] at he; exact fr he
                · cases he
            · exact fr he
          · exact fr he

end Wm.GcProd
