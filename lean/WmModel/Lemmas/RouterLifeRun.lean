/-
  Run / Running() invariant of RouterLife and absence of panics.
-/
import WmModel.Lemmas.RouterLifePath
namespace Wm.RouterLife
open Wm.Lts

def RunPc.pastRh : RunPc → Bool
  | .closeRunning | .waitClosing | .waitClosed | .ret => true
  | _ => false

structure RunOk (s : St) : Prop where
  r1 : s.isRunning = true ↔ s.run ≠ .idle
  r2 : s.run.pastRh = true → ∀ h ∈ s.hs, h.preRun = true → h.started = true
  r3 : s.running = true → s.run = .waitClosing ∨ s.run = .waitClosed ∨ s.run = .ret
  r5 : s.panicked = false
  r6 : ∀ c, s.hl = .rh true c → s.run = .inRh

theorem run_init : RunOk init := by
  constructor <;> simp [init, RunPc.pastRh]

theorem run_same (s s' : St) (h : RunOk s) (e1 : s'.isRunning = s.isRunning) (e2 : s'.run = s.run) (e3 : s'.hs = s.hs)
    (e4 : s'.running = s.running) (e5 : s'.panicked = s.panicked) (e6 : s'.hl = s.hl) : RunOk s' := by
  obtain ⟨r1, r2, r3, r5, r6⟩ := h
  exact ⟨by rw [e1, e2]; exact r1, by rw [e2, e3]; exact r2, by rw [e4, e2]; exact r3, by rw [e5]; exact r5,
    by rw [e6, e2]; exact r6⟩

theorem run_updH (s s' : St) (i : Nat) (g : Handler → Handler) (h : RunOk s) (e1 : s'.isRunning = s.isRunning)
    (e2 : s'.run = s.run) (e3 : s'.hs = s.hs.modify i g) (e4 : s'.running = s.running) (e5 : s'.panicked = s.panicked)
    (e6 : ∀ c, s'.hl = .rh true c → ∃ c', s.hl = .rh true c')
    (hg : ∀ y, s.hs[i]? = some y → (g y).preRun = y.preRun ∧ (y.started = true → (g y).started = true)) : RunOk s' := by
  obtain ⟨r1, r2, r3, r5, r6⟩ := h
  refine ⟨by rw [e1, e2]; exact r1, ?_, by rw [e4, e2]; exact r3, by rw [e5]; exact r5,
    by rw [e2]; intro c hc; obtain ⟨c', hc'⟩ := e6 c hc; exact r6 c' hc'⟩
  rw [e2, e3]; intro hp
  apply forall_mem_modify _ _ _ _ (r2 hp)
  intro y hy hok hpre
  rw [(hg y hy).1] at hpre
  exact (hg y hy).2 (hok hpre)

set_option hygiene false in
macro "r_tac" : tactic => `(tactic|
  (repeat' split at ha
   all_goals (try (simp at ha))
   all_goals (try subst ha)
   all_goals (first
     | exact run_same _ _ h rfl rfl rfl rfl rfl rfl
     | (refine run_updH _ _ _ _ h rfl rfl rfl rfl rfl (fun c hc => ⟨c, hc⟩) ?_
        intro y hy
        simp_all)
     | (refine run_updH _ _ _ _ h rfl rfl rfl rfl rfl ?_ ?_
        · intro c hc; simp_all [updH]
        · intro y hy
          simp_all)
     | (obtain ⟨r1, r2, r3, r5, r6⟩ := h
        constructor <;> simp_all [RunPc.pastRh, updH, setC]))))

theorem run_step (fx : Fix) (hfx : fx.d7 = true) (s : St) (a : Action) (s' : St) (hl : LifeOk fx s) (h : RunOk s)
    (ha : act fx s a = some s') : RunOk s' := by
  cases a <;> simp only [act] at ha
  case addHandler =>
    split at ha
    · have key : ∀ t : St, t.hs = s.hs ++ [newHandler (!s.isRunning)] → t.isRunning = s.isRunning → t.run = s.run →
          t.running = s.running → t.panicked = s.panicked → t.hl = s.hl → RunOk t := by
        intro t e3 e1 e2 e4 e5 e6
        obtain ⟨r1, r2, r3, r5, r6⟩ := h
        refine ⟨by rw [e1, e2]; exact r1, ?_, by rw [e4, e2]; exact r3, by rw [e5]; exact r5, by rw [e6, e2]; exact r6⟩
        rw [e2, e3]; intro hp y hy hpre
        simp at hy
        rcases hy with hy | hy
        · exact r2 hp y hy hpre
        · subst hy
          have hrun : s.isRunning = true := r1.mpr (by intro hc; rw [hc] at hp; cases hp)
          simp [newHandler, hrun] at hpre
      split at ha
      · simp at ha; subst ha; exact key _ rfl rfl rfl rfl rfl rfl
      · split at ha <;> (simp at ha; subst ha; exact key _ rfl rfl rfl rfl rfl rfl)
    · simp at ha
  case rhEnd =>
    split at ha
    · rename_i v hhl
      split at ha
      · rename_i hall
        simp at ha; subst ha
        obtain ⟨r1, r2, r3, r5, r6⟩ := h
        have hst : ∀ y ∈ s.hs, y.started = true := by
          intro y hy
          have := (List.all_eq_true.mp hall) y hy
          simp at this
          rcases this with h1 | h1
          · exact h1
          · have hok := hl.all y hy
            have hd := hok.l6.2.mp h1
            exact (hok.l5 (by rw [hd]; simp)).1
        have h6 := r6 none
        refine ⟨?_, fun _ y hy _ => hst y hy, ?_, r5, by intro c hc; simp at hc⟩
        · cases v <;> simp_all
        · cases v <;> simp_all
      · simp at ha
    · simp at ha
  case rhStep =>
    split at ha
    · simp at ha; subst ha
      rename_i v i hhl
      refine run_updH _ _ _ _ h rfl rfl rfl rfl rfl ?_ ?_
      · intro c hc; simp at hc; exact ⟨_, by rw [hhl, hc.1]⟩
      · intro y _; cases fx.d7 <;> simp [markStop, markStarted]
    · simp at ha; subst ha
      rename_i v i hhl
      refine run_updH _ _ _ _ h rfl rfl rfl rfl rfl ?_ ?_
      · intro c hc; simp at hc; exact ⟨_, by rw [hhl, hc.1]⟩
      · intro y _; cases fx.d7 <;> simp [markStop, markStarted]
    · simp at ha
  case stop i =>
    split at ha
    · rename_i y hy
      split at ha
      · rename_i hst
        have hok := hl.all y (mem_of_getElem? _ _ _ hy)
        have h1 := hok.l1 hst
        have h2 := hok.l2 hfx hst
        split at ha
        · simp at ha; subst ha
          refine run_updH _ _ _ _ h rfl rfl rfl rfl rfl (fun c hc => ⟨c, hc⟩) ?_
          intro z _; simp
        · rename_i hc; exact absurd ⟨h1, h2⟩ hc
      · simp at ha
    · simp at ha
  all_goals r_tac

end Wm.RouterLife
