import WmModel.Lemmas.GcRegW1
namespace Wm.GcReg

theorem holdsW_pub (t : Nat) (r : List Nat) (pc : PPc) (ao : Option (Nat × Nat)) : holdsW (.pub t r pc ao) = false := rfl
theorem holdsW_closer (pc : CPc) : holdsW (.closer pc) = false := rfl

theorem w1_stepPub (s s' : St) (i t : Nat) (rest : List Nat) (pc : PPc) (ao : Option (Nat × Nat))
    (hth : s.ths[i]? = some (.pub t rest pc ao)) (h : W1 s) (ha : stepPub s i t rest pc ao = some s') : W1 s' := by
  have keep : ∀ (u : St) (new : Th), holdsW new = false → u.ths = s.ths.set i new → u.ann = s.ann → W1 u :=
    fun u new hn h1 h2 => w1_set_keep s i _ new hth (by rw [hn]; intro hx; cases hx) h u h1 h2
  cases pc <;> simp only [stepPub] at ha
  case start =>
    split at ha
    · simp at ha
    · split at ha <;> (simp at ha; subst ha; exact keep _ _ rfl rfl rfl)
  case rlock =>
    split at ha
    · simp at ha
    · simp at ha; subst ha; exact keep _ _ rfl rfl rfl
  case tlock =>
    split at ha
    · simp at ha; subst ha; exact keep _ _ rfl rfl rfl
    · simp at ha
  case persist =>
    split at ha
    · split at ha <;> (simp at ha; subst ha; exact keep _ _ rfl rfl rfl)
    · simp at ha; subst ha; exact keep _ _ rfl rfl rfl
  case send =>
    split at ha
    · simp at ha; subst ha; exact keep _ _ rfl rfl rfl
    · split at ha <;> (simp at ha; subst ha; exact keep _ _ rfl rfl rfl)
  case wait d =>
    split at ha
    · simp at ha; subst ha; exact keep _ _ rfl rfl rfl
    · simp at ha
  case unlock =>
    simp at ha; subst ha
    cases ao with
    | none => exact keep _ _ rfl rfl rfl
    | some p => exact keep _ _ rfl rfl rfl
  case retOk => simp at ha
  case retErr => simp at ha

theorem w1_congr (s t : St) (h1 : t.ths = s.ths) (h2 : t.ann = s.ann) (h : W1 s) : W1 t := by
  intro j th hj hw; rw [h2]; rw [h1] at hj; exact h j th hj hw

theorem w1_stepSub (s s' : St) (i t sid : Nat) (pc : UPc)
    (hth : s.ths[i]? = some (.sub t sid pc)) (h : W1 s) (ha : stepSub s i t sid pc = some s') : W1 s' := by
  cases pc <;> simp only [stepSub] at ha
  case start =>
    split at ha
    · simp at ha
    · split at ha <;> (simp at ha; subst ha; exact w1_set_keep s i _ _ hth (by intro hx; cases hx) h _ rfl rfl)
  case wqueue =>
    simp at ha; subst ha; exact w1_set_keep s i _ _ hth (by intro hx; cases hx) h _ rfl rfl
  case announce =>
    split at ha
    · rename_i hc
      simp at ha; subst ha
      have hfree : s.ann = none := by
        simp at hc; exact hc.1
      exact w1_set_announce s i _ hfree h _ rfl rfl
    · simp at ha
  case drain =>
    split at ha
    · simp at ha; subst ha; exact w1_set_keep s i _ _ hth (by intro _; rfl) h _ rfl rfl
    · simp at ha
  case tlock =>
    split at ha
    · simp at ha; subst ha
      have h1 : W1 { s with ths := s.ths.set i (.sub t s.nextSid .register) } :=
        w1_set_keep s i _ _ hth (by intro _; rfl) h _ rfl rfl
      exact w1_append _ (.td t s.nextSid .idle) rfl h1 _ rfl rfl
    · simp at ha
  case register =>
    simp at ha; subst ha
    exact w1_set_release s i _ _ hth rfl rfl h _ rfl
  case retOk => simp at ha
  case retErr => simp at ha

theorem w1_stepTd (s s' : St) (i t sid : Nat) (pc : TPc)
    (hth : s.ths[i]? = some (.td t sid pc)) (h : W1 s) (ha : stepTd s i t sid pc = some s') : W1 s' := by
  cases pc <;> simp only [stepTd] at ha
  case idle =>
    split at ha
    · simp at ha; subst ha; exact w1_set_keep s i _ _ hth (by intro hx; cases hx) h _ rfl rfl
    · simp at ha
  case subClosed =>
    simp at ha; subst ha; exact w1_set_keep s i _ _ hth (by intro hx; cases hx) h _ rfl rfl
  case announce =>
    split at ha
    · rename_i hc
      simp at ha; subst ha
      have hfree : s.ann = none := by
        simp at hc; exact hc.1
      exact w1_set_announce s i _ hfree h _ rfl rfl
    · simp at ha
  case drain =>
    split at ha
    · simp at ha; subst ha; exact w1_set_keep s i _ _ hth (by intro _; rfl) h _ rfl rfl
    · simp at ha
  case tlock =>
    split at ha
    · simp at ha; subst ha; exact w1_set_keep s i _ _ hth (by intro _; rfl) h _ rfl rfl
    · simp at ha
  case remove =>
    split at ha
    · split at ha
      · simp at ha; subst ha; exact w1_congr s _ rfl rfl h
      · simp at ha; subst ha
        exact w1_set_release s i _ _ hth rfl rfl h _ rfl
    · simp at ha; subst ha; exact w1_congr s _ rfl rfl h
  case done => simp at ha

theorem w1_stepCloser (s s' : St) (i : Nat) (pc : CPc)
    (hth : s.ths[i]? = some (.closer pc)) (h : W1 s) (ha : stepCloser s i pc = some s') : W1 s' := by
  cases pc <;> simp only [stepCloser] at ha
  case start =>
    split at ha
    · simp at ha
    · split at ha <;> (simp at ha; subst ha; exact w1_set_keep s i _ _ hth (by intro hx; cases hx) h _ rfl rfl)
  case waitWg =>
    split at ha
    · simp at ha; subst ha; exact w1_set_keep s i _ _ hth (by intro hx; cases hx) h _ rfl rfl
    · simp at ha
  case ret => simp at ha

theorem w1_step (s : St) (a : Action) (s' : St) (h : W1 s) (ha : act s a = some s') : W1 s' := by
  cases a <;> simp only [act] at ha
  case newPub t msgs nested =>
    cases nested with
    | none => simp at ha; subst ha; exact w1_append s _ rfl h _ rfl rfl
    | some p =>
      simp only at ha
      split at ha
      · simp at ha; subst ha; exact w1_append s _ rfl h _ rfl rfl
      · simp at ha
  case newSub t => simp at ha; subst ha; exact w1_append s _ rfl h _ rfl rfl
  case newClose => simp at ha; subst ha; exact w1_append s _ rfl h _ rfl rfl
  case cancel sid => simp at ha; subst ha; exact w1_congr s _ rfl rfl h
  case senderDone d sid =>
    split at ha
    · simp at ha; subst ha; exact w1_congr s _ rfl rfl h
    · simp at ha
  case step i =>
    split at ha
    · rename_i t rest pc ao hth; exact w1_stepPub s s' i t rest pc ao hth h ha
    · rename_i t sid pc hth; exact w1_stepSub s s' i t sid pc hth h ha
    · rename_i t sid pc hth; exact w1_stepTd s s' i t sid pc hth h ha
    · rename_i pc hth; exact w1_stepCloser s s' i pc hth h ha
    · simp at ha

end Wm.GcReg
