/-
  Helper definitions and lemmas for C15 (spec-level notions the property theorems are stated with, and the
  inductions over the group loop).  Property theorems: `Props/C15.lean`.
-/
import WmModel.Cqrs
set_option linter.unusedSimpArgs false
namespace Wm.Cqrs

variable {V : Type}

/-! ### bus -/

/-- what a configured callback does to the metadata when it succeeds (`none` = not configured: nothing) -/
def applyCb : Option Callback → Meta → Meta
  | some (some f) => f
  | _ => id

/-- a callback leaves the type name alone -/
def KeepsName (cb : Option Callback) : Prop := ∀ md, nameFromMeta (applyCb cb md) = nameFromMeta md

theorem lookup_filter_ne (k : String) (hk : k ≠ nameKey) (md : Meta) :
    (md.filter (fun p => p.1 != k)).lookup nameKey = md.lookup nameKey := by
  induction md with
  | nil => rfl
  | cons p r ih =>
    obtain ⟨k', w⟩ := p
    by_cases h1 : k' = k
    · subst h1
      have h3 : (nameKey == k') = false := by simp [Ne.symm hk]
      simp [List.filter_cons, List.lookup_cons, h3, ih]
    · have h4 : (k' != k) = true := by simp [h1]
      by_cases h2 : nameKey = k'
      · subst h2; simp [List.filter_cons, h4, List.lookup_cons]
      · have h3 : (nameKey == k') = false := by simp [h2]
        simp [List.filter_cons, h4, List.lookup_cons, h3, ih]

/-- a callback that sets some other metadata key leaves the type name alone -/
theorem keepsName_set (k v : String) (hk : k ≠ nameKey) : KeepsName (some (some (fun md => metaSet md k v))) := by
  intro md
  have h3 : (nameKey == k) = false := by simp [Ne.symm hk]
  simp [applyCb, nameFromMeta, metaGet, metaSet, List.lookup_cons, h3, lookup_filter_ne k hk md]

theorem keepsName_none : KeepsName none := fun _ => rfl

/-! ### processors -/

/-- positions of the handlers called, in call order -/
def invokedIdx (r : List (Invocation V) × HRes) : List Nat := r.1.map (·.h)

/-- the handlers (with positions) whose type name is the message's name, in registration order -/
def matching (m : Msg) (hs : List (Nat × Handler)) : List (Nat × Handler) :=
  hs.filter (fun p => decide (m.name = p.2.tyName))

def matchingIdx (reg : List Handler) (m : Msg) : List Nat := (matching m (indexed reg)).map (·.1)

/-- every handler in `l` can decode the payload and succeeds -/
def AllHandle (c : Codec V) (m : Msg) (l : List (Nat × Handler)) : Prop :=
  ∀ p ∈ l, (c.decode p.2.ty m.payload).isSome ∧ m.out p.1 = .ok

/-- specification of "in order, stopping at the first error": walk a list of handlers; stop *before* one the payload
    does not decode for, stop *after* one that fails -/
def cutAtFirstStop (c : Codec V) (m : Msg) : List (Nat × Handler) → List Nat
  | [] => []
  | (i, h) :: rest =>
    match c.decode h.ty m.payload with
    | none => []
    | some _ => if m.out i = .ok then i :: cutAtFirstStop c m rest else [i]

theorem mem_indexed (reg : List Handler) (i : Nat) (h : Handler) (hm : (i, h) ∈ indexed reg) : reg[i]? = some h := by
  unfold indexed at hm
  rw [List.mem_map] at hm
  obtain ⟨⟨h', i'⟩, hmem, heq⟩ := hm
  simp at heq
  obtain ⟨rfl, rfl⟩ := heq
  have := List.mem_zipIdx hmem
  simp at this
  obtain ⟨hlt, he⟩ := this
  simp [hlt, he]

theorem indexed_getElem? (reg : List Handler) (i : Nat) :
    (indexed reg)[i]? = (reg[i]?).map (fun h => (i, h)) := by
  unfold indexed
  rw [List.getElem?_map, List.getElem?_zipIdx]
  cases reg[i]? <;> simp

theorem mem_indexed_of_getElem? (reg : List Handler) (i : Nat) (h : Handler) (hg : reg[i]? = some h) :
    (i, h) ∈ indexed reg := by
  have : (indexed reg)[i]? = some (i, h) := by rw [indexed_getElem?, hg]; rfl
  exact List.mem_of_getElem? this

theorem mem_indexed_iff (reg : List Handler) (i : Nat) (h : Handler) : (i, h) ∈ indexed reg ↔ reg[i]? = some h :=
  ⟨mem_indexed reg i h, mem_indexed_of_getElem? reg i h⟩

theorem indexed_sorted (reg : List Handler) : (indexed reg).Pairwise (fun a b => a.1 < b.1) := by
  have h : (indexed reg).map (·.1) = List.range' 0 reg.length := by
    unfold indexed
    rw [List.map_map]
    have := List.zipIdx_map_snd 0 reg
    simp [Function.comp_def]
  have hp : List.Pairwise (· < ·) ((indexed reg).map (·.1)) := by
    rw [h]; exact List.pairwise_lt_range'
  exact List.pairwise_map.mp hp

theorem matching_sorted (m : Msg) (reg : List Handler) :
    (matching m (indexed reg)).Pairwise (fun a b => a.1 < b.1) :=
  List.Pairwise.sublist List.filter_sublist (indexed_sorted reg)

theorem mem_matching_iff (m : Msg) (reg : List Handler) (i : Nat) (h : Handler) :
    (i, h) ∈ matching m (indexed reg) ↔ (reg[i]? = some h ∧ m.name = h.tyName) := by
  unfold matching
  rw [List.mem_filter, mem_indexed_iff]
  simp

/-! #### the group loop computes the cut of the matching handlers -/

theorem groupLoop_invoked (c : Codec V) (fl : Flags) (m : Msg) (hs : List (Nat × Handler)) (ctx : Ctx) (any : Bool) :
    invokedIdx (groupLoop c fl m hs ctx any) = cutAtFirstStop c m (matching m hs) := by
  induction hs generalizing ctx any with
  | nil => simp [groupLoop, matching, cutAtFirstStop, invokedIdx]; split <;> (try split) <;> simp
  | cons p rest ih =>
    obtain ⟨i, h⟩ := p
    by_cases hn' : m.name = h.tyName
    · have hn := hn'.symm
      cases hd : c.decode h.ty m.payload with
      | none => simp [groupLoop, matching, cutAtFirstStop, invokedIdx, hn, hd]
      | some v =>
        cases ho : m.out i <;>
          simp [groupLoop, matching, cutAtFirstStop, invokedIdx, hn, hd, ho]
        have := ih (ctxWithOriginal ctx m.id) true
        simpa [invokedIdx, matching] using this
    · have := ih ctx any
      simpa [groupLoop, matching, hn', invokedIdx] using this

theorem groupLoop_invocations (c : Codec V) (fl : Flags) (m : Msg) (hs : List (Nat × Handler)) (ctx : Ctx) (any : Bool) :
    ∀ inv ∈ (groupLoop c fl m hs ctx any).1,
      ∃ h, (inv.h, h) ∈ hs ∧ m.name = h.tyName ∧ c.decode h.ty m.payload = some inv.value ∧ inv.orig = some m.id := by
  induction hs generalizing ctx any with
  | nil => simp [groupLoop]; split <;> (try split) <;> simp
  | cons p rest ih =>
    obtain ⟨i, h⟩ := p
    by_cases hn : m.name = h.tyName
    · cases hd : c.decode h.ty m.payload with
      | none => simp [groupLoop, hn, hd]
      | some v =>
        have here : ∀ inv : Invocation V, inv = ⟨i, v, originalFromCtx (ctxWithOriginal ctx m.id)⟩ →
            ∃ h', (inv.h, h') ∈ (i, h) :: rest ∧ m.name = h'.tyName ∧ c.decode h'.ty m.payload = some inv.value ∧
              inv.orig = some m.id := by
          intro inv hi
          subst hi
          exact ⟨h, by simp, hn, hd, by simp [originalFromCtx, ctxWithOriginal, List.lookup]⟩
        cases ho : m.out i
        · intro inv hinv
          simp [groupLoop, hn, hd, ho] at hinv
          rcases hinv with hinv | hinv
          · exact here inv hinv
          · obtain ⟨h', hm, rest'⟩ := ih (ctxWithOriginal ctx m.id) true inv hinv
            exact ⟨h', List.mem_cons_of_mem _ hm, rest'⟩
        · intro inv hinv
          simp [groupLoop, hn, hd, ho] at hinv
          exact here inv hinv
        · intro inv hinv
          simp [groupLoop, hn, hd, ho] at hinv
          exact here inv hinv
    · intro inv hinv
      simp [groupLoop, hn] at hinv
      obtain ⟨h', hm, rest'⟩ := ih ctx any inv hinv
      exact ⟨h', List.mem_cons_of_mem _ hm, rest'⟩

theorem groupLoop_result (c : Codec V) (fl : Flags) (m : Msg) (hs : List (Nat × Handler)) (ctx : Ctx) (any : Bool) :
    ((groupLoop c fl m hs ctx any).2 = .retNil ↔
      (AllHandle c m (matching m hs) ∧ (any = true ∨ matching m hs ≠ [] ∨ fl.ackUnknown = true))) := by
  induction hs generalizing ctx any with
  | nil => cases any <;> cases hu : fl.ackUnknown <;> simp [groupLoop, matching, AllHandle, hu]
  | cons p rest ih =>
    obtain ⟨i, h⟩ := p
    by_cases hn' : m.name = h.tyName
    · have hn := hn'.symm
      cases hd : c.decode h.ty m.payload with
      | none => simp [groupLoop, matching, AllHandle, hn, hd]
      | some v =>
        cases ho : m.out i
        · have := ih (ctxWithOriginal ctx m.id) true
          simp [groupLoop, matching, AllHandle, hn, hd, ho] at this ⊢
          exact this
        · simp [groupLoop, matching, AllHandle, hn, hd, ho]
        · simp [groupLoop, matching, AllHandle, hn, hd, ho]
    · have := ih ctx any
      simpa [groupLoop, matching, hn'] using this

/-! #### properties of the cut -/

theorem cut_prefix (c : Codec V) (m : Msg) (l : List (Nat × Handler)) :
    cutAtFirstStop c m l <+: l.map (·.1) := by
  induction l with
  | nil => simp [cutAtFirstStop]
  | cons p rest ih =>
    obtain ⟨i, h⟩ := p
    cases hd : c.decode h.ty m.payload with
    | none => simp [cutAtFirstStop, hd]
    | some v =>
      by_cases ho : m.out i = .ok
      · simp [cutAtFirstStop, hd, ho, List.cons_prefix_cons, ih]
      · simp [cutAtFirstStop, hd, ho, List.cons_prefix_cons]

theorem cut_stops (c : Codec V) (m : Msg) (l : List (Nat × Handler)) (pre post : List Nat) (i : Nat)
    (h : cutAtFirstStop c m l = pre ++ i :: post) (hp : post ≠ []) : m.out i = .ok := by
  induction l generalizing pre with
  | nil => simp [cutAtFirstStop] at h
  | cons p rest ih =>
    obtain ⟨i0, h0⟩ := p
    cases hd : c.decode h0.ty m.payload with
    | none => simp [cutAtFirstStop, hd] at h
    | some v =>
      by_cases ho : m.out i0 = .ok
      · simp [cutAtFirstStop, hd, ho] at h
        cases pre with
        | nil => simp at h; obtain ⟨rfl, _⟩ := h; exact ho
        | cons a pre' =>
          simp at h
          exact ih pre' h.2
      · simp [cutAtFirstStop, hd, ho] at h
        cases pre with
        | nil => simp at h; exact absurd h.2 hp
        | cons a pre' => simp at h

theorem cut_complete (c : Codec V) (m : Msg) (l : List (Nat × Handler)) (h : AllHandle c m l) :
    cutAtFirstStop c m l = l.map (·.1) := by
  induction l with
  | nil => simp [cutAtFirstStop]
  | cons p rest ih =>
    obtain ⟨i0, h0⟩ := p
    have h1 := h (i0, h0) (by simp)
    have h2 : AllHandle c m rest := fun p hp => h p (List.mem_cons_of_mem _ hp)
    cases hd : c.decode h0.ty m.payload with
    | none => simp [hd] at h1
    | some v => simp [cutAtFirstStop, hd, h1.2, ih h2]

/-- why the walk stopped: it went through everything, or the last handler called failed, or the next one cannot decode -/
theorem cut_stop_reason (c : Codec V) (m : Msg) (l : List (Nat × Handler)) :
    cutAtFirstStop c m l = l.map (·.1) ∨
    (∃ i, (cutAtFirstStop c m l).getLast? = some i ∧ m.out i ≠ .ok) ∨
    (∃ p, l[(cutAtFirstStop c m l).length]? = some p ∧ c.decode p.2.ty m.payload = none) := by
  induction l with
  | nil => simp [cutAtFirstStop]
  | cons p rest ih =>
    obtain ⟨i0, h0⟩ := p
    cases hd : c.decode h0.ty m.payload with
    | none => right; right; exact ⟨(i0, h0), by simp [cutAtFirstStop, hd], hd⟩
    | some v =>
      by_cases ho : m.out i0 = .ok
      · rcases ih with h | ⟨i, h1, h2⟩ | ⟨p, h1, h2⟩
        · left; simp [cutAtFirstStop, hd, ho, h]
        · right; left
          refine ⟨i, ?_, h2⟩
          simp [cutAtFirstStop, hd, ho]
          cases hc : cutAtFirstStop c m rest with
          | nil => simp [hc] at h1
          | cons a t => simp [hc] at h1 ⊢; exact h1
        · right; right
          exact ⟨p, by simpa [cutAtFirstStop, hd, ho] using h1, h2⟩
      · right; left; exact ⟨i0, by simp [cutAtFirstStop, hd, ho], ho⟩

theorem cut_mem_iff (c : Codec V) (m : Msg) (l : List (Nat × Handler))
    (hs : l.Pairwise (fun a b => a.1 < b.1)) (i : Nat) :
    i ∈ cutAtFirstStop c m l ↔
      ∃ h, (i, h) ∈ l ∧ (c.decode h.ty m.payload).isSome ∧
        ∀ q ∈ l, q.1 < i → ((c.decode q.2.ty m.payload).isSome ∧ m.out q.1 = .ok) := by
  induction l with
  | nil => simp [cutAtFirstStop]
  | cons p rest ih =>
    obtain ⟨i0, h0⟩ := p
    rw [List.pairwise_cons] at hs
    obtain ⟨hlt, hs'⟩ := hs
    have ih := ih hs'
    cases hd : c.decode h0.ty m.payload with
    | none =>
      simp only [cutAtFirstStop, hd, List.not_mem_nil, false_iff]
      rintro ⟨h, hm, hdec, hall⟩
      rcases List.mem_cons.mp hm with heq | hm
      · injection heq with h1 h2; subst h2; simp [hd] at hdec
      · have := hall (i0, h0) (by simp) (hlt _ hm)
        simp [hd] at this
    | some v =>
      by_cases ho : m.out i0 = .ok
      · simp only [cutAtFirstStop, hd, ho, if_true, List.mem_cons]
        constructor
        · rintro (rfl | hi)
          · refine ⟨h0, by simp, by simp [hd], ?_⟩
            intro q hq hqi
            rcases hq with rfl | hq
            · simp at hqi
            · have := hlt q hq; simp at this; omega
          · obtain ⟨h, hm, hdec, hall⟩ := ih.mp hi
            refine ⟨h, Or.inr hm, hdec, ?_⟩
            intro q hq hqi
            rcases hq with rfl | hq
            · simp [hd, ho]
            · exact hall q hq hqi
        · rintro ⟨h, hm, hdec, hall⟩
          rcases hm with heq | hm
          · injection heq with h1 h2; exact Or.inl h1
          · exact Or.inr (ih.mpr ⟨h, hm, hdec, fun q hq => hall q (Or.inr hq)⟩)
      · simp only [cutAtFirstStop, hd, ho, if_false, List.mem_singleton]
        constructor
        · rintro rfl
          refine ⟨h0, by simp, by simp [hd], ?_⟩
          intro q hq hqi
          rcases List.mem_cons.mp hq with rfl | hq
          · simp at hqi
          · have := hlt q hq; simp at this; omega
        · rintro ⟨h, hm, hdec, hall⟩
          rcases List.mem_cons.mp hm with heq | hm
          · injection heq
          · have := hall (i0, h0) (by simp) (hlt _ hm)
            exact absurd this.2 ho

end Wm.Cqrs
