/-
  The decoder of `WmModel/ValueJson.lean` inverts the (Go-conformant) JSON encoder of the forwarder envelope,
  up to the order of the metadata entries.  Pieces: literal prefixes, string escaping, base64, objects.
-/
import WmModel.ValueJson
import WmModel.Lemmas.Value
namespace Wm.Value.Json

/-! ### literal prefixes -/

theorem expect_append (l r : Text) : expect l (l ++ r) = some r := by
  induction l with
  | nil => simp [expect]
  | cons c cs ih => simp [expect, ih]

/-- a literal does not match a text starting with another character -/
theorem expect_head_ne {c d : Char} (h : c ≠ d) (cs r : Text) : expect (c :: cs) (d :: r) = none := by
  simp [expect, h]

/-! ### hex digits -/

theorem hexVal_hexLower : ∀ n, n < 16 → hexVal? (hexLower n) = some n := by decide

/-! ### string escaping -/

theorem char_eq_of_toNat {c : Char} {n : Nat} (h : c.toNat = n) : c = Char.ofNat n := by
  rw [← h, Char.ofNat_toNat]

theorem toNat_ne_of_ne_ofNat {c : Char} {n : Nat} (h : c.toNat ≠ n) (d : Char) (hd : d.toNat = n) : c ≠ d := by
  intro e; subst e; exact h hd

/-- decoding what `escChar` wrote gives the character back (one step of the string decoder) -/
theorem unescF_escChar (c : Char) (f : Nat) (rest : Text) :
    unescF (f + 1) (escChar c ++ rest) = (unescF f rest).map fun (p : List Char × Text) => (c :: p.1, p.2) := by
  unfold escChar
  by_cases h1 : c.toNat = 0x22
  · have := char_eq_of_toNat h1; subst this
    simp [unescF, shortEsc?]
  by_cases h2 : c.toNat = 0x5c
  · have := char_eq_of_toNat h2; subst this
    simp [unescF, shortEsc?]
  by_cases h3 : c.toNat = 8
  · have := char_eq_of_toNat h3; subst this
    simp [unescF, shortEsc?]
  by_cases h4 : c.toNat = 12
  · have := char_eq_of_toNat h4; subst this
    simp [unescF, shortEsc?]
  by_cases h5 : c.toNat = 10
  · have := char_eq_of_toNat h5; subst this
    simp [unescF, shortEsc?]
  by_cases h6 : c.toNat = 13
  · have := char_eq_of_toNat h6; subst this
    simp [unescF, shortEsc?]
  by_cases h7 : c.toNat = 9
  · have := char_eq_of_toNat h7; subst this
    simp [unescF, shortEsc?]
  have hq : c ≠ '"' := toNat_ne_of_ne_ofNat h1 _ rfl
  have hb : c ≠ '\\' := toNat_ne_of_ne_ofNat h2 _ rfl
  by_cases h8 : c.toNat < 0x20 ∨ c.toNat = 0x3c ∨ c.toNat = 0x3e ∨ c.toNat = 0x26
  · have hhi : c.toNat / 16 < 16 := by omega
    have hlo : c.toNat % 16 < 16 := by omega
    have hz : hexVal? '0' = some 0 := by decide
    have hval : c.toNat / 16 * 16 + c.toNat % 16 = c.toNat := by omega
    simp [h1, h2, h3, h4, h5, h6, h7, h8, unescF, hz, hexVal_hexLower _ hhi, hexVal_hexLower _ hlo, hval, Char.ofNat_toNat]
  by_cases h9 : c.toNat = 0x2028 ∨ c.toNat = 0x2029
  · have hlo : c.toNat % 16 < 16 := by omega
    have hz : hexVal? '0' = some 0 := by decide
    have h2' : hexVal? '2' = some 2 := by decide
    have hval : 8224 + c.toNat % 16 = c.toNat := by omega
    simp [h1, h2, h3, h4, h5, h6, h7, h8, h9, unescF, hz, h2', hexVal_hexLower _ hlo, hval, Char.ofNat_toNat]
  simp [h1, h2, h3, h4, h5, h6, h7, h8, h9, unescF, hq, hb]

theorem escChar_length_pos (c : Char) : 0 < (escChar c).length := by
  unfold escChar
  simp only []
  split; · simp
  split; · simp
  split; · simp
  split; · simp
  split; · simp
  split; · simp
  split; · simp
  split; · simp
  split; · simp
  simp

theorem escString_length_ge (cs : List Char) : cs.length ≤ (escString cs).length := by
  induction cs with
  | nil => simp [escString]
  | cons c cs ih =>
    have := escChar_length_pos c
    simp only [escString, List.length_cons, List.length_append]
    omega

theorem unescF_escString (cs : List Char) (rest : Text) (f : Nat) (hf : cs.length + 1 ≤ f) :
    unescF f (escString cs ++ '"' :: rest) = some (cs, rest) := by
  induction cs generalizing f with
  | nil =>
    cases f with
    | zero => omega
    | succ f => simp [escString, unescF]
  | cons c cs ih =>
    cases f with
    | zero => omega
    | succ f =>
      simp only [escString, List.append_assoc]
      rw [unescF_escChar, ih f (by simpa using hf)]
      rfl

theorem parseChars_jsonString (s : String) (rest : Text) :
    parseChars (jsonString s ++ rest) = some (s.toList, rest) := by
  simp only [jsonString, List.cons_append, List.append_assoc, List.nil_append, parseChars, ↓reduceIte]
  apply unescF_escString
  have := escString_length_ge s.toList
  simp only [List.length_append, List.length_cons]
  omega

/-- **strings**: the decoder reads back exactly the string the encoder wrote, whatever follows -/
theorem parseString_jsonString (s : String) (rest : Text) :
    parseString (jsonString s ++ rest) = some (s, rest) := by
  simp [parseString, parseChars_jsonString, String.ofList_toList]

/-- characters that need no escaping pass through the string decoder unchanged -/
theorem unescF_plain (cs : List Char) (rest : Text) (f : Nat) (hf : cs.length + 1 ≤ f)
    (hp : ∀ c ∈ cs, c ≠ '"' ∧ c ≠ '\\') : unescF f (cs ++ '"' :: rest) = some (cs, rest) := by
  induction cs generalizing f with
  | nil =>
    cases f with
    | zero => omega
    | succ f => simp [unescF]
  | cons c cs ih =>
    cases f with
    | zero => omega
    | succ f =>
      have hc := hp c (List.mem_cons_self ..)
      have := ih f (by simpa using hf) (fun d hd => hp d (List.mem_cons_of_mem _ hd))
      simp [unescF, hc.1, hc.2, this]

/-! ### base64 -/

theorem b64Val_b64Char : ∀ n, n < 64 → b64Val? (b64Char n) = some n := by decide
theorem b64Char_ne_pad : ∀ n, n < 64 → b64Char n ≠ '=' := by decide
theorem b64Char_plain : ∀ n, n < 64 → b64Char n ≠ '"' ∧ b64Char n ≠ '\\' := by decide

theorem base64_plain (b : Bytes) : ∀ c ∈ base64 b, c ≠ '"' ∧ c ≠ '\\' := by
  have pad : ('=' : Char) ≠ '"' ∧ ('=' : Char) ≠ '\\' := by decide
  fun_induction base64 b with
  | case1 a b c rest n ih =>
    have := a.toNat_lt; have := b.toNat_lt; have := c.toNat_lt
    intro x hx
    simp only [List.mem_cons] at hx
    rcases hx with rfl | rfl | rfl | rfl | hx
    · exact b64Char_plain _ (by omega)
    · exact b64Char_plain _ (by omega)
    · exact b64Char_plain _ (by omega)
    · exact b64Char_plain _ (by omega)
    · exact ih x hx
  | case2 a b n =>
    have := a.toNat_lt; have := b.toNat_lt
    intro x hx
    simp only [List.mem_cons, List.not_mem_nil, or_false] at hx
    rcases hx with rfl | rfl | rfl | rfl
    · exact b64Char_plain _ (by omega)
    · exact b64Char_plain _ (by omega)
    · exact b64Char_plain _ (by omega)
    · exact pad
  | case3 a n =>
    have := a.toNat_lt
    intro x hx
    simp only [List.mem_cons, List.not_mem_nil, or_false] at hx
    rcases hx with rfl | rfl | rfl | rfl
    · exact b64Char_plain _ (by omega)
    · exact b64Char_plain _ (by omega)
    · exact pad
    · exact pad
  | case4 => intro x hx; simp at hx

/-- **base64**: decoding inverts encoding on every byte string -/
theorem unb64_base64 (bs : Bytes) : unb64 (base64 bs) = some bs := by
  fun_induction base64 bs with
  | case1 a b c rest n ih =>
    have := a.toNat_lt; have := b.toNat_lt; have := c.toNat_lt
    have e1 := b64Val_b64Char (n / 262144) (by omega)
    have e2 := b64Val_b64Char (n / 4096 % 64) (by omega)
    have e3 := b64Val_b64Char (n / 64 % 64) (by omega)
    have e4 := b64Val_b64Char (n % 64) (by omega)
    have p4 := b64Char_ne_pad (n % 64) (by omega)
    have hm : n / 262144 * 262144 + n / 4096 % 64 * 4096 + n / 64 % 64 * 64 + n % 64 = n := by omega
    have ha : n / 65536 = a.toNat := by omega
    have hb : n / 256 % 256 = b.toNat := by omega
    have hc : n % 256 = c.toNat := by omega
    simp only [unb64, e1, e2, e3, e4, p4, ↓reduceIte, ih, hm, ha, hb, hc, UInt8.ofNat_toNat, Option.map_some]
  | case2 a b n =>
    have := a.toNat_lt; have := b.toNat_lt
    have e1 := b64Val_b64Char (n / 262144) (by omega)
    have e2 := b64Val_b64Char (n / 4096 % 64) (by omega)
    have e3 := b64Val_b64Char (n / 64 % 64) (by omega)
    have p3 := b64Char_ne_pad (n / 64 % 64) (by omega)
    have hm : n / 262144 * 262144 + n / 4096 % 64 * 4096 + n / 64 % 64 * 64 = n := by omega
    have ha : n / 65536 = a.toNat := by omega
    have hb : n / 256 % 256 = b.toNat := by omega
    simp [unb64, e1, e2, e3, p3, hm, ha, hb]
  | case3 a n =>
    have := a.toNat_lt
    have e1 := b64Val_b64Char (n / 262144) (by omega)
    have e2 := b64Val_b64Char (n / 4096 % 64) (by omega)
    have hm : n / 262144 * 262144 + n / 4096 % 64 * 4096 = n := by omega
    have ha : n / 65536 = a.toNat := by omega
    simp [unb64, e1, e2, hm, ha]
  | case4 => simp [unb64]

/-- **payload**: `null` ↦ nil, a base64 string ↦ its bytes (the empty string ↦ the empty, non-nil slice) -/
theorem parseBytes_jsonBytes (p : Option Bytes) (rest : Text) :
    parseBytes (jsonBytes p ++ rest) = some (p, rest) := by
  cases p with
  | none => simp [parseBytes, jsonBytes, expect_append]
  | some b =>
    have hne : expect nullText ('"' :: (base64 b ++ '"' :: rest)) = none := by
      simp only [nullText]
      exact expect_head_ne (by decide) _ _
    have hch : parseChars ('"' :: (base64 b ++ '"' :: rest)) = some (base64 b, rest) := by
      simp only [parseChars, ↓reduceIte]
      apply unescF_plain _ _ _ _ (base64_plain b)
      simp only [List.length_append, List.length_cons]
      omega
    simp only [parseBytes, jsonBytes, List.cons_append, List.append_assoc, List.nil_append, hne, hch, unb64_base64,
      Option.map_some]

/-! ### objects -/

theorem jsonEntries_head {es : Meta} (hne : es ≠ []) : ∃ t, jsonEntries es = '"' :: t := by
  match es, hne with
  | [(k, v)], _ => exact ⟨_, by simp [jsonEntries, jsonEntry, jsonString]; rfl⟩
  | (k, v) :: e :: r, _ => exact ⟨_, by simp [jsonEntries, jsonEntry, jsonString]; rfl⟩

theorem parseEntriesF_jsonEntries (es : Meta) (hne : es ≠ []) (rest : Text) (f : Nat) (hf : es.length ≤ f) :
    parseEntriesF f (jsonEntries es ++ '}' :: rest) = some (es, rest) := by
  fun_induction jsonEntries es generalizing f with
  | case1 => exact absurd rfl hne
  | case2 k v =>
    cases f with
    | zero => simp at hf
    | succ f =>
      have h1 : parseString (jsonString k ++ (':' :: (jsonString v ++ '}' :: rest))) = some (k, ':' :: (jsonString v ++ '}' :: rest)) :=
        parseString_jsonString k _
      have h2 : parseString (jsonString v ++ '}' :: rest) = some (v, '}' :: rest) := parseString_jsonString v _
      simp [parseEntriesF, jsonEntry, List.append_assoc, h1, expect, h2]
  | case3 k v rest' hnot ih =>
    cases f with
    | zero => simp at hf
    | succ f =>
      have hne' : rest' ≠ [] := by
        intro h; subst h; exact hnot rfl
      have h1 : parseString (jsonString k ++ (':' :: (jsonString v ++ ',' :: (jsonEntries rest' ++ '}' :: rest))))
          = some (k, ':' :: (jsonString v ++ ',' :: (jsonEntries rest' ++ '}' :: rest))) := parseString_jsonString k _
      have h2 : parseString (jsonString v ++ ',' :: (jsonEntries rest' ++ '}' :: rest))
          = some (v, ',' :: (jsonEntries rest' ++ '}' :: rest)) := parseString_jsonString v _
      have h3 := ih hne' f (by simpa using hf)
      simp [parseEntriesF, jsonEntry, List.append_assoc, h1, expect, h2, h3]

theorem jsonEntries_length_ge (es : Meta) : es.length ≤ (jsonEntries es).length + 1 := by
  fun_induction jsonEntries es with
  | case1 => simp
  | case2 k v => simp
  | case3 k v rest' hnot ih =>
    simp only [List.length_cons, List.length_append]
    omega

/-- **metadata**: `null` ↦ nil map, an object ↦ its entries in the order written (the encoder writes them sorted) -/
theorem parseMap_jsonMap (m : Option Meta) (rest : Text) :
    parseMap (jsonMap m ++ rest) = some (m.map sortMeta, rest) := by
  cases m with
  | none => simp [parseMap, jsonMap, expect_append]
  | some m =>
    have hnull : ∀ t, expect nullText ('{' :: t) = none := by
      intro t; simp only [nullText]; exact expect_head_ne (by decide) _ _
    by_cases hes : sortMeta m = []
    · simp [parseMap, jsonMap, hes, jsonEntries, hnull]
    · obtain ⟨t, ht⟩ := jsonEntries_head hes
      have hq : ('"' : Char) ≠ '}' := by decide
      have hlen := jsonEntries_length_ge (sortMeta m)
      have hpar := parseEntriesF_jsonEntries (sortMeta m) hes rest ((t ++ '}' :: rest).length + 2) (by
        rw [ht] at hlen
        simp only [List.length_append, List.length_cons] at hlen ⊢
        omega)
      rw [ht] at hpar
      simp only [List.cons_append, List.length_append, List.length_cons] at hpar
      simp only [parseMap, jsonMap, ht, List.cons_append, List.append_assoc, List.nil_append, hnull, ↓reduceIte, hq]
      simp [hpar]

/-! ### the envelope -/

/-- **text level**: decoding the JSON text of an envelope gives the envelope back, metadata entries in key order -/
theorem decodeText_envelopeText (e : Envelope) : decodeText (envelopeText e) = some (normalize e) := by
  simp only [decodeText, envelopeText, expect_append, parseString_jsonString, parseBytes_jsonBytes, parseMap_jsonMap]
  rfl

theorem fromUTF8_toUTF8 (s : String) : String.fromUTF8? s.toUTF8 = some s := by
  simp [String.fromUTF8?, s.isValidUTF8]
  rfl

theorem mk_data_toList (b : ByteArray) : ByteArray.mk b.data.toList.toArray = b := by simp

theorem ofBytes_toBytes (t : Text) : ofBytes (toBytes t) = some t := by
  unfold ofBytes toBytes
  rw [mk_data_toList, fromUTF8_toUTF8]
  simp

/-- **byte level**: the JSON codec decodes what it encoded, for every envelope (any strings, any bytes, any map) -/
theorem json_dec_enc (e : Envelope) : jsonCodec.dec (jsonEnvelope e) = some (normalize e) := by
  simp [jsonCodec, jsonEnvelope, ofBytes_toBytes, decodeText_envelopeText]

end Wm.Value.Json
