/-
  Control invariant of the close protocol: who holds closedLock / handlersLock, which Close call performs the close,
  when closedCh is closed, what Run has seen.
-/
import WmModel.Lemmas.RouterLifeBase
namespace Wm.RouterLife
open Wm.Lts

structure CtlOk (s : St) : Prop where
  k1 : ∀ (k : Nat), s.closers[k]? = some CPc.waiting →
         s.closed = true ∧ s.closedCh = false ∧ s.hl = .closer k ∧ s.cl = some k
  k2 : ∀ (k : Nat), s.closers[k]? = some CPc.wantHL → s.cl = some k
  k3 : ∀ (k : Nat), s.cl = some k → s.closers[k]? = some CPc.wantHL ∨ s.closers[k]? = some CPc.waiting
  k4 : ∀ (k : Nat), s.hl = .closer k → s.closers[k]? = some CPc.waiting
  k5 : (s.closedCh = true → s.closed = true) ∧ (s.closedCh = true ↔ (s.closeNil = true ∨ s.closeErr = true))
  k6 : s.closing = s.closed
  k7 : s.closed = true → s.closedCh = false → ∃ k : Nat, s.closers[k]? = some CPc.waiting
  k8 : (s.run = .ret → s.closedCh = true) ∧ (s.run = .waitClosed → s.closing = true)
  k9 : s.timerFired = true → s.closed = true

theorem ctl_init : CtlOk init := by
  constructor <;> simp [init]

theorem getElem?_set_some {α : Type} (l : List α) (i j : Nat) (a y : α) (h : (l.set i a)[j]? = some y) :
    (i = j ∧ y = a ∧ i < l.length) ∨ (i ≠ j ∧ l[j]? = some y) := by
  rw [List.getElem?_set] at h
  by_cases hij : i = j
  · subst hij
    by_cases hl : i < l.length
    · simp [hl] at h; exact Or.inl ⟨rfl, h.symm, hl⟩
    · simp [hl] at h
  · simp [hij] at h; exact Or.inr ⟨hij, h⟩

/-- steps that leave the close protocol's variables alone -/
theorem ctl_frame (s s' : St) (h : CtlOk s)
    (e1 : s'.closers = s.closers) (e2 : s'.closed = s.closed) (e3 : s'.closedCh = s.closedCh) (e4 : s'.hl = s.hl)
    (e5 : s'.cl = s.cl) (e6 : s'.closeNil = s.closeNil) (e7 : s'.closeErr = s.closeErr) (e8 : s'.closing = s.closing)
    (e9 : (s'.run = .ret → s'.closedCh = true) ∧ (s'.run = .waitClosed → s'.closing = true))
    (e10 : s'.timerFired = true → s'.closed = true) : CtlOk s' := by
  obtain ⟨k1, k2, k3, k4, k5, k6, k7, k8, k9⟩ := h
  constructor
  · rw [e1, e2, e3, e4, e5]; exact k1
  · rw [e1, e5]; exact k2
  · rw [e1, e5]; exact k3
  · rw [e1, e4]; exact k4
  · rw [e2, e3, e6, e7]; exact k5
  · rw [e8, e2]; exact k6
  · rw [e1, e2, e3]; exact k7
  · exact e9
  · exact e10

/-- a new Close call arrives -/
theorem ctl_append (s s' : St) (h : CtlOk s)
    (e1 : s'.closers = s.closers ++ [CPc.wantCL]) (e2 : s'.closed = s.closed) (e3 : s'.closedCh = s.closedCh)
    (e4 : s'.hl = s.hl) (e5 : s'.cl = s.cl) (e6 : s'.closeNil = s.closeNil) (e7 : s'.closeErr = s.closeErr)
    (e8 : s'.closing = s.closing)
    (e9 : (s'.run = .ret → s'.closedCh = true) ∧ (s'.run = .waitClosed → s'.closing = true))
    (e10 : s'.timerFired = true → s'.closed = true) : CtlOk s' := by
  obtain ⟨k1, k2, k3, k4, k5, k6, k7, k8, k9⟩ := h
  have old : ∀ (j : Nat) (c : CPc), c ≠ .wantCL → s'.closers[j]? = some c → s.closers[j]? = some c := by
    intro j c hc hj
    rw [e1] at hj
    rcases getElem?_append_one _ _ _ _ hj with hj | ⟨_, hj⟩
    · exact hj
    · exact absurd hj hc
  have mono : ∀ (j : Nat) (c : CPc), s.closers[j]? = some c → s'.closers[j]? = some c := by
    intro j c hj
    rw [e1, List.getElem?_append_left]
    · exact hj
    · rcases Nat.lt_or_ge j s.closers.length with h | h
      · exact h
      · rw [List.getElem?_eq_none h] at hj; cases hj
  constructor
  · rw [e2, e3, e4, e5]; intro j hj; exact k1 j (old j _ (by simp) hj)
  · rw [e5]; intro j hj; exact k2 j (old j _ (by simp) hj)
  · rw [e5]; intro j hj
    rcases k3 j hj with h | h
    · exact Or.inl (mono j _ h)
    · exact Or.inr (mono j _ h)
  · rw [e4]; intro j hj; exact mono j _ (k4 j hj)
  · rw [e2, e3, e6, e7]; exact k5
  · rw [e8, e2]; exact k6
  · rw [e2, e3]; intro a b; obtain ⟨j, hj⟩ := k7 a b; exact ⟨j, mono j _ hj⟩
  · exact e9
  · exact e10

/-- the performing Close call returns (nil or timeout error): closedCh is closed, both locks are released -/
theorem ctl_finish (s : St) (k : Nat) (s' : St) (err : Bool) (h : CtlOk s) (hk : s.closers[k]? = some CPc.waiting)
    (e1 : s'.closers = s.closers.set k (.ret err)) (e2 : s'.closed = s.closed) (e3 : s'.closedCh = true)
    (e4 : s'.hl = .free) (e5 : s'.cl = none) (e8 : s'.closing = s.closing)
    (e6 : s'.closeNil = true ∨ s'.closeErr = true) (e9 : s'.run = s.run) (e10 : s'.timerFired = s.timerFired) :
    CtlOk s' := by
  obtain ⟨k1, k2, k3, k4, k5, k6, k7, k8, k9⟩ := h
  obtain ⟨hc, _, hhl, hcl⟩ := k1 k hk
  constructor
  · rw [e1]; intro j hj
    rcases getElem?_set_some _ _ _ _ _ hj with ⟨_, hc', _⟩ | ⟨hne, hj'⟩
    · cases hc'
    · have := (k1 j hj').2.2.2; rw [hcl] at this; simp at this; exact absurd this hne
  · rw [e1]; intro j hj
    rcases getElem?_set_some _ _ _ _ _ hj with ⟨_, hc', _⟩ | ⟨hne, hj'⟩
    · cases hc'
    · have := k2 j hj'; rw [hcl] at this; simp at this; exact absurd this hne
  · rw [e5]; intro j hj; cases hj
  · rw [e4]; intro j hj; cases hj
  · rw [e2, e3]; exact ⟨fun _ => hc, ⟨fun _ => e6, fun _ => rfl⟩⟩
  · rw [e8, e2]; exact k6
  · rw [e3]; intro _ hx; cases hx
  · rw [e9, e3, e8]; exact ⟨fun _ => rfl, k8.2⟩
  · rw [e10, e2]; exact k9

/-- RunHandlers takes / moves / releases `handlersLock`: never a Close call's -/
theorem ctl_frame_hl (s s' : St) (h : CtlOk s)
    (e1 : s'.closers = s.closers) (e2 : s'.closed = s.closed) (e3 : s'.closedCh = s.closedCh)
    (e4 : (∀ k, s.hl ≠ .closer k) ∧ (∀ k, s'.hl ≠ .closer k))
    (e5 : s'.cl = s.cl) (e6 : s'.closeNil = s.closeNil) (e7 : s'.closeErr = s.closeErr) (e8 : s'.closing = s.closing)
    (e9 : (s'.run = .ret → s'.closedCh = true) ∧ (s'.run = .waitClosed → s'.closing = true))
    (e10 : s'.timerFired = true → s'.closed = true) : CtlOk s' := by
  obtain ⟨k1, k2, k3, k4, k5, k6, k7, k8, k9⟩ := h
  constructor
  · rw [e1]; intro k hk; exact absurd (k1 k hk).2.2.1 (e4.1 k)
  · rw [e1, e5]; exact k2
  · rw [e1, e5]; exact k3
  · intro k hk; exact absurd hk (e4.2 k)
  · rw [e2, e3, e6, e7]; exact k5
  · rw [e8, e2]; exact k6
  · rw [e1, e2, e3]; exact k7
  · exact e9
  · exact e10

set_option hygiene false in
macro "ctl_tac" : tactic => `(tactic|
  (repeat' split at ha
   all_goals (try (simp at ha))
   all_goals (try subst ha)
   all_goals (first
     | exact ctl_frame _ _ h rfl rfl rfl rfl rfl rfl rfl rfl h.k8 h.k9
     | (refine ctl_frame _ _ h rfl rfl rfl rfl rfl rfl rfl rfl ?_ ?_
        · have := h.k8; have := h.k6; have := h.k5; simp_all
        · have := h.k9; simp_all)
     | (refine ctl_frame_hl _ _ h rfl rfl rfl ?_ rfl rfl rfl rfl ?_ ?_
        · simp_all [updH]
        · have := h.k8; have := h.k6; have := h.k5; simp_all [updH]
        · have := h.k9; simp_all [updH]))))

theorem ctl_step (fx : Fix) (s : St) (a : Action) (s' : St) (h : CtlOk s)
    (ha : act fx s a = some s') : CtlOk s' := by
  cases a <;> simp only [act] at ha
  case closeCall =>
    simp at ha; subst ha; exact ctl_append s _ h rfl rfl rfl rfl rfl rfl rfl rfl h.k8 h.k9
  case watchCheck =>
    split at ha
    · split at ha
      · simp at ha; subst ha; exact ctl_frame _ _ h rfl rfl rfl rfl rfl rfl rfl rfl h.k8 h.k9
      · simp at ha; subst ha; exact ctl_append s _ h rfl rfl rfl rfl rfl rfl rfl rfl h.k8 h.k9
    · simp at ha
  case closeCL k =>
    split at ha
    · rename_i hk hcl; simp at ha; subst ha
      obtain ⟨k1, k2, k3, k4, k5, k6, k7, k8, k9⟩ := h
      have hlen : k < s.closers.length := by
        rcases Nat.lt_or_ge k s.closers.length with h | h
        · exact h
        · rw [List.getElem?_eq_none h] at hk; cases hk
      refine ⟨?_, ?_, ?_, ?_, k5, k6, ?_, k8, k9⟩
      · intro j hj
        rcases getElem?_set_some _ _ _ _ _ hj with ⟨_, hc, _⟩ | ⟨_, hj'⟩
        · cases hc
        · have := (k1 j hj').2.2.2; rw [hcl] at this; cases this
      · intro j hj
        rcases getElem?_set_some _ _ _ _ _ hj with ⟨hkj, _, _⟩ | ⟨_, hj'⟩
        · simp [hkj]
        · have := k2 j hj'; rw [hcl] at this; cases this
      · intro j hj
        simp at hj; subst hj
        left; simp [setC, hlen]
      · intro j hj
        have h4 := k4 j hj
        have := (k1 j h4).2.2.2; rw [hcl] at this; cases this
      · intro hc hcc
        obtain ⟨j, hj⟩ := k7 hc hcc
        have := (k1 j hj).2.2.2; rw [hcl] at this; cases this
    · simp at ha
  case closeHL k =>
    split at ha
    · rename_i hk
      have hlen : k < s.closers.length := by
        rcases Nat.lt_or_ge k s.closers.length with h | h
        · exact h
        · rw [List.getElem?_eq_none h] at hk; cases hk
      split at ha
      · rename_i hfree
        obtain ⟨k1, k2, k3, k4, k5, k6, k7, k8, k9⟩ := h
        have hclk := k2 k hk
        have noWait : ∀ j : Nat, s.closers[j]? ≠ some CPc.waiting := by
          intro j hj; have := (k1 j hj).2.2.1; rw [hfree] at this; cases this
        split at ha
        · rename_i hclosed
          simp at ha; subst ha
          have hcc : s.closedCh = true := by
            cases hcc : s.closedCh with
            | true => rfl
            | false => obtain ⟨j, hj⟩ := k7 hclosed hcc; exact absurd hj (noWait j)
          refine ⟨?_, ?_, ?_, ?_, k5, k6, ?_, k8, k9⟩
          · intro j hj
            rcases getElem?_set_some _ _ _ _ _ hj with ⟨_, hc, _⟩ | ⟨_, hj'⟩
            · cases hc
            · exact absurd hj' (noWait j)
          · intro j hj
            rcases getElem?_set_some _ _ _ _ _ hj with ⟨_, hc, _⟩ | ⟨hne, hj'⟩
            · cases hc
            · have := k2 j hj'; rw [hclk] at this; simp at this; exact absurd this hne
          · intro j hj; simp at hj
          · intro j hj; simp [setC] at hj; rw [hfree] at hj; cases hj
          · intro _ hc; simp [setC] at hc; rw [hcc] at hc; cases hc
        · rename_i hclosed
          simp at ha; subst ha
          have hncc : s.closedCh = false := by
            cases hcc : s.closedCh with
            | false => rfl
            | true => exact absurd (k5.1 hcc) hclosed
          refine ⟨?_, ?_, ?_, ?_, ?_, rfl, ?_, ?_, fun _ => rfl⟩
          · intro j hj
            rcases getElem?_set_some _ _ _ _ _ hj with ⟨hkj, _, _⟩ | ⟨_, hj'⟩
            · subst hkj; exact ⟨rfl, hncc, rfl, hclk⟩
            · exact absurd hj' (noWait j)
          · intro j hj
            rcases getElem?_set_some _ _ _ _ _ hj with ⟨_, hc, _⟩ | ⟨hne, hj'⟩
            · cases hc
            · have := k2 j hj'; rw [hclk] at this; simp at this; exact absurd this hne
          · intro j hj
            simp [setC] at hj; rw [hclk] at hj; simp at hj; subst hj
            right; simp [setC, hlen]
          · intro j hj
            simp at hj; subst hj
            simp [setC, hlen]
          · exact ⟨fun hc => (by simp [setC] at hc; rw [hncc] at hc), k5.2⟩
          · intro _ _; exact ⟨k, by simp [setC, hlen]⟩
          · refine ⟨k8.1, fun _ => rfl⟩
      · simp at ha
    · simp at ha
  case closeDone k =>
    split at ha
    · rename_i hk
      split at ha
      · simp at ha; subst ha; exact ctl_finish s k _ false h hk rfl rfl rfl rfl rfl rfl (by simp) rfl rfl
      · simp at ha
    · simp at ha
  case closeTimeout k =>
    split at ha
    · rename_i hk
      split at ha
      · simp at ha; subst ha; exact ctl_finish s k _ true h hk rfl rfl rfl rfl rfl rfl (by simp) rfl rfl
      · simp at ha
    · simp at ha
  all_goals ctl_tac

end Wm.RouterLife
