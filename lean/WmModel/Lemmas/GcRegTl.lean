import WmModel.Lemmas.GcRegWr
namespace Wm.GcReg

/-- the thread holds the mutex of topic `t` -/
def holdsT (t : Nat) : Th → Bool
  | .pub t' _ .persist _ | .pub t' _ .send _ | .pub t' _ (.wait _) _ | .pub t' _ .unlock _ => t' == t
  | .sub t' _ .register => t' == t
  | .td t' _ .remove => t' == t
  | _ => false

/-- `tlocks` is exactly the set of (topic, holder) pairs; a topic mutex has at most one holder -/
def TlOk (s : St) : Prop :=
  (∀ (t i : Nat), (t, i) ∈ s.tlocks ↔ ∃ th, s.ths[i]? = some th ∧ holdsT t th = true) ∧
  (∀ (t i j : Nat), (t, i) ∈ s.tlocks → (t, j) ∈ s.tlocks → i = j)

theorem tl_init (cfg : Cfg) : TlOk (init cfg) := by simp [TlOk, init]

theorem tl_congr (s u : St) (h1 : u.ths = s.ths) (h2 : u.tlocks = s.tlocks) (h : TlOk s) : TlOk u := by
  unfold TlOk at *; rw [h1, h2]; exact h

theorem tl_set_same (s u : St) (i : Nat) (old new : Th) (hold : s.ths[i]? = some old)
    (hths : u.ths = s.ths.set i new) (htl : u.tlocks = s.tlocks) (hr : ∀ t, holdsT t new = holdsT t old) (h : TlOk s) : TlOk u := by
  obtain ⟨k5, k6⟩ := h
  have hi : i < s.ths.length := (List.getElem?_eq_some_iff.mp hold).1
  refine ⟨?_, by rw [htl]; exact k6⟩
  intro t j
  rw [htl, k5 t j, hths]
  by_cases hji : j = i
  · subst hji
    rw [List.getElem?_set_self hi, hold]
    constructor
    · rintro ⟨th, h1, h2⟩; injection h1 with h1; subst h1; exact ⟨new, rfl, by rw [hr]; exact h2⟩
    · rintro ⟨th, h1, h2⟩; injection h1 with h1; subst h1; exact ⟨old, rfl, by rw [← hr]; exact h2⟩
  · rw [List.getElem?_set_ne (fun hx => hji hx.symm)]

theorem tl_append (s u : St) (new : Th) (hn : ∀ t, holdsT t new = false) (hths : u.ths = s.ths ++ [new])
    (htl : u.tlocks = s.tlocks) (h : TlOk s) : TlOk u := by
  obtain ⟨k5, k6⟩ := h
  refine ⟨?_, by rw [htl]; exact k6⟩
  intro t j
  rw [htl, k5 t j, hths]
  constructor
  · rintro ⟨th, h1, h2⟩; exact ⟨th, append_get_of_get _ _ _ _ h1, h2⟩
  · rintro ⟨th, h1, h2⟩
    rcases get_append_cases _ _ _ _ h1 with ⟨_, h1'⟩ | ⟨_, hth⟩
    · exact ⟨th, h1', h2⟩
    · subst hth; rw [hn] at h2; cases h2

theorem tlockFree_iff (s : St) (t : Nat) : tlockFree s t = true ↔ ∀ j, (t, j) ∉ s.tlocks := by
  unfold tlockFree
  simp only [Bool.not_eq_true', List.any_eq_false]
  constructor
  · intro h j hj
    have := h (t, j) hj
    simp at this
  · intro h x hx
    rcases x with ⟨t', j⟩
    simp
    intro ht; subst ht; exact h j hx

/-- thread `i` takes the free mutex of topic `t0` -/
theorem tl_set_acquire (s u : St) (i t0 : Nat) (old new : Th) (hold : s.ths[i]? = some old)
    (hths : u.ths = s.ths.set i new) (htl : u.tlocks = (t0, i) :: s.tlocks)
    (ho : ∀ t, holdsT t old = false) (hn : ∀ t, holdsT t new = (t0 == t)) (hfree : tlockFree s t0 = true)
    (h : TlOk s) : TlOk u := by
  obtain ⟨k5, k6⟩ := h
  have hi : i < s.ths.length := (List.getElem?_eq_some_iff.mp hold).1
  have hf := (tlockFree_iff s t0).mp hfree
  have hnoti : ∀ t, (t, i) ∉ s.tlocks := by
    intro t hx
    obtain ⟨th, h1, h2⟩ := (k5 t i).mp hx
    rw [hold] at h1; injection h1 with h1; subst h1; rw [ho] at h2; cases h2
  refine ⟨?_, ?_⟩
  · intro t j
    rw [htl, hths]
    by_cases hji : j = i
    · subst hji
      rw [List.getElem?_set_self hi]
      simp only [List.mem_cons, Prod.mk.injEq]
      constructor
      · rintro (⟨h1, _⟩ | h1)
        · exact ⟨new, rfl, by rw [hn]; simp [h1]⟩
        · exact absurd h1 (hnoti t)
      · rintro ⟨th, h1, h2⟩
        injection h1 with h1; subst h1
        rw [hn] at h2; simp at h2
        exact Or.inl ⟨h2.symm, trivial⟩
    · rw [List.getElem?_set_ne (fun hx => hji hx.symm)]
      simp only [List.mem_cons, Prod.mk.injEq]
      constructor
      · rintro (⟨_, h1⟩ | h1)
        · exact absurd h1 hji
        · exact (k5 t j).mp h1
      · intro h1; exact Or.inr ((k5 t j).mpr h1)
  · intro t a b ha hb
    rw [htl] at ha hb
    simp only [List.mem_cons, Prod.mk.injEq] at ha hb
    rcases ha with ⟨ht, ha⟩ | ha
    · rcases hb with ⟨_, hb⟩ | hb
      · rw [ha, hb]
      · subst ht; exact absurd hb (hf b)
    · rcases hb with ⟨ht, hb⟩ | hb
      · subst ht; exact absurd ha (hf a)
      · exact k6 t a b ha hb

/-- thread `i` releases the mutex of topic `t0` (it holds no other) -/
theorem tl_set_release (s u : St) (i t0 : Nat) (old new : Th) (hold : s.ths[i]? = some old)
    (hths : u.ths = s.ths.set i new) (htl : u.tlocks = s.tlocks.filter (· != (t0, i)))
    (ho : ∀ t, holdsT t old = (t0 == t)) (hn : ∀ t, holdsT t new = false) (h : TlOk s) : TlOk u := by
  obtain ⟨k5, k6⟩ := h
  have hi : i < s.ths.length := (List.getElem?_eq_some_iff.mp hold).1
  refine ⟨?_, ?_⟩
  · intro t j
    rw [htl, hths, List.mem_filter]
    by_cases hji : j = i
    · subst hji
      rw [List.getElem?_set_self hi]
      constructor
      · rintro ⟨h1, h2⟩
        obtain ⟨th, e1, e2⟩ := (k5 t j).mp h1
        rw [hold] at e1; injection e1 with e1; subst e1
        rw [ho] at e2; simp at e2; subst e2
        simp at h2
      · rintro ⟨th, h1, h2⟩
        injection h1 with h1; subst h1; rw [hn] at h2; cases h2
    · rw [List.getElem?_set_ne (fun hx => hji hx.symm)]
      constructor
      · rintro ⟨h1, _⟩; exact (k5 t j).mp h1
      · intro h1
        refine ⟨(k5 t j).mpr h1, ?_⟩
        simp; intro _ hx; exact absurd hx hji
  · intro t a b ha hb
    rw [htl, List.mem_filter] at ha hb
    exact k6 t a b ha.1 hb.1

end Wm.GcReg

namespace Wm.GcReg

theorem tl_step (s : St) (a : Action) (s' : St) (h : TlOk s) (ha : act s a = some s') : TlOk s' := by
  cases a <;> simp only [act] at ha
  case newPub t msgs nested =>
    cases nested with
    | none => simp at ha; subst ha; exact tl_append s _ _ (by intro t'; rfl) rfl rfl h
    | some p =>
      simp only at ha
      split at ha
      · simp at ha; subst ha; exact tl_append s _ _ (by intro t'; rfl) rfl rfl h
      · simp at ha
  case newSub t => simp at ha; subst ha; exact tl_append s _ _ (by intro t'; rfl) rfl rfl h
  case newClose => simp at ha; subst ha; exact tl_append s _ _ (by intro t'; rfl) rfl rfl h
  case cancel sid => simp at ha; subst ha; exact tl_congr s _ rfl rfl h
  case senderDone d sid =>
    split at ha
    · simp at ha; subst ha; exact tl_congr s _ rfl rfl h
    · simp at ha
  case step i =>
    split at ha
    · rename_i t rest pc ao hth
      cases pc <;> simp only [stepPub] at ha
      case start =>
        split at ha
        · simp at ha
        · split at ha <;> (simp at ha; subst ha; exact tl_set_same s _ i _ _ hth rfl rfl (by intro t'; rfl) h)
      case rlock =>
        split at ha
        · simp at ha
        · simp at ha; subst ha; exact tl_set_same s _ i _ _ hth rfl rfl (by intro t'; rfl) h
      case tlock =>
        split at ha
        · rename_i hfree
          simp at ha; subst ha
          exact tl_set_acquire s _ i t _ _ hth rfl rfl (by intro t'; rfl) (by intro t'; rfl) hfree h
        · simp at ha
      case persist =>
        split at ha
        · split at ha
          · simp at ha; subst ha
            exact tl_set_release s _ i t _ _ hth rfl rfl (by intro t'; rfl) (by intro t'; rfl) h
          · simp at ha; subst ha; exact tl_set_same s _ i _ _ hth rfl rfl (by intro t'; rfl) h
        · simp at ha; subst ha; exact tl_set_same s _ i _ _ hth rfl rfl (by intro t'; rfl) h
      case send =>
        split at ha
        · simp at ha; subst ha; exact tl_set_same s _ i _ _ hth rfl rfl (by intro t'; rfl) h
        · split at ha <;> (simp at ha; subst ha; exact tl_set_same s _ i _ _ hth rfl rfl (by intro t'; rfl) h)
      case wait d =>
        split at ha
        · simp at ha; subst ha; exact tl_set_same s _ i _ _ hth rfl rfl (by intro t'; rfl) h
        · simp at ha
      case unlock =>
        simp at ha; subst ha
        cases ao with
        | none => exact tl_set_release s _ i t _ _ hth rfl rfl (by intro t'; rfl) (by intro t'; rfl) h
        | some p =>
          exact tl_set_release s _ i t _ (.pub t rest .retOk (some p)) hth (by simp [setTh, finishSender])
            (by simp [setTh, finishSender]) (by intro t'; rfl) (by intro t'; rfl) h
      case retOk => simp at ha
      case retErr => simp at ha
    · rename_i t sid pc hth
      cases pc <;> simp only [stepSub] at ha
      case start =>
        split at ha
        · simp at ha
        · split at ha <;> (simp at ha; subst ha; exact tl_set_same s _ i _ _ hth rfl rfl (by intro t'; rfl) h)
      case wqueue => simp at ha; subst ha; exact tl_set_same s _ i _ _ hth rfl rfl (by intro t'; rfl) h
      case announce =>
        split at ha
        · simp at ha; subst ha; exact tl_set_same s _ i _ _ hth rfl rfl (by intro t'; rfl) h
        · simp at ha
      case drain =>
        split at ha
        · simp at ha; subst ha; exact tl_set_same s _ i _ _ hth rfl rfl (by intro t'; rfl) h
        · simp at ha
      case tlock =>
        split at ha
        · rename_i hfree
          simp at ha; subst ha
          have h1 : TlOk { s with tlocks := (t, i) :: s.tlocks, ths := s.ths.set i (.sub t s.nextSid .register) } :=
            tl_set_acquire s _ i t _ _ hth rfl rfl (by intro t'; rfl) (by intro t'; rfl) hfree h
          exact tl_append { s with tlocks := (t, i) :: s.tlocks, ths := s.ths.set i (.sub t s.nextSid .register) } _
            (.td t s.nextSid .idle) (by intro t'; rfl) (by simp [setTh]) (by simp [setTh]) h1
        · simp at ha
      case register =>
        simp at ha; subst ha
        exact tl_set_release s _ i t _ _ hth rfl rfl (by intro t'; rfl) (by intro t'; rfl) h
      case retOk => simp at ha
      case retErr => simp at ha
    · rename_i t sid pc hth
      cases pc <;> simp only [stepTd] at ha
      case idle =>
        split at ha
        · simp at ha; subst ha; exact tl_set_same s _ i _ _ hth rfl rfl (by intro t'; rfl) h
        · simp at ha
      case subClosed => simp at ha; subst ha; exact tl_set_same s _ i _ _ hth rfl rfl (by intro t'; rfl) h
      case announce =>
        split at ha
        · simp at ha; subst ha; exact tl_set_same s _ i _ _ hth rfl rfl (by intro t'; rfl) h
        · simp at ha
      case drain =>
        split at ha
        · simp at ha; subst ha; exact tl_set_same s _ i _ _ hth rfl rfl (by intro t'; rfl) h
        · simp at ha
      case tlock =>
        split at ha
        · rename_i hfree
          simp at ha; subst ha
          exact tl_set_acquire s _ i t _ _ hth rfl rfl (by intro t'; rfl) (by intro t'; rfl) hfree h
        · simp at ha
      case remove =>
        split at ha
        · split at ha
          · simp at ha; subst ha; exact tl_congr s _ rfl rfl h
          · simp at ha; subst ha
            exact tl_set_release s _ i t _ _ hth rfl rfl (by intro t'; rfl) (by intro t'; rfl) h
        · simp at ha; subst ha; exact tl_congr s _ rfl rfl h
      case done => simp at ha
    · rename_i pc hth
      cases pc <;> simp only [stepCloser] at ha
      case start =>
        split at ha
        · simp at ha
        · split at ha <;> (simp at ha; subst ha; exact tl_set_same s _ i _ _ hth rfl rfl (by intro t'; rfl) h)
      case waitWg =>
        split at ha
        · simp at ha; subst ha; exact tl_set_same s _ i _ _ hth rfl rfl (by intro t'; rfl) h
        · simp at ha
      case ret => simp at ha
    · simp at ha

end Wm.GcReg
