import WmModel.Lemmas.GcRegW1Step
namespace Wm.GcReg

theorem get_set_cases {α : Type} (l : List α) (i j : Nat) (new th : α) (h : (l.set i new)[j]? = some th) :
    (j = i ∧ th = new) ∨ (j ≠ i ∧ l[j]? = some th) := by
  rw [List.getElem?_set] at h
  split at h
  · rename_i hij
    split at h
    · injection h with h; exact Or.inl ⟨hij.symm, h.symm⟩
    · cases h
  · rename_i hij; exact Or.inr ⟨fun hx => hij hx.symm, h⟩

theorem get_append_cases {α : Type} (l : List α) (j : Nat) (new th : α) (h : (l ++ [new])[j]? = some th) :
    (j < l.length ∧ l[j]? = some th) ∨ (j = l.length ∧ th = new) := by
  rw [List.getElem?_append] at h
  split at h
  · rename_i hlt; exact Or.inl ⟨hlt, h⟩
  · rcases hd : j - l.length with _ | n
    · simp [hd] at h; exact Or.inr ⟨by omega, h.symm⟩
    · simp [hd] at h

theorem set_get_of_ne {α : Type} (l : List α) (i j : Nat) (new th : α) (hne : j ≠ i) (h : l[j]? = some th) :
    (l.set i new)[j]? = some th := by
  rw [List.getElem?_set]; split
  · rename_i hx; exact absurd hx.symm hne
  · exact h

theorem append_get_of_get {α : Type} (l : List α) (j : Nat) (new th : α) (h : l[j]? = some th) :
    (l ++ [new])[j]? = some th := by
  have hlt : j < l.length := (List.getElem?_eq_some_iff.mp h).1
  rw [List.getElem?_append_left hlt]; exact h

/-- registration bookkeeping: ids are fresh and unique, a live unsubscribe goroutine's subscriber is registered or its
    Subscribe call is still inside the critical region -/
def RsOk (s : St) : Prop :=
  (∀ (i t sid : Nat) (pc : TPc), s.ths[i]? = some (Th.td t sid pc) → sid < s.nextSid) ∧
  (∀ (i j t t' sid : Nat) (pc pc' : TPc), s.ths[i]? = some (Th.td t sid pc) → s.ths[j]? = some (Th.td t' sid pc') → i = j) ∧
  (∀ (i t sid : Nat), s.ths[i]? = some (Th.sub t sid UPc.register) →
      sid < s.nextSid ∧ ∀ (j t' : Nat) (pc' : TPc), s.ths[j]? = some (Th.td t' sid pc') → t' = t) ∧
  (∀ (i t sid : Nat) (pc : TPc), s.ths[i]? = some (Th.td t sid pc) → pc ≠ TPc.done →
      (sid, t) ∈ s.subs ∨ ∃ j : Nat, s.ths[j]? = some (Th.sub t sid UPc.register))

/-- thread `i` is replaced by a thread that is neither an unsubscribe goroutine nor a Subscribe at `register`, and was
    none before; `subs`, `nextSid` unchanged -/
theorem rs_set_other (s u : St) (i : Nat) (old new : Th) (hold : s.ths[i]? = some old)
    (ho : (∀ t sid pc, old ≠ Th.td t sid pc) ∧ (∀ t sid, old ≠ Th.sub t sid UPc.register))
    (hn : (∀ t sid pc, new ≠ Th.td t sid pc) ∧ (∀ t sid, new ≠ Th.sub t sid UPc.register))
    (hths : u.ths = s.ths.set i new) (hsubs : u.subs = s.subs) (hsid : u.nextSid = s.nextSid) (h : RsOk s) : RsOk u := by
  obtain ⟨r1, r2, r3, r4⟩ := h
  have back : ∀ (j : Nat) (th : Th), u.ths[j]? = some th → ((∃ t sid pc, th = Th.td t sid pc) ∨ (∃ t sid, th = Th.sub t sid UPc.register)) →
      s.ths[j]? = some th := by
    intro j th hj hk
    rw [hths] at hj
    rcases get_set_cases _ _ _ _ _ hj with ⟨_, hth⟩ | ⟨_, hj'⟩
    · subst hth
      rcases hk with ⟨t, sid, pc, hk⟩ | ⟨t, sid, hk⟩
      · exact absurd hk (hn.1 t sid pc)
      · exact absurd hk (hn.2 t sid)
    · exact hj'
  have fwd : ∀ (j : Nat) (th : Th), s.ths[j]? = some th → ((∃ t sid pc, th = Th.td t sid pc) ∨ (∃ t sid, th = Th.sub t sid UPc.register)) →
      u.ths[j]? = some th := by
    intro j th hj hk
    rw [hths]
    by_cases hji : j = i
    · subst hji; rw [hold] at hj; injection hj with hj; subst hj
      rcases hk with ⟨t, sid, pc, hk⟩ | ⟨t, sid, hk⟩
      · exact absurd hk (ho.1 t sid pc)
      · exact absurd hk (ho.2 t sid)
    · exact set_get_of_ne _ _ _ _ _ hji hj
  refine ⟨?_, ?_, ?_, ?_⟩
  · intro j t sid pc hj; rw [hsid]; exact r1 j t sid pc (back j _ hj (Or.inl ⟨t, sid, pc, rfl⟩))
  · intro j k t t' sid pc pc' hj hk
    exact r2 j k t t' sid pc pc' (back j _ hj (Or.inl ⟨_, _, _, rfl⟩)) (back k _ hk (Or.inl ⟨_, _, _, rfl⟩))
  · intro j t sid hj
    obtain ⟨a1, a2⟩ := r3 j t sid (back j _ hj (Or.inr ⟨_, _, rfl⟩))
    exact ⟨by rw [hsid]; exact a1, fun k t' pc' hk => a2 k t' pc' (back k _ hk (Or.inl ⟨_, _, _, rfl⟩))⟩
  · intro j t sid pc hj hpc
    rw [hsubs]
    rcases r4 j t sid pc (back j _ hj (Or.inl ⟨_, _, _, rfl⟩)) hpc with h1 | ⟨k, hk⟩
    · exact Or.inl h1
    · exact Or.inr ⟨k, fwd k _ hk (Or.inr ⟨_, _, rfl⟩)⟩

end Wm.GcReg

namespace Wm.GcReg

theorem rs_congr (s u : St) (h1 : u.ths = s.ths) (h2 : u.subs = s.subs) (h3 : u.nextSid = s.nextSid) (h : RsOk s) : RsOk u := by
  unfold RsOk at *; rw [h1, h2, h3]; exact h

theorem rs_append_other (s u : St) (new : Th)
    (hn : (∀ t sid pc, new ≠ Th.td t sid pc) ∧ (∀ t sid, new ≠ Th.sub t sid UPc.register))
    (hths : u.ths = s.ths ++ [new]) (hsubs : u.subs = s.subs) (hsid : u.nextSid = s.nextSid) (h : RsOk s) : RsOk u := by
  obtain ⟨r1, r2, r3, r4⟩ := h
  have back : ∀ (j : Nat) (th : Th), u.ths[j]? = some th → ((∃ t sid pc, th = Th.td t sid pc) ∨ (∃ t sid, th = Th.sub t sid UPc.register)) →
      s.ths[j]? = some th := by
    intro j th hj hk
    rw [hths] at hj
    rcases get_append_cases _ _ _ _ hj with ⟨_, hj'⟩ | ⟨_, hth⟩
    · exact hj'
    · subst hth
      rcases hk with ⟨t, sid, pc, hk⟩ | ⟨t, sid, hk⟩
      · exact absurd hk (hn.1 t sid pc)
      · exact absurd hk (hn.2 t sid)
  refine ⟨?_, ?_, ?_, ?_⟩
  · intro j t sid pc hj; rw [hsid]; exact r1 j t sid pc (back j _ hj (Or.inl ⟨t, sid, pc, rfl⟩))
  · intro j k t t' sid pc pc' hj hk
    exact r2 j k t t' sid pc pc' (back j _ hj (Or.inl ⟨_, _, _, rfl⟩)) (back k _ hk (Or.inl ⟨_, _, _, rfl⟩))
  · intro j t sid hj
    obtain ⟨a1, a2⟩ := r3 j t sid (back j _ hj (Or.inr ⟨_, _, rfl⟩))
    exact ⟨by rw [hsid]; exact a1, fun k t' pc' hk => a2 k t' pc' (back k _ hk (Or.inl ⟨_, _, _, rfl⟩))⟩
  · intro j t sid pc hj hpc
    rw [hsubs]
    rcases r4 j t sid pc (back j _ hj (Or.inl ⟨_, _, _, rfl⟩)) hpc with h1 | ⟨k, hk⟩
    · exact Or.inl h1
    · exact Or.inr ⟨k, by rw [hths]; exact append_get_of_get _ _ _ _ hk⟩

/-- an unsubscribe goroutine moves between two program counters other than `done` -/
theorem rs_td_move (s u : St) (i t sid : Nat) (pc0 pc1 : TPc) (hold : s.ths[i]? = some (Th.td t sid pc0))
    (h0 : pc0 ≠ TPc.done) (hths : u.ths = s.ths.set i (Th.td t sid pc1)) (hsubs : u.subs = s.subs)
    (hsid : u.nextSid = s.nextSid) (h : RsOk s) : RsOk u := by
  obtain ⟨r1, r2, r3, r4⟩ := h
  -- every td of `u` is a td of `s` at the same index with the same topic and id
  have backTd : ∀ (j t' sid' : Nat) (pc : TPc), u.ths[j]? = some (Th.td t' sid' pc) →
      ∃ pc', s.ths[j]? = some (Th.td t' sid' pc') ∧ (pc' = TPc.done → pc = TPc.done ∧ j ≠ i) := by
    intro j t' sid' pc hj
    rw [hths] at hj
    rcases get_set_cases _ _ _ _ _ hj with ⟨hji, hth⟩ | ⟨hji, hj'⟩
    · injection hth with e1 e2 e3; subst hji; subst e1; subst e2
      exact ⟨pc0, hold, fun hx => absurd hx h0⟩
    · exact ⟨pc, hj', fun hx => ⟨hx, hji⟩⟩
  have backSub : ∀ (j t' sid' : Nat), u.ths[j]? = some (Th.sub t' sid' UPc.register) → s.ths[j]? = some (Th.sub t' sid' UPc.register) := by
    intro j t' sid' hj
    rw [hths] at hj
    rcases get_set_cases _ _ _ _ _ hj with ⟨_, hth⟩ | ⟨_, hj'⟩
    · cases hth
    · exact hj'
  have fwdSub : ∀ (j t' sid' : Nat), s.ths[j]? = some (Th.sub t' sid' UPc.register) → u.ths[j]? = some (Th.sub t' sid' UPc.register) := by
    intro j t' sid' hj
    rw [hths]
    by_cases hji : j = i
    · subst hji; rw [hold] at hj; cases hj
    · exact set_get_of_ne _ _ _ _ _ hji hj
  refine ⟨?_, ?_, ?_, ?_⟩
  · intro j t' sid' pc hj
    obtain ⟨pc', hj', _⟩ := backTd j t' sid' pc hj
    rw [hsid]; exact r1 j t' sid' pc' hj'
  · intro j k t' t'' sid' pc pc' hj hk
    obtain ⟨_, hj', _⟩ := backTd j t' sid' pc hj
    obtain ⟨_, hk', _⟩ := backTd k t'' sid' pc' hk
    exact r2 j k t' t'' sid' _ _ hj' hk'
  · intro j t' sid' hj
    obtain ⟨a1, a2⟩ := r3 j t' sid' (backSub j t' sid' hj)
    refine ⟨by rw [hsid]; exact a1, ?_⟩
    intro k t'' pc' hk
    obtain ⟨_, hk', _⟩ := backTd k t'' sid' pc' hk
    exact a2 k t'' _ hk'
  · intro j t' sid' pc hj hpc
    obtain ⟨pc', hj', hd⟩ := backTd j t' sid' pc hj
    have hpc' : pc' ≠ TPc.done := fun hx => hpc (hd hx).1
    rw [hsubs]
    rcases r4 j t' sid' pc' hj' hpc' with h1 | ⟨k, hk⟩
    · exact Or.inl h1
    · exact Or.inr ⟨k, fwdSub k _ _ hk⟩

end Wm.GcReg

namespace Wm.GcReg

/-- Subscribe takes the topic mutex: the subscriber gets a fresh id and its unsubscribe goroutine is started -/
theorem rs_sub_spawn (s u : St) (i t sid0 : Nat) (hold : s.ths[i]? = some (Th.sub t sid0 UPc.tlock))
    (hths : u.ths = s.ths.set i (Th.sub t s.nextSid UPc.register) ++ [Th.td t s.nextSid TPc.idle])
    (hsubs : u.subs = s.subs) (hsid : u.nextSid = s.nextSid + 1) (h : RsOk s) : RsOk u := by
  obtain ⟨r1, r2, r3, r4⟩ := h
  have hlen : (s.ths.set i (Th.sub t s.nextSid UPc.register)).length = s.ths.length := List.length_set
  have hi : i < s.ths.length := (List.getElem?_eq_some_iff.mp hold).1
  -- classify an entry of the new thread list
  have cls : ∀ (j : Nat) (th : Th), u.ths[j]? = some th →
      (j = s.ths.length ∧ th = Th.td t s.nextSid TPc.idle) ∨
      (j = i ∧ th = Th.sub t s.nextSid UPc.register) ∨
      (j ≠ i ∧ j < s.ths.length ∧ s.ths[j]? = some th) := by
    intro j th hj
    rw [hths] at hj
    rcases get_append_cases _ _ _ _ hj with ⟨hlt, hj'⟩ | ⟨hje, hth⟩
    · rcases get_set_cases _ _ _ _ _ hj' with ⟨hji, hth⟩ | ⟨hji, hj''⟩
      · exact Or.inr (Or.inl ⟨hji, hth⟩)
      · exact Or.inr (Or.inr ⟨hji, by rw [hlen] at hlt; exact hlt, hj''⟩)
    · exact Or.inl ⟨by rw [hje, hlen], hth⟩
  have newTd : u.ths[s.ths.length]? = some (Th.td t s.nextSid TPc.idle) := by
    rw [hths, List.getElem?_append_right (by rw [hlen]; exact Nat.le_refl _), hlen]; simp
  have newSub : u.ths[i]? = some (Th.sub t s.nextSid UPc.register) := by
    rw [hths, List.getElem?_append_left (by rw [hlen]; exact hi)]
    exact List.getElem?_set_self hi
  have keep : ∀ (j : Nat) (th : Th), j ≠ i → s.ths[j]? = some th → u.ths[j]? = some th := by
    intro j th hji hj
    rw [hths]
    exact append_get_of_get _ _ _ _ (set_get_of_ne _ _ _ _ _ hji hj)
  refine ⟨?_, ?_, ?_, ?_⟩
  · intro j t' sid' pc hj
    rw [hsid]
    rcases cls j _ hj with ⟨_, hth⟩ | ⟨_, hth⟩ | ⟨_, _, hj'⟩
    · injection hth with _ e2 _; omega
    · cases hth
    · have := r1 j t' sid' pc hj'; omega
  · intro j k t' t'' sid' pc pc' hj hk
    rcases cls j _ hj with ⟨hje, hth⟩ | ⟨_, hth⟩ | ⟨_, hjl, hj'⟩
    · injection hth with _ e2 _
      rcases cls k _ hk with ⟨hke, _⟩ | ⟨_, hth'⟩ | ⟨_, _, hk'⟩
      · omega
      · cases hth'
      · have := r1 k t'' sid' pc' hk'; omega
    · cases hth
    · rcases cls k _ hk with ⟨hke, hth'⟩ | ⟨_, hth'⟩ | ⟨_, _, hk'⟩
      · injection hth' with _ e2 _
        have := r1 j t' sid' pc hj'; omega
      · cases hth'
      · exact r2 j k t' t'' sid' pc pc' hj' hk'
  · intro j t' sid' hj
    rw [hsid]
    rcases cls j _ hj with ⟨_, hth⟩ | ⟨_, hth⟩ | ⟨_, _, hj'⟩
    · cases hth
    · injection hth with e1 e2 _
      refine ⟨by omega, ?_⟩
      intro k t'' pc' hk
      rcases cls k _ hk with ⟨_, hth'⟩ | ⟨_, hth'⟩ | ⟨_, _, hk'⟩
      · injection hth' with e1' _ _; rw [e1', e1]
      · cases hth'
      · have := r1 k t'' sid' pc' hk'; omega
    · obtain ⟨a1, a2⟩ := r3 j t' sid' hj'
      refine ⟨by omega, ?_⟩
      intro k t'' pc' hk
      rcases cls k _ hk with ⟨_, hth'⟩ | ⟨_, hth'⟩ | ⟨_, _, hk'⟩
      · injection hth' with _ e2 _; omega
      · cases hth'
      · exact a2 k t'' pc' hk'
  · intro j t' sid' pc hj hpc
    rw [hsubs]
    rcases cls j _ hj with ⟨_, hth⟩ | ⟨_, hth⟩ | ⟨hji, _, hj'⟩
    · injection hth with e1 e2 _
      subst e1; subst e2
      exact Or.inr ⟨i, newSub⟩
    · cases hth
    · rcases r4 j t' sid' pc hj' hpc with h1 | ⟨k, hk⟩
      · exact Or.inl h1
      · by_cases hki : k = i
        · subst hki; rw [hold] at hk; cases hk
        · exact Or.inr ⟨k, keep k _ hki hk⟩

end Wm.GcReg

namespace Wm.GcReg

/-- Subscribe registers the subscriber and leaves the critical region -/
theorem rs_sub_register (s u : St) (i t sid : Nat) (hold : s.ths[i]? = some (Th.sub t sid UPc.register))
    (hths : u.ths = s.ths.set i (Th.sub t sid UPc.retOk)) (hsubs : u.subs = s.subs ++ [(sid, t)])
    (hsid : u.nextSid = s.nextSid) (hw : W1 s) (h : RsOk s) : RsOk u := by
  obtain ⟨r1, r2, r3, r4⟩ := h
  have backTd : ∀ (j t' sid' : Nat) (pc : TPc), u.ths[j]? = some (Th.td t' sid' pc) → s.ths[j]? = some (Th.td t' sid' pc) := by
    intro j t' sid' pc hj
    rw [hths] at hj
    rcases get_set_cases _ _ _ _ _ hj with ⟨_, hth⟩ | ⟨_, hj'⟩
    · cases hth
    · exact hj'
  have backSub : ∀ (j t' sid' : Nat), u.ths[j]? = some (Th.sub t' sid' UPc.register) →
      j ≠ i ∧ s.ths[j]? = some (Th.sub t' sid' UPc.register) := by
    intro j t' sid' hj
    rw [hths] at hj
    rcases get_set_cases _ _ _ _ _ hj with ⟨_, hth⟩ | ⟨hji, hj'⟩
    · cases hth
    · exact ⟨hji, hj'⟩
  refine ⟨?_, ?_, ?_, ?_⟩
  · intro j t' sid' pc hj; rw [hsid]; exact r1 j t' sid' pc (backTd j _ _ _ hj)
  · intro j k t' t'' sid' pc pc' hj hk
    exact r2 j k t' t'' sid' pc pc' (backTd j _ _ _ hj) (backTd k _ _ _ hk)
  · intro j t' sid' hj
    obtain ⟨_, hj'⟩ := backSub j t' sid' hj
    obtain ⟨a1, a2⟩ := r3 j t' sid' hj'
    exact ⟨by rw [hsid]; exact a1, fun k t'' pc' hk => a2 k t'' pc' (backTd k _ _ _ hk)⟩
  · intro j t' sid' pc hj hpc
    rw [hsubs]
    rcases r4 j t' sid' pc (backTd j _ _ _ hj) hpc with h1 | ⟨k, hk⟩
    · exact Or.inl (List.mem_append_left _ h1)
    · -- the witness was a Subscribe at `register`: by W1 there is only one such thread, the one that just registered
      have hk1 := hw k _ hk rfl
      have hi1 := hw i _ hold rfl
      rw [hk1] at hi1; injection hi1 with hki; subst hki
      rw [hold] at hk; injection hk with hk; injection hk with e1 e2 _
      subst e1; subst e2
      exact Or.inl (List.mem_append_right _ (by simp))

/-- the unsubscribe goroutine removes its subscriber and finishes -/
theorem rs_td_remove (s u : St) (i t sid : Nat) (hold : s.ths[i]? = some (Th.td t sid TPc.remove))
    (hths : u.ths = s.ths.set i (Th.td t sid TPc.done)) (hsubs : u.subs = s.subs.erase (sid, t))
    (hsid : u.nextSid = s.nextSid) (h : RsOk s) : RsOk u := by
  obtain ⟨r1, r2, r3, r4⟩ := h
  have backTd : ∀ (j t' sid' : Nat) (pc : TPc), u.ths[j]? = some (Th.td t' sid' pc) →
      (j = i ∧ t' = t ∧ sid' = sid ∧ pc = TPc.done) ∨ (j ≠ i ∧ s.ths[j]? = some (Th.td t' sid' pc)) := by
    intro j t' sid' pc hj
    rw [hths] at hj
    rcases get_set_cases _ _ _ _ _ hj with ⟨hji, hth⟩ | ⟨hji, hj'⟩
    · injection hth with e1 e2 e3; exact Or.inl ⟨hji, e1, e2, e3⟩
    · exact Or.inr ⟨hji, hj'⟩
  have backTd' : ∀ (j t' sid' : Nat) (pc : TPc), u.ths[j]? = some (Th.td t' sid' pc) → ∃ pc', s.ths[j]? = some (Th.td t' sid' pc') := by
    intro j t' sid' pc hj
    rcases backTd j t' sid' pc hj with ⟨e0, e1, e2, _⟩ | ⟨_, hj'⟩
    · subst e0; subst e1; subst e2; exact ⟨_, hold⟩
    · exact ⟨_, hj'⟩
  have backSub : ∀ (j t' sid' : Nat), u.ths[j]? = some (Th.sub t' sid' UPc.register) → s.ths[j]? = some (Th.sub t' sid' UPc.register) := by
    intro j t' sid' hj
    rw [hths] at hj
    rcases get_set_cases _ _ _ _ _ hj with ⟨_, hth⟩ | ⟨_, hj'⟩
    · cases hth
    · exact hj'
  refine ⟨?_, ?_, ?_, ?_⟩
  · intro j t' sid' pc hj
    obtain ⟨pc', hj'⟩ := backTd' j t' sid' pc hj
    rw [hsid]; exact r1 j t' sid' pc' hj'
  · intro j k t' t'' sid' pc pc' hj hk
    obtain ⟨_, hj'⟩ := backTd' j t' sid' pc hj
    obtain ⟨_, hk'⟩ := backTd' k t'' sid' pc' hk
    exact r2 j k t' t'' sid' _ _ hj' hk'
  · intro j t' sid' hj
    obtain ⟨a1, a2⟩ := r3 j t' sid' (backSub j t' sid' hj)
    refine ⟨by rw [hsid]; exact a1, ?_⟩
    intro k t'' pc' hk
    obtain ⟨_, hk'⟩ := backTd' k t'' sid' pc' hk
    exact a2 k t'' _ hk'
  · intro j t' sid' pc hj hpc
    rcases backTd j t' sid' pc hj with ⟨_, _, _, e3⟩ | ⟨hji, hj'⟩
    · exact absurd e3 hpc
    · rw [hsubs]
      rcases r4 j t' sid' pc hj' hpc with h1 | ⟨k, hk⟩
      · left
        have hne : (sid', t') ≠ (sid, t) := by
          intro hx; injection hx with e1 e2; subst e1
          exact hji (r2 j i t' t sid' pc _ hj' hold)
        exact (List.mem_erase_of_ne hne).mpr h1
      · right
        refine ⟨k, ?_⟩
        rw [hths]
        by_cases hki : k = i
        · subst hki; rw [hold] at hk; cases hk
        · exact set_get_of_ne _ _ _ _ _ hki hk

end Wm.GcReg
