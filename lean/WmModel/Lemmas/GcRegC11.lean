import WmModel.Lemmas.GcRegLive
namespace Wm.GcReg

/-- messages for which a sender goroutine was started on behalf of subscription `sid`, in start order -/
def sentTo (s : St) (sid : Nat) : List Nat := (s.started.filter (fun e => e.1 == sid)).map (·.2)
/-- persisted messages of topic `t`, in persist order -/
def logOf (s : St) (t : Nat) : List Nat := (s.log.filter (fun e => e.1 == t)).map (·.2)

def afterPersist : PPc → Bool
  | .send | .wait _ | .unlock => true
  | _ => false

theorem filter_map_pairs_self (l : List Nat) (t : Nat) :
    ((l.map (fun m => (t, m))).filter (fun e => e.1 == t)).map (·.2) = l := by
  induction l with
  | nil => rfl
  | cons a r ih => simp [List.filter, ih]

theorem filter_map_pairs_other (l : List Nat) (t t' : Nat) (h : t ≠ t') :
    ((l.map (fun m => (t, m))).filter (fun e => e.1 == t')).map (·.2) = [] := by
  induction l with
  | nil => rfl
  | cons a r ih => simp [List.filter, h, ih]

/-- the pairs `(sid', m)` for `sid'` ranging over a duplicate-free list contribute `m` exactly once to `sid`'s list
    if `sid` is in the list, nothing otherwise -/
theorem filter_snapshot (snap : List Nat) (m sid : Nat) (hnd : snap.Nodup) :
    ((snap.map (fun x => (x, m))).filter (fun e => e.1 == sid)).map (·.2) = if sid ∈ snap then [m] else [] := by
  induction snap with
  | nil => rfl
  | cons a r ih =>
    have hnd' := List.nodup_cons.mp hnd
    by_cases ha : a = sid
    · subst ha
      have : a ∉ r := hnd'.1
      simp [List.filter, ih hnd'.2, this]
    · have hne : (a == sid) = false := by simp [ha]
      simp only [List.map_cons, List.filter, hne]
      rw [ih hnd'.2]
      have : (sid ∈ a :: r) ↔ sid ∈ r := by
        simp; intro hx; exact absurd hx.symm ha
      by_cases hr : sid ∈ r <;> simp [hr, this]

theorem nodup_map_fst (l : List (Nat × Nat)) (t : Nat) (hnd : l.Nodup) (ht : ∀ x, x ∈ l → x.2 = t) :
    (l.map (·.1)).Nodup := by
  induction l with
  | nil => simp
  | cons a r ih =>
    have hnd' := List.nodup_cons.mp hnd
    rw [List.map_cons, List.nodup_cons]
    refine ⟨?_, ih hnd'.2 (fun x hx => ht x (List.mem_cons_of_mem _ hx))⟩
    intro hm
    simp only [List.mem_map] at hm
    obtain ⟨b, hb, hbe⟩ := hm
    have h1 := ht a (List.mem_cons_self)
    have h2 := ht b (List.mem_cons_of_mem _ hb)
    have : a = b := by
      rcases a with ⟨a1, a2⟩; rcases b with ⟨b1, b2⟩
      simp at hbe h1 h2; rw [hbe, h1, h2]
    subst this; exact hnd'.1 hb

theorem subsOf_nodup (s : St) (t : Nat) (h : s.subs.Nodup) : (subsOf s t).Nodup := by
  unfold subsOf
  refine nodup_map_fst _ t (h.filter _) ?_
  intro x hx
  simp only [List.mem_filter] at hx
  simpa using hx.2

theorem mem_subsOf (s : St) (t sid : Nat) : sid ∈ subsOf s t ↔ (sid, t) ∈ s.subs := by
  simp only [subsOf, List.mem_map, List.mem_filter]
  constructor
  · rintro ⟨⟨b1, b2⟩, ⟨hb, hbt⟩, hba⟩
    simp at hbt hba; subst hbt; subst hba; exact hb
  · intro h; exact ⟨(sid, t), ⟨h, by simp⟩, rfl⟩

end Wm.GcReg

namespace Wm.GcReg

/-- C11 on the registry model: senders started per registered subscription versus the persisted log of its topic -/
def C11Ok (s : St) : Prop :=
  (∀ (i t : Nat) (r : List Nat) (ao : Option (Nat × Nat)), s.ths[i]? = some (Th.pub t r PPc.unlock ao) → r = []) ∧
  (s.cfg.persistent = true →
    ∀ (sid t : Nat), (sid, t) ∈ s.subs →
      (∀ (i : Nat) (r : List Nat) (pc : PPc) (ao : Option (Nat × Nat)),
          s.ths[i]? = some (Th.pub t r pc ao) → afterPersist pc = true → sentTo s sid ++ r = logOf s t) ∧
      ((∀ (i : Nat) (r : List Nat) (pc : PPc) (ao : Option (Nat × Nat)),
          s.ths[i]? = some (Th.pub t r pc ao) → afterPersist pc = false) → sentTo s sid = logOf s t))

theorem c11_init (cfg : Cfg) : C11Ok (init cfg) := by simp [C11Ok, init]

/-- is a Publish thread past its persist step; carries topic and remaining batch -/
def afterP : Th → Option (Nat × List Nat)
  | .pub t r pc _ => if afterPersist pc then some (t, r) else none
  | _ => none

theorem afterP_pub (t : Nat) (r : List Nat) (pc : PPc) (ao : Option (Nat × Nat)) :
    afterP (.pub t r pc ao) = if afterPersist pc then some (t, r) else none := rfl

/-- frame: `subs`, `started`, `log`, `cfg` unchanged; thread `i` changes in a way that keeps its "past persist" view -/
theorem c11_set_frame (s u : St) (i : Nat) (old new : Th) (hold : s.ths[i]? = some old)
    (hths : u.ths = s.ths.set i new) (h1 : ∀ x, x ∈ u.subs → x ∈ s.subs) (h2 : u.started = s.started) (h3 : u.log = s.log)
    (h4 : u.cfg = s.cfg) (hv : afterP new = afterP old)
    (hu : ∀ t r ao, new = Th.pub t r PPc.unlock ao → r = []) (h : C11Ok s) : C11Ok u := by
  obtain ⟨c0, c1⟩ := h
  have hs : ∀ sid, sentTo u sid = sentTo s sid := by intro sid; simp [sentTo, h2]
  have hl : ∀ t, logOf u t = logOf s t := by intro t; simp [logOf, h3]
  have hi : i < s.ths.length := (List.getElem?_eq_some_iff.mp hold).1
  -- past-persist Publish threads of `u` and `s` correspond
  have back : ∀ (j t : Nat) (r : List Nat) (pc : PPc) (ao : Option (Nat × Nat)), u.ths[j]? = some (Th.pub t r pc ao) →
      afterPersist pc = true → ∃ pc0 ao0, s.ths[j]? = some (Th.pub t r pc0 ao0) ∧ afterPersist pc0 = true := by
    intro j t r pc ao hj hp
    rw [hths] at hj
    rcases get_set_cases _ _ _ _ _ hj with ⟨hji, hth⟩ | ⟨_, hj'⟩
    · subst hji; subst hth
      rw [afterP_pub, hp] at hv
      cases old with
      | pub t0 r0 pc0 ao0 =>
        rw [afterP_pub] at hv
        by_cases hp0 : afterPersist pc0 = true
        · simp [hp0] at hv; obtain ⟨e1, e2⟩ := hv; subst e1; subst e2; exact ⟨pc0, ao0, hold, hp0⟩
        · simp [hp0] at hv
      | sub _ _ _ => simp [afterP] at hv
      | td _ _ _ => simp [afterP] at hv
      | closer _ => simp [afterP] at hv
    · exact ⟨pc, ao, hj', hp⟩
  have fwd : ∀ (j t : Nat) (r : List Nat) (pc : PPc) (ao : Option (Nat × Nat)), s.ths[j]? = some (Th.pub t r pc ao) →
      afterPersist pc = true → ∃ pc1 ao1, u.ths[j]? = some (Th.pub t r pc1 ao1) ∧ afterPersist pc1 = true := by
    intro j t r pc ao hj hp
    by_cases hji : j = i
    · subst hji
      rw [hold] at hj; injection hj with hj; subst hj
      rw [afterP_pub, hp] at hv
      cases new with
      | pub t1 r1 pc1 ao1 =>
        rw [afterP_pub] at hv
        by_cases hp1 : afterPersist pc1 = true
        · simp [hp1] at hv; obtain ⟨e1, e2⟩ := hv; subst e1; subst e2
          exact ⟨pc1, ao1, by rw [hths]; exact List.getElem?_set_self hi, hp1⟩
        · simp [hp1] at hv
      | sub _ _ _ => simp [afterP] at hv
      | td _ _ _ => simp [afterP] at hv
      | closer _ => simp [afterP] at hv
    · exact ⟨pc, ao, by rw [hths]; exact set_get_of_ne _ _ _ _ _ hji hj, hp⟩
  refine ⟨?_, ?_⟩
  · intro j t r ao hj
    rw [hths] at hj
    rcases get_set_cases _ _ _ _ _ hj with ⟨_, hth⟩ | ⟨_, hj'⟩
    · exact hu t r ao hth.symm
    · exact c0 j t r ao hj'
  · intro hp sid t hm
    rw [h4] at hp; have hm := h1 _ hm
    obtain ⟨ca, cb⟩ := c1 hp sid t hm
    refine ⟨?_, ?_⟩
    · intro j r pc ao hj hpc
      obtain ⟨pc0, ao0, hj0, hp0⟩ := back j t r pc ao hj hpc
      rw [hs, hl]; exact ca j r pc0 ao0 hj0 hp0
    · intro hnone
      rw [hs, hl]
      apply cb
      intro j r pc ao hj
      cases hp' : afterPersist pc with
      | false => rfl
      | true =>
        obtain ⟨pc1, ao1, hj1, hp1⟩ := fwd j t r pc ao hj hp'
        have := hnone j r pc1 ao1 hj1
        rw [hp1] at this; cases this

theorem c11_append (s u : St) (new : Th) (hn : afterP new = none) (hu : ∀ t r ao, new ≠ Th.pub t r PPc.unlock ao)
    (hths : u.ths = s.ths ++ [new]) (h1 : u.subs = s.subs) (h2 : u.started = s.started) (h3 : u.log = s.log)
    (h4 : u.cfg = s.cfg) (h : C11Ok s) : C11Ok u := by
  obtain ⟨c0, c1⟩ := h
  have hs : ∀ sid, sentTo u sid = sentTo s sid := by intro sid; simp [sentTo, h2]
  have hl : ∀ t, logOf u t = logOf s t := by intro t; simp [logOf, h3]
  refine ⟨?_, ?_⟩
  · intro j t r ao hj
    rw [hths] at hj
    rcases get_append_cases _ _ _ _ hj with ⟨_, hj'⟩ | ⟨_, hth⟩
    · exact c0 j t r ao hj'
    · exact absurd hth.symm (hu t r ao)
  · intro hp sid t hm
    rw [h4] at hp; rw [h1] at hm
    obtain ⟨ca, cb⟩ := c1 hp sid t hm
    refine ⟨?_, ?_⟩
    · intro j r pc ao hj hpc
      rw [hths] at hj
      rcases get_append_cases _ _ _ _ hj with ⟨_, hj'⟩ | ⟨_, hth⟩
      · rw [hs, hl]; exact ca j r pc ao hj' hpc
      · subst hth; rw [afterP_pub, hpc] at hn; simp at hn
    · intro hnone
      rw [hs, hl]
      apply cb
      intro j r pc ao hj
      exact hnone j r pc ao (by rw [hths]; exact append_get_of_get _ _ _ _ hj)

theorem c11_congr (s u : St) (h0 : u.ths = s.ths) (h1 : u.subs = s.subs) (h2 : u.started = s.started) (h3 : u.log = s.log)
    (h4 : u.cfg = s.cfg) (h : C11Ok s) : C11Ok u := by
  unfold C11Ok sentTo logOf at *
  rw [h0, h1, h2, h3, h4]; exact h

end Wm.GcReg

namespace Wm.GcReg

def projL (l : List (Nat × Nat)) (k : Nat) : List Nat := (l.filter (fun e => e.1 == k)).map (·.2)

theorem sentTo_eq (s : St) (sid : Nat) : sentTo s sid = projL s.started sid := rfl
theorem logOf_eq (s : St) (t : Nat) : logOf s t = projL s.log t := rfl

theorem projL_append (a b : List (Nat × Nat)) (k : Nat) : projL (a ++ b) k = projL a k ++ projL b k := by
  simp [projL, List.filter_append]

theorem projL_pairs_self (l : List Nat) (t : Nat) : projL (l.map (fun m => (t, m))) t = l :=
  filter_map_pairs_self l t

theorem projL_pairs_other (l : List Nat) (t t' : Nat) (h : t ≠ t') : projL (l.map (fun m => (t, m))) t' = [] :=
  filter_map_pairs_other l t t' h

theorem projL_snapshot (snap : List Nat) (m sid : Nat) (hnd : snap.Nodup) :
    projL (snap.map (fun x => (x, m))) sid = if sid ∈ snap then [m] else [] :=
  filter_snapshot snap m sid hnd

theorem projL_replay (l : List (Nat × Nat)) (t sid sid' : Nat) :
    projL ((l.filter (fun e => e.1 == t)).map (fun tm => (sid, tm.2))) sid' = if sid' = sid then projL l t else [] := by
  unfold projL
  by_cases h : sid' = sid
  · subst h
    simp only [if_true]
    induction l with
    | nil => rfl
    | cons a r ih =>
      by_cases ha : a.1 = t
      · simp [List.filter, ha]; simpa [List.filter] using ih
      · have : (a.1 == t) = false := by simp [ha]
        simp only [List.filter, this]; exact ih
  · simp only [h, if_false]
    induction l with
    | nil => rfl
    | cons a r ih =>
      by_cases ha : a.1 = t
      · have hne : (sid == sid') = false := by simp; intro hx; exact h hx.symm
        simp [List.filter, ha, hne]; simpa [List.filter] using ih
      · have : (a.1 == t) = false := by simp [ha]
        simp only [List.filter, this]; exact ih

end Wm.GcReg
