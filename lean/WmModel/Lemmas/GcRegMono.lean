import WmModel.GcReg
namespace Wm.GcReg

/-- `g.closing` is never re-opened and the configuration never changes -/
theorem closing_mono (s s' : St) (a : Action) (ha : act s a = some s') :
    (s.closingSig = true → s'.closingSig = true) ∧ s'.cfg = s.cfg := by
  cases a <;> simp only [act] at ha
  case newPub t msgs nested =>
    cases nested with
    | none => simp at ha; subst ha; exact ⟨fun x => x, rfl⟩
    | some p =>
      simp only at ha
      split at ha
      · simp at ha; subst ha; exact ⟨fun x => x, rfl⟩
      · simp at ha
  case newSub t => simp at ha; subst ha; exact ⟨fun x => x, rfl⟩
  case newClose => simp at ha; subst ha; exact ⟨fun x => x, rfl⟩
  case cancel sid => simp at ha; subst ha; exact ⟨fun x => x, rfl⟩
  case senderDone d sid =>
    split at ha
    · simp at ha; subst ha; exact ⟨fun x => x, rfl⟩
    · simp at ha
  case step i =>
    split at ha
    · rename_i t rest pc ao hth
      cases pc <;> simp only [stepPub] at ha <;> (repeat' split at ha) <;> (try (simp at ha)) <;>
        (try (subst ha; exact ⟨fun x => by simpa [setTh] using x, by simp [setTh]⟩))
    · rename_i t sid pc hth
      cases pc <;> simp only [stepSub] at ha <;> (repeat' split at ha) <;> (try (simp at ha)) <;>
        (try (subst ha; exact ⟨fun x => by simpa [setTh] using x, by simp [setTh]⟩))
    · rename_i t sid pc hth
      cases pc <;> simp only [stepTd] at ha <;> (repeat' split at ha) <;> (try (simp at ha)) <;>
        (try (subst ha; exact ⟨fun x => by simpa [setTh] using x, by simp [setTh]⟩))
    · rename_i pc hth
      cases pc <;> simp only [stepCloser] at ha <;> (repeat' split at ha) <;> (try (simp at ha)) <;>
        (try (subst ha; exact ⟨fun x => by simp [setTh, x], by simp [setTh]⟩))
    · simp at ha

end Wm.GcReg
